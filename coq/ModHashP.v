(* ModHashP.v - proofs about ModHash.v (ly_ctx_get_modules_hash, change counter) *)
From LY Require Import Base HashFn ModHash.
From Coq Require Import ZifyBool ZifyNat ZifyN.
Local Open Scope N_scope.

(* ------------------------------------------------------------------------------------------------ *)
(* list helpers                                                                                      *)
(* ------------------------------------------------------------------------------------------------ *)
Lemma skipn_nth_cons {A} (l : list A) n x : nth_error l n = Some x -> skipn n l = x :: skipn (S n) l.
Proof.
  revert n; induction l as [|y l IH]; intros [|n] H; cbn in *; try discriminate.
  - injection H as ->. reflexivity.
  - apply IH in H. exact H.
Qed.

Lemma skipn_nth_none {A} (l : list A) n : nth_error l n = None -> skipn n l = [].
Proof. intros H. apply skipn_all2. apply nth_error_None. exact H. Qed.

Lemma length_concat_skipn {A} (l : list (list A)) n : (length (concat (skipn n l)) <= length (concat l))%nat.
Proof.
  revert n; induction l as [|x l IH]; intros [|n]; cbn; try lia.
  rewrite app_length. specialize (IH n). lia.
Qed.

Lemma enabled_names_app a b : enabled_names (a ++ b) = enabled_names a ++ enabled_names b.
Proof. unfold enabled_names. rewrite filter_app, map_app. reflexivity. Qed.

Lemma enabled_names_concat l : enabled_names (concat l) = concat (map enabled_names l).
Proof.
  induction l as [|x l IH]; cbn [concat map]; [reflexivity|]. rewrite enabled_names_app, IH. reflexivity.
Qed.

Lemma enabled_names_cons f r :
  enabled_names (f :: r) = if f_en f then f_name f :: enabled_names r else enabled_names r.
Proof. unfold enabled_names. cbn [filter]. destruct (f_en f); reflexivity. Qed.

(* ------------------------------------------------------------------------------------------------ *)
(* the feature iterator                                                                              *)
(* ------------------------------------------------------------------------------------------------ *)
Definition next_pos (last : option nat) : nat := match last with None => O | Some p => S p end.

(* the features still to come when the iterator stands at (idx, last) *)
Definition remaining (last : option nat) (gs : list (list feat)) (idx : nat) : list feat :=
  match nth_error gs idx with
  | None => []
  | Some fs => skipn (next_pos last) fs ++ concat (skipn (S idx) gs)
  end.

Lemma remaining_none gs idx : remaining None gs idx = concat (skipn idx gs).
Proof.
  unfold remaining. destruct (nth_error gs idx) as [fs|] eqn:E.
  - rewrite (skipn_nth_cons _ _ _ E). reflexivity.
  - rewrite (skipn_nth_none _ _ E). reflexivity.
Qed.

Lemma feature_next_spec fuel : forall last gs idx, (length gs - idx < fuel)%nat ->
  match remaining last gs idx with
  | [] => feature_next fuel last gs idx = FN_none (Nat.max idx (length gs))
  | f :: r => exists idx' pos', feature_next fuel last gs idx = FN_feat idx' pos' f /\
                                 remaining (Some pos') gs idx' = r /\ (idx <= idx' < length gs)%nat
  end.
Proof.
  induction fuel as [|fuel IH]; intros last gs idx Hf; [lia|].
  unfold remaining. cbn [feature_next].
  destruct (nth_error gs idx) as [fs|] eqn:Eg.
  - assert (Hidx : (idx < length gs)%nat) by (apply nth_error_Some; congruence).
    fold (next_pos last).
    destruct (nth_error fs (next_pos last)) as [f|] eqn:Ef.
    + rewrite (skipn_nth_cons _ _ _ Ef). cbn [app].
      exists idx, (next_pos last). split; [reflexivity|]. split; [|lia].
      unfold remaining. rewrite Eg. reflexivity.
    + rewrite (skipn_nth_none _ _ Ef). cbn [app].
      rewrite <- remaining_none.
      specialize (IH None gs (S idx)).
      assert (Hf' : (length gs - S idx < fuel)%nat) by lia. specialize (IH Hf').
      destruct (remaining None gs (S idx)) as [|f r].
      * rewrite IH. f_equal. lia.
      * destruct IH as (idx' & pos' & H1 & H2 & H3). exists idx', pos'. repeat split; try assumption; lia.
  - assert (Hidx : (length gs <= idx)%nat) by (apply nth_error_None; exact Eg).
    f_equal. lia.
Qed.

Lemma feat_loop_spec fuel : forall last gs fi h, (length (remaining last gs fi) < fuel)%nat ->
  feat_loop fuel last gs fi h =
  Some (fold_left hash_str (enabled_names (remaining last gs fi)) h, Nat.max fi (length gs)).
Proof.
  induction fuel as [|fuel IH]; intros last gs fi h Hf; [lia|].
  cbn [feat_loop].
  pose proof (feature_next_spec (S (S (length gs))) last gs fi) as Hn.
  assert (Hlt : (length gs - fi < S (S (length gs)))%nat) by lia. specialize (Hn Hlt).
  destruct (remaining last gs fi) as [|f r] eqn:Er.
  - rewrite Hn. reflexivity.
  - destruct Hn as (idx' & pos' & H1 & H2 & H3). rewrite H1.
    rewrite IH by (rewrite H2; cbn in Hf; lia).
    rewrite H2, enabled_names_cons.
    replace (Nat.max idx' (length gs)) with (Nat.max fi (length gs)) by lia.
    destruct (f_en f); reflexivity.
Qed.

(* ------------------------------------------------------------------------------------------------ *)
(* closed form of the hash                                                                           *)
(* ------------------------------------------------------------------------------------------------ *)
Lemma mod_step_spec reset h fi m :
  mod_step reset (Some (h, fi)) m =
  Some (fold_left hash_str (mod_chunks (if reset then O else fi) m) h, fi_after (if reset then O else fi) m).
Proof.
  unfold mod_step. set (fi0 := if reset then O else fi).
  rewrite feat_loop_spec.
  2:{ rewrite remaining_none. unfold total_feats. pose proof (length_concat_skipn (groups m) fi0). lia. }
  rewrite remaining_none. unfold mod_chunks, fi_after, visited, rev_chunk.
  rewrite !fold_left_app. cbn [fold_left].
  destruct (h_rev m); reflexivity.
Qed.

Lemma fold_mod_step_spec reset : forall ms h fi,
  fold_left (mod_step reset) ms (Some (h, fi)) =
  Some (fold_left hash_str (chunks_from reset fi ms) h,
        fold_left (fun fi m => fi_after (if reset then O else fi) m) ms fi).
Proof.
  induction ms as [|m ms IH]; intros h fi; cbn [fold_left chunks_from]; [reflexivity|].
  rewrite mod_step_spec, IH, fold_left_app. reflexivity.
Qed.

(* the model never runs out of fuel, and the hash is the hash of the chunk list *)
Theorem modhash_gen_chunks reset ms : modhash_gen reset ms = Some (hash_chunks (chunks_gen reset ms)).
Proof. unfold modhash_gen, hash_chunks, chunks_gen. rewrite fold_mod_step_spec. reflexivity. Qed.

(* for non-empty strings feeding them one after the other is feeding their concatenation *)
Lemma hash_str_nonempty h s : nonempty s = true -> hash_str h s = fold_left hash_step s h.
Proof. destruct s; [discriminate|reflexivity]. Qed.

Lemma fold_hash_str_concat cs : forall h, forallb nonempty cs = true ->
  fold_left hash_str cs h = fold_left hash_step (concat cs) h.
Proof.
  induction cs as [|c cs IH]; intros h H; cbn [fold_left concat forallb] in *; [reflexivity|].
  apply andb_true_iff in H. destruct H as [Hc H].
  rewrite fold_left_app, hash_str_nonempty by exact Hc. apply IH. exact H.
Qed.

Lemma forallb_nonempty_names fs : forallb (fun f => nonempty (f_name f)) fs = true ->
  forallb nonempty (enabled_names fs) = true.
Proof.
  induction fs as [|f fs IH]; intros H; [reflexivity|].
  cbn in H. apply andb_true_iff in H. destruct H as [H1 H2].
  rewrite enabled_names_cons. destruct (f_en f); cbn; rewrite ?H1; auto.
Qed.

Lemma forallb_skipn_concat {A} (p : A -> bool) (l : list (list A)) n :
  forallb p (concat l) = true -> forallb p (concat (skipn n l)) = true.
Proof.
  revert n; induction l as [|x l IH]; intros [|n] H; cbn in *; auto.
  rewrite forallb_app in H. apply andb_true_iff in H. apply IH. apply H.
Qed.

Lemma mod_chunks_nonempty fi m : wf_mod m = true -> forallb nonempty (mod_chunks fi m) = true.
Proof.
  unfold wf_mod, mod_chunks, rev_chunk. intros H.
  apply andb_true_iff in H. destruct H as [H H3]. apply andb_true_iff in H. destruct H as [H1 H2].
  cbn [app forallb]. rewrite H1. cbn [andb].
  rewrite !forallb_app.
  assert (Hr : forallb nonempty (match h_rev m with Some r => [r] | None => [] end) = true).
  { destruct (h_rev m); cbn; rewrite ?H2; reflexivity. }
  rewrite Hr. cbn [andb].
  rewrite forallb_nonempty_names by (apply forallb_skipn_concat; exact H3).
  reflexivity.
Qed.

Lemma chunks_from_nonempty reset : forall ms fi, forallb wf_mod ms = true ->
  forallb nonempty (chunks_from reset fi ms) = true.
Proof.
  induction ms as [|m ms IH]; intros fi H; cbn [chunks_from forallb] in *; [reflexivity|].
  apply andb_true_iff in H. destruct H as [H1 H2].
  rewrite forallb_app, mod_chunks_nonempty by exact H1. apply IH. exact H2.
Qed.

(* for well-formed modules the hash is the one-at-a-time hash of the byte stream *)
Theorem modhash_gen_stream reset ms : forallb wf_mod ms = true ->
  modhash_gen reset ms = Some (hash_stream (stream_gen reset ms)).
Proof.
  intros H. rewrite modhash_gen_chunks. unfold hash_chunks, hash_stream, stream_gen, chunks_gen.
  rewrite fold_hash_str_concat by (apply chunks_from_nonempty; exact H). reflexivity.
Qed.

(* ------------------------------------------------------------------------------------------------ *)
(* congruence: the hash is a function of the observable                                              *)
(* ------------------------------------------------------------------------------------------------ *)
Definition obs_chunks (fi : nat) (o : bytes * option bytes * bool * list (list bytes)) : list bytes :=
  let '(n, r, i, gs) := o in
  [n] ++ (match r with Some r' => [r'] | None => [] end) ++ concat (skipn fi gs) ++ [[if i then 1 else 0]].

Lemma mod_chunks_obs fi m : mod_chunks fi m = obs_chunks fi (obs m).
Proof.
  unfold mod_chunks, obs_chunks, obs, visited, rev_chunk, impl_byte.
  rewrite enabled_names_concat, skipn_map. reflexivity.
Qed.

Lemma fi_after_obs fi m : fi_after fi m = Nat.max fi (length (snd (obs m))).
Proof. unfold fi_after, obs. cbn [snd]. rewrite map_length. reflexivity. Qed.

Lemma chunks_from_congruent reset : forall ms ms' fi, map obs ms = map obs ms' ->
  chunks_from reset fi ms = chunks_from reset fi ms'.
Proof.
  induction ms as [|m ms IH]; intros [|m' ms'] fi H; cbn [map] in H; try discriminate; [reflexivity|].
  assert (Ho : obs m = obs m') by (exact (f_equal (fun l => hd (obs m) l) H)).
  assert (Ht : map obs ms = map obs ms') by (exact (f_equal (@tl _) H)).
  cbn [chunks_from].
  rewrite !mod_chunks_obs, !fi_after_obs, Ho. f_equal. apply IH. exact Ht.
Qed.

Theorem modhash_gen_congruent reset ms ms' : map obs ms = map obs ms' -> modhash_gen reset ms = modhash_gen reset ms'.
Proof.
  intros H. rewrite !modhash_gen_chunks. unfold chunks_gen. rewrite (chunks_from_congruent reset ms ms' O H). reflexivity.
Qed.

(* with the index reset per module the flat observable suffices *)
Lemma mod_chunks0_flat m : mod_chunks O m =
  let '(n, r, i, fs) := obs_flat m in [n] ++ (match r with Some r' => [r'] | None => [] end) ++ fs ++ [[if i then 1 else 0]].
Proof. reflexivity. Qed.

Lemma chunks_from_congruent_flat : forall ms ms' fi fi', map obs_flat ms = map obs_flat ms' ->
  chunks_from true fi ms = chunks_from true fi' ms'.
Proof.
  induction ms as [|m ms IH]; intros [|m' ms'] fi fi' H; cbn [map] in H; try discriminate; [reflexivity|].
  assert (Ho : obs_flat m = obs_flat m') by (exact (f_equal (fun l => hd (obs_flat m) l) H)).
  assert (Ht : map obs_flat ms = map obs_flat ms') by (exact (f_equal (@tl _) H)).
  cbn [chunks_from].
  rewrite !mod_chunks0_flat, Ho. f_equal. apply IH. exact Ht.
Qed.

Theorem modhash_fixed_congruent_flat ms ms' :
  map obs_flat ms = map obs_flat ms' -> modhash_gen true ms = modhash_gen true ms'.
Proof.
  intros H. rewrite !modhash_gen_chunks. unfold chunks_gen.
  rewrite (chunks_from_congruent_flat ms ms' O O H). reflexivity.
Qed.

(* ------------------------------------------------------------------------------------------------ *)
(* which fields the stream reads                                                                     *)
(* ------------------------------------------------------------------------------------------------ *)
(* iterator index after a list of modules *)
Definition fi_end (reset : bool) (fi : nat) (ms : list hmod) : nat :=
  fold_left (fun fi m => fi_after (if reset then O else fi) m) ms fi.

Lemma chunks_from_app reset : forall a b fi,
  chunks_from reset fi (a ++ b) = chunks_from reset fi a ++ chunks_from reset (fi_end reset fi a) b.
Proof.
  induction a as [|m a IH]; intros b fi; cbn [app chunks_from]; [reflexivity|].
  rewrite IH, app_assoc. reflexivity.
Qed.

(* index with which module m is walked when it follows the modules pre *)
Definition fi_at (reset : bool) (pre : list hmod) : nat := if reset then O else fi_end reset O pre.

Definition mstream (fi : nat) (m : hmod) : bytes := concat (mod_chunks fi m).

Lemma stream_gen_split reset pre m post :
  stream_gen reset (pre ++ m :: post) =
  concat (chunks_from reset O pre) ++ mstream (fi_at reset pre) m ++
  concat (chunks_from reset (fi_after (fi_at reset pre) m) post).
Proof.
  unfold stream_gen, chunks_gen, mstream, fi_at. rewrite chunks_from_app. cbn [chunks_from].
  rewrite !concat_app. reflexivity.
Qed.

Lemma mstream_eq fi m :
  mstream fi m = h_name m ++ concat (rev_chunk m) ++ concat (enabled_names (visited fi m)) ++ [impl_byte m].
Proof.
  unfold mstream, mod_chunks. rewrite !concat_app. cbn [concat]. rewrite !app_nil_r. reflexivity.
Qed.

(* two modules with the same number of feature arrays in the same place: the streams are equal iff the
   module streams are *)
Lemma stream_gen_replace reset pre m m' post : length (groups m) = length (groups m') ->
  (stream_gen reset (pre ++ m :: post) = stream_gen reset (pre ++ m' :: post) <->
   mstream (fi_at reset pre) m = mstream (fi_at reset pre) m').
Proof.
  intros Hl. rewrite !stream_gen_split. unfold fi_after. rewrite Hl. split; intros H.
  - apply app_inv_head in H. apply app_inv_tail in H. exact H.
  - rewrite H. reflexivity.
Qed.

(* m' arises from m by toggling the enabled flag of one feature of feature array number g *)
Definition feature_toggled (m m' : hmod) (g : nat) (fname : bytes) : Prop :=
  h_name m = h_name m' /\ h_rev m = h_rev m' /\ h_impl m = h_impl m' /\
  exists gs1 fs1 e fs2 gs2, length gs1 = g /\
    groups m = gs1 ++ (fs1 ++ mkfeat fname e :: fs2) :: gs2 /\
    groups m' = gs1 ++ (fs1 ++ mkfeat fname (negb e) :: fs2) :: gs2.

Lemma feature_toggled_length m m' g fname : feature_toggled m m' g fname -> length (groups m) = length (groups m').
Proof.
  intros (_ & _ & _ & gs1 & fs1 & e & fs2 & gs2 & _ & -> & ->). rewrite !app_length. reflexivity.
Qed.

Lemma app_self_nil {A} (x y : list A) : x ++ y = y -> x = [].
Proof.
  intros H. assert (Hl : length (x ++ y) = length y) by (rewrite H; reflexivity).
  rewrite app_length in Hl. destruct x; [reflexivity|cbn in Hl; lia].
Qed.

(* a visited feature: its toggle changes the module stream *)
Lemma mstream_toggle_visited fi m m' g fname :
  feature_toggled m m' g fname -> nonempty fname = true -> (fi <= g)%nat -> mstream fi m <> mstream fi m'.
Proof.
  intros (Hn & Hr & Hi & gs1 & fs1 & e & fs2 & gs2 & Hg & Hm & Hm') Hne Hfi H.
  rewrite !mstream_eq in H. unfold rev_chunk, impl_byte, visited in H.
  rewrite Hn, Hr, Hi, Hm, Hm' in H.
  apply app_inv_head in H. apply app_inv_head in H. apply app_inv_tail in H.
  rewrite !skipn_app in H.
  replace (fi - length gs1)%nat with O in H by lia. cbn [skipn] in H.
  rewrite !concat_app in H. cbn [concat] in H.
  rewrite !enabled_names_app, !enabled_names_cons in H. cbn [f_en f_name] in H.
  rewrite !concat_app in H.
  destruct e; cbn [negb concat] in H; rewrite <- !app_assoc in H;
    apply app_inv_head in H; apply app_inv_head in H.
  - apply app_self_nil in H. subst fname. discriminate.
  - symmetry in H. apply app_self_nil in H. subst fname. discriminate.
Qed.

(* a skipped feature: its toggle leaves the module stream unchanged *)
Lemma mstream_toggle_skipped fi m m' g fname :
  feature_toggled m m' g fname -> (g < fi)%nat -> mstream fi m = mstream fi m'.
Proof.
  intros (Hn & Hr & Hi & gs1 & fs1 & e & fs2 & gs2 & Hg & Hm & Hm') Hfi.
  rewrite !mstream_eq. unfold rev_chunk, impl_byte, visited.
  rewrite Hn, Hr, Hi, Hm, Hm'.
  rewrite !skipn_app.
  replace (skipn fi gs1) with (@nil (list feat)) by (symmetry; apply skipn_all2; lia).
  destruct (fi - length gs1)%nat as [|k] eqn:Ek; [lia|]. reflexivity.
Qed.

(* ---- single field changes ---- *)
Inductive field_change : hmod -> hmod -> Prop :=
| FC_name m n : n <> h_name m -> field_change m (mkhmod n (h_rev m) (h_impl m) (h_feats m) (h_subs m))
| FC_rev m r : r <> h_rev m -> field_change m (mkhmod (h_name m) r (h_impl m) (h_feats m) (h_subs m))
| FC_impl m : field_change m (mkhmod (h_name m) (h_rev m) (negb (h_impl m)) (h_feats m) (h_subs m)).

Lemma rev_chunk_inj m m' : wf_mod m = true -> wf_mod m' = true ->
  concat (rev_chunk m) = concat (rev_chunk m') -> h_rev m = h_rev m'.
Proof.
  unfold wf_mod, rev_chunk. intros H H' E.
  apply andb_true_iff in H. destruct H as [H _]. apply andb_true_iff in H. destruct H as [_ H].
  apply andb_true_iff in H'. destruct H' as [H' _]. apply andb_true_iff in H'. destruct H' as [_ H'].
  destruct (h_rev m) as [r|], (h_rev m') as [r'|]; cbn in E; rewrite ?app_nil_r in E; subst;
    try reflexivity; discriminate.
Qed.

(* name, revision and implemented flag of EVERY module are read, whatever the iterator index *)
Lemma mstream_field_change fi m m' : wf_mod m = true -> wf_mod m' = true -> field_change m m' ->
  mstream fi m <> mstream fi m'.
Proof.
  intros Hw Hw' Hc H. rewrite !mstream_eq in H. destruct Hc as [m0 n Hn|m0 r Hr|m0].
  - unfold rev_chunk, visited, impl_byte, groups in H. cbn [h_name h_rev h_impl h_feats h_subs] in H.
    apply app_inv_tail in H. congruence.
  - unfold visited, impl_byte, groups in H. cbn [h_name h_impl h_feats h_subs] in H.
    apply app_inv_head in H. apply app_inv_tail in H.
    apply rev_chunk_inj in H; [|exact Hw|exact Hw']. cbn [h_rev] in H. congruence.
  - unfold rev_chunk, visited, impl_byte, groups in H. cbn [h_name h_rev h_impl h_feats h_subs] in H.
    apply app_inv_head in H. apply app_inv_head in H. apply app_inv_head in H.
    destruct (h_impl m0); discriminate.
Qed.

Lemma field_change_length m m' : field_change m m' -> length (groups m) = length (groups m').
Proof. intros [m0 n _|m0 r _|m0]; reflexivity. Qed.

Theorem stream_reads_name_rev_impl reset pre m m' post :
  wf_mod m = true -> wf_mod m' = true -> field_change m m' ->
  stream_gen reset (pre ++ m :: post) <> stream_gen reset (pre ++ m' :: post).
Proof.
  intros Hw Hw' Hc H. apply stream_gen_replace in H; [|apply field_change_length; exact Hc].
  exact (mstream_field_change _ _ _ Hw Hw' Hc H).
Qed.

(* with the index reset (fixed code) every feature of every module is read *)
Theorem stream_fixed_reads_features pre m m' post g fname :
  feature_toggled m m' g fname -> nonempty fname = true ->
  stream_gen true (pre ++ m :: post) <> stream_gen true (pre ++ m' :: post).
Proof.
  intros Ht Hne H. apply stream_gen_replace in H; [|eapply feature_toggled_length; exact Ht].
  cbn [fi_at] in H. eapply mstream_toggle_visited; [exact Ht|exact Hne| |exact H]. lia.
Qed.

(* as coded: the features of the first module are read *)
Theorem stream_coded_reads_features_first m m' post g fname :
  feature_toggled m m' g fname -> nonempty fname = true ->
  stream_gen false (m :: post) <> stream_gen false (m' :: post).
Proof.
  intros Ht Hne H. apply (stream_gen_replace false [] m m' post) in H; [|eapply feature_toggled_length; exact Ht].
  change (fi_at false []) with O in H. eapply mstream_toggle_visited; [exact Ht|exact Hne| |exact H]. lia.
Qed.

Lemma fi_end_false_ge : forall pre fi, (fi <= fi_end false fi pre)%nat.
Proof.
  induction pre as [|m pre IH]; intros fi; unfold fi_end; cbn [fold_left]; [lia|].
  specialize (IH (fi_after fi m)). unfold fi_end in IH. unfold fi_after in *. lia.
Qed.

Lemma fi_at_false_pos pre : pre <> [] -> (1 <= fi_at false pre)%nat.
Proof.
  destruct pre as [|m pre]; [congruence|]. intros _. unfold fi_at, fi_end. cbn [fold_left].
  pose proof (fi_end_false_ge pre (fi_after O m)) as H. unfold fi_end in H.
  unfold fi_after, groups in *. cbn [length] in *. lia.
Qed.

(* as coded: a feature of the module itself (feature array 0) of any module but the first is not read *)
Theorem stream_coded_skips_own_features pre m m' post fname :
  pre <> [] -> feature_toggled m m' O fname ->
  stream_gen false (pre ++ m :: post) = stream_gen false (pre ++ m' :: post).
Proof.
  intros Hp Ht. apply stream_gen_replace; [eapply feature_toggled_length; exact Ht|].
  eapply mstream_toggle_skipped; [exact Ht|]. pose proof (fi_at_false_pos pre Hp). lia.
Qed.

Lemma chunks_coded_skips_own_features pre m m' post fname :
  pre <> [] -> feature_toggled m m' O fname ->
  chunks_gen false (pre ++ m :: post) = chunks_gen false (pre ++ m' :: post).
Proof.
  intros Hp Ht. unfold chunks_gen. rewrite !chunks_from_app. cbn [chunks_from]. f_equal.
  pose proof (fi_at_false_pos pre Hp) as Hpos. unfold fi_at in Hpos.
  destruct Ht as (Hn & Hr & Hi & gs1 & fs1 & e & fs2 & gs2 & Hg & Hm & Hm').
  destruct gs1; [|discriminate]. cbn [app] in Hm, Hm'.
  assert (Hfa : fi_after (fi_end false O pre) m = fi_after (fi_end false O pre) m').
  { unfold fi_after. rewrite Hm, Hm'. reflexivity. }
  rewrite Hfa. f_equal.
  unfold mod_chunks, rev_chunk, impl_byte, visited. rewrite Hn, Hr, Hi, Hm, Hm'.
  destruct (fi_end false O pre) as [|k]; [lia|]. reflexivity.
Qed.

Theorem modhash_coded_skips_own_features pre m m' post fname :
  pre <> [] -> feature_toggled m m' O fname ->
  modhash_gen false (pre ++ m :: post) = modhash_gen false (pre ++ m' :: post).
Proof.
  intros Hp Ht. rewrite !modhash_gen_chunks. rewrite (chunks_coded_skips_own_features pre m m' post fname Hp Ht).
  reflexivity.
Qed.

(* ------------------------------------------------------------------------------------------------ *)
(* concrete witnesses (all confirmed on the real library by impl/t_yl.c)                              *)
(* ------------------------------------------------------------------------------------------------ *)
Definition s_m1 : bytes := [109;49].                                   (* m1 *)
Definition s_m2 : bytes := [109;50].                                   (* m2 *)
Definition s_rev : bytes := [50;48;50;48;45;48;49;45;48;49].           (* 2020-01-01 *)
Definition w_m1 : hmod := mkhmod s_m1 (Some s_rev) true [mkfeat [97] true; mkfeat [98] false] [].
Definition w_m2 (c : bool) : hmod := mkhmod s_m2 None true [mkfeat [99] c] [].

(* two module sets that differ only in the enabled feature c of the second module: one hash as coded,
   two hashes with the index reset *)
Lemma fi_witness :
  modhash_gen false [w_m1; w_m2 true] = Some 2169919692 /\ modhash_gen false [w_m1; w_m2 false] = Some 2169919692 /\
  modhash_gen true [w_m1; w_m2 true] = Some 2926982747 /\ modhash_gen true [w_m1; w_m2 false] = Some 2169919692 /\
  map obs [w_m1; w_m2 true] <> map obs [w_m1; w_m2 false].
Proof. repeat split; try (vm_compute; reflexivity). vm_compute. discriminate. Qed.

(* module m with features a, ab, bc, c: enabling {ab, c} or {a, bc} feeds the bytes m a b c 1 *)
Definition w_amb (e1 e2 e3 e4 : bool) : hmod :=
  mkhmod [109] None true [mkfeat [97] e1; mkfeat [97;98] e2; mkfeat [98;99] e3; mkfeat [99] e4] [].
(* module a revision 2020-01-01 / module a2020-01-01 without revision *)
Definition w_nr1 : hmod := mkhmod [97] (Some s_rev) true [] [].
Definition w_nr2 : hmod := mkhmod (97 :: s_rev) None true [] [].

Lemma concat_witness : forall reset,
  stream_gen reset [w_amb false true false true] = stream_gen reset [w_amb true false true false] /\
  modhash_gen reset [w_amb false true false true] = Some 2151593976 /\
  modhash_gen reset [w_amb true false true false] = Some 2151593976 /\
  map obs_flat [w_amb false true false true] <> map obs_flat [w_amb true false true false] /\
  stream_gen reset [w_nr1] = stream_gen reset [w_nr2] /\
  modhash_gen reset [w_nr1] = Some 3673482515 /\ modhash_gen reset [w_nr2] = Some 3673482515 /\
  map obs_flat [w_nr1] <> map obs_flat [w_nr2].
Proof. intros [|]; repeat split; try (vm_compute; reflexivity); vm_compute; discriminate. Qed.

(* ------------------------------------------------------------------------------------------------ *)
(* the delimited encoding is injective                                                               *)
(* ------------------------------------------------------------------------------------------------ *)
Definition zfree (s : bytes) : Prop := ~ In 0 s.

Lemma z_split a a' r r' : zfree a -> zfree a' -> a ++ 0 :: r = a' ++ 0 :: r' -> a = a' /\ r = r'.
Proof.
  revert a'; induction a as [|x a IH]; intros [|x' a'] Ha Ha' H; cbn in H.
  - injection H as ->. split; reflexivity.
  - injection H as <- _. exfalso. apply Ha'. left. reflexivity.
  - injection H as -> _. exfalso. apply Ha. left. reflexivity.
  - injection H as -> H. destruct (IH a') as [-> ->]; try assumption.
    + intros Hin. apply Ha. right. exact Hin.
    + intros Hin. apply Ha'. right. exact Hin.
    + split; reflexivity.
Qed.

Definition wf_obs (o : bytes * option bytes * bool * list bytes) : Prop :=
  let '(n, r, i, fs) := o in
  zfree n /\ (match r with Some r' => zfree r' /\ r' <> [] | None => True end) /\
  Forall (fun f => zfree f /\ f <> []) fs.

Lemma feats_split : forall fs fs' t t', Forall (fun f => zfree f /\ f <> []) fs ->
  Forall (fun f => zfree f /\ f <> []) fs' ->
  concat (map z fs) ++ 0 :: t = concat (map z fs') ++ 0 :: t' -> fs = fs' /\ t = t'.
Proof.
  induction fs as [|f fs IH]; intros [|f' fs'] t t' Hf Hf' H; cbn in H.
  - injection H as ->. split; reflexivity.
  - inversion Hf' as [|? ? [Hz Hn] _]; subst. unfold z in H. rewrite <- !app_assoc in H. cbn in H.
    destruct f' as [|b f']; [congruence|]. cbn in H. injection H as <- _.
    exfalso. apply Hz. left. reflexivity.
  - inversion Hf as [|? ? [Hz Hn] _]; subst. unfold z in H. rewrite <- !app_assoc in H. cbn in H.
    destruct f as [|b f]; [congruence|]. cbn in H. injection H as -> _.
    exfalso. apply Hz. left. reflexivity.
  - inversion Hf as [|? ? [Hz Hn] Hr]; subst. inversion Hf' as [|? ? [Hz' Hn'] Hr']; subst.
    unfold z in H. rewrite <- !app_assoc in H. cbn [app] in H.
    apply z_split in H; [|assumption|assumption]. destruct H as [-> H].
    destruct (IH fs' t t' Hr Hr' H) as [-> ->]. split; reflexivity.
Qed.

Lemma spec_mod_split o o' t t' : wf_obs o -> wf_obs o' ->
  spec_mod_stream o ++ t = spec_mod_stream o' ++ t' -> o = o' /\ t = t'.
Proof.
  destruct o as [[[n r] i] fs], o' as [[[n' r'] i'] fs']. unfold wf_obs, spec_mod_stream.
  intros (Hn & Hr & Hf) (Hn' & Hr' & Hf') H. unfold z in H. rewrite <- !app_assoc in H. cbn [app] in H.
  apply z_split in H; [|assumption|assumption]. destruct H as [-> H].
  assert (Hzr : zfree (match r with Some x => x | None => [] end)).
  { destruct r; [apply Hr|intros []]. }
  assert (Hzr' : zfree (match r' with Some x => x | None => [] end)).
  { destruct r'; [apply Hr'|intros []]. }
  apply z_split in H; [|assumption|assumption]. destruct H as [Er H].
  assert (r = r') as ->.
  { destruct r as [x|], r' as [x'|]; try reflexivity.
    - congruence.
    - destruct Hr as [_ Hr]. congruence.
    - destruct Hr' as [_ Hr']. congruence. }
  apply feats_split in H; [|assumption|assumption]. destruct H as [-> H].
  injection H as Hi ->.
  assert (i = i') as -> by (destruct i, i'; try reflexivity; discriminate).
  split; reflexivity.
Qed.

Theorem spec_stream_injective : forall os os', Forall wf_obs os -> Forall wf_obs os' ->
  spec_stream os = spec_stream os' -> os = os'.
Proof.
  unfold spec_stream.
  induction os as [|o os IH]; intros [|o' os'] Hw Hw' H; cbn [map concat] in H.
  - reflexivity.
  - exfalso. destruct o' as [[[n r] i] fs]. unfold spec_mod_stream, z in H. rewrite <- !app_assoc in H.
    destruct n; discriminate.
  - exfalso. destruct o as [[[n r] i] fs]. unfold spec_mod_stream, z in H. rewrite <- !app_assoc in H.
    destruct n; discriminate.
  - inversion Hw; subst. inversion Hw'; subst.
    apply spec_mod_split in H; [|assumption|assumption]. destruct H as [-> H].
    f_equal. apply IH; assumption.
Qed.

(* ------------------------------------------------------------------------------------------------ *)
(* change counter                                                                                    *)
(* ------------------------------------------------------------------------------------------------ *)
Lemma cc_after_eq c : c < U16 -> forall n, cc_after c n = (c + n) mod U16.
Proof.
  intros Hc n. unfold cc_after. induction n as [|n IH] using N.peano_ind.
  - cbn. rewrite N.add_0_r, N.mod_small by exact Hc. reflexivity.
  - rewrite N.iter_succ, IH. unfold cc_incr, U16 in *.
    rewrite N.add_mod_idemp_l by lia. f_equal. lia.
Qed.

(* one event: the value differs from the one before *)
Theorem cc_incr_changes c : c < U16 -> cc_incr c <> c.
Proof.
  intros Hc H. unfold cc_incr, U16 in *.
  destruct (N.eq_dec c 65535) as [->|Hne]; [vm_compute in H; discriminate|].
  rewrite N.mod_small in H by lia. lia.
Qed.

(* an operation with n events, 0 < n < 2^16: the value after differs from the value before *)
Theorem cc_after_changes c n : c < U16 -> 0 < n < U16 -> cc_after c n <> c.
Proof.
  intros Hc Hn H. rewrite cc_after_eq in H by exact Hc. unfold U16 in *.
  assert (Hm : (c + n) mod 65536 = c) by exact H.
  destruct (N.lt_ge_cases (c + n) 65536) as [Hlt|Hge].
  - rewrite N.mod_small in Hm by exact Hlt. lia.
  - assert (E : c + n = 65536 + (c + n - 65536)) by lia.
    rewrite E in Hm. rewrite <- N.add_mod_idemp_l in Hm by lia.
    rewrite N.mod_same in Hm by lia. rewrite N.add_0_l in Hm.
    rewrite N.mod_small in Hm by lia. lia.
Qed.

(* the counter is not monotone: after 2^16 events it has its old value *)
Theorem cc_wraps c : c < U16 -> cc_after c U16 = c.
Proof.
  intros Hc. rewrite cc_after_eq by exact Hc. unfold U16 in *.
  rewrite <- N.add_mod_idemp_r by lia. rewrite N.mod_same by lia. rewrite N.add_0_r.
  apply N.mod_small. exact Hc.
Qed.

Lemma cc_after_lt c n : c < U16 -> cc_after c n < U16.
Proof. intros Hc. rewrite cc_after_eq by exact Hc. apply N.mod_lt. unfold U16. lia. Qed.
