(* MergeP.v -- proofs about Merge.v (property C14).
   Plan: (A) list utilities, (B) what match_eq means, (C) the duplicate-instance cache invariant, (D) a relation
   MStep that describes one lyd_merge_sibling_r step without cache / flag requests and its soundness for merge_sib,
   (E) Canon is kept, (F) identities stay unique, (G) source content is contained / the rest is kept (by instance path),
   (I) idempotence for sources without duplicate-instance lists (relation level; superseded by L), (H) merge into the
   empty tree, (J) level-wise view of the relation: unmatched children are kept, leaf-list values are contained,
   subtrees the target lacks are copied, (K) positional matching: kth, the absorbed relation AbsN, the cache invariants
   CI2 (second merge) and E1 / E2 (first merge), idempotence with config false leaf-lists, (L) the same at full strength:
   updating with a fully equal instance changes only default flags (dp_stmt), merge_idempotent_full, (M) full positional
   containment merge_absorbs, (N) level-wise view of the function (level_fn): duplicate instances below an addressable
   node stay fully equal. *)
From Coq Require Import Permutation Sorted.
From LY Require Import Base Tree TreeP Merge.
From Coq Require Import ZifyBool ZifyNat ZifyN.
Local Open Scope N_scope.

(* ------------------------------------------------------------------------------------------- *)
(* A. lists                                                                                      *)
(* ------------------------------------------------------------------------------------------- *)
Lemma replace_nth_length {A} i (l : list A) x : length (replace_nth i l x) = length l.
Proof. revert i; induction l as [|a l IH]; intros [|i]; cbn [replace_nth length]; try reflexivity. rewrite IH. reflexivity. Qed.

Lemma replace_nth_same {A} i (l : list A) x : nth_error l i = Some x -> replace_nth i l x = l.
Proof.
  revert i; induction l as [|a l IH]; intros [|i] H; cbn in *; try discriminate.
  - inversion H. reflexivity.
  - rewrite (IH i H). reflexivity.
Qed.

Lemma nth_error_replace {A} i j (l : list A) x t :
  nth_error l i = Some t -> nth_error (replace_nth i l x) j = if Nat.eqb i j then Some x else nth_error l j.
Proof.
  revert i j; induction l as [|a l IH]; intros [|i] [|j] H; cbn in *; try discriminate; try reflexivity.
  apply IH. exact H.
Qed.

Lemma nth_nth_error {A} i (l : list A) d t : nth_error l i = Some t -> nth i l d = t.
Proof. revert i; induction l as [|a l IH]; intros [|i] H; cbn in *; try discriminate; [inversion H; reflexivity|apply IH, H]. Qed.

Lemma In_replace_nth {A} i (l : list A) x y : In y (replace_nth i l x) -> y = x \/ In y l.
Proof.
  revert i; induction l as [|a l IH]; intros [|i] H; cbn in *; try contradiction.
  - destruct H as [H|H]; [left; congruence|right; right; exact H].
  - destruct H as [H|H]; [right; left; exact H|]. destruct (IH i H) as [E|E]; [left; exact E|right; right; exact E].
Qed.

Lemma In_replace_nth_new {A} i (l : list A) x t : nth_error l i = Some t -> In x (replace_nth i l x).
Proof.
  revert i; induction l as [|a l IH]; intros [|i] H; cbn in *; try discriminate; [left; reflexivity|right; apply (IH i H)].
Qed.

(* an element of the old list is still there unless it sat at position i *)
Lemma In_replace_nth_old {A} i (l : list A) x t y :
  nth_error l i = Some t -> In y l -> y = t \/ In y (replace_nth i l x).
Proof.
  revert i; induction l as [|a l IH]; intros [|i] H Hy; cbn in *; try discriminate.
  - inversion H; subst. destruct Hy as [Hy|Hy]; [left; congruence|right; right; exact Hy].
  - destruct Hy as [Hy|Hy]; [right; left; exact Hy|]. destruct (IH i H Hy) as [E|E]; [left; exact E|right; right; exact E].
Qed.

Lemma Forall_replace_nth {A} (P : A -> Prop) i l x : Forall P l -> P x -> Forall P (replace_nth i l x).
Proof.
  intros Hl Hx. apply Forall_forall. intros y Hy. destruct (In_replace_nth _ _ _ _ Hy) as [->|Hy']; [exact Hx|].
  rewrite Forall_forall in Hl. apply Hl, Hy'.
Qed.

Lemma Adj_replace_nth {A} (R : A -> A -> Prop) i l t x :
  Adj R l -> nth_error l i = Some t ->
  (forall y, R y t -> R y x) -> (forall y, R t y -> R x y) -> Adj R (replace_nth i l x).
Proof.
  intros HA Hn H1 H2. revert i HA Hn.
  induction l as [|a l IH]; intros [|i] HA Hn; cbn in *; try discriminate.
  - inversion Hn; subst a. destruct l as [|b l]; [constructor|].
    constructor; [apply H2, (Adj_head _ _ _ _ HA)|apply (Adj_tail _ _ _ HA)].
  - specialize (IH i (Adj_tail _ _ _ HA) Hn).
    destruct l as [|b l]; [destruct i; discriminate|].
    destruct i as [|i]; cbn in *.
    + inversion Hn; subst b. constructor; [apply H1, (Adj_head _ _ _ _ HA)|exact IH].
    + constructor; [apply (Adj_head _ _ _ _ HA)|exact IH].
Qed.

Lemma find_replace_nth {A} (P : A -> bool) i l t x :
  nth_error l i = Some t -> P t = false -> P x = false -> find P (replace_nth i l x) = find P l.
Proof.
  revert i; induction l as [|a l IH]; intros [|i] Hn Ht Hx; cbn in *; try discriminate.
  - inversion Hn; subst a. rewrite Ht, Hx. reflexivity.
  - rewrite (IH i Hn Ht Hx). reflexivity.
Qed.

(* the element found is the replaced one: it is found again (as its replacement) *)
Lemma find_replace_nth_hit {A} (P : A -> bool) i l t x :
  nth_error l i = Some t -> P t = true -> P x = true ->
  (forall j y, (j < i)%nat -> nth_error l j = Some y -> P y = false) ->
  find P (replace_nth i l x) = Some x.
Proof.
  revert i; induction l as [|a l IH]; intros [|i] Hn Ht Hx Hb; cbn in *; try discriminate.
  - rewrite Hx. reflexivity.
  - rewrite (Hb O a ltac:(lia) eq_refl). apply (IH i Hn Ht Hx). intros j y Hj Hy. apply (Hb (S j) y); [lia|exact Hy].
Qed.



Lemma filter_replace_nth_len {A} (P : A -> bool) i l t x :
  nth_error l i = Some t -> P x = P t -> length (filter P (replace_nth i l x)) = length (filter P l).
Proof.
  revert i; induction l as [|a l IH]; intros [|i] Hn Hx; cbn in *; try discriminate.
  - inversion Hn; subst a. rewrite Hx. destruct (P t); reflexivity.
  - specialize (IH i Hn Hx). destruct (P a); cbn [length]; lia.
Qed.

(* ------------------------------------------------------------------------------------------- *)
(* B. match_eq                                                                                   *)
(* ------------------------------------------------------------------------------------------- *)
Lemma match_eq_sid sch src x : match_eq sch src x = true -> d_sid x = d_sid src.
Proof. unfold match_eq. intro H. apply andb_true_iff in H. destruct H as [H _]. apply N.eqb_eq in H. exact H. Qed.







(* for a node that has an identity, matching is having the same identity *)
Lemma match_eq_has_id sch src i :
  inst_id sch src = Some i -> forall x, match_eq sch src x = has_id sch i x.
Proof.
  intros Hi x. unfold match_eq.
  assert (Hd : dup_inst sch (d_sid src) = false).
  { destruct (dup_inst sch (d_sid src)) eqn:E; [|reflexivity]. apply inst_id_none in E. congruence. }
  destruct (d_sid x =? d_sid src) eqn:Es; cbn [andb].
  - apply N.eqb_eq in Es. rewrite Hd.
    destruct (multi sch (d_sid src)) eqn:Em.
    + unfold same_inst. rewrite Hi. reflexivity.
    + unfold has_id, inst_id in *. rewrite Es, Hd in *.
      unfold multi in Em. destruct (kind_of sch (d_sid src)); try discriminate; inversion Hi; cbn [iid_eqb]; symmetry; apply N.eqb_refl.
  - symmetry. destruct (has_id sch i x) eqn:E; [|reflexivity].
    apply has_id_sid in E. rewrite (inst_id_sid _ _ _ Hi) in E. apply N.eqb_neq in Es. congruence.
Qed.



(* k-th match *)
Lemma match_idx_some sch src trg : forall k j i,
  match_idx sch src trg k j = Some i ->
  exists t, (j <= i)%nat /\ nth_error trg (i - j) = Some t /\ match_eq sch src t = true.
Proof.
  induction trg as [|x r IH]; intros k j i H; cbn [match_idx] in H; [discriminate|].
  destruct (match_eq sch src x) eqn:E.
  - destruct k as [|k].
    + inversion H; subst i. exists x. rewrite Nat.sub_diag. repeat split; [lia|assumption].
    + destruct (IH _ _ _ H) as [t [H1 [H2 H3]]]. exists t. repeat split; [lia| |exact H3].
      replace (i - j)%nat with (S (i - S j)) by lia. exact H2.
  - destruct (IH _ _ _ H) as [t [H1 [H2 H3]]]. exists t. repeat split; [lia| |exact H3].
    replace (i - j)%nat with (S (i - S j)) by lia. exact H2.
Qed.

Lemma match_idx_none0 sch src trg j :
  match_idx sch src trg O j = None -> forall x, In x trg -> match_eq sch src x = false.
Proof.
  revert j; induction trg as [|y r IH]; intros j H x Hx; [contradiction|]. cbn [match_idx] in H.
  destruct (match_eq sch src y) eqn:E; [discriminate|].
  destruct Hx as [<-|Hx]; [exact E|apply (IH _ H x Hx)].
Qed.

Lemma match_idx_lt sch src trg : forall k j,
  (k < count_match sch src trg)%nat -> match_idx sch src trg k j <> None.
Proof.
  unfold count_match. induction trg as [|x r IH]; intros k j H; cbn [filter length match_idx] in *; [lia|].
  destruct (match_eq sch src x); cbn [length] in H.
  - destruct k; [discriminate|]. apply IH. lia.
  - apply IH. exact H.
Qed.

Lemma match_idx_ge sch src trg : forall k j,
  (count_match sch src trg <= k)%nat -> match_idx sch src trg k j = None.
Proof.
  unfold count_match. induction trg as [|x r IH]; intros k j H; cbn [filter length match_idx] in *; [reflexivity|].
  destruct (match_eq sch src x); cbn [length] in H.
  - destruct k; [lia|]. apply IH. lia.
  - apply IH. exact H.
Qed.

(* the first match: everything before it does not match *)
Lemma match_idx0_first sch src trg : forall j i,
  match_idx sch src trg O j = Some i ->
  forall q y, (q < i - j)%nat -> nth_error trg q = Some y -> match_eq sch src y = false.
Proof.
  induction trg as [|x r IH]; intros j i H q y Hq Hy; cbn [match_idx] in H; [discriminate|].
  destruct (match_eq sch src x) eqn:E.
  - inversion H; subst. lia.
  - destruct q as [|q]; cbn in Hy; [inversion Hy; subst; exact E|].
    apply (IH _ _ H q y); [|exact Hy].
    destruct (match_idx_some _ _ _ _ _ _ H) as [_ [Hle _]]. lia.
Qed.

Lemma count_match_pos sch src trg x : In x trg -> match_eq sch src x = true -> (1 <= count_match sch src trg)%nat.
Proof.
  unfold count_match. intros Hin Hm.
  assert (H : In x (filter (match_eq sch src) trg)) by (apply filter_In; split; assumption).
  destruct (filter (match_eq sch src) trg); [contradiction|cbn; lia].
Qed.

Lemma count_match_insert sch r f n : (count_match sch r f <= count_match sch r (insert_node sch f n))%nat.
Proof.
  unfold count_match. rewrite filter_insert_node_len. cbn [filter]. destruct (match_eq sch r n); cbn [length]; lia.
Qed.

(* ------------------------------------------------------------------------------------------- *)
(* C. the duplicate-instance cache                                                               *)
(* ------------------------------------------------------------------------------------------- *)
(* for classes that have an identity: used <= count <= number of current matches *)
Definition cache_inv (sch : schema) (c : cache) (trg : forest) : Prop :=
  Forall (fun e : dnode * nat * nat =>
            let '(r, cnt, used) := e in
            dup_inst sch (d_sid r) = false -> (used <= cnt /\ cnt <= count_match sch r trg)%nat) c.

Lemma cache_inv_nil sch trg : cache_inv sch [] trg.
Proof. constructor. Qed.

Lemma cache_inv_mono sch c trg trg' :
  (forall r, dup_inst sch (d_sid r) = false -> (count_match sch r trg <= count_match sch r trg')%nat) ->
  cache_inv sch c trg -> cache_inv sch c trg'.
Proof.
  intros Hm H. unfold cache_inv in *. eapply Forall_impl; [|exact H].
  intros [[r cnt] used] He Hd. specialize (He Hd). specialize (Hm r Hd). lia.
Qed.

Lemma cache_find_In sch c src cnt used :
  cache_find sch c src = Some (cnt, used) -> exists r, In (r, cnt, used) c /\ match_eq sch r src = true.
Proof.
  induction c as [|[[r cnt0] used0] c IH]; cbn [cache_find]; [discriminate|].
  destruct (match_eq sch r src) eqn:E.
  - intro H. inversion H; subst. exists r. split; [left; reflexivity|exact E].
  - intro H. destruct (IH H) as [r' [H1 H2]]. exists r'. split; [right; exact H1|exact H2].
Qed.

Lemma cache_inv_bump sch c trg src cnt used :
  cache_inv sch c trg -> cache_find sch c src = Some (cnt, used) -> used <> cnt -> cache_inv sch (cache_bump sch c src) trg.
Proof.
  induction c as [|[[r cnt0] used0] c IH]; cbn [cache_find cache_bump]; intros Hi Hf Hne; [discriminate|].
  inversion Hi as [|? ? He Hc]; subst.
  destruct (match_eq sch r src) eqn:E.
  - inversion Hf; subst. constructor; [|exact Hc]. intro Hd. specialize (He Hd). lia.
  - constructor; [exact He|]. apply IH; assumption.
Qed.

(* two nodes of one identity class count the same matches *)
Lemma count_match_class sch r src trg :
  dup_inst sch (d_sid r) = false -> match_eq sch r src = true -> count_match sch src trg = count_match sch r trg.
Proof.
  intros Hd Hm. destruct (inst_id_some sch r Hd) as [i Hi].
  assert (Hs : inst_id sch src = Some i).
  { rewrite (match_eq_has_id sch r i Hi) in Hm. apply has_id_inst in Hm. exact Hm. }
  unfold count_match. f_equal. apply filter_ext. intro x.
  rewrite (match_eq_has_id sch r i Hi), (match_eq_has_id sch src i Hs). reflexivity.
Qed.

Lemma dup_inst_next_inv sch c src trg :
  cache_inv sch c trg -> (dup_inst sch (d_sid src) = false -> (1 <= count_match sch src trg)%nat) ->
  cache_inv sch (snd (dup_inst_next sch c src trg)) trg.
Proof.
  intros Hi Hc. unfold dup_inst_next.
  destruct (cache_find sch c src) as [[cnt used]|] eqn:Ef.
  - destruct (Nat.eqb used cnt) eqn:E; cbn [snd]; [exact Hi|].
    apply Nat.eqb_neq in E. eapply cache_inv_bump; eassumption.
  - cbn [snd]. constructor; [|exact Hi]. intros Hd. specialize (Hc Hd). lia.
Qed.

Lemma dup_inst_next_none sch c src trg :
  fst (dup_inst_next sch c src trg) = None -> dup_inst sch (d_sid src) = true.
Proof.
  unfold dup_inst_next. destruct (cache_find sch c src) as [[cnt used]|]; [|discriminate].
  destruct (Nat.eqb used cnt); cbn [fst]; [|discriminate].
  destruct (dup_inst sch (d_sid src)); [reflexivity|discriminate].
Qed.

(* the instance chosen by lyd_dup_inst_next exists, unless the class is a duplicate-instance list *)
Lemma dup_inst_next_lt sch c src trg k :
  cache_inv sch c trg -> (1 <= count_match sch src trg)%nat -> fst (dup_inst_next sch c src trg) = Some k ->
  dup_inst sch (d_sid src) = false -> (k < count_match sch src trg)%nat.
Proof.
  intros Hi Hc Hk Hd. unfold dup_inst_next in Hk.
  destruct (cache_find sch c src) as [[cnt used]|] eqn:Ef.
  - destruct (Nat.eqb used cnt) eqn:E; cbn [fst] in Hk.
    + rewrite Hd in Hk. inversion Hk. lia.
    + inversion Hk; subst k. apply Nat.eqb_neq in E.
      destruct (cache_find_In _ _ _ _ _ Ef) as [r [Hin Hm]].
      unfold cache_inv in Hi. rewrite Forall_forall in Hi. specialize (Hi _ Hin). cbn in Hi.
      assert (Hdr : dup_inst sch (d_sid r) = false) by (rewrite <- (match_eq_sid _ _ _ Hm); exact Hd).
      specialize (Hi Hdr). rewrite (count_match_class sch r src trg Hdr Hm). lia.
  - cbn [fst] in Hk. inversion Hk. lia.
Qed.

(* ------------------------------------------------------------------------------------------- *)
(* D. one merge step as a relation (no cache, no flag requests)                                  *)
(* ------------------------------------------------------------------------------------------- *)
Definition upd_node sch o (src t : dnode) : dnode * list sig :=
  let '(t1, sg1) := merge_value sch o src t in
  let '(ch', flag', up) :=
    merge_children sch (merge_sib sch o) (is_np_cont sch (d_sid t1)) (d_ch src) (d_ch t1) [] (d_dflt t1) [] in
  (set_dflt (set_ch t1 ch') flag', sg1 ++ up).

Definition choose sch (c : cache) (src : dnode) (trg : forest) : option nat * cache * bool :=
  match match_idx sch src trg O O with
  | None => (None, c, true)
  | Some _ => let '(k, c') := dup_inst_next sch c src trg in (k, c', false)
  end.

Lemma merge_sib_unfold sch o src trg c :
  merge_sib sch o src trg c =
  let '(k, c1, first_inst) := choose sch c src trg in
  match match k with Some k' => match_idx sch src trg k' O | None => None end with
  | Some i =>
      let '(t2, sg) := upd_node sch o src (nth i trg src) in
      let trg' := replace_nth i trg t2 in
      (trg', c1, sg, others_dflt i trg')
  | None =>
      let trg' := insert_node sch trg src in
      (trg', (if first_inst then snd (dup_inst_next sch c1 src trg') else c1), (if d_dflt src then [] else [SDel]), true)
  end.
Proof.
  destruct src as [s v d m ch]. unfold upd_node, choose. cbn [merge_sib d_ch d_dflt].
  destruct (match_idx sch (DN s v d m ch) trg 0 0); [destruct (dup_inst_next sch c (DN s v d m ch) trg) as [k c']|].
  - destruct (match k with Some k' => match_idx sch (DN s v d m ch) trg k' 0 | None => None end); [|reflexivity].
    destruct (merge_value sch o (DN s v d m ch) (nth n0 trg (DN s v d m ch))) as [t1 sg1].
    destruct (merge_children sch (merge_sib sch o) (is_np_cont sch (d_sid t1)) ch (d_ch t1) [] (d_dflt t1) []) as [[ch' flag'] up].
    reflexivity.
  - reflexivity.
Qed.

(* value and flag of the matched node after lyd_merge_sibling_r updated it (before its children are merged) *)
Definition new_val sch o (src t : dnode) : bytes := d_val (fst (merge_value sch o src t)).
Definition new_dflt sch o (src t : dnode) : bool := d_dflt (fst (merge_value sch o src t)).

Lemma merge_value_shape sch o src t :
  let t1 := fst (merge_value sch o src t) in
  d_sid t1 = d_sid t /\ d_meta t1 = d_meta t /\ d_ch t1 = d_ch t.
Proof.
  destruct t as [s v d m ch]. unfold merge_value. cbn [d_sid d_dflt d_val].
  destruct (kind_of sch s); cbn [fst];
    repeat match goal with
           | |- context [if ?b then _ else _] => destruct b
           | |- context [let '(_, _) := ?p in _] => destruct p
           end; cbn; repeat split; reflexivity.
Qed.

Lemma merge_value_leaflist_val sch o src t :
  kind_of sch (d_sid t) = KLeafList -> d_val (fst (merge_value sch o src t)) = d_val t.
Proof.
  intro Hk. unfold merge_value. rewrite Hk. destruct t as [s v d m ch]. cbn [d_dflt].
  destruct (d && negb (d_dflt src)); reflexivity.
Qed.

Section FoldK.
  Variable sch : schema.
  Variable step : dnode -> forest -> forest -> Prop.
  (* the source children without keys are merged one after the other *)
  Fixpoint MFoldK (l : list dnode) (a b : forest) : Prop :=
    match l with
    | [] => a = b
    | x :: l' => if is_key sch (d_sid x) then MFoldK l' a b else exists m, step x a m /\ MFoldK l' m b
    end.
End FoldK.

(* trg' is what one lyd_merge_sibling_r(src) step makes of the siblings trg: either the source subtree is inserted
   (no sibling matches, or src is an instance of a duplicate-instance list) or ONE matching sibling t is replaced by an
   update t2 with the same schema node and metadata, the value decided by merge_value and the source children merged into
   its children. The default flag of t2 is left open here except for nodes without source children. *)
Fixpoint MStep (sch : schema) (o : mopts) (src : dnode) (trg trg' : forest) {struct src} : Prop :=
  match src with
  | DN s v d m ch =>
      (((forall x, In x trg -> match_eq sch src x = false) \/ dup_inst sch s = true) /\
       trg' = insert_node sch trg src)
      \/
      (exists i t t2,
          nth_error trg i = Some t /\ match_eq sch src t = true /\ trg' = replace_nth i trg t2 /\
          d_sid t2 = d_sid t /\ d_meta t2 = d_meta t /\ d_val t2 = new_val sch o src t /\
          (ch = [] -> d_dflt t2 = new_dflt sch o src t) /\
          MFoldK sch (MStep sch o) ch (d_ch t) (d_ch t2))
  end.

Lemma MStep_unfold sch o src trg trg' :
  MStep sch o src trg trg' <->
  (((forall x, In x trg -> match_eq sch src x = false) \/ dup_inst sch (d_sid src) = true) /\
   trg' = insert_node sch trg src)
  \/
  (exists i t t2,
      nth_error trg i = Some t /\ match_eq sch src t = true /\ trg' = replace_nth i trg t2 /\
      d_sid t2 = d_sid t /\ d_meta t2 = d_meta t /\ d_val t2 = new_val sch o src t /\
      (d_ch src = [] -> d_dflt t2 = new_dflt sch o src t) /\
      MFoldK sch (MStep sch o) (d_ch src) (d_ch t) (d_ch t2)).
Proof. destruct src as [s v d m ch]. cbn [MStep d_sid d_ch]. reflexivity. Qed.



(* --- facts that follow from the shape of a step --- *)
Lemma MStep_find_sid sch o x a m k :
  MStep sch o x a m -> d_sid x <> k -> find_sid m k = find_sid a k.
Proof.
  rewrite MStep_unfold. intros [[_ ->]|[i [t [t2 [Hn [Hm [-> [Hs _]]]]]]]] Hk; unfold find_sid.
  - apply find_insert_node. apply N.eqb_neq. exact Hk.
  - apply (find_replace_nth _ i a t t2 Hn); apply N.eqb_neq; [|rewrite Hs]; rewrite (match_eq_sid _ _ _ Hm); exact Hk.
Qed.

Lemma MFoldK_find_sid sch o l : forall a b k,
  MFoldK sch (MStep sch o) l a b ->
  (forall x, In x l -> is_key sch (d_sid x) = false -> d_sid x <> k) -> find_sid b k = find_sid a k.
Proof.
  induction l as [|x l IH]; intros a b k H Hk; cbn [MFoldK] in H; [subst; reflexivity|].
  destruct (is_key sch (d_sid x)) eqn:E.
  - apply (IH _ _ _ H). intros y Hy. apply Hk. right. exact Hy.
  - destruct H as [m [H1 H2]]. rewrite (IH _ _ _ H2); [|intros y Hy; apply Hk; right; exact Hy].
    apply (MStep_find_sid _ _ _ _ _ _ H1). apply Hk; [left; reflexivity|exact E].
Qed.

(* a non-key child of src is not a key of src's schema node *)
Lemma nonkey_not_key sch src x k :
  parents_ok sch src -> In x (d_ch src) -> is_key sch (d_sid x) = false -> In k (si_keys (sget sch (d_sid src))) -> d_sid x <> k.
Proof.
  intros Hp Hx Hk Hin E. unfold is_key in Hk. rewrite (Hp x Hx) in Hk.
  assert (existsb (N.eqb (d_sid x)) (si_keys (sget sch (d_sid src))) = true); [|congruence].
  apply existsb_exists. exists k. split; [exact Hin|]. apply N.eqb_eq. exact E.
Qed.

(* the updated node is the same instance: same identity, same sort key *)
Lemma upd_same_instance sch o src t t2 :
  parents_ok sch src -> match_eq sch src t = true ->
  d_sid t2 = d_sid t -> d_val t2 = new_val sch o src t ->
  MFoldK sch (MStep sch o) (d_ch src) (d_ch t) (d_ch t2) ->
  key_vals sch t2 = key_vals sch t /\
  (kind_of sch (d_sid t) = KLeafList -> d_val t2 = d_val t).
Proof.
  intros Hp Hm Hs Hv HF. split.
  - unfold key_vals. rewrite Hs. apply map_ext_in. intros k Hk. unfold child_val.
    rewrite (MFoldK_find_sid _ _ _ _ _ k HF); [reflexivity|].
    intros x Hx Hxk. apply (nonkey_not_key sch src x k Hp Hx Hxk). rewrite <- (match_eq_sid _ _ _ Hm). exact Hk.
  - intro Hk. rewrite Hv. unfold new_val. apply merge_value_leaflist_val. exact Hk.
Qed.

Lemma upd_inst_id sch o src t t2 :
  parents_ok sch src -> match_eq sch src t = true ->
  d_sid t2 = d_sid t -> d_val t2 = new_val sch o src t ->
  MFoldK sch (MStep sch o) (d_ch src) (d_ch t) (d_ch t2) ->
  inst_id sch t2 = inst_id sch t.
Proof.
  intros Hp Hm Hs Hv HF. destruct (upd_same_instance _ _ _ _ _ Hp Hm Hs Hv HF) as [Hk Hl].
  unfold inst_id. rewrite Hs, Hk. destruct (dup_inst sch (d_sid t)); [reflexivity|].
  destruct (kind_of sch (d_sid t)) eqn:E; try reflexivity. rewrite (Hl eq_refl). reflexivity.
Qed.

Lemma upd_node_key sch o src t t2 :
  parents_ok sch src -> match_eq sch src t = true ->
  d_sid t2 = d_sid t -> d_val t2 = new_val sch o src t ->
  MFoldK sch (MStep sch o) (d_ch src) (d_ch t) (d_ch t2) ->
  multi sch (d_sid t) = true -> node_key sch t2 = node_key sch t.
Proof.
  intros Hp Hm Hs Hv HF Hmu. destruct (upd_same_instance _ _ _ _ _ Hp Hm Hs Hv HF) as [Hk Hl].
  unfold node_key. rewrite Hs. unfold multi, kind_of in *.
  destruct (si_kind (sget sch (d_sid t))) eqn:E; try discriminate.
  - rewrite (Hl eq_refl). reflexivity.
  - apply map_ext_in. intros k Hin. f_equal. unfold child_val.
    rewrite (MFoldK_find_sid _ _ _ _ _ k HF); [reflexivity|].
    intros x Hx Hxk. apply (nonkey_not_key sch src x k Hp Hx Hxk). rewrite <- (match_eq_sid _ _ _ Hm). exact Hin.
Qed.

(* --- soundness of the function for the relation --- *)
Definition r_trg (r : mres) : forest := fst (fst (fst r)).
Definition r_cache (r : mres) : cache := snd (fst (fst r)).
Definition r_sig (r : mres) : list sig := snd (fst r).
Definition r_oth (r : mres) : bool := snd r.

Lemma match_eq_refl_id sch n : dup_inst sch (d_sid n) = false -> match_eq sch n n = true.
Proof.
  intro Hd. destruct (inst_id_some sch n Hd) as [i Hi]. rewrite (match_eq_has_id sch n i Hi). apply has_id_self, Hi.
Qed.

Lemma choose_spec sch c src trg k c1 fi :
  cache_inv sch c trg -> choose sch c src trg = (k, c1, fi) ->
  cache_inv sch c1 trg /\
  (fi = true -> k = None /\ c1 = c /\ forall x, In x trg -> match_eq sch src x = false) /\
  (fi = false ->
   (forall k', k = Some k' -> dup_inst sch (d_sid src) = false -> (k' < count_match sch src trg)%nat) /\
   (k = None -> dup_inst sch (d_sid src) = true)).
Proof.
  intros Hi. unfold choose. destruct (match_idx sch src trg 0 0) as [i0|] eqn:E0.
  - destruct (dup_inst_next sch c src trg) as [k0 c0] eqn:En. intro H. inversion H; subst k0 c0 fi. clear H.
    destruct (match_idx_some _ _ _ _ _ _ E0) as [t [_ [Hn Hm]]].
    assert (Hc : (1 <= count_match sch src trg)%nat) by (apply (count_match_pos sch src trg t); [apply (nth_error_In _ _ Hn)|exact Hm]).
    split; [|split; [discriminate|intros _; split]].
    + change c1 with (snd (k, c1)). rewrite <- En. apply dup_inst_next_inv; [exact Hi|intros _; exact Hc].
    + intros k' -> Hd. apply (dup_inst_next_lt sch c src trg k' Hi Hc); [rewrite En; reflexivity|exact Hd].
    + intros ->. apply (dup_inst_next_none sch c src trg). rewrite En. reflexivity.
  - intro H. inversion H; subst. split; [exact Hi|]. split; [|discriminate].
    intros _. repeat split. apply (match_idx_none0 _ _ _ _ E0).
Qed.

Lemma merge_children_sound sch o np l :
  Forall (fun x => forall p trg c, CanonN sch p x -> cache_inv sch c trg ->
                   MStep sch o x trg (r_trg (merge_sib sch o x trg c)) /\
                   cache_inv sch (r_cache (merge_sib sch o x trg c)) (r_trg (merge_sib sch o x trg c))) l ->
  forall p, Forall (CanonN sch p) l ->
  forall tch cc flag up, cache_inv sch cc tch ->
  MFoldK sch (MStep sch o) l tch (fst (fst (merge_children sch (merge_sib sch o) np l tch cc flag up))).
Proof.
  induction l as [|x l IHl]; intros IH p HC tch cc flag up Hi; cbn [merge_children MFoldK]; [reflexivity|].
  inversion IH as [|? ? Hx IH']; subst. inversion HC as [|? ? Cx HC']; subst.
  destruct (is_key sch (d_sid x)); [apply (IHl IH' p HC'); exact Hi|].
  destruct (Hx p tch cc Cx Hi) as [H1 H2].
  destruct (merge_sib sch o x tch cc) as [[[tch' cc'] sg] oth]. cbn [r_trg r_cache fst snd] in *.
  destruct (apply_sigs np oth flag sg) as [flag' up'].
  exists tch'. split; [exact H1|]. apply (IHl IH' p HC'). exact H2.
Qed.

Lemma upd_node_facts sch o src t :
  let t2 := fst (upd_node sch o src t) in
  d_sid t2 = d_sid t /\ d_meta t2 = d_meta t /\ d_val t2 = new_val sch o src t /\
  (d_ch src = [] -> d_dflt t2 = new_dflt sch o src t) /\
  d_ch t2 = fst (fst (merge_children sch (merge_sib sch o) (is_np_cont sch (d_sid t)) (d_ch src) (d_ch t) []
                        (new_dflt sch o src t) [])).
Proof.
  unfold upd_node, new_val, new_dflt.
  pose proof (merge_value_shape sch o src t) as Hs. cbn zeta in Hs.
  destruct (merge_value sch o src t) as [t1 sg1]. cbn [fst] in *. destruct Hs as [Hs [Hm Hc]].
  rewrite Hs, Hc.
  destruct (merge_children sch (merge_sib sch o) (is_np_cont sch (d_sid t)) (d_ch src) (d_ch t) [] (d_dflt t1) [])
    as [[ch' flag'] up] eqn:E.
  cbn [fst]. destruct t1 as [s1 v1 d1 m1 c1]. cbn [set_ch set_dflt d_sid d_meta d_val d_dflt d_ch] in *.
  repeat split; try assumption.
  intro Hnil. rewrite Hnil in E. cbn [merge_children] in E. inversion E. reflexivity.
Qed.

Theorem merge_sib_sound sch o src : forall p trg c,
  CanonN sch p src -> cache_inv sch c trg ->
  MStep sch o src trg (r_trg (merge_sib sch o src trg c)) /\
  cache_inv sch (r_cache (merge_sib sch o src trg c)) (r_trg (merge_sib sch o src trg c)).
Proof.
  induction src as [s v d m ch IH] using dnode_ind'. intros p trg c HC Hi.
  set (src := DN s v d m ch) in *.
  rewrite merge_sib_unfold.
  destruct (choose sch c src trg) as [[k c1] fi] eqn:Ech.
  destruct (choose_spec sch c src trg k c1 fi Hi Ech) as [Hi1 [Hfi Hnf]].
  destruct (match k with Some k' => match_idx sch src trg k' 0 | None => None end) as [i|] eqn:Esel.
  - (* a sibling is updated *)
    destruct k as [k'|]; [|discriminate].
    destruct (match_idx_some _ _ _ _ _ _ Esel) as [t [_ [Hn Hm]]]. rewrite Nat.sub_0_r in Hn.
    rewrite (nth_nth_error i trg src t Hn).
    pose proof (upd_node_facts sch o src t) as HF. cbn zeta in HF.
    destruct (upd_node sch o src t) as [t2 sg]. cbn [fst] in HF. destruct HF as [Hs [Hme [Hv [Hd Hc]]]].
    cbn [r_trg r_cache fst snd].
    assert (Hp : parents_ok sch src) by (apply (CanonN_parents_ok sch p), HC).
    assert (HFold : MFoldK sch (MStep sch o) (d_ch src) (d_ch t) (d_ch t2)).
    { rewrite Hc. subst src. cbn [d_ch]. apply CanonN_unfold in HC. destruct HC as [_ [_ HCc]].
      apply (merge_children_sound sch o _ ch IH (Some s) HCc). apply cache_inv_nil. }
    split.
    + rewrite MStep_unfold. right. exists i, t, t2. repeat split; assumption.
    + apply (cache_inv_mono sch c1 trg); [|exact Hi1]. intros r Hr.
      unfold count_match. rewrite (filter_replace_nth_len _ i trg t t2 Hn); [lia|].
      destruct (inst_id_some sch r Hr) as [j Hj]. rewrite !(match_eq_has_id sch r j Hj).
      unfold has_id. rewrite (upd_inst_id sch o src t t2 Hp Hm Hs Hv HFold). reflexivity.
  - (* the source subtree is inserted *)
    cbn [r_trg r_cache fst snd].
    assert (Hno : (forall x, In x trg -> match_eq sch src x = false) \/ dup_inst sch (d_sid src) = true).
    { destruct fi.
      - left. apply Hfi. reflexivity.
      - right. destruct (Hnf eq_refl) as [H1 H2]. destruct k as [k'|]; [|apply H2; reflexivity].
        destruct (dup_inst sch (d_sid src)) eqn:Ed; [reflexivity|].
        exfalso. apply (match_idx_lt sch src trg k' O (H1 k' eq_refl eq_refl)). exact Esel. }
    split.
    + rewrite MStep_unfold. left. split; [exact Hno|reflexivity].
    + assert (Hi2 : cache_inv sch c1 (insert_node sch trg src)).
      { apply (cache_inv_mono sch c1 trg); [|exact Hi1]. intros r _. apply count_match_insert. }
      destruct fi; [|exact Hi2].
      apply dup_inst_next_inv; [exact Hi2|]. intro Hd.
      apply (count_match_pos sch src _ src); [apply insert_node_In; left; reflexivity|apply match_eq_refl_id, Hd].
Qed.

(* ------------------------------------------------------------------------------------------- *)
(* E. Canon is kept                                                                              *)
(* ------------------------------------------------------------------------------------------- *)
Fixpoint MFold (step : dnode -> forest -> forest -> Prop) (l : list dnode) (a b : forest) : Prop :=
  match l with
  | [] => a = b
  | x :: l' => exists m, step x a m /\ MFold step l' m b
  end.

Definition nonkeys (sch : schema) (l : forest) : forest := filter (fun x => negb (is_key sch (d_sid x))) l.

Lemma MFoldK_MFold sch step l : forall a b, MFoldK sch step l a b <-> MFold step (nonkeys sch l) a b.
Proof.
  induction l as [|x l IH]; intros a b; cbn [MFoldK nonkeys filter MFold]; [reflexivity|].
  destruct (is_key sch (d_sid x)); cbn [negb MFold]; [apply IH|].
  split; intros [m [H1 H2]]; exists m; (split; [exact H1|apply IH; exact H2]).
Qed.

Lemma sib_ok_congr_l sch t t2 y :
  d_sid t2 = d_sid t -> (multi sch (d_sid t) = true -> node_key sch t2 = node_key sch t) ->
  sib_ok sch t y -> sib_ok sch t2 y.
Proof.
  unfold sib_ok, node_cmp. intros Hs Hk [H|[H1 [H2 H3]]]; rewrite Hs; [left; exact H|right].
  repeat split; try assumption. rewrite (Hk H2). exact H3.
Qed.

Lemma sib_ok_congr_r sch t t2 y :
  d_sid t2 = d_sid t -> (multi sch (d_sid t) = true -> node_key sch t2 = node_key sch t) ->
  sib_ok sch y t -> sib_ok sch y t2.
Proof.
  unfold sib_ok, node_cmp. intros Hs Hk [H|[H1 [H2 H3]]]; rewrite Hs; [left; exact H|right].
  repeat split; try assumption. rewrite Hk; [exact H3|]. rewrite <- H1. exact H2.
Qed.


Lemma MFoldK_nil_src sch step a b : MFoldK sch step [] a b -> b = a.
Proof. cbn. congruence. Qed.

Lemma insertable_of_nomatch sch src trg :
  (forall x, In x trg -> match_eq sch src x = false) \/ dup_inst sch (d_sid src) = true -> insertable sch trg src.
Proof.
  intros [H|H]; [|left; apply dup_inst_multi, H].
  destruct (multi sch (d_sid src)) eqn:Em; [left; exact Em|right].
  intros b Hb E. specialize (H b Hb). unfold match_eq in H. rewrite Em, E, N.eqb_refl in H. discriminate.
Qed.

Theorem MStep_canon sch o src : forall p trg trg',
  CanonAt sch p trg -> CanonN sch p src -> MStep sch o src trg trg' -> CanonAt sch p trg'.
Proof.
  induction src as [s v d m ch IH] using dnode_ind'. intros p trg trg' HT HS.
  set (src := DN s v d m ch) in *. rewrite MStep_unfold.
  intros [[Hno ->]|[i [t [t2 [Hn [Hm [-> [Hs [Hme [Hv [Hd HF]]]]]]]]]]].
  - apply insert_node_canon; [exact HT|exact HS|apply insertable_of_nomatch, Hno].
  - assert (Hp : parents_ok sch src) by (apply (CanonN_parents_ok sch p), HS).
    assert (Hsid : d_sid t = s) by (apply (match_eq_sid _ _ _ Hm)).
    assert (Ht : CanonN sch p t) by (apply (CanonAt_In sch p trg t HT), (nth_error_In _ _ Hn)).
    assert (Hkey : multi sch (d_sid t) = true -> node_key sch t2 = node_key sch t)
      by (apply (upd_node_key sch o src t t2 Hp Hm Hs Hv HF)).
    destruct HT as [HA HAll]. split.
    + apply (Adj_replace_nth _ i trg t t2 HA Hn).
      * intros y. apply sib_ok_congr_r; assumption.
      * intros y. apply sib_ok_congr_l; assumption.
    + apply Forall_replace_nth; [exact HAll|].
      (* the updated node is canonical *)
      destruct t as [ts tv td tm tch]. destruct t2 as [s2 v2 d2 m2 ch2]. cbn [d_sid d_ch d_meta d_val] in *. subst s2 ts.
      rewrite CanonN_unfold in Ht. destruct Ht as [[si [Hl [Hpar [Hkeys Hterm]]]] [HAc HFc]].
      assert (HCc : CanonAt sch (Some s) ch2).
      { (* the children: fold with the induction hypothesis *)
        assert (HSc : Forall (CanonN sch (Some s)) ch) by (unfold src in HS; apply CanonN_unfold in HS; apply HS).
        unfold src in HF. cbn [d_ch] in HF. clear -IH HSc HF HAc HFc.
        assert (Ha : CanonAt sch (Some s) tch) by (split; assumption). clear HAc HFc.
        revert tch ch2 HF Ha. induction ch as [|x l IHl]; intros a b HF Ha; cbn [MFoldK] in HF; [subst; exact Ha|].
        inversion IH as [|? ? Hx IH']; subst. inversion HSc as [|? ? Cx HSc']; subst.
        destruct (is_key sch (d_sid x)); [apply (IHl IH' HSc' a b HF Ha)|].
        destruct HF as [mid [H1 H2]]. apply (IHl IH' HSc' mid b H2). apply (Hx (Some s) a mid Ha Cx H1). }
      rewrite CanonN_unfold. destruct HCc as [HA2 HF2]. repeat split; try assumption.
      exists si. repeat split; try assumption.
      * intros k Hk. destruct (Hkeys k Hk) as [c [Hc Hck]].
        assert (Hfs : find_sid ch2 k = find_sid tch k).
        { apply (MFoldK_find_sid sch o _ _ _ k HF). intros x Hx Hxk.
          apply (nonkey_not_key sch src x k Hp Hx Hxk). unfold src, sget. cbn [d_sid]. rewrite Hl. exact Hk. }
        destruct (find_sid tch k) as [c'|] eqn:E.
        -- destruct (find_sid_some _ _ _ Hfs) as [H1 H2]. exists c'. split; assumption.
        -- exfalso. apply (find_sid_none _ _ E c Hc Hck).
      * intro Htk. specialize (Hterm Htk). subst tch.
        assert (Hch : ch = []).
        { apply (CanonN_term_nil sch p src HS). unfold src, is_term, kind_of, sget. cbn [d_sid]. rewrite Hl. exact Htk. }
        subst ch. cbn [d_ch] in HF. apply (MFoldK_nil_src _ _ _ _ HF).
Qed.

Lemma MFold_canon sch o p l : forall a b,
  CanonAt sch p a -> Forall (CanonN sch p) l -> MFold (MStep sch o) l a b -> CanonAt sch p b.
Proof.
  induction l as [|x l IH]; intros a b Ha Hl H; cbn [MFold] in H; [subst; exact Ha|].
  destruct H as [m [H1 H2]]. inversion Hl; subst. apply (IH m b); [|assumption|exact H2].
  apply (MStep_canon sch o x p a m); assumption.
Qed.

(* the function: merge_list follows the relation *)
Lemma merge_list_sound sch o p srcs : forall trg c,
  Forall (CanonN sch p) srcs -> cache_inv sch c trg ->
  MFold (MStep sch o) srcs trg (merge_list sch o srcs trg c).
Proof.
  induction srcs as [|x l IH]; intros trg c HC Hi; cbn [merge_list MFold]; [reflexivity|].
  inversion HC; subst.
  destruct (merge_sib_sound sch o x p trg c) as [Hs1 Hs2]; [assumption|assumption|].
  destruct (merge_sib sch o x trg c) as [[[trg' c'] sg] oth]. cbn [r_trg r_cache fst snd] in *.
  exists trg'. split; [exact Hs1|]. apply IH; assumption.
Qed.

Lemma merge_sound sch o T S : Canon sch S -> MFold (MStep sch o) S T (merge sch o T S).
Proof. intros [_ HS]. unfold merge. apply (merge_list_sound sch o None); [exact HS|apply cache_inv_nil]. Qed.

Theorem merge_canon sch o T S : Canon sch T -> Canon sch S -> Canon sch (merge sch o T S).
Proof.
  intros HT HS. apply (MFold_canon sch o None S T); [exact HT|apply HS|apply merge_sound, HS].
Qed.













(* ------------------------------------------------------------------------------------------- *)
(* F. identities stay unique                                                                     *)
(* ------------------------------------------------------------------------------------------- *)
(* a step touches only the instance of src *)
Lemma match_other_id sch src t j :
  match_eq sch src t = true -> inst_id sch src <> Some j -> has_id sch j t = false.
Proof.
  intros Hm Hne. destruct (inst_id sch src) as [js|] eqn:Es.
  - rewrite (match_eq_has_id sch src js Es) in Hm. apply has_id_inst in Hm.
    destruct (has_id sch j t) eqn:E; [|reflexivity]. apply has_id_inst in E. congruence.
  - apply inst_id_none in Es. unfold has_id.
    assert (Ht : inst_id sch t = None) by (apply inst_id_none; rewrite (match_eq_sid _ _ _ Hm); exact Es).
    rewrite Ht. reflexivity.
Qed.

Lemma MStep_find_other sch o src p a m j :
  CanonN sch p src -> MStep sch o src a m -> inst_id sch src <> Some j -> find_inst sch m j = find_inst sch a j.
Proof.
  intros HC. rewrite MStep_unfold.
  intros [[_ ->]|[i [t [t2 [Hn [Hm [-> [Hs [_ [Hv [_ HF]]]]]]]]]]] Hne; unfold find_inst.
  - apply find_insert_node. destruct (has_id sch j src) eqn:E; [|reflexivity]. apply has_id_inst in E. congruence.
  - assert (Ht : has_id sch j t = false) by (apply (match_other_id sch src t j Hm Hne)).
    apply (find_replace_nth _ i a t t2 Hn Ht). unfold has_id in *.
    rewrite (upd_inst_id sch o src t t2 (CanonN_parents_ok _ _ _ HC) Hm Hs Hv HF). exact Ht.
Qed.

Lemma MStep_uniqL sch o src p a m :
  CanonN sch p src -> UniqL sch a -> MStep sch o src a m -> UniqL sch m.
Proof.
  intros HC HU. rewrite MStep_unfold.
  intros [[Hno ->]|[i [t [t2 [Hn [Hm [-> [Hs [_ [Hv [_ HF]]]]]]]]]]] j.
  - rewrite filter_insert_node_len. cbn [filter]. destruct (has_id sch j src) eqn:E; [|apply HU].
    apply has_id_inst in E. cbn [length].
    destruct Hno as [Hno|Hd]; [|apply inst_id_none in Hd; congruence].
    assert (Hr : filter (has_id sch j) a = []).
    { destruct (filter (has_id sch j) a) as [|y l] eqn:Ef; [reflexivity|].
      assert (Hy : In y (filter (has_id sch j) a)) by (rewrite Ef; left; reflexivity).
      apply filter_In in Hy. destruct Hy as [Hy1 Hy2]. specialize (Hno y Hy1).
      rewrite (match_eq_has_id sch src j E) in Hno. congruence. }
    rewrite Hr. cbn. lia.
  - rewrite (filter_replace_nth_len _ i a t t2 Hn); [apply HU|]. unfold has_id.
    rewrite (upd_inst_id sch o src t t2 (CanonN_parents_ok _ _ _ HC) Hm Hs Hv HF). reflexivity.
Qed.

Theorem MStep_uniq sch o src : forall p a m,
  CanonN sch p src -> UniqN sch src -> UniqIds sch a -> MStep sch o src a m -> UniqIds sch m.
Proof.
  induction src as [s v d mt ch IH] using dnode_ind'. intros p a m HC HN [HU HF] HS.
  set (src := DN s v d mt ch) in *.
  split; [apply (MStep_uniqL sch o src p a m HC HU HS)|].
  rewrite MStep_unfold in HS.
  destruct HS as [[_ ->]|[i [t [t2 [Hn [Hm [-> [Hs [_ [Hv [_ HFold]]]]]]]]]]].
  - apply Forall_forall. intros x Hx. apply insert_node_In in Hx. destruct Hx as [->|Hx]; [exact HN|].
    rewrite Forall_forall in HF. apply HF, Hx.
  - apply Forall_replace_nth; [exact HF|]. apply UniqN_unfold.
    assert (Ht : UniqIds sch (d_ch t)).
    { apply UniqN_unfold. rewrite Forall_forall in HF. apply HF, (nth_error_In _ _ Hn). }
    assert (HCc : Forall (CanonN sch (Some s)) ch) by (unfold src in HC; apply CanonN_unfold in HC; apply HC).
    assert (HNc : Forall (UniqN sch) ch) by (unfold src in HN; apply UniqN_unfold in HN; apply HN).
    unfold src in HFold. cbn [d_ch] in HFold. clear -IH HCc HNc HFold Ht.
    revert HFold Ht. generalize (d_ch t) (d_ch t2). induction ch as [|x l IHl]; intros a b HFold Ha; cbn [MFoldK] in HFold; [subst; exact Ha|].
    inversion IH as [|? ? Hx IH']; subst. inversion HCc as [|? ? Cx HCc']; subst. inversion HNc as [|? ? Nx HNc']; subst.
    destruct (is_key sch (d_sid x)); [apply (IHl IH' HCc' HNc' a b HFold Ha)|].
    destruct HFold as [mid [H1 H2]]. apply (IHl IH' HCc' HNc' mid b H2). apply (Hx (Some s) a mid Cx Nx Ha H1).
Qed.

Lemma MFold_uniq sch o p l : forall a b,
  Forall (CanonN sch p) l -> Forall (UniqN sch) l -> UniqIds sch a -> MFold (MStep sch o) l a b -> UniqIds sch b.
Proof.
  induction l as [|x l IH]; intros a b HC HN Ha H; cbn [MFold] in H; [subst; exact Ha|].
  destruct H as [m [H1 H2]]. inversion HC; subst. inversion HN; subst. apply (IH m b); try assumption.
  apply (MStep_uniq sch o x p a m); assumption.
Qed.

Theorem merge_uniq sch o T S :
  Canon sch S -> UniqIds sch T -> UniqIds sch S -> UniqIds sch (merge sch o T S).
Proof.
  intros HS HT HU. apply (MFold_uniq sch o None S T); [apply HS|apply HU|exact HT|apply merge_sound, HS].
Qed.



(* ------------------------------------------------------------------------------------------- *)
(* G. the source content is in the result, the rest of the target is kept                        *)
(* ------------------------------------------------------------------------------------------- *)
Lemma find_replace_uniq sch a i t t2 j :
  UniqL sch a -> nth_error a i = Some t -> has_id sch j t = true -> inst_id sch t2 = inst_id sch t ->
  find_inst sch (replace_nth i a t2) j = Some t2.
Proof.
  intros HU Hn Ht Hid. apply uniq_find.
  - intro j'. rewrite (filter_replace_nth_len _ i a t t2 Hn); [apply HU|]. unfold has_id. rewrite Hid. reflexivity.
  - apply (In_replace_nth_new i a t2 t Hn).
  - unfold has_id in *. rewrite Hid. exact Ht.
Qed.







Lemma MFold_find_other sch o p l : forall a b j,
  Forall (CanonN sch p) l -> MFold (MStep sch o) l a b ->
  (forall z, In z l -> inst_id sch z <> Some j) -> find_inst sch b j = find_inst sch a j.
Proof.
  induction l as [|x l IH]; intros a b j HC H Hz; cbn [MFold] in H; [subst; reflexivity|].
  destruct H as [m [H1 H2]]. inversion HC; subst.
  rewrite (IH m b j); [|assumption|exact H2|intros z Hin; apply Hz; right; exact Hin].
  apply (MStep_find_other sch o x p a m j); [assumption|exact H1|apply Hz; left; reflexivity].
Qed.

(* explicit, or default nodes are merged too (LYD_MERGE_DEFAULTS) *)
Definition expl (o : mopts) (n : dnode) : Prop := mo_defaults o = true \/ d_dflt n = false.

(* x' carries everything explicit of the source subtree x: same schema node, the value of x if x is an explicit term,
   and every explicit descendant of x by instance path with its value *)
Definition Covered sch o (x x' : dnode) : Prop :=
  d_sid x' = d_sid x /\
  (is_term sch (d_sid x) = true -> expl o x -> d_val x' = d_val x) /\
  forall q n, lookup_path sch (d_ch x) q = Some n -> expl o n ->
              exists n', lookup_path sch (d_ch x') q = Some n' /\ d_sid n' = d_sid n /\
                         (is_term sch (d_sid n) = true -> d_val n' = d_val n).

Lemma Covered_refl sch o x : Covered sch o x x.
Proof. repeat split. intros q n H _. exists n. repeat split. exact H. Qed.

Lemma new_val_term sch o x t j :
  inst_id sch x = Some j -> has_id sch j t = true -> is_term sch (d_sid x) = true -> expl o x ->
  new_val sch o x t = d_val x.
Proof.
  intros Hx Ht Hterm He. apply has_id_inst in Ht.
  assert (Hs : d_sid t = d_sid x) by (rewrite <- (inst_id_sid _ _ _ Ht), <- (inst_id_sid _ _ _ Hx); reflexivity).
  unfold new_val, merge_value. rewrite Hs. unfold is_term in Hterm.
  destruct (kind_of sch (d_sid x)) eqn:Ek; try discriminate.
  - assert (Hc : mo_defaults o || negb (d_dflt x) = true).
    { destruct He as [-> | ->]; [reflexivity|apply orb_true_r]. }
    rewrite Hc. destruct t as [ts tv td tm tch]. cbn [set_val d_dflt].
    destruct (td && negb (d_dflt x)); [|destruct (negb td && d_dflt x)]; destruct (mo_with_flags o); reflexivity.
  - unfold inst_id in Hx, Ht. rewrite Hs in Ht. rewrite Ek in *.
    destruct (dup_inst sch (d_sid x)); [discriminate|]. inversion Hx; subst j. inversion Ht as [Hv].
    destruct (d_dflt t && negb (d_dflt x)); destruct t; cbn in *; congruence.
  - destruct (beq_bytes (d_val x) (d_val t)) eqn:E; [apply beq_bytes_eq in E; cbn [fst]; congruence|].
    destruct t; reflexivity.
Qed.


Lemma UniqL_nonkeys sch l : UniqL sch l -> UniqL sch (nonkeys sch l).
Proof. intros H j. specialize (H j). pose proof (filter_filter_len (has_id sch j) (fun x => negb (is_key sch (d_sid x))) l). unfold nonkeys. lia. Qed.

Lemma Forall_nonkeys {P : dnode -> Prop} sch l : Forall P l -> Forall P (nonkeys sch l).
Proof. intro H. apply Forall_forall. intros x Hx. apply filter_In in Hx. rewrite Forall_forall in H. apply H, Hx. Qed.

Section Contains.
  Variable sch : schema.
  Variable o : mopts.
  Hypothesis Hsch : schema_okb sch = true.

  Definition contains_stmt (x : dnode) : Prop :=
    forall p a m j, CanonAt sch p a -> UniqIds sch a -> CanonN sch p x -> UniqN sch x ->
                    MStep sch o x a m -> inst_id sch x = Some j ->
                    exists x', find_inst sch m j = Some x' /\ Covered sch o x x'.

  Lemma contains_fold p l : forall a b,
    Forall contains_stmt l -> MFold (MStep sch o) l a b -> CanonAt sch p a -> UniqIds sch a ->
    Forall (CanonN sch p) l -> Forall (UniqN sch) l -> UniqL sch l ->
    forall y j, In y l -> inst_id sch y = Some j -> exists c, find_inst sch b j = Some c /\ Covered sch o y c.
  Proof.
    induction l as [|x l IHl]; intros a b IH HF Ha HUa HC HN HUl y j Hy Hj; [contradiction|].
    cbn [MFold] in HF. destruct HF as [m [H1 H2]].
    inversion IH as [|? ? Hx IH']; subst. inversion HC as [|? ? Cx HC']; subst. inversion HN as [|? ? Nx HN']; subst.
    destruct Hy as [<-|Hy].
    - destruct (Hx p a m j Ha HUa Cx Nx H1 Hj) as [c [Hc Hcov]]. exists c. split; [|exact Hcov].
      rewrite (MFold_find_other sch o p l m b j HC' H2); [exact Hc|].
      intros z Hz E. pose proof (UniqL_head_other sch x l j HUl (has_id_self _ _ _ Hj) z Hz) as Hf.
      rewrite (has_id_self _ _ _ E) in Hf. discriminate.
    - apply (IHl m b IH' H2); try assumption.
      + apply (MStep_canon sch o x p a m); assumption.
      + apply (MStep_uniq sch o x p a m); assumption.
      + apply (UniqL_tail sch x l HUl).
  Qed.

  Lemma contains_step x : contains_stmt x.
  Proof.
    induction x as [s v d mt ch IH] using dnode_ind'. intros p a m j Ha HUa HC HN HS Hj.
    set (x := DN s v d mt ch) in *.
    rewrite MStep_unfold in HS.
    destruct HS as [[Hno ->]|[i [t [t2 [Hn [Hm [-> [Hs [_ [Hv [_ HFold]]]]]]]]]]].
    - exists x. split; [|apply Covered_refl].
      apply find_inst_insert_new; [|apply has_id_self, Hj].
      destruct Hno as [Hno|Hd]; [|apply inst_id_none in Hd; congruence].
      intros y Hy. rewrite <- (match_eq_has_id sch x j Hj). apply Hno, Hy.
    - assert (Hp : parents_ok sch x) by (apply (CanonN_parents_ok sch p), HC).
      assert (Hid : inst_id sch t2 = inst_id sch t) by (apply (upd_inst_id sch o x t t2 Hp Hm Hs Hv HFold)).
      assert (Htj : has_id sch j t = true) by (rewrite <- (match_eq_has_id sch x j Hj); exact Hm).
      exists t2. split; [apply (find_replace_uniq sch a i t t2 j (proj1 HUa) Hn Htj Hid)|].
      assert (Hst : d_sid t = s) by (apply (match_eq_sid _ _ _ Hm)).
      assert (Ct : CanonN sch p t) by (apply (CanonAt_In sch p a t Ha), (nth_error_In _ _ Hn)).
      assert (Ut : UniqIds sch (d_ch t)).
      { apply UniqN_unfold. destruct HUa as [_ HUa]. rewrite Forall_forall in HUa. apply HUa, (nth_error_In _ _ Hn). }
      split; [rewrite Hs, Hst; reflexivity|]. split.
      { intros Hterm He. rewrite Hv. apply (new_val_term sch o x t j Hj Htj Hterm He). }
      (* descendants *)
      intros q n Hq Hen. destruct q as [|j2 q']; [discriminate|].
      rewrite lookup_path_cons in Hq. rewrite lookup_path_cons.
      unfold x in Hq. cbn [d_ch] in Hq.
      destruct (find_inst sch ch j2) as [y|] eqn:Ey; [|discriminate].
      destruct (find_inst_some _ _ _ _ Ey) as [Hyin Hyid]. apply has_id_inst in Hyid.
      assert (HCc : Forall (CanonN sch (Some s)) ch) by (unfold x in HC; apply CanonN_unfold in HC; apply HC).
      assert (HNc : UniqIds sch ch) by (unfold x in HN; apply UniqN_unfold in HN; exact HN).
      assert (Cy : CanonN sch (Some s) y) by (rewrite Forall_forall in HCc; apply HCc, Hyin).
      destruct (is_key sch (d_sid y)) eqn:Eky.
      + (* a key of the list instance: untouched in the target instance, same value because the instances match *)
        unfold is_key in Eky. rewrite (Hp y Hyin) in Eky. unfold x in Eky. cbn [d_sid] in Eky.
        apply existsb_exists in Eky. destruct Eky as [k [Hk Ek]]. apply N.eqb_eq in Ek. subst k.
        assert (Hls : exists si, lookup sch s = Some si).
        { unfold x in HC. apply CanonN_unfold in HC. destruct HC as [[si [Hl _]] _]. exists si. exact Hl. }
        destruct Hls as [si Hl]. unfold sget in Hk. rewrite Hl in Hk.
        destruct (schema_ok_entry sch s si Hsch Hl) as [Hlist Hleaf].
        assert (Hkl : kind_of sch (d_sid y) = KLeaf) by (apply Hleaf, Hk).
        assert (Hmu : multi sch (d_sid y) = false) by (unfold multi; rewrite Hkl; reflexivity).
        assert (Hj2 : j2 = IdNode (d_sid y)).
        { unfold inst_id in Hyid. rewrite (multi_false_dup _ _ Hmu), Hkl in Hyid. congruence. }
        subst j2.
        assert (Hyn : d_ch y = []) by (apply (CanonN_term_nil sch (Some s) y Cy); unfold is_term; rewrite Hkl; reflexivity).
        assert (Hq' : q' = []).
        { destruct q' as [|j3 q'']; [reflexivity|]. rewrite Hyn in Hq. rewrite lookup_path_cons in Hq. discriminate. }
        subst q'. inversion Hq; subst n. clear Hq.
        assert (Hfs2 : find_sid (d_ch t2) (d_sid y) = find_sid (d_ch t) (d_sid y)).
        { apply (MFoldK_find_sid sch o _ _ _ (d_sid y) HFold). intros z Hz Hzk.
          apply (nonkey_not_key sch x z (d_sid y) Hp Hz Hzk). unfold x, sget. cbn [d_sid]. rewrite Hl. exact Hk. }
        assert (Hfi : forall f, find_inst sch f (IdNode (d_sid y)) = find_sid f (d_sid y)).
        { intro f. unfold find_inst, find_sid. apply find_ext_eq. intro c. apply has_id_node, Hmu. }
        rewrite Hfi, Hfs2.
        destruct (canon_key_present sch p t si (d_sid y) Ct) as [c Hc]; [rewrite Hst; exact Hl|exact Hk|].
        rewrite Hc. exists c. destruct (find_sid_some _ _ _ Hc) as [_ Hcs]. repeat split; [exact Hcs|].
        intros _.
        (* values: the key tuples of x and t are equal *)
        assert (Hkind : kind_of sch s = KList).
        { unfold kind_of, sget. rewrite Hl. destruct (si_kind si); try reflexivity; destruct (si_keys si); try discriminate; contradiction. }
        assert (Hkv : key_vals sch t = key_vals sch x).
        { apply has_id_inst in Htj. unfold inst_id in Hj, Htj. rewrite Hst in Htj. unfold x in Hj. cbn [d_sid] in Hj.
          destruct (dup_inst sch s); [discriminate|]. rewrite Hkind in *. unfold x. congruence. }
        unfold key_vals in Hkv. rewrite Hst in Hkv. unfold x in Hkv. cbn [d_sid d_ch] in Hkv.
        unfold sget in Hkv. rewrite Hl in Hkv.
        pose proof (map_eq_In _ _ _ _ Hkv Hk) as Hcv. unfold child_val in Hcv. rewrite Hc in Hcv.
        rewrite <- Hfi, Ey in Hcv. exact Hcv.
      + (* another child: by the fold over the source children *)
        assert (Hynk : In y (nonkeys sch ch)) by (apply filter_In; split; [exact Hyin|rewrite Eky; reflexivity]).
        unfold x in HFold. cbn [d_ch] in HFold. apply MFoldK_MFold in HFold.
        assert (Cat : CanonAt sch (Some s) (d_ch t)) by (rewrite <- Hst; apply (CanonAt_children sch p t Ct)).
        destruct (contains_fold (Some s) (nonkeys sch ch) (d_ch t) (d_ch t2) (Forall_nonkeys sch ch IH) HFold Cat Ut
                    (Forall_nonkeys sch ch HCc) (Forall_nonkeys sch ch (proj2 HNc)) (UniqL_nonkeys sch ch (proj1 HNc))
                    y j2 Hynk Hyid) as [c [Hc [Hcs [Hcv Hcd]]]].
        rewrite Hc. destruct q' as [|j3 q''].
        * inversion Hq; subst n. exists c. repeat split; [exact Hcs|]. intro Ht. apply Hcv; [exact Ht|exact Hen].
        * apply (Hcd (j3 :: q'') n Hq Hen).
  Qed.

  (* every explicit source node (or every source node with LYD_MERGE_DEFAULTS), addressed by its instance path, is in the
     merged tree: a node of the same schema node at the same path, with the source's value when it is a term *)
  Theorem merge_contains_source T S path n :
    Canon sch T -> Canon sch S -> UniqIds sch T -> UniqIds sch S ->
    lookup_path sch S path = Some n -> expl o n ->
    exists n', lookup_path sch (merge sch o T S) path = Some n' /\ d_sid n' = d_sid n /\
               (is_term sch (d_sid n) = true -> d_val n' = d_val n).
  Proof.
    intros HT HS HUT HUS Hq Hen. destruct path as [|j q]; [discriminate|].
    rewrite lookup_path_cons in Hq. rewrite lookup_path_cons.
    destruct (find_inst sch S j) as [x|] eqn:Ex; [|discriminate].
    destruct (find_inst_some _ _ _ _ Ex) as [Hxin Hxid]. apply has_id_inst in Hxid.
    assert (IHs : Forall contains_stmt S) by (apply Forall_forall; intros y _; apply contains_step).
    destruct (contains_fold None S T (merge sch o T S) IHs (merge_sound sch o T S HS) HT HUT (proj2 HS) (proj2 HUS) (proj1 HUS)
                x j Hxin Hxid) as [c [Hc [Hcs [Hcv Hcd]]]].
    rewrite Hc. destruct q as [|j3 q''].
    - inversion Hq; subst n. exists c. repeat split; [exact Hcs|]. intro Ht. apply Hcv; [exact Ht|exact Hen].
    - apply (Hcd (j3 :: q'') n Hq Hen).
  Qed.
End Contains.


(* --- target nodes whose instance path is not in the source are unchanged --- *)
Lemma lookup_path_nonkeys_none sch f q :
  UniqL sch f -> lookup_path sch f q = None -> lookup_path sch (nonkeys sch f) q = None.
Proof.
  intros HU H. destruct q as [|j q']; [reflexivity|]. rewrite lookup_path_cons in *.
  destruct (find_inst sch f j) as [y|] eqn:Ey.
  - destruct (find_inst_some _ _ _ _ Ey) as [Hyin Hyid].
    destruct (is_key sch (d_sid y)) eqn:Ek.
    + assert (Hn : find_inst sch (nonkeys sch f) j = None).
      { apply find_all_false. intros z Hz. apply filter_In in Hz. destruct Hz as [Hz1 Hz2].
        destruct (has_id sch j z) eqn:E; [|reflexivity].
        pose proof (uniq_find sch f z j HU Hz1 E) as Hf. rewrite Ey in Hf. inversion Hf; subst z.
        rewrite Ek in Hz2. discriminate. }
      rewrite Hn. reflexivity.
    + assert (Hn : find_inst sch (nonkeys sch f) j = Some y).
      { apply uniq_find; [apply UniqL_nonkeys, HU| |exact Hyid]. apply filter_In. split; [exact Hyin|rewrite Ek; reflexivity]. }
      rewrite Hn. exact H.
  - assert (Hn : find_inst sch (nonkeys sch f) j = None).
    { apply find_all_false. intros z Hz. apply filter_In in Hz. destruct Hz as [Hz1 _].
      unfold find_inst in Ey. apply (find_none _ _ Ey z Hz1). }
    rewrite Hn. reflexivity.
Qed.

Lemma keeps_fold sch o : forall q p l a b n,
  MFold (MStep sch o) l a b -> CanonAt sch p a -> UniqIds sch a ->
  Forall (CanonN sch p) l -> Forall (UniqN sch) l -> UniqL sch l ->
  lookup_path sch a q = Some n -> lookup_path sch l q = None -> lookup_path sch b q = Some n.
Proof.
  induction q as [|j q' IHq]; intros p l; [intros a b n _ _ _ _ _ _ H; discriminate|].
  induction l as [|x l IHl]; intros a b n HF Ha HUa HC HN HUl Hqa Hql; cbn [MFold] in HF; [subst; exact Hqa|].
  destruct HF as [m [H1 H2]].
  inversion HC as [|? ? Cx HC']; subst. inversion HN as [|? ? Nx HN']; subst.
  assert (Cm : CanonAt sch p m) by (apply (MStep_canon sch o x p a m); assumption).
  assert (Um : UniqIds sch m) by (apply (MStep_uniq sch o x p a m); assumption).
  destruct (has_id sch j x) eqn:Ex.
  - (* x is the source instance on the path *)
    apply has_id_inst in Ex.
    rewrite lookup_path_cons in Hql. unfold find_inst in Hql. cbn [find] in Hql. rewrite (has_id_self _ _ _ Ex) in Hql.
    destruct q' as [|j2 q'']; [discriminate|].
    rewrite lookup_path_cons in Hqa.
    destruct (find_inst sch a j) as [t0|] eqn:Et0; [|discriminate].
    destruct (find_inst_some _ _ _ _ Et0) as [Ht0in Ht0id].
    assert (Hm : lookup_path sch m (j :: j2 :: q'') = Some n).
    { rewrite MStep_unfold in H1.
      destruct H1 as [[Hno ->]|[i [t [t2 [Hn [Hmt [-> [Hs [_ [Hv [_ HFold]]]]]]]]]]].
      - exfalso. destruct Hno as [Hno|Hd]; [|apply inst_id_none in Hd; congruence].
        specialize (Hno t0 Ht0in). rewrite (match_eq_has_id sch x j Ex) in Hno. congruence.
      - assert (Htj : has_id sch j t = true) by (rewrite <- (match_eq_has_id sch x j Ex); exact Hmt).
        pose proof (uniq_find sch a t j (proj1 HUa) (nth_error_In _ _ Hn) Htj) as Hf. rewrite Et0 in Hf. inversion Hf; subst t0.
        assert (Hp : parents_ok sch x) by (apply (CanonN_parents_ok sch p), Cx).
        assert (Hid : inst_id sch t2 = inst_id sch t) by (apply (upd_inst_id sch o x t t2 Hp Hmt Hs Hv HFold)).
        rewrite lookup_path_cons, (find_replace_uniq sch a i t t2 j (proj1 HUa) Hn Htj Hid).
        assert (Ct : CanonN sch p t) by (apply (CanonAt_In sch p a t Ha), Ht0in).
        assert (Hst : d_sid t = d_sid x) by (apply (match_eq_sid _ _ _ Hmt)).
        apply MFoldK_MFold in HFold.
        apply (IHq (Some (d_sid x)) (nonkeys sch (d_ch x)) (d_ch t) (d_ch t2) n HFold).
        + rewrite <- Hst. apply (CanonAt_children sch p t Ct).
        + apply UniqN_unfold. destruct HUa as [_ HUa]. rewrite Forall_forall in HUa. apply HUa, Ht0in.
        + apply Forall_nonkeys. destruct x as [s v d mt ch]. apply CanonN_unfold in Cx. apply Cx.
        + apply Forall_nonkeys. apply UniqN_unfold in Nx. apply Nx.
        + apply UniqL_nonkeys. apply UniqN_unfold in Nx. apply Nx.
        + exact Hqa.
        + apply lookup_path_nonkeys_none; [apply UniqN_unfold in Nx; apply Nx|exact Hql]. }
    apply (IHl m b n H2 Cm Um HC' HN' (UniqL_tail sch x l HUl) Hm).
    rewrite lookup_path_cons.
    assert (Hn : find_inst sch l j = None).
    { apply find_all_false. intros z Hz. apply (UniqL_head_other sch x l j HUl (has_id_self _ _ _ Ex) z Hz). }
    rewrite Hn. reflexivity.
  - (* another source sibling: the node on the path is not touched *)
    assert (Hne : inst_id sch x <> Some j) by (intro E; rewrite (has_id_self _ _ _ E) in Ex; discriminate).
    apply (IHl m b n H2 Cm Um HC' HN' (UniqL_tail sch x l HUl)).
    + rewrite lookup_path_cons in *. rewrite (MStep_find_other sch o x p a m j Cx H1 Hne). exact Hqa.
    + rewrite lookup_path_cons in *. unfold find_inst in *. cbn [find] in Hql. rewrite Ex in Hql. exact Hql.
Qed.

Theorem merge_keeps_rest sch o T S path n :
  Canon sch T -> Canon sch S -> UniqIds sch T -> UniqIds sch S ->
  lookup_path sch T path = Some n -> lookup_path sch S path = None ->
  lookup_path sch (merge sch o T S) path = Some n.
Proof.
  intros HT HS HUT HUS H1 H2.
  apply (keeps_fold sch o path None S T (merge sch o T S) n (merge_sound sch o T S HS) HT HUT (proj2 HS) (proj2 HUS) (proj1 HUS) H1 H2).
Qed.

(* ------------------------------------------------------------------------------------------- *)
(* I. idempotence (fragment: the source has no instances of duplicate-instance lists)            *)
(* ------------------------------------------------------------------------------------------- *)
(* every node of the subtree has an identity *)
Fixpoint AllId (sch : schema) (n : dnode) {struct n} : Prop :=
  match n with
  | DN s _ _ _ ch =>
      dup_inst sch s = false /\
      (fix all (l : list dnode) : Prop := match l with [] => True | x :: l' => AllId sch x /\ all l' end) ch
  end.

Lemma AllId_unfold sch n : AllId sch n <-> dup_inst sch (d_sid n) = false /\ Forall (AllId sch) (d_ch n).
Proof.
  destruct n as [s v d m ch]. cbn [AllId d_sid d_ch].
  assert (HF : forall l, (fix all (l : list dnode) : Prop :=
                            match l with [] => True | x :: l' => AllId sch x /\ all l' end) l <-> Forall (AllId sch) l).
  { induction l as [|x l IH]; [split; [constructor|trivial]|]. split.
    - intros [H1 H2]. constructor; [assumption|apply IH; assumption].
    - intro H. inversion H; subst. split; [assumption|apply IH; assumption]. }
  rewrite HF. reflexivity.
Qed.

Fixpoint all_idb (sch : schema) (n : dnode) {struct n} : bool :=
  match n with DN s _ _ _ ch => negb (dup_inst sch s) && forallb (all_idb sch) ch end.

Lemma all_idb_spec sch n : all_idb sch n = true -> AllId sch n.
Proof.
  induction n as [s v d m ch IH] using dnode_ind'. cbn [all_idb]. intro H. apply andb_true_iff in H. destruct H as [H1 H2].
  apply AllId_unfold. cbn [d_sid d_ch]. split; [apply negb_true_iff, H1|].
  rewrite forallb_forall in H2. rewrite Forall_forall in *. intros x Hx. apply (IH x Hx), H2, Hx.
Qed.

(* the siblings R already hold everything the source subtree x would merge in: a sibling matches x, updating it with
   x changes nothing, and the same holds for the children of x below it *)
Fixpoint Absorbed (sch : schema) (o : mopts) (x : dnode) (R : forest) {struct x} : Prop :=
  match x with
  | DN s v d m ch =>
      exists t, In t R /\ match_eq sch x t = true /\ merge_value sch o x t = (t, []) /\
                (fix all (l : list dnode) : Prop :=
                   match l with
                   | [] => True
                   | y :: l' => (is_key sch (d_sid y) = true \/ Absorbed sch o y (d_ch t)) /\ all l'
                   end) ch
  end.

Lemma Absorbed_unfold sch o x R :
  Absorbed sch o x R <->
  exists t, In t R /\ match_eq sch x t = true /\ merge_value sch o x t = (t, []) /\
            Forall (fun y => is_key sch (d_sid y) = true \/ Absorbed sch o y (d_ch t)) (d_ch x).
Proof.
  destruct x as [s v d m ch]. cbn [Absorbed d_ch].
  assert (HF : forall t l, (fix all (l : list dnode) : Prop :=
                              match l with
                              | [] => True
                              | y :: l' => (is_key sch (d_sid y) = true \/ Absorbed sch o y (d_ch t)) /\ all l'
                              end) l <->
                           Forall (fun y => is_key sch (d_sid y) = true \/ Absorbed sch o y (d_ch t)) l).
  { intro t. induction l as [|y l IH]; [split; [constructor|trivial]|]. split.
    - intros [H1 H2]. constructor; [assumption|apply IH; assumption].
    - intro H. inversion H; subst. split; [assumption|apply IH; assumption]. }
  split; intros [t [H1 [H2 [H3 H4]]]]; exists t; repeat split; try assumption; apply HF; exact H4.
Qed.

Lemma set_same t : set_dflt (set_ch t (d_ch t)) (d_dflt t) = t.
Proof. destruct t; reflexivity. Qed.

Lemma count_match_uniq sch x j R : inst_id sch x = Some j -> UniqL sch R -> (count_match sch x R <= 1)%nat.
Proof.
  intros Hj HU. unfold count_match. rewrite (filter_ext _ _ (match_eq_has_id sch x j Hj)). apply HU.
Qed.

Definition fix_stmt sch o (x : dnode) : Prop :=
  forall R c, Absorbed sch o x R -> UniqIds sch R -> AllId sch x -> cache_inv sch c R ->
              exists c' oth, merge_sib sch o x R c = (R, c', [], oth) /\ cache_inv sch c' R.

Lemma absorbed_children sch o np l : forall tch,
  Forall (fix_stmt sch o) l ->
  Forall (fun y => is_key sch (d_sid y) = true \/ Absorbed sch o y tch) l -> Forall (AllId sch) l -> UniqIds sch tch ->
  forall cc flag up, cache_inv sch cc tch ->
  merge_children sch (merge_sib sch o) np l tch cc flag up = (tch, flag, up).
Proof.
  induction l as [|y l IHl]; intros tch IH HA HI HU cc flag up Hc; cbn [merge_children]; [reflexivity|].
  inversion IH as [|? ? Hy IH']; subst. inversion HA as [|? ? Ay HA']; subst. inversion HI as [|? ? Iy HI']; subst.
  destruct (is_key sch (d_sid y)) eqn:Ek; [apply IHl; assumption|].
  destruct Ay as [Ay|Ay]; [discriminate|].
  destruct (Hy tch cc Ay HU Iy Hc) as [c' [oth [E Hc']]]. rewrite E. cbn [apply_sigs]. rewrite app_nil_r.
  apply IHl; assumption.
Qed.

(* merging a source subtree the siblings have absorbed changes nothing and asks nothing of the parents *)
Theorem absorbed_fix sch o x : fix_stmt sch o x.
Proof.
  induction x as [s v d m ch IH] using dnode_ind'. intros R c HA HU HI Hc.
  set (x := DN s v d m ch) in *.
  apply Absorbed_unfold in HA. destruct HA as [t [Htin [Hm [Hmv HAc]]]].
  apply AllId_unfold in HI. destruct HI as [Hd HIc]. unfold x in Hd, HIc, HAc. cbn [d_sid d_ch] in Hd, HIc, HAc.
  destruct (inst_id_some sch x Hd) as [j Hj].
  assert (Hcnt1 : (1 <= count_match sch x R)%nat) by (apply (count_match_pos sch x R t Htin Hm)).
  assert (Hcnt2 : (count_match sch x R <= 1)%nat) by (apply (count_match_uniq sch x j R Hj (proj1 HU))).
  rewrite merge_sib_unfold.
  destruct (choose sch c x R) as [[k c1] fi] eqn:Ech.
  destruct (choose_spec sch c x R k c1 fi Hc Ech) as [Hc1 [Hfi Hnf]].
  assert (Hk : k = Some O /\ fi = false).
  { destruct fi.
    - exfalso. destruct (Hfi eq_refl) as [_ [_ Hno]]. specialize (Hno t Htin). congruence.
    - destruct (Hnf eq_refl) as [H1 H2]. destruct k as [k'|]; [|specialize (H2 eq_refl); unfold x in H2; cbn [d_sid] in H2; congruence].
      specialize (H1 k' eq_refl Hd). split; [f_equal; lia|reflexivity]. }
  destruct Hk as [-> ->].
  destruct (match_idx sch x R 0 0) as [i|] eqn:Ei; [|exfalso; apply (match_idx_lt sch x R O O); [lia|exact Ei]].
  destruct (match_idx_some _ _ _ _ _ _ Ei) as [t' [_ [Hn Hm']]]. rewrite Nat.sub_0_r in Hn.
  assert (Ht' : t' = t).
  { rewrite (match_eq_has_id sch x j Hj) in Hm, Hm'.
    pose proof (uniq_find sch R t j (proj1 HU) Htin Hm) as E1.
    pose proof (uniq_find sch R t' j (proj1 HU) (nth_error_In _ _ Hn) Hm') as E2. congruence. }
  subst t'. rewrite (nth_nth_error i R x t Hn).
  assert (Hupd : upd_node sch o x t = (t, [])).
  { unfold upd_node. rewrite Hmv.
    rewrite (absorbed_children sch o (is_np_cont sch (d_sid t)) ch (d_ch t) IH HAc HIc); [rewrite set_same; reflexivity| |apply cache_inv_nil].
    apply UniqN_unfold. destruct HU as [_ HU]. rewrite Forall_forall in HU. apply HU, Htin. }
  rewrite Hupd. rewrite (replace_nth_same i R t Hn).
  exists c1, (others_dflt i R). split; [reflexivity|exact Hc1].
Qed.

(* --- the first merge leaves every source subtree absorbed --- *)
Lemma merge_value_idem sch o x t :
  merge_value sch o x (fst (merge_value sch o x t)) = (fst (merge_value sch o x t), []).
Proof.
  destruct x as [xs xv xd xm xch]. destruct t as [ts tv td tm tch]. destruct o as [od ow].
  unfold merge_value. cbn [d_sid d_dflt d_val mo_defaults mo_with_flags].
  destruct (kind_of sch ts) eqn:Ek.
  - cbn [fst d_sid]. rewrite Ek. reflexivity.
  - destruct od, xd, td, ow; cbn; rewrite Ek; cbn; reflexivity.
  - destruct xd, td; cbn; rewrite Ek; cbn; reflexivity.
  - cbn [fst d_sid]. rewrite Ek. reflexivity.
  - destruct (beq_bytes xv tv) eqn:E; cbn; rewrite Ek; cbn; [rewrite E; reflexivity|].
    rewrite beq_bytes_refl. reflexivity.
Qed.

Lemma merge_value_self sch o x : merge_value sch o x x = (x, []).
Proof.
  unfold merge_value. destruct x as [s v d m ch]. cbn [d_sid d_dflt d_val set_val set_dflt].
  destruct (kind_of sch s); try reflexivity.
  - destruct (mo_defaults o || negb d); [|reflexivity]. destruct d, (mo_with_flags o); reflexivity.
  - destruct d; reflexivity.
  - rewrite beq_bytes_refl. reflexivity.
Qed.

Lemma merge_value_inner sch o x t : is_term sch (d_sid t) = false -> merge_value sch o x t = (t, []).
Proof. unfold merge_value, is_term. destruct (kind_of sch (d_sid t)); try discriminate; reflexivity. Qed.

Lemma Absorbed_self_children sch o x : AllId sch x -> Forall (fun y => is_key sch (d_sid y) = true \/ Absorbed sch o y (d_ch x)) (d_ch x).
Proof.
  induction x as [s v d m ch IH] using dnode_ind'. intro HI. apply AllId_unfold in HI. destruct HI as [_ HI]. cbn [d_ch] in *.
  apply Forall_forall. intros y Hy. right. apply Absorbed_unfold. exists y.
  rewrite Forall_forall in HI, IH. pose proof (HI y Hy) as HIy. apply AllId_unfold in HIy.
  repeat split; [exact Hy|apply match_eq_refl_id, HIy|apply merge_value_self|].
  apply (IH y Hy). apply HI, Hy.
Qed.

Lemma In_insert_old sch f n x : In x f -> In x (insert_node sch f n).
Proof. intro H. apply insert_node_In. right. exact H. Qed.

(* a later step for another identity keeps x absorbed *)
Lemma Absorbed_stable sch o p x z a m :
  CanonN sch p z -> Absorbed sch o x a -> MStep sch o z a m ->
  (forall j, inst_id sch x = Some j -> inst_id sch z <> Some j) -> dup_inst sch (d_sid x) = false ->
  Absorbed sch o x m.
Proof.
  intros Cz HA HS Hne Hd. apply Absorbed_unfold in HA. destruct HA as [t [Htin [Hm [Hmv HAc]]]].
  apply Absorbed_unfold. exists t. repeat split; try assumption.
  rewrite MStep_unfold in HS. destruct HS as [[_ ->]|[i [tz [t2 [Hn [Hmz [-> _]]]]]]]; [apply In_insert_old, Htin|].
  destruct (In_replace_nth_old i a t2 tz t Hn Htin) as [E|E]; [|exact E].
  exfalso. subst tz. destruct (inst_id_some sch x Hd) as [j Hj].
  rewrite (match_eq_has_id sch x j Hj) in Hm.
  pose proof (match_other_id sch z t j Hmz (Hne j Hj)). congruence.
Qed.

Definition absorb_stmt sch o (x : dnode) : Prop :=
  forall p a m, CanonAt sch p a -> UniqIds sch a -> CanonN sch p x -> UniqN sch x -> AllId sch x ->
                MStep sch o x a m -> Absorbed sch o x m.

Lemma absorb_fold sch o p l : forall a b,
  Forall (absorb_stmt sch o) l -> MFold (MStep sch o) l a b -> CanonAt sch p a -> UniqIds sch a ->
  Forall (CanonN sch p) l -> Forall (UniqN sch) l -> Forall (AllId sch) l -> UniqL sch l ->
  forall y, In y l -> Absorbed sch o y b.
Proof.
  induction l as [|x l IHl]; intros a b IH HF Ha HUa HC HN HI HUl y Hy; [contradiction|].
  cbn [MFold] in HF. destruct HF as [m [H1 H2]].
  inversion IH as [|? ? Hx IH']; subst. inversion HC as [|? ? Cx HC']; subst.
  inversion HN as [|? ? Nx HN']; subst. inversion HI as [|? ? Ix HI']; subst.
  destruct Hy as [<-|Hy].
  - (* absorbed after its own step, and the later steps keep it *)
    pose proof (Hx p a m Ha HUa Cx Nx Ix H1) as HA.
    assert (Hdx : dup_inst sch (d_sid x) = false) by (apply AllId_unfold in Ix; apply Ix).
    clear -HA H2 HC' HUl Hdx. revert m HA H2. induction l as [|z l IHz]; intros m HA H2; cbn [MFold] in H2; [subst; exact HA|].
    destruct H2 as [m' [Hz H2]]. inversion HC' as [|? ? Cz HC'']; subst.
    assert (HU' : UniqL sch (x :: l)).
    { intro j. specialize (HUl j). cbn [filter] in *. destruct (has_id sch j x), (has_id sch j z); cbn [length] in *; lia. }
    apply (IHz HU' HC'' m'); [|exact H2].
    apply (Absorbed_stable sch o p x z m m' Cz HA Hz); [|exact Hdx].
    intros j Hj E. specialize (HUl j). cbn [filter] in HUl.
    rewrite (has_id_self _ _ _ Hj), (has_id_self _ _ _ E) in HUl. cbn [length] in HUl. lia.
  - apply (IHl m b IH' H2); try assumption.
    + apply (MStep_canon sch o x p a m); assumption.
    + apply (MStep_uniq sch o x p a m); assumption.
    + apply (UniqL_tail sch x l HUl).
Qed.

Theorem absorb_step sch o x : absorb_stmt sch o x.
Proof.
  induction x as [s v d mt ch IH] using dnode_ind'. intros p a m Ha HUa HC HN HI HS.
  set (x := DN s v d mt ch) in *.
  assert (Hd : dup_inst sch s = false) by (apply AllId_unfold in HI; apply HI).
  rewrite MStep_unfold in HS.
  destruct HS as [[Hno ->]|[i [t [t2 [Hn [Hm [-> [Hs [Hme [Hv [Hdf HFold]]]]]]]]]]].
  - apply Absorbed_unfold. exists x. repeat split.
    + apply insert_node_In. left. reflexivity.
    + apply match_eq_refl_id. exact Hd.
    + apply merge_value_self.
    + apply (Absorbed_self_children sch o x HI).
  - assert (Hp : parents_ok sch x) by (apply (CanonN_parents_ok sch p), HC).
    assert (Hid : inst_id sch t2 = inst_id sch t) by (apply (upd_inst_id sch o x t t2 Hp Hm Hs Hv HFold)).
    destruct (inst_id_some sch x Hd) as [j Hj].
    assert (Hst : d_sid t = s) by (apply (match_eq_sid _ _ _ Hm)).
    apply Absorbed_unfold. exists t2. repeat split.
    + apply (In_replace_nth_new i a t2 t Hn).
    + rewrite (match_eq_has_id sch x j Hj) in *. unfold has_id in *. rewrite Hid. exact Hm.
    + (* updating again changes nothing *)
      destruct (is_term sch s) eqn:Et.
      * assert (Hch : ch = []) by (apply (CanonN_term_nil sch p x HC); exact Et).
        assert (Ht2 : t2 = fst (merge_value sch o x t)).
        { pose proof (merge_value_shape sch o x t) as Hsh. cbn zeta in Hsh. destruct Hsh as [S1 [S2 S3]].
          unfold x in HFold. cbn [d_ch] in HFold. rewrite Hch in HFold. apply MFoldK_nil_src in HFold.
          unfold new_val, new_dflt in *. specialize (Hdf Hch).
          destruct t2 as [a1 a2 a3 a4 a5]. destruct (fst (merge_value sch o x t)) as [b1 b2 b3 b4 b5].
          cbn [d_sid d_val d_dflt d_meta d_ch] in *. congruence. }
        rewrite Ht2. apply merge_value_idem.
      * apply merge_value_inner. rewrite Hs, Hst. exact Et.
    + (* the children *)
      unfold x. cbn [d_ch].
      assert (HCc : Forall (CanonN sch (Some s)) ch) by (unfold x in HC; apply CanonN_unfold in HC; apply HC).
      assert (HNc : UniqIds sch ch) by (unfold x in HN; apply UniqN_unfold in HN; exact HN).
      assert (HIc : Forall (AllId sch) ch) by (unfold x in HI; apply AllId_unfold in HI; apply HI).
      assert (Ct : CanonN sch p t) by (apply (CanonAt_In sch p a t Ha), (nth_error_In _ _ Hn)).
      assert (Cat : CanonAt sch (Some s) (d_ch t)) by (rewrite <- Hst; apply (CanonAt_children sch p t Ct)).
      assert (Ut : UniqIds sch (d_ch t)).
      { apply UniqN_unfold. destruct HUa as [_ HUa]. rewrite Forall_forall in HUa. apply HUa, (nth_error_In _ _ Hn). }
      unfold x in HFold. cbn [d_ch] in HFold. apply MFoldK_MFold in HFold.
      apply Forall_forall. intros y Hy.
      destruct (is_key sch (d_sid y)) eqn:Ek; [left; reflexivity|right].
      apply (absorb_fold sch o (Some s) (nonkeys sch ch) (d_ch t) (d_ch t2) (Forall_nonkeys sch ch IH) HFold Cat Ut
               (Forall_nonkeys sch ch HCc) (Forall_nonkeys sch ch (proj2 HNc)) (Forall_nonkeys sch ch HIc)
               (UniqL_nonkeys sch ch (proj1 HNc))).
      apply filter_In. split; [exact Hy|rewrite Ek; reflexivity].
Qed.

Lemma merge_list_fixed sch o l : forall R c,
  Forall (fun x => Absorbed sch o x R) l -> Forall (AllId sch) l -> UniqIds sch R -> cache_inv sch c R ->
  merge_list sch o l R c = R.
Proof.
  induction l as [|x l IH]; intros R c HA HI HU Hc; cbn [merge_list]; [reflexivity|].
  inversion HA; subst. inversion HI; subst.
  destruct (absorbed_fix sch o x R c) as [c' [oth [E Hc']]]; try assumption.
  rewrite E. apply IH; assumption.
Qed.

(* merging the same source again changes nothing (sources without duplicate-instance list instances) *)
Theorem merge_idempotent sch o T S :
  Canon sch T -> Canon sch S -> UniqIds sch T -> UniqIds sch S -> Forall (AllId sch) S ->
  merge sch o (merge sch o T S) S = merge sch o T S.
Proof.
  intros HT HS HUT HUS HI. unfold merge at 1.
  apply merge_list_fixed; [|exact HI|apply merge_uniq; assumption|apply cache_inv_nil].
  apply Forall_forall. intros y Hy.
  assert (IHs : Forall (absorb_stmt sch o) S) by (apply Forall_forall; intros z _; apply absorb_step).
  apply (absorb_fold sch o None S T (merge sch o T S) IHs (merge_sound sch o T S HS) HT HUT (proj2 HS) (proj2 HUS) HI (proj1 HUS) y Hy).
Qed.



(* ------------------------------------------------------------------------------------------- *)
(* H. merge into the empty tree                                                                  *)
(* ------------------------------------------------------------------------------------------- *)
Lemma merge_empty_fold sch o l : forall P b,
  MFold (MStep sch o) l P b -> StronglySorted (sib_ok sch) (P ++ l) -> UniqL sch (P ++ l) ->
  Forall (fun x => dup_inst sch (d_sid x) = false) l -> b = P ++ l.
Proof.
  induction l as [|x l IH]; intros P b HF HS HU HD; cbn [MFold] in HF; [subst; rewrite app_nil_r; reflexivity|].
  destruct HF as [m [H1 H2]]. inversion HD as [|? ? Dx HD']; subst.
  destruct (inst_id_some sch x Dx) as [j Hj].
  assert (Hm : m = P ++ [x]).
  { rewrite MStep_unfold in H1. destruct H1 as [[_ ->]|[i [t [t2 [Hn [Hmt _]]]]]].
    - apply insert_node_last. apply (StronglySorted_app_mid _ P x l HS).
    - exfalso. rewrite (match_eq_has_id sch x j Hj) in Hmt.
      specialize (HU j). rewrite filter_app in HU. cbn [filter] in HU. rewrite (has_id_self _ _ _ Hj) in HU.
      rewrite app_length in HU. cbn [length] in HU.
      assert (In t (filter (has_id sch j) P)) by (apply filter_In; split; [apply (nth_error_In _ _ Hn)|exact Hmt]).
      destruct (filter (has_id sch j) P); [contradiction|cbn [length] in HU; lia]. }
  subst m. rewrite (IH (P ++ [x]) b H2); rewrite <- ?app_assoc; cbn [app]; try assumption. reflexivity.
Qed.

(* merging into an empty target yields the source itself (LYD_NEW, which the real merge sets on the copies, is not
   in the model). Top-level instances of duplicate-instance lists are excluded here: for them the equality rests on the
   exhausted-cache path, which only the correspondence runs cover. *)
Theorem merge_empty_ids sch o S :
  Canon sch S -> UniqIds sch S -> Forall (fun x => dup_inst sch (d_sid x) = false) S -> merge sch o [] S = S.
Proof.
  intros HS HU HD.
  apply (merge_empty_fold sch o S [] (merge sch o [] S) (merge_sound sch o [] S HS)); cbn [app]; try assumption.
  - apply (canon_strongly_sorted sch None S HS).
  - apply HU.
Qed.

(* the source operand of the function is not an output: a non-destructive merge cannot change it (trivial here;
   on the C side T2 compares the dump of the source before and after the merge) *)
Lemma merge_source_pure sch o T S : snd (merge sch o T S, S) = S.
Proof. reflexivity. Qed.

(* --- full strength: also with instances of duplicate-instance lists at the top level of the source. This needs the
   function (the relation MStep allows an equal instance to be updated instead of appended): equal instances that were
   already copied have an exhausted lyd_dup_inst entry, so the next equal source instance is appended. --- *)
Fixpoint deq_list (a b : forest) : bool :=
  match a, b with
  | [], [] => true
  | x :: a', y :: b' => deq x y && deq_list a' b'
  | _, _ => false
  end.

Lemma deq_unfold a b :
  deq a b = (d_sid a =? d_sid b) && beq_bytes (d_val a) (d_val b) && deq_list (d_ch a) (d_ch b).
Proof. destruct a, b. reflexivity. Qed.

Lemma beq_bytes_sym a b : beq_bytes a b = beq_bytes b a.
Proof.
  destruct (beq_bytes a b) eqn:E1, (beq_bytes b a) eqn:E2; try reflexivity.
  - apply beq_bytes_eq in E1. subst. rewrite beq_bytes_refl in E2. discriminate.
  - apply beq_bytes_eq in E2. subst. rewrite beq_bytes_refl in E1. discriminate.
Qed.

Lemma deq_refl a : deq a a = true.
Proof.
  induction a as [s v d m ch IH] using dnode_ind'. rewrite deq_unfold. cbn [d_sid d_val d_ch].
  rewrite N.eqb_refl, beq_bytes_refl. cbn [andb].
  induction ch as [|x ch IHc]; [reflexivity|]. inversion IH; subst. cbn [deq_list]. rewrite H1. cbn [andb]. apply IHc. assumption.
Qed.

Lemma deq_sym a : forall b, deq a b = deq b a.
Proof.
  induction a as [s v d m ch IH] using dnode_ind'. intros [s2 v2 d2 m2 ch2]. rewrite !deq_unfold. cbn [d_sid d_val d_ch].
  rewrite (N.eqb_sym s s2), (beq_bytes_sym v v2). f_equal.
  revert ch2. induction ch as [|x ch IHc]; intros [|y ch2]; cbn [deq_list]; try reflexivity.
  inversion IH; subst. rewrite (H1 y), (IHc H2 ch2). reflexivity.
Qed.

Lemma deq_trans a : forall b c, deq a b = true -> deq b c = true -> deq a c = true.
Proof.
  induction a as [s v d m ch IH] using dnode_ind'. intros [s2 v2 d2 m2 ch2] [s3 v3 d3 m3 ch3]. rewrite !deq_unfold.
  cbn [d_sid d_val d_ch]. intros H1 H2.
  apply andb_true_iff in H1. destruct H1 as [H1 L1]. apply andb_true_iff in H1. destruct H1 as [S1 V1].
  apply andb_true_iff in H2. destruct H2 as [H2 L2]. apply andb_true_iff in H2. destruct H2 as [S2 V2].
  apply N.eqb_eq in S1, S2. apply beq_bytes_eq in V1, V2. subst. rewrite N.eqb_refl, beq_bytes_refl. cbn [andb].
  revert ch2 ch3 L1 L2. induction ch as [|x ch IHc]; intros [|y ch2] [|z ch3] L1 L2; cbn [deq_list] in *; try discriminate; try reflexivity.
  apply andb_true_iff in L1. destruct L1 as [A1 B1]. apply andb_true_iff in L2. destruct L2 as [A2 B2].
  inversion IH; subst. rewrite (H1 y z A1 A2). cbn [andb]. apply (IHc H2 ch2 ch3 B1 B2).
Qed.

Lemma match_eq_dup sch src x :
  dup_inst sch (d_sid src) = true -> match_eq sch src x = (d_sid x =? d_sid src) && deq src x.
Proof. intro Hd. unfold match_eq. rewrite (dup_inst_multi _ _ Hd), Hd. reflexivity. Qed.

Lemma match_eq_refl sch x : match_eq sch x x = true.
Proof.
  destruct (dup_inst sch (d_sid x)) eqn:Hd; [|apply match_eq_refl_id, Hd].
  rewrite (match_eq_dup sch x x Hd), N.eqb_refl, deq_refl. reflexivity.
Qed.

Lemma match_eq_sym sch a b : match_eq sch a b = true -> match_eq sch b a = true.
Proof.
  intro H. pose proof (match_eq_sid _ _ _ H) as Hs.
  destruct (dup_inst sch (d_sid a)) eqn:Hd.
  - rewrite (match_eq_dup sch a b Hd) in H. apply andb_true_iff in H. destruct H as [_ H].
    rewrite (match_eq_dup sch b a); [|rewrite Hs; exact Hd]. rewrite Hs, N.eqb_refl, deq_sym, H. reflexivity.
  - destruct (inst_id_some sch a Hd) as [j Hj]. rewrite (match_eq_has_id sch a j Hj) in H. apply has_id_inst in H.
    rewrite (match_eq_has_id sch b j H). apply has_id_self, Hj.
Qed.

Lemma match_eq_trans sch a b c : match_eq sch a b = true -> match_eq sch b c = true -> match_eq sch a c = true.
Proof.
  intros H1 H2. pose proof (match_eq_sid _ _ _ H1) as S1. pose proof (match_eq_sid _ _ _ H2) as S2.
  destruct (dup_inst sch (d_sid a)) eqn:Hd.
  - rewrite (match_eq_dup sch a b Hd) in H1. rewrite (match_eq_dup sch b c) in H2; [|rewrite S1; exact Hd].
    apply andb_true_iff in H1. destruct H1 as [_ H1]. apply andb_true_iff in H2. destruct H2 as [_ H2].
    rewrite (match_eq_dup sch a c Hd), S2, S1, N.eqb_refl, (deq_trans a b c H1 H2). reflexivity.
  - destruct (inst_id_some sch a Hd) as [j Hj]. rewrite (match_eq_has_id sch a j Hj) in *. apply has_id_inst in H1.
    rewrite (match_eq_has_id sch b j H1) in H2. exact H2.
Qed.

(* state of the cache while the source is copied into the (initially empty) target P *)
Definition EInv (sch : schema) (c : cache) (P : forest) : Prop :=
  (forall r cnt used, In (r, cnt, used) c -> In r P) /\
  (forall src, dup_inst sch (d_sid src) = true -> (exists t, In t P /\ match_eq sch src t = true) ->
               exists cnt, cache_find sch c src = Some (cnt, cnt)).

Lemma count_match_app sch x P Q : count_match sch x (P ++ Q) = (count_match sch x P + count_match sch x Q)%nat.
Proof. unfold count_match. rewrite filter_app, app_length. reflexivity. Qed.

Lemma count_match_zero sch x P : (forall t, In t P -> match_eq sch x t = false) -> count_match sch x P = O.
Proof.
  intro H. unfold count_match. induction P as [|a P IH]; [reflexivity|]. cbn [filter].
  rewrite (H a (or_introl eq_refl)). apply IH. intros t Ht. apply H. right. exact Ht.
Qed.

Lemma merge_empty_step sch o x P c :
  EInv sch c P -> (forall b, In b P -> sib_ok sch b x) ->
  (dup_inst sch (d_sid x) = false -> forall t, In t P -> match_eq sch x t = false) ->
  exists c' sg oth, merge_sib sch o x P c = (P ++ [x], c', sg, oth) /\ EInv sch c' (P ++ [x]).
Proof.
  intros [HE2 HE3] Hsorted Hnd. rewrite merge_sib_unfold. unfold choose.
  rewrite (insert_node_last sch P x Hsorted).
  destruct (match_idx sch x P 0 0) as [i0|] eqn:E0.
  - (* an equal instance is already there: x is an instance of a duplicate-instance list and its entry is used up *)
    destruct (match_idx_some _ _ _ _ _ _ E0) as [t0 [_ [Hn0 Hm0]]]. pose proof (nth_error_In _ _ Hn0) as Hin0.
    assert (Hd : dup_inst sch (d_sid x) = true).
    { destruct (dup_inst sch (d_sid x)) eqn:E; [reflexivity|]. rewrite (Hnd eq_refl t0 Hin0) in Hm0. discriminate. }
    destruct (HE3 x Hd (ex_intro _ t0 (conj Hin0 Hm0))) as [cnt Hcf].
    unfold dup_inst_next. rewrite Hcf, Nat.eqb_refl, Hd.
    exists c, (if d_dflt x then [] else [SDel]), true. split; [reflexivity|]. split.
    + intros r cn us Hr. apply in_or_app. left. apply (HE2 r cn us Hr).
    + intros src Hds [t [Ht Hmt]]. apply HE3; [exact Hds|]. apply in_app_or in Ht. destruct Ht as [Ht|[<-|[]]].
      * exists t. split; assumption.
      * exists t0. split; [exact Hin0|]. apply (match_eq_trans sch src x t0 Hmt Hm0).
  - (* no match: copied, and a new entry is made that is used up at once *)
    pose proof (match_idx_none0 _ _ _ _ E0) as Hno.
    assert (Hcf : cache_find sch c x = None).
    { destruct (cache_find sch c x) as [[cnt used]|] eqn:E; [|reflexivity]. exfalso.
      destruct (cache_find_In _ _ _ _ _ E) as [r [Hr Hmr]]. specialize (Hno r (HE2 _ _ _ Hr)).
      rewrite (match_eq_sym sch r x Hmr) in Hno. discriminate. }
    assert (Hcnt : count_match sch x (P ++ [x]) = 1%nat).
    { rewrite count_match_app, (count_match_zero sch x P Hno). unfold count_match. cbn [filter]. rewrite match_eq_refl. reflexivity. }
    unfold dup_inst_next at 1. rewrite Hcf. cbn [snd]. rewrite Hcnt.
    exists ((x, 1%nat, 1%nat) :: c), (if d_dflt x then [] else [SDel]), true. split; [reflexivity|]. split.
    + intros r cn us [Hr|Hr]; [inversion Hr; subst; apply in_or_app; right; left; reflexivity|].
      apply in_or_app. left. apply (HE2 r cn us Hr).
    + intros src Hds [t [Ht Hmt]]. cbn [cache_find].
      destruct (match_eq sch x src) eqn:Exs; [exists 1%nat; reflexivity|].
      apply HE3; [exact Hds|]. apply in_app_or in Ht. destruct Ht as [Ht|[<-|[]]]; [exists t; split; assumption|].
      rewrite (match_eq_sym sch src x Hmt) in Exs. discriminate.
Qed.

Lemma merge_empty_list sch o l : forall P c,
  EInv sch c P -> StronglySorted (sib_ok sch) (P ++ l) -> UniqL sch (P ++ l) -> merge_list sch o l P c = P ++ l.
Proof.
  induction l as [|x l IH]; intros P c HE HS HU; cbn [merge_list]; [rewrite app_nil_r; reflexivity|].
  destruct (merge_empty_step sch o x P c HE) as [c' [sg [oth [E HE']]]].
  - apply (StronglySorted_app_mid _ P x l HS).
  - intros Hd t Ht. destruct (inst_id_some sch x Hd) as [j Hj]. rewrite (match_eq_has_id sch x j Hj).
    destruct (has_id sch j t) eqn:Et; [|reflexivity]. exfalso.
    specialize (HU j). rewrite filter_app in HU. cbn [filter] in HU. rewrite (has_id_self _ _ _ Hj) in HU.
    rewrite app_length in HU. cbn [length] in HU.
    assert (In t (filter (has_id sch j) P)) by (apply filter_In; split; assumption).
    destruct (filter (has_id sch j) P); [contradiction|cbn [length] in HU; lia].
  - rewrite E. rewrite (IH (P ++ [x]) c' HE'); rewrite <- ?app_assoc; cbn [app]; try assumption. reflexivity.
Qed.

(* merging into an empty target yields the source itself - every canonical source with unique identities *)
Theorem merge_empty sch o S : Canon sch S -> UniqIds sch S -> merge sch o [] S = S.
Proof.
  intros HS HU. unfold merge.
  apply (merge_empty_list sch o S [] []); cbn [app].
  - split; [intros r cnt used []|]. intros src _ [t [[] _]].
  - apply (canon_strongly_sorted sch None S HS).
  - apply HU.
Qed.

(* ------------------------------------------------------------------------------------------- *)
(* J. level-wise view: instances of duplicate-instance lists                                     *)
(* ------------------------------------------------------------------------------------------- *)
(* a sibling that no source sibling matches is still there, identical (any kind of node, also an instance of a
   duplicate-instance list, which has no instance path) *)
Lemma MFold_unmatched_kept sch o l : forall a b t,
  MFold (MStep sch o) l a b -> In t a -> (forall z, In z l -> match_eq sch z t = false) -> In t b.
Proof.
  induction l as [|x l IH]; intros a b t H Ht Hno; cbn [MFold] in H; [subst; exact Ht|].
  destruct H as [m [H1 H2]]. apply (IH m b t H2); [|intros z Hz; apply Hno; right; exact Hz].
  rewrite MStep_unfold in H1. destruct H1 as [[_ ->]|[i [tz [t2 [Hn [Hm [-> _]]]]]]]; [apply In_insert_old, Ht|].
  destruct (In_replace_nth_old i a t2 tz t Hn Ht) as [E|E]; [|exact E].
  subst tz. rewrite (Hno x (or_introl eq_refl)) in Hm. discriminate.
Qed.

(* a source leaf-list instance (also of a config false leaf-list, where equal values may repeat) has an instance with
   its value among the merged siblings *)
Lemma MFold_leaflist_contained sch o l : forall a b x,
  MFold (MStep sch o) l a b -> In x l -> kind_of sch (d_sid x) = KLeafList ->
  exists x', In x' b /\ d_sid x' = d_sid x /\ d_val x' = d_val x.
Proof.
  assert (Hstable : forall l a b s v, MFold (MStep sch o) l a b -> kind_of sch s = KLeafList ->
                                      (exists t, In t a /\ d_sid t = s /\ d_val t = v) ->
                                      exists t, In t b /\ d_sid t = s /\ d_val t = v).
  { clear. induction l as [|z l IH]; intros a b s v H Hk [t [Ht [Hs Hv]]]; cbn [MFold] in H; [subst; exists t; auto|].
    destruct H as [m [H1 H2]]. apply (IH m b s v H2 Hk).
    rewrite MStep_unfold in H1. destruct H1 as [[_ ->]|[i [tz [t2 [Hn [Hm [-> [Hs2 [_ [Hv2 _]]]]]]]]]].
    - exists t. split; [apply In_insert_old, Ht|split; assumption].
    - destruct (In_replace_nth_old i a t2 tz t Hn Ht) as [E|E]; [|exists t; split; [exact E|split; assumption]].
      subst tz. exists t2. split; [apply (In_replace_nth_new i a t2 t Hn)|]. split; [congruence|].
      rewrite Hv2. unfold new_val. rewrite merge_value_leaflist_val; [exact Hv|]. rewrite Hs. exact Hk. }
  induction l as [|z l IH]; intros a b x H Hx Hk; [contradiction|]. cbn [MFold] in H. destruct H as [m [H1 H2]].
  destruct Hx as [<-|Hx]; [|apply (IH m b x H2 Hx Hk)].
  apply (Hstable l m b (d_sid z) (d_val z) H2 Hk).
  rewrite MStep_unfold in H1. destruct H1 as [[_ ->]|[i [t [t2 [Hn [Hm [-> [Hs2 [_ [Hv2 _]]]]]]]]]].
  - exists z. split; [apply insert_node_In; left; reflexivity|split; reflexivity].
  - exists t2. split; [apply (In_replace_nth_new i a t2 t Hn)|].
    pose proof (match_eq_sid _ _ _ Hm) as Hst. split; [congruence|].
    rewrite Hv2. unfold new_val. rewrite merge_value_leaflist_val; [|rewrite Hst; exact Hk].
    (* the matched instance has the value of the source instance *)
    unfold match_eq in Hm. apply andb_true_iff in Hm. destruct Hm as [_ Hm].
    unfold multi in Hm. rewrite Hk in Hm.
    destruct (dup_inst sch (d_sid z)) eqn:Ed.
    + rewrite deq_unfold in Hm. apply andb_true_iff in Hm. destruct Hm as [Hm _]. apply andb_true_iff in Hm. destruct Hm as [_ Hm].
      apply beq_bytes_eq in Hm. congruence.
    + unfold same_inst, has_id, inst_id in Hm. rewrite Hst, Ed, Hk in Hm. apply iid_eqb_eq in Hm. congruence.
Qed.

Section Level.
  Variable sch : schema.
  Variable o : mopts.
  Hypothesis Hsch : schema_okb sch = true.

  (* a key child is a leaf *)
  Lemma key_child_leaf p x y :
    CanonN sch p x -> In y (d_ch x) -> is_key sch (d_sid y) = true -> kind_of sch (d_sid y) = KLeaf.
  Proof.
    intros HC Hy Hk. pose proof (CanonN_parents_ok sch p x HC) as Hp.
    unfold is_key in Hk. rewrite (Hp y Hy) in Hk. apply existsb_exists in Hk. destruct Hk as [k [Hk Ek]].
    apply N.eqb_eq in Ek. subst k.
    destruct x as [s v d m ch]. apply CanonN_unfold in HC. destruct HC as [[si [Hl _]] _]. cbn [d_sid] in Hk.
    unfold sget in Hk. rewrite Hl in Hk. destruct (schema_ok_entry sch s si Hsch Hl) as [_ Hleaf]. apply Hleaf, Hk.
  Qed.

  Lemma lookup_path_nonkeys_some p x q n :
    CanonN sch p x -> UniqN sch x -> lookup_path sch (d_ch x) q = Some n -> is_term sch (d_sid n) = false ->
    lookup_path sch (nonkeys sch (d_ch x)) q = Some n.
  Proof.
    intros HC HN Hq Ht. destruct q as [|j q']; [discriminate|]. rewrite lookup_path_cons in *.
    destruct (find_inst sch (d_ch x) j) as [y|] eqn:Ey; [|discriminate].
    destruct (find_inst_some _ _ _ _ Ey) as [Hyin Hyid].
    assert (Cy : CanonN sch (Some (d_sid x)) y).
    { pose proof (CanonAt_children sch p x HC) as [_ HF]. rewrite Forall_forall in HF. apply HF, Hyin. }
    destruct (is_key sch (d_sid y)) eqn:Ek.
    - exfalso. pose proof (key_child_leaf p x y HC Hyin Ek) as Hkl.
      assert (Hyt : is_term sch (d_sid y) = true) by (unfold is_term; rewrite Hkl; reflexivity).
      destruct q' as [|j2 q''].
      + inversion Hq; subst n. congruence.
      + rewrite (CanonN_term_nil sch _ y Cy Hyt) in Hq. rewrite lookup_path_cons in Hq. discriminate.
    - apply UniqN_unfold in HN.
      assert (Hn : find_inst sch (nonkeys sch (d_ch x)) j = Some y).
      { apply uniq_find; [apply UniqL_nonkeys, HN| |exact Hyid]. apply filter_In. split; [exact Hyin|rewrite Ek; reflexivity]. }
      rewrite Hn. exact Hq.
  Qed.

  (* the merge works level by level: where target and source both have an inner node at an instance path, the merged
     tree has one too and its children are the target node's children with the source node's children merged in *)
  Lemma merge_level_fold : forall q p l a b nT nS,
    MFold (MStep sch o) l a b -> CanonAt sch p a -> UniqIds sch a ->
    Forall (CanonN sch p) l -> Forall (UniqN sch) l -> UniqL sch l ->
    lookup_path sch a q = Some nT -> lookup_path sch l q = Some nS -> is_term sch (d_sid nS) = false ->
    exists nR, lookup_path sch b q = Some nR /\
               MFold (MStep sch o) (nonkeys sch (d_ch nS)) (d_ch nT) (d_ch nR).
  Proof.
    induction q as [|j q' IHq]; intros p l; [intros a b nT nS _ _ _ _ _ _ H; discriminate|].
    induction l as [|x l IHl]; intros a b nT nS HF Ha HUa HC HN HUl Hqa Hql Hterm; [rewrite lookup_path_cons in Hql; discriminate|].
    cbn [MFold] in HF. destruct HF as [m [H1 H2]].
    inversion HC as [|? ? Cx HC']; subst. inversion HN as [|? ? Nx HN']; subst.
    assert (Cm : CanonAt sch p m) by (apply (MStep_canon sch o x p a m); assumption).
    assert (Um : UniqIds sch m) by (apply (MStep_uniq sch o x p a m); assumption).
    destruct (has_id sch j x) eqn:Ex.
    - apply has_id_inst in Ex.
      rewrite lookup_path_cons in Hql. unfold find_inst in Hql. cbn [find] in Hql. rewrite (has_id_self _ _ _ Ex) in Hql.
      rewrite lookup_path_cons in Hqa.
      destruct (find_inst sch a j) as [t0|] eqn:Et0; [|discriminate].
      destruct (find_inst_some _ _ _ _ Et0) as [Ht0in Ht0id].
      (* the rest of the source siblings does not touch the instance j *)
      assert (Hrest : find_inst sch b j = find_inst sch m j).
      { apply (MFold_find_other sch o p l m b j HC' H2). intros z Hz E.
        pose proof (UniqL_head_other sch x l j HUl (has_id_self _ _ _ Ex) z Hz) as Hf.
        rewrite (has_id_self _ _ _ E) in Hf. discriminate. }
      rewrite lookup_path_cons, Hrest.
      rewrite MStep_unfold in H1.
      destruct H1 as [[Hno ->]|[i [t [t2 [Hn [Hmt [-> [Hs [_ [Hv [_ HFold]]]]]]]]]]].
      + exfalso. destruct Hno as [Hno|Hd]; [|apply inst_id_none in Hd; congruence].
        specialize (Hno t0 Ht0in). rewrite (match_eq_has_id sch x j Ex) in Hno. congruence.
      + assert (Htj : has_id sch j t = true) by (rewrite <- (match_eq_has_id sch x j Ex); exact Hmt).
        pose proof (uniq_find sch a t j (proj1 HUa) (nth_error_In _ _ Hn) Htj) as Hf. rewrite Et0 in Hf. inversion Hf; subst t0.
        assert (Hp : parents_ok sch x) by (apply (CanonN_parents_ok sch p), Cx).
        assert (Hid : inst_id sch t2 = inst_id sch t) by (apply (upd_inst_id sch o x t t2 Hp Hmt Hs Hv HFold)).
        rewrite (find_replace_uniq sch a i t t2 j (proj1 HUa) Hn Htj Hid).
        apply MFoldK_MFold in HFold.
        destruct q' as [|j2 q''].
        * inversion Hqa; subst nT. inversion Hql; subst nS. exists t2. split; [reflexivity|exact HFold].
        * assert (Ct : CanonN sch p t) by (apply (CanonAt_In sch p a t Ha), Ht0in).
          assert (Hst : d_sid t = d_sid x) by (apply (match_eq_sid _ _ _ Hmt)).
          apply (IHq (Some (d_sid x)) (nonkeys sch (d_ch x)) (d_ch t) (d_ch t2) nT nS HFold).
          -- rewrite <- Hst. apply (CanonAt_children sch p t Ct).
          -- apply UniqN_unfold. destruct HUa as [_ HUa]. rewrite Forall_forall in HUa. apply HUa, Ht0in.
          -- apply Forall_nonkeys. destruct x as [s v d mt ch]. apply CanonN_unfold in Cx. apply Cx.
          -- apply Forall_nonkeys. apply UniqN_unfold in Nx. apply Nx.
          -- apply UniqL_nonkeys. apply UniqN_unfold in Nx. apply Nx.
          -- exact Hqa.
          -- apply (lookup_path_nonkeys_some p x (j2 :: q'') nS Cx Nx Hql Hterm).
          -- exact Hterm.
    - assert (Hne : inst_id sch x <> Some j) by (intro E; rewrite (has_id_self _ _ _ E) in Ex; discriminate).
      apply (IHl m b nT nS H2 Cm Um HC' HN' (UniqL_tail sch x l HUl)); [| |exact Hterm].
      + rewrite lookup_path_cons in *. rewrite (MStep_find_other sch o x p a m j Cx H1 Hne). exact Hqa.
      + rewrite lookup_path_cons in *. unfold find_inst in *. cbn [find] in Hql. rewrite Ex in Hql. exact Hql.
  Qed.

  Lemma lookup_path_canon : forall q p f n, CanonAt sch p f -> lookup_path sch f q = Some n -> exists pp, CanonN sch pp n.
  Proof.
    induction q as [|j q IH]; intros p f n HC H; [discriminate|].
    rewrite lookup_path_cons in H. destruct (find_inst sch f j) as [y|] eqn:Ey; [|discriminate].
    destruct (find_inst_some _ _ _ _ Ey) as [Hy _]. pose proof (CanonAt_In sch p f y HC Hy) as Cy.
    destruct q as [|j2 q']; [inversion H; subst; exists p; exact Cy|].
    apply (IH (Some (d_sid y)) (d_ch y) n (CanonAt_children sch p y Cy) H).
  Qed.

  Theorem merge_level T S path nT nS :
    Canon sch T -> Canon sch S -> UniqIds sch T -> UniqIds sch S ->
    lookup_path sch T path = Some nT -> lookup_path sch S path = Some nS -> is_term sch (d_sid nS) = false ->
    exists nR, lookup_path sch (merge sch o T S) path = Some nR /\
               MFold (MStep sch o) (nonkeys sch (d_ch nS)) (d_ch nT) (d_ch nR).
  Proof.
    intros HT HS HUT HUS H1 H2 H3.
    apply (merge_level_fold path None S T (merge sch o T S) nT nS (merge_sound sch o T S HS) HT HUT (proj2 HS) (proj2 HUS) (proj1 HUS) H1 H2 H3).
  Qed.

  (* instances of duplicate-instance lists below a node both trees have (they have no instance path of their own):
     a target instance that no source sibling equals is kept as it is; every source leaf-list instance has an instance
     with its value in the merged node *)
  Theorem merge_keeps_unmatched_child T S path nT nS t :
    Canon sch T -> Canon sch S -> UniqIds sch T -> UniqIds sch S ->
    lookup_path sch T path = Some nT -> lookup_path sch S path = Some nS -> is_term sch (d_sid nS) = false ->
    In t (d_ch nT) -> (forall z, In z (d_ch nS) -> match_eq sch z t = false) ->
    exists nR, lookup_path sch (merge sch o T S) path = Some nR /\ In t (d_ch nR).
  Proof.
    intros HT HS HUT HUS H1 H2 H3 Ht Hno.
    destruct (merge_level T S path nT nS HT HS HUT HUS H1 H2 H3) as [nR [HR HF]]. exists nR. split; [exact HR|].
    apply (MFold_unmatched_kept sch o _ _ _ t HF Ht). intros z Hz. apply filter_In in Hz. apply Hno, Hz.
  Qed.

  Theorem merge_contains_leaflist_child T S path nT nS x :
    Canon sch T -> Canon sch S -> UniqIds sch T -> UniqIds sch S ->
    lookup_path sch T path = Some nT -> lookup_path sch S path = Some nS -> is_term sch (d_sid nS) = false ->
    In x (d_ch nS) -> kind_of sch (d_sid x) = KLeafList ->
    exists nR x', lookup_path sch (merge sch o T S) path = Some nR /\ In x' (d_ch nR) /\
                  d_sid x' = d_sid x /\ d_val x' = d_val x.
  Proof.
    intros HT HS HUT HUS H1 H2 H3 Hx Hk.
    destruct (merge_level T S path nT nS HT HS HUT HUS H1 H2 H3) as [nR [HR HF]].
    assert (Hxn : In x (nonkeys sch (d_ch nS))).
    { apply filter_In. split; [exact Hx|]. apply negb_true_iff.
      destruct (is_key sch (d_sid x)) eqn:Ek; [|reflexivity]. exfalso.
      (* a key is a leaf *)
      destruct path as [|j q]; [discriminate|].
      destruct (lookup_path_canon (j :: q) None S nS HS H2) as [pp Cn].
      pose proof (key_child_leaf pp nS x Cn Hx Ek). congruence. }
    destruct (MFold_leaflist_contained sch o _ _ _ x HF Hxn Hk) as [x' [H4 [H5 H6]]].
    exists nR, x'. repeat split; assumption.
  Qed.

  (* the same at the top level *)
  Theorem merge_keeps_unmatched_top T S t :
    Canon sch S -> In t T -> (forall z, In z S -> match_eq sch z t = false) -> In t (merge sch o T S).
  Proof. intros HS Ht Hno. apply (MFold_unmatched_kept sch o S T _ t (merge_sound sch o T S HS) Ht Hno). Qed.

  Theorem merge_contains_leaflist_top T S x :
    Canon sch S -> In x S -> kind_of sch (d_sid x) = KLeafList ->
    exists x', In x' (merge sch o T S) /\ d_sid x' = d_sid x /\ d_val x' = d_val x.
  Proof. intros HS Hx Hk. apply (MFold_leaflist_contained sch o S T _ x (merge_sound sch o T S HS) Hx Hk). Qed.
End Level.

Section Copied.
  Variable sch : schema.
  Variable o : mopts.
  Hypothesis Hsch : schema_okb sch = true.

  (* a source inner node whose instance path the target does not have is in the merged tree as it is (copied with its
     whole subtree, or part of a copied subtree) *)
  Lemma copied_fold : forall q p l a b n,
    MFold (MStep sch o) l a b -> CanonAt sch p a -> UniqIds sch a ->
    Forall (CanonN sch p) l -> Forall (UniqN sch) l -> UniqL sch l ->
    lookup_path sch a q = None -> lookup_path sch l q = Some n -> is_term sch (d_sid n) = false ->
    lookup_path sch b q = Some n.
  Proof.
    induction q as [|j q' IHq]; intros p l; [intros a b n _ _ _ _ _ _ _ H; discriminate|].
    induction l as [|x l IHl]; intros a b n HF Ha HUa HC HN HUl Hqa Hql Hterm; [rewrite lookup_path_cons in Hql; discriminate|].
    cbn [MFold] in HF. destruct HF as [m [H1 H2]].
    inversion HC as [|? ? Cx HC']; subst. inversion HN as [|? ? Nx HN']; subst.
    assert (Cm : CanonAt sch p m) by (apply (MStep_canon sch o x p a m); assumption).
    assert (Um : UniqIds sch m) by (apply (MStep_uniq sch o x p a m); assumption).
    destruct (has_id sch j x) eqn:Ex.
    - apply has_id_inst in Ex.
      rewrite lookup_path_cons in Hql. unfold find_inst in Hql. cbn [find] in Hql. rewrite (has_id_self _ _ _ Ex) in Hql.
      assert (Hrest : find_inst sch b j = find_inst sch m j).
      { apply (MFold_find_other sch o p l m b j HC' H2). intros z Hz E.
        pose proof (UniqL_head_other sch x l j HUl (has_id_self _ _ _ Ex) z Hz) as Hf.
        rewrite (has_id_self _ _ _ E) in Hf. discriminate. }
      rewrite lookup_path_cons, Hrest.
      rewrite lookup_path_cons in Hqa.
      rewrite MStep_unfold in H1.
      destruct H1 as [[Hno ->]|[i [t [t2 [Hn [Hmt [-> [Hs [_ [Hv [_ HFold]]]]]]]]]]].
      + (* copied *)
        destruct Hno as [Hno|Hd]; [|apply inst_id_none in Hd; congruence].
        rewrite (find_inst_insert_new sch a x j); [exact Hql| |apply has_id_self, Ex].
        intros y Hy. rewrite <- (match_eq_has_id sch x j Ex). apply Hno, Hy.
      + assert (Htj : has_id sch j t = true) by (rewrite <- (match_eq_has_id sch x j Ex); exact Hmt).
        pose proof (uniq_find sch a t j (proj1 HUa) (nth_error_In _ _ Hn) Htj) as Hf. rewrite Hf in Hqa.
        assert (Hp : parents_ok sch x) by (apply (CanonN_parents_ok sch p), Cx).
        assert (Hid : inst_id sch t2 = inst_id sch t) by (apply (upd_inst_id sch o x t t2 Hp Hmt Hs Hv HFold)).
        rewrite (find_replace_uniq sch a i t t2 j (proj1 HUa) Hn Htj Hid).
        destruct q' as [|j2 q'']; [discriminate|].
        apply MFoldK_MFold in HFold.
        assert (Ct : CanonN sch p t) by (apply (CanonAt_In sch p a t Ha), (nth_error_In _ _ Hn)).
        assert (Hst : d_sid t = d_sid x) by (apply (match_eq_sid _ _ _ Hmt)).
        apply (IHq (Some (d_sid x)) (nonkeys sch (d_ch x)) (d_ch t) (d_ch t2) n HFold).
        * rewrite <- Hst. apply (CanonAt_children sch p t Ct).
        * apply UniqN_unfold. destruct HUa as [_ HUa]. rewrite Forall_forall in HUa. apply HUa, (nth_error_In _ _ Hn).
        * apply Forall_nonkeys. destruct x as [s v d mt ch]. apply CanonN_unfold in Cx. apply Cx.
        * apply Forall_nonkeys. apply UniqN_unfold in Nx. apply Nx.
        * apply UniqL_nonkeys. apply UniqN_unfold in Nx. apply Nx.
        * exact Hqa.
        * apply (lookup_path_nonkeys_some sch Hsch p x (j2 :: q'') n Cx Nx Hql Hterm).
        * exact Hterm.
    - assert (Hne : inst_id sch x <> Some j) by (intro E; rewrite (has_id_self _ _ _ E) in Ex; discriminate).
      apply (IHl m b n H2 Cm Um HC' HN' (UniqL_tail sch x l HUl)); [| |exact Hterm].
      + rewrite lookup_path_cons in *. rewrite (MStep_find_other sch o x p a m j Cx H1 Hne). exact Hqa.
      + rewrite lookup_path_cons in *. unfold find_inst in *. cbn [find] in Hql. rewrite Ex in Hql. exact Hql.
  Qed.

  Theorem merge_copies_new T S path n :
    Canon sch T -> Canon sch S -> UniqIds sch T -> UniqIds sch S ->
    lookup_path sch T path = None -> lookup_path sch S path = Some n -> is_term sch (d_sid n) = false ->
    lookup_path sch (merge sch o T S) path = Some n.
  Proof.
    intros HT HS HUT HUS H1 H2 H3.
    apply (copied_fold path None S T (merge sch o T S) n (merge_sound sch o T S HS) HT HUT (proj2 HS) (proj2 HUS) (proj1 HUS) H1 H2 H3).
  Qed.

  (* every leaf-list instance (config false leaf-lists included) below an inner source node that has an instance path has
     an instance with its value below the node at that path in the merged tree - whether or not the target has the node *)
  Theorem merge_contains_leaflist_below T S path nS x :
    Canon sch T -> Canon sch S -> UniqIds sch T -> UniqIds sch S ->
    lookup_path sch S path = Some nS -> is_term sch (d_sid nS) = false ->
    In x (d_ch nS) -> kind_of sch (d_sid x) = KLeafList ->
    exists nR x', lookup_path sch (merge sch o T S) path = Some nR /\ In x' (d_ch nR) /\
                  d_sid x' = d_sid x /\ d_val x' = d_val x.
  Proof.
    intros HT HS HUT HUS H2 H3 Hx Hk.
    destruct (lookup_path sch T path) as [nT|] eqn:E1.
    - apply (merge_contains_leaflist_child sch o Hsch T S path nT nS x); assumption.
    - exists nS, x. split; [apply merge_copies_new; assumption|]. repeat split. exact Hx.
  Qed.
End Copied.

(* ------------------------------------------------------------------------------------------- *)
(* K. idempotence with instances of config false leaf-lists (positional matching)                *)
(* ------------------------------------------------------------------------------------------- *)
Lemma match_eq_equiv sch a b : match_eq sch a b = true -> forall t, match_eq sch a t = match_eq sch b t.
Proof.
  intros H t. destruct (match_eq sch a t) eqn:E1, (match_eq sch b t) eqn:E2; try reflexivity.
  - rewrite (match_eq_trans sch b a t (match_eq_sym sch a b H) E1) in E2. discriminate.
  - rewrite (match_eq_trans sch a b t H E2) in E1. discriminate.
Qed.

Lemma match_eq_comm sch a b : match_eq sch a b = match_eq sch b a.
Proof.
  destruct (match_eq sch a b) eqn:E1, (match_eq sch b a) eqn:E2; try reflexivity.
  - rewrite (match_eq_sym sch a b E1) in E2. discriminate.
  - rewrite (match_eq_sym sch b a E2) in E1. discriminate.
Qed.

Lemma count_match_equiv sch a b f : match_eq sch a b = true -> count_match sch a f = count_match sch b f.
Proof. intro H. unfold count_match. f_equal. apply filter_ext. apply (match_eq_equiv sch a b H). Qed.

(* the k-th sibling that matches x *)
Definition kth (sch : schema) (x : dnode) (f : forest) (k : nat) : option dnode :=
  nth_error (filter (match_eq sch x) f) k.

Lemma match_idx_kth sch x f : forall k j i,
  match_idx sch x f k j = Some i -> (j <= i)%nat /\ nth_error f (i - j) = kth sch x f k /\ kth sch x f k <> None.
Proof.
  unfold kth. induction f as [|a r IH]; intros k j i H; cbn [match_idx] in H; [discriminate|]. cbn [filter].
  destruct (match_eq sch x a) eqn:E.
  - destruct k as [|k].
    + inversion H; subst i. rewrite Nat.sub_diag. cbn. repeat split; [lia|discriminate].
    + destruct (IH _ _ _ H) as [H1 [H2 H3]]. cbn [nth_error]. repeat split; [lia| |exact H3].
      replace (i - j)%nat with (S (i - S j)) by lia. exact H2.
  - destruct (IH _ _ _ H) as [H1 [H2 H3]]. repeat split; [lia| |exact H3].
    replace (i - j)%nat with (S (i - S j)) by lia. exact H2.
Qed.

Lemma kth_lt sch x f k t : kth sch x f k = Some t -> (k < count_match sch x f)%nat.
Proof. unfold kth, count_match. intro H. apply nth_error_Some. congruence. Qed.

Lemma kth_match sch x f k t : kth sch x f k = Some t -> In t f /\ match_eq sch x t = true.
Proof. unfold kth. intro H. apply nth_error_In in H. apply filter_In in H. exact H. Qed.

(* filter and the two ways a step changes the siblings *)
Lemma filter_insert_other sch (P : dnode -> bool) f n : P n = false -> filter P (insert_node sch f n) = filter P f.
Proof.
  intro Hn. induction f as [|b r IH]; cbn [insert_node filter]; [rewrite Hn; reflexivity|].
  destruct (goes_before sch n b); cbn [filter]; [rewrite Hn; reflexivity|]. rewrite IH. reflexivity.
Qed.

Lemma filter_replace_other {A} (P : A -> bool) i l t x :
  nth_error l i = Some t -> P t = false -> P x = false -> filter P (replace_nth i l x) = filter P l.
Proof.
  revert i; induction l as [|a l IH]; intros [|i] Hn Ht Hx; cbn in *; try discriminate.
  - inversion Hn; subst a. rewrite Ht, Hx. reflexivity.
  - rewrite (IH i Hn Ht Hx). reflexivity.
Qed.

Lemma filter_replace_hit {A} (P : A -> bool) i l t x :
  nth_error l i = Some t -> P t = true -> P x = true ->
  filter P (replace_nth i l x) = replace_nth (length (filter P (firstn i l))) (filter P l) x.
Proof.
  revert i; induction l as [|a l IH]; intros [|i] Hn Ht Hx; cbn [nth_error replace_nth firstn filter length] in *; try discriminate.
  - inversion Hn; subst a. rewrite Ht, Hx. reflexivity.
  - rewrite (IH i Hn Ht Hx). destruct (P a); cbn [length replace_nth]; reflexivity.
Qed.

Lemma nth_error_filter_firstn {A} (P : A -> bool) i l t :
  nth_error l i = Some t -> P t = true -> nth_error (filter P l) (length (filter P (firstn i l))) = Some t.
Proof.
  revert i; induction l as [|a l IH]; intros [|i] Hn Ht; cbn [nth_error firstn filter length] in *; try discriminate.
  - inversion Hn; subst a. rewrite Ht. reflexivity.
  - destruct (P a); cbn [length nth_error]; apply (IH i Hn Ht).
Qed.

(* a node inserted by lyd_insert_node lands behind every instance of its class *)
Lemma filter_insert_end sch p (P : dnode -> bool) f n :
  CanonAt sch p f -> P n = true -> (forall t, P t = true -> d_sid t = d_sid n) ->
  (sorted_sid sch (d_sid n) = false \/ filter P f = []) ->
  filter P (insert_node sch f n) = filter P f ++ [n].
Proof.
  intros HC Hn Hs Hor. pose proof (canon_strongly_sorted sch p f HC) as HS. clear HC.
  induction f as [|b r IH]; cbn [insert_node filter app]; [rewrite Hn; reflexivity|].
  destruct (goes_before sch n b) eqn:Eg.
  - cbn [filter]. rewrite Hn.
    assert (Hnil : filter P (b :: r) = []).
    { destruct Hor as [Hso|Hnil]; [|exact Hnil].
      unfold goes_before in Eg. rewrite Hso, andb_false_r, orb_false_r in Eg. apply N.ltb_lt in Eg.
      inversion HS as [|? ? HS' Hall]; subst.
      assert (Hge : forall c, In c (b :: r) -> d_sid n < d_sid c).
      { intros c [<-|Hc]; [exact Eg|]. rewrite Forall_forall in Hall. specialize (Hall c Hc).
        destruct Hall as [H|[H _]]; lia. }
      destruct (filter P (b :: r)) as [|c l] eqn:Ef; [reflexivity|].
      assert (Hc : In c (filter P (b :: r))) by (rewrite Ef; left; reflexivity).
      apply filter_In in Hc. destruct Hc as [Hc1 Hc2]. specialize (Hge c Hc1). rewrite (Hs c Hc2) in Hge. lia. }
    cbn [filter] in Hnil. rewrite Hnil. reflexivity.
  - cbn [filter]. inversion HS as [|? ? HS' Hall]; subst.
    rewrite IH; [destruct (P b); reflexivity| |exact HS'].
    destruct Hor as [H|H]; [left; exact H|right]. cbn [filter] in H. destruct (P b); [discriminate|exact H].
Qed.

(* t has absorbed the source subtree x, positionally: updating t with x changes nothing, and for every child y of x that
   is not a key, the k-th child of t matching y - k = number of earlier children of x matching y, which is the instance
   lyd_dup_inst_next hands out - has absorbed y *)
Fixpoint AbsN (sch : schema) (o : mopts) (x t : dnode) {struct x} : Prop :=
  match x with
  | DN s v d m ch =>
      merge_value sch o x t = (t, []) /\
      (fix go (pre suf : list dnode) {struct suf} : Prop :=
         match suf with
         | [] => True
         | y :: suf' =>
             (is_key sch (d_sid y) = true \/
              exists t', kth sch y (d_ch t) (count_match sch y pre) = Some t' /\ AbsN sch o y t') /\
             go (pre ++ [y]) suf'
         end) [] ch
  end.

Fixpoint AbsL (sch : schema) (o : mopts) (R : forest) (pre suf : list dnode) {struct suf} : Prop :=
  match suf with
  | [] => True
  | y :: suf' =>
      (is_key sch (d_sid y) = true \/
       exists t', kth sch y R (count_match sch y pre) = Some t' /\ AbsN sch o y t') /\
      AbsL sch o R (pre ++ [y]) suf'
  end.

Lemma AbsN_unfold sch o x t :
  AbsN sch o x t <-> merge_value sch o x t = (t, []) /\ AbsL sch o (d_ch t) [] (d_ch x).
Proof.
  destruct x as [s v d m ch]. cbn [AbsN d_ch].
  assert (HF : forall suf pre,
             (fix go (pre suf : list dnode) {struct suf} : Prop :=
                match suf with
                | [] => True
                | y :: suf' =>
                    (is_key sch (d_sid y) = true \/
                     exists t', kth sch y (d_ch t) (count_match sch y pre) = Some t' /\ AbsN sch o y t') /\
                    go (pre ++ [y]) suf'
                end) pre suf <-> AbsL sch o (d_ch t) pre suf).
  { induction suf as [|y suf IH]; intro pre; cbn [AbsL]; [reflexivity|]. rewrite IH. reflexivity. }
  rewrite HF. reflexivity.
Qed.

(* the cache while a source list is merged a second time into siblings R that do not change: an entry per class that
   has occurred, holding the number of matches in R and the number of occurrences so far *)
Definition CI2 (sch : schema) (R : forest) (c : cache) (pre : list dnode) : Prop :=
  forall z, is_key sch (d_sid z) = false ->
            cache_find sch c z =
            if Nat.eqb (count_match sch z pre) 0 then None else Some (count_match sch z R, count_match sch z pre).

Lemma cache_find_bump sch c y z :
  cache_find sch (cache_bump sch c y) z =
  if match_eq sch y z
  then match cache_find sch c z with Some (cnt, u) => Some (cnt, S u) | None => None end
  else cache_find sch c z.
Proof.
  induction c as [|[[r cnt] u] c IH]; cbn [cache_bump cache_find]; [destruct (match_eq sch y z); reflexivity|].
  destruct (match_eq sch r y) eqn:Ery.
  - cbn [cache_find]. destruct (match_eq sch y z) eqn:Eyz.
    + rewrite (match_eq_trans sch r y z Ery Eyz). reflexivity.
    + destruct (match_eq sch r z) eqn:Erz; [|reflexivity].
      rewrite (match_eq_trans sch y r z (match_eq_sym _ _ _ Ery) Erz) in Eyz. discriminate.
  - cbn [cache_find]. destruct (match_eq sch r z) eqn:Erz.
    + destruct (match_eq sch y z) eqn:Eyz; [|reflexivity].
      rewrite (match_eq_trans sch r z y Erz (match_eq_sym _ _ _ Eyz)) in Ery. discriminate.
    + exact IH.
Qed.

Lemma count_match_snoc sch z pre y :
  count_match sch z (pre ++ [y]) = (count_match sch z pre + if match_eq sch z y then 1 else 0)%nat.
Proof. rewrite count_match_app. unfold count_match at 2. cbn [filter]. destruct (match_eq sch z y); reflexivity. Qed.

Lemma is_key_match sch a b : match_eq sch a b = true -> is_key sch (d_sid b) = is_key sch (d_sid a).
Proof. intro H. rewrite (match_eq_sid _ _ _ H). reflexivity. Qed.

(* one step of the second merge *)
Lemma fix2_step sch o y R c pre t' :
  upd_node sch o y t' = (t', []) -> is_key sch (d_sid y) = false ->
  kth sch y R (count_match sch y pre) = Some t' -> CI2 sch R c pre ->
  exists c' oth, merge_sib sch o y R c = (R, c', [], oth) /\ CI2 sch R c' (pre ++ [y]).
Proof.
  intros Hupd Hky Hkth HCI. set (k := count_match sch y pre) in *.
  pose proof (kth_lt sch y R k t' Hkth) as Hlt.
  rewrite merge_sib_unfold. unfold choose.
  destruct (match_idx sch y R 0 0) as [i0|] eqn:E0; [|exfalso; apply (match_idx_lt sch y R O O); [lia|exact E0]].
  unfold dup_inst_next. rewrite (HCI y Hky). fold k.
  destruct (Nat.eqb k 0) eqn:Ek0.
  - apply Nat.eqb_eq in Ek0. rewrite Ek0 in Hkth.
    destruct (match_idx_kth _ _ _ _ _ _ E0) as [_ [Hn _]]. rewrite Nat.sub_0_r, Hkth in Hn.
    rewrite E0, (nth_nth_error i0 R y t' Hn), Hupd, (replace_nth_same i0 R t' Hn).
    eexists. eexists. split; [reflexivity|].
    intros z Hkz. cbn [cache_find]. rewrite count_match_snoc, (match_eq_comm sch z y).
    destruct (match_eq sch y z) eqn:Eyz.
    + rewrite <- (count_match_equiv sch y z pre Eyz), <- (count_match_equiv sch y z R Eyz). fold k. rewrite Ek0. reflexivity.
    + rewrite Nat.add_0_r. apply (HCI z Hkz).
  - apply Nat.eqb_neq in Ek0.
    assert (Hne : Nat.eqb k (count_match sch y R) = false) by (apply Nat.eqb_neq; lia).
    rewrite Hne.
    destruct (match_idx sch y R k 0) as [i|] eqn:Ei; [|exfalso; apply (match_idx_lt sch y R k O Hlt); exact Ei].
    destruct (match_idx_kth _ _ _ _ _ _ Ei) as [_ [Hn _]]. rewrite Nat.sub_0_r, Hkth in Hn.
    rewrite (nth_nth_error i R y t' Hn), Hupd, (replace_nth_same i R t' Hn).
    eexists. eexists. split; [reflexivity|].
    intros z Hkz. rewrite cache_find_bump, count_match_snoc, (match_eq_comm sch z y).
    destruct (match_eq sch y z) eqn:Eyz.
    + rewrite (HCI z Hkz).
      rewrite <- (count_match_equiv sch y z pre Eyz), <- (count_match_equiv sch y z R Eyz). fold k.
      destruct (Nat.eqb k 0) eqn:E; [apply Nat.eqb_eq in E; lia|].
      destruct (Nat.eqb (k + 1) 0) eqn:E'; [apply Nat.eqb_eq in E'; lia|]. f_equal. f_equal. lia.
    + rewrite Nat.add_0_r. apply (HCI z Hkz).
Qed.

Definition fix2_stmt sch o (x : dnode) : Prop := forall t, AbsN sch o x t -> upd_node sch o x t = (t, []).

Lemma CI2_key sch R c pre y : is_key sch (d_sid y) = true -> CI2 sch R c pre -> CI2 sch R c (pre ++ [y]).
Proof.
  intros Hk H z Hz. rewrite count_match_snoc.
  assert (E : match_eq sch z y = false).
  { destruct (match_eq sch z y) eqn:E; [|reflexivity]. rewrite (is_key_match sch z y E) in Hk. congruence. }
  rewrite E, Nat.add_0_r. apply (H z Hz).
Qed.

Lemma fix2_children sch o np R : forall suf pre c flag up,
  Forall (fix2_stmt sch o) suf -> AbsL sch o R pre suf -> CI2 sch R c pre ->
  merge_children sch (merge_sib sch o) np suf R c flag up = (R, flag, up).
Proof.
  induction suf as [|y suf IH]; intros pre c flag up HI HA HC; cbn [merge_children]; [reflexivity|].
  inversion HI as [|? ? Hy HI']; subst. cbn [AbsL] in HA. destruct HA as [Hy' HA].
  destruct (is_key sch (d_sid y)) eqn:Ek.
  - apply (IH (pre ++ [y])); [exact HI'|exact HA|apply CI2_key; assumption].
  - destruct Hy' as [Hy'|[t' [Hk Ha]]]; [discriminate|].
    destruct (fix2_step sch o y R c pre t' (Hy t' Ha) Ek Hk HC) as [c' [oth [E HC']]].
    rewrite E. cbn [apply_sigs]. rewrite app_nil_r. apply (IH (pre ++ [y])); assumption.
Qed.

Lemma CI2_nil sch R : CI2 sch R [] [].
Proof. intros z _. reflexivity. Qed.

Theorem fix2_node sch o x : fix2_stmt sch o x.
Proof.
  induction x as [s v d m ch IH] using dnode_ind'. intros t HA. apply AbsN_unfold in HA. destruct HA as [Hmv HL].
  unfold upd_node. rewrite Hmv. cbn [d_ch] in *.
  rewrite (fix2_children sch o _ (d_ch t) ch [] [] (d_dflt t) [] IH HL (CI2_nil sch (d_ch t))).
  rewrite set_same. reflexivity.
Qed.

Lemma fix2_list sch o R : forall suf pre c,
  Forall (fun y => is_key sch (d_sid y) = false) suf -> AbsL sch o R pre suf -> CI2 sch R c pre ->
  merge_list sch o suf R c = R.
Proof.
  induction suf as [|y suf IH]; intros pre c HK HA HC; cbn [merge_list]; [reflexivity|].
  inversion HK as [|? ? Ky HK']; subst. cbn [AbsL] in HA. destruct HA as [[Hy|[t' [Hk Ha]]] HA]; [congruence|].
  destruct (fix2_step sch o y R c pre t' (fix2_node sch o y t' Ha) Ky Hk HC) as [c' [oth [E HC']]].
  rewrite E. apply (IH (pre ++ [y])); assumption.
Qed.

(* --- the first merge leaves every source subtree absorbed, positionally --- *)
(* no instance of a key-less list in the subtree (instances of config false leaf-lists are allowed) *)
Definition nokl (sch : schema) (s : sid) : bool :=
  negb (dup_inst sch s) || match kind_of sch s with KLeafList => true | _ => false end.

Fixpoint NoKl (sch : schema) (n : dnode) {struct n} : Prop :=
  match n with
  | DN s _ _ _ ch =>
      nokl sch s = true /\
      (fix all (l : list dnode) : Prop := match l with [] => True | x :: l' => NoKl sch x /\ all l' end) ch
  end.

Lemma NoKl_unfold sch n : NoKl sch n <-> nokl sch (d_sid n) = true /\ Forall (NoKl sch) (d_ch n).
Proof.
  destruct n as [s v d m ch]. cbn [NoKl d_sid d_ch].
  assert (HF : forall l, (fix all (l : list dnode) : Prop :=
                            match l with [] => True | x :: l' => NoKl sch x /\ all l' end) l <-> Forall (NoKl sch) l).
  { induction l as [|x l IH]; [split; [constructor|trivial]|]. split.
    - intros [H1 H2]. constructor; [assumption|apply IH; assumption].
    - intro H. inversion H; subst. split; [assumption|apply IH; assumption]. }
  rewrite HF. reflexivity.
Qed.

Fixpoint no_klb (sch : schema) (n : dnode) {struct n} : bool :=
  match n with DN s _ _ _ ch => nokl sch s && forallb (no_klb sch) ch end.

Lemma no_klb_spec sch n : no_klb sch n = true -> NoKl sch n.
Proof.
  induction n as [s v d m ch IH] using dnode_ind'. cbn [no_klb]. intro H. apply andb_true_iff in H. destruct H as [H1 H2].
  apply NoKl_unfold. cbn [d_sid d_ch]. split; [exact H1|].
  rewrite forallb_forall in H2. rewrite Forall_forall in *. intros x Hx. apply (IH x Hx), H2, Hx.
Qed.

Lemma match_idx_rank sch x f : forall k j i,
  match_idx sch x f k j = Some i -> length (filter (match_eq sch x) (firstn (i - j) f)) = k.
Proof.
  induction f as [|a r IH]; intros k j i H; cbn [match_idx] in H; [discriminate|].
  destruct (match_eq sch x a) eqn:E.
  - destruct k as [|k].
    + inversion H; subst i. rewrite Nat.sub_diag. reflexivity.
    + destruct (match_idx_some _ _ _ _ _ _ H) as [_ [Hle _]].
      replace (i - j)%nat with (S (i - S j)) by lia. cbn [firstn filter]. rewrite E. cbn [length]. f_equal. apply (IH _ _ _ H).
  - destruct (match_idx_some _ _ _ _ _ _ H) as [_ [Hle _]].
    replace (i - j)%nat with (S (i - S j)) by lia. cbn [firstn filter]. rewrite E. apply (IH _ _ _ H).
Qed.

Lemma merge_children_fold sch o np p l : forall tch cc flag up,
  Forall (CanonN sch p) l -> cache_inv sch cc tch ->
  MFoldK sch (MStep sch o) l tch (fst (fst (merge_children sch (merge_sib sch o) np l tch cc flag up))).
Proof.
  intros tch cc flag up HC Hi. apply (merge_children_sound sch o np l) with (p := p); [|exact HC|exact Hi].
  apply Forall_forall. intros x _ p' trg c Hx Hc. apply (merge_sib_sound sch o x p' trg c Hx Hc).
Qed.

(* updating t with a source node that is not an instance of a key-less list keeps t in every class it was in *)
Lemma upd_class_stable sch o p x t :
  CanonN sch p x -> nokl sch (d_sid x) = true -> match_eq sch x t = true ->
  forall z, match_eq sch z (fst (upd_node sch o x t)) = match_eq sch z t.
Proof.
  intros HC Hk Hm z.
  pose proof (upd_node_facts sch o x t) as HF. cbn zeta in HF. destruct HF as [Hs [_ [Hv [_ Hc]]]].
  set (t2 := fst (upd_node sch o x t)) in *.
  assert (Hp : parents_ok sch x) by (apply (CanonN_parents_ok sch p), HC).
  assert (HFold : MFoldK sch (MStep sch o) (d_ch x) (d_ch t) (d_ch t2)).
  { rewrite Hc. apply (merge_children_fold sch o _ (Some (d_sid x))); [|apply cache_inv_nil].
    destruct x as [s v d m ch]. apply CanonN_unfold in HC. apply HC. }
  pose proof (match_eq_sid _ _ _ Hm) as Hst.
  destruct (dup_inst sch (d_sid z)) eqn:Edz.
  - rewrite !(match_eq_dup sch z _ Edz), Hs.
    destruct (d_sid t =? d_sid z) eqn:Es; [|reflexivity]. cbn [andb]. apply N.eqb_eq in Es.
    assert (Hkl : kind_of sch (d_sid x) = KLeafList).
    { unfold nokl in Hk. rewrite <- Hst, Es, Edz in Hk. cbn [negb orb] in Hk. rewrite <- Hst, Es.
      destruct (kind_of sch (d_sid z)); try discriminate. reflexivity. }
    assert (Hxn : d_ch x = []) by (apply (CanonN_term_nil sch p x HC); unfold is_term; rewrite Hkl; reflexivity).
    rewrite Hxn in HFold. apply MFoldK_nil_src in HFold.
    rewrite !deq_unfold, Hs, HFold, Hv. unfold new_val. rewrite merge_value_leaflist_val; [reflexivity|rewrite Hst; exact Hkl].
  - destruct (inst_id_some sch z Edz) as [j Hj]. rewrite !(match_eq_has_id sch z j Hj). unfold has_id.
    rewrite (upd_inst_id sch o x t t2 Hp Hm Hs Hv HFold). reflexivity.
Qed.

Definition E1 sch o (trg : forest) (pre : list dnode) : Prop :=
  forall pre1 y pre2, pre = pre1 ++ y :: pre2 -> is_key sch (d_sid y) = false ->
                      exists t', kth sch y trg (count_match sch y pre1) = Some t' /\ AbsN sch o y t'.

Definition E2 sch (trg : forest) (c : cache) (pre : list dnode) : Prop :=
  forall z, is_key sch (d_sid z) = false ->
            match cache_find sch c z with
            | None => count_match sch z pre = O
            | Some (cnt, used) =>
                count_match sch z pre <> O /\
                ((used = count_match sch z pre /\ (used < cnt)%nat /\ cnt = count_match sch z trg) \/
                 (used = cnt /\ count_match sch z trg = count_match sch z pre))
            end.

Lemma E1_AbsL sch o R : forall suf pre,
  (forall pre1 y pre2, pre ++ suf = pre1 ++ y :: pre2 -> (length pre <= length pre1)%nat -> is_key sch (d_sid y) = false ->
                       exists t', kth sch y R (count_match sch y pre1) = Some t' /\ AbsN sch o y t') ->
  AbsL sch o R pre suf.
Proof.
  induction suf as [|y suf IH]; intros pre H; cbn [AbsL]; [exact I|]. split.
  - destruct (is_key sch (d_sid y)) eqn:Ek; [left; reflexivity|right].
    apply (H pre y suf eq_refl); [lia|exact Ek].
  - apply IH. intros pre1 y' pre2 E Hl Hk. apply (H pre1 y' pre2); [rewrite <- app_assoc in E; exact E| |exact Hk].
    rewrite app_length in Hl. cbn in Hl. lia.
Qed.

Lemma snoc_decomp {A} (pre : list A) x pre1 y pre2 :
  pre ++ [x] = pre1 ++ y :: pre2 ->
  (pre1 = pre /\ y = x /\ pre2 = []) \/ (exists q, pre2 = q ++ [x] /\ pre = pre1 ++ y :: q).
Proof.
  revert pre1. induction pre as [|a pre IH]; intros [|b pre1] E; cbn [app] in E.
  - inversion E; subst. left. repeat split.
  - inversion E as [[E1' E2']]. destruct pre1; discriminate.
  - inversion E; subst. right. exists pre. split; reflexivity.
  - inversion E as [[Ea Eb]]. subst b. destruct (IH pre1 Eb) as [[-> [-> ->]]|[q [-> ->]]].
    + left. repeat split.
    + right. exists q. split; reflexivity.
Qed.

Lemma E_key sch o trg c pre y :
  is_key sch (d_sid y) = true -> E1 sch o trg pre -> E2 sch trg c pre -> E1 sch o trg (pre ++ [y]) /\ E2 sch trg c (pre ++ [y]).
Proof.
  intros Hk H1 H2. split.
  - intros pre1 y' pre2 E Hy'. destruct (snoc_decomp pre y pre1 y' pre2 E) as [[-> [-> ->]]|[q [-> ->]]]; [congruence|].
    apply (H1 pre1 y' q eq_refl Hy').
  - intros z Hz. specialize (H2 z Hz). rewrite count_match_snoc.
    assert (E : match_eq sch z y = false).
    { destruct (match_eq sch z y) eqn:E; [|reflexivity]. rewrite (is_key_match sch z y E) in Hk. congruence. }
    rewrite E, Nat.add_0_r. exact H2.
Qed.

Lemma count_match_insert_eq sch z f x :
  count_match sch z (insert_node sch f x) = (count_match sch z f + if match_eq sch z x then 1 else 0)%nat.
Proof. unfold count_match. rewrite filter_insert_node_len. cbn [filter]. destruct (match_eq sch z x); cbn [length]; lia. Qed.

Lemma count_match_replace_eq sch z i f t t2 :
  nth_error f i = Some t -> match_eq sch z t2 = match_eq sch z t ->
  count_match sch z (replace_nth i f t2) = count_match sch z f.
Proof. intros Hn H. unfold count_match. apply (filter_replace_nth_len _ i f t t2 Hn H). Qed.

Lemma kth_self_in sch y pre1 pre2 : kth sch y (pre1 ++ y :: pre2) (count_match sch y pre1) = Some y.
Proof.
  unfold kth, count_match. rewrite filter_app. cbn [filter]. rewrite match_eq_refl.
  rewrite nth_error_app2; [|lia]. rewrite Nat.sub_diag. reflexivity.
Qed.

Lemma rank_lt sch y pre1 pre2 : (count_match sch y pre1 < count_match sch y (pre1 ++ y :: pre2))%nat.
Proof. apply (kth_lt sch y _ _ y). apply kth_self_in. Qed.

Lemma E1_ins sch o p trg pre x :
  CanonAt sch p trg -> E1 sch o trg pre -> AbsN sch o x x ->
  (sorted_sid sch (d_sid x) = false \/ filter (match_eq sch x) trg = []) ->
  count_match sch x pre = count_match sch x trg ->
  E1 sch o (insert_node sch trg x) (pre ++ [x]).
Proof.
  intros HC H1 Hxx Hor Hcnt pre1 y pre2 E Hy.
  destruct (snoc_decomp pre x pre1 y pre2 E) as [[-> [-> ->]]|[q [-> ->]]].
  - exists x. split; [|exact Hxx]. unfold kth.
    rewrite (filter_insert_end sch p (match_eq sch x) trg x HC (match_eq_refl sch x)); [| |exact Hor].
    + rewrite Hcnt. unfold count_match. rewrite nth_error_app2; [|lia]. rewrite Nat.sub_diag. reflexivity.
    + intros t Ht. apply (match_eq_sid _ _ _ Ht).
  - destruct (H1 pre1 y q eq_refl Hy) as [t' [Hk Ha]]. exists t'. split; [|exact Ha].
    unfold kth in *. destruct (match_eq sch y x) eqn:Eyx.
    + rewrite (filter_insert_end sch p (match_eq sch y) trg x HC Eyx).
      * rewrite nth_error_app1; [exact Hk|]. apply nth_error_Some. congruence.
      * intros t Ht. rewrite (match_eq_sid _ _ _ Ht), (match_eq_sid _ _ _ Eyx). reflexivity.
      * destruct Hor as [Hs|Hn]; [left; exact Hs|right].
        rewrite (filter_ext _ _ (match_eq_equiv sch y x Eyx)). exact Hn.
    + rewrite (filter_insert_other sch _ trg x Eyx). exact Hk.
Qed.

Lemma E1_upd sch o trg pre x i t t2 :
  E1 sch o trg pre -> nth_error trg i = Some t -> match_eq sch x t = true ->
  length (filter (match_eq sch x) (firstn i trg)) = count_match sch x pre ->
  (forall z, match_eq sch z t2 = match_eq sch z t) -> AbsN sch o x t2 ->
  E1 sch o (replace_nth i trg t2) (pre ++ [x]).
Proof.
  intros H1 Hn Hm Hrank Hst Hax pre1 y pre2 E Hy.
  assert (Hself : nth_error (filter (match_eq sch x) trg) (count_match sch x pre) = Some t).
  { rewrite <- Hrank. apply (nth_error_filter_firstn _ i trg t Hn Hm). }
  destruct (snoc_decomp pre x pre1 y pre2 E) as [[-> [-> ->]]|[q [-> ->]]].
  - exists t2. split; [|exact Hax]. unfold kth.
    rewrite (filter_replace_hit _ i trg t t2 Hn Hm); [|rewrite Hst; exact Hm].
    rewrite Hrank, (nth_error_replace _ _ _ t2 t Hself), Nat.eqb_refl. reflexivity.
  - destruct (H1 pre1 y q eq_refl Hy) as [t' [Hk Ha]]. exists t'. split; [|exact Ha].
    unfold kth in *. destruct (match_eq sch y t) eqn:Eyt.
    + assert (Eyx : match_eq sch y x = true) by (apply (match_eq_trans sch y t x Eyt), match_eq_sym, Hm).
      rewrite (filter_replace_hit _ i trg t t2 Hn Eyt); [|rewrite Hst; exact Eyt].
      rewrite (filter_ext _ _ (match_eq_equiv sch y x Eyx) trg) in Hk.
      rewrite (filter_ext _ _ (match_eq_equiv sch y x Eyx) trg), (filter_ext _ _ (match_eq_equiv sch y x Eyx) (firstn i trg)), Hrank.
      rewrite (nth_error_replace _ _ _ t2 t Hself).
      pose proof (rank_lt sch y pre1 q) as Hlt. rewrite (count_match_equiv sch y x (pre1 ++ y :: q) Eyx) in Hlt.
      destruct (Nat.eqb (count_match sch x (pre1 ++ y :: q)) (count_match sch y pre1)) eqn:En; [apply Nat.eqb_eq in En; lia|].
      exact Hk.
    + rewrite (filter_replace_other _ i trg t t2 Hn Eyt); [exact Hk|rewrite Hst; exact Eyt].
Qed.

Lemma cache_find_equiv sch c x z : match_eq sch x z = true -> cache_find sch c z = cache_find sch c x.
Proof.
  intro H. induction c as [|[[r cnt] u] c IH]; cbn [cache_find]; [reflexivity|].
  rewrite (match_eq_comm sch r z), (match_eq_comm sch r x), <- (match_eq_equiv sch x z H r), IH. reflexivity.
Qed.

Lemma dup_not_sorted sch s : dup_inst sch s = true -> sorted_sid sch s = false.
Proof.
  unfold sorted_sid, userordered, dup_inst, multi, kind_of. destruct (si_kind (sget sch s)); try discriminate.
  - intro H. rewrite H, orb_true_r. reflexivity.
  - destruct (si_keys (sget sch s)); [|discriminate]. intros _. rewrite orb_true_r. reflexivity.
Qed.

Lemma count_pos_split sch x pre : count_match sch x pre <> O -> exists pre1 y pre2, pre = pre1 ++ y :: pre2 /\ match_eq sch x y = true.
Proof.
  unfold count_match. intro H. destruct (filter (match_eq sch x) pre) as [|y l] eqn:E; [contradiction|].
  assert (Hy : In y (filter (match_eq sch x) pre)) by (rewrite E; left; reflexivity).
  apply filter_In in Hy. destruct Hy as [Hy1 Hy2]. destruct (in_split y pre Hy1) as [pre1 [pre2 ->]].
  exists pre1, y, pre2. split; [reflexivity|exact Hy2].
Qed.

Lemma filter_none {A} (P : A -> bool) l : (forall x, In x l -> P x = false) -> filter P l = [].
Proof.
  induction l as [|a l IH]; intro H; cbn [filter]; [reflexivity|]. rewrite (H a (or_introl eq_refl)).
  apply IH. intros x Hx. apply H. right. exact Hx.
Qed.

Lemma AbsN_self sch o x : AbsN sch o x x.
Proof.
  induction x as [s v d m ch IH] using dnode_ind'. apply AbsN_unfold. split; [apply merge_value_self|]. cbn [d_ch].
  apply E1_AbsL. cbn [app]. intros pre1 y pre2 E _ Hy. exists y. subst ch. split; [apply kth_self_in|].
  rewrite Forall_forall in IH. apply IH. apply in_or_app. right. left. reflexivity.
Qed.

Definition est_stmt sch o (x : dnode) : Prop :=
  forall p t, CanonN sch p x -> UniqN sch x -> NoKl sch x -> CanonN sch p t -> match_eq sch x t = true ->
              AbsN sch o x (fst (upd_node sch o x t)).

Lemma est_step sch o p x trg c pre :
  est_stmt sch o x -> CanonAt sch p trg -> CanonN sch p x -> UniqN sch x -> NoKl sch x -> is_key sch (d_sid x) = false ->
  (dup_inst sch (d_sid x) = false -> count_match sch x pre = O) ->
  E1 sch o trg pre -> E2 sch trg c pre ->
  E1 sch o (r_trg (merge_sib sch o x trg c)) (pre ++ [x]) /\
  E2 sch (r_trg (merge_sib sch o x trg c)) (r_cache (merge_sib sch o x trg c)) (pre ++ [x]).
Proof.
  intros Hest HC Cx Nx Kx Hkx Hnd H1 H2.
  assert (Hnk : nokl sch (d_sid x) = true) by (apply NoKl_unfold in Kx; apply Kx).
  pose proof (H2 x Hkx) as H2x.
  (* what an update of the i-th sibling gives *)
  assert (Hupd : forall i t c', nth_error trg i = Some t -> match_eq sch x t = true ->
                   length (filter (match_eq sch x) (firstn i trg)) = count_match sch x pre ->
                   (forall z, is_key sch (d_sid z) = false ->
                      match cache_find sch c' z with
                      | None => count_match sch z (pre ++ [x]) = O
                      | Some (cnt, used) =>
                          count_match sch z (pre ++ [x]) <> O /\
                          ((used = count_match sch z (pre ++ [x]) /\ (used < cnt)%nat /\ cnt = count_match sch z trg) \/
                           (used = cnt /\ count_match sch z trg = count_match sch z (pre ++ [x])))
                      end) ->
                   let '(t2, sg) := upd_node sch o x t in
                   E1 sch o (replace_nth i trg t2) (pre ++ [x]) /\ E2 sch (replace_nth i trg t2) c' (pre ++ [x])).
  { intros i t c' Hn Hm Hrank HE2.
    assert (Ct : CanonN sch p t) by (apply (CanonAt_In sch p trg t HC), (nth_error_In _ _ Hn)).
    pose proof (upd_class_stable sch o p x t Cx Hnk Hm) as Hst.
    pose proof (Hest p t Cx Nx Kx Ct Hm) as Hax.
    destruct (upd_node sch o x t) as [t2 sg]. cbn [fst] in *. split.
    - apply (E1_upd sch o trg pre x i t t2 H1 Hn Hm Hrank Hst Hax).
    - intros z Hz. specialize (HE2 z Hz). rewrite (count_match_replace_eq sch z i trg t t2 Hn (Hst z)). exact HE2. }
  rewrite merge_sib_unfold. unfold choose.
  destruct (match_idx sch x trg 0 0) as [i0|] eqn:E0.
  - unfold dup_inst_next.
    destruct (cache_find sch c x) as [[cnt used]|] eqn:Ec.
    + destruct H2x as [Hne [[Hu [Hlt Hcnt]]|[Hu Hcnt]]].
      * (* the next unused equal instance is updated *)
        assert (Hneq : Nat.eqb used cnt = false) by (apply Nat.eqb_neq; lia). rewrite Hneq.
        destruct (match_idx sch x trg used 0) as [i|] eqn:Ei;
          [|exfalso; apply (match_idx_lt sch x trg used O); [lia|exact Ei]].
        destruct (match_idx_some _ _ _ _ _ _ Ei) as [t [_ [Hn Hm]]]. rewrite Nat.sub_0_r in Hn.
        pose proof (match_idx_rank _ _ _ _ _ _ Ei) as Hrank. rewrite Nat.sub_0_r in Hrank.
        rewrite (nth_nth_error i trg x t Hn).
        specialize (Hupd i t (cache_bump sch c x) Hn Hm ltac:(lia)).
        destruct (upd_node sch o x t) as [t2 sg]. cbn [r_trg r_cache fst snd]. apply Hupd.
        intros z Hz. rewrite cache_find_bump, count_match_snoc, (match_eq_comm sch z x).
        destruct (match_eq sch x z) eqn:Exz.
        -- rewrite (cache_find_equiv sch c x z Exz), Ec.
           rewrite <- (count_match_equiv sch x z pre Exz), <- (count_match_equiv sch x z trg Exz).
           split; [lia|]. destruct (Nat.eq_dec (S used) cnt) as [En|En]; [right; lia|left; lia].
        -- rewrite Nat.add_0_r. apply (H2 z Hz).
      * (* all equal instances are used up *)
        subst used. rewrite Nat.eqb_refl.
        destruct (dup_inst sch (d_sid x)) eqn:Ed; [|exfalso; apply Hne, Hnd; reflexivity].
        cbn [r_trg r_cache fst snd]. split.
        -- apply (E1_ins sch o p trg pre x HC H1 (AbsN_self sch o x)); [left; apply dup_not_sorted, Ed|lia].
        -- intros z Hz. rewrite count_match_snoc, count_match_insert_eq, (match_eq_comm sch z x).
           destruct (match_eq sch x z) eqn:Exz.
           ++ rewrite (cache_find_equiv sch c x z Exz), Ec.
              rewrite <- (count_match_equiv sch x z pre Exz), <- (count_match_equiv sch x z trg Exz).
              split; [lia|right; lia].
           ++ rewrite !Nat.add_0_r. apply (H2 z Hz).
    + (* first instance of its class, a match exists: the first one is updated *)
      rewrite E0.
      destruct (match_idx_some _ _ _ _ _ _ E0) as [t [_ [Hn Hm]]]. rewrite Nat.sub_0_r in Hn.
      pose proof (match_idx_rank _ _ _ _ _ _ E0) as Hrank. rewrite Nat.sub_0_r in Hrank.
      rewrite (nth_nth_error i0 trg x t Hn).
      specialize (Hupd i0 t ((x, count_match sch x trg, 1%nat) :: c) Hn Hm ltac:(lia)).
      destruct (upd_node sch o x t) as [t2 sg]. cbn [r_trg r_cache fst snd]. apply Hupd.
      pose proof (count_match_pos sch x trg t (nth_error_In _ _ Hn) Hm) as Hpos.
      intros z Hz. cbn [cache_find]. rewrite count_match_snoc, (match_eq_comm sch z x).
      destruct (match_eq sch x z) eqn:Exz.
      * rewrite <- (count_match_equiv sch x z pre Exz), <- (count_match_equiv sch x z trg Exz), H2x.
        split; [lia|]. destruct (Nat.eq_dec (count_match sch x trg) 1) as [En|En]; [right; lia|left; lia].
      * rewrite Nat.add_0_r. apply (H2 z Hz).
  - (* no match: the subtree is copied *)
    pose proof (match_idx_none0 _ _ _ _ E0) as Hno.
    assert (Hpre0 : count_match sch x pre = O).
    { destruct (Nat.eq_dec (count_match sch x pre) 0) as [E|E]; [exact E|exfalso].
      destruct (count_pos_split sch x pre E) as [pre1 [y [pre2 [-> Hxy]]]].
      destruct (H1 pre1 y pre2 eq_refl) as [t' [Hk _]]; [rewrite (is_key_match sch x y Hxy); exact Hkx|].
      destruct (kth_match sch y trg _ t' Hk) as [Hin Hyt].
      pose proof (Hno t' Hin) as Hf. rewrite (match_eq_trans sch x y t' Hxy Hyt) in Hf. discriminate. }
    assert (Hc0 : cache_find sch c x = None).
    { destruct (cache_find sch c x) as [[cnt used]|]; [destruct H2x as [Hne _]; contradiction|reflexivity]. }
    assert (Ht0 : count_match sch x trg = O) by (apply count_match_zero, Hno).
    cbn [r_trg r_cache fst snd]. unfold dup_inst_next. rewrite Hc0. cbn [snd]. split.
    + apply (E1_ins sch o p trg pre x HC H1 (AbsN_self sch o x)); [right; apply filter_none, Hno|lia].
    + intros z Hz. cbn [cache_find]. rewrite count_match_snoc, !count_match_insert_eq, match_eq_refl, (match_eq_comm sch z x).
      destruct (match_eq sch x z) eqn:Exz.
      * rewrite <- (count_match_equiv sch x z pre Exz), <- (count_match_equiv sch x z trg Exz).
        split; [lia|right; lia].
      * rewrite !Nat.add_0_r. apply (H2 z Hz).
Qed.

Lemma uniq_first_count sch pre x suf :
  UniqL sch (pre ++ x :: suf) -> dup_inst sch (d_sid x) = false -> count_match sch x pre = O.
Proof.
  intros HU Hd. destruct (inst_id_some sch x Hd) as [j Hj]. specialize (HU j).
  rewrite filter_app, app_length in HU. cbn [filter] in HU. rewrite (has_id_self _ _ _ Hj) in HU. cbn [length] in HU.
  unfold count_match. rewrite (filter_ext _ _ (match_eq_has_id sch x j Hj)). lia.
Qed.

Lemma E_nil sch o trg : E1 sch o trg [] /\ E2 sch trg [] [].
Proof.
  split.
  - intros pre1 y pre2 E. destruct pre1; discriminate.
  - intros z _. reflexivity.
Qed.

Lemma est_children sch o np p : forall suf pre trg c flag up,
  Forall (est_stmt sch o) suf -> CanonAt sch p trg -> cache_inv sch c trg ->
  Forall (CanonN sch p) suf -> Forall (UniqN sch) suf -> Forall (NoKl sch) suf -> UniqL sch (pre ++ suf) ->
  E1 sch o trg pre -> E2 sch trg c pre ->
  E1 sch o (fst (fst (merge_children sch (merge_sib sch o) np suf trg c flag up))) (pre ++ suf).
Proof.
  induction suf as [|y suf IH]; intros pre trg c flag up HI HC Hc HCs HNs HKs HU H1 H2; cbn [merge_children].
  - rewrite app_nil_r. exact H1.
  - inversion HI as [|? ? Iy HI']; subst. inversion HCs as [|? ? Cy HCs']; subst.
    inversion HNs as [|? ? Ny HNs']; subst. inversion HKs as [|? ? Ky HKs']; subst.
    replace (pre ++ y :: suf) with ((pre ++ [y]) ++ suf) in * by (rewrite <- app_assoc; reflexivity).
    destruct (is_key sch (d_sid y)) eqn:Ek.
    + destruct (E_key sch o trg c pre y Ek H1 H2) as [H1' H2']. apply IH; assumption.
    + assert (Hnd : dup_inst sch (d_sid y) = false -> count_match sch y pre = O).
      { apply (uniq_first_count sch pre y suf). rewrite <- app_assoc in HU. exact HU. }
      destruct (est_step sch o p y trg c pre Iy HC Cy Ny Ky Ek Hnd H1 H2) as [H1' H2'].
      destruct (merge_sib_sound sch o y p trg c Cy Hc) as [HS Hc'].
      pose proof (MStep_canon sch o y p trg _ HC Cy HS) as HC'.
      destruct (merge_sib sch o y trg c) as [[[trg' c'] sg] oth]. cbn [r_trg r_cache fst snd] in *.
      destruct (apply_sigs np oth flag sg) as [flag' up']. apply IH; assumption.
Qed.

Lemma est_list sch o p : forall suf pre trg c,
  Forall (est_stmt sch o) suf -> CanonAt sch p trg -> cache_inv sch c trg ->
  Forall (CanonN sch p) suf -> Forall (UniqN sch) suf -> Forall (NoKl sch) suf -> UniqL sch (pre ++ suf) ->
  Forall (fun y => is_key sch (d_sid y) = false) suf ->
  E1 sch o trg pre -> E2 sch trg c pre ->
  E1 sch o (merge_list sch o suf trg c) (pre ++ suf).
Proof.
  induction suf as [|y suf IH]; intros pre trg c HI HC Hc HCs HNs HKs HU Hkeys H1 H2; cbn [merge_list].
  - rewrite app_nil_r. exact H1.
  - inversion HI as [|? ? Iy HI']; subst. inversion HCs as [|? ? Cy HCs']; subst.
    inversion HNs as [|? ? Ny HNs']; subst. inversion HKs as [|? ? Ky HKs']; subst. inversion Hkeys as [|? ? Ek Hkeys']; subst.
    replace (pre ++ y :: suf) with ((pre ++ [y]) ++ suf) in * by (rewrite <- app_assoc; reflexivity).
    assert (Hnd : dup_inst sch (d_sid y) = false -> count_match sch y pre = O).
    { apply (uniq_first_count sch pre y suf). rewrite <- app_assoc in HU. exact HU. }
    destruct (est_step sch o p y trg c pre Iy HC Cy Ny Ky Ek Hnd H1 H2) as [H1' H2'].
    destruct (merge_sib_sound sch o y p trg c Cy Hc) as [HS Hc'].
    pose proof (MStep_canon sch o y p trg _ HC Cy HS) as HC'.
    destruct (merge_sib sch o y trg c) as [[[trg' c'] sg] oth]. cbn [r_trg r_cache fst snd] in *.
    apply IH; assumption.
Qed.

Theorem est_all sch o x : est_stmt sch o x.
Proof.
  induction x as [s v d m ch IH] using dnode_ind'. intros p t Cx Nx Kx Ct Hm.
  set (x := DN s v d m ch) in *.
  pose proof (upd_node_facts sch o x t) as HF. cbn zeta in HF. destruct HF as [Hs [Hme [Hv [Hd Hc]]]].
  set (t2 := fst (upd_node sch o x t)) in *.
  pose proof (match_eq_sid _ _ _ Hm) as Hst.
  apply AbsN_unfold. split.
  - destruct (is_term sch s) eqn:Et.
    + assert (Hch : ch = []) by (apply (CanonN_term_nil sch p x Cx); exact Et).
      assert (Ht2 : t2 = fst (merge_value sch o x t)).
      { pose proof (merge_value_shape sch o x t) as Hsh. cbn zeta in Hsh. destruct Hsh as [S1 [S2 S3]].
        assert (Hxn : d_ch x = []) by (unfold x; cbn [d_ch]; exact Hch).
        rewrite Hxn in Hc. cbn [merge_children fst] in Hc. specialize (Hd Hxn).
        unfold new_val, new_dflt in *.
        destruct t2 as [a1 a2 a3 a4 a5]. destruct (fst (merge_value sch o x t)) as [b1 b2 b3 b4 b5].
        cbn [d_sid d_val d_dflt d_meta d_ch] in *. congruence. }
      rewrite Ht2. apply merge_value_idem.
    + apply merge_value_inner. rewrite Hs, Hst. exact Et.
  - rewrite Hc. unfold x. cbn [d_ch].
    assert (HCc : Forall (CanonN sch (Some s)) ch) by (unfold x in Cx; apply CanonN_unfold in Cx; apply Cx).
    assert (HNc : UniqIds sch ch) by (unfold x in Nx; apply UniqN_unfold in Nx; exact Nx).
    assert (HKc : Forall (NoKl sch) ch) by (unfold x in Kx; apply NoKl_unfold in Kx; apply Kx).
    assert (Cat : CanonAt sch (Some s) (d_ch t)) by (unfold x in Hst; cbn [d_sid] in Hst; rewrite <- Hst; apply (CanonAt_children sch p t Ct)).
    destruct (E_nil sch o (d_ch t)) as [H1 H2].
    pose proof (est_children sch o (is_np_cont sch (d_sid t)) (Some s) ch [] (d_ch t) [] (new_dflt sch o x t) []
                  IH Cat (cache_inv_nil sch (d_ch t)) HCc (proj2 HNc) HKc (proj1 HNc) H1 H2) as HE.
    cbn [app] in HE. apply E1_AbsL. cbn [app]. intros pre1 y pre2 E _ Hy. apply (HE pre1 y pre2 E Hy).
Qed.

Lemma top_not_key sch y : CanonN sch None y -> is_key sch (d_sid y) = false.
Proof.
  destruct y as [s v d m ch]. rewrite CanonN_unfold. intros [[i [Hl [Hp _]]] _]. unfold is_key, sget. cbn [d_sid].
  rewrite Hl, Hp. reflexivity.
Qed.

(* merging the same source again changes nothing - also with instances of config false leaf-lists (duplicates allowed)
   in the source; only instances of key-less lists are excluded *)
Theorem merge_idempotent_nokl sch o T S :
  Canon sch T -> Canon sch S -> UniqIds sch S -> Forall (NoKl sch) S ->
  merge sch o (merge sch o T S) S = merge sch o T S.
Proof.
  intros HT HS HUS HK. unfold merge at 1.
  assert (Hkeys : Forall (fun y => is_key sch (d_sid y) = false) S).
  { destruct HS as [_ HS]. apply Forall_forall. intros y Hy. rewrite Forall_forall in HS. apply top_not_key, HS, Hy. }
  apply (fix2_list sch o (merge sch o T S) S [] []); [exact Hkeys| |apply CI2_nil].
  assert (IHs : Forall (est_stmt sch o) S) by (apply Forall_forall; intros z _; apply est_all).
  destruct (E_nil sch o T) as [H1 H2].
  pose proof (est_list sch o None S [] T [] IHs HT (cache_inv_nil sch T) (proj2 HS) (proj2 HUS) HK (proj1 HUS) Hkeys H1 H2) as HE.
  cbn [app] in HE. apply E1_AbsL. cbn [app]. intros pre1 y pre2 E _ Hy. apply (HE pre1 y pre2 E Hy).
Qed.

(* ------------------------------------------------------------------------------------------- *)
(* L. idempotence at full strength: instances of key-less lists                                  *)
(* ------------------------------------------------------------------------------------------- *)
(* est_step again, with the two facts about an update as hypotheses and with the outcome of the step *)
Definition outcome sch o (x : dnode) (trg : forest) (pre : list dnode) (trg' : forest) : Prop :=
  (trg' = insert_node sch trg x /\ count_match sch x trg = count_match sch x pre) \/
  (exists i t, nth_error trg i = Some t /\ match_eq sch x t = true /\
               length (filter (match_eq sch x) (firstn i trg)) = count_match sch x pre /\
               trg' = replace_nth i trg (fst (upd_node sch o x t))).

Lemma est_step_gen sch o p x trg c pre :
  (forall t, In t trg -> match_eq sch x t = true -> AbsN sch o x (fst (upd_node sch o x t))) ->
  (forall t, In t trg -> match_eq sch x t = true -> forall z, match_eq sch z (fst (upd_node sch o x t)) = match_eq sch z t) ->
  CanonAt sch p trg -> is_key sch (d_sid x) = false ->
  (dup_inst sch (d_sid x) = false -> count_match sch x pre = O) ->
  E1 sch o trg pre -> E2 sch trg c pre ->
  E1 sch o (r_trg (merge_sib sch o x trg c)) (pre ++ [x]) /\
  E2 sch (r_trg (merge_sib sch o x trg c)) (r_cache (merge_sib sch o x trg c)) (pre ++ [x]) /\
  outcome sch o x trg pre (r_trg (merge_sib sch o x trg c)).
Proof.
  intros Hest Hcs HC Hkx Hnd H1 H2.
  pose proof (H2 x Hkx) as H2x.
  assert (Hupd : forall i t c', nth_error trg i = Some t -> match_eq sch x t = true ->
                   length (filter (match_eq sch x) (firstn i trg)) = count_match sch x pre ->
                   (forall z, is_key sch (d_sid z) = false ->
                      match cache_find sch c' z with
                      | None => count_match sch z (pre ++ [x]) = O
                      | Some (cnt, used) =>
                          count_match sch z (pre ++ [x]) <> O /\
                          ((used = count_match sch z (pre ++ [x]) /\ (used < cnt)%nat /\ cnt = count_match sch z trg) \/
                           (used = cnt /\ count_match sch z trg = count_match sch z (pre ++ [x])))
                      end) ->
                   let '(t2, sg) := upd_node sch o x t in
                   E1 sch o (replace_nth i trg t2) (pre ++ [x]) /\ E2 sch (replace_nth i trg t2) c' (pre ++ [x]) /\
                   outcome sch o x trg pre (replace_nth i trg t2)).
  { intros i t c' Hn Hm Hrank HE2.
    pose proof (Hcs t (nth_error_In _ _ Hn) Hm) as Hst.
    pose proof (Hest t (nth_error_In _ _ Hn) Hm) as Hax.
    assert (Hout : outcome sch o x trg pre (replace_nth i trg (fst (upd_node sch o x t)))).
    { right. exists i, t. repeat split; assumption. }
    destruct (upd_node sch o x t) as [t2 sg]. cbn [fst] in *. split; [|split; [|exact Hout]].
    - apply (E1_upd sch o trg pre x i t t2 H1 Hn Hm Hrank Hst Hax).
    - intros z Hz. specialize (HE2 z Hz). rewrite (count_match_replace_eq sch z i trg t t2 Hn (Hst z)). exact HE2. }
  rewrite merge_sib_unfold. unfold choose.
  destruct (match_idx sch x trg 0 0) as [i0|] eqn:E0.
  - unfold dup_inst_next.
    destruct (cache_find sch c x) as [[cnt used]|] eqn:Ec.
    + destruct H2x as [Hne [[Hu [Hlt Hcnt]]|[Hu Hcnt]]].
      * assert (Hneq : Nat.eqb used cnt = false) by (apply Nat.eqb_neq; lia). rewrite Hneq.
        destruct (match_idx sch x trg used 0) as [i|] eqn:Ei;
          [|exfalso; apply (match_idx_lt sch x trg used O); [lia|exact Ei]].
        destruct (match_idx_some _ _ _ _ _ _ Ei) as [t [_ [Hn Hm]]]. rewrite Nat.sub_0_r in Hn.
        pose proof (match_idx_rank _ _ _ _ _ _ Ei) as Hrank. rewrite Nat.sub_0_r in Hrank.
        rewrite (nth_nth_error i trg x t Hn).
        specialize (Hupd i t (cache_bump sch c x) Hn Hm ltac:(lia)).
        destruct (upd_node sch o x t) as [t2 sg]. cbn [r_trg r_cache fst snd]. apply Hupd.
        intros z Hz. rewrite cache_find_bump, count_match_snoc, (match_eq_comm sch z x).
        destruct (match_eq sch x z) eqn:Exz.
        -- rewrite (cache_find_equiv sch c x z Exz), Ec.
           rewrite <- (count_match_equiv sch x z pre Exz), <- (count_match_equiv sch x z trg Exz).
           split; [lia|]. destruct (Nat.eq_dec (S used) cnt) as [En|En]; [right; lia|left; lia].
        -- rewrite Nat.add_0_r. apply (H2 z Hz).
      * subst used. rewrite Nat.eqb_refl.
        destruct (dup_inst sch (d_sid x)) eqn:Ed; [|exfalso; apply Hne, Hnd; reflexivity].
        cbn [r_trg r_cache fst snd]. split; [|split; [|left; split; [reflexivity|exact Hcnt]]].
        -- apply (E1_ins sch o p trg pre x HC H1 (AbsN_self sch o x)); [left; apply dup_not_sorted, Ed|lia].
        -- intros z Hz. rewrite count_match_snoc, count_match_insert_eq, (match_eq_comm sch z x).
           destruct (match_eq sch x z) eqn:Exz.
           ++ rewrite (cache_find_equiv sch c x z Exz), Ec.
              rewrite <- (count_match_equiv sch x z pre Exz), <- (count_match_equiv sch x z trg Exz).
              split; [lia|right; lia].
           ++ rewrite !Nat.add_0_r. apply (H2 z Hz).
    + rewrite E0.
      destruct (match_idx_some _ _ _ _ _ _ E0) as [t [_ [Hn Hm]]]. rewrite Nat.sub_0_r in Hn.
      pose proof (match_idx_rank _ _ _ _ _ _ E0) as Hrank. rewrite Nat.sub_0_r in Hrank.
      rewrite (nth_nth_error i0 trg x t Hn).
      specialize (Hupd i0 t ((x, count_match sch x trg, 1%nat) :: c) Hn Hm ltac:(lia)).
      destruct (upd_node sch o x t) as [t2 sg]. cbn [r_trg r_cache fst snd]. apply Hupd.
      pose proof (count_match_pos sch x trg t (nth_error_In _ _ Hn) Hm) as Hpos.
      intros z Hz. cbn [cache_find]. rewrite count_match_snoc, (match_eq_comm sch z x).
      destruct (match_eq sch x z) eqn:Exz.
      * rewrite <- (count_match_equiv sch x z pre Exz), <- (count_match_equiv sch x z trg Exz), H2x.
        split; [lia|]. destruct (Nat.eq_dec (count_match sch x trg) 1) as [En|En]; [right; lia|left; lia].
      * rewrite Nat.add_0_r. apply (H2 z Hz).
  - pose proof (match_idx_none0 _ _ _ _ E0) as Hno.
    assert (Hpre0 : count_match sch x pre = O).
    { destruct (Nat.eq_dec (count_match sch x pre) 0) as [E|E]; [exact E|exfalso].
      destruct (count_pos_split sch x pre E) as [pre1 [y [pre2 [-> Hxy]]]].
      destruct (H1 pre1 y pre2 eq_refl) as [t' [Hk _]]; [rewrite (is_key_match sch x y Hxy); exact Hkx|].
      destruct (kth_match sch y trg _ t' Hk) as [Hin Hyt].
      pose proof (Hno t' Hin) as Hf. rewrite (match_eq_trans sch x y t' Hxy Hyt) in Hf. discriminate. }
    assert (Hc0 : cache_find sch c x = None).
    { destruct (cache_find sch c x) as [[cnt used]|]; [destruct H2x as [Hne _]; contradiction|reflexivity]. }
    assert (Ht0 : count_match sch x trg = O) by (apply count_match_zero, Hno).
    cbn [r_trg r_cache fst snd]. unfold dup_inst_next. rewrite Hc0. cbn [snd]. split; [|split; [|left; split; [reflexivity|lia]]].
    + apply (E1_ins sch o p trg pre x HC H1 (AbsN_self sch o x)); [right; apply filter_none, Hno|lia].
    + intros z Hz. cbn [cache_find]. rewrite count_match_snoc, !count_match_insert_eq, match_eq_refl, (match_eq_comm sch z x).
      destruct (match_eq sch x z) eqn:Exz.
      * rewrite <- (count_match_equiv sch x z pre Exz), <- (count_match_equiv sch x z trg Exz).
        split; [lia|right; lia].
      * rewrite !Nat.add_0_r. apply (H2 z Hz).
Qed.

(* --- fully equal nodes --- *)
Lemma deq_list_sym a : forall b, deq_list a b = deq_list b a.
Proof. induction a as [|x a IH]; intros [|y b]; cbn [deq_list]; try reflexivity. rewrite (deq_sym x y), IH. reflexivity. Qed.

Lemma deq_list_trans a : forall b c, deq_list a b = true -> deq_list b c = true -> deq_list a c = true.
Proof.
  induction a as [|x a IH]; intros [|y b] [|z c] H1 H2; cbn [deq_list] in *; try discriminate; try reflexivity.
  apply andb_true_iff in H1. destruct H1 as [A1 B1]. apply andb_true_iff in H2. destruct H2 as [A2 B2].
  rewrite (deq_trans x y z A1 A2), (IH b c B1 B2). reflexivity.
Qed.

Lemma deq_list_app a1 b1 a2 b2 :
  deq_list a1 b1 = true -> deq_list a2 b2 = true -> deq_list (a1 ++ a2) (b1 ++ b2) = true.
Proof.
  revert b1. induction a1 as [|x a1 IH]; intros [|y b1] H1 H2; cbn [deq_list app] in *; try discriminate; [exact H2|].
  apply andb_true_iff in H1. destruct H1 as [A B]. rewrite A, (IH b1 B H2). reflexivity.
Qed.

Lemma deq_list_length a : forall b, deq_list a b = true -> length a = length b.
Proof. induction a as [|x a IH]; intros [|y b] H; cbn [deq_list length] in *; try discriminate; [reflexivity|]. apply andb_true_iff in H. f_equal. apply IH, H. Qed.

Lemma find_sid_deq a : forall b k, deq_list a b = true -> child_val a k = child_val b k.
Proof.
  unfold child_val, find_sid. induction a as [|x a IH]; intros [|y b] k H; cbn [deq_list find] in *; try discriminate; [reflexivity|].
  apply andb_true_iff in H. destruct H as [Hxy H]. rewrite deq_unfold in Hxy.
  apply andb_true_iff in Hxy. destruct Hxy as [Hxy _]. apply andb_true_iff in Hxy. destruct Hxy as [Hs Hv].
  apply N.eqb_eq in Hs. apply beq_bytes_eq in Hv. rewrite Hs. destruct (d_sid y =? k); [exact Hv|apply IH, H].
Qed.

Lemma deq_inst_id sch a b : deq a b = true -> inst_id sch a = inst_id sch b.
Proof.
  rewrite deq_unfold. intro H. apply andb_true_iff in H. destruct H as [H Hc]. apply andb_true_iff in H. destruct H as [Hs Hv].
  apply N.eqb_eq in Hs. apply beq_bytes_eq in Hv. unfold inst_id, key_vals. rewrite Hs, Hv.
  destruct (dup_inst sch (d_sid b)); [reflexivity|]. destruct (kind_of sch (d_sid b)); try reflexivity.
  f_equal. f_equal. apply map_ext. intro k. apply find_sid_deq, Hc.
Qed.

Lemma deq_match sch a b : deq a b = true -> match_eq sch a b = true.
Proof.
  intro H. pose proof H as H0. rewrite deq_unfold in H0. apply andb_true_iff in H0. destruct H0 as [H0 _].
  apply andb_true_iff in H0. destruct H0 as [Hs _]. apply N.eqb_eq in Hs.
  destruct (dup_inst sch (d_sid a)) eqn:Ed.
  - rewrite (match_eq_dup sch a b Ed), H, <- Hs, N.eqb_refl. reflexivity.
  - destruct (inst_id_some sch a Ed) as [j Hj]. rewrite (match_eq_has_id sch a j Hj). apply has_id_inst.
    rewrite <- (deq_inst_id sch a b H). exact Hj.
Qed.

Lemma class_stable_of_deq sch t t2 : deq t t2 = true -> forall z, match_eq sch z t2 = match_eq sch z t.
Proof.
  intros H z. rewrite (match_eq_comm sch z t2), (match_eq_comm sch z t).
  symmetry. apply (match_eq_equiv sch t t2 (deq_match sch t t2 H)).
Qed.

Lemma count_deq_list sch z a : forall b, deq_list a b = true -> count_match sch z a = count_match sch z b.
Proof.
  unfold count_match. induction a as [|x a IH]; intros [|y b] H; cbn [deq_list filter] in *; try discriminate; [reflexivity|].
  apply andb_true_iff in H. destruct H as [Hxy H]. rewrite <- (class_stable_of_deq sch x y Hxy z).
  destruct (match_eq sch z y); cbn [length]; rewrite (IH b H); reflexivity.
Qed.

Lemma filter_firstn_mono {A} (P : A -> bool) f : forall i q t,
  (i < q)%nat -> nth_error f i = Some t -> P t = true ->
  (length (filter P (firstn i f)) < length (filter P (firstn q f)))%nat.
Proof.
  induction f as [|a f IH]; intros [|i] [|q] t Hlt Hn Ht; cbn [nth_error firstn filter length] in *; try discriminate; try lia.
  - inversion Hn; subst a. rewrite Ht. cbn [length]. lia.
  - specialize (IH i q t ltac:(lia) Hn Ht). destruct (P a); cbn [length]; lia.
Qed.

Lemma rank_unique {A} (P : A -> bool) f i q t t' :
  nth_error f i = Some t -> P t = true -> nth_error f q = Some t' -> P t' = true ->
  length (filter P (firstn i f)) = length (filter P (firstn q f)) -> i = q.
Proof.
  intros Hi Pi Hq Pq E. destruct (Nat.lt_trichotomy i q) as [H|[H|H]]; [|exact H|].
  - pose proof (filter_firstn_mono P f i q t H Hi Pi). lia.
  - pose proof (filter_firstn_mono P f q i t' H Hq Pq). lia.
Qed.

Lemma new_val_deq sch o x t : beq_bytes (d_val x) (d_val t) = true -> new_val sch o x t = d_val t.
Proof.
  intro H. apply beq_bytes_eq in H. unfold new_val, merge_value. destruct t as [ts tv td tm tch]. cbn [d_sid d_val d_dflt set_val set_dflt] in *.
  destruct (kind_of sch ts); try reflexivity.
  - destruct (mo_defaults o || negb (d_dflt x)); [|reflexivity].
    destruct (td && negb (d_dflt x)); [|destruct (negb td && d_dflt x)]; destruct (mo_with_flags o); cbn; congruence.
  - destruct (td && negb (d_dflt x)); reflexivity.
  - rewrite H, beq_bytes_refl. reflexivity.
Qed.

Definition est2_stmt sch o (x : dnode) : Prop :=
  forall p t, CanonN sch p x -> UniqN sch x -> CanonN sch p t -> match_eq sch x t = true ->
              AbsN sch o x (fst (upd_node sch o x t)).
Definition cs_stmt sch o (x : dnode) : Prop :=
  forall p t, CanonN sch p x -> UniqN sch x -> CanonN sch p t -> match_eq sch x t = true ->
              forall z, match_eq sch z (fst (upd_node sch o x t)) = match_eq sch z t.
(* updating a node with a fully equal source node gives a fully equal node (only default flags can change) *)
Definition dp_stmt sch o (x : dnode) : Prop :=
  forall p t, CanonN sch p x -> UniqN sch x -> CanonN sch p t -> deq x t = true ->
              deq t (fst (upd_node sch o x t)) = true.
Definition all3 sch o (x : dnode) : Prop := est2_stmt sch o x /\ cs_stmt sch o x /\ dp_stmt sch o x.

Lemma replace_nth_app {A} (a : list A) t b x : replace_nth (length a) (a ++ t :: b) x = a ++ x :: b.
Proof. induction a as [|y a IH]; cbn [length app replace_nth]; [reflexivity|]. rewrite IH. reflexivity. Qed.

Lemma firstn_length_app {A} (a b : list A) : firstn (length a) (a ++ b) = a.
Proof. induction a as [|y a IH]; cbn [length app firstn]; [reflexivity|]. rewrite IH. reflexivity. Qed.

Lemma nth_error_length_app {A} (a : list A) t b : nth_error (a ++ t :: b) (length a) = Some t.
Proof. induction a as [|y a IH]; cbn [length app nth_error]; [reflexivity|exact IH]. Qed.

Lemma level_gen sch o np p : forall suf pre trg c flag up,
  Forall (all3 sch o) suf -> CanonAt sch p trg -> cache_inv sch c trg ->
  Forall (CanonN sch p) suf -> Forall (UniqN sch) suf -> UniqL sch (pre ++ suf) ->
  E1 sch o trg pre -> E2 sch trg c pre ->
  let b := fst (fst (merge_children sch (merge_sib sch o) np suf trg c flag up)) in
  E1 sch o b (pre ++ suf) /\
  (forall tpre tsuf, trg = tpre ++ tsuf -> deq_list pre tpre = true -> deq_list suf tsuf = true ->
                     deq_list (pre ++ suf) b = true).
Proof.
  induction suf as [|y suf IH]; intros pre trg c flag up HI HC Hc HCs HNs HU H1 H2; cbn [merge_children]; cbn zeta.
  - rewrite app_nil_r. split; [exact H1|]. intros tpre tsuf -> Hp Hs. destruct tsuf; [|discriminate]. rewrite app_nil_r. exact Hp.
  - inversion HI as [|? ? Iy HI']; subst. inversion HCs as [|? ? Cy HCs']; subst. inversion HNs as [|? ? Ny HNs']; subst.
    replace (pre ++ y :: suf) with ((pre ++ [y]) ++ suf) in * by (rewrite <- app_assoc; reflexivity).
    destruct (is_key sch (d_sid y)) eqn:Ek.
    + destruct (E_key sch o trg c pre y Ek H1 H2) as [H1' H2'].
      destruct (IH (pre ++ [y]) trg c flag up HI' HC Hc HCs' HNs' HU H1' H2') as [R1 R2]. split; [exact R1|].
      intros tpre tsuf -> Hp Hs. destruct tsuf as [|tq tsuf]; [discriminate|]. cbn [deq_list] in Hs.
      apply andb_true_iff in Hs. destruct Hs as [Hq Hs].
      apply (R2 (tpre ++ [tq]) tsuf); [rewrite <- app_assoc; reflexivity| |exact Hs].
      apply deq_list_app; [exact Hp|cbn [deq_list]; rewrite Hq; reflexivity].
    + destruct Iy as [Iest [Ics Idp]].
      assert (Hnd : dup_inst sch (d_sid y) = false -> count_match sch y pre = O).
      { apply (uniq_first_count sch pre y suf). rewrite <- app_assoc in HU. exact HU. }
      destruct (est_step_gen sch o p y trg c pre) as [H1' [H2' Hout]]; try assumption.
      { intros t Hin Hm. apply (Iest p t Cy Ny (CanonAt_In sch p trg t HC Hin) Hm). }
      { intros t Hin Hm. apply (Ics p t Cy Ny (CanonAt_In sch p trg t HC Hin) Hm). }
      destruct (merge_sib_sound sch o y p trg c Cy Hc) as [HS Hc'].
      pose proof (MStep_canon sch o y p trg _ HC Cy HS) as HC'.
      destruct (merge_sib sch o y trg c) as [[[trg' c'] sg] oth]. cbn [r_trg r_cache fst snd] in *.
      destruct (apply_sigs np oth flag sg) as [flag' up'].
      destruct (IH (pre ++ [y]) trg' c' flag' (up ++ up') HI' HC' Hc' HCs' HNs' HU H1' H2') as [R1 R2]. split; [exact R1|].
      intros tpre tsuf Etrg Hp Hs. destruct tsuf as [|tq tsuf]; [discriminate|]. cbn [deq_list] in Hs.
      apply andb_true_iff in Hs. destruct Hs as [Hq Hs].
      assert (Hcp : count_match sch y tpre = count_match sch y pre) by (symmetry; apply count_deq_list, Hp).
      assert (Hmq : match_eq sch y tq = true) by (apply deq_match, Hq).
      destruct Hout as [[_ Hcnt]|[i [t [Hn [Hm [Hrank ->]]]]]].
      * exfalso. rewrite Etrg, count_match_app in Hcnt. unfold count_match at 2 in Hcnt. cbn [filter] in Hcnt.
        rewrite Hmq in Hcnt. cbn [length] in Hcnt. lia.
      * assert (Hiq : i = length tpre).
        { apply (rank_unique (match_eq sch y) trg i (length tpre) t tq Hn Hm); [rewrite Etrg; apply nth_error_length_app|exact Hmq|].
          rewrite Hrank, Etrg, firstn_length_app, <- Hcp. reflexivity. }
        subst i. rewrite Etrg, nth_error_length_app in Hn. inversion Hn; subst t.
        assert (Ctq : CanonN sch p tq) by (apply (CanonAt_In sch p trg tq HC); rewrite Etrg; apply in_or_app; right; left; reflexivity).
        pose proof (Idp p tq Cy Ny Ctq Hq) as Hd2.
        apply (R2 (tpre ++ [fst (upd_node sch o y tq)]) tsuf).
        -- rewrite Etrg, replace_nth_app, <- app_assoc. reflexivity.
        -- apply deq_list_app; [exact Hp|]. cbn [deq_list]. rewrite (deq_trans y tq _ Hq Hd2). reflexivity.
        -- exact Hs.
Qed.

Theorem all3_all sch o x : all3 sch o x.
Proof.
  induction x as [s v d m ch IH] using dnode_ind'.
  set (x := DN s v d m ch) in *.
  (* the children level, for any matching t *)
  assert (LG : forall p t, CanonN sch p x -> UniqN sch x -> CanonN sch p t -> d_sid t = s ->
               let b := d_ch (fst (upd_node sch o x t)) in
               E1 sch o b ch /\ (deq_list ch (d_ch t) = true -> deq_list ch b = true)).
  { intros p t Cx Nx Ct Hst. cbn zeta.
    pose proof (upd_node_facts sch o x t) as HF. cbn zeta in HF. destruct HF as [_ [_ [_ [_ Hc]]]]. rewrite Hc.
    assert (HCc : Forall (CanonN sch (Some s)) ch) by (unfold x in Cx; apply CanonN_unfold in Cx; apply Cx).
    assert (HNc : UniqIds sch ch) by (unfold x in Nx; apply UniqN_unfold in Nx; exact Nx).
    assert (Cat : CanonAt sch (Some s) (d_ch t)) by (rewrite <- Hst; apply (CanonAt_children sch p t Ct)).
    destruct (E_nil sch o (d_ch t)) as [H1 H2].
    destruct (level_gen sch o (is_np_cont sch (d_sid t)) (Some s) ch [] (d_ch t) [] (new_dflt sch o x t) []
                IH Cat (cache_inv_nil sch (d_ch t)) HCc (proj2 HNc) (proj1 HNc) H1 H2) as [R1 R2].
    unfold x. cbn [d_ch app] in *. split; [exact R1|]. intro Hd. apply (R2 [] (d_ch t) eq_refl eq_refl Hd). }
  assert (DP : dp_stmt sch o x).
  { intros p t Cx Nx Ct Hd.
    pose proof Hd as Hd0. rewrite deq_unfold in Hd0. apply andb_true_iff in Hd0. destruct Hd0 as [Hd0 Hdc].
    apply andb_true_iff in Hd0. destruct Hd0 as [Hds Hdv]. apply N.eqb_eq in Hds.
    pose proof (upd_node_facts sch o x t) as HF. cbn zeta in HF. destruct HF as [Hs [_ [Hv _]]].
    destruct (LG p t Cx Nx Ct (eq_sym Hds)) as [_ R2]. cbn zeta in R2.
    rewrite deq_unfold, Hs, N.eqb_refl, Hv, (new_val_deq sch o x t Hdv), beq_bytes_refl. cbn [andb].
    unfold x in Hdc. cbn [d_ch] in Hdc.
    apply (deq_list_trans (d_ch t) ch _); [rewrite deq_list_sym; exact Hdc|apply R2, Hdc]. }
  assert (CS : cs_stmt sch o x).
  { intros p t Cx Nx Ct Hm z.
    destruct (dup_inst sch s) eqn:Ed.
    - apply class_stable_of_deq. apply (DP p t Cx Nx Ct).
      rewrite (match_eq_dup sch x t Ed) in Hm. apply andb_true_iff in Hm. apply Hm.
    - apply (upd_class_stable sch o p x t Cx); [|exact Hm]. unfold nokl, x. cbn [d_sid]. rewrite Ed. reflexivity. }
  split; [|split; assumption].
  intros p t Cx Nx Ct Hm.
  pose proof (upd_node_facts sch o x t) as HF. cbn zeta in HF. destruct HF as [Hs [Hme [Hv [Hd Hc]]]].
  pose proof (match_eq_sid _ _ _ Hm) as Hst.
  apply AbsN_unfold. split.
  - destruct (is_term sch s) eqn:Et.
    + assert (Hch : ch = []) by (apply (CanonN_term_nil sch p x Cx); exact Et).
      assert (Ht2 : fst (upd_node sch o x t) = fst (merge_value sch o x t)).
      { pose proof (merge_value_shape sch o x t) as Hsh. cbn zeta in Hsh. destruct Hsh as [S1 [S2 S3]].
        assert (Hxn : d_ch x = []) by (unfold x; cbn [d_ch]; exact Hch).
        rewrite Hxn in Hc. cbn [merge_children fst] in Hc. specialize (Hd Hxn).
        unfold new_val, new_dflt in *.
        destruct (fst (upd_node sch o x t)) as [a1 a2 a3 a4 a5]. destruct (fst (merge_value sch o x t)) as [b1 b2 b3 b4 b5].
        cbn [d_sid d_val d_dflt d_meta d_ch] in *. congruence. }
      rewrite Ht2. apply merge_value_idem.
    + apply merge_value_inner. rewrite Hs, Hst. exact Et.
  - destruct (LG p t Cx Nx Ct Hst) as [R1 _]. cbn zeta in R1. unfold x at 2. cbn [d_ch].
    apply E1_AbsL. cbn [app]. intros pre1 y pre2 E _ Hy. apply (R1 pre1 y pre2 E Hy).
Qed.

Lemma est_list_gen sch o p : forall suf pre trg c,
  CanonAt sch p trg -> cache_inv sch c trg ->
  Forall (CanonN sch p) suf -> Forall (UniqN sch) suf -> UniqL sch (pre ++ suf) ->
  Forall (fun y => is_key sch (d_sid y) = false) suf ->
  E1 sch o trg pre -> E2 sch trg c pre ->
  E1 sch o (merge_list sch o suf trg c) (pre ++ suf).
Proof.
  induction suf as [|y suf IH]; intros pre trg c HC Hc HCs HNs HU Hkeys H1 H2; cbn [merge_list].
  - rewrite app_nil_r. exact H1.
  - inversion HCs as [|? ? Cy HCs']; subst. inversion HNs as [|? ? Ny HNs']; subst. inversion Hkeys as [|? ? Ek Hkeys']; subst.
    replace (pre ++ y :: suf) with ((pre ++ [y]) ++ suf) in * by (rewrite <- app_assoc; reflexivity).
    assert (Hnd : dup_inst sch (d_sid y) = false -> count_match sch y pre = O).
    { apply (uniq_first_count sch pre y suf). rewrite <- app_assoc in HU. exact HU. }
    destruct (all3_all sch o y) as [Iest [Ics _]].
    destruct (est_step_gen sch o p y trg c pre) as [H1' [H2' _]]; try assumption.
    { intros t Hin Hm. apply (Iest p t Cy Ny (CanonAt_In sch p trg t HC Hin) Hm). }
    { intros t Hin Hm. apply (Ics p t Cy Ny (CanonAt_In sch p trg t HC Hin) Hm). }
    destruct (merge_sib_sound sch o y p trg c Cy Hc) as [HS Hc'].
    pose proof (MStep_canon sch o y p trg _ HC Cy HS) as HC'.
    destruct (merge_sib sch o y trg c) as [[[trg' c'] sg] oth]. cbn [r_trg r_cache fst snd] in *.
    apply IH; assumption.
Qed.

(* merging the same source again changes nothing: values, order, default flags, metadata - every canonical source with
   unique identities, duplicate-instance lists (key-less lists, config false leaf-lists) included *)
Theorem merge_idempotent_full sch o T S :
  Canon sch T -> Canon sch S -> UniqIds sch S ->
  merge sch o (merge sch o T S) S = merge sch o T S.
Proof.
  intros HT HS HUS. unfold merge at 1.
  assert (Hkeys : Forall (fun y => is_key sch (d_sid y) = false) S).
  { destruct HS as [_ HS]. apply Forall_forall. intros y Hy. rewrite Forall_forall in HS. apply top_not_key, HS, Hy. }
  apply (fix2_list sch o (merge sch o T S) S [] []); [exact Hkeys| |apply CI2_nil].
  destruct (E_nil sch o T) as [H1 H2].
  pose proof (est_list_gen sch o None S [] T [] HT (cache_inv_nil sch T) (proj2 HS) (proj2 HUS) (proj1 HUS) Hkeys H1 H2) as HE.
  cbn [app] in HE. apply E1_AbsL. cbn [app]. intros pre1 y pre2 E _ Hy. apply (HE pre1 y pre2 E Hy).
Qed.

(* ------------------------------------------------------------------------------------------- *)
(* M. the source content is in the result: positional form, full strength                        *)
(* ------------------------------------------------------------------------------------------- *)
Lemma AbsL_E1 sch o R : forall suf pre,
  AbsL sch o R pre suf ->
  forall s1 z s2, suf = s1 ++ z :: s2 -> is_key sch (d_sid z) = false ->
                  exists u, kth sch z R (count_match sch z (pre ++ s1)) = Some u /\ AbsN sch o z u.
Proof.
  induction suf as [|y suf IH]; intros pre HA s1 z s2 E Hz; [destruct s1; discriminate|].
  cbn [AbsL] in HA. destruct HA as [Hy HA]. destruct s1 as [|a s1]; cbn [app] in E; inversion E; subst.
  - rewrite app_nil_r. destruct Hy as [Hy|Hy]; [congruence|exact Hy].
  - destruct (IH (pre ++ [a]) HA s1 z s2 eq_refl Hz) as [u Hu]. rewrite <- app_assoc in Hu. exists u. exact Hu.
Qed.

(* what "t has absorbed y" means for the children: the k-th child of y of a class meets the k-th child of t of it *)
Lemma AbsN_children sch o y t c1 z c2 :
  AbsN sch o y t -> d_ch y = c1 ++ z :: c2 -> is_key sch (d_sid z) = false ->
  exists u, kth sch z (d_ch t) (count_match sch z c1) = Some u /\ match_eq sch z u = true /\ AbsN sch o z u.
Proof.
  intros HA E Hz. apply AbsN_unfold in HA. destruct HA as [_ HL].
  destruct (AbsL_E1 sch o (d_ch t) (d_ch y) [] HL c1 z c2 E Hz) as [u [Hk Ha]]. cbn [app] in Hk.
  exists u. split; [exact Hk|]. split; [apply (kth_match sch z _ _ u Hk)|exact Ha].
Qed.

(* ... and for values: an explicit (or, with LYD_MERGE_DEFAULTS, any) term has its value in t; an instance of a
   duplicate-instance list is fully equal to t *)
Lemma AbsN_term_val sch o y t :
  match_eq sch y t = true -> AbsN sch o y t -> is_term sch (d_sid y) = true -> expl o y -> d_val t = d_val y.
Proof.
  intros Hm HA Ht He. apply AbsN_unfold in HA. destruct HA as [Hmv _].
  destruct (dup_inst sch (d_sid y)) eqn:Ed.
  - rewrite (match_eq_dup sch y t Ed) in Hm. apply andb_true_iff in Hm. destruct Hm as [_ Hm].
    rewrite deq_unfold in Hm. apply andb_true_iff in Hm. destruct Hm as [Hm _]. apply andb_true_iff in Hm. destruct Hm as [_ Hm].
    apply beq_bytes_eq in Hm. congruence.
  - destruct (inst_id_some sch y Ed) as [j Hj]. rewrite (match_eq_has_id sch y j Hj) in Hm.
    pose proof (new_val_term sch o y t j Hj Hm Ht He) as Hv. unfold new_val in Hv. rewrite Hmv in Hv. exact Hv.
Qed.

Lemma match_dup_deq sch y t : dup_inst sch (d_sid y) = true -> match_eq sch y t = true -> deq y t = true.
Proof. intros Hd Hm. rewrite (match_eq_dup sch y t Hd) in Hm. apply andb_true_iff in Hm. apply Hm. Qed.

(* every source subtree is absorbed by the merged tree: the k-th top-level source node of a class (= identity, or full
   equality for duplicate-instance lists) meets the k-th node of that class in the result, which has absorbed it - so the
   result has at least as many equal instances as the source, each with the source's explicit values, recursively *)
Theorem merge_absorbs sch o T S :
  Canon sch T -> Canon sch S -> UniqIds sch S ->
  forall pre1 y pre2, S = pre1 ++ y :: pre2 ->
  exists t', kth sch y (merge sch o T S) (count_match sch y pre1) = Some t' /\ match_eq sch y t' = true /\ AbsN sch o y t'.
Proof.
  intros HT HS HUS pre1 y pre2 E.
  assert (Hkeys : Forall (fun y => is_key sch (d_sid y) = false) S).
  { destruct HS as [_ HS']. apply Forall_forall. intros z Hz. rewrite Forall_forall in HS'. apply top_not_key, HS', Hz. }
  destruct (E_nil sch o T) as [H1 H2].
  pose proof (est_list_gen sch o None S [] T [] HT (cache_inv_nil sch T) (proj2 HS) (proj2 HUS) (proj1 HUS) Hkeys H1 H2) as HE.
  cbn [app] in HE. unfold merge.
  assert (Hy : is_key sch (d_sid y) = false).
  { rewrite Forall_forall in Hkeys. apply Hkeys. rewrite E. apply in_or_app. right. left. reflexivity. }
  destruct (HE pre1 y pre2 E Hy) as [t' [Hk Ha]]. exists t'. split; [exact Hk|]. split; [apply (kth_match sch y _ _ t' Hk)|exact Ha].
Qed.

(* --- the target's instances of duplicate-instance lists are kept --- *)
(* shape of one step of the function, without any invariant *)
Lemma step_shape sch o x trg c :
  r_trg (merge_sib sch o x trg c) = insert_node sch trg x \/
  exists i t, nth_error trg i = Some t /\ match_eq sch x t = true /\
              r_trg (merge_sib sch o x trg c) = replace_nth i trg (fst (upd_node sch o x t)).
Proof.
  rewrite merge_sib_unfold. destruct (choose sch c x trg) as [[k c1] fi].
  destruct (match k with Some k' => match_idx sch x trg k' 0 | None => None end) as [i|] eqn:Es.
  - destruct k as [k'|]; [|discriminate]. destruct (match_idx_some _ _ _ _ _ _ Es) as [t [_ [Hn Hm]]]. rewrite Nat.sub_0_r in Hn.
    right. exists i, t. rewrite (nth_nth_error i trg x t Hn). destruct (upd_node sch o x t) as [t2 sg]. repeat split; assumption.
  - left. reflexivity.
Qed.

Lemma step_keeps_dup sch o p x trg c u :
  CanonAt sch p trg -> CanonN sch p x -> UniqN sch x -> In u trg -> dup_inst sch (d_sid u) = true ->
  exists u', In u' (r_trg (merge_sib sch o x trg c)) /\ deq u u' = true.
Proof.
  intros HC Cx Nx Hu Hd. destruct (step_shape sch o x trg c) as [->|[i [t [Hn [Hm ->]]]]].
  - exists u. split; [apply In_insert_old, Hu|apply deq_refl].
  - destruct (In_replace_nth_old i trg (fst (upd_node sch o x t)) t u Hn Hu) as [E|E]; [|exists u; split; [exact E|apply deq_refl]].
    subst u. exists (fst (upd_node sch o x t)). split; [apply (In_replace_nth_new i trg _ t Hn)|].
    destruct (all3_all sch o x) as [_ [_ Hdp]].
    apply (Hdp p t Cx Nx (CanonAt_In sch p trg t HC (nth_error_In _ _ Hn))).
    apply (match_dup_deq sch x t); [rewrite <- (match_eq_sid _ _ _ Hm); exact Hd|exact Hm].
Qed.

Lemma list_keeps_dup sch o p : forall l trg c u,
  CanonAt sch p trg -> cache_inv sch c trg -> Forall (CanonN sch p) l -> Forall (UniqN sch) l ->
  In u trg -> dup_inst sch (d_sid u) = true ->
  exists u', In u' (merge_list sch o l trg c) /\ deq u u' = true.
Proof.
  induction l as [|x l IH]; intros trg c u HC Hc HCs HNs Hu Hd; cbn [merge_list]; [exists u; split; [exact Hu|apply deq_refl]|].
  inversion HCs as [|? ? Cx HCs']; subst. inversion HNs as [|? ? Nx HNs']; subst.
  destruct (step_keeps_dup sch o p x trg c u HC Cx Nx Hu Hd) as [u1 [Hu1 Hd1]].
  destruct (merge_sib_sound sch o x p trg c Cx Hc) as [HS Hc'].
  pose proof (MStep_canon sch o x p trg _ HC Cx HS) as HC'.
  destruct (merge_sib sch o x trg c) as [[[trg' c'] sg] oth]. cbn [r_trg r_cache fst snd] in *.
  assert (Hd1s : dup_inst sch (d_sid u1) = true).
  { rewrite deq_unfold in Hd1. apply andb_true_iff in Hd1. destruct Hd1 as [Hd1 _]. apply andb_true_iff in Hd1. destruct Hd1 as [Hs _].
    apply N.eqb_eq in Hs. rewrite <- Hs. exact Hd. }
  destruct (IH trg' c' u1 HC' Hc' HCs' HNs' Hu1 Hd1s) as [u' [Hu' Hd']].
  exists u'. split; [exact Hu'|apply (deq_trans u u1 u' Hd1 Hd')].
Qed.

(* every top-level target instance of a duplicate-instance list has a fully equal instance in the merged tree (it is
   kept as it is or updated by an equal source instance, which changes only default flags) *)
Theorem merge_keeps_dup_top sch o T S u :
  Canon sch T -> Canon sch S -> UniqIds sch S -> In u T -> dup_inst sch (d_sid u) = true ->
  exists u', In u' (merge sch o T S) /\ deq u u' = true.
Proof.
  intros HT HS HUS Hu Hd. unfold merge.
  apply (list_keeps_dup sch o None S T [] u HT (cache_inv_nil sch T) (proj2 HS) (proj2 HUS) Hu Hd).
Qed.

(* ------------------------------------------------------------------------------------------- *)
(* N. level-wise view of the function: duplicate instances below an addressable node are kept    *)
(* ------------------------------------------------------------------------------------------- *)
Lemma insert_node_length sch f n : length (insert_node sch f n) = S (length f).
Proof. rewrite <- (Permutation_length (insert_node_perm sch f n)). reflexivity. Qed.

Lemma nonkeys_all sch l : Forall (fun y => is_key sch (d_sid y) = false) l -> nonkeys sch l = l.
Proof.
  induction l as [|y l IH]; intro H; cbn [nonkeys filter]; [reflexivity|]. inversion H; subst.
  rewrite H2. cbn [negb]. f_equal. apply IH. assumption.
Qed.

Lemma merge_list_children sch o np l : forall trg c flag up,
  Forall (fun y => is_key sch (d_sid y) = false) l ->
  merge_list sch o l trg c = fst (fst (merge_children sch (merge_sib sch o) np l trg c flag up)).
Proof.
  induction l as [|y l IH]; intros trg c flag up H; cbn [merge_list merge_children]; [reflexivity|].
  inversion H; subst. rewrite H2. destruct (merge_sib sch o y trg c) as [[[trg' c'] sg] oth].
  destruct (apply_sigs np oth flag sg) as [flag' up']. apply IH. assumption.
Qed.

Lemma children_keeps_dup sch o p np : forall suf trg c flag up u,
  CanonAt sch p trg -> cache_inv sch c trg -> Forall (CanonN sch p) suf -> Forall (UniqN sch) suf ->
  In u trg -> dup_inst sch (d_sid u) = true ->
  exists u', In u' (fst (fst (merge_children sch (merge_sib sch o) np suf trg c flag up))) /\ deq u u' = true.
Proof.
  induction suf as [|x l IH]; intros trg c flag up u HC Hc HCs HNs Hu Hd; cbn [merge_children]; [exists u; split; [exact Hu|apply deq_refl]|].
  inversion HCs as [|? ? Cx HCs']; subst. inversion HNs as [|? ? Nx HNs']; subst.
  destruct (is_key sch (d_sid x)); [apply IH; assumption|].
  destruct (step_keeps_dup sch o p x trg c u HC Cx Nx Hu Hd) as [u1 [Hu1 Hd1]].
  destruct (merge_sib_sound sch o x p trg c Cx Hc) as [HS Hc'].
  pose proof (MStep_canon sch o x p trg _ HC Cx HS) as HC'.
  destruct (merge_sib sch o x trg c) as [[[trg' c'] sg] oth]. cbn [r_trg r_cache fst snd] in *.
  destruct (apply_sigs np oth flag sg) as [flag' up'].
  assert (Hd1s : dup_inst sch (d_sid u1) = true).
  { rewrite deq_unfold in Hd1. apply andb_true_iff in Hd1. destruct Hd1 as [Hd1 _]. apply andb_true_iff in Hd1. destruct Hd1 as [Hs _].
    apply N.eqb_eq in Hs. rewrite <- Hs. exact Hd. }
  destruct (IH trg' c' flag' (up ++ up') u1 HC' Hc' HCs' HNs' Hu1 Hd1s) as [u' [Hu' Hd']].
  exists u'. split; [exact Hu'|apply (deq_trans u u1 u' Hd1 Hd')].
Qed.

Lemma lookup_path_sid sch : forall q f g n m,
  lookup_path sch f q = Some n -> lookup_path sch g q = Some m -> d_sid n = d_sid m.
Proof.
  induction q as [|j q IH]; intros f g n m H1 H2; [discriminate|]. rewrite lookup_path_cons in H1, H2.
  destruct (find_inst sch f j) as [x|] eqn:Ex; [|discriminate]. destruct (find_inst sch g j) as [y|] eqn:Ey; [|discriminate].
  destruct q as [|j2 q'].
  - inversion H1; subst. inversion H2; subst.
    destruct (find_inst_some _ _ _ _ Ex) as [_ Hx]. destruct (find_inst_some _ _ _ _ Ey) as [_ Hy].
    rewrite (has_id_sid _ _ _ Hx), (has_id_sid _ _ _ Hy). reflexivity.
  - apply (IH (d_ch x) (d_ch y) n m H1 H2).
Qed.

Section LevelFn.
  Variable sch : schema.
  Variable o : mopts.
  Hypothesis Hsch : schema_okb sch = true.

  Let mc np l trg c flag up := fst (fst (merge_children sch (merge_sib sch o) np l trg c flag up)).

  Lemma level_fn : forall q p suf trg c np flag up nT nS,
    CanonAt sch p trg -> UniqIds sch trg -> cache_inv sch c trg ->
    Forall (CanonN sch p) suf -> Forall (UniqN sch) suf -> UniqL sch (nonkeys sch suf) ->
    lookup_path sch trg q = Some nT -> lookup_path sch (nonkeys sch suf) q = Some nS -> is_term sch (d_sid nS) = false ->
    exists nR pp, lookup_path sch (mc np suf trg c flag up) q = Some nR /\
                  CanonN sch pp nT /\ CanonN sch pp nS /\ UniqN sch nS /\
                  exists np' fl', d_ch nR = mc np' (d_ch nS) (d_ch nT) [] fl' [].
  Proof.
    induction q as [|j q' IHq]; intros p suf; [intros trg c np flag up nT nS _ _ _ _ _ _ H; discriminate|].
    induction suf as [|x l IHl]; intros trg c np flag up nT nS Ha HUa Hc HC HN HUl Hqa Hql Hterm;
      [cbn [nonkeys filter] in Hql; rewrite lookup_path_cons in Hql; discriminate|].
    inversion HC as [|? ? Cx HC']; subst. inversion HN as [|? ? Nx HN']; subst.
    unfold mc. cbn [merge_children]. cbn [nonkeys filter] in Hql, HUl.
    destruct (is_key sch (d_sid x)) eqn:Ek; cbn [negb] in Hql, HUl.
    - apply (IHl trg c np flag up nT nS); assumption.
    - destruct (merge_sib_sound sch o x p trg c Cx Hc) as [HS Hc'].
      pose proof (MStep_canon sch o x p trg _ Ha Cx HS) as Cm.
      pose proof (MStep_uniq sch o x p trg _ Cx Nx HUa HS) as Um.
      pose proof (step_shape sch o x trg c) as Hshape.
      destruct (merge_sib sch o x trg c) as [[[trg' c'] sg] oth]. cbn [r_trg r_cache fst snd] in *.
      destruct (apply_sigs np oth flag sg) as [flag' up'].
      fold (mc np l trg' c' flag' (up ++ up')).
      destruct (has_id sch j x) eqn:Ex.
      + apply has_id_inst in Ex.
        rewrite lookup_path_cons in Hql. unfold find_inst in Hql. cbn [find] in Hql. rewrite (has_id_self _ _ _ Ex) in Hql.
        rewrite lookup_path_cons in Hqa.
        destruct (find_inst sch trg j) as [t0|] eqn:Et0; [|discriminate].
        destruct (find_inst_some _ _ _ _ Et0) as [Ht0in Ht0id].
        (* the rest of the source siblings does not touch the instance j *)
        assert (Hrest : find_inst sch (mc np l trg' c' flag' (up ++ up')) j = find_inst sch trg' j).
        { pose proof (merge_children_fold sch o np p l trg' c' flag' (up ++ up') HC' Hc') as HF.
          apply MFoldK_MFold in HF.
          apply (MFold_find_other sch o p (nonkeys sch l) trg' _ j (Forall_nonkeys sch l HC') HF). intros z Hz E.
          pose proof (UniqL_head_other sch x (nonkeys sch l) j HUl (has_id_self _ _ _ Ex) z Hz) as Hf.
          rewrite (has_id_self _ _ _ E) in Hf. discriminate. }
        rewrite lookup_path_cons, Hrest.
        (* the step is an update of t0 *)
        destruct Hshape as [Hins|[i [t [Hn [Hmt ->]]]]].
        * exfalso. rewrite MStep_unfold in HS. destruct HS as [[Hno _]|[i [t [t2 [Hn [_ [E _]]]]]]].
          -- destruct Hno as [Hno|Hd]; [|apply inst_id_none in Hd; congruence].
             specialize (Hno t0 Ht0in). rewrite (match_eq_has_id sch x j Ex) in Hno. congruence.
          -- rewrite Hins in E. apply (f_equal (@length dnode)) in E. rewrite insert_node_length, replace_nth_length in E. lia.
        * assert (Htj : has_id sch j t = true) by (rewrite <- (match_eq_has_id sch x j Ex); exact Hmt).
          pose proof (uniq_find sch trg t j (proj1 HUa) (nth_error_In _ _ Hn) Htj) as Hf. rewrite Et0 in Hf. inversion Hf; subst t0.
          pose proof (upd_node_facts sch o x t) as HF. cbn zeta in HF. destruct HF as [Hs [_ [Hv [_ Hch]]]].
          set (t2 := fst (upd_node sch o x t)) in *.
          assert (Hp : parents_ok sch x) by (apply (CanonN_parents_ok sch p), Cx).
          assert (HCx : Forall (CanonN sch (Some (d_sid x))) (d_ch x)) by (destruct x as [s v d mt ch]; apply CanonN_unfold in Cx; apply Cx).
          assert (HFold : MFoldK sch (MStep sch o) (d_ch x) (d_ch t) (d_ch t2)).
          { rewrite Hch. apply (merge_children_fold sch o _ (Some (d_sid x))); [exact HCx|apply cache_inv_nil]. }
          assert (Hid : inst_id sch t2 = inst_id sch t) by (apply (upd_inst_id sch o x t t2 Hp Hmt Hs Hv HFold)).
          rewrite (find_replace_uniq sch trg i t t2 j (proj1 HUa) Hn Htj Hid).
          assert (Ct : CanonN sch p t) by (apply (CanonAt_In sch p trg t Ha), Ht0in).
          assert (Hst : d_sid t = d_sid x) by (apply (match_eq_sid _ _ _ Hmt)).
          destruct q' as [|j2 q''].
          -- inversion Hqa; subst nT. inversion Hql; subst nS. exists t2, p. split; [reflexivity|].
             repeat split; try assumption. exists (is_np_cont sch (d_sid t)), (new_dflt sch o x t). exact Hch.
          -- rewrite Hch.
             apply (IHq (Some (d_sid x)) (d_ch x) (d_ch t) [] (is_np_cont sch (d_sid t)) (new_dflt sch o x t) [] nT nS).
             ++ rewrite <- Hst. apply (CanonAt_children sch p t Ct).
             ++ apply UniqN_unfold. destruct HUa as [_ HUa]. rewrite Forall_forall in HUa. apply HUa, Ht0in.
             ++ apply cache_inv_nil.
             ++ exact HCx.
             ++ apply UniqN_unfold in Nx. apply Nx.
             ++ apply UniqL_nonkeys. apply UniqN_unfold in Nx. apply Nx.
             ++ exact Hqa.
             ++ apply (lookup_path_nonkeys_some sch Hsch p x (j2 :: q'') nS Cx Nx Hql Hterm).
             ++ exact Hterm.
      + assert (Hne : inst_id sch x <> Some j) by (intro E; rewrite (has_id_self _ _ _ E) in Ex; discriminate).
        apply (IHl trg' c' np flag' (up ++ up') nT nS Cm Um Hc' HC' HN' (UniqL_tail sch x _ HUl)); [| |exact Hterm].
        * rewrite lookup_path_cons in *. rewrite (MStep_find_other sch o x p trg trg' j Cx HS Hne). exact Hqa.
        * rewrite lookup_path_cons in *. unfold find_inst in *. cbn [find] in Hql. rewrite Ex in Hql. exact Hql.
  Qed.

  (* an instance of a duplicate-instance list below a target node that the source also has at the same instance path has a
     fully equal instance below the merged node: it is kept as it is or updated by an equal source instance *)
  Theorem merge_keeps_dup_below T S path nT nS u :
    Canon sch T -> Canon sch S -> UniqIds sch T -> UniqIds sch S ->
    lookup_path sch T path = Some nT -> lookup_path sch S path = Some nS -> is_term sch (d_sid nS) = false ->
    In u (d_ch nT) -> dup_inst sch (d_sid u) = true ->
    exists nR u', lookup_path sch (merge sch o T S) path = Some nR /\ In u' (d_ch nR) /\ deq u u' = true.
  Proof.
    intros HT HS HUT HUS H1 H2 H3 Hu Hd.
    assert (Hkeys : Forall (fun y => is_key sch (d_sid y) = false) S).
    { destruct HS as [_ HS']. apply Forall_forall. intros z Hz. rewrite Forall_forall in HS'. apply top_not_key, HS', Hz. }
    unfold merge. rewrite (merge_list_children sch o false S T [] false [] Hkeys).
    destruct (level_fn path None S T [] false false [] nT nS HT HUT (cache_inv_nil sch T) (proj2 HS) (proj2 HUS)) as [nR [pp [HR [CT [CS [NS [np' [fl' Hch]]]]]]]];
      try assumption.
    - rewrite (nonkeys_all sch S Hkeys). apply HUS.
    - rewrite (nonkeys_all sch S Hkeys). exact H2.
    - exists nR. unfold mc in *.
      assert (Hsid : d_sid nT = d_sid nS).
      { apply (lookup_path_sid sch path T S nT nS H1 H2). }
      destruct (children_keeps_dup sch o (Some (d_sid nS)) np' (d_ch nS) (d_ch nT) [] fl' [] u) as [u' [Hu' Hd']]; try assumption.
      + rewrite <- Hsid. apply (CanonAt_children sch pp nT CT).
      + apply cache_inv_nil.
      + destruct nS as [s v d mt ch]. apply CanonN_unfold in CS. apply CS.
      + apply UniqN_unfold in NS. apply NS.
      + exists u'. rewrite Hch. repeat split; assumption.
  Qed.
End LevelFn.
