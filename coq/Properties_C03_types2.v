(* Properties_C03_types2.v — property C03 (typed values: acceptance, canonical form, equality, ordering) for
   enumeration, bits, binary, the string length restriction and union: theorem statements only. Each is closed by
   [exact] of a lemma proved in TypesMoreP and followed by Print Assumptions. Models: TypesMore.v (as coded:
   src/plugins_types/enumeration.c bits.c binary.c string.c union.c, ly_utf8len). The Spec definitions (enum_wf,
   bits_wf, tokens, rfc4648_canonical = b64_encode, utf8_chars, ...) are in TypesMore.v. Values are NUL-free texts.
   The binary model follows /repo commit c0ee3aa (canonical string re-encoded when the unused bits are not zero), the
   UTF-8 check /repo commit d2cc93f (noncharacters refused).
   Not covered here: patterns (C18), LYB encoding of these types, leafref, identityref beyond the value level of the last
   section (IdRef.v), the resolution of
   instance-identifier paths against the schema (only their canonical string: IidCanon.v, last section) and
   the derived inet / yang types (searched by the SourceIndep oracle only). *)
From LY Require Import Base TypesMisc TypesMiscP IntLex IntLexP Utf8 TypesMore TypesMoreP PathQuote PathQuoteP IidCanon IidCanonP IdRef IdRefP.
Local Open Scope N_scope.

(* ====================== enumeration (RFC 7950 9.6) ====================== *)

(* a text is accepted exactly when it is one of the declared names (no white space tolerated, case sensitive);
   the stored item is the declaration with that name *)
Theorem C03_enum_store_iff :
  forall e s it, NoDup (map fst e) -> (enum_store e s = Ok it <-> In it e /\ fst it = s).
Proof. exact enum_store_iff. Qed.
Print Assumptions C03_enum_store_iff.

(* the canonical string is the accepted text (the name, 9.6.2) and storing it again gives the same item *)
Theorem C03_enum_canon_idempotent :
  forall e s it, enum_store e s = Ok it -> enum_canon it = s /\ enum_store e (enum_canon it) = Ok it.
Proof. exact enum_canon_idempotent. Qed.
Print Assumptions C03_enum_canon_idempotent.

Theorem C03_enum_eq_iff_canon :
  forall a b, enum_compare a b = true <-> enum_canon a = enum_canon b.
Proof. exact enum_eq_iff_canon. Qed.
Print Assumptions C03_enum_eq_iff_canon.

(* the sort callback is a strict total order on the items of a well-formed enumeration, its equality is the compare
   callback; last clause: it orders by DEscending assigned value (lyplg_type_sort_enum returns -1 for the greater
   value), so a system-ordered leaf-list of enumerations is kept from the highest value to the lowest *)
Theorem C03_enum_sort_total_order :
  forall e, enum_wf e ->
  (forall a, enum_sort a a = Eq) /\
  (forall a b, In a e -> In b e -> (enum_sort a b = Eq <-> enum_compare a b = true)) /\
  (forall a b, enum_sort a b = CompOpp (enum_sort b a)) /\
  (forall a b c, enum_sort a b = Lt -> enum_sort b c = Lt -> enum_sort a c = Lt) /\
  (forall a b, enum_sort a b = Lt <-> (snd b < snd a)%Z).
Proof. exact enum_sort_total_order. Qed.
Print Assumptions C03_enum_sort_total_order.

(* red=10, green=-3: green is stored, Green is not; red sorts before green *)
Example C03_enum_example :
  let e := [([114;101;100], 10%Z); ([103;114;101;101;110], (-3)%Z)] in
  enum_wf e /\ enum_store e [103;114;101;101;110] = Ok ([103;114;101;101;110], (-3)%Z) /\
  enum_store e [71;114;101;101;110] = Err E_VALID /\ enum_store e [32;114;101;100] = Err E_VALID /\
  enum_sort ([114;101;100], 10%Z) ([103;114;101;101;110], (-3)%Z) = Lt.
Proof.
  cbn zeta. split; [split; repeat constructor; cbn; intuition discriminate|]. repeat split; reflexivity.
Qed.

(* ====================== bits (RFC 7950 9.7) ====================== *)

(* a text is accepted exactly when its isspace()-separated words (any amount of white space, also in front and at
   the end; the empty text gives no word) are declared bit names and no name occurs twice; the stored bitmap has
   exactly the positions of these names set *)
Theorem C03_bits_store_iff :
  forall d s bm, bits_wf d ->
  (bits_store d s = Ok bm <->
   exists ps, Forall2 (fun t p => In (t, p) d) (tokens s) ps /\ NoDup ps /\
              forall q, N.testbit bm q = true <-> In q ps).
Proof. exact bits_store_iff. Qed.
Print Assumptions C03_bits_store_iff.

(* the canonical string read back as words is the list of the names of the set bits in the order of the compiled
   array, which the schema compiler keeps in ascending position order (9.7.2), separated by single spaces *)
Theorem C03_bits_canon_position_order :
  forall d bm, bits_names_ok d ->
    bits_canon d bm = join_sp (map fst (filter (fun it => N.testbit bm (snd it)) d)) /\
    tokens (bits_canon d bm) = map fst (filter (fun it => N.testbit bm (snd it)) d).
Proof. intros d bm H. split; [reflexivity|exact (bits_canon_tokens d bm H)]. Qed.
Print Assumptions C03_bits_canon_position_order.

(* canonicalisation is idempotent: the canonical string of a stored value is accepted and gives the same bitmap *)
Theorem C03_bits_canon_idempotent :
  forall d s bm, bits_wf d -> bits_names_ok d -> bits_store d s = Ok bm -> bits_store d (bits_canon d bm) = Ok bm.
Proof. exact bits_canon_idempotent. Qed.
Print Assumptions C03_bits_canon_idempotent.

(* every set of declared positions is the value of its canonical string *)
Theorem C03_bits_canon_store :
  forall d bm, bits_wf d -> bits_names_ok d -> bits_supp d bm -> bits_store d (bits_canon d bm) = Ok bm.
Proof. exact bits_canon_store. Qed.
Print Assumptions C03_bits_canon_store.

(* stored values only have declared positions set, and on those: equal bitmaps exactly when equal canonical strings *)
Theorem C03_bits_eq_iff_canon :
  forall d a b, bits_wf d -> bits_names_ok d -> bits_supp d a -> bits_supp d b ->
    (bits_compare a b = true <-> bits_canon d a = bits_canon d b).
Proof. exact bits_eq_iff_canon. Qed.
Print Assumptions C03_bits_eq_iff_canon.

Theorem C03_bits_store_supp :
  forall d s bm, bits_wf d -> bits_store d s = Ok bm -> bits_supp d bm.
Proof. exact bits_store_supp. Qed.
Print Assumptions C03_bits_store_supp.

(* the sort callback (memcmp over the n bitmap bytes, low positions first) is a strict total order whose equality is
   the compare callback *)
Theorem C03_bits_sort_total_order :
  forall n,
  (forall a, bits_sort n a a = Eq) /\
  (forall a b, a < 256 ^ N.of_nat n -> b < 256 ^ N.of_nat n -> (bits_sort n a b = Eq <-> bits_compare a b = true)) /\
  (forall a b, bits_sort n a b = CompOpp (bits_sort n b a)) /\
  (forall a b c, bits_sort n a b = Lt -> bits_sort n b c = Lt -> bits_sort n a c = Lt).
Proof. exact bits_sort_total_order. Qed.
Print Assumptions C03_bits_sort_total_order.

(* bits {b@0, a@2, cc@9}: the text TAB cc SP SP a LF gives positions 9 and 2, canonical string a cc; a a and zz are
   rejected *)
Example C03_bits_example :
  let d := [([98], 0); ([97], 2); ([99;99], 9)] in
  bits_wf d /\ bits_names_ok d /\
  bits_store d [9;99;99;32;32;97;10] = Ok 516 /\ bits_canon d 516 = [97;32;99;99] /\
  bits_store d [97;32;97] = Err E_VALID /\ bits_store d [122;122] = Err E_VALID /\ bits_store d [] = Ok 0 /\
  bits_canon d 0 = [].
Proof.
  cbn zeta. split; [split; repeat constructor; cbn; intuition discriminate|].
  split; [intros it [<-|[<-|[<-|[]]]]; split; cbn; (discriminate || reflexivity)|]. repeat split; reflexivity.
Qed.

(* ====================== binary (RFC 7950 9.8, RFC 4648) ====================== *)

(* decoding the RFC 4648 section 4 text of any octet string gives the octets back *)
Theorem C03_binary_decode_encode :
  forall d, bytes_ok d = true -> b64_decode (b64_encode d) = d.
Proof. exact b64_decode_encode. Qed.
Print Assumptions C03_binary_decode_encode.

(* the RFC 4648 text of every octet string whose NUMBER OF OCTETS passes the length restriction is accepted, stores
   these octets and is its own canonical string *)
Theorem C03_binary_canonical_accepted :
  forall parts d, bytes_ok d = true -> validate_range parts (Z.of_nat (length d)) = true ->
    binary_store parts (b64_encode d) = Ok (d, b64_encode d).
Proof. exact binary_encode_store. Qed.
Print Assumptions C03_binary_canonical_accepted.

(* the length restriction is checked on the decoded octets, whatever text was accepted *)
Theorem C03_binary_length_counts_octets :
  forall parts s v, binary_store parts s = Ok v -> validate_range parts (Z.of_nat (length (fst v))) = true.
Proof. exact binary_length_counts_octets. Qed.
Print Assumptions C03_binary_length_counts_octets.

(* canonicalisation is idempotent: the canonical string is accepted and gives the same value *)
Theorem C03_binary_canon_idempotent :
  forall parts s v, binary_store parts s = Ok v -> binary_store parts (binary_canon v) = Ok v.
Proof. exact binary_canon_idempotent. Qed.
Print Assumptions C03_binary_canon_idempotent.

(* the canonical string of every stored value is the RFC 4648 section 4 text of its octets: padded, zero unused
   bits, no line feeds - whatever accepted text was stored (since /repo commit c0ee3aa) *)
Theorem C03_binary_canon_is_rfc4648 :
  forall parts s v, binary_store parts s = Ok v -> binary_canon v = b64_encode (fst v) /\ bytes_ok (fst v) = true.
Proof. intros parts s v H. split; [exact (binary_canon_is_rfc4648 parts s v H)|exact (binary_store_ok parts s v H)]. Qed.
Print Assumptions C03_binary_canon_is_rfc4648.

(* two stored values are equal (same octets) exactly when their canonical strings are equal (full strength since
   /repo commit c0ee3aa; before, YQ== and YR== were a counter-example) *)
Theorem C03_binary_eq_iff_canon :
  forall parts s1 s2 a b, binary_store parts s1 = Ok a -> binary_store parts s2 = Ok b ->
    (binary_compare a b = true <-> binary_canon a = binary_canon b).
Proof. exact binary_eq_iff_canon. Qed.
Print Assumptions C03_binary_eq_iff_canon.

(* regression of the former finding binary-pad-bits: YR== and YWJ= (unused bits not zero) are accepted and get the
   canonical strings YQ== and YWI= *)
Theorem C03_binary_pad_bits_regression :
  binary_store [] [89; 82; 61; 61] = Ok ([97], [89; 81; 61; 61]) /\
  binary_store [] [89; 81; 61; 61] = Ok ([97], [89; 81; 61; 61]) /\
  binary_store [] [89; 87; 74; 61] = Ok ([97; 98], [89; 87; 73; 61]).
Proof. exact binary_pad_bits_regression. Qed.
Print Assumptions C03_binary_pad_bits_regression.

(* the sort callback (size, then memcmp) is a strict total order whose equality is the compare callback *)
Theorem C03_binary_sort_total_order :
  (forall a, binary_sort a a = Eq) /\
  (forall a b, binary_sort a b = Eq <-> binary_compare a b = true) /\
  (forall a b, binary_sort a b = CompOpp (binary_sort b a)) /\
  (forall a b c, binary_sort a b = Lt -> binary_sort b c = Lt -> binary_sort a c = Lt).
Proof. exact binary_sort_total_order. Qed.
Print Assumptions C03_binary_sort_total_order.

(* length 2..4: YWI= (2 octets, 4 characters) and YWJjZA== (4 octets, 8 characters) are accepted, YWJjZGU= (5
   octets) and YQ== (1 octet) are not; Y Q== and YQ= are no base64 *)
Example C03_binary_example :
  binary_store [(2, 4)]%Z [89;87;73;61] = Ok ([97;98], [89;87;73;61]) /\
  binary_store [(2, 4)]%Z [89;87;74;106;90;65;61;61] = Ok ([97;98;99;100], [89;87;74;106;90;65;61;61]) /\
  binary_store [(2, 4)]%Z [89;87;74;106;90;71;85;61] = Err E_RANGE /\
  binary_store [(2, 4)]%Z [89;81;61;61] = Err E_RANGE /\
  binary_store [] [89;32;81;61;61] = Err E_VALID /\ binary_store [] [89;81;61] = Err E_VALID /\
  b64_encode [97;98;99;100] = [89;87;74;106;90;65;61;61].
Proof. repeat split; vm_compute; reflexivity. Qed.

(* ====================== string length (RFC 7950 9.4.4) ====================== *)

(* on a value that passes the character check ly_utf8len is the number of characters ly_checkutf8 walks over *)
Theorem C03_strlen_counts_chars :
  forall s, bytes_ok s = true -> all_checkutf8 s = true -> utf8_chars s (utf8len s).
Proof. exact utf8len_counts_chars. Qed.
Print Assumptions C03_strlen_counts_chars.

(* a length-restricted string is accepted exactly when all its characters pass ly_checkutf8 and its number of
   CHARACTERS passes the length check; it is its own canonical string *)
Theorem C03_strlen_store_iff :
  forall parts s c, bytes_ok s = true ->
  (str_store parts s = Ok c <->
   c = s /\ all_checkutf8 s = true /\ exists n, utf8_chars s n /\ validate_range parts (Z.of_N n) = true).
Proof. exact str_store_iff. Qed.
Print Assumptions C03_strlen_store_iff.

Theorem C03_strlen_canon_idempotent :
  forall parts s c, str_store parts s = Ok c -> c = s /\ str_store parts c = Ok c.
Proof. exact str_canon_idempotent. Qed.
Print Assumptions C03_strlen_canon_idempotent.

(* the length is not the byte count: two 4-byte characters have length 2 *)
Theorem C03_strlen_not_bytes :
  str_store [(2, 5)]%Z [240;159;152;128;240;159;152;128] = Ok [240;159;152;128;240;159;152;128] /\
  utf8len [240;159;152;128;240;159;152;128] = 2 /\
  str_store [(2, 5)]%Z [97;97;97;97;97;97;97;97] = Err E_RANGE.
Proof. exact str_length_not_bytes. Qed.
Print Assumptions C03_strlen_not_bytes.

Theorem C03_strlen_sort_total_order :
  (forall a, str_sort a a = Eq) /\
  (forall a b, str_sort a b = Eq <-> str_compare a b = true) /\
  (forall a b, str_sort a b = CompOpp (str_sort b a)) /\
  (forall a b c, str_sort a b = Lt -> str_sort b c = Lt -> str_sort a c = Lt).
Proof. exact str_sort_total_order. Qed.
Print Assumptions C03_strlen_sort_total_order.

(* ====================== union (RFC 7950 9.12) ====================== *)

(* the value is stored by the first member type, in the order of the type statements, that accepts the text (with its
   restrictions); it is rejected when no member accepts it *)
Theorem C03_union_store_first :
  forall ms s i v,
  union_store ms s = Ok (i, v) <->
  exists m, nth_error ms i = Some m /\ m_store m s = Ok v /\
            forall j m', (j < i)%nat -> nth_error ms j = Some m' -> is_ok (m_store m' s) = false.
Proof. exact union_store_first. Qed.
Print Assumptions C03_union_store_first.

(* the canonical string is the member's; it is accepted again and gives a value with the same canonical string *)
Theorem C03_union_canon_idempotent :
  forall ms s v, union_store ms s = Ok v ->
    union_canon v = m_canon (snd v) /\
    exists v', union_store ms (union_canon v) = Ok v' /\ union_canon v' = union_canon v.
Proof. intros ms s v H. split; [reflexivity|exact (union_canon_idempotent ms s v H)]. Qed.
Print Assumptions C03_union_canon_idempotent.

(* equal values have equal canonical strings; for values of the same member type the converse holds *)
Theorem C03_union_eq_implies_canon :
  forall a b, union_compare a b = true -> union_canon a = union_canon b.
Proof. exact union_eq_implies_canon. Qed.
Print Assumptions C03_union_eq_implies_canon.

Theorem C03_union_eq_iff_canon_same_member :
  forall ms s1 s2 i v1 v2,
  union_store ms s1 = Ok (i, v1) -> union_store ms s2 = Ok (i, v2) ->
  (union_compare (i, v1) (i, v2) = true <-> union_canon (i, v1) = union_canon (i, v2)).
Proof. exact union_eq_iff_canon_same_member. Qed.
Print Assumptions C03_union_eq_iff_canon_same_member.

(* FINDING (union-member-eq): across member types the statement is false. union {string {length 1} | int8}: the texts
   5 and +5 are stored by different members, have the same canonical string 5, compare as different, and storing
   the canonical string of +5 gives the OTHER value *)
Theorem C03_union_eq_iff_canon_refuted :
  exists ms a b, union_store ms [53] = Ok a /\ union_store ms [43; 53] = Ok b /\
                 union_canon a = union_canon b /\ union_compare a b = false /\
                 union_store ms (union_canon b) = Ok a.
Proof. exact union_eq_iff_canon_refuted. Qed.
Print Assumptions C03_union_eq_iff_canon_refuted.

(* What does hold: when no earlier member accepts the canonical string of a value that a later member stores
   (union_separated), the canonical string is stored by the same member as the same value, and two stored values are equal
   exactly when their canonical strings are equal. The condition holds whenever only the first member is an integer type
   (enumeration and string members keep the text as canonical string); the refutation above has an integer member after a
   string member. *)
Theorem C03_union_canon_idempotent_separated :
  forall ms s v, union_separated ms -> union_store ms s = Ok v -> union_store ms (union_canon v) = Ok v.
Proof. exact union_canon_store_separated. Qed.
Print Assumptions C03_union_canon_idempotent_separated.

Theorem C03_union_eq_iff_canon_separated :
  forall ms s1 s2 a b, union_separated ms -> union_store ms s1 = Ok a -> union_store ms s2 = Ok b ->
    (union_compare a b = true <-> union_canon a = union_canon b).
Proof. exact union_eq_iff_canon_separated. Qed.
Print Assumptions C03_union_eq_iff_canon_separated.

Theorem C03_union_separated_ints_first :
  forall ms, Forall not_int (tl ms) -> union_separated ms.
Proof. exact union_separated_ints_first. Qed.
Print Assumptions C03_union_separated_ints_first.

(* the sort callback is a strict total order on the values of the union whose equality is the compare callback *)
Theorem C03_union_sort_total_order :
  forall ms, ms_wf ms ->
  (forall a, u_val_ok ms a -> union_sort a a = Eq) /\
  (forall a b, u_val_ok ms a -> u_val_ok ms b -> (union_sort a b = Eq <-> union_compare a b = true)) /\
  (forall a b, u_val_ok ms a -> u_val_ok ms b -> union_sort a b = CompOpp (union_sort b a)) /\
  (forall a b c, u_val_ok ms a -> u_val_ok ms b -> u_val_ok ms c ->
                 union_sort a b = Lt -> union_sort b c = Lt -> union_sort a c = Lt).
Proof. exact union_sort_total_order. Qed.
Print Assumptions C03_union_sort_total_order.

Theorem C03_union_store_val_ok :
  forall ms s v, union_store ms s = Ok v -> u_val_ok ms v.
Proof. exact union_store_val_ok. Qed.
Print Assumptions C03_union_store_val_ok.

(* union {int8 {range 1..10} | enumeration {auto, 11} | string {length 2..3}}: +5 -> member 0, canonical 5; 11 -> the
   enumeration (out of the int8 range); 12 -> the string; 1234 -> rejected *)
Example C03_union_example :
  let ms := [MInt I8 [(1, 10)]%Z; MEnum [([97;117;116;111], 0%Z); ([49;49], 1%Z)]; MStr [(2, 3)]%Z] in
  ms_wf ms /\
  union_store ms [43;53] = Ok (0%nat, VInt 5) /\ union_canon (0%nat, VInt 5) = [53] /\
  union_store ms [49;49] = Ok (1%nat, VEnum ([49;49], 1%Z)) /\
  union_store ms [49;50] = Ok (2%nat, VStr [49;50]) /\
  union_store ms [49;50;51;52] = Err E_VALID.
Proof.
  cbn zeta. split.
  - intros e [H|[H|[H|[]]]]; try discriminate. inversion H; subst. split; repeat constructor; cbn; intuition discriminate.
  - repeat split; vm_compute; reflexivity.
Qed.

(* ====================== inet:ipv4-prefix, host bits (RFC 6991) ====================== *)
(* Value level only: the dotted-quad text is parsed and printed by inet_pton / inet_ntop, which are not modelled;
   the canonical STRING and the other derived types are checked against an RFC 6991 reference by the DerivedRfc oracle. *)

(* bit i of the stored address is bit i of the written address when i is one of the [l] network bits, else 0 *)
Theorem C03_ipv4_prefix_host_bits_zero :
  forall a l i, l <= 32 -> N.testbit (ip4_zero_host a l) i = N.testbit a i && (32 - l <=? i) && (i <? 32).
Proof. exact ip4_zero_host_bits. Qed.
Print Assumptions C03_ipv4_prefix_host_bits_zero.

(* zeroing the host bits of a stored (canonical) address changes nothing *)
Theorem C03_ipv4_prefix_canon_idempotent :
  forall a l, ip4p_store (fst (ip4p_store a l)) l = ip4p_store a l.
Proof. intros a l. unfold ip4p_store. cbn [fst]. rewrite ip4_zero_host_idempotent. reflexivity. Qed.
Print Assumptions C03_ipv4_prefix_canon_idempotent.

(* partial (no text form): two prefixes of the same length are equal values exactly when they agree on the network bits *)
Theorem C03_ipv4_prefix_eq_iff_canon_partial :
  forall a b l, l <= 32 -> a < 4294967296 -> b < 4294967296 ->
  (ip4p_compare (ip4p_store a l) (ip4p_store b l) = true <->
   forall i, 32 - l <= i -> i < 32 -> N.testbit a i = N.testbit b i).
Proof. exact ip4p_eq_iff_network. Qed.
Print Assumptions C03_ipv4_prefix_eq_iff_canon_partial.

(* both ends of the loop: /0 stores 0.0.0.0, /32 keeps the address *)
Theorem C03_ipv4_prefix_ends :
  forall a, a < 4294967296 -> ip4_zero_host a 0 = 0 /\ ip4_zero_host a 32 = a.
Proof. exact ip4_zero_host_ends. Qed.
Print Assumptions C03_ipv4_prefix_ends.

(* 192.168.254.55/0 -> 0.0.0.0, /8 -> 192.0.0.0, /23 -> 192.168.254.0, /32 unchanged *)
Example C03_ipv4_prefix_example :
  ip4p_store 3232300599 0 = (0, 0) /\ ip4p_store 3232300599 8 = (3221225472, 8) /\
  ip4p_store 3232300599 23 = (3232300544, 23) /\ ip4p_store 3232300599 32 = (3232300599, 32).
Proof. repeat split; vm_compute; reflexivity. Qed.

(* ====================== instance-identifier / node-instance-identifier canonical string ====================== *)
(* Model IidCanon.v on top of PathQuote.v: instanceid_path2str() in the JSON / canonical format (module printed where it
   changes; key, leaf-list and position predicates; the quote chosen for EVERY predicate value) and the simple-path reader
   with inherited modules and the Literal tokenizer. seg_wf: module, node and key names are identifiers, every predicate
   value holds at most one kind of quote (a value with both cannot be written as an XPath literal, PathQuoteP). *)

(* the printed canonical string is read back as the same path *)
Theorem C03_iid_parse_print :
  forall p, Forall seg_wf p -> iid_parse (iid_print p) = Some p.
Proof. exact iid_parse_print. Qed.
Print Assumptions C03_iid_parse_print.

(* canonicalisation is idempotent: parse (print p) = p, hence print (parse (print p)) = print p *)
Theorem C03_iid_canon_idempotent :
  forall p, Forall seg_wf p ->
    iid_parse (iid_print p) = Some p /\
    match iid_parse (iid_print p) with Some q => iid_print q = iid_print p | None => False end.
Proof. intros p H. split; [exact (iid_parse_print p H)|exact (iid_canon_idempotent p H)]. Qed.
Print Assumptions C03_iid_canon_idempotent.

(* equal canonical strings denote equal paths *)
Theorem C03_iid_eq_iff_canon :
  forall p q, Forall seg_wf p -> Forall seg_wf q -> (iid_print p = iid_print q <-> p = q).
Proof. intros p q Hp Hq. split; [exact (iid_print_inj p q Hp Hq)|intros ->; reflexivity]. Qed.
Print Assumptions C03_iid_eq_iff_canon.

(* regression of the seeded change C03-8 (quote variable set once): for /m:l[a=it's][b=say "hi"]/v the as-coded
   printer round-trips, the hoisted-quote variant prints another string that is not read back as the path *)
Theorem C03_iid_hoisted_quote_refuted :
  Forall seg_wf c03_8_path /\
  iid_parse (iid_print c03_8_path) = Some c03_8_path /\
  c03_8_hoisted <> iid_print c03_8_path /\ iid_parse c03_8_hoisted <> Some c03_8_path.
Proof. exact c03_8_regression. Qed.
Print Assumptions C03_iid_hoisted_quote_refuted.

(* /m:l[a="it's"][b='say "hi"']/v, module inherited on the second node *)
Example C03_iid_example :
  iid_print c03_8_path =
    [47;109;58;108;91;97;61;34;105;116;39;115;34;93;91;98;61;39;115;97;121;32;34;104;105;34;39;93;47;118] /\
  iid_print [([109], [108], [PPos 2; PLeaf [120]]); ([110], [119], [])] = [47;109;58;108;91;50;93;91;46;61;39;120;39;93;47;110;58;119].
Proof. split; vm_compute; reflexivity. Qed.

(* ====================== identityref (RFC 7950 9.10), value level ====================== *)
(* Model IdRef.v: identityref_str2ident (prefix = bytes before the first colon; none or EMPTY = module of the leaf),
   identityref_check_base (derived from ALL bases, /repo commit f805b4f), lyplg_type_identity_isderived, canonical string
   module:name, compare = same identity, sort = strcmp of the names. JSON value format only; disabled identities, not
   implemented modules and the status check are not modelled. *)

(* the search through the derived arrays finds exactly the identities reachable by 1..fuel base statements *)
Theorem C03_idref_isderived_iff :
  forall fuel g base der,
    isderived fuel g base der = true <-> exists n, (1 <= n <= fuel)%nat /\ derives_n g n base der.
Proof. exact isderived_iff. Qed.
Print Assumptions C03_idref_isderived_iff.

(* an accepted value names an identity of the addressed module that is derived from EVERY base of the type *)
Theorem C03_idref_store_all_bases :
  forall fuel sch ctxmod bases s i,
    idref_store fuel sch ctxmod bases s = Ok i ->
    (exists ids, find_module (ids_modules sch) (fst i) = Some ids /\ existsb (beq_bytes (snd i)) ids = true) /\
    forall b, In b bases -> isderived fuel (ids_derived sch) b i = true.
Proof. exact idref_store_sound. Qed.
Print Assumptions C03_idref_store_all_bases.

(* canonicalisation is idempotent: module:name of an accepted value is accepted and gives the same identity (the module
   name holds no colon, both names are not empty) *)
Theorem C03_idref_canon_idempotent :
  forall fuel sch ctxmod bases s i,
    no_colon (fst i) -> snd i <> [] ->
    idref_store fuel sch ctxmod bases s = Ok i -> idref_store fuel sch ctxmod bases (idref_canon i) = Ok i.
Proof. exact idref_canon_idempotent. Qed.
Print Assumptions C03_idref_canon_idempotent.

(* two identities are equal exactly when their canonical strings are equal *)
Theorem C03_idref_eq_iff_canon :
  forall a b, no_colon (fst a) -> no_colon (fst b) -> (idref_compare a b = true <-> idref_canon a = idref_canon b).
Proof. exact idref_eq_iff_canon. Qed.
Print Assumptions C03_idref_eq_iff_canon.

(* the sort callback (names only) is a strict total order whose equality is the compare callback among identities of ONE
   module; across modules it is not (model level: C03_idref_sort_refuted; not exercised against the library) *)
Theorem C03_idref_sort_total_order :
  (forall a, idref_sort a a = Eq) /\
  (forall a b, fst a = fst b -> (idref_sort a b = Eq <-> idref_compare a b = true)) /\
  (forall a b, idref_sort a b = CompOpp (idref_sort b a)) /\
  (forall a b c, idref_sort a b = Lt -> idref_sort b c = Lt -> idref_sort a c = Lt).
Proof. exact idref_sort_total_order. Qed.
Print Assumptions C03_idref_sort_total_order.

Theorem C03_idref_sort_refuted :
  exists a b, idref_sort a b = Eq /\ idref_compare a b = false /\ idref_canon a <> idref_canon b.
Proof. exact idref_sort_refuted. Qed.
Print Assumptions C03_idref_sort_refuted.

(* regression of the fixed defect idref-any-base (f805b4f; seeded change C02-7) on the identities of the test module:
   ia {base ba;} is rejected for identityref {base ba; base bb;}, the any-base variant accepts it *)
Theorem C03_idref_any_base_refuted :
  idref_store 8 types2_schema T2M types2_bases n_ia = Err E_VALID /\
  idref_store_any_base 8 types2_schema T2M types2_bases n_ia = Ok (idn n_ia) /\
  idref_store 8 types2_schema T2M types2_bases n_iab = Ok (idn n_iab) /\
  idref_store 8 types2_schema T2M types2_bases (T2M ++ 58 :: n_iab2) = Ok (idn n_iab2) /\
  idref_canon (idn n_iab2) = T2M ++ 58 :: n_iab2.
Proof. exact idref_any_base_regression. Qed.
Print Assumptions C03_idref_any_base_refuted.

(* known finding idref-empty-prefix, as coded: the value :iab is accepted as types2:iab although its prefix is empty *)
Theorem C03_idref_empty_prefix_refuted :
  idref_store 8 types2_schema T2M types2_bases (58 :: n_iab) = Ok (idn n_iab) /\
  ~ no_colon (fst (idref_split (58 :: n_iab))) /\ idref_canon (idn n_iab) <> 58 :: n_iab.
Proof. exact idref_empty_prefix_refuted. Qed.
Print Assumptions C03_idref_empty_prefix_refuted.
