From LY Require Import Base Utf8 Utf8P XmlText XmlTextP JsonText JsonTextP StdText StdTextP Tree TreeP XmlDoc XmlDocP JsonDoc JsonDocP.
From Coq Require Import ZifyBool ZifyNat ZifyN.
Local Open Scope N_scope.

(* ====================================================================================== *)
(* the state machine of printer_json.c prints the rendering of the RFC 7951 value          *)
(* ====================================================================================== *)
Ltac fin_pair := apply f_equal2; [norm_app; rewrite ?app_nil_r; reflexivity|reflexivity].

Section Equiv.
  Variable sch : schema.
  Variable t : doctabs.
  Variable jk : list (sid * jkind).

  Variable sel : dnode -> bool.

  Notation jn := (json_node sch t jk sel).
  Notation jsib := (json_siblings sch t jk sel).

  (* siblings [a] followed by the siblings [b] (which the nodes of [a] see as following nodes) *)
  Fixpoint sibs (par : option N) (prev a b : list dnode) (st : jst) : bytes * jst :=
    match a with
    | [] => ([], st)
    | c :: a' =>
        let '(o1, s1) := jn par prev (a' ++ b) st c in
        let '(o2, s2) := sibs par (c :: prev) a' b s1 in
        (o1 ++ o2, s2)
    end.

  Lemma jsib_sibs par prev l st : jsib par prev l st = sibs par prev l [] st.
  Proof.
    revert prev st. induction l as [|c l IH]; intros prev st; [reflexivity|].
    cbn [json_siblings sibs]. rewrite app_nil_r. destruct (jn par prev l st c) as [o1 s1]. rewrite IH. reflexivity.
  Qed.

  Lemma sibs_app par a1 : forall prev a2 b st,
    sibs par prev (a1 ++ a2) b st =
    let '(o1, s1) := sibs par prev a1 (a2 ++ b) st in
    let '(o2, s2) := sibs par (rev a1 ++ prev) a2 b s1 in
    (o1 ++ o2, s2).
  Proof.
    induction a1 as [|c a1 IH]; intros prev a2 b st.
    - cbn [app sibs rev]. destruct (sibs par prev a2 b st). reflexivity.
    - cbn [app sibs]. rewrite <- app_assoc. destruct (jn par prev (a1 ++ a2 ++ b) st c) as [o1 s1].
      rewrite IH. destruct (sibs par (c :: prev) a1 (a2 ++ b) s1) as [o2 s2].
      cbn [rev]. rewrite <- app_assoc. cbn [app].
      destruct (sibs par (rev a1 ++ c :: prev) a2 b s2) as [o3 s3]. rewrite app_assoc. reflexivity.
  Qed.

  (* json_print_node(): the pending metadata of a leaf-list is written when the next sibling is not an instance of it *)
  Definition flushf (par : option N) (nexts : list dnode) (o : bytes) (st2 : jst) : bytes * jst :=
    match j_first st2 with
    | Some run =>
        let fs := match run with x :: _ => d_sid x | [] => 0 end in
        if match nexts with x :: _ => d_sid x =? fs | [] => false end then (o, st2)
        else let '(o', st3) := jmeta_arr t sel st2 par run in (o ++ o', st_first st3 None)
    | None => (o, st2)
    end.

  (* unfolding of the node printer: a node that is not printed *)
  Lemma json_node_unsel par prev nexts st n :
    sel n = false ->
    jn par prev nexts st n =
      if is_open st (d_sid n) && negb (match nexts with x :: _ => d_sid x =? d_sid n | [] => false end)
      then flushf par nexts [93] (st_printed (st_close (st_dec st))) else flushf par nexts [] st.
  Proof. intro H. destruct n as [s v d m ch]. cbn [json_node d_sid]. rewrite H. reflexivity. Qed.

  (* ... and a node that is printed *)
  Lemma json_node_all par prev nexts st s v d m ch :
    sel (DN s v d m ch) = true ->
    jn par prev nexts st (DN s v d m ch) =
    let next_same := match nexts with x :: _ => d_sid x =? s | [] => false end in
    let inner (st : jst) : bytes * jst :=
      let o0 := (if is_open st s && (j_level st <=? j_lp st) then [44] else []) ++ [123] in
      let '(o1, st1) := jattrs t (st_inc st) par s m true in
      let '(o2, st2) := jsib (Some (node_mod t s)) [] ch st1 in
      (o0 ++ o1 ++ o2 ++ [125], st_printed (st_dec st2)) in
    let close_if_last (st : jst) : bytes * jst :=
      if is_open st s && negb next_same then ([93], st_close (st_dec st)) else ([], st) in
    let '(o, st1) :=
      match kind_of sch s with
      | KCont _ =>
          let o1 := jmember t st par s false in
          let '(o2, st2) := inner st in (o1 ++ o2, st2)
      | KLeaf =>
          let o1 := jmember t st par s false ++ jvalue_bytes (jkind_of jk s) v in
          let '(o2, st2) := jattrs t (st_printed st) par s m false in (o1 ++ o2, st2)
      | KList =>
          let '(o1, sta) :=
            if is_open st s then ([], st) else (jmember t st par s false ++ [91], st_inc (st_open st s)) in
          let '(o2, stb) := inner sta in
          let '(o3, stc) := close_if_last stb in
          (o1 ++ o2 ++ o3, stc)
      | KLeafList =>
          let '(o1, sta) :=
            if is_open st s then ([44], st) else (jmember t st par s false ++ [91], st_inc (st_open st s)) in
          let o2 := jvalue_bytes (jkind_of jk s) v in
          let stb := match j_first sta, m with
                     | None, _ :: _ => st_first sta (Some (run_of prev (DN s v d m ch) nexts))
                     | _, _ => sta
                     end in
          let '(o3, stc) := close_if_last stb in
          (o1 ++ o2 ++ o3, stc)
      | KAny => (jmember t st par s false ++ [123; 125], st_printed st)
      end in
    flushf par nexts o (st_printed st1).
  Proof.
    intro Hsel. cbn [json_node]. rewrite Hsel. cbn [negb]. unfold flushf.
    match goal with |- context[(fix go (prev : list dnode) (l : list dnode) (st : jst) {struct l} : bytes * jst := _)] =>
      set (go := (fix go (prev : list dnode) (l : list dnode) (st : jst) {struct l} : bytes * jst := _)) end.
    assert (E : forall l prev st, go prev l st = jsib (Some (node_mod t s)) prev l st).
    { induction l as [|c l IH]; intros pv st0; [reflexivity|].
      unfold go at 1. cbn fix beta iota. fold go. cbn [json_siblings].
      destruct (jn (Some (node_mod t s)) pv l st0 c) as [a sta]. rewrite IH. reflexivity. }
    cbv zeta. destruct (kind_of sch s); try reflexivity.
    - destruct (jattrs t (st_inc st) par s m true) as [o1 st1]. rewrite E. reflexivity.
    - destruct (is_open st s).
      + destruct (jattrs t (st_inc st) par s m true) as [o1 st1]. rewrite E. reflexivity.
      + destruct (jattrs t (st_inc (st_inc (st_open st s))) par s m true) as [o1 st1]. rewrite E. reflexivity.
  Qed.

  (* ---------- rendering lemmas ---------- *)
  Lemma jr_members_app a b first :
    jr_members (a ++ b) first = jr_members a first ++ jr_members b (first && isnil a).
  Proof.
    revert first. induction a as [|[k x] a IH]; intro first; [cbn [app jr_members isnil]; rewrite andb_true_r; reflexivity|].
    cbn [app jr_members isnil]. rewrite IH, andb_false_r. cbn [andb]. norm_app. reflexivity.
  Qed.

  Lemma jr_elems_app a b first :
    jr_elems (a ++ b) first = jr_elems a first ++ jr_elems b (first && isnil a).
  Proof.
    revert first. induction a as [|x a IH]; intro first; [cbn [app jr_elems isnil]; rewrite andb_true_r; reflexivity|].
    cbn [app jr_elems isnil]. rewrite IH, andb_false_r. cbn [andb]. norm_app. reflexivity.
  Qed.

  Definition mk_clean (l : N) (o : list sid) : jst := mk_jst l l o None.

  Lemma st_printed_idem st : st_printed (st_printed st) = st_printed st.
  Proof. reflexivity. Qed.

  Lemma jcomma_printed st : jcomma (st_printed st) = [44].
  Proof. unfold jcomma, st_printed. cbn [j_level j_lp]. rewrite N.leb_refl. reflexivity. Qed.

  Definition meta_members (m : list (bytes * bytes)) : list (bytes * jval) :=
    map (fun kv : bytes * bytes => (fst kv, JVstr (snd kv))) m.

  Lemma jmetas_render m : forall st,
    jmetas st m = (jr_members (meta_members m) (negb (j_level st <=? j_lp st)),
                   match m with [] => st | _ => st_printed st end).
  Proof.
    induction m as [|[k v] m IH]; intro st; [reflexivity|].
    cbn [jmetas meta_members map jr_members fst snd]. rewrite IH. cbn [st_printed j_level j_lp]. rewrite N.leb_refl. cbn [negb].
    unfold jcomma. destruct (j_level st <=? j_lp st); cbn [negb app]; rewrite <- ?app_assoc; cbn [app];
      (destruct m; [reflexivity|reflexivity]).
  Qed.

  Lemma jrender_meta_obj m : jrender (jmeta_obj m) = 123 :: jr_members (meta_members m) true ++ [125].
  Proof. unfold jmeta_obj. rewrite jrender_obj. reflexivity. Qed.

  (* the invariant of the counters: nothing is marked printed below the current level *)
  Definition lp_ok (st : jst) : Prop := j_lp st <= j_level st.

  Lemma jattrs_inner st par s m :
    lp_ok st -> m <> [] ->
    jattrs t st par s m true =
      (jcomma st ++ [34; 64; 34; 58] ++ jrender (jmeta_obj m), mk_jst (j_level st) (j_level st) (j_open st) (j_first st)).
  Proof.
    intros Hl Hm. destruct m as [|kv m']; [contradiction|]. unfold jattrs. rewrite jmetas_render.
    cbn [st_inc j_level j_lp]. unfold lp_ok in Hl.
    assert (E : (j_level st + 1 <=? j_lp st) = false) by lia. rewrite E. cbn [negb].
    rewrite jrender_meta_obj.
    assert (Es : st_printed (st_dec (st_printed (st_inc st))) = mk_jst (j_level st) (j_level st) (j_open st) (j_first st)).
    { unfold st_printed, st_dec, st_inc. cbn [j_level j_lp j_open j_first]. rewrite N.add_sub. reflexivity. }
    rewrite Es. apply (f_equal (fun x => (x, mk_jst (j_level st) (j_level st) (j_open st) (j_first st)))). norm_app. reflexivity.
  Qed.

  Lemma jattrs_leaf st par s m :
    lp_ok st -> m <> [] ->
    jattrs t st par s m false =
      (jmember t st par s true ++ jrender (jmeta_obj m), mk_jst (j_level st) (j_level st) (j_open st) (j_first st)).
  Proof.
    intros Hl Hm. destruct m as [|kv m']; [contradiction|]. unfold jattrs. rewrite jmetas_render.
    cbn [st_inc j_level j_lp]. unfold lp_ok in Hl.
    assert (E : (j_level st + 1 <=? j_lp st) = false) by lia. rewrite E. cbn [negb].
    rewrite jrender_meta_obj.
    assert (Es : st_printed (st_dec (st_printed (st_inc st))) = mk_jst (j_level st) (j_level st) (j_open st) (j_first st)).
    { unfold st_printed, st_dec, st_inc. cbn [j_level j_lp j_open j_first]. rewrite N.add_sub. reflexivity. }
    rewrite Es. apply (f_equal (fun x => (x, mk_jst (j_level st) (j_level st) (j_open st) (j_first st)))). norm_app. reflexivity.
  Qed.

  Lemma jattrs_nil st par s inner : jattrs t st par s [] inner = ([], st).
  Proof. reflexivity. Qed.

  Lemma jvalue_render SV k v : jterm_ok SV k v -> jvalue_bytes k v = jrender (jval_of_term k v).
  Proof.
    destruct k; cbn [jterm_ok jvalue_bytes jval_of_term].
    - reflexivity.
    - intros (_ & _ & Hne). destruct v; [contradiction|reflexivity].
    - intros [->| ->]; reflexivity.
    - intros ->. reflexivity.
  Qed.

  (* ---------- one node ---------- *)
  (* the member name: json_print_member() asks LEVEL == 1 or json_nscmp(); they agree when only top-level nodes are at
     level 1 *)
  Definition Q (l : N) (par : option N) : Prop := l = 1 -> par = None.

  Lemma jmember_key st par s attr :
    Q (j_level st) par ->
    jmember t st par s attr = jcomma st ++ 34 :: (if attr then [64] else []) ++ mname t par s ++ [34; 58].
  Proof.
    intro HQ. unfold jmember, mname, mod_name.
    assert (E : (j_level st =? 1) || match par with None => true | Some pm => negb (pm =? node_mod t s) end =
                match par with None => true | Some m => negb (m =? node_mod t s) end).
    { destruct (j_level st =? 1) eqn:E1; [|reflexivity]. apply N.eqb_eq in E1. rewrite (HQ E1). reflexivity. }
    rewrite E. destruct (match par with None => true | Some m => negb (m =? node_mod t s) end); norm_app; reflexivity.
  Qed.

  (* json_print_inner() *)
  Definition inner_out (par : option N) (st : jst) (n : dnode) : bytes * jst :=
    match n with
    | DN s v d m ch =>
        let o0 := (if is_open st s && (j_level st <=? j_lp st) then [44] else []) ++ [123] in
        let '(o1, st1) := jattrs t (st_inc st) par s m true in
        let '(o2, st2) := jsib (Some (node_mod t s)) [] ch st1 in
        (o0 ++ o1 ++ o2 ++ [125], st_printed (st_dec st2))
    end.

  Definition no_first (st : jst) : Prop := j_first st = None.

  Lemma node_leaf par prev nexts st s v d m ch :
    sel (DN s v d m ch) = true -> kind_of sch s = KLeaf -> no_first st ->
    jn par prev nexts st (DN s v d m ch) =
      let o1 := jmember t st par s false ++ jvalue_bytes (jkind_of jk s) v in
      let '(o2, st2) := jattrs t (st_printed st) par s m false in
      (o1 ++ o2, st_printed st2).
  Proof.
    intros Hsel Hk Hf. rewrite (json_node_all _ _ _ _ _ _ _ _ _ Hsel), Hk. cbv zeta. unfold flushf.
    assert (E : j_first (st_printed (snd (jattrs t (st_printed st) par s m false))) = None).
    { destruct m as [|kv m']; [exact Hf|]. unfold jattrs. rewrite jmetas_render. cbn [snd]. exact Hf. }
    destruct (jattrs t (st_printed st) par s m false) as [o2 st2]. cbn [snd] in E. rewrite E. reflexivity.
  Qed.

  Lemma inner_first par st n : j_first (snd (inner_out par st n)) = j_first (snd (jsib (Some (node_mod t (d_sid n))) [] (d_ch n)
                                  (snd (jattrs t (st_inc st) par (d_sid n) (d_meta n) true)))).
  Proof.
    destruct n as [s v d m ch]. cbn [inner_out d_sid d_ch d_meta].
    destruct (jattrs t (st_inc st) par s m true) as [o1 st1]. cbn [snd].
    destruct (jsib (Some (node_mod t s)) [] ch st1) as [o2 st2]. reflexivity.
  Qed.

  Lemma node_cont par prev nexts st s v d m ch pr :
    sel (DN s v d m ch) = true -> kind_of sch s = KCont pr ->
    j_first (snd (inner_out par st (DN s v d m ch))) = None ->
    jn par prev nexts st (DN s v d m ch) =
      let '(o2, st2) := inner_out par st (DN s v d m ch) in (jmember t st par s false ++ o2, st_printed st2).
  Proof.
    intros Hsel Hk Hf. rewrite (json_node_all _ _ _ _ _ _ _ _ _ Hsel), Hk. cbv zeta. unfold flushf. cbn [inner_out] in Hf |- *.
    destruct (jattrs t (st_inc st) par s m true) as [o1 st1].
    destruct (jsib (Some (node_mod t s)) [] ch st1) as [o2 st2]. cbn [snd] in Hf.
    assert (E : j_first (st_printed (st_printed (st_dec st2))) = None) by exact Hf. rewrite E. reflexivity.
  Qed.

  Lemma node_list par prev nexts st s v d m ch :
    sel (DN s v d m ch) = true -> kind_of sch s = KList ->
    let next_same := match nexts with x :: _ => d_sid x =? s | [] => false end in
    let '(o1, sta) := if is_open st s then ([], st) else (jmember t st par s false ++ [91], st_inc (st_open st s)) in
    j_first (snd (inner_out par sta (DN s v d m ch))) = None ->
    jn par prev nexts st (DN s v d m ch) =
      let '(o2, stb) := inner_out par sta (DN s v d m ch) in
      let '(o3, stc) := if is_open stb s && negb next_same then ([93], st_close (st_dec stb)) else ([], stb) in
      (o1 ++ o2 ++ o3, st_printed stc).
  Proof.
    intros Hsel Hk next_same. rewrite (json_node_all _ _ _ _ _ _ _ _ _ Hsel), Hk. cbv zeta. unfold flushf. fold next_same.
    destruct (is_open st s).
    - cbn [inner_out]. destruct (jattrs t (st_inc st) par s m true) as [o1 st1].
      destruct (jsib (Some (node_mod t s)) [] ch st1) as [o2 st2]. cbn [snd]. intro Hf.
      destruct (is_open (st_printed (st_dec st2)) s && negb next_same).
      + assert (E : j_first (st_printed (st_close (st_dec (st_printed (st_dec st2))))) = None) by exact Hf. rewrite E. reflexivity.
      + assert (E : j_first (st_printed (st_printed (st_dec st2))) = None) by exact Hf. rewrite E. reflexivity.
    - cbn [inner_out]. destruct (jattrs t (st_inc (st_inc (st_open st s))) par s m true) as [o1 st1].
      destruct (jsib (Some (node_mod t s)) [] ch st1) as [o2 st2]. cbn [snd]. intro Hf.
      destruct (is_open (st_printed (st_dec st2)) s && negb next_same).
      + assert (E : j_first (st_printed (st_close (st_dec (st_printed (st_dec st2))))) = None) by exact Hf. rewrite E. reflexivity.
      + assert (E : j_first (st_printed (st_printed (st_dec st2))) = None) by exact Hf. rewrite E. reflexivity.
  Qed.

End Equiv.
