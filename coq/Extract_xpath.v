(* Extract_xpath.v — extraction of the xpath slice (XPathConv, XPathTree, XPathSem, XPathLookup) to OCaml; see Extract_xml.v. *)
From Coq Require Extraction ExtrOcamlBasic.
From Coq Require Import QArith.
From LY Require Import Base XPathConv XPathTree XPathSem XPathLookup.
Extraction Language OCaml.
Extraction "model_xpath.ml"
  N.add N.mul N.div N.modulo N.sub Z.add Z.mul Z.opp Z.of_N Z.abs_N Z.sub Z.ltb Z.pow Z.log2 Z.even Z.abs Z.to_N Z.eqb Z.div Z.modulo Qreduction.Qred
  XPathConv.spec_s2n XPathConv.impl_s2n XPathConv.spec_n2s XPathConv.impl_n2s XPathConv.q_is_zero
  XPathTree.index_tree XPathTree.all_items XPathTree.item_key XPathTree.sorted_items
  XPathSem.eval_top XPathSem.spec_flags XPathSem.impl_flags XPathLookup.lookup_answer_top.
