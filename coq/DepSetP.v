(* DepSetP.v — proofs about DepSet.v: the dependency set is closed under the import relation (both directions) along
   chains through modules that are traversed. *)
From LY Require Import Base DepSet.
From Coq Require Import ZifyBool ZifyNat Arith.

Definition vis (s : st) (x : nat) : Prop := In x (s_dep s) \/ In x (s_aux s).

(* a module the traversal enters: not a single-module set, or one that other modules may depend on through *)
Definition can (c : ctxt) (x : nat) : Prop :=
  x < length c /\ (is_single (get c x) = false \/ has_dep (get c x) = true).

(* neighbours in the import graph, both directions *)
Definition nbr (c : ctxt) (x y : nat) : Prop :=
  In y (m_imports (get c x)) \/ (y < length c /\ In x (m_imports (get c y))).

Definition Inv (c : ctxt) (s : st) : Prop :=
  (forall x, x < length c -> is_single (get c x) = false -> In x (s_ctx s) \/ In x (s_dep s)) /\
  (forall x, In x (s_aux s) -> is_single (get c x) = true).

Lemma mem_In x l : mem x l = true <-> In x l.
Proof.
  unfold mem. rewrite existsb_exists. split.
  - intros [y [Hy He]]. apply Nat.eqb_eq in He. subst. exact Hy.
  - intro H. exists x. split; [exact H|apply Nat.eqb_refl].
Qed.

Lemma remove1_In x y l : In y l -> y <> x -> In y (remove1 x l).
Proof.
  unfold remove1. intros H Hn. apply filter_In. split; [exact H|].
  destruct (Nat.eqb x y) eqn:He; [apply Nat.eqb_eq in He; congruence|reflexivity].
Qed.

Lemma vis_dec s x : {vis s x} + {~ vis s x}.
Proof.
  unfold vis. destruct (in_dec Nat.eq_dec x (s_dep s)); [left; tauto|].
  destruct (in_dec Nat.eq_dec x (s_aux s)); [left; tauto|right; tauto].
Qed.

Lemma importers_In c m y : In y (importers c m) <-> y < length c /\ In m (m_imports (get c y)).
Proof.
  unfold importers. rewrite filter_In, in_seq, mem_In. split; intros [H1 H2]; split; auto; lia.
Qed.

(* the out-of-fuel flag is sticky *)
Lemma flag_sticky f : forall c m s, s_fuel_out s = true -> s_fuel_out (dep_r f c m s) = true.
Proof.
  induction f as [|f IH]; intros c m s H; cbn [dep_r]; [reflexivity|].
  assert (Hfold : forall l s0, s_fuel_out s0 = true -> s_fuel_out (fold_left (fun acc i => dep_r f c i acc) l s0) = true).
  { induction l as [|i l IHl]; intros s0 H0; cbn [fold_left]; [exact H0|]. apply IHl. apply IH. exact H0. }
  destruct (is_single (get c m)).
  - destruct (negb (has_dep (get c m))); [exact H|]. destruct (mem m (s_aux s)); [exact H|].
    apply Hfold. apply Hfold. exact H.
  - destruct (negb (mem m (s_ctx s))); [exact H|]. apply Hfold. apply Hfold. exact H.
Qed.

Definition spec (c : ctxt) (s s' : st) (targets : nat -> Prop) : Prop :=
  Inv c s' /\ (forall x, vis s x -> vis s' x) /\ (forall i, targets i -> can c i -> vis s' i) /\
  (forall x, vis s' x -> ~ vis s x -> forall y, nbr c x y -> can c y -> vis s' y) /\ s_fuel_out s = false.

Lemma fold_spec f c :
  (forall m s, Inv c s -> s_fuel_out (dep_r f c m s) = false -> spec c s (dep_r f c m s) (fun i => i = m)) ->
  forall l s, Inv c s -> s_fuel_out (fold_left (fun acc i => dep_r f c i acc) l s) = false ->
  spec c s (fold_left (fun acc i => dep_r f c i acc) l s) (fun i => In i l).
Proof.
  intro P. induction l as [|i l IH]; intros s Hinv Hflag; cbn [fold_left] in *.
  - unfold spec. repeat split; try tauto; try apply Hinv. intros i [].
  - set (s1 := dep_r f c i s) in *.
    assert (Hf1 : s_fuel_out s1 = false).
    { destruct (s_fuel_out s1) eqn:E; [|reflexivity].
      assert (Hs : forall l0 s0, s_fuel_out s0 = true -> s_fuel_out (fold_left (fun acc i0 => dep_r f c i0 acc) l0 s0) = true).
      { induction l0 as [|j l0 IHl]; intros s0 H0; cbn [fold_left]; [exact H0|]. apply IHl. apply flag_sticky. exact H0. }
      rewrite (Hs l s1 E) in Hflag. discriminate. }
    destruct (P i s Hinv Hf1) as (I1 & M1 & T1 & C1 & F1).
    destruct (IH s1 I1 Hflag) as (I2 & M2 & T2 & C2 & F2).
    unfold spec. split; [exact I2|]. split; [intros x Hx; apply M2; apply M1; exact Hx|]. split.
    + intros j [Hj|Hj] Hc; [subst j; apply M2; apply T1; [reflexivity|exact Hc]|exact (T2 j Hj Hc)].
    + split; [|exact F1]. intros x Hx Hn y Hy Hc.
      destruct (vis_dec s1 x) as [Hv|Hv].
      * apply M2. exact (C1 x Hv Hn y Hy Hc).
      * exact (C2 x Hx Hv y Hy Hc).
Qed.

Lemma dep_r_spec f : forall c m s,
  Inv c s -> s_fuel_out (dep_r f c m s) = false -> spec c s (dep_r f c m s) (fun i => i = m).
Proof.
  induction f as [|f IH]; intros c m s Hinv Hflag; [cbn [dep_r s_fuel_out] in Hflag; discriminate|].
  pose proof (fold_spec f c (IH c)) as FS.
  cbn [dep_r] in *.
  assert (Hnone : (can c m -> vis s m) -> s_fuel_out s = false -> spec c s s (fun i => i = m)).
  { intros Hv Hf. unfold spec. repeat split; try tauto; try apply Hinv. intros i -> Hc. exact (Hv Hc). }
  assert (Hsome : forall s1, Inv c s1 -> s_fuel_out s1 = s_fuel_out s -> (forall x, vis s1 x <-> vis s x \/ x = m) ->
            s_fuel_out (fold_left (fun acc i => dep_r f c i acc) (importers c m)
                          (fold_left (fun acc i => dep_r f c i acc) (m_imports (get c m)) s1)) = false ->
            spec c s (fold_left (fun acc i => dep_r f c i acc) (importers c m)
                        (fold_left (fun acc i => dep_r f c i acc) (m_imports (get c m)) s1)) (fun i => i = m)).
  { intros s1 I1 Fl1 V1 Hfl.
    set (s2 := fold_left (fun acc i => dep_r f c i acc) (m_imports (get c m)) s1) in *.
    assert (Hf2 : s_fuel_out s2 = false).
    { destruct (s_fuel_out s2) eqn:E; [|reflexivity].
      assert (Hs : forall l0 s0, s_fuel_out s0 = true -> s_fuel_out (fold_left (fun acc i0 => dep_r f c i0 acc) l0 s0) = true).
      { induction l0 as [|j l0 IHl]; intros s0 H0; cbn [fold_left]; [exact H0|]. apply IHl. apply flag_sticky. exact H0. }
      rewrite (Hs _ s2 E) in Hfl. discriminate. }
    destruct (FS (m_imports (get c m)) s1 I1 Hf2) as (I2 & M2 & T2 & C2 & F2).
    destruct (FS (importers c m) s2 I2 Hfl) as (I3 & M3 & T3 & C3 & F3).
    unfold spec. split; [exact I3|]. split; [intros x Hx; apply M3, M2, V1; left; exact Hx|]. split.
    - intros i -> _. apply M3, M2, V1. right. reflexivity.
    - split; [|rewrite <- Fl1; exact F2]. intros x Hx Hn y Hy Hc.
      destruct (Nat.eq_dec x m) as [->|Hne].
      + destruct Hy as [Hy|[Hl Hy]].
        * apply M3. exact (T2 y Hy Hc).
        * apply (T3 y); [apply importers_In; auto|exact Hc].
      + assert (Hn1 : ~ vis s1 x) by (rewrite V1; tauto).
        destruct (vis_dec s2 x) as [Hv|Hv].
        * apply M3. exact (C2 x Hv Hn1 y Hy Hc).
        * exact (C3 x Hx Hv y Hy Hc). }
  destruct Hinv as [Hpart Haux].
  destruct (is_single (get c m)) eqn:Hs.
  - destruct (negb (has_dep (get c m))) eqn:Hd.
    + apply Hnone; [|exact Hflag]. intros [_ [H|H]]; [congruence|]. rewrite H in Hd. discriminate.
    + destruct (mem m (s_aux s)) eqn:Hm.
      * apply Hnone; [|exact Hflag]. intros _. right. apply mem_In. exact Hm.
      * apply Hsome; try exact Hflag; [|reflexivity|].
        -- split; cbn [s_ctx s_dep s_aux]; [exact Hpart|]. intros x Hx. apply in_app_or in Hx.
           destruct Hx as [Hx|[<-|[]]]; [exact (Haux x Hx)|exact Hs].
        -- intro x. unfold vis. cbn [s_dep s_aux]. rewrite in_app_iff. cbn [In]. split; [intros [H|[H|[H|[]]]]; auto|].
           intros [[H|H]|H]; auto.
  - destruct (negb (mem m (s_ctx s))) eqn:Hm.
    + apply Hnone; [|exact Hflag]. intros [Hl _]. destruct (Hpart m Hl Hs) as [H|H]; [|left; exact H].
      apply mem_In in H. rewrite H in Hm. discriminate.
    + apply Hsome; try exact Hflag; [|reflexivity|].
      * split; cbn [s_ctx s_dep s_aux]; [|exact Haux]. intros x Hl Hx.
        destruct (Nat.eq_dec x m) as [->|Hne]; [right; apply in_or_app; right; left; reflexivity|].
        destruct (Hpart x Hl Hx) as [H|H]; [left; apply remove1_In; assumption|right; apply in_or_app; left; exact H].
      * intro x. unfold vis. cbn [s_dep s_aux]. rewrite in_app_iff. cbn [In]. split; [intros [[H|[H|[]]]|H]; auto|].
        intros [[H|H]|H]; auto.
Qed.

(* chains from the module: every step goes to a neighbour that is traversed *)
Inductive reach (c : ctxt) (m : nat) : nat -> Prop :=
| ReachRefl : reach c m m
| ReachStep x y : reach c m x -> nbr c x y -> can c y -> reach c m y.

Theorem dep_set_closed c m y :
  m < length c -> is_single (get c m) = false -> dep_fuel_out c m = false ->
  reach c m y -> is_single (get c y) = false -> In y (dep_set_of c m).
Proof.
  intros Hm Hs Hfuel Hr Hy. unfold dep_set_of, dep_fuel_out in *.
  set (ctx_set := filter (fun i => negb (is_single (get c i))) (seq 0 (length c))) in *.
  assert (Hin : mem m ctx_set = true).
  { apply mem_In. unfold ctx_set. apply filter_In. split; [apply in_seq; lia|rewrite Hs; reflexivity]. }
  rewrite Hin. cbn [negb].
  set (s0 := Build_st ctx_set [] [] false) in *.
  assert (I0 : Inv c s0).
  { split; cbn [s_ctx s_dep s_aux]; [|intros x []]. intros x Hl Hx. left. unfold ctx_set. apply filter_In.
    split; [apply in_seq; lia|rewrite Hx; reflexivity]. }
  destruct (dep_r_spec (S (length c)) c m s0 I0 Hfuel) as (I1 & M1 & T1 & C1 & _).
  assert (Hv : vis (dep_r (S (length c)) c m s0) y).
  { induction Hr as [|x y Hr IHr Hn Hc].
    - apply (T1 m eq_refl). split; [exact Hm|left; exact Hs].
    - assert (Hx : vis (dep_r (S (length c)) c m s0) x).
      { destruct (Nat.eq_dec x m) as [->|Hne]; [apply (T1 m eq_refl); split; [exact Hm|left; exact Hs]|].
        (* x is traversed: it was reached through a step into a module that can be entered, or it is the start *)
        clear IHr Hn Hc Hy y. induction Hr as [|x0 x1 Hr0 IH0 Hn0 Hc0]; [congruence|].
        assert (Hx0 : vis (dep_r (S (length c)) c m s0) x0).
        { destruct (Nat.eq_dec x0 m) as [->|Hne0]; [apply (T1 m eq_refl); split; [exact Hm|left; exact Hs]|exact (IH0 Hne0)]. }
        apply (C1 x0 Hx0); [intros [[]|[]]|exact Hn0|exact Hc0]. }
      apply (C1 x Hx); [intros [[]|[]]|exact Hn|exact Hc]. }
  destruct Hv as [Hd|Ha]; [exact Hd|]. destruct I1 as [_ Haux]. rewrite (Haux y Ha) in Hy. discriminate.
Qed.

(* ---------- the fuel suffices ---------- *)
Definition pend (c : ctxt) (aux : list nat) (x : nat) : bool :=
  is_single (get c x) && has_dep (get c x) && negb (mem x aux).
Definition todo (c : ctxt) (s : st) : nat :=
  length (s_ctx s) + length (filter (pend c (s_aux s)) (seq 0 (length c))).

Lemma filter_lt {A} (p q : A -> bool) (l : list A) m :
  (forall x, q x = true -> p x = true) -> In m l -> p m = true -> q m = false ->
  length (filter q l) < length (filter p l).
Proof.
  intros Hqp. induction l as [|a l IH]; intros Hin Hp Hq; [destruct Hin|].
  assert (Hle : forall l0, length (filter q l0) <= length (filter p l0)).
  { induction l0 as [|b l0 IHl]; cbn [filter]; [lia|].
    destruct (q b) eqn:Eq; [rewrite (Hqp b Eq); cbn [length]; lia|]. destruct (p b); cbn [length]; lia. }
  cbn [filter]. destruct Hin as [->|Hin].
  - rewrite Hp, Hq. cbn [length]. specialize (Hle l). lia.
  - specialize (IH Hin Hp Hq). destruct (q a) eqn:Eq; [rewrite (Hqp a Eq); cbn [length]; lia|].
    destruct (p a); cbn [length]; lia.
Qed.

Lemma filter_disjoint_le {A} (p q : A -> bool) (l : list A) :
  (forall x, p x = true -> q x = false) -> length (filter p l) + length (filter q l) <= length l.
Proof.
  intro H. induction l as [|a l IH]; cbn [filter length]; [lia|].
  destruct (p a) eqn:Ep; [rewrite (H a Ep); cbn [length]; lia|]. destruct (q a); cbn [length]; lia.
Qed.

Lemma has_dep_lt c x : has_dep (get c x) = true -> x < length c.
Proof.
  intro H. destruct (Nat.lt_ge_cases x (length c)) as [Hl|Hg]; [exact Hl|].
  unfold get in H. rewrite nth_overflow in H by exact Hg. discriminate.
Qed.

Lemma fold_fuel f c
  (IH : forall m s, todo c s < f -> s_fuel_out s = false ->
        s_fuel_out (dep_r f c m s) = false /\ todo c (dep_r f c m s) <= todo c s) :
  forall l s, todo c s < f -> s_fuel_out s = false ->
  s_fuel_out (fold_left (fun acc i => dep_r f c i acc) l s) = false /\
  todo c (fold_left (fun acc i => dep_r f c i acc) l s) <= todo c s.
Proof.
  induction l as [|i l IHl]; intros s Ht Hf; cbn [fold_left]; [split; [exact Hf|lia]|].
  destruct (IH i s Ht Hf) as [H1 H2]. destruct (IHl (dep_r f c i s) ltac:(lia) H1) as [H3 H4]. split; [exact H3|lia].
Qed.

Lemma dep_r_fuel f : forall c m s,
  todo c s < f -> s_fuel_out s = false ->
  s_fuel_out (dep_r f c m s) = false /\ todo c (dep_r f c m s) <= todo c s.
Proof.
  induction f as [|f IH]; intros c m s Ht Hf; [lia|]. cbn [dep_r].
  pose proof (fold_fuel f c (IH c)) as FF.
  assert (Hsome : forall s1, todo c s1 < f -> todo c s1 <= todo c s -> s_fuel_out s1 = false ->
            s_fuel_out (fold_left (fun acc i => dep_r f c i acc) (importers c m)
                          (fold_left (fun acc i => dep_r f c i acc) (m_imports (get c m)) s1)) = false /\
            todo c (fold_left (fun acc i => dep_r f c i acc) (importers c m)
                      (fold_left (fun acc i => dep_r f c i acc) (m_imports (get c m)) s1)) <= todo c s).
  { intros s1 H1 H1' F1. destruct (FF (m_imports (get c m)) s1 H1 F1) as [F2 T2].
    assert (H2 : todo c (fold_left (fun acc i => dep_r f c i acc) (m_imports (get c m)) s1) < f) by lia.
    destruct (FF (importers c m) _ H2 F2) as [F3 T3]. split; [exact F3|lia]. }
  destruct (is_single (get c m)) eqn:Hs.
  - destruct (negb (has_dep (get c m))) eqn:Hd; [split; [exact Hf|lia]|].
    destruct (mem m (s_aux s)) eqn:Hm; [split; [exact Hf|lia]|].
    assert (Hdep : has_dep (get c m) = true) by (destruct (has_dep (get c m)); [reflexivity|discriminate]).
    assert (Hlt : length (filter (pend c (s_aux s ++ [m])) (seq 0 (length c))) <
                  length (filter (pend c (s_aux s)) (seq 0 (length c)))).
    { apply (filter_lt _ _ _ m).
      - intros x Hx. unfold pend in *. apply andb_true_iff in Hx. destruct Hx as [Hx1 Hx2]. rewrite Hx1. cbn [andb].
        destruct (mem x (s_aux s)) eqn:E; [|reflexivity]. exfalso.
        assert (E2 : mem x (s_aux s ++ [m]) = true) by (apply mem_In, in_or_app; left; apply mem_In; exact E).
        rewrite E2 in Hx2. discriminate.
      - apply in_seq. pose proof (has_dep_lt c m Hdep). lia.
      - unfold pend. rewrite Hs, Hdep, Hm. reflexivity.
      - unfold pend. assert (E2 : mem m (s_aux s ++ [m]) = true) by (apply mem_In, in_or_app; right; left; reflexivity).
        rewrite E2. rewrite andb_false_r. reflexivity. }
    apply Hsome; unfold todo in *; cbn [s_ctx s_aux s_fuel_out] in *; try lia; try exact Hf.
  - destruct (negb (mem m (s_ctx s))) eqn:Hm; [split; [exact Hf|lia]|].
    assert (Hin : In m (s_ctx s)) by (apply mem_In; destruct (mem m (s_ctx s)); [reflexivity|discriminate]).
    assert (Hlt : length (remove1 m (s_ctx s)) < length (s_ctx s)).
    { unfold remove1. rewrite <- (filter_length_le (fun _ => true) (s_ctx s)) at 2 || idtac.
      assert (Hall : filter (fun _ : nat => true) (s_ctx s) = s_ctx s).
      { clear. induction (s_ctx s) as [|a l IHl]; cbn [filter]; [reflexivity|rewrite IHl; reflexivity]. }
      rewrite <- Hall at 2. apply (filter_lt _ _ _ m); auto. rewrite Nat.eqb_refl. reflexivity. }
    apply Hsome; unfold todo in *; cbn [s_ctx s_aux s_fuel_out] in *; try lia; try exact Hf.
Qed.

Theorem dep_fuel_suffices c m : dep_fuel_out c m = false.
Proof.
  unfold dep_fuel_out. apply dep_r_fuel; [|reflexivity]. unfold todo. cbn [s_ctx s_aux].
  pose proof (filter_disjoint_le (fun i => negb (is_single (get c i))) (pend c []) (seq 0 (length c))) as H.
  rewrite seq_length in H. assert (Hd : forall x, negb (is_single (get c x)) = true -> pend c [] x = false).
  { intros x Hx. unfold pend. destruct (is_single (get c x)); [discriminate|reflexivity]. }
  specialize (H Hd). lia.
Qed.

(* ---------- everything in the set is reachable ---------- *)
Definition Sound (c : ctxt) (m0 : nat) (s : st) : Prop :=
  (forall v, vis s v -> reach c m0 v) /\
  (forall x, In x (s_ctx s) -> x < length c) /\
  (forall x, In x (s_dep s) -> is_single (get c x) = false).

Lemma remove1_sub x y l : In y (remove1 x l) -> In y l.
Proof. unfold remove1. intro H. apply filter_In in H. tauto. Qed.

Lemma fold_sound f c m0
  (IH : forall x s, Sound c m0 s -> (can c x -> reach c m0 x) -> Sound c m0 (dep_r f c x s)) :
  forall l s, Sound c m0 s -> (forall i, In i l -> can c i -> reach c m0 i) ->
  Sound c m0 (fold_left (fun acc i => dep_r f c i acc) l s).
Proof.
  induction l as [|i l IHl]; intros s Hs Hl; cbn [fold_left]; [exact Hs|].
  apply IHl; [apply IH; [exact Hs|apply Hl; left; reflexivity]|]. intros j Hj. apply Hl. right. exact Hj.
Qed.

Lemma dep_r_sound f : forall c m0 x s,
  Sound c m0 s -> (can c x -> reach c m0 x) -> Sound c m0 (dep_r f c x s).
Proof.
  induction f as [|f IH]; intros c m0 x s Hs Hx; cbn [dep_r].
  - destruct Hs as (H1 & H2 & H3). repeat split; assumption.
  - pose proof (fold_sound f c m0 (IH c m0)) as FS.
    assert (Hsome : forall s1, Sound c m0 s1 -> reach c m0 x ->
              Sound c m0 (fold_left (fun acc i => dep_r f c i acc) (importers c x)
                            (fold_left (fun acc i => dep_r f c i acc) (m_imports (get c x)) s1))).
    { intros s1 H1 Hr. apply FS; [apply FS; [exact H1|]|].
      - intros i Hi Hc. apply (ReachStep c m0 x i Hr); [left; exact Hi|exact Hc].
      - intros i Hi Hc. apply importers_In in Hi. apply (ReachStep c m0 x i Hr); [right; exact Hi|exact Hc]. }
    destruct Hs as (H1 & H2 & H3).
    destruct (is_single (get c x)) eqn:Hsg.
    + destruct (negb (has_dep (get c x))) eqn:Hd; [repeat split; assumption|].
      destruct (mem x (s_aux s)) eqn:Hm; [repeat split; assumption|].
      assert (Hdep : has_dep (get c x) = true) by (destruct (has_dep (get c x)); [reflexivity|discriminate]).
      assert (Hlt : x < length c).
      { destruct (Nat.lt_ge_cases x (length c)) as [Hl|Hg]; [exact Hl|]. unfold get in Hdep.
        rewrite nth_overflow in Hdep by exact Hg. discriminate. }
      assert (Hr : reach c m0 x) by (apply Hx; split; [exact Hlt|right; exact Hdep]).
      apply Hsome; [|exact Hr]. split; [|split]; cbn [s_ctx s_dep s_aux]; [|exact H2|exact H3].
      intros v [Hv|Hv]; cbn [s_dep s_aux] in Hv; [apply H1; left; exact Hv|].
      apply in_app_or in Hv. destruct Hv as [Hv|[<-|[]]]; [apply H1; right; exact Hv|exact Hr].
    + destruct (negb (mem x (s_ctx s))) eqn:Hm; [repeat split; assumption|].
      assert (Hin : In x (s_ctx s)) by (apply mem_In; destruct (mem x (s_ctx s)); [reflexivity|discriminate]).
      assert (Hr : reach c m0 x) by (apply Hx; split; [exact (H2 x Hin)|left; exact Hsg]).
      apply Hsome; [|exact Hr]. split; [|split]; cbn [s_ctx s_dep s_aux].
      * intros v [Hv|Hv]; cbn [s_dep s_aux] in Hv; [|apply H1; right; exact Hv].
        apply in_app_or in Hv. destruct Hv as [Hv|[<-|[]]]; [apply H1; left; exact Hv|exact Hr].
      * intros y Hy. apply H2. exact (remove1_sub x y _ Hy).
      * intros y Hy. apply in_app_or in Hy. destruct Hy as [Hy|[<-|[]]]; [exact (H3 y Hy)|exact Hsg].
Qed.

Theorem dep_set_sound c m y :
  m < length c -> is_single (get c m) = false -> In y (dep_set_of c m) ->
  reach c m y /\ is_single (get c y) = false.
Proof.
  intros Hm Hs Hy. unfold dep_set_of in Hy.
  set (ctx_set := filter (fun i => negb (is_single (get c i))) (seq 0 (length c))) in *.
  assert (Hin : mem m ctx_set = true).
  { apply mem_In. unfold ctx_set. apply filter_In. split; [apply in_seq; lia|rewrite Hs; reflexivity]. }
  rewrite Hin in Hy. cbn [negb] in Hy.
  set (s0 := Build_st ctx_set [] [] false) in *.
  assert (S0 : Sound c m s0).
  { split; [|split]; cbn [s_ctx s_dep s_aux]; [intros v [[]|[]]| |intros x []].
    intros x Hx. unfold ctx_set in Hx. apply filter_In in Hx. destruct Hx as [Hx _]. apply in_seq in Hx. lia. }
  destruct (dep_r_sound (S (length c)) c m m s0 S0 (fun _ => ReachRefl c m)) as (R1 & _ & R3).
  split; [apply R1; left; exact Hy|exact (R3 y Hy)].
Qed.

(* ---------- the set is exactly the reach-closure restricted to modules that are not single-module sets ---------- *)
Theorem dep_set_exact c m y :
  m < length c -> is_single (get c m) = false ->
  (In y (dep_set_of c m) <-> reach c m y /\ is_single (get c y) = false).
Proof.
  intros Hm Hs. split.
  - exact (dep_set_sound c m y Hm Hs).
  - intros [Hr Hy]. exact (dep_set_closed c m y Hm Hs (dep_fuel_suffices c m) Hr Hy).
Qed.
