(* DepSetP.v — proofs about DepSet.v: the dependency set is closed under the import relation (both directions) along
   chains through modules that are traversed. *)
From LY Require Import Base DepSet.
From Coq Require Import ZifyBool ZifyNat Arith.

Definition vis (s : st) (x : nat) : Prop := In x (s_dep s) \/ In x (s_aux s).

(* a module the traversal enters: not a single-module set, or one that other modules may depend on through *)
Definition can (c : ctxt) (x : nat) : Prop :=
  x < length c /\ (is_single (get c x) = false \/ has_dep (get c x) = true).

(* neighbours in the import graph, both directions *)
Definition nbr (c : ctxt) (x y : nat) : Prop :=
  In y (m_imports (get c x)) \/ (y < length c /\ In x (m_imports (get c y))).

Definition Inv (c : ctxt) (s : st) : Prop :=
  (forall x, x < length c -> is_single (get c x) = false -> In x (s_ctx s) \/ In x (s_dep s)) /\
  (forall x, In x (s_aux s) -> is_single (get c x) = true).

Lemma mem_In x l : mem x l = true <-> In x l.
Proof.
  unfold mem. rewrite existsb_exists. split.
  - intros [y [Hy He]]. apply Nat.eqb_eq in He. subst. exact Hy.
  - intro H. exists x. split; [exact H|apply Nat.eqb_refl].
Qed.

Lemma remove1_In x y l : In y l -> y <> x -> In y (remove1 x l).
Proof.
  unfold remove1. intros H Hn. apply filter_In. split; [exact H|].
  destruct (Nat.eqb x y) eqn:He; [apply Nat.eqb_eq in He; congruence|reflexivity].
Qed.

Lemma vis_dec s x : {vis s x} + {~ vis s x}.
Proof.
  unfold vis. destruct (in_dec Nat.eq_dec x (s_dep s)); [left; tauto|].
  destruct (in_dec Nat.eq_dec x (s_aux s)); [left; tauto|right; tauto].
Qed.

Lemma importers_In c m y : In y (importers c m) <-> y < length c /\ In m (m_imports (get c y)).
Proof.
  unfold importers. rewrite filter_In, in_seq, mem_In. split; intros [H1 H2]; split; auto; lia.
Qed.

(* the out-of-fuel flag is sticky *)
Lemma flag_sticky f : forall c m s, s_fuel_out s = true -> s_fuel_out (dep_r f c m s) = true.
Proof.
  induction f as [|f IH]; intros c m s H; cbn [dep_r]; [reflexivity|].
  assert (Hfold : forall l s0, s_fuel_out s0 = true -> s_fuel_out (fold_left (fun acc i => dep_r f c i acc) l s0) = true).
  { induction l as [|i l IHl]; intros s0 H0; cbn [fold_left]; [exact H0|]. apply IHl. apply IH. exact H0. }
  destruct (is_single (get c m)).
  - destruct (negb (has_dep (get c m))); [exact H|]. destruct (mem m (s_aux s)); [exact H|].
    apply Hfold. apply Hfold. exact H.
  - destruct (negb (mem m (s_ctx s))); [exact H|]. apply Hfold. apply Hfold. exact H.
Qed.

Definition spec (c : ctxt) (s s' : st) (targets : nat -> Prop) : Prop :=
  Inv c s' /\ (forall x, vis s x -> vis s' x) /\ (forall i, targets i -> can c i -> vis s' i) /\
  (forall x, vis s' x -> ~ vis s x -> forall y, nbr c x y -> can c y -> vis s' y) /\ s_fuel_out s = false.

Lemma fold_spec f c :
  (forall m s, Inv c s -> s_fuel_out (dep_r f c m s) = false -> spec c s (dep_r f c m s) (fun i => i = m)) ->
  forall l s, Inv c s -> s_fuel_out (fold_left (fun acc i => dep_r f c i acc) l s) = false ->
  spec c s (fold_left (fun acc i => dep_r f c i acc) l s) (fun i => In i l).
Proof.
  intro P. induction l as [|i l IH]; intros s Hinv Hflag; cbn [fold_left] in *.
  - unfold spec. repeat split; try tauto; try apply Hinv. intros i [].
  - set (s1 := dep_r f c i s) in *.
    assert (Hf1 : s_fuel_out s1 = false).
    { destruct (s_fuel_out s1) eqn:E; [|reflexivity].
      assert (Hs : forall l0 s0, s_fuel_out s0 = true -> s_fuel_out (fold_left (fun acc i0 => dep_r f c i0 acc) l0 s0) = true).
      { induction l0 as [|j l0 IHl]; intros s0 H0; cbn [fold_left]; [exact H0|]. apply IHl. apply flag_sticky. exact H0. }
      rewrite (Hs l s1 E) in Hflag. discriminate. }
    destruct (P i s Hinv Hf1) as (I1 & M1 & T1 & C1 & F1).
    destruct (IH s1 I1 Hflag) as (I2 & M2 & T2 & C2 & F2).
    unfold spec. split; [exact I2|]. split; [intros x Hx; apply M2; apply M1; exact Hx|]. split.
    + intros j [Hj|Hj] Hc; [subst j; apply M2; apply T1; [reflexivity|exact Hc]|exact (T2 j Hj Hc)].
    + split; [|exact F1]. intros x Hx Hn y Hy Hc.
      destruct (vis_dec s1 x) as [Hv|Hv].
      * apply M2. exact (C1 x Hv Hn y Hy Hc).
      * exact (C2 x Hx Hv y Hy Hc).
Qed.

Lemma dep_r_spec f : forall c m s,
  Inv c s -> s_fuel_out (dep_r f c m s) = false -> spec c s (dep_r f c m s) (fun i => i = m).
Proof.
  induction f as [|f IH]; intros c m s Hinv Hflag; [cbn [dep_r s_fuel_out] in Hflag; discriminate|].
  pose proof (fold_spec f c (IH c)) as FS.
  cbn [dep_r] in *.
  assert (Hnone : (can c m -> vis s m) -> s_fuel_out s = false -> spec c s s (fun i => i = m)).
  { intros Hv Hf. unfold spec. repeat split; try tauto; try apply Hinv. intros i -> Hc. exact (Hv Hc). }
  assert (Hsome : forall s1, Inv c s1 -> s_fuel_out s1 = s_fuel_out s -> (forall x, vis s1 x <-> vis s x \/ x = m) ->
            s_fuel_out (fold_left (fun acc i => dep_r f c i acc) (importers c m)
                          (fold_left (fun acc i => dep_r f c i acc) (m_imports (get c m)) s1)) = false ->
            spec c s (fold_left (fun acc i => dep_r f c i acc) (importers c m)
                        (fold_left (fun acc i => dep_r f c i acc) (m_imports (get c m)) s1)) (fun i => i = m)).
  { intros s1 I1 Fl1 V1 Hfl.
    set (s2 := fold_left (fun acc i => dep_r f c i acc) (m_imports (get c m)) s1) in *.
    assert (Hf2 : s_fuel_out s2 = false).
    { destruct (s_fuel_out s2) eqn:E; [|reflexivity].
      assert (Hs : forall l0 s0, s_fuel_out s0 = true -> s_fuel_out (fold_left (fun acc i0 => dep_r f c i0 acc) l0 s0) = true).
      { induction l0 as [|j l0 IHl]; intros s0 H0; cbn [fold_left]; [exact H0|]. apply IHl. apply flag_sticky. exact H0. }
      rewrite (Hs _ s2 E) in Hfl. discriminate. }
    destruct (FS (m_imports (get c m)) s1 I1 Hf2) as (I2 & M2 & T2 & C2 & F2).
    destruct (FS (importers c m) s2 I2 Hfl) as (I3 & M3 & T3 & C3 & F3).
    unfold spec. split; [exact I3|]. split; [intros x Hx; apply M3, M2, V1; left; exact Hx|]. split.
    - intros i -> _. apply M3, M2, V1. right. reflexivity.
    - split; [|rewrite <- Fl1; exact F2]. intros x Hx Hn y Hy Hc.
      destruct (Nat.eq_dec x m) as [->|Hne].
      + destruct Hy as [Hy|[Hl Hy]].
        * apply M3. exact (T2 y Hy Hc).
        * apply (T3 y); [apply importers_In; auto|exact Hc].
      + assert (Hn1 : ~ vis s1 x) by (rewrite V1; tauto).
        destruct (vis_dec s2 x) as [Hv|Hv].
        * apply M3. exact (C2 x Hv Hn1 y Hy Hc).
        * exact (C3 x Hx Hv y Hy Hc). }
  destruct Hinv as [Hpart Haux].
  destruct (is_single (get c m)) eqn:Hs.
  - destruct (negb (has_dep (get c m))) eqn:Hd.
    + apply Hnone; [|exact Hflag]. intros [_ [H|H]]; [congruence|]. rewrite H in Hd. discriminate.
    + destruct (mem m (s_aux s)) eqn:Hm.
      * apply Hnone; [|exact Hflag]. intros _. right. apply mem_In. exact Hm.
      * apply Hsome; try exact Hflag; [|reflexivity|].
        -- split; cbn [s_ctx s_dep s_aux]; [exact Hpart|]. intros x Hx. apply in_app_or in Hx.
           destruct Hx as [Hx|[<-|[]]]; [exact (Haux x Hx)|exact Hs].
        -- intro x. unfold vis. cbn [s_dep s_aux]. rewrite in_app_iff. cbn [In]. split; [intros [H|[H|[H|[]]]]; auto|].
           intros [[H|H]|H]; auto.
  - destruct (negb (mem m (s_ctx s))) eqn:Hm.
    + apply Hnone; [|exact Hflag]. intros [Hl _]. destruct (Hpart m Hl Hs) as [H|H]; [|left; exact H].
      apply mem_In in H. rewrite H in Hm. discriminate.
    + apply Hsome; try exact Hflag; [|reflexivity|].
      * split; cbn [s_ctx s_dep s_aux]; [|exact Haux]. intros x Hl Hx.
        destruct (Nat.eq_dec x m) as [->|Hne]; [right; apply in_or_app; right; left; reflexivity|].
        destruct (Hpart x Hl Hx) as [H|H]; [left; apply remove1_In; assumption|right; apply in_or_app; left; exact H].
      * intro x. unfold vis. cbn [s_dep s_aux]. rewrite in_app_iff. cbn [In]. split; [intros [[H|[H|[]]]|H]; auto|].
        intros [[H|H]|H]; auto.
Qed.

(* chains from the module: every step goes to a neighbour that is traversed *)
Inductive reach (c : ctxt) (m : nat) : nat -> Prop :=
| ReachRefl : reach c m m
| ReachStep x y : reach c m x -> nbr c x y -> can c y -> reach c m y.

Theorem dep_set_closed c m y :
  m < length c -> is_single (get c m) = false -> dep_fuel_out c m = false ->
  reach c m y -> is_single (get c y) = false -> In y (dep_set_of c m).
Proof.
  intros Hm Hs Hfuel Hr Hy. unfold dep_set_of, dep_fuel_out in *.
  set (ctx_set := filter (fun i => negb (is_single (get c i))) (seq 0 (length c))) in *.
  assert (Hin : mem m ctx_set = true).
  { apply mem_In. unfold ctx_set. apply filter_In. split; [apply in_seq; lia|rewrite Hs; reflexivity]. }
  rewrite Hin. cbn [negb].
  set (s0 := Build_st ctx_set [] [] false) in *.
  assert (I0 : Inv c s0).
  { split; cbn [s_ctx s_dep s_aux]; [|intros x []]. intros x Hl Hx. left. unfold ctx_set. apply filter_In.
    split; [apply in_seq; lia|rewrite Hx; reflexivity]. }
  destruct (dep_r_spec (S (length c)) c m s0 I0 Hfuel) as (I1 & M1 & T1 & C1 & _).
  assert (Hv : vis (dep_r (S (length c)) c m s0) y).
  { induction Hr as [|x y Hr IHr Hn Hc].
    - apply (T1 m eq_refl). split; [exact Hm|left; exact Hs].
    - assert (Hx : vis (dep_r (S (length c)) c m s0) x).
      { destruct (Nat.eq_dec x m) as [->|Hne]; [apply (T1 m eq_refl); split; [exact Hm|left; exact Hs]|].
        (* x is traversed: it was reached through a step into a module that can be entered, or it is the start *)
        clear IHr Hn Hc Hy y. induction Hr as [|x0 x1 Hr0 IH0 Hn0 Hc0]; [congruence|].
        assert (Hx0 : vis (dep_r (S (length c)) c m s0) x0).
        { destruct (Nat.eq_dec x0 m) as [->|Hne0]; [apply (T1 m eq_refl); split; [exact Hm|left; exact Hs]|exact (IH0 Hne0)]. }
        apply (C1 x0 Hx0); [intros [[]|[]]|exact Hn0|exact Hc0]. }
      apply (C1 x Hx); [intros [[]|[]]|exact Hn|exact Hc]. }
  destruct Hv as [Hd|Ha]; [exact Hd|]. destruct I1 as [_ Haux]. rewrite (Haux y Ha) in Hy. discriminate.
Qed.
