(* Properties_C04_siblings.v - property C04, ALL children of one parent: theorem statements only.
   Model: Siblings.v (lyd_insert_node(DEFAULT) with lyd_insert_node_find_anchor / lyd_insert_get_next_anchor in its two
   variants - walk over the siblings, or hash lookups of the following schema nodes - and the fallback before trailing opaque
   nodes; lyd_insert_after / lyd_insert_before; removal), proofs SiblingsP.v.  A sibling is (schema index | opaque, key, id);
   the schema index is the position among the data-definition children of the parent's schema node in lys_getnext() order
   (choices and cases flattened).  sys i / user i: schema node i is a system- / user-ordered (leaf-)list.
   canon sys l: the siblings are sorted by (data before opaque, schema index, key inside a system-ordered (leaf-)list); all
   other siblings of equal rank (instances of a user-ordered or key-less list, leaves, opaque nodes) stay where the calls put
   them.  The placement INSIDE a system-ordered (leaf-)list is taken from its own model (Sorted.v, C04_lyds_insert_spec).
   Not modelled: values / hashes (which sibling a search finds), the creation of the children hash table (a flag of the op). *)
From Coq Require Import Permutation.
From LY Require Import Base Sorted RBTreeP Siblings SiblingsP.

(* lyd_insert_node(DEFAULT) of a node into canonical siblings, with or without children hash table (ht), puts it exactly at
   its canonical position: behind every sibling that is not greater (stable), a data node before all opaque nodes, an opaque
   node last; the siblings stay canonical and nothing is lost.  hi i: the last schema index the hash walk reaches for a node
   of schema index i must bound the schema indexes present (true for hi = last child of the parent's schema node). *)
Theorem C04_sib_insert_spec :
  forall (sys : nat -> bool) (hi : nat -> nat) ht l x,
    canon sys l -> (forall i, sidx x = Some i -> forall m j, In m l -> sidx m = Some j -> j <= hi i) ->
    sib_insert sys false hi ht l x = spec_insert sys l x /\ canon sys (spec_insert sys l x) /\
    Permutation (x :: l) (spec_insert sys l x).
Proof.
  intros sys hi ht l x Hc Hb.
  split; [exact (sib_insert_spec sys (fun _ => false) (fun _ H => ltac:(discriminate H)) hi ht l x Hc Hb)|].
  split; [exact (spec_insert_canon sys l x Hc)|exact (spec_insert_perm sys l x)].
Qed.
Print Assumptions C04_sib_insert_spec.

(* lyd_insert_after / lyd_insert_before of the DATA node at position i next to the DATA sibling at position j, when it
   succeeds (different nodes, instance of a user-ordered (leaf-)list, same schema node): the node stands directly behind /
   in front of the sibling - also for the wrap-around pairs first <-> last -, all other siblings keep their order, nothing is
   lost, the siblings stay canonical.  Premise: a user-ordered (leaf-)list is not system-ordered. *)
Theorem C04_sib_move_spec :
  forall (sys user : nat -> bool), (forall i, user i = true -> sys i = false) ->
  forall after l i j l',
    canon sys l -> sib_move user false after l i j = Some l' ->
    (forall n, nth_error l i = Some n -> is_opaq n = false) -> (forall n, nth_error l j = Some n -> is_opaq n = false) ->
    exists node sibl a b,
      nth_error l i = Some node /\ nth_error l j = Some sibl /\ remove_nth i l = a ++ sibl :: b /\
      l' = (if after then a ++ sibl :: node :: b else a ++ node :: sibl :: b) /\ Permutation l l' /\ canon sys l'.
Proof. exact sib_move_spec. Qed.
Print Assumptions C04_sib_move_spec.

(* Every history of creations / re-insertions (with or without hash table), moves of data nodes and removals that starts
   from canonical siblings stays canonical, and the as-coded insertion can be replaced by the canonical position throughout:
   schema order, user order exactly as the calls established it, opaque nodes last. *)
Theorem C04_sib_history :
  forall (sys user : nat -> bool), (forall i, user i = true -> sys i = false) ->
  forall hi ops l, canon sys l -> sops_ok sys user hi l ops ->
    canon sys (fold_left (sib_step sys user hi) ops l) /\
    fold_left (sib_step sys user hi) ops l =
    fold_left (fun l o => match o with SNew x _ => spec_insert sys l x | _ => sib_step sys user hi l o end) ops l.
Proof. exact sib_history. Qed.
Print Assumptions C04_sib_history.

(* ---- regression Examples for the seeded changes of this class; schema of the examples: leaves 0..5, no lists ---- *)
Definition nosys (_ : nat) : bool := false.
Definition d (i : nat) (id : N) : snode := mkS (Some i) 0 id.
Definition o (name : Z) (id : N) : snode := mkS None name id.

(* C04-8: container {a b choice{case{x y}} d e} = indexes 0 1 (2 3) 4 5; a b d e exist (hash table), y is created.  The hash
   walk with sparent taken from the new node ends with the case (hi = 3): no anchor, y is linked last; with the data parent's
   schema node (hi = 5) y stands between b and d. *)
Example C04_sib_choice_anchor_regression :
  hash_insert false 3 3 [d 0 0; d 1 1; d 4 2; d 5 3] (d 3 4) = [d 0 0; d 1 1; d 4 2; d 5 3; d 3 4] /\
  hash_insert false 5 3 [d 0 0; d 1 1; d 4 2; d 5 3] (d 3 4) = [d 0 0; d 1 1; d 3 4; d 4 2; d 5 3] /\
  spec_insert nosys [d 0 0; d 1 1; d 4 2; d 5 3] (d 3 4) = [d 0 0; d 1 1; d 3 4; d 4 2; d 5 3].
Proof. vm_compute. repeat split. Qed.

(* C04-3: l1..l4 and two trailing opaque nodes of DIFFERENT names; l5 is created.  Looking for the first opaque node that has
   the name of the last one (by_name = true) links l5 between the opaque nodes; the code links it before both. *)
Example C04_sib_opaque_last_regression :
  hash_insert true 5 4 [d 0 0; d 1 1; d 2 2; d 3 3; o 120 4; o 121 5] (d 4 6) = [d 0 0; d 1 1; d 2 2; d 3 3; o 120 4; d 4 6; o 121 5] /\
  hash_insert false 5 4 [d 0 0; d 1 1; d 2 2; d 3 3; o 120 4; o 121 5] (d 4 6) = [d 0 0; d 1 1; d 2 2; d 3 3; d 4 6; o 120 4; o 121 5].
Proof. vm_compute. repeat split. Qed.

(* C04-4: three instances of a user-ordered list that start and end the chain; insert_after(last, first).  With the shortcut
   `node->prev == sibling` (prev of the first sibling is the last one) the move is dropped. *)
Example C04_sib_wraparound_regression :
  sib_move (fun _ => true) true true [d 0 0; d 0 1; d 0 2] 0 2 = Some [d 0 0; d 0 1; d 0 2] /\
  sib_move (fun _ => true) false true [d 0 0; d 0 1; d 0 2] 0 2 = Some [d 0 1; d 0 2; d 0 0] /\
  sib_move (fun _ => true) false false [d 0 0; d 0 1; d 0 2] 2 0 = Some [d 0 2; d 0 0; d 0 1].
Proof. vm_compute. repeat split. Qed.
