(* Dec64P.v — proofs about Dec64.v: what lyplg_type_parse_dec64 accepts and which number it yields,
   the sign-only defect, the dependence on the byte after the value, canonical form. *)
From LY Require Import Base TypesMisc TypesMiscP IntLex IntLexP Dec64.
From Coq Require Import ZifyBool ZifyNat ZifyN.
Local Open Scope N_scope.

(* ---------- list index helpers ---------- *)
Lemma skipn_app_len {A} (a b : list A) : skipn (length a) (a ++ b) = b.
Proof. induction a as [|x a IH]; cbn [length skipn app]; [reflexivity|exact IH]. Qed.

Lemma firstn_app_len {A} (a b : list A) : firstn (length a) (a ++ b) = a.
Proof. induction a as [|x a IH]; cbn [length firstn app]; [reflexivity|rewrite IH; reflexivity]. Qed.

Lemma nth_app_len {A} (a b : list A) i d : nth (length a + i) (a ++ b) d = nth i b d.
Proof. induction a as [|x a IH]; cbn [length app nth Nat.add]; [reflexivity|exact IH]. Qed.

Lemma skipn_app_len' {A} (a b : list A) k : k = length a -> skipn k (a ++ b) = b.
Proof. intros ->. apply skipn_app_len. Qed.

Lemma firstn_app_len' {A} (a b : list A) k : k = length a -> firstn k (a ++ b) = a.
Proof. intros ->. apply firstn_app_len. Qed.

(* ---------- counting loops ---------- *)
Lemma count_digits_app d r :
  all_digit d -> head_nondigit r -> count_digits (d ++ r) = length d.
Proof.
  unfold all_digit. induction d as [|c d IH]; cbn [forallb app length]; intros Hd Hr.
  - destruct r as [|c r]; cbn [count_digits]; [reflexivity|]. cbn [head_nondigit] in Hr. rewrite Hr. reflexivity.
  - apply andb_true_iff in Hd. destruct Hd as [Hc Hd]. cbn [count_digits]. rewrite Hc, (IH Hd Hr). reflexivity.
Qed.

Lemma count_space_le s : (count_space s <= length s)%nat.
Proof. induction s as [|c s IH]; cbn [count_space length]; [lia|]. destruct (is_space c); lia. Qed.

Lemma count_space_all s : (count_space s =? length s)%nat = true <-> all_space s.
Proof.
  unfold all_space. induction s as [|c s IH]; cbn [count_space length forallb]; [split; reflexivity|].
  destruct (is_space c) eqn:Hc; cbn [andb].
  - rewrite <- IH. rewrite !Nat.eqb_eq. lia.
  - split; [|discriminate]. rewrite Nat.eqb_eq. lia.
Qed.

(* trailing-zero counter of the fraction loop *)
Fixpoint tzc (l : bytes) (tz : nat) : nat :=
  match l with
  | [] => tz
  | c :: l' => tzc l' (if c =? 48 then S tz else O)
  end.

Lemma scan_frac_app fpa r3 : forall n tz,
  all_digit fpa -> head_nondigit r3 ->
  scan_frac (fpa ++ r3) n tz = ((n + length fpa)%nat, tzc fpa tz).
Proof.
  unfold all_digit. induction fpa as [|c l IH]; cbn [forallb app length tzc]; intros n tz Hd Hr.
  - rewrite Nat.add_0_r. destruct r3 as [|c r]; cbn [scan_frac]; [reflexivity|].
    cbn [head_nondigit] in Hr. rewrite Hr. reflexivity.
  - apply andb_true_iff in Hd. destruct Hd as [Hc Hd]. cbn [scan_frac]. rewrite Hc.
    rewrite (IH (S n) _ Hd Hr). f_equal. lia.
Qed.

Lemma repeat_all_zero l : forallb (fun c => c =? 48) l = true -> l = repeat 48 (length l).
Proof.
  induction l as [|c l IH]; cbn [forallb length repeat]; intro H; [reflexivity|].
  apply andb_true_iff in H. destruct H as [Hc Hl]. rewrite <- (IH Hl). f_equal. lia.
Qed.

Lemma tzc_char l : forall tz,
  (l = repeat 48 (length l) /\ tzc l tz = (tz + length l)%nat) \/
  (exists p c, l = p ++ c :: repeat 48 (tzc l tz) /\ c <> 48).
Proof.
  induction l as [|c l IH]; intro tz; cbn [tzc length repeat].
  - left. split; [reflexivity|lia].
  - destruct (IH (if c =? 48 then S tz else O)) as [[Hz Ht]|[p [c' [Hl Hc']]]].
    + destruct (c =? 48) eqn:Hc.
      * left. split; [rewrite <- Hz; f_equal; lia|lia].
      * right. exists [], c. cbn [app]. split; [|lia]. rewrite Ht. cbn [Nat.add]. rewrite <- Hz. reflexivity.
    + right. exists (c :: p), c'. cbn [app]. split; [rewrite <- Hl; reflexivity|exact Hc'].
Qed.

Lemma strip_tz_zeros k : strip_tz (repeat 48 k) = [].
Proof. induction k as [|k IH]; cbn [repeat strip_tz]; [reflexivity|]. rewrite IH. reflexivity. Qed.

Lemma strip_tz_app p q : strip_tz q <> [] -> strip_tz (p ++ q) = p ++ strip_tz q.
Proof.
  intro Hq. induction p as [|a p IH]; cbn [app strip_tz]; [reflexivity|].
  rewrite IH. destruct (p ++ strip_tz q) eqn:He; [|reflexivity].
  apply app_eq_nil in He. tauto.
Qed.

Lemma strip_tz_nz p c k : c <> 48 -> strip_tz (p ++ c :: repeat 48 k) = p ++ [c].
Proof.
  intro Hc.
  assert (H1 : strip_tz (c :: repeat 48 k) = [c]).
  { cbn [strip_tz]. rewrite strip_tz_zeros. destruct (c =? 48) eqn:E; [lia|reflexivity]. }
  rewrite strip_tz_app; rewrite H1; [reflexivity|discriminate].
Qed.

(* normal form of a run of fraction digits: significant part, then tz zeros *)
Lemma frac_norm l :
  exists fp, l = fp ++ repeat 48 (tzc l 0) /\ strip_tz l = fp /\
             (fp = [] \/ exists p c, fp = p ++ [c] /\ c <> 48).
Proof.
  destruct (tzc_char l 0) as [[Hz Ht]|[p [c [Hl Hc]]]].
  - exists []. cbn [app]. rewrite Ht. cbn [Nat.add]. split; [exact Hz|]. split; [|left; reflexivity].
    rewrite Hz. apply strip_tz_zeros.
  - exists (p ++ [c]). split; [rewrite <- app_assoc; exact Hl|]. split.
    + rewrite Hl at 1. apply strip_tz_nz. exact Hc.
    + right. exists p, c. auto.
Qed.

(* ---------- numbers ---------- *)
Lemma dec_to_N_acc_zeros k a : dec_to_N_acc (repeat 48 k) a = a * 10 ^ N.of_nat k.
Proof.
  revert a. induction k as [|k IH]; intro a; cbn [repeat dec_to_N_acc].
  - cbn. lia.
  - rewrite IH, Nat2N.inj_succ, N.pow_succ_r'. lia.
Qed.

Lemma dec_to_N_app_zeros l k : dec_to_N (l ++ repeat 48 k) = dec_to_N l * 10 ^ N.of_nat k.
Proof. unfold dec_to_N. rewrite dec_to_N_acc_app, dec_to_N_acc_zeros. reflexivity. Qed.

Lemma dec_to_N_lead_zeros k l : dec_to_N (repeat 48 k ++ l) = dec_to_N l.
Proof.
  unfold dec_to_N. rewrite dec_to_N_acc_app, dec_to_N_acc_zeros. reflexivity.
Qed.

Lemma dec_to_N_snoc l c : dec_to_N (l ++ [c]) = 10 * dec_to_N l + (c - 48).
Proof. unfold dec_to_N. rewrite dec_to_N_acc_app. reflexivity. Qed.

Lemma sign_val_sgn sg m : sign_val sg m = (sgn sg * Z.of_N m)%Z.
Proof. unfold sign_val, sgn. destruct (beq_bytes sg [45]); lia. Qed.

Lemma sgn_cases sg : sgn sg = 1%Z \/ sgn sg = (-1)%Z.
Proof. unfold sgn. destruct (beq_bytes sg [45]); auto. Qed.

Lemma all_digit_app a b : all_digit a -> all_digit b -> all_digit (a ++ b).
Proof. unfold all_digit. intros Ha Hb. rewrite forallb_app, Ha, Hb. reflexivity. Qed.

Lemma all_digit_app_inv a b : all_digit (a ++ b) -> all_digit a /\ all_digit b.
Proof. unfold all_digit. rewrite forallb_app. intro H. apply andb_true_iff in H. exact H. Qed.

Lemma all_digit_zeros k : all_digit (repeat 48 k).
Proof. unfold all_digit. induction k as [|k IH]; cbn [repeat forallb]; [reflexivity|exact IH]. Qed.
