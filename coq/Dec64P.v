(* Dec64P.v — proofs about Dec64.v: what lyplg_type_parse_dec64 (as fixed by /repo commits f731599 and
   f933623) accepts and which number it yields: exactly the RFC 7950 lexical space between optional
   white space; canonical form. *)
From LY Require Import Base TypesMisc TypesMiscP IntLex IntLexP Dec64.
From Coq Require Import ZifyBool ZifyNat ZifyN.
Local Open Scope N_scope.

(* ---------- list index helpers ---------- *)
Lemma skipn_app_len {A} (a b : list A) : skipn (length a) (a ++ b) = b.
Proof. induction a as [|x a IH]; cbn [length skipn app]; [reflexivity|exact IH]. Qed.

Lemma firstn_app_len {A} (a b : list A) : firstn (length a) (a ++ b) = a.
Proof. induction a as [|x a IH]; cbn [length firstn app]; [reflexivity|rewrite IH; reflexivity]. Qed.

Lemma nth_app_len {A} (a b : list A) i d : nth (length a + i) (a ++ b) d = nth i b d.
Proof. induction a as [|x a IH]; cbn [length app nth Nat.add]; [reflexivity|exact IH]. Qed.

Lemma skipn_app_len' {A} (a b : list A) k : k = length a -> skipn k (a ++ b) = b.
Proof. intros ->. apply skipn_app_len. Qed.

Lemma firstn_app_len' {A} (a b : list A) k : k = length a -> firstn k (a ++ b) = a.
Proof. intros ->. apply firstn_app_len. Qed.

(* ---------- counting loops ---------- *)
Lemma count_digits_app d r :
  all_digit d -> head_nondigit r -> count_digits (d ++ r) = length d.
Proof.
  unfold all_digit. induction d as [|c d IH]; cbn [forallb app length]; intros Hd Hr.
  - destruct r as [|c r]; cbn [count_digits]; [reflexivity|]. cbn [head_nondigit] in Hr. rewrite Hr. reflexivity.
  - apply andb_true_iff in Hd. destruct Hd as [Hc Hd]. cbn [count_digits]. rewrite Hc, (IH Hd Hr). reflexivity.
Qed.

Lemma count_space_le s : (count_space s <= length s)%nat.
Proof. induction s as [|c s IH]; cbn [count_space length]; [lia|]. destruct (is_space c); lia. Qed.

Lemma count_space_all s : (count_space s =? length s)%nat = true <-> all_space s.
Proof.
  unfold all_space. induction s as [|c s IH]; cbn [count_space length forallb]; [split; reflexivity|].
  destruct (is_space c) eqn:Hc; cbn [andb].
  - rewrite <- IH. rewrite !Nat.eqb_eq. lia.
  - split; [|discriminate]. rewrite Nat.eqb_eq. lia.
Qed.

(* trailing-zero counter of the fraction loop *)
Fixpoint tzc (l : bytes) (tz : nat) : nat :=
  match l with
  | [] => tz
  | c :: l' => tzc l' (if c =? 48 then S tz else O)
  end.

Lemma scan_frac_app fpa r3 : forall n tz,
  all_digit fpa -> head_nondigit r3 ->
  scan_frac (fpa ++ r3) n tz = ((n + length fpa)%nat, tzc fpa tz).
Proof.
  unfold all_digit. induction fpa as [|c l IH]; cbn [forallb app length tzc]; intros n tz Hd Hr.
  - rewrite Nat.add_0_r. destruct r3 as [|c r]; cbn [scan_frac]; [reflexivity|].
    cbn [head_nondigit] in Hr. rewrite Hr. reflexivity.
  - apply andb_true_iff in Hd. destruct Hd as [Hc Hd]. cbn [scan_frac]. rewrite Hc.
    rewrite (IH (S n) _ Hd Hr). f_equal. lia.
Qed.

Lemma repeat_all_zero l : forallb (fun c => c =? 48) l = true -> l = repeat 48 (length l).
Proof.
  induction l as [|c l IH]; cbn [forallb length repeat]; intro H; [reflexivity|].
  apply andb_true_iff in H. destruct H as [Hc Hl]. rewrite <- (IH Hl). f_equal. lia.
Qed.

Lemma tzc_char l : forall tz,
  (l = repeat 48 (length l) /\ tzc l tz = (tz + length l)%nat) \/
  (exists p c, l = p ++ c :: repeat 48 (tzc l tz) /\ c <> 48).
Proof.
  induction l as [|c l IH]; intro tz; cbn [tzc length repeat].
  - left. split; [reflexivity|lia].
  - destruct (IH (if c =? 48 then S tz else O)) as [[Hz Ht]|[p [c' [Hl Hc']]]].
    + destruct (c =? 48) eqn:Hc.
      * left. split; [rewrite <- Hz; f_equal; lia|lia].
      * right. exists [], c. cbn [app]. split; [|lia]. rewrite Ht. cbn [Nat.add]. rewrite <- Hz. reflexivity.
    + right. exists (c :: p), c'. cbn [app]. split; [rewrite <- Hl; reflexivity|exact Hc'].
Qed.

Lemma strip_tz_zeros k : strip_tz (repeat 48 k) = [].
Proof. induction k as [|k IH]; cbn [repeat strip_tz]; [reflexivity|]. rewrite IH. reflexivity. Qed.

Lemma strip_tz_app p q : strip_tz q <> [] -> strip_tz (p ++ q) = p ++ strip_tz q.
Proof.
  intro Hq. induction p as [|a p IH]; cbn [app strip_tz]; [reflexivity|].
  rewrite IH. destruct (p ++ strip_tz q) eqn:He; [|reflexivity].
  apply app_eq_nil in He. tauto.
Qed.

Lemma strip_tz_nz p c k : c <> 48 -> strip_tz (p ++ c :: repeat 48 k) = p ++ [c].
Proof.
  intro Hc.
  assert (H1 : strip_tz (c :: repeat 48 k) = [c]).
  { cbn [strip_tz]. rewrite strip_tz_zeros. destruct (c =? 48) eqn:E; [lia|reflexivity]. }
  rewrite strip_tz_app; rewrite H1; [reflexivity|discriminate].
Qed.

(* normal form of a run of fraction digits: significant part, then tz zeros *)
Lemma frac_norm l :
  exists fp, l = fp ++ repeat 48 (tzc l 0) /\ strip_tz l = fp /\
             (fp = [] \/ exists p c, fp = p ++ [c] /\ c <> 48).
Proof.
  destruct (tzc_char l 0) as [[Hz Ht]|[p [c [Hl Hc]]]].
  - exists []. cbn [app]. rewrite Ht. cbn [Nat.add]. split; [exact Hz|]. split; [|left; reflexivity].
    rewrite Hz. apply strip_tz_zeros.
  - exists (p ++ [c]). split; [rewrite <- app_assoc; exact Hl|]. split.
    + rewrite Hl at 1. apply strip_tz_nz. exact Hc.
    + right. exists p, c. auto.
Qed.

(* ---------- numbers ---------- *)
Lemma dec_to_N_acc_zeros k a : dec_to_N_acc (repeat 48 k) a = a * 10 ^ N.of_nat k.
Proof.
  revert a. induction k as [|k IH]; intro a; cbn [repeat dec_to_N_acc].
  - cbn. lia.
  - rewrite IH, Nat2N.inj_succ, N.pow_succ_r'. lia.
Qed.

Lemma dec_to_N_app_zeros l k : dec_to_N (l ++ repeat 48 k) = dec_to_N l * 10 ^ N.of_nat k.
Proof. unfold dec_to_N. rewrite dec_to_N_acc_app, dec_to_N_acc_zeros. reflexivity. Qed.

Lemma dec_to_N_lead_zeros k l : dec_to_N (repeat 48 k ++ l) = dec_to_N l.
Proof.
  unfold dec_to_N. rewrite dec_to_N_acc_app, dec_to_N_acc_zeros. reflexivity.
Qed.

Lemma dec_to_N_snoc l c : dec_to_N (l ++ [c]) = 10 * dec_to_N l + (c - 48).
Proof. unfold dec_to_N. rewrite dec_to_N_acc_app. reflexivity. Qed.

Lemma sign_val_sgn sg m : sign_val sg m = (sgn sg * Z.of_N m)%Z.
Proof. unfold sign_val, sgn. destruct (beq_bytes sg [45]); lia. Qed.

Lemma sgn_cases sg : sgn sg = 1%Z \/ sgn sg = (-1)%Z.
Proof. unfold sgn. destruct (beq_bytes sg [45]); auto. Qed.

Lemma all_digit_app a b : all_digit a -> all_digit b -> all_digit (a ++ b).
Proof. unfold all_digit. intros Ha Hb. rewrite forallb_app, Ha, Hb. reflexivity. Qed.

Lemma all_digit_app_inv a b : all_digit (a ++ b) -> all_digit a /\ all_digit b.
Proof. unfold all_digit. rewrite forallb_app. intro H. apply andb_true_iff in H. exact H. Qed.

Lemma all_digit_zeros k : all_digit (repeat 48 k).
Proof. unfold all_digit. induction k as [|k IH]; cbn [repeat forallb]; [reflexivity|exact IH]. Qed.

(* ---------- the parser evaluated on a structurally decomposed value ----------
   value = pre rest with pre = sign digits and rest starting with a non-digit; what the index
   arithmetic of dec64_scan / dec64_finish amounts to *)

Definition dec64_tail (fd : nat) (pre rest : bytes) : res Z :=
  match rest with
  | [] => plg_parse_int (pre ++ repeat 48 fd) I64MIN_Z I64MAX_Z
  | c :: r2 =>
      if (c =? 46) && is_digit (hd 0 r2) then
        let fpa := fst (span_digits r2) in
        let r3 := snd (span_digits r2) in
        let fp := strip_tz fpa in
        if (fd <? length fp)%nat then Err E_FRAC
        else if (count_space r3 =? length r3)%nat
             then plg_parse_int (pre ++ fp ++ repeat 48 (fd - length fp)) I64MIN_Z I64MAX_Z
             else Err E_VALID
      else if (count_space rest =? length rest)%nat
           then plg_parse_int (pre ++ repeat 48 fd) I64MIN_Z I64MAX_Z
           else Err E_VALID
  end.

Lemma dec_head sg ip rest :
  is_sign sg -> all_digit ip -> ip <> [] ->
  exists c0 r0, (sg ++ ip) ++ rest = c0 :: r0 /\ is_space c0 = false /\
    (negb (is_digit c0) && negb (c0 =? 45) && negb (c0 =? 43)) = false /\
    (if (c0 =? 45) || (c0 =? 43) then 1%nat else 0%nat) = length sg /\
    (((c0 =? 45) || (c0 =? 43)) &&
     ((length sg =? length (c0 :: r0))%nat || negb (is_digit (rd (c0 :: r0) (length sg))))) = false.
Proof.
  intros Hsg Hip Hne.
  destruct ip as [|d ip']; [congruence|].
  unfold all_digit in Hip. cbn [forallb] in Hip. apply andb_true_iff in Hip. destruct Hip as [Hd _].
  destruct Hsg as [-> | [-> | ->]].
  - exists d, (ip' ++ rest). cbn [app length]. pose proof (digit_not_space d Hd) as Hns.
    split; [reflexivity|]. split; [exact Hns|]. rewrite Hd.
    unfold is_digit in Hd. destruct (d =? 45) eqn:E1; [lia|]. destruct (d =? 43) eqn:E2; [lia|].
    repeat split; reflexivity.
  - exists 43, (d :: ip' ++ rest). unfold rd. cbn [app length nth Nat.eqb]. rewrite Hd. repeat split; reflexivity.
  - exists 45, (d :: ip' ++ rest). unfold rd. cbn [app length nth Nat.eqb]. rewrite Hd. repeat split; reflexivity.
Qed.

Lemma scan_eval sg ip rest :
  all_digit ip -> head_nondigit rest ->
  dec64_scan ((sg ++ ip) ++ rest) (length sg) =
  let len2 := length (sg ++ ip) in
  match rest with
  | [] => (len2, (len2 + 1)%nat, 0%nat)
  | c :: r2 =>
      if (c =? 46) && is_digit (hd 0 r2)
      then let fpa := fst (span_digits r2) in
           (len2, (len2 + 1 + length fpa - tzc fpa 0)%nat, tzc fpa 0)
      else (0%nat, len2, 0%nat)
  end.
Proof.
  intros Hip Hrest. unfold dec64_scan. cbv zeta.
  assert (Hl2 : (length sg + count_digits (skipn (length sg) ((sg ++ ip) ++ rest)))%nat = length (sg ++ ip)).
  { rewrite <- (app_assoc sg ip rest), skipn_app_len, (count_digits_app ip rest Hip Hrest), app_length. reflexivity. }
  rewrite !Hl2. clear Hl2.
  set (pre := sg ++ ip).
  assert (H1 : rd (pre ++ rest) (length pre + 1) = nth 1 rest 0) by (unfold rd; apply nth_app_len).
  assert (H0 : rd (pre ++ rest) (length pre) = nth 0 rest 0).
  { unfold rd. rewrite <- (Nat.add_0_r (length pre)) at 1. apply nth_app_len. }
  rewrite H0, H1, app_length. clear H0 H1.
  destruct rest as [|c r2].
  - cbn [length]. replace (length pre <? length pre + 0)%nat with false by (symmetry; apply Nat.ltb_ge; lia).
    cbn [andb]. rewrite skipn_all2 by (rewrite app_length; cbn [length]; lia).
    cbn [scan_frac]. f_equal. f_equal. lia.
  - cbn [length]. replace (length pre <? length pre + S (length r2))%nat with true by (symmetry; apply Nat.ltb_lt; lia).
    cbn [andb nth].
    replace (nth 0 r2 0) with (hd 0 r2) by (destruct r2; reflexivity).
    destruct ((c =? 46) && is_digit (hd 0 r2)) eqn:Hdot.
    + apply andb_true_iff in Hdot. destruct Hdot as [H46 Hdg].
      (* a digit follows the period, so the period is not the last byte of the value *)
      assert (Hnl : (length pre + 1 =? length pre + S (length r2))%nat = false).
      { destruct r2 as [|d r2']; [vm_compute in Hdg; discriminate|]. cbn [length]. apply Nat.eqb_neq. lia. }
      rewrite H46, Hnl, Hdg. cbn [negb orb].
      change (c :: r2) with ([c] ++ r2). rewrite app_assoc.
      rewrite (skipn_app_len' (pre ++ [c]) r2) by (rewrite app_length; cbn [length]; lia).
      pose proof (span_digits_split r2) as [Hr2 [Hd Hh]].
      rewrite Hr2 at 1. rewrite (scan_frac_app _ _ 0 0 Hd Hh). cbn [Nat.add]. reflexivity.
    + apply andb_false_iff in Hdot. destruct Hdot as [H|H]; rewrite H; cbn [negb orb]; [reflexivity|].
      rewrite !orb_true_r. reflexivity.
Qed.

(* finishing when no fraction was recognised *)
Lemma finish_nofrac fd pre rest :
  dec64_finish fd (pre ++ rest) 0 (length pre) 0 =
  if (count_space rest =? length rest)%nat
  then plg_parse_int (pre ++ repeat 48 fd) I64MIN_Z I64MAX_Z else Err E_VALID.
Proof.
  unfold dec64_finish. cbv zeta. cbn [Nat.eqb negb andb]. rewrite Nat.add_0_r, skipn_app_len, firstn_app_len, app_length.
  destruct (length pre <? length pre + length rest)%nat eqn:Hlt.
  - replace (length pre + count_space rest =? length pre + length rest)%nat with (count_space rest =? length rest)%nat
      by (destruct (count_space rest =? length rest)%nat eqn:E; symmetry; [apply Nat.eqb_eq in E; apply Nat.eqb_eq; lia|apply Nat.eqb_neq in E; apply Nat.eqb_neq; lia]).
    destruct (count_space rest =? length rest)%nat; reflexivity.
  - apply Nat.ltb_ge in Hlt. destruct rest; [|cbn [length] in Hlt; lia]. reflexivity.
Qed.

(* finishing after a fraction: value = pre mid, mid empty or one byte (the period) followed by the
   significant fraction digits, tz zeros and the rest *)
Lemma finish_frac fd pre mid fp tz r3 :
  (0 < length pre)%nat ->
  (mid = [] /\ fp = [] /\ tz = 0%nat /\ r3 = []) \/ (exists c, mid = c :: fp ++ repeat 48 tz ++ r3) ->
  dec64_finish fd (pre ++ mid) (length pre) (length pre + 1 + length fp) tz =
  if (fd <? length fp)%nat then Err E_FRAC
  else if (count_space r3 =? length r3)%nat
       then plg_parse_int (pre ++ fp ++ repeat 48 (fd - length fp)) I64MIN_Z I64MAX_Z else Err E_VALID.
Proof.
  intros Hpre Hmid. unfold dec64_finish. cbv zeta.
  replace (length pre =? 0)%nat with false by (symmetry; apply Nat.eqb_neq; lia). cbn [negb andb].
  replace (length pre + 1 + length fp - 1 - length pre)%nat with (length fp) by lia.
  destruct (fd <? length fp)%nat; [reflexivity|].
  rewrite firstn_app_len.
  destruct Hmid as [[-> [-> [-> ->]]]|[c ->]].
  - cbn [length app]. rewrite app_nil_r.
    replace (length pre + 1 + 0 + 0 <? length pre)%nat with false by (symmetry; apply Nat.ltb_ge; lia).
    cbn [negb Nat.eqb firstn app]. reflexivity.
  - change (c :: fp ++ repeat 48 tz ++ r3) with ([c] ++ fp ++ repeat 48 tz ++ r3).
    rewrite (app_assoc pre [c]).
    rewrite (skipn_app_len' (pre ++ [c]) _ (length pre + 1)) by (rewrite app_length; cbn [length]; lia).
    rewrite firstn_app_len.
    rewrite (app_assoc fp), (app_assoc (pre ++ [c])).
    rewrite (skipn_app_len' ((pre ++ [c]) ++ fp ++ repeat 48 tz) _ (length pre + 1 + length fp + tz)) by (rewrite !app_length, repeat_length; cbn [length]; lia).
    rewrite !app_length, repeat_length. cbn [length].
    destruct (length pre + 1 + length fp + tz <? length pre + 1 + (length fp + tz) + length r3)%nat eqn:Hlt.
    + replace (length pre + 1 + length fp + tz + count_space r3 =? length pre + 1 + (length fp + tz) + length r3)%nat with (count_space r3 =? length r3)%nat
      by (destruct (count_space r3 =? length r3)%nat eqn:E; symmetry; [apply Nat.eqb_eq in E; apply Nat.eqb_eq; lia|apply Nat.eqb_neq in E; apply Nat.eqb_neq; lia]).
      destruct (count_space r3 =? length r3)%nat; reflexivity.
    + apply Nat.ltb_ge in Hlt. destruct r3; [|cbn [length] in Hlt; lia]. reflexivity.
Qed.

Lemma dec64_parse_eval fd ws1 sg ip rest :
  all_space ws1 -> is_sign sg -> all_digit ip -> ip <> [] -> head_nondigit rest ->
  dec64_parse fd (ws1 ++ (sg ++ ip) ++ rest) = dec64_tail fd (sg ++ ip) rest.
Proof.
  intros Hws1 Hsg Hip Hne Hrest.
  unfold dec64_parse. cbv zeta. rewrite skip_space_app_ws by exact Hws1.
  destruct (dec_head sg ip rest Hsg Hip Hne) as [c0 [r0 [Hc [Hsp [Hchk [Hlen1 Hsign]]]]]].
  rewrite Hc. rewrite (skip_space_id c0 r0 Hsp). cbv beta iota.
  rewrite Hchk, Hlen1, Hsign. rewrite <- Hc.
  assert (Hpre : (0 < length (sg ++ ip))%nat).
  { destruct (sg ++ ip) eqn:E; [|cbn; lia]. apply app_eq_nil in E. destruct E; congruence. }
  rewrite (scan_eval sg ip rest Hip Hrest). cbv zeta.
  set (pre := sg ++ ip) in *.
  destruct rest as [|c r2].
  - replace (length pre + 1)%nat with (length pre + 1 + length (@nil N))%nat by (cbn [length]; lia).
    rewrite (finish_frac fd pre [] [] 0 []) by (auto 10).
    cbn [length Nat.ltb Nat.leb count_space Nat.eqb app dec64_tail]. rewrite Nat.sub_0_r. reflexivity.
  - cbn [dec64_tail]. destruct ((c =? 46) && is_digit (hd 0 r2)) eqn:Hdot.
    + cbv zeta.
      pose proof (span_digits_split r2) as [Hr2 [Hd Hh]].
      set (fpa := fst (span_digits r2)) in *. set (r3 := snd (span_digits r2)) in *.
      destruct (frac_norm fpa) as [fp [Hfpa [Hstrip _]]].
      rewrite Hstrip.
      assert (Hlen : (length pre + 1 + length fpa - tzc fpa 0 = length pre + 1 + length fp)%nat).
      { rewrite Hfpa at 1. rewrite app_length, repeat_length. lia. }
      rewrite Hlen.
      rewrite (finish_frac fd pre (c :: r2) fp (tzc fpa 0) r3 Hpre); [reflexivity|].
      right. exists c. f_equal. rewrite app_assoc, <- Hfpa. exact Hr2.
    + apply finish_nofrac.
Qed.

(* a sign that is not followed by a digit: LY_EVALID (the test added by commit f933623) *)
Lemma dec64_parse_sign_nodigit fd ws1 sg rest :
  all_space ws1 -> is_sign sg -> sg <> [] -> head_nondigit rest ->
  dec64_parse fd (ws1 ++ sg ++ rest) = Err E_VALID.
Proof.
  intros Hws1 Hsg Hne Hrest.
  unfold dec64_parse. cbv zeta. rewrite skip_space_app_ws by exact Hws1.
  destruct Hsg as [-> | [-> | ->]]; [congruence| |]; cbn [app];
    rewrite skip_space_id by reflexivity; cbv beta iota;
    (destruct rest as [|c r]; [reflexivity|]); cbn [head_nondigit] in Hrest.
  - change (is_digit 43) with false. change (43 =? 45) with false. change (43 =? 43) with true.
    cbn [negb andb orb]. unfold rd. cbn [nth length Nat.eqb]. rewrite Hrest. reflexivity.
  - change (is_digit 45) with false. change (45 =? 45) with true.
    cbn [negb andb orb]. unfold rd. cbn [nth length Nat.eqb]. rewrite Hrest. reflexivity.
Qed.

(* ---------- arithmetic of the scaling ---------- *)
Lemma pow10_pos k : (0 < 10 ^ Z.of_nat k)%Z.
Proof. apply Z.pow_pos_nonneg; lia. Qed.

Lemma pow10_add a b : (10 ^ Z.of_nat (a + b) = 10 ^ Z.of_nat a * 10 ^ Z.of_nat b)%Z.
Proof. rewrite Nat2Z.inj_add, Z.pow_add_r by lia. reflexivity. Qed.

Lemma ZofN_dec_zeros l k :
  Z.of_N (dec_to_N (l ++ repeat 48 k)) = (Z.of_N (dec_to_N l) * 10 ^ Z.of_nat k)%Z.
Proof. rewrite dec_to_N_app_zeros, N2Z.inj_mul, N2Z.inj_pow, nat_N_Z. reflexivity. Qed.

(* n is the significant digits scaled up  <->  the written number times 10^fd is n *)
Lemma scale_iff (sigma A n : Z) (fd lf tz : nat) :
  (lf <= fd)%nat ->
  ((sigma * (A * 10 ^ Z.of_nat tz) * 10 ^ Z.of_nat fd = n * 10 ^ Z.of_nat (lf + tz))%Z <->
   n = (sigma * (A * 10 ^ Z.of_nat (fd - lf)))%Z).
Proof.
  intro Hle. replace fd with ((fd - lf) + lf)%nat at 1 by lia.
  rewrite !pow10_add.
  pose proof (pow10_pos tz) as H1. pose proof (pow10_pos lf) as H2.
  set (x := (10 ^ Z.of_nat tz)%Z) in *. set (y := (10 ^ Z.of_nat lf)%Z) in *.
  set (z := (10 ^ Z.of_nat (fd - lf))%Z) in *.
  split; intro H.
  - assert (H3 : ((sigma * (A * z)) * (x * y) = n * (x * y))%Z) by lia.
    apply Z.mul_cancel_r in H3; lia.
  - subst n. lia.
Qed.

(* more significant fraction digits than fraction-digits: the number is not in the value space *)
Lemma frac_fits (sigma A B d n : Z) (fd lf tz : nat) :
  (sigma = 1 \/ sigma = -1)%Z -> (A = 10 * B + d)%Z -> (1 <= d <= 9)%Z ->
  (sigma * (A * 10 ^ Z.of_nat tz) * 10 ^ Z.of_nat fd = n * 10 ^ Z.of_nat (lf + tz))%Z ->
  (lf <= fd)%nat.
Proof.
  intros Hs HA Hd H.
  destruct (le_lt_dec lf fd) as [Hle|Hlt]; [exact Hle|exfalso].
  replace lf with (fd + S (lf - fd - 1))%nat in H by lia.
  rewrite !pow10_add in H. rewrite Nat2Z.inj_succ, Z.pow_succ_r in H by lia.
  pose proof (pow10_pos tz) as H1. pose proof (pow10_pos fd) as H2.
  set (x := (10 ^ Z.of_nat tz)%Z) in *. set (y := (10 ^ Z.of_nat fd)%Z) in *.
  set (z := (10 ^ Z.of_nat (lf - fd - 1))%Z) in *.
  assert (H3 : ((sigma * A) * (x * y) = (n * (10 * z)) * (x * y))%Z) by lia.
  apply Z.mul_cancel_r in H3; [|lia].
  destruct Hs as [-> | ->]; lia.
Qed.

(* ---------- the integer parse of valcopy ---------- *)
Lemma valcopy_parse sg ip fp k n :
  is_sign sg -> all_digit ip -> all_digit fp -> (ip ++ fp ++ repeat 48 k <> []) ->
  (plg_parse_int ((sg ++ ip) ++ fp ++ repeat 48 k) I64MIN_Z I64MAX_Z = Ok n <->
   n = (sgn sg * (Z.of_N (dec_to_N (ip ++ fp)) * 10 ^ Z.of_nat k))%Z /\ (I64MIN_Z <= n <= I64MAX_Z)%Z).
Proof.
  intros Hsg Hip Hfp Hne.
  rewrite <- (app_assoc sg ip).
  rewrite (plg_parse_int_core sg (ip ++ fp ++ repeat 48 k) I64MIN_Z I64MAX_Z n);
    [|unfold I64MIN_Z; rewrite I64MAX_val; lia|unfold I64MAX_Z; rewrite I64MAX_val; lia|exact Hsg|exact Hne|
     apply all_digit_app; [exact Hip|apply all_digit_app; [exact Hfp|apply all_digit_zeros]]].
  rewrite sign_val_sgn, (app_assoc ip fp), ZofN_dec_zeros. reflexivity.
Qed.

Lemma dec_decomp c0 r0 :
  (negb (is_digit c0) && negb (c0 =? 45) && negb (c0 =? 43)) = false ->
  exists sg ip rest, c0 :: r0 = (sg ++ ip) ++ rest /\ is_sign sg /\ all_digit ip /\
                     (ip <> [] \/ sg <> []) /\ head_nondigit rest.
Proof.
  intro Hchk. unfold is_sign.
  destruct (c0 =? 45) eqn:H45; [|destruct (c0 =? 43) eqn:H43].
  - pose proof (span_digits_split r0) as [Hr [Hd Hh]].
    exists [45], (fst (span_digits r0)), (snd (span_digits r0)).
    cbn [app]. rewrite <- Hr. repeat split; auto; [f_equal; lia|right; discriminate].
  - pose proof (span_digits_split r0) as [Hr [Hd Hh]].
    exists [43], (fst (span_digits r0)), (snd (span_digits r0)).
    cbn [app]. rewrite <- Hr. repeat split; auto; [f_equal; lia|right; discriminate].
  - assert (Hd0 : is_digit c0 = true) by (destruct (is_digit c0); [reflexivity|discriminate]).
    pose proof (span_digits_split (c0 :: r0)) as [Hr [Hd Hh]].
    exists [], (fst (span_digits (c0 :: r0))), (snd (span_digits (c0 :: r0))).
    cbn [app]. rewrite <- Hr. repeat split; auto.
    left. cbn [span_digits]. rewrite Hd0. destruct (span_digits r0). cbn [fst]. discriminate.
Qed.

Lemma space_not_dot w : is_space w = true -> (w =? 46) = false.
Proof. unfold is_space. lia. Qed.

(* ---------- completeness: every value of the RFC language (between white space) is stored ---------- *)
Lemma dec64_parse_complete fd s n :
  (1 <= fd)%nat -> rfc_ws_dec64_lex fd s n -> (I64MIN_Z <= n <= I64MAX_Z)%Z ->
  dec64_parse fd s = Ok n.
Proof.
  intros Hfd Hlex Hb.
  destruct Hlex as [ws1 core ws2 n Hws1 Hws2 Hcore].
  destruct Hcore as [sg ip ft fp n Hsg Hne Hip Hft Hden].
  replace (ws1 ++ (sg ++ ip ++ ft) ++ ws2) with (ws1 ++ (sg ++ ip) ++ (ft ++ ws2))
    by (rewrite <- !app_assoc; reflexivity).
  unfold dec64_denotes in Hden.
  destruct Hft as [|fpa Hfne Hfd1].
  - (* no fraction *)
    cbn [app length] in *. rewrite app_nil_r in Hden.
    assert (Hh : head_nondigit ws2).
    { destruct ws2 as [|w ws2']; cbn [head_nondigit]; [exact I|].
      unfold all_space in Hws2. cbn [forallb] in Hws2. apply andb_true_iff in Hws2. apply space_not_digit. tauto. }
    rewrite (dec64_parse_eval fd ws1 sg ip ws2 Hws1 Hsg Hip Hne Hh).
    assert (Hp : plg_parse_int ((sg ++ ip) ++ repeat 48 fd) I64MIN_Z I64MAX_Z = Ok n).
    { change (repeat 48 fd) with ([] ++ repeat 48 fd).
      apply valcopy_parse; [exact Hsg|exact Hip|reflexivity| |].
      - destruct fd; [lia|]. cbn [repeat app]. intro E. apply app_eq_nil in E. destruct E; discriminate.
      - rewrite app_nil_r. split; [|exact Hb]. cbn [Z.of_nat Z.pow] in Hden. lia. }
    destruct ws2 as [|w ws2']; cbn [dec64_tail]; [exact Hp|].
    assert (Hw : is_space w = true).
    { unfold all_space in Hws2. cbn [forallb] in Hws2. apply andb_true_iff in Hws2. tauto. }
    rewrite (space_not_dot w Hw). cbn [andb].
    apply count_space_all in Hws2. rewrite Hws2. exact Hp.
  - (* period and digits *)
    assert (Hh : head_nondigit ((46 :: fpa) ++ ws2)) by reflexivity.
    rewrite (dec64_parse_eval fd ws1 sg ip _ Hws1 Hsg Hip Hne Hh).
    cbn [app dec64_tail]. rewrite N.eqb_refl.
    destruct fpa as [|d fpa']; [congruence|].
    assert (Hd : is_digit d = true).
    { unfold all_digit in Hfd1. cbn [forallb] in Hfd1. apply andb_true_iff in Hfd1. tauto. }
    cbn [app hd]. rewrite Hd. cbn [andb]. cbv zeta.
    assert (Hh2 : head_nondigit ws2).
    { destruct ws2 as [|w ws2']; cbn [head_nondigit]; [exact I|].
      unfold all_space in Hws2. cbn [forallb] in Hws2. apply andb_true_iff in Hws2. apply space_not_digit. tauto. }
    change (d :: fpa' ++ ws2) with ((d :: fpa') ++ ws2).
    rewrite (span_digits_app (d :: fpa') ws2 Hfd1 Hh2). cbn [fst snd].
    set (fpa := d :: fpa') in *.
    destruct (frac_norm fpa) as [fp [Hfpa [Hstrip Hshape]]].
    rewrite Hstrip.
    set (tz := tzc fpa 0) in *.
    assert (Hdig : all_digit fp) by (rewrite Hfpa in Hfd1; apply all_digit_app_inv in Hfd1; tauto).
    assert (Hlen : length fpa = (length fp + tz)%nat) by (rewrite Hfpa at 1; rewrite app_length, repeat_length; reflexivity).
    rewrite Hfpa in Hden at 1. rewrite (app_assoc ip fp), ZofN_dec_zeros, Hlen in Hden.
    assert (Hfit : (length fp <= fd)%nat).
    { destruct Hshape as [->|[p [c [Hfp Hc]]]]; [cbn [length]; lia|].
      rewrite Hfp in Hdig. apply all_digit_app_inv in Hdig. destruct Hdig as [_ Hcd].
      unfold all_digit in Hcd. cbn [forallb] in Hcd. rewrite andb_true_r in Hcd.
      apply (frac_fits (sgn sg) (Z.of_N (dec_to_N (ip ++ fp))) (Z.of_N (dec_to_N (ip ++ p))) (Z.of_N (c - 48)) n fd (length fp) tz);
        [apply sgn_cases| |unfold is_digit in Hcd; lia|exact Hden].
      rewrite Hfp, (app_assoc ip p), dec_to_N_snoc. lia. }
    replace (fd <? length fp)%nat with false by (symmetry; apply Nat.ltb_ge; exact Hfit).
    apply count_space_all in Hws2. rewrite Hws2.
    apply valcopy_parse; [exact Hsg|exact Hip|exact Hdig| |].
    + subst fpa. intro E. apply app_eq_nil in E. destruct E as [_ E]. apply app_eq_nil in E. destruct E as [E1 E2].
      rewrite E1 in E2. cbn [length] in E2. rewrite Nat.sub_0_r in E2. destruct fd; [lia|]. discriminate E2.
    + split; [|exact Hb]. apply (scale_iff _ _ _ fd (length fp) tz Hfit). exact Hden.
Qed.

(* ---------- soundness: what is stored belongs to the RFC language (between white space) ---------- *)
Lemma dec64_parse_sound fd s n :
  (1 <= fd)%nat ->
  dec64_parse fd s = Ok n -> rfc_ws_dec64_lex fd s n /\ (I64MIN_Z <= n <= I64MAX_Z)%Z.
Proof.
  intros Hfd H.
  destruct (skip_space_split s) as [ws1 [Hs Hws1]].
  assert (Hval : exists c0 r0, skip_space s = c0 :: r0 /\
                 (negb (is_digit c0) && negb (c0 =? 45) && negb (c0 =? 43)) = false).
  { unfold dec64_parse in H. cbv zeta in H. destruct (skip_space s) as [|c0 r0]; [discriminate|].
    exists c0, r0. split; [reflexivity|].
    destruct (negb (is_digit c0) && negb (c0 =? 45) && negb (c0 =? 43)); [discriminate|reflexivity]. }
  destruct Hval as [c0 [r0 [Hsk Hchk]]].
  destruct (dec_decomp c0 r0 Hchk) as [sg [ip [rest [Hv [Hsg [Hip [Hne0 Hrest]]]]]]].
  rewrite Hsk, Hv in Hs. rewrite Hs in H |- *.
  (* a sign must be followed by a digit: with no digit the value is rejected *)
  assert (Hne : ip <> []).
  { intro Hnil. subst ip. destruct Hne0 as [Hne0|Hne0]; [congruence|].
    rewrite app_nil_r in H. rewrite (dec64_parse_sign_nodigit fd ws1 sg rest Hws1 Hsg Hne0 Hrest) in H.
    discriminate H. }
  clear Hne0.
  rewrite (dec64_parse_eval fd ws1 sg ip rest Hws1 Hsg Hip Hne Hrest) in H.
  assert (Hnofrac : forall ws2, all_space ws2 ->
            plg_parse_int ((sg ++ ip) ++ repeat 48 fd) I64MIN_Z I64MAX_Z = Ok n ->
            rfc_ws_dec64_lex fd (ws1 ++ (sg ++ ip) ++ ws2) n /\ (I64MIN_Z <= n <= I64MAX_Z)%Z).
  { intros ws2 Hws2 Hp.
    change (repeat 48 fd) with ([] ++ repeat 48 fd) in Hp.
    apply valcopy_parse in Hp; [|exact Hsg|exact Hip|reflexivity|].
    - destruct Hp as [Hn Hb]. split; [|exact Hb].
      replace ((sg ++ ip) ++ ws2) with ((sg ++ ip ++ []) ++ ws2) by (rewrite app_nil_r; reflexivity).
      apply WsAround; [exact Hws1|exact Hws2|].
      apply RfcDec with (fp := []); [exact Hsg|exact Hne|exact Hip|apply FracNone|].
      unfold dec64_denotes. cbn [length Z.of_nat Z.pow]. rewrite app_nil_r in Hn |- *. lia.
    - destruct fd; [lia|]. cbn [repeat app]. intro E. apply app_eq_nil in E. destruct E; discriminate. }
  destruct rest as [|c r2]; cbn [dec64_tail] in H.
  - apply (Hnofrac [] eq_refl H).
  - destruct ((c =? 46) && is_digit (hd 0 r2)) eqn:Hdot.
    + cbv zeta in H. apply andb_true_iff in Hdot. destruct Hdot as [H46 Hdg].
      assert (Hc : c = 46) by lia. subst c.
      pose proof (span_digits_split r2) as [Hr2 [Hd Hh]].
      set (fpa := fst (span_digits r2)) in *. set (r3 := snd (span_digits r2)) in *.
      assert (Hfne : fpa <> []).
      { destruct r2 as [|d r2']; cbn [hd] in Hdg; [vm_compute in Hdg; discriminate Hdg|].
        subst fpa. cbn [span_digits]. rewrite Hdg. destruct (span_digits r2'). cbn [fst]. discriminate. }
      destruct (frac_norm fpa) as [fp [Hfpa [Hstrip Hshape]]].
      rewrite Hstrip in H. set (tz := tzc fpa 0) in *.
      destruct (fd <? length fp)%nat eqn:Hfit; [discriminate|]. apply Nat.ltb_ge in Hfit.
      destruct (count_space r3 =? length r3)%nat eqn:Hsp; [|discriminate].
      apply count_space_all in Hsp.
      assert (Hdig : all_digit fp).
      { unfold all_digit in Hd. fold (all_digit fpa) in Hd. rewrite Hfpa in Hd. apply all_digit_app_inv in Hd. tauto. }
      apply valcopy_parse in H; [|exact Hsg|exact Hip|exact Hdig|].
      * destruct H as [Hn Hb]. split; [|exact Hb].
        rewrite Hr2.
        replace ((sg ++ ip) ++ 46 :: fpa ++ r3) with ((sg ++ ip ++ 46 :: fpa) ++ r3)
          by (rewrite <- !app_assoc; reflexivity).
        apply WsAround; [exact Hws1|exact Hsp|].
        apply RfcDec with (fp := fpa); [exact Hsg|exact Hne|exact Hip|apply FracSome; [exact Hfne|exact Hd]|].
        unfold dec64_denotes.
        assert (Hlen : length fpa = (length fp + tz)%nat) by (rewrite Hfpa at 1; rewrite app_length, repeat_length; reflexivity).
        rewrite Hfpa at 1. rewrite (app_assoc ip fp), ZofN_dec_zeros, Hlen.
        apply (scale_iff _ _ _ fd (length fp) tz Hfit). exact Hn.
      * intro E. apply app_eq_nil in E. destruct E as [_ E]. apply app_eq_nil in E. destruct E as [E1 E2].
        rewrite E1 in E2. cbn [length] in E2. rewrite Nat.sub_0_r in E2. destruct fd; [lia|]. discriminate E2.
    + destruct (count_space (c :: r2) =? length (c :: r2))%nat eqn:Hsp; [|discriminate].
      apply count_space_all in Hsp. apply (Hnofrac _ Hsp H).
Qed.

(* ---------- canonical form ---------- *)
Definition sg_of (n : Z) : bytes := if (n <? 0)%Z then [45] else [].

Lemma sgn_sg_of n : (sgn (sg_of n) * Z.of_N (Z.abs_N n) = n)%Z.
Proof.
  unfold sg_of, sgn. destruct (n <? 0)%Z eqn:E.
  - change (beq_bytes [45] [45]) with true. cbv iota. lia.
  - change (beq_bytes [] [45]) with false. cbv iota. lia.
Qed.

Lemma dec64_canon_decomp fd n :
  (1 <= fd)%nat -> n <> 0%Z ->
  exists ip fp,
    dec64_canon fd n = sg_of n ++ ip ++ 46 :: fp /\
    all_digit ip /\ (ip = [48] \/ exists d r, ip = d :: r /\ d <> 48) /\
    all_digit fp /\ fp <> [] /\ (fp = [48] \/ exists p d, fp = p ++ [d] /\ d <> 48) /\
    dec64_denotes fd (sg_of n) ip fp n.
Proof.
  intros Hfd Hn. unfold dec64_canon.
  replace (n =? 0)%Z with false by (symmetry; apply Z.eqb_neq; exact Hn).
  cbv zeta. fold (sg_of n).
  destruct (N_to_dec_pos (Z.abs_N n) ltac:(lia)) as [c [r [Hds0 [Hdig0 [Hc Hval0]]]]].
  rewrite Hds0.
  set (ds0 := c :: r) in *.
  set (z := (S fd - length ds0)%nat).
  set (ds := repeat 48 z ++ ds0).
  assert (Hlen : length ds = (z + length ds0)%nat) by (unfold ds; rewrite app_length, repeat_length; reflexivity).
  set (k := (length ds - fd)%nat).
  assert (Hk : (1 <= k)%nat) by (unfold k, z in *; lia).
  assert (Hdsd : all_digit ds) by (apply all_digit_app; [apply all_digit_zeros|exact Hdig0]).
  assert (Hdsv : dec_to_N ds = Z.abs_N n) by (unfold ds; rewrite dec_to_N_lead_zeros; exact Hval0).
  pose proof (firstn_skipn k ds) as Hsplit.
  set (ip := firstn k ds) in *. set (fr := skipn k ds) in *.
  assert (Hfrl : length fr = fd) by (unfold fr; rewrite skipn_length; unfold k; lia).
  rewrite <- Hsplit in Hdsd. apply all_digit_app_inv in Hdsd. destruct Hdsd as [Hipd Hfrd].
  destruct fr as [|c' r'] eqn:Hfr; [cbn [length] in Hfrl; lia|].
  cbn [frac_canon].
  destruct (frac_norm r') as [fpr [Hr' [Hstrip Hshape]]]. rewrite Hstrip.
  set (tz := tzc r' 0) in *.
  exists ip, (c' :: fpr).
  assert (Hfpd : all_digit (c' :: fpr)).
  { rewrite Hr' in Hfrd. change (c' :: fpr ++ repeat 48 tz) with ((c' :: fpr) ++ repeat 48 tz) in Hfrd.
    apply all_digit_app_inv in Hfrd. tauto. }
  split; [reflexivity|]. split; [exact Hipd|]. split.
  { (* integer part: a single 0 or no leading zero *)
    unfold ip. destruct z as [|z'] eqn:Hz.
    - right. unfold ds. cbn [repeat app]. unfold ds0. destruct k as [|k']; [lia|]. cbn [firstn].
      exists c, (firstn k' r). auto.
    - left. assert (Hk1 : k = 1%nat) by (unfold k; unfold z in Hz; lia).
      rewrite Hk1. unfold ds. cbn [repeat app firstn]. reflexivity. }
  split; [exact Hfpd|]. split; [discriminate|]. split.
  { destruct Hshape as [->|[p [d [-> Hd]]]].
    - destruct (N.eq_dec c' 48) as [->|Hc']; [left; reflexivity|right; exists [], c'; auto].
    - right. exists (c' :: p), d. auto. }
  (* the number *)
  unfold dec64_denotes.
  assert (Hfd2 : fd = (length (c' :: fpr) + tz)%nat).
  { rewrite <- Hfrl. rewrite Hr' at 1. cbn [length]. rewrite app_length, repeat_length. lia. }
  assert (Hdsv2 : Z.of_N (Z.abs_N n) = (Z.of_N (dec_to_N (ip ++ c' :: fpr)) * 10 ^ Z.of_nat tz)%Z).
  { rewrite <- Hdsv, <- Hsplit, <- ZofN_dec_zeros. f_equal. f_equal. rewrite <- app_assoc. f_equal.
    cbn [app]. f_equal. exact Hr'. }
  rewrite Hfd2 at 1. rewrite pow10_add.
  pose proof (sgn_sg_of n) as Hsgn. rewrite Hdsv2 in Hsgn.
  set (x := (10 ^ Z.of_nat (length (c' :: fpr)))%Z) in *. set (y := (10 ^ Z.of_nat tz)%Z) in *.
  set (A := Z.of_N (dec_to_N (ip ++ c' :: fpr))) in *. rewrite <- Hsgn at 2. ring.
Qed.

Lemma dec64_canon_zero fd : dec64_canon fd 0 = [48; 46; 48].
Proof. reflexivity. Qed.

Theorem dec64_canon_is_rfc fd n : (1 <= fd)%nat -> rfc_dec64_canonical (dec64_canon fd n).
Proof.
  intro Hfd. unfold rfc_dec64_canonical.
  destruct (Z.eq_dec n 0) as [->|Hn].
  - exists [], [48], [48]. rewrite dec64_canon_zero. cbn [app].
    repeat split; auto. intro H; discriminate.
  - destruct (dec64_canon_decomp fd n Hfd Hn) as [ip [fp [Heq [Hipd [Hipc [Hfpd [_ [Hfpc Hden]]]]]]]].
    exists (sg_of n), ip, fp. repeat split; auto.
    + unfold sg_of. destruct (n <? 0)%Z; auto.
    + intros _ [-> ->]. unfold dec64_denotes in Hden.
      change (Z.of_N (dec_to_N ([48] ++ [48]))) with 0%Z in Hden.
      cbn [length] in Hden. change (10 ^ Z.of_nat 1)%Z with 10%Z in Hden. lia.
Qed.

Lemma dec64_canon_lex fd n : (1 <= fd)%nat -> rfc_dec64_lex fd (dec64_canon fd n) n.
Proof.
  intro Hfd. destruct (Z.eq_dec n 0) as [->|Hn].
  - rewrite dec64_canon_zero. change [48; 46; 48] with ([] ++ [48] ++ [46; 48]).
    apply RfcDec with (fp := [48]); [left; reflexivity|discriminate|reflexivity|apply FracSome; [discriminate|reflexivity]|].
    unfold dec64_denotes. change (Z.of_N (dec_to_N ([48] ++ [48]))) with 0%Z. lia.
  - destruct (dec64_canon_decomp fd n Hfd Hn) as [ip [fp [Heq [Hipd [Hipc [Hfpd [Hfne [_ Hden]]]]]]]].
    rewrite Heq. apply RfcDec with (fp := fp); auto.
    + unfold sg_of, is_sign. destruct (n <? 0)%Z; auto.
    + destruct Hipc as [->|[d [r [-> _]]]]; discriminate.
    + apply FracSome; assumption.
Qed.

Lemma ws_around_id (P : bytes -> Z -> Prop) c n : P c n -> ws_around P c n.
Proof.
  intro H. replace c with ([] ++ c ++ []) by (cbn [app]; apply app_nil_r).
  apply WsAround; [reflexivity|reflexivity|exact H].
Qed.

(* storing the canonical string gives the value back *)
Theorem dec64_canon_parse fd n :
  (1 <= fd)%nat -> (I64MIN_Z <= n <= I64MAX_Z)%Z ->
  dec64_parse fd (dec64_canon fd n) = Ok n.
Proof.
  intros Hfd Hb. apply dec64_parse_complete; [exact Hfd| |exact Hb].
  apply ws_around_id. apply dec64_canon_lex. exact Hfd.
Qed.

Theorem dec64_canon_store fd parts n :
  (1 <= fd)%nat -> (I64MIN_Z <= n <= I64MAX_Z)%Z -> validate_range parts n = true ->
  dec64_store fd parts (dec64_canon fd n) = Ok n.
Proof.
  intros Hfd Hb Hr. unfold dec64_store. rewrite (dec64_canon_parse fd n Hfd Hb), Hr. reflexivity.
Qed.

Theorem dec64_eq_iff_canon fd a b :
  (1 <= fd)%nat -> (I64MIN_Z <= a <= I64MAX_Z)%Z -> (I64MIN_Z <= b <= I64MAX_Z)%Z ->
  (dec64_compare a b = true <-> dec64_canon fd a = dec64_canon fd b).
Proof.
  intros Hfd Ha Hb. unfold dec64_compare. split.
  - intro H. apply Z.eqb_eq in H. subst. reflexivity.
  - intro H. apply Z.eqb_eq.
    pose proof (dec64_canon_parse fd a Hfd Ha) as Pa. pose proof (dec64_canon_parse fd b Hfd Hb) as Pb.
    rewrite H in Pa. congruence.
Qed.

Theorem dec64_sort_total_order :
  (forall a, dec64_sort a a = Eq) /\
  (forall a b, dec64_sort a b = Eq <-> dec64_compare a b = true) /\
  (forall a b, dec64_sort a b = CompOpp (dec64_sort b a)) /\
  (forall a b c, dec64_sort a b = Lt -> dec64_sort b c = Lt -> dec64_sort a c = Lt).
Proof. exact int_sort_total_order. Qed.

(* ---------- the full-strength statement: no side hypotheses ---------- *)
Theorem dec64_scale fd s n :
  (1 <= fd)%nat ->
  (dec64_parse fd s = Ok n <->
   rfc_ws_dec64_lex fd s n /\ (I64MIN_Z <= n <= I64MAX_Z)%Z).
Proof.
  intros Hfd. split.
  - apply dec64_parse_sound. exact Hfd.
  - intros [Hlex Hb]. apply dec64_parse_complete; assumption.
Qed.

(* ---------- the former defect inputs are rejected ---------- *)
Lemma rfc_ws_has_digit fd s n : rfc_ws_dec64_lex fd s n -> existsb is_digit s = true.
Proof.
  intros [ws1 core ws2 m _ _ Hcore]. destruct Hcore as [sg ip ft fp m _ Hne Hip _ _].
  destruct ip as [|d ip']; [congruence|].
  unfold all_digit in Hip. cbn [forallb] in Hip. apply andb_true_iff in Hip. destruct Hip as [Hd _].
  rewrite !existsb_app. cbn [existsb]. rewrite Hd. cbn [orb]. rewrite !orb_true_r. reflexivity.
Qed.

(* after the leading white space, a sign that is not followed by a digit *)
Definition dec64_sign_no_digit (s : bytes) : bool :=
  match skip_space s with
  | c :: r => ((c =? 45) || (c =? 43)) && negb (is_digit (hd 0 r))
  | [] => false
  end.

(* every such value ( -  +  -.5  +.5  - 1 ...) is rejected with LY_EVALID, for every fraction-digits *)
Theorem dec64_sign_needs_digit fd s :
  dec64_sign_no_digit s = true -> dec64_parse fd s = Err E_VALID.
Proof.
  unfold dec64_sign_no_digit. intro H.
  destruct (skip_space_split s) as [ws1 [Hs Hws1]].
  destruct (skip_space s) as [|c r] eqn:Hsk; [discriminate|].
  apply andb_true_iff in H. destruct H as [Hc Hr].
  assert (Hh : head_nondigit r).
  { destruct r as [|d r']; cbn [head_nondigit]; [exact I|]. cbn [hd] in Hr. destruct (is_digit d); [discriminate|reflexivity]. }
  rewrite Hs. change (c :: r) with ([c] ++ r).
  apply dec64_parse_sign_nodigit; [exact Hws1| |discriminate|exact Hh].
  unfold is_sign. destruct (c =? 45) eqn:E1; [right; right; f_equal; lia|].
  destruct (c =? 43) eqn:E2; [right; left; f_equal; lia|discriminate].
Qed.

(* ---------- store level ---------- *)
Lemma dec64_parse_bounds fd s n :
  dec64_parse fd s = Ok n -> (I64MIN_Z <= n <= I64MAX_Z)%Z.
Proof.
  unfold dec64_parse. cbv zeta. destruct (skip_space s) as [|c0 r0]; [discriminate|].
  destruct (negb (is_digit c0) && negb (c0 =? 45) && negb (c0 =? 43)); [discriminate|].
  match goal with |- (if ?b then _ else _) = _ -> _ => destruct b end; [discriminate|].
  destruct (dec64_scan (c0 :: r0) _) as [[fraction len] tz].
  unfold dec64_finish. cbv zeta.
  destruct (negb (fraction =? 0)%nat && (fd <? len - 1 - fraction)%nat); [discriminate|].
  match goal with |- (if negb ?b then _ else _) = _ -> _ => destruct b end; cbn [negb]; [|discriminate].
  intro H. apply plg_parse_int_ok in H. tauto.
Qed.

Lemma dec64_store_inv fd parts s n :
  dec64_store fd parts s = Ok n <-> dec64_parse fd s = Ok n /\ validate_range parts n = true.
Proof.
  unfold dec64_store. destruct (dec64_parse fd s) as [m|e].
  - destruct (validate_range parts m) eqn:Hr; split.
    + intro H. inversion H; subst. auto.
    + intros [H _]. exact H.
    + discriminate.
    + intros [H Hr2]. inversion H; subst. congruence.
  - split; [discriminate|]. intros [H _]. discriminate.
Qed.

(* whatever spelling was stored, its canonical string is in RFC canonical form and storing that
   string gives the same value again *)
Theorem dec64_canon_idempotent fd parts s n :
  (1 <= fd)%nat ->
  dec64_store fd parts s = Ok n ->
  dec64_store fd parts (dec64_canon fd n) = Ok n /\ rfc_dec64_canonical (dec64_canon fd n).
Proof.
  intros Hfd H. apply dec64_store_inv in H. destruct H as [Hp Hr].
  split; [|apply dec64_canon_is_rfc; exact Hfd].
  apply dec64_canon_store; [exact Hfd|exact (dec64_parse_bounds _ _ _ Hp)|exact Hr].
Qed.

(* the full-strength statement for the store callback *)
Theorem dec64_store_scale fd parts s n :
  (1 <= fd)%nat ->
  (dec64_store fd parts s = Ok n <->
   rfc_ws_dec64_lex fd s n /\ (I64MIN_Z <= n <= I64MAX_Z)%Z /\ validate_range parts n = true).
Proof.
  intros Hfd. rewrite dec64_store_inv, (dec64_scale fd s n Hfd). tauto.
Qed.
