(* Extract_uord.v — extraction of the uord slice (DiffUserOrd) to coq/model_uord.ml *)
From Coq Require Extraction ExtrOcamlBasic.
From LY Require Import Base DiffUserOrd.
Extraction Language OCaml.
Extraction "model_uord.ml"
  N.add N.mul N.div N.modulo N.sub Z.add Z.mul Z.opp Z.of_N Z.abs_N Z.sub Z.ltb
  DiffUserOrd.userord_trace DiffUserOrd.userord_diff DiffUserOrd.apply_ops_st DiffUserOrd.apply_ops_full
  DiffUserOrd.apply_ops DiffUserOrd.reverse_ops DiffUserOrd.reverse_apply_full DiffUserOrd.reverse_apply.
