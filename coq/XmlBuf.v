(* XmlBuf.v - slice xmlbuf: the buffer bookkeeping of lyxml_parse_value() and
   lyxml_parse_value_use_buf() of src/xml.c, as coded, with the bytes abstracted away and the sizes kept.

   The C function walks over the text of an XML value. Plain characters are only counted (offset = number of
   pending plain bytes at in[0 .. offset), not copied yet). The first entity / character reference or CDATA
   section makes the value dynamic: lyxml_parse_value_use_buf() allocates (malloc of BUFSIZE = 24 bytes the
   first time), grows the block in steps of BUFSIZE_STEP = 128 bytes WHILE len + offset + need_space >= size,
   then copies the pending plain bytes to buf[len ..) and resets offset. The caller then stores the 1 to 4
   bytes of the reference (need_space = 4) or the u bytes of the CDATA section (need_space = u) at buf[len ..).
   At the end character a dynamic value is reallocated to exactly len + offset + 1 bytes, the pending plain
   bytes are copied and the NUL is stored.

   State: allocated?, size (bytes of the block), len (bytes used), off (pending plain bytes).
   The model records every store as a write (position, number of bytes, size of the block at that moment)
   and every call of the allocator (malloc / realloc with the requested size, free); the allocator trace
   is what the C driver impl/t_xmlbuf.c observes (T2).

   Events are what the loop of lyxml_parse_value() distinguishes; how a text is cut into events is the
   business of the value lexer (slice xml, XmlText.v) and of the generator of the T2 component, which
   renders event lists into texts.

   Numbers are unbounded N: size_t cannot wrap here because every quantity is bounded by the number of
   input bytes plus 152 (theorem size_bounded in XmlBufP.v) and the text is an object in memory.
   Allocation failure (LY_EMEM) is not modelled. *)
From Coq Require Import NArith List Lia Bool.
Import ListNotations.
Local Open Scope N_scope.

Definition BUFSIZE : N := 24.
Definition BUFSIZE_STEP : N := 128.

Record st := mkst { b_alloc : bool; b_size : N; b_len : N; b_off : N }.

(* a store of n bytes at buf[pos ..) while the block has size bytes *)
Inductive wr := W (pos n size : N).
Definition wr_ok (w : wr) : Prop := match w with W pos n size => pos + n <= size end.
Definition wr_okb (w : wr) : bool := match w with W pos n size => pos + n <=? size end.

(* allocator calls *)
Inductive al := AMalloc (n : N) | ARealloc (n : N) | AFree.

Inductive ev :=
| EPlain (u : N)   (* one plain character of u bytes (ly_getutf8: 1 to 4): offset += u *)
| ERef (k : N)     (* predefined entity (1 byte) or character reference (ly_pututf8: 1 to 4 bytes) *)
| ERefBad          (* unknown entity, malformed or invalid character reference: use_buf, then error *)
| ECdata (u : N)   (* CDATA section with u bytes of content *)
| ECdataOpen       (* CDATA section without end: error before the buffer is touched *)
| EBadChar         (* ly_getutf8 fails: error *)
| EEnd             (* the end character *)
| EEof.            (* NUL before the end character: error *)

(* events the C code can produce *)
Definition ev_wf (e : ev) : Prop :=
  match e with EPlain u => 1 <= u <= 4 | ERef k => 1 <= k <= 4 | _ => True end.

(* the growth policy: given target = len + offset + need_space and the current size, the new size and the
   realloc calls made (latest first); None = the loop did not end within the fuel of the model *)
Definition policy := N -> N -> option (N * list al).

(* as coded:  while ( len + offset + need_space >= size ) { realloc( size + STEP ); size += STEP; }
   (the C variables are reached through pointers) *)
Fixpoint grow_loop (fuel : nat) (target size : N) (acc : list al) : option (N * list al) :=
  if target <? size then Some (size, acc)
  else match fuel with
       | O => None
       | S f => grow_loop f target (size + BUFSIZE_STEP) (ARealloc (size + BUFSIZE_STEP) :: acc)
       end.
Definition grow_coded : policy :=
  fun target size => grow_loop (S (N.to_nat (target / BUFSIZE_STEP))) target size [].

Inductive ub := UB (s : st) (ws : list wr) (tr : list al) | UBFuel.

(* lyxml_parse_value_use_buf(ctx, &in, &offset, need, &buf, &len, &size), with the growth policy g, which is
   given need_space and offset (the variant of the seeded change looks at need_space alone) and then the
   target len + offset + need_space and the current size *)
Definition use_buf (g : N -> N -> policy) (s : st) (need : N) : ub :=
  let size0 := if b_alloc s then b_size s else BUFSIZE in
  let tr0 := if b_alloc s then [] else [AMalloc BUFSIZE] in
  match g need (b_off s) (b_len s + b_off s + need) size0 with
  | None => UBFuel
  | Some (size1, tr1) =>
      UB (mkst true size1 (b_len s + b_off s) 0)
         (if b_off s =? 0 then [] else [W (b_len s) (b_off s) size1])
         (tr0 ++ rev tr1)
  end.

(* result of a whole call: error / success (dynamic?, length) *)
Inductive res := RErr | ROk (dynamic : bool) (len : N) | RFuel.

Inductive out := Cont (s : st) | Stop (r : res).

Definition free_tr (s : st) : list al := if b_alloc s then [AFree] else [].

Definition step (g : N -> N -> policy) (s : st) (e : ev) : out * list wr * list al :=
  match e with
  | EPlain u => (Cont (mkst (b_alloc s) (b_size s) (b_len s) (b_off s + u)), [], [])
  | ERef k =>
      match use_buf g s 4 with
      | UBFuel => (Stop RFuel, [], [])
      | UB s1 ws tr =>
          (Cont (mkst true (b_size s1) (b_len s1 + k) 0), ws ++ [W (b_len s1) k (b_size s1)], tr)
      end
  | ERefBad =>
      match use_buf g s 4 with
      | UBFuel => (Stop RFuel, [], [])
      | UB s1 ws tr => (Stop RErr, ws, tr ++ [AFree])
      end
  | ECdata u =>
      match use_buf g s u with
      | UBFuel => (Stop RFuel, [], [])
      | UB s1 ws tr =>
          (Cont (mkst true (b_size s1) (b_len s1 + u) 0), ws ++ [W (b_len s1) u (b_size s1)], tr)
      end
  | ECdataOpen | EBadChar | EEof => (Stop RErr, [], free_tr s)
  | EEnd =>
      if b_alloc s then
        let size1 := b_len s + b_off s + 1 in
        (Stop (ROk true (b_len s + b_off s)),
         (if b_off s =? 0 then [] else [W (b_len s) (b_off s) size1]) ++ [W (b_len s + b_off s) 1 size1],
         [ARealloc size1])
      else (Stop (ROk false (b_len s + b_off s)), [], [])
  end.

(* the loop of lyxml_parse_value(); a text always ends with its NUL, so an event list without a stopping
   event ends with EEof *)
Fixpoint run (g : N -> N -> policy) (s : st) (evs : list ev) : res * list wr * list al :=
  match evs with
  | [] => match step g s EEof with (Stop r, ws, tr) => (r, ws, tr) | (Cont _, ws, tr) => (RErr, ws, tr) end
  | e :: rest =>
      match step g s e with
      | (Stop r, ws, tr) => (r, ws, tr)
      | (Cont s1, ws, tr) =>
          match run g s1 rest with (r, ws2, tr2) => (r, ws ++ ws2, tr ++ tr2) end
      end
  end.

Definition init : st := mkst false 0 0 0.

(* the code as it is *)
Definition coded : N -> N -> policy := fun _ _ => grow_coded.
Definition parse_value (evs : list ev) := run coded init evs.

(* the variant of the seeded change C05-5: a need_space larger than one step enlarges the block at once
   by need_space, forgetting len and the pending plain bytes *)
Definition oneshot : N -> N -> policy :=
  fun need _ target size =>
    if BUFSIZE_STEP <? need then Some (size + need, [ARealloc (size + need)]) else grow_coded target size.
Definition parse_value_oneshot (evs : list ev) := run oneshot init evs.

(* number of input bytes an event list stands for, at least *)
Definition ev_bytes (e : ev) : N :=
  match e with EPlain u => u | ERef k => 4 | ERefBad => 1 | ECdata u => u + 12 | ECdataOpen => 9 | EBadChar => 1 | EEnd => 1 | EEof => 0 end.
Definition evs_bytes (evs : list ev) : N := fold_right (fun e a => ev_bytes e + a) 0 evs.

(* the stores are contiguous from position p: each one starts where the previous one ended; answers the end *)
Fixpoint contig (p : N) (ws : list wr) : option N :=
  match ws with
  | [] => Some p
  | W pos n _ :: r => if pos =? p then contig (p + n) r else None
  end.

Definition al_size (a : al) : N := match a with AMalloc n => n | ARealloc n => n | AFree => 0 end.
