(* XmlDocP.v -- proofs about XmlDoc: what xml_print writes, the generic reader reads back as the generic element tree of
   the forest (for every pair of text readers that invert lyxml_dump_text on a class of values: the standard ones and
   the model of libyang's lexer), and the schema-directed conversion gives the forest back. *)
From LY Require Import Base Utf8 Utf8P XmlText XmlTextP JsonText JsonTextP StdText StdTextP Tree TreeP XmlDoc.
From LY Require IntLexP.
From Coq Require Import ZifyBool ZifyNat ZifyN.
Local Open Scope N_scope.

(* ====================================================================================== *)
(* lexical lemmas                                                                          *)
(* ====================================================================================== *)
Lemma span_app p a c rest :
  forallb p a = true -> p c = false -> span p (a ++ c :: rest) = (a, c :: rest).
Proof.
  induction a as [|x a IH]; intros Ha Hc; cbn [app span].
  - rewrite Hc. reflexivity.
  - cbn [forallb] in Ha. apply andb_true_iff in Ha. destruct Ha as [Hx Ha]. rewrite Hx, (IH Ha Hc). reflexivity.
Qed.

Lemma span_app_nil p a : forallb p a = true -> span p a = (a, []).
Proof.
  induction a as [|x a IH]; intro Ha; cbn [span]; [reflexivity|].
  cbn [forallb] in Ha. apply andb_true_iff in Ha. destruct Ha as [Hx Ha]. rewrite Hx, (IH Ha). reflexivity.
Qed.

Lemma span_stop p c rest : p c = false -> span p (c :: rest) = ([], c :: rest).
Proof. intro H. cbn [span]. rewrite H. reflexivity. Qed.

Lemma ncname_ok_chars nm : ncname_ok nm = true -> forallb is_ncname_char nm = true /\ nm <> [].
Proof.
  destruct nm as [|c r]; [discriminate|]. cbn [ncname_ok forallb]. intro H.
  apply andb_true_iff in H. destruct H as [H1 H2]. split; [|discriminate].
  rewrite H2, andb_true_r. unfold is_ncname_char. rewrite H1. reflexivity.
Qed.

Lemma ncname_first nm : ncname_ok nm = true -> exists c r, nm = c :: r /\ is_ncname_start c = true.
Proof.
  destruct nm as [|c r]; [discriminate|]. cbn [ncname_ok]. intro H. apply andb_true_iff in H.
  exists c, r. split; [reflexivity|apply H].
Qed.

Lemma ncname_start_facts c : is_ncname_start c = true -> c <> 33 /\ c <> 47 /\ c <> 60 /\ is_xml_S c = false /\ c <> 62.
Proof. unfold is_ncname_start, is_alpha, is_xml_S. lia. Qed.

Definition stopper (c : N) : Prop := is_ncname_char c = false /\ c <> 58.

Lemma lex_qname_plain nm c rest :
  ncname_ok nm = true -> stopper c -> lex_qname (nm ++ c :: rest) = (None, nm, c :: rest).
Proof.
  intros Hn [Hc H58]. unfold lex_qname. destruct (ncname_ok_chars nm Hn) as [Hch _].
  rewrite (span_app _ _ _ _ Hch Hc). apply N.eqb_neq in H58. rewrite H58. reflexivity.
Qed.

Lemma lex_qname_prefixed pf nm c rest :
  ncname_ok pf = true -> ncname_ok nm = true -> stopper c ->
  lex_qname (pf ++ 58 :: nm ++ c :: rest) = (Some pf, nm, c :: rest).
Proof.
  intros Hp Hn [Hc H58]. unfold lex_qname. destruct (ncname_ok_chars pf Hp) as [Hpc _].
  destruct (ncname_ok_chars nm Hn) as [Hnc _].
  rewrite (span_app _ _ 58 _ Hpc eq_refl). change (58 =? 58) with true. cbv iota.
  rewrite (span_app _ _ _ _ Hnc Hc). reflexivity.
Qed.

Lemma skip_S_stop c r : is_xml_S c = false -> skip_S (c :: r) = c :: r.
Proof. intro H. unfold skip_S. rewrite (span_stop _ _ _ H). reflexivity. Qed.


(* ====================================================================================== *)
(* start tags                                                                              *)
(* ====================================================================================== *)
Definition lex_pattr (a : pattr) : lattr :=
  match a with
  | PDecl None ns => (None, xmlns_b, ns)
  | PDecl (Some p) ns => (Some xmlns_b, p, ns)
  | PMeta p nm v => (Some p, nm, v)
  end.

Definition ns_ok (ns : bytes) : Prop := forallb ns_char_ok ns = true /\ ns <> [].

Definition pattr_ok (V : bytes -> Prop) (a : pattr) : Prop :=
  match a with
  | PDecl None ns => ns_ok ns
  | PDecl (Some p) ns => ncname_ok p = true /\ p <> xmlns_b /\ ns_ok ns
  | PMeta p nm v => ncname_ok p = true /\ p <> xmlns_b /\ ncname_ok nm = true /\ V v
  end.

Lemma stopper_eq : stopper 61. Proof. split; [reflexivity|discriminate]. Qed.
Lemma stopper_gt : stopper 62. Proof. split; [reflexivity|discriminate]. Qed.
Lemma stopper_slash : stopper 47. Proof. split; [reflexivity|discriminate]. Qed.
Lemma stopper_sp : stopper 32. Proof. split; [reflexivity|discriminate]. Qed.

Lemma xmlns_ncname : ncname_ok xmlns_b = true. Proof. reflexivity. Qed.

Lemma skip_S_sp_name nm rest :
  ncname_ok nm = true -> skip_S (32 :: nm ++ rest) = nm ++ rest.
Proof.
  intro Hn. destruct (ncname_first nm Hn) as (c & r & -> & Hc).
  destruct (ncname_start_facts c Hc) as (_ & _ & _ & HS & _).
  assert (E : forall s, skip_S (32 :: s) = skip_S s).
  { intro s. unfold skip_S. cbn [span]. change (is_xml_S 32) with true. cbv iota.
    destruct (span is_xml_S s); reflexivity. }
  rewrite E. cbn [app]. apply skip_S_stop, HS.
Qed.

Lemma name_not_tagend nm rest :
  ncname_ok nm = true -> starts_with [62] (nm ++ rest) || starts_with [47] (nm ++ rest) = false.
Proof.
  intro Hn. destruct (ncname_first nm Hn) as (c & r & -> & Hc).
  destruct (ncname_start_facts c Hc) as (_ & H47 & _ & _ & H62).
  cbn [app starts_with]. rewrite !andb_true_r.
  apply N.eqb_neq in H47, H62. rewrite (N.eqb_sym 62 c), (N.eqb_sym 47 c), H47, H62. reflexivity.
Qed.

Ltac norm_app := repeat (cbn [app]; rewrite <- ?app_assoc, <- ?app_comm_cons); cbn [app].

Section Attrs.
  Variable V : bytes -> Prop.
  Variable rd_att : N -> bytes -> option (bytes * bytes).
  Hypothesis rd_att_ok : forall v rest, V v -> rd_att 34 (xml_esc true v ++ 34 :: rest) = Some (v, rest).
  Hypothesis rd_att_raw : forall ns rest, forallb ns_char_ok ns = true -> rd_att 34 (ns ++ 34 :: rest) = Some (ns, rest).

  (* one attribute as the printer writes it, then the rest of the tag *)
  Lemma gx_attrs_step f a tail :
    pattr_ok V a ->
    gx_attrs rd_att (S f) (render_attr a ++ tail) =
      match gx_attrs rd_att f tail with
      | Some (l, r) => Some (lex_pattr a :: l, r)
      | None => None
      end.
  Proof.
    intro Ha. destruct a as [[p|] ns|p nm v]; cbn [render_attr pattr_ok lex_pattr] in *.
    - destruct Ha as (Hp & _ & Hns & _).
      norm_app.
      cbn [gx_attrs]. change (is_xml_S 32) with true. cbv iota.
      rewrite (skip_S_sp_name xmlns_b _ xmlns_ncname).
      rewrite (name_not_tagend xmlns_b _ xmlns_ncname).
      rewrite (lex_qname_prefixed xmlns_b p 61 _ xmlns_ncname Hp stopper_eq).
      rewrite (skip_S_stop 61) by reflexivity. change (61 =? 61) with true. cbv iota.
      rewrite (skip_S_stop 34) by reflexivity.
      change ((34 =? 34) || (34 =? 39)) with true. cbv iota.
      rewrite (rd_att_raw ns tail Hns). reflexivity.
    - destruct Ha as (Hns & _).
      norm_app.
      cbn [gx_attrs]. change (is_xml_S 32) with true. cbv iota.
      rewrite (skip_S_sp_name xmlns_b _ xmlns_ncname).
      rewrite (name_not_tagend xmlns_b _ xmlns_ncname).
      rewrite (lex_qname_plain xmlns_b 61 _ xmlns_ncname stopper_eq).
      rewrite (skip_S_stop 61) by reflexivity. change (61 =? 61) with true. cbv iota.
      rewrite (skip_S_stop 34) by reflexivity.
      change ((34 =? 34) || (34 =? 39)) with true. cbv iota.
      rewrite (rd_att_raw ns tail Hns). reflexivity.
    - destruct Ha as (Hp & _ & Hn & Hv).
      norm_app.
      cbn [gx_attrs]. change (is_xml_S 32) with true. cbv iota.
      rewrite (skip_S_sp_name p _ Hp).
      rewrite (name_not_tagend p _ Hp).
      rewrite (lex_qname_prefixed p nm 61 _ Hp Hn stopper_eq).
      rewrite (skip_S_stop 61) by reflexivity. change (61 =? 61) with true. cbv iota.
      rewrite (skip_S_stop 34) by reflexivity.
      change ((34 =? 34) || (34 =? 39)) with true. cbv iota.
      rewrite (rd_att_ok v tail Hv). reflexivity.
  Qed.

  Definition tag_end (tail : bytes) : Prop := exists c r, tail = c :: r /\ is_xml_S c = false.

  Lemma gx_attrs_rt pas : forall fuel tail,
    Forall (pattr_ok V) pas -> tag_end tail -> (length pas < fuel)%nat ->
    gx_attrs rd_att fuel (render_attrs pas ++ tail) = Some (map lex_pattr pas, tail).
  Proof.
    induction pas as [|a pas IH]; intros fuel tail Hall Ht Hf.
    - destruct fuel as [|f]; [cbn in Hf; lia|]. destruct Ht as (c & r & -> & Hc).
      cbn [render_attrs flat_map app gx_attrs map]. rewrite Hc. reflexivity.
    - destruct fuel as [|f]; [cbn in Hf; lia|]. inversion Hall as [|? ? Ha Hr]; subst.
      unfold render_attrs. cbn [flat_map map]. rewrite <- app_assoc.
      rewrite (gx_attrs_step f a _ Ha). fold (render_attrs pas).
      rewrite (IH f tail Hr Ht) by (cbn [length] in Hf; lia). reflexivity.
  Qed.
End Attrs.

(* ====================================================================================== *)
(* side tables                                                                             *)
(* ====================================================================================== *)
Lemma assocN_In {A} (l : list (N * A)) k v : assocN l k = Some v -> In (k, v) l.
Proof.
  induction l as [|[a x] r IH]; cbn [assocN]; [discriminate|].
  destruct (a =? k) eqn:E; intro H.
  - apply N.eqb_eq in E. inversion H; subst. left; reflexivity.
  - right. apply IH, H.
Qed.

Lemma mod_by_ns_ns l ns k i : mod_by_ns l ns = Some (k, i) -> mi_ns i = ns /\ In (k, i) l.
Proof.
  induction l as [|[a x] r IH]; cbn [mod_by_ns]; [discriminate|].
  destruct (beq_bytes (mi_ns x) ns) eqn:E; intro H.
  - apply beq_bytes_eq in E. inversion H; subst. split; [reflexivity|left; reflexivity].
  - destruct (IH H) as [H1 H2]. split; [exact H1|right; exact H2].
Qed.

Lemma mod_by_name_name l nm i : mod_by_name l nm = Some i -> mi_name i = nm.
Proof.
  induction l as [|[a x] r IH]; cbn [mod_by_name]; [discriminate|].
  destruct (beq_bytes (mi_name x) nm) eqn:E; intro H.
  - apply beq_bytes_eq in E. inversion H; subst. reflexivity.
  - apply IH, H.
Qed.

Lemma modinfo_eq a b : mi_name a = mi_name b -> mi_prefix a = mi_prefix b -> mi_ns a = mi_ns b -> a = b.
Proof. destruct a, b; cbn; intros; subst; reflexivity. Qed.

Record mod_facts (t : doctabs) (m : N) (mi : modinfo) : Prop := {
  mf_name : ncname_ok (mi_name mi) = true;
  mf_prefix : ncname_ok (mi_prefix mi) = true;
  mf_notxmlns : mi_prefix mi <> xmlns_b;
  mf_ns : ns_ok (mi_ns mi);
  mf_assoc : exists mi0, assocN (dt_mods t) m = Some mi0;
  mf_byns : mod_by_ns (dt_mods t) (mi_ns mi) = Some (m, mi);
  mf_byname : mod_by_name (dt_mods t) (mi_name mi) = Some mi
}.

Lemma mods_ok_entry t m mi : mods_okb t = true -> In (m, mi) (dt_mods t) -> mod_facts t m mi.
Proof.
  unfold mods_okb. rewrite forallb_forall. intros H Hin. specialize (H _ Hin). cbn beta iota in H.
  repeat (apply andb_true_iff in H; destruct H as [H ?]).
  match goal with Hf : match mod_by_name _ _ with _ => _ end = true |- _ => rename Hf into Hbn end.
  match goal with Hf : match mod_by_ns _ _ with _ => _ end = true |- _ => rename Hf into Hbs end.
  match goal with Hf : match assocN _ _ with _ => _ end = true |- _ => rename Hf into Has end.
  match goal with Hf : forallb ns_char_ok _ = true |- _ => rename Hf into Hch end.
  match goal with Hf : negb (match mi_ns mi with _ => _ end) = true |- _ => rename Hf into Hne end.
  match goal with Hf : negb (beq_bytes _ xmlns_b) = true |- _ => rename Hf into Hx end.
  match goal with Hf : ncname_ok (mi_prefix mi) = true |- _ => rename Hf into Hp end.
  constructor.
  - exact H.
  - exact Hp.
  - intro E. rewrite E in Hx. discriminate Hx.
  - split; [exact Hch|]. intro E. rewrite E in Hne. discriminate Hne.
  - destruct (assocN (dt_mods t) m) as [x|]; [exists x; reflexivity|discriminate].
  - destruct (mod_by_ns (dt_mods t) (mi_ns mi)) as [[m' mi']|] eqn:E; [|discriminate].
    destruct (mod_by_ns_ns _ _ _ _ E) as [Ens _].
    repeat (apply andb_true_iff in Hbs; destruct Hbs as [Hbs ?]).
    apply N.eqb_eq in Hbs. subst m'.
    match goal with H1 : beq_bytes (mi_name mi') _ = true, H2 : beq_bytes (mi_prefix mi') _ = true |- _ =>
      apply beq_bytes_eq in H1, H2; rewrite (modinfo_eq mi' mi H1 H2 Ens) end. reflexivity.
  - destruct (mod_by_name (dt_mods t) (mi_name mi)) as [mi'|] eqn:E; [|discriminate].
    pose proof (mod_by_name_name _ _ _ E) as En.
    apply andb_true_iff in Hbn. destruct Hbn as [H1 H2]. apply beq_bytes_eq in H1, H2.
    rewrite (modinfo_eq mi' mi En H2 H1). reflexivity.
Qed.

Record name_facts (sch : schema) (t : doctabs) (s : sid) : Prop := {
  nf_name : ncname_ok (node_name t s) = true;
  nf_mod : exists mi, In (node_mod t s, mi) (dt_mods t) /\ mod_info t (node_mod t s) = mi;
  nf_sid : sid_by_name sch (dt_names t) (si_parent (sget sch s)) (node_mod t s) (node_name t s) = Some s
}.

Lemma names_ok_entry sch t s i : names_okb sch t = true -> lookup sch s = Some i -> name_facts sch t s.
Proof.
  unfold names_okb. rewrite forallb_forall. intros H Hl. specialize (H _ (lookup_In _ _ _ Hl)). cbn beta iota in H.
  destruct (assocN (dt_names t) s) as [[m nm]|] eqn:E0; [|discriminate].
  repeat (apply andb_true_iff in H; destruct H as [H ?]).
  assert (En : node_name t s = nm) by (unfold node_name; rewrite E0; reflexivity).
  assert (Em : node_mod t s = m) by (unfold node_mod; rewrite E0; reflexivity).
  constructor; rewrite ?En, ?Em.
  - exact H.
  - unfold mod_info. destruct (assocN (dt_mods t) m) as [mi|] eqn:E; [|discriminate].
    exists mi. split; [apply assocN_In, E|reflexivity].
  - destruct (sid_by_name sch (dt_names t) (si_parent (sget sch s)) m nm) as [s'|]; [|discriminate].
    match goal with Hs : (s' =? s) = true |- _ => apply N.eqb_eq in Hs; subst s' end. reflexivity.
Qed.

(* ====================================================================================== *)
(* namespace declarations: what the printer keeps in scope, the reader resolves            *)
(* ====================================================================================== *)
Definition decls_of (attrs : list pattr) : nsstack :=
  flat_map (fun a => match a with PDecl p ns => [(p, ns)] | PMeta _ _ _ => [] end) attrs.

Lemma decls_of_app a b : decls_of (a ++ b) = decls_of a ++ decls_of b.
Proof. unfold decls_of. apply flat_map_app. Qed.

Lemma beq_bytes_false a b : a <> b -> beq_bytes a b = false.
Proof.
  intro H. destruct (beq_bytes a b) eqn:E; [|reflexivity]. apply beq_bytes_eq in E. contradiction.
Qed.
Lemma beq_bytes_true a : beq_bytes a a = true.
Proof. apply beq_bytes_eq. reflexivity. Qed.

Lemma std_decls_printed V attrs :
  Forall (pattr_ok V) attrs -> std_decls (map lex_pattr attrs) = Some (decls_of attrs).
Proof.
  induction 1 as [|a attrs Ha _ IH]; [reflexivity|].
  destruct a as [[p|] ns|p nm v]; cbn [map lex_pattr std_decls pattr_ok] in *; rewrite IH.
  - destruct Ha as (Hp & Hx & _ & Hne). rewrite beq_bytes_true, (beq_bytes_false _ _ Hx).
    destruct ns; [contradiction|]. reflexivity.
  - rewrite beq_bytes_true. reflexivity.
  - destruct Ha as (_ & Hx & _). rewrite (beq_bytes_false _ _ Hx). reflexivity.
Qed.

Lemma print_metas_stack t m : forall st attrs st2,
  print_metas t st m = (attrs, st2) -> st2 = rev (decls_of attrs) ++ st.
Proof.
  induction m as [|[k v] m IH]; intros st attrs st2 H; cbn [print_metas] in H.
  - inversion H; subst. reflexivity.
  - destruct (split_colon k) as [mn nm].
    remember (match mod_by_name (dt_mods t) mn with Some i => i | None => mi_none end) as mi.
    unfold print_ns_prefix in H.
    destruct (ns_find_prefix st (mi_ns mi) (mi_prefix mi) false) as [q|].
    + destruct (print_metas t st m) as [r st3] eqn:E. inversion H; subst attrs st2. cbn [app decls_of flat_map].
      apply (IH _ _ _ E).
    + cbv zeta in H. cbn [negb] in H.
      destruct (print_metas t ((Some (uniq_prefix st (mi_prefix mi)), mi_ns mi) :: st) m) as [r st3] eqn:E.
      inversion H; subst attrs st2. cbn [app decls_of flat_map rev]. fold (decls_of r).
      rewrite (IH _ _ _ E). rewrite <- app_assoc. reflexivity.
Qed.

Lemma open_attrs_stack t st s m attrs st' :
  open_attrs t st s m = (attrs, st') -> st' = rev (decls_of attrs) ++ st.
Proof.
  unfold open_attrs, print_ns_default. intro H.
  destruct (ns_has_default st (node_ns t s)).
  - destruct (print_metas t st m) as [r st2] eqn:E. inversion H; subst. cbn [app]. apply (print_metas_stack _ _ _ _ _ E).
  - destruct (print_metas t ((None, node_ns t s) :: st) m) as [r st2] eqn:E. inversion H; subst.
    cbn [app decls_of flat_map rev]. fold (decls_of r). rewrite (print_metas_stack _ _ _ _ _ E), <- app_assoc. reflexivity.
Qed.

(* the prefixes declared in the scope: pairwise distinct (a declaration the printer adds gets a fresh prefix), identifiers,
   never xmlns *)
Definition sprefs (st : nsstack) : list bytes :=
  flat_map (fun e : option bytes * bytes => match fst e with Some q => [q] | None => [] end) st.
Definition pfx_good (p : bytes) : Prop := ncname_ok p = true /\ p <> xmlns_b.
Definition Inv (st : nsstack) : Prop := NoDup (sprefs st) /\ Forall pfx_good (sprefs st).

Lemma sprefs_app a b : sprefs (a ++ b) = sprefs a ++ sprefs b.
Proof. unfold sprefs. apply flat_map_app. Qed.

Lemma sprefs_in st q u : In (Some q, u) st -> In q (sprefs st).
Proof. intro H. unfold sprefs. apply in_flat_map. exists (Some q, u). split; [exact H|left; reflexivity]. Qed.

Lemma sprefs_uniq st q u u' : NoDup (sprefs st) -> In (Some q, u) st -> In (Some q, u') st -> u = u'.
Proof.
  induction st as [|[[p|] w] r IH]; intros Hnd H1 H2; [contradiction| |].
  - cbn [sprefs flat_map fst app] in Hnd. fold (sprefs r) in Hnd. inversion Hnd as [|? ? Hn Hr]; subst.
    destruct H1 as [H1|H1]; destruct H2 as [H2|H2].
    + congruence.
    + inversion H1; subst. exfalso. apply Hn. apply (sprefs_in r q u' H2).
    + inversion H2; subst. exfalso. apply Hn. apply (sprefs_in r q u H1).
    + apply IH; assumption.
  - cbn [sprefs flat_map fst app] in Hnd. fold (sprefs r) in Hnd.
    destruct H1 as [H1|H1]; [discriminate H1|]. destruct H2 as [H2|H2]; [discriminate H2|]. apply IH; assumption.
Qed.

Lemma std_prefix_ns_in st p u : NoDup (sprefs st) -> In (Some p, u) st -> std_prefix_ns st p = Some u.
Proof.
  induction st as [|[[q|] w] r IH]; intros Hnd Hin; [contradiction| |].
  - cbn [std_prefix_ns]. destruct (beq_bytes q p) eqn:E.
    + apply beq_bytes_eq in E. subst q. f_equal. apply (sprefs_uniq _ p w u Hnd); [left; reflexivity|exact Hin].
    + cbn [sprefs flat_map fst app] in Hnd. inversion Hnd; subst. apply IH; [assumption|].
      destruct Hin as [Hin|Hin]; [|exact Hin]. inversion Hin; subst. rewrite beq_bytes_true in E. discriminate E.
  - cbn [std_prefix_ns]. cbn [sprefs flat_map fst app] in Hnd. apply IH; [exact Hnd|].
    destruct Hin as [Hin|Hin]; [discriminate Hin|exact Hin].
Qed.

Lemma ns_find_prefix_some st ns pfx q :
  ns_find_prefix st ns pfx false = Some q -> In (Some q, ns) st.
Proof.
  induction st as [|[p u] r IH]; cbn [ns_find_prefix]; [discriminate|].
  destruct (beq_bytes u ns) eqn:Eu.
  - destruct p as [q'|].
    + cbn [negb]. rewrite orb_true_r. intro H. inversion H; subst q'. apply beq_bytes_eq in Eu. subst. left; reflexivity.
    + intro H. right. exact (IH H).
  - intro H. right. exact (IH H).
Qed.

(* ---- the fresh prefix ---- *)
Lemma prefix_used_spec st p : prefix_used st p = true <-> In p (sprefs st).
Proof.
  unfold prefix_used. induction st as [|[[q|] u] r IH]; cbn [existsb sprefs flat_map fst app]; try fold (sprefs r).
  - split; [discriminate|contradiction].
  - rewrite orb_true_iff, IH. split.
    + intros [H|H]; [left; apply beq_bytes_eq in H; exact H|right; exact H].
    + intros [H|H]; [left; subst; apply beq_bytes_true|right; exact H].
  - cbn [orb]. exact IH.
Qed.

Lemma prefix_cand_inj sug a b : prefix_cand sug a = prefix_cand sug b -> a = b.
Proof.
  unfold prefix_cand. destruct (a =? 0) eqn:Ea; destruct (b =? 0) eqn:Eb; intro H.
  - lia.
  - exfalso. rewrite <- (app_nil_r sug) in H at 1. apply app_inv_head in H. symmetry in H. apply (IntLexP.N_to_dec_nonempty b H).
  - exfalso. rewrite <- (app_nil_r sug) in H at 2. apply app_inv_head in H. apply (IntLexP.N_to_dec_nonempty a H).
  - apply app_inv_head in H. apply IntLexP.N_to_dec_inj, H.
Qed.

Fixpoint uniq_from_l (fuel : nat) (used : list bytes) (sug : bytes) (n : N) : bytes :=
  match fuel with
  | O => prefix_cand sug n
  | S f => if existsb (beq_bytes (prefix_cand sug n)) used then uniq_from_l f used sug (n + 1) else prefix_cand sug n
  end.

Lemma existsb_beq_in x l : existsb (beq_bytes x) l = true <-> In x l.
Proof.
  rewrite existsb_exists. split.
  - intros (y & Hy & E). apply beq_bytes_eq in E. subst. exact Hy.
  - intro H. exists x. split; [exact H|apply beq_bytes_true].
Qed.

Lemma uniq_from_l_cand fuel : forall used sug n, exists k, n <= k /\ uniq_from_l fuel used sug n = prefix_cand sug k.
Proof.
  induction fuel as [|f IH]; intros used sug n; cbn [uniq_from_l]; [exists n; split; [lia|reflexivity]|].
  destruct (existsb (beq_bytes (prefix_cand sug n)) used); [|exists n; split; [lia|reflexivity]].
  destruct (IH used sug (n + 1)) as (k & Hk & E). exists k. split; [lia|exact E].
Qed.

Lemma uniq_from_l_ext fuel : forall used used' sug n,
  (forall k, n <= k -> (In (prefix_cand sug k) used <-> In (prefix_cand sug k) used')) ->
  uniq_from_l fuel used sug n = uniq_from_l fuel used' sug n.
Proof.
  induction fuel as [|f IH]; intros used used' sug n H; cbn [uniq_from_l]; [reflexivity|].
  assert (E : existsb (beq_bytes (prefix_cand sug n)) used = existsb (beq_bytes (prefix_cand sug n)) used').
  { destruct (existsb (beq_bytes (prefix_cand sug n)) used) eqn:E1; destruct (existsb (beq_bytes (prefix_cand sug n)) used') eqn:E2; try reflexivity.
    - apply existsb_beq_in in E1. apply (H n (N.le_refl n)) in E1. apply existsb_beq_in in E1. congruence.
    - apply existsb_beq_in in E2. apply (H n (N.le_refl n)) in E2. apply existsb_beq_in in E2. congruence. }
  rewrite E. destruct (existsb (beq_bytes (prefix_cand sug n)) used'); [|reflexivity].
  apply IH. intros k Hk. apply H. lia.
Qed.

(* pigeonhole: with as many steps as there are used prefixes a free candidate is reached *)
Lemma uniq_from_l_free fuel : forall used sug n, (length used <= fuel)%nat -> ~ In (uniq_from_l fuel used sug n) used.
Proof.
  induction fuel as [|f IH]; intros used sug n Hl.
  - destruct used; [intros []|cbn in Hl; lia].
  - cbn [uniq_from_l]. destruct (existsb (beq_bytes (prefix_cand sug n)) used) eqn:E.
    + apply existsb_beq_in in E.
      set (used' := filter (fun x => negb (beq_bytes x (prefix_cand sug n))) used).
      assert (Hlen : (length used' < length used)%nat).
      { subst used'. clear -E. induction used as [|y r IHr]; [contradiction|]. cbn [filter length].
        destruct E as [E|E].
        - subst y. rewrite beq_bytes_true. cbn [negb].
          assert (Hle : forall (g : bytes -> bool) l, (length (filter g l) <= length l)%nat).
          { intros g l. induction l as [|z l IHl]; [apply Nat.le_refl|]. cbn [filter]. destruct (g z); cbn [length]; lia. }
          pose proof (Hle (fun x => negb (beq_bytes x (prefix_cand sug n))) r). lia.
        - specialize (IHr E). destruct (negb (beq_bytes y (prefix_cand sug n))); cbn [length]; lia. }
      assert (Hext : forall k, n + 1 <= k -> (In (prefix_cand sug k) used <-> In (prefix_cand sug k) used')).
      { intros k Hk. subst used'. rewrite filter_In. split; [|intros [H _]; exact H].
        intro H. split; [exact H|]. apply negb_true_iff. apply beq_bytes_false. intro Eq. apply prefix_cand_inj in Eq. lia. }
      rewrite (uniq_from_l_ext f used used' sug (n + 1) Hext).
      intro Hin. destruct (uniq_from_l_cand f used' sug (n + 1)) as (k & Hk & Ek).
      rewrite Ek in Hin. apply (Hext k Hk) in Hin. rewrite <- Ek in Hin. revert Hin. apply IH. lia.
    + intro Hin. apply existsb_beq_in in Hin. congruence.
Qed.

Lemma uniq_from_eq fuel : forall st sug n, uniq_from fuel st sug n = uniq_from_l fuel (sprefs st) sug n.
Proof.
  induction fuel as [|f IH]; intros st sug n; cbn [uniq_from uniq_from_l]; [reflexivity|].
  assert (E : prefix_used st (prefix_cand sug n) = existsb (beq_bytes (prefix_cand sug n)) (sprefs st)).
  { destruct (prefix_used st (prefix_cand sug n)) eqn:E1; destruct (existsb (beq_bytes (prefix_cand sug n)) (sprefs st)) eqn:E2; try reflexivity.
    - apply prefix_used_spec in E1. apply existsb_beq_in in E1. congruence.
    - apply existsb_beq_in in E2. apply prefix_used_spec in E2. congruence. }
  rewrite E, IH. reflexivity.
Qed.

Lemma sprefs_length st : (length (sprefs st) <= length st)%nat.
Proof. induction st as [|[[q|] u] r IH]; cbn [sprefs flat_map fst app length]; try fold (sprefs r); lia. Qed.

Lemma uniq_prefix_free st sug : ~ In (uniq_prefix st sug) (sprefs st).
Proof. unfold uniq_prefix. rewrite uniq_from_eq. apply uniq_from_l_free, sprefs_length. Qed.

Lemma ncname_app_digits sug ds : ncname_ok sug = true -> forallb is_digit ds = true -> ncname_ok (sug ++ ds) = true.
Proof.
  intros Hs Hd. destruct sug as [|c r]; [discriminate|]. cbn [ncname_ok app] in *. apply andb_true_iff in Hs. destruct Hs as [H1 H2].
  rewrite H1. cbn [andb]. rewrite forallb_app, H2. cbn [andb]. rewrite forallb_forall in *. intros x Hx. unfold is_ncname_char. rewrite (Hd x Hx).
  rewrite orb_true_r. reflexivity.
Qed.

Lemma uniq_prefix_good st sug : pfx_good sug -> pfx_good (uniq_prefix st sug).
Proof.
  intros [Hn Hx]. unfold uniq_prefix. rewrite uniq_from_eq. destruct (uniq_from_l_cand (length st) (sprefs st) sug 0) as (k & _ & ->).
  unfold prefix_cand. destruct (k =? 0); [split; assumption|]. split.
  - apply ncname_app_digits; [exact Hn|apply IntLexP.N_to_dec_digits].
  - intro E. pose proof (IntLexP.N_to_dec_digits k) as Hd. pose proof (IntLexP.N_to_dec_nonempty k) as Hne.
    assert (Hall : forallb (fun c => negb (is_digit c)) (sug ++ N_to_dec k) = true) by (rewrite E; reflexivity).
    rewrite forallb_app in Hall. apply andb_true_iff in Hall. destruct Hall as [_ Hall].
    destruct (N_to_dec k) as [|c r]; [contradiction|]. cbn [forallb] in Hd, Hall.
    apply andb_true_iff in Hd. apply andb_true_iff in Hall. destruct Hd as [Hd _]. destruct Hall as [Hall _]. rewrite Hd in Hall. discriminate Hall.
Qed.

Lemma std_default_ns_has st ns : ns_has_default st ns = true -> std_default_ns st = ns.
Proof.
  induction st as [|[[q|] u] r IH]; cbn [ns_has_default std_default_ns]; [discriminate|exact IH|].
  intro H. apply beq_bytes_eq in H. exact H.
Qed.

Lemma std_default_ns_skip pre st :
  Forall (fun e : option bytes * bytes => fst e <> None) pre -> std_default_ns (pre ++ st) = std_default_ns st.
Proof.
  induction 1 as [|[[q|] u] pre Hq _ IH]; [reflexivity| |].
  - cbn [app std_default_ns]. exact IH.
  - cbn [fst] in Hq. contradiction.
Qed.

Definition meta_ok (t : doctabs) (V : bytes -> Prop) (kv : bytes * bytes) : Prop :=
  V (snd kv) /\ exists m mi nm, In (m, mi) (dt_mods t) /\ ncname_ok nm = true /\ fst kv = mi_name mi ++ 58 :: nm.

Lemma split_colon_app a b : forallb is_ncname_char a = true -> split_colon (a ++ 58 :: b) = (a, b).
Proof.
  induction a as [|x a IH]; intro H; cbn [app split_colon].
  - reflexivity.
  - cbn [forallb] in H. apply andb_true_iff in H. destruct H as [Hx Ha].
    destruct (x =? 58) eqn:E; [apply N.eqb_eq in E; subst x; discriminate Hx|].
    rewrite (IH Ha). reflexivity.
Qed.

Definition qn (a : lattr) : option bytes * bytes := (fst (fst a), snd (fst a)).

Lemma beq_opt_bytes_eq a b : beq_opt_bytes a b = true -> a = b.
Proof.
  destruct a, b; cbn; try discriminate; try reflexivity. intro H. apply beq_bytes_eq in H. congruence.
Qed.

Lemma uniq_qnames_NoDup l : NoDup (map qn l) -> uniq_qnames l = true.
Proof.
  induction l as [|[[p nm] v] r IH]; intro H; [reflexivity|].
  cbn [map] in H. inversion H as [|? ? Hn Hr]; subst. cbn [uniq_qnames]. rewrite (IH Hr), andb_true_r.
  apply negb_true_iff. destruct (existsb (same_qname p nm) r) eqn:E; [|reflexivity].
  apply existsb_exists in E. destruct E as ([[p' nm'] v'] & Hin & Hs). unfold same_qname in Hs.
  apply andb_true_iff in Hs. destruct Hs as [H1 H2]. apply beq_opt_bytes_eq in H1. apply beq_bytes_eq in H2. subst.
  exfalso. apply Hn. apply in_map_iff. exists (p', nm', v'). split; [reflexivity|exact Hin].
Qed.

Section Metas.
  Variable t : doctabs.
  Variable V : bytes -> Prop.
  Hypothesis Hmods : mods_okb t = true.

  Lemma print_metas_spec m : forall st attrs st2,
    Inv st -> Forall (meta_ok t V) m -> NoDup (map fst m) -> print_metas t st m = (attrs, st2) ->
    Forall (pattr_ok V) attrs /\ Inv st2 /\
    (forall p u, In (PDecl p u) attrs -> exists pf, p = Some pf /\ ~ In pf (sprefs st)) /\
    (forall q nm v, In (PMeta q nm v) attrs ->
       exists m0 mi, In (m0, mi) (dt_mods t) /\ In (Some q, mi_ns mi) st2 /\ In (mi_name mi ++ 58 :: nm, v) m) /\
    NoDup (map qn (map lex_pattr attrs)).
  Proof.
    induction m as [|[k v] m IH]; intros st attrs st2 HI Hall Hnd H; cbn [print_metas] in H.
    - inversion H; subst. repeat split; try constructor; try apply HI; intros; contradiction.
    - inversion Hall as [|? ? Hk Hall']; subst. destruct Hk as (Hv & m0 & mi & nm & Hin & Hnm & Ek). cbn [fst snd] in *.
      pose proof (mods_ok_entry _ _ _ Hmods Hin) as MF.
      subst k. rewrite (split_colon_app _ _ (proj1 (ncname_ok_chars _ (mf_name _ _ _ MF)))) in H.
      rewrite (mf_byname _ _ _ MF) in H.
      cbn [map] in Hnd. inversion Hnd as [|? ? Hnk Hnd']; subst.
      unfold print_ns_prefix in H. cbv zeta in H. cbn [negb] in H.
      assert (Step : forall d st1 r q,
                 (d = [] /\ st1 = st /\ In (Some q, mi_ns mi) st) \/
                 (d = [PDecl (Some q) (mi_ns mi)] /\ st1 = (Some q, mi_ns mi) :: st /\ ~ In q (sprefs st) /\ pfx_good q) ->
                 print_metas t st1 m = (r, st2) ->
                 attrs = d ++ PMeta q nm v :: r ->
                 Forall (pattr_ok V) attrs /\ Inv st2 /\
                 (forall p u, In (PDecl p u) attrs -> exists pf, p = Some pf /\ ~ In pf (sprefs st)) /\
                 (forall q' nm' v', In (PMeta q' nm' v') attrs ->
                    exists m1 mi1, In (m1, mi1) (dt_mods t) /\ In (Some q', mi_ns mi1) st2 /\
                                   In (mi_name mi1 ++ 58 :: nm', v') ((mi_name mi ++ 58 :: nm, v) :: m)) /\
                 NoDup (map qn (map lex_pattr attrs))).
      { intros d st1 r q Hd E Ea.
        assert (HI1 : Inv st1).
        { destruct Hd as [(_ & -> & _)|(_ & -> & Hnq & Hg)]; [exact HI|]. destruct HI as [H1 H2].
          split; cbn [sprefs flat_map fst app]; fold (sprefs st); constructor; assumption. }
        assert (Hq1 : In (Some q, mi_ns mi) st1).
        { destruct Hd as [(_ & -> & Hq)|(_ & -> & _)]; [exact Hq|left; reflexivity]. }
        destruct (IH _ _ _ HI1 Hall' Hnd' E) as (A1 & A2 & A3 & A4 & A5).
        pose proof (print_metas_stack _ _ _ _ _ E) as Est.
        assert (Hq2 : In (Some q, mi_ns mi) st2) by (rewrite Est; apply in_or_app; right; exact Hq1).
        assert (Hqg : pfx_good q).
        { destruct A2 as [_ G]. rewrite Forall_forall in G. apply G, (sprefs_in _ _ _ Hq2). }
        assert (Pm : pattr_ok V (PMeta q nm v)).
        { cbn [pattr_ok]. destruct Hqg as [G1 G2]. repeat split; assumption. }
        assert (Incl1 : forall x, In x (sprefs st) -> In x (sprefs st1)).
        { destruct Hd as [(_ & -> & _)|(_ & -> & _)]; intros x Hx; [exact Hx|]. cbn [sprefs flat_map fst app]. right. exact Hx. }
        assert (NotInR : ~ In (Some q, nm) (map qn (map lex_pattr r))).
        { intro Hx. rewrite map_map in Hx. apply in_map_iff in Hx. destruct Hx as (a & Hqa & Har).
          destruct a as [[p|] ns|q' nm' v']; cbn [lex_pattr qn fst snd] in Hqa.
          - inversion Hqa as [[Hx Hy]]. apply (proj2 Hqg). symmetry. exact Hx.
          - discriminate Hqa.
          - inversion Hqa; subst q' nm'.
            destruct (A4 _ _ _ Har) as (m1 & mi1 & Hin1 & Hq1' & Hk1).
            pose proof (mods_ok_entry _ _ _ Hmods Hin1) as MF1.
            assert (Ens : mi_ns mi1 = mi_ns mi) by (apply (sprefs_uniq st2 q); [apply A2|exact Hq1'|exact Hq2]).
            pose proof (mf_byns _ _ _ MF1) as B1. rewrite Ens, (mf_byns _ _ _ MF) in B1.
            inversion B1; subst mi1. apply Hnk. change (mi_name mi ++ 58 :: nm) with (fst (mi_name mi ++ 58 :: nm, v')).
            apply in_map, Hk1. }
        subst attrs. split; [|split; [|split; [|split]]].
        - apply Forall_app. split.
          + destruct Hd as [(-> & _)|(-> & _ & _ & G1 & G2)]; constructor; [|constructor].
            cbn [pattr_ok]. repeat split; [exact G1|exact G2|apply (mf_ns _ _ _ MF)|apply (mf_ns _ _ _ MF)].
          + constructor; assumption.
        - exact A2.
        - intros p u Hpu. apply in_app_or in Hpu. destruct Hpu as [Hpu|[Hpu|Hpu]].
          + destruct Hd as [(-> & _)|(-> & _ & Hn & _)]; [contradiction|].
            destruct Hpu as [Hpu|[]]. inversion Hpu; subst. exists q. split; [reflexivity|exact Hn].
          + discriminate Hpu.
          + destruct (A3 _ _ Hpu) as (pf & -> & Hni). exists pf. split; [reflexivity|]. intro Hx. apply Hni, Incl1, Hx.
        - intros q' nm' v' Hq. apply in_app_or in Hq. destruct Hq as [Hq|[Hq|Hq]].
          + destruct Hd as [(-> & _)|(-> & _)]; [contradiction|]. destruct Hq as [Hq|[]]. discriminate Hq.
          + inversion Hq; subst. exists m0, mi. repeat split; [exact Hin|exact Hq2|left; reflexivity].
          + destruct (A4 _ _ _ Hq) as (m1 & mi1 & X1 & X2 & X3). exists m1, mi1. repeat split; [exact X1|exact X2|right; exact X3].
        - rewrite !map_app. cbn [map lex_pattr qn fst snd].
          destruct Hd as [(-> & _ & _)|(-> & -> & Hn & _)]; cbn [map app].
          + constructor; assumption.
          + cbn [lex_pattr qn fst snd]. constructor.
            * intros [Hx|Hx].
              { inversion Hx as [[Hy Hz]]. apply (proj2 Hqg). exact Hy. }
              rewrite map_map in Hx. apply in_map_iff in Hx. destruct Hx as (a & Hqa & Har).
              destruct a as [[p|] ns|q' nm' v']; cbn [lex_pattr qn fst snd] in Hqa.
              -- inversion Hqa; subst p.
                 destruct (A3 _ _ Har) as (pf & Hpf & Hni). inversion Hpf; subst pf.
                 apply Hni. cbn [sprefs flat_map fst app]. left. reflexivity.
              -- discriminate Hqa.
              -- inversion Hqa as [[Hy Hz]].
                 destruct (A4 _ _ _ Har) as (m1 & mi1 & _ & Hq1' & _).
                 destruct A2 as [_ G]. rewrite Forall_forall in G. apply (proj2 (G _ (sprefs_in _ _ _ Hq1'))). exact Hy.
            * constructor; assumption. }
      destruct (ns_find_prefix st (mi_ns mi) (mi_prefix mi) false) as [q|] eqn:Ef.
      + pose proof (ns_find_prefix_some _ _ _ _ Ef) as Hin1.
        destruct (print_metas t st m) as [r st3] eqn:E. inversion H; subst attrs st3.
        apply (Step [] st r q); [left; repeat split; assumption|exact E|reflexivity].
      + set (q := uniq_prefix st (mi_prefix mi)) in *.
        destruct (print_metas t ((Some q, mi_ns mi) :: st) m) as [r st3] eqn:E. inversion H; subst attrs st3.
        apply (Step [PDecl (Some q) (mi_ns mi)] ((Some q, mi_ns mi) :: st) r q); [|exact E|reflexivity].
        right. repeat split; [apply uniq_prefix_free|apply uniq_prefix_good; split; [apply (mf_prefix _ _ _ MF)|apply (mf_notxmlns _ _ _ MF)]
                             |apply uniq_prefix_good; split; [apply (mf_prefix _ _ _ MF)|apply (mf_notxmlns _ _ _ MF)]].
  Qed.
End Metas.

Definition xn (a : bytes * bytes * bytes) : bytes * bytes := (fst (fst a), snd (fst a)).

Lemma uniq_expanded_NoDup l : NoDup (map xn l) -> uniq_expanded l = true.
Proof.
  induction l as [|[[u nm] v] r IH]; intro H; [reflexivity|].
  cbn [map] in H. inversion H as [|? ? Hn Hr]; subst. cbn [uniq_expanded]. rewrite (IH Hr), andb_true_r.
  apply negb_true_iff. destruct (existsb (same_xname u nm) r) eqn:E; [|reflexivity].
  apply existsb_exists in E. destruct E as ([[u' nm'] v'] & Hin & Hs). unfold same_xname in Hs.
  apply andb_true_iff in Hs. destruct Hs as [H1 H2]. apply beq_bytes_eq in H1, H2. subst.
  exfalso. apply Hn. apply in_map_iff. exists (u', nm', v'). split; [reflexivity|exact Hin].
Qed.

Lemma pattr_qname_ok V a : pattr_ok V a -> lattr_qname_ok (lex_pattr a) = true.
Proof.
  destruct a as [[p|] ns|p nm v]; cbn [pattr_ok lex_pattr]; unfold lattr_qname_ok, qname_ok.
  - intros (Hp & _). rewrite Hp. reflexivity.
  - intros _. reflexivity.
  - intros (Hp & _ & Hn & _). rewrite Hp, Hn. reflexivity.
Qed.

Section Metas2.
  Variable t : doctabs.
  Variable V : bytes -> Prop.
  Hypothesis Hmods : mods_okb t = true.

  Lemma meta_generic_ok (k v : bytes) m0 mi (nm : bytes) :
    In (m0, mi) (dt_mods t) -> k = mi_name mi ++ 58 :: nm -> meta_generic t (k, v) = (mi_ns mi, nm, v).
  Proof.
    intros Hin ->. pose proof (mods_ok_entry _ _ _ Hmods Hin) as MF. unfold meta_generic. cbn [fst snd].
    rewrite (split_colon_app _ _ (proj1 (ncname_ok_chars _ (mf_name _ _ _ MF)))), (mf_byname _ _ _ MF). reflexivity.
  Qed.

  Lemma expand_printed m : forall st attrs st2 stF,
    print_metas t st m = (attrs, st2) -> Inv stF -> (forall e, In e st2 -> In e stF) -> Forall (meta_ok t V) m ->
    std_expand_attrs stF (map lex_pattr attrs) = Some (map (meta_generic t) m).
  Proof.
    induction m as [|[k v] m IH]; intros st attrs st2 stF H HIF Hincl Hall; cbn [print_metas] in H.
    - inversion H; subst. reflexivity.
    - inversion Hall as [|? ? Hk Hall']; subst. destruct Hk as (Hv & m0 & mi & nm & Hin & Hnm & Ek). cbn [fst snd] in *.
      pose proof (mods_ok_entry _ _ _ Hmods Hin) as MF.
      rewrite Ek in H. rewrite (split_colon_app _ _ (proj1 (ncname_ok_chars _ (mf_name _ _ _ MF)))) in H.
      rewrite (mf_byname _ _ _ MF) in H. unfold print_ns_prefix in H. cbv zeta in H. cbn [negb] in H.
      cbn [map]. rewrite (meta_generic_ok k v m0 mi nm Hin Ek).
      assert (Step : forall d st1 r q,
                 (d = [] \/ d = [PDecl (Some q) (mi_ns mi)]) -> In (Some q, mi_ns mi) st1 ->
                 print_metas t st1 m = (r, st2) -> attrs = d ++ PMeta q nm v :: r ->
                 std_expand_attrs stF (map lex_pattr attrs) = Some ((mi_ns mi, nm, v) :: map (meta_generic t) m)).
      { intros d st1 r q Hd Hin1 E ->.
        assert (Hst2 : In (Some q, mi_ns mi) st2).
        { rewrite (print_metas_stack _ _ _ _ _ E). apply in_or_app. right. exact Hin1. }
        assert (Hqx : q <> xmlns_b).
        { destruct HIF as [_ G]. rewrite Forall_forall in G. apply (G q (sprefs_in _ _ _ (Hincl _ Hst2))). }
        assert (Tail : std_expand_attrs stF (map lex_pattr (PMeta q nm v :: r)) =
                       Some ((mi_ns mi, nm, v) :: map (meta_generic t) m)).
        { cbn [map lex_pattr std_expand_attrs]. rewrite (beq_bytes_false _ _ Hqx).
          rewrite (std_prefix_ns_in stF _ _ (proj1 HIF) (Hincl _ Hst2)).
          rewrite (IH _ _ _ _ E HIF Hincl Hall'). reflexivity. }
        destruct Hd as [->| ->]; [exact Tail|].
        cbn [app map]. cbn [lex_pattr std_expand_attrs]. rewrite beq_bytes_true. exact Tail. }
      destruct (ns_find_prefix st (mi_ns mi) (mi_prefix mi) false) as [q|] eqn:Ef.
      + pose proof (ns_find_prefix_some _ _ _ _ Ef) as Hin1.
        destruct (print_metas t st m) as [r st3] eqn:E. inversion H; subst attrs st3.
        apply (Step [] st r q); [left; reflexivity|exact Hin1|exact E|reflexivity].
      + set (q := uniq_prefix st (mi_prefix mi)) in *.
        destruct (print_metas t ((Some q, mi_ns mi) :: st) m) as [r st3] eqn:E. inversion H; subst attrs st3.
        apply (Step [PDecl (Some q) (mi_ns mi)] ((Some q, mi_ns mi) :: st) r q);
          [right; reflexivity|left; reflexivity|exact E|reflexivity].
  Qed.

  Lemma metas_expanded_nodup m :
    Forall (meta_ok t V) m -> NoDup (map fst m) -> NoDup (map xn (map (meta_generic t) m)).
  Proof.
    induction m as [|[k v] m IH]; intros Hall Hnd; [constructor|].
    inversion Hall as [|? ? Hk Hall']; subst. cbn [map] in Hnd. inversion Hnd as [|? ? Hnk Hnd']; subst.
    destruct Hk as (_ & m0 & mi & nm & Hin & Hnm & Ek). cbn [fst snd] in *.
    cbn [map]. constructor; [|apply IH; assumption].
    rewrite (meta_generic_ok k v m0 mi nm Hin Ek). cbn [xn fst snd].
    intro Hx. rewrite map_map in Hx. apply in_map_iff in Hx. destruct Hx as ([k' v'] & Hq & Hin').
    rewrite Forall_forall in Hall'. destruct (Hall' _ Hin') as (_ & m1 & mi1 & nm1 & Hin1 & _ & Ek1). cbn [fst] in Ek1.
    rewrite (meta_generic_ok k' v' m1 mi1 nm1 Hin1 Ek1) in Hq. cbn [xn fst snd] in Hq. inversion Hq as [[Hns Hn1]]. subst nm1.
    pose proof (mf_byns _ _ _ (mods_ok_entry _ _ _ Hmods Hin1)) as B1.
    rewrite Hns, (mf_byns _ _ _ (mods_ok_entry _ _ _ Hmods Hin)) in B1. inversion B1; subst mi1.
    apply Hnk. rewrite Ek, <- Ek1. change k' with (fst (k', v')). apply in_map, Hin'.
  Qed.

  (* everything the reader needs to know about the start tag of a node *)
  Lemma open_attrs_spec st s m attrs st' :
    Inv st -> Forall (meta_ok t V) m -> NoDup (map fst m) ->
    (exists mi, In (node_mod t s, mi) (dt_mods t) /\ mod_info t (node_mod t s) = mi) ->
    open_attrs t st s m = (attrs, st') ->
    Forall (pattr_ok V) attrs /\ Inv st' /\ st' = rev (decls_of attrs) ++ st /\
    uniq_qnames (map lex_pattr attrs) = true /\ forallb lattr_qname_ok (map lex_pattr attrs) = true /\
    std_default_ns st' = node_ns t s /\
    std_expand_attrs st' (map lex_pattr attrs) = Some (map (meta_generic t) m) /\
    uniq_expanded (map (meta_generic t) m) = true.
  Proof.
    intros HI Hall Hnd (mi & Hin & Emi) H.
    pose proof (open_attrs_stack _ _ _ _ _ _ H) as Hst.
    pose proof (mods_ok_entry _ _ _ Hmods Hin) as MF.
    assert (Ens : node_ns t s = mi_ns mi) by (unfold node_ns; rewrite Emi; reflexivity).
    unfold open_attrs, print_ns_default in H.
    assert (Main : forall d st1 r,
               (d = [] /\ st1 = st /\ std_default_ns st = node_ns t s) \/
               (d = [PDecl None (node_ns t s)] /\ st1 = (None, node_ns t s) :: st) ->
               print_metas t st1 m = (r, st') -> attrs = d ++ r ->
               Forall (pattr_ok V) attrs /\ Inv st' /\
               uniq_qnames (map lex_pattr attrs) = true /\ forallb lattr_qname_ok (map lex_pattr attrs) = true /\
               std_default_ns st' = node_ns t s /\
               std_expand_attrs st' (map lex_pattr attrs) = Some (map (meta_generic t) m)).
    { intros d st1 r Hd E ->.
      assert (HI1 : Inv st1).
      { destruct Hd as [(_ & -> & _)|(_ & ->)]; exact HI. }
      destruct (print_metas_spec t V Hmods m _ _ _ HI1 Hall Hnd E) as (A1 & A2 & A3 & A4 & A5).
      assert (Pall : Forall (pattr_ok V) (d ++ r)).
      { apply Forall_app. split; [|exact A1].
        destruct Hd as [(-> & _)|(-> & _)]; constructor; [|constructor]. cbn [pattr_ok]. rewrite Ens. apply (mf_ns _ _ _ MF). }
      split; [exact Pall|]. split; [exact A2|]. split; [|split; [|split]].
      - apply uniq_qnames_NoDup. rewrite !map_app.
        destruct Hd as [(-> & _)|(-> & _)]; cbn [map app]; [exact A5|].
        cbn [lex_pattr qn fst snd]. constructor; [|exact A5].
        intro Hx. rewrite map_map in Hx. apply in_map_iff in Hx. destruct Hx as (a & Hqa & Har).
        destruct a as [[p|] ns|q nm' v']; cbn [lex_pattr qn fst snd] in Hqa; try discriminate Hqa.
        destruct (A3 _ _ Har) as (pf & Hpf & _). discriminate Hpf.
      - rewrite forallb_forall. intros a Ha. apply in_map_iff in Ha. destruct Ha as (x & <- & Hx).
        rewrite Forall_forall in Pall. apply (pattr_qname_ok V), Pall, Hx.
      - rewrite (print_metas_stack _ _ _ _ _ E). rewrite std_default_ns_skip.
        + destruct Hd as [(_ & -> & Hd)|(_ & ->)]; [exact Hd|reflexivity].
        + apply Forall_forall. intros [p u] Hpu. apply in_rev in Hpu. unfold decls_of in Hpu.
          apply in_flat_map in Hpu. destruct Hpu as (a & Har & Hpa).
          destruct a as [p' ns|? ? ?]; [|contradiction]. destruct Hpa as [Hpa|[]]. inversion Hpa; subst.
          destruct (A3 _ _ Har) as (pf & -> & _). discriminate.
      - assert (Tail : std_expand_attrs st' (map lex_pattr r) = Some (map (meta_generic t) m)).
        { apply (expand_printed m st1 r st' st' E A2); [auto|exact Hall]. }
        destruct Hd as [(-> & _)|(-> & _)]; [exact Tail|].
        cbn [app map lex_pattr std_expand_attrs]. rewrite beq_bytes_true. exact Tail. }
    assert (Hux : uniq_expanded (map (meta_generic t) m) = true)
      by (apply uniq_expanded_NoDup, metas_expanded_nodup; assumption).
    destruct (ns_has_default st (node_ns t s)) eqn:Ed.
    - destruct (print_metas t st m) as [r st2] eqn:E. inversion H; subst attrs st2.
      destruct (Main [] st r) as (B1 & B2 & B3 & B4 & B5 & B6);
        [left; repeat split; apply std_default_ns_has, Ed|exact E|reflexivity|].
      exact (conj B1 (conj B2 (conj Hst (conj B3 (conj B4 (conj B5 (conj B6 Hux))))))).
    - destruct (print_metas t ((None, node_ns t s) :: st) m) as [r st2] eqn:E. inversion H; subst attrs st2.
      destruct (Main [PDecl None (node_ns t s)] ((None, node_ns t s) :: st) r) as (B1 & B2 & B3 & B4 & B5 & B6);
        [right; split; reflexivity|exact E|reflexivity|].
      exact (conj B1 (conj B2 (conj Hst (conj B3 (conj B4 (conj B5 (conj B6 Hux))))))).
  Qed.
End Metas2.

(* ====================================================================================== *)
(* the generic reader on printed documents                                                 *)
(* ====================================================================================== *)
Lemma isnil_app_cons {A} (a : list A) x b : isnil (a ++ x :: b) = false.
Proof. destruct a; reflexivity. Qed.

Lemma render_attrs_len attrs : (length attrs <= length (render_attrs attrs))%nat.
Proof.
  induction attrs as [|a r IH]; [apply Nat.le_refl|].
  unfold render_attrs in *. cbn [flat_map length]. rewrite app_length.
  assert (1 <= length (render_attr a))%nat by (destruct a as [[p|] ns|p nm v]; cbn [render_attr length]; lia).
  lia.
Qed.

Lemma render_attrs_head attrs tail :
  (exists c r, tail = c :: r /\ stopper c /\ is_xml_S c = false) ->
  exists c r, render_attrs attrs ++ tail = c :: r /\ stopper c.
Proof.
  intros (c & r & -> & Hs & _). destruct attrs as [|a l].
  - exists c, r. split; [reflexivity|exact Hs].
  - exists 32, (tl (render_attr a) ++ render_attrs l ++ c :: r). split; [|exact stopper_sp].
    unfold render_attrs. cbn [flat_map]. destruct a as [[p|] ns|p nm v]; cbn [render_attr tl app]; rewrite <- ?app_assoc; reflexivity.
Qed.

Section Main.
  Variable sch : schema.
  Variable t : doctabs.
  Variable V : bytes -> Prop.
  Variable rd_text : bytes -> option (bytes * bytes).
  Variable rd_att : N -> bytes -> option (bytes * bytes).
  Hypothesis Htabs : tabs_okb sch t = true.
  Hypothesis V_nil : V [].
  Hypothesis rd_text_ok : forall v c rest, V v -> c <> 33 -> rd_text (xml_esc false v ++ 60 :: c :: rest) = Some (v, 60 :: c :: rest).
  Hypothesis rd_att_ok : forall v rest, V v -> rd_att 34 (xml_esc true v ++ 34 :: rest) = Some (v, rest).
  Hypothesis rd_att_raw : forall ns rest, forallb ns_char_ok ns = true -> rd_att 34 (ns ++ 34 :: rest) = Some (ns, rest).

  Lemma Hmods : mods_okb t = true.
  Proof. unfold tabs_okb in Htabs. apply andb_true_iff in Htabs. apply Htabs. Qed.
  Lemma Hnames : names_okb sch t = true.
  Proof. unfold tabs_okb in Htabs. apply andb_true_iff in Htabs. apply Htabs. Qed.

  (* what the theorems ask of the data beyond Canon: no anydata, terms hold a value of the class V, inner nodes no value,
     metadata: distinct keys  module-name:identifier  of listed modules with values of the class V *)
  Fixpoint DocN (n : dnode) {struct n} : Prop :=
    match n with
    | DN s v d m ch =>
        kind_of sch s <> KAny /\ (if is_term sch s then V v else v = []) /\
        Forall (meta_ok t V) m /\ NoDup (map fst m) /\
        (fix all (l : list dnode) : Prop := match l with [] => True | x :: l' => DocN x /\ all l' end) ch
    end.

  Lemma DocN_unfold s v d m ch :
    DocN (DN s v d m ch) <->
    kind_of sch s <> KAny /\ (if is_term sch s then V v else v = []) /\
    Forall (meta_ok t V) m /\ NoDup (map fst m) /\ Forall DocN ch.
  Proof.
    cbn [DocN].
    assert (HF : forall l, (fix all (l : list dnode) : Prop :=
                              match l with [] => True | x :: l' => DocN x /\ all l' end) l <-> Forall DocN l).
    { induction l as [|x l IH]; [split; [constructor|trivial]|]. split.
      - intros [H1 H2]. constructor; [assumption|apply IH; assumption].
      - intro H. inversion H; subst. split; [assumption|apply IH; assumption]. }
    rewrite HF. reflexivity.
  Qed.

  (* what the reader needs of the position of a node (follows from Canon, and survives pruning): a known schema node
     under its schema parent, terms without children *)
  Fixpoint Placed (p : option sid) (n : dnode) {struct n} : Prop :=
    match n with
    | DN s v d m ch =>
        (exists i, lookup sch s = Some i /\ si_parent i = p /\ (is_term_kind (si_kind i) = true -> ch = [])) /\
        (fix all (l : list dnode) : Prop := match l with [] => True | x :: l' => Placed (Some s) x /\ all l' end) ch
    end.

  Lemma Placed_unfold p s v d m ch :
    Placed p (DN s v d m ch) <->
    (exists i, lookup sch s = Some i /\ si_parent i = p /\ (is_term_kind (si_kind i) = true -> ch = [])) /\
    Forall (Placed (Some s)) ch.
  Proof.
    cbn [Placed].
    assert (HF : forall l, (fix all (l : list dnode) : Prop :=
                              match l with [] => True | x :: l' => Placed (Some s) x /\ all l' end) l <->
                           Forall (Placed (Some s)) l).
    { induction l as [|x l IH]; [split; [constructor|trivial]|]. split.
      - intros [H1 H2]. constructor; [assumption|apply IH; assumption].
      - intro H. inversion H; subst. split; [assumption|apply IH; assumption]. }
    rewrite HF. reflexivity.
  Qed.

  Lemma CanonN_Placed n : forall p, CanonN sch p n -> Placed p n.
  Proof.
    induction n as [s v d m ch IH] using dnode_ind'. intros p HC.
    rewrite CanonN_unfold in HC. destruct HC as ((i & Hl & Hpar & _ & Hterm) & _ & HCch).
    rewrite Placed_unfold. split; [exists i; auto|].
    rewrite Forall_forall in *. intros x Hx. apply (IH x Hx), HCch, Hx.
  Qed.

  Lemma xml_node_all st s v d m ch :
    xml_node sch t sel_all st (DN s v d m ch) =
    let nm := node_name t s in
    let '(attrs, st') := open_attrs t st s m in
    60 :: nm ++ render_attrs attrs ++
    match kind_of sch s with
    | KLeaf | KLeafList => match v with [] => [47; 62] | _ => 62 :: xml_esc false v ++ close_tag nm end
    | KCont _ | KList =>
        if existsb sel_all ch then 62 :: flat_map (xml_node sch t sel_all st') ch ++ close_tag nm else [47; 62]
    | KAny => [47; 62]
    end.
  Proof. reflexivity. Qed.

  Definition gen_step (n : dnode) : Prop := forall p f st rest,
    Placed p n -> DocN n -> Inv st ->
    (length (xml_node sch t sel_all st n ++ rest) <= f)%nat ->
    gx_content rd_text rd_att (S f) st (xml_node sch t sel_all st n ++ rest) =
      match gx_content rd_text rd_att f st rest with
      | Some (txt', es, r6) => Some (txt', to_generic_node t n :: es, r6)
      | None => None
      end.

  Lemma rd_text_nil c rest : c <> 33 -> rd_text (60 :: c :: rest) = Some ([], 60 :: c :: rest).
  Proof. intro H. exact (rd_text_ok [] c rest V_nil H). Qed.

  Definition rest_end (rest : bytes) : Prop := rest = [] \/ exists r, rest = 60 :: 47 :: r.

  Lemma gx_rest_end f st rest :
    rest_end rest -> gx_content rd_text rd_att (S f) st rest = Some ([], [], rest).
  Proof.
    intros [->|(r & ->)]; cbn [gx_content isnil]; [reflexivity|].
    rewrite (rd_text_nil 47 r) by discriminate. reflexivity.
  Qed.

  Lemma gx_list ch :
    Forall gen_step ch -> forall p f st rest,
    Forall (Placed p) ch -> Forall DocN ch -> Inv st -> rest_end rest ->
    (length (flat_map (xml_node sch t sel_all st) ch ++ rest) < f)%nat ->
    gx_content rd_text rd_att f st (flat_map (xml_node sch t sel_all st) ch ++ rest) =
      Some ([], map (to_generic_node t) ch, rest).
  Proof.
    induction 1 as [|x ch Hx _ IH]; intros p f st rest HC HD HI Hr Hf.
    - destruct f as [|f]; [cbn in Hf; lia|]. cbn [flat_map app map]. apply gx_rest_end, Hr.
    - destruct f as [|f]; [cbn in Hf; lia|].
      inversion HC as [|? ? HCx HCr]; subst. inversion HD as [|? ? HDx HDr]; subst.
      cbn [flat_map map]. rewrite <- app_assoc.
      rewrite (Hx p f st _ HCx HDx HI).
      + rewrite (IH p f st rest HCr HDr HI Hr).
        * reflexivity.
        * cbn [flat_map] in Hf. rewrite <- app_assoc, app_length in Hf.
          assert (1 <= length (xml_node sch t sel_all st x))%nat.
          { destruct x as [s v d m c]. rewrite xml_node_all. cbv zeta. destruct (open_attrs t st s m). cbn [length]. lia. }
          lia.
      + cbn [flat_map] in Hf. rewrite <- app_assoc in Hf. lia.
  Qed.

  Lemma std_etag_close nm rest :
    ncname_ok nm = true -> std_etag None nm (close_tag nm ++ rest) = Some rest.
  Proof.
    intro Hn. unfold std_etag, close_tag. cbn [app starts_with skipn]. cbn [N.eqb Pos.eqb andb].
    rewrite <- app_assoc. cbn [app].
    rewrite (lex_qname_plain nm 62 rest Hn stopper_gt). cbn [beq_opt_bytes]. rewrite beq_bytes_true.
    rewrite (skip_S_stop 62) by reflexivity. reflexivity.
  Qed.

  Lemma gen_step_all n : gen_step n.
  Proof.
    induction n as [s v d m ch IH] using dnode_ind'. intros p f st rest HC HD HI Hf.
    rewrite Placed_unfold in HC. destruct HC as ((i & Hl & Hpar & Hterm) & HCch).
    rewrite DocN_unfold in HD. destruct HD as (Hany & Hval & Hmeta & Hnd & HDch).
    pose proof (names_ok_entry _ _ _ _ Hnames Hl) as NF.
    destruct (nf_mod _ _ _ NF) as (mi & Hmi & Emi).
    rewrite xml_node_all in Hf |- *. cbv zeta in Hf |- *.
    destruct (open_attrs t st s m) as [attrs st'] eqn:Eo.
    destruct (open_attrs_spec t V Hmods st s m attrs st' HI Hmeta Hnd (ex_intro _ mi (conj Hmi Emi)) Eo)
      as (A1 & A2 & A3 & A4 & A5 & A6 & A7 & A8).
    set (nm := node_name t s) in *. pose proof (nf_name _ _ _ NF) as Hnm. fold nm in Hnm.
    set (body := match kind_of sch s with
                 | KLeaf | KLeafList => match v with [] => [47; 62] | _ => 62 :: xml_esc false v ++ close_tag nm end
                 | KCont _ | KList => if existsb sel_all ch then 62 :: flat_map (xml_node sch t sel_all st') ch ++ close_tag nm else [47; 62]
                 | KAny => [47; 62]
                 end) in *.
    assert (Hbody : exists c r, body ++ rest = c :: r /\ stopper c /\ is_xml_S c = false /\ (c = 47 \/ c = 62)).
    { subst body. destruct (kind_of sch s); try destruct v; try destruct (existsb sel_all ch); cbn [app];
        eexists; eexists; (split; [reflexivity|]); repeat split; try discriminate; auto. }
    destruct (ncname_first nm Hnm) as (c0 & r0 & Enm & Hc0).
    destruct (ncname_start_facts c0 Hc0) as (H33 & H47 & _ & _ & _).
    (* the text before the start tag is empty *)
    cbn [app]. rewrite <- !app_assoc. cbn [gx_content isnil].
    rewrite Enm at 1. cbn [app].
    rewrite (rd_text_nil c0 _ H33). cbn [isnil starts_with].
    apply N.eqb_neq in H47. rewrite (N.eqb_sym 47 c0), H47. cbn [andb negb N.eqb Pos.eqb skipn].
    change (c0 :: r0 ++ render_attrs attrs ++ body ++ rest) with ((c0 :: r0) ++ render_attrs attrs ++ body ++ rest).
    rewrite <- Enm.
    destruct Hbody as (cb & rb & Eb & Hsb & HSb & Hcb).
    destruct (render_attrs_head attrs (body ++ rest)) as (c1 & r1 & E1 & Hs1); [exists cb, rb; auto|].
    rewrite E1. rewrite (lex_qname_plain nm c1 r1 Hnm Hs1). rewrite <- E1.
    unfold qname_ok. rewrite Hnm. cbn [andb negb].
    rewrite (gx_attrs_rt V rd_att rd_att_ok rd_att_raw attrs _ (body ++ rest) A1).
    2:{ exists cb, rb. split; [exact Eb|exact HSb]. }
    2:{ pose proof (render_attrs_len attrs). rewrite app_length. lia. }
    rewrite A4, A5. cbn [andb negb].
    rewrite (std_decls_printed V attrs A1). rewrite <- A3. rewrite A6, A7, A8. cbn [negb].
    (* the content *)
    assert (Hgen : to_generic_node t (DN s v d m ch) = XE (node_ns t s) nm (map (meta_generic t) m) v (map (to_generic_node t) ch))
      by reflexivity.
    rewrite Hgen.
    assert (Hlen : (length (body ++ rest) < f)%nat).
    { cbn [app length] in Hf. rewrite !app_length in Hf. rewrite app_length. rewrite Enm in Hf. cbn [length] in Hf. lia. }
    unfold is_term, kind_of in Hval, Hterm. unfold sget in Hval. rewrite Hl in Hval.
    subst body. unfold kind_of, sget in *. rewrite Hl in *.
    destruct (si_kind i) eqn:Ek; cbn [is_term_kind] in Hval, Hterm.
    - (* container *)
      subst v. destruct ch as [|c1' ch'].
      + cbn [existsb app starts_with N.eqb Pos.eqb andb skipn map]. reflexivity.
      + cbn [existsb sel_all orb]. cbn [app starts_with N.eqb Pos.eqb andb skipn]. rewrite <- app_assoc.
        rewrite (gx_list _ IH (Some s) f st' (close_tag nm ++ rest) HCch HDch A2).
        * rewrite (std_etag_close nm rest Hnm). reflexivity.
        * right. eexists. reflexivity.
        * cbn [existsb sel_all orb app length] in Hlen. rewrite <- app_assoc in Hlen. lia.
    - (* leaf *)
      specialize (Hterm eq_refl). subst ch. destruct v as [|b v'].
      + cbn [app starts_with N.eqb Pos.eqb andb skipn map]. reflexivity.
      + cbn [app starts_with N.eqb Pos.eqb andb skipn]. rewrite <- app_assoc.
        destruct f as [|f']; [cbn in Hlen; lia|].
        unfold close_tag. cbn [app gx_content]. rewrite isnil_app_cons.
        rewrite (rd_text_ok (b :: v') 47 _ Hval) by discriminate. cbn [isnil starts_with N.eqb Pos.eqb andb].
        change (60 :: 47 :: (nm ++ [62]) ++ rest) with (close_tag nm ++ rest).
        rewrite (std_etag_close nm rest Hnm). reflexivity.
    - (* leaf-list *)
      specialize (Hterm eq_refl). subst ch. destruct v as [|b v'].
      + cbn [app starts_with N.eqb Pos.eqb andb skipn map]. reflexivity.
      + cbn [app starts_with N.eqb Pos.eqb andb skipn]. rewrite <- app_assoc.
        destruct f as [|f']; [cbn in Hlen; lia|].
        unfold close_tag. cbn [app gx_content]. rewrite isnil_app_cons.
        rewrite (rd_text_ok (b :: v') 47 _ Hval) by discriminate. cbn [isnil starts_with N.eqb Pos.eqb andb].
        change (60 :: 47 :: (nm ++ [62]) ++ rest) with (close_tag nm ++ rest).
        rewrite (std_etag_close nm rest Hnm). reflexivity.
    - (* list *)
      subst v. destruct ch as [|c1' ch'].
      + cbn [existsb app starts_with N.eqb Pos.eqb andb skipn map]. reflexivity.
      + cbn [existsb sel_all orb]. cbn [app starts_with N.eqb Pos.eqb andb skipn]. rewrite <- app_assoc.
        rewrite (gx_list _ IH (Some s) f st' (close_tag nm ++ rest) HCch HDch A2).
        * rewrite (std_etag_close nm rest Hnm). reflexivity.
        * right. eexists. reflexivity.
        * cbn [existsb sel_all orb app length] in Hlen. rewrite <- app_assoc in Hlen. lia.
    - exfalso. apply Hany. reflexivity.
  Qed.

  (* ---------- the namespace law of the start tags (what comps_doc.QNamesX checks on libyang's output) ---------- *)
  (* [TagsOK st n]: in the start tag the printer writes for n under the declarations st - and in those of all its
     descendants - no prefix is defined twice, no prefix of the scope is re-defined, the default namespace is the one of the
     node's module, and the prefix of every metadata attribute is bound, in the scope of the element, to the namespace of the
     module of its annotation (the printer's own view: open_attrs is what xml_node renders) *)
  Fixpoint TagsOK (st : nsstack) (n : dnode) {struct n} : Prop :=
    match n with
    | DN s v d m ch =>
        let '(attrs, st') := open_attrs t st s m in
        NoDup (sprefs (decls_of attrs)) /\
        (forall q u, In (PDecl (Some q) u) attrs -> ~ In q (sprefs st)) /\
        std_default_ns st' = node_ns t s /\
        (forall q nm v, In (PMeta q nm v) attrs ->
           exists m0 mi, In (m0, mi) (dt_mods t) /\ In (mi_name mi ++ 58 :: nm, v) m /\ std_prefix_ns st' q = Some (mi_ns mi)) /\
        (fix all (l : list dnode) : Prop := match l with [] => True | c :: l' => TagsOK st' c /\ all l' end) ch
    end.

  Lemma sprefs_rev l : forall x, In x (sprefs (rev l)) <-> In x (sprefs l).
  Proof.
    intro x. unfold sprefs. rewrite !in_flat_map. split; intros (e & He & Hx); exists e; (split; [|exact Hx]).
    - apply in_rev. exact He.
    - apply in_rev in He. exact He.
  Qed.

  Lemma sprefs_rev_eq (l : nsstack) : sprefs (rev l) = rev (sprefs l).
  Proof.
    induction l as [|[[q|] u] l IHl]; [reflexivity| |]; cbn [rev]; rewrite sprefs_app, IHl.
    - change (sprefs ((Some q, u) :: l)) with (q :: sprefs l). reflexivity.
    - change (sprefs ((None, u) :: l)) with (sprefs l). apply app_nil_r.
  Qed.

  Lemma NoDup_app_l {A} (a b : list A) : NoDup (a ++ b) -> NoDup a.
  Proof.
    induction a as [|x a IHa]; intro H; [constructor|]. cbn [app] in H. inversion H as [|? ? Hn Hr]; subst.
    constructor; [intro Hx; apply Hn, in_or_app; left; exact Hx|exact (IHa Hr)].
  Qed.

  Theorem tags_ok n : forall p st, Placed p n -> DocN n -> Inv st -> TagsOK st n.
  Proof.
    induction n as [s v d m ch IH] using dnode_ind'. intros p st HC HD HI.
    rewrite Placed_unfold in HC. destruct HC as ((i & Hl & Hpar & Hterm) & HCch).
    rewrite DocN_unfold in HD. destruct HD as (Hany & Hval & Hmeta & Hnd & HDch).
    pose proof (names_ok_entry _ _ _ _ Hnames Hl) as NF.
    destruct (nf_mod _ _ _ NF) as (mi & Hmi & Emi).
    cbn [TagsOK]. destruct (open_attrs t st s m) as [attrs st'] eqn:Eo.
    destruct (open_attrs_spec t V Hmods st s m attrs st' HI Hmeta Hnd (ex_intro _ mi (conj Hmi Emi)) Eo)
      as (A1 & A2 & A3 & A4 & A5 & A6 & A7 & A8).
    assert (Hsp : sprefs st' = sprefs (rev (decls_of attrs)) ++ sprefs st) by (rewrite A3; apply sprefs_app).
    destruct A2 as [A2 A2'].
    split; [|split; [|split; [exact A6|split]]].
    - (* no prefix twice in the tag *)
      rewrite Hsp in A2. apply NoDup_app_l in A2.
      rewrite sprefs_rev_eq in A2. apply NoDup_rev in A2. rewrite rev_involutive in A2. exact A2.
    - (* no prefix of the scope is defined again *)
      intros q u Hin Hq. rewrite Hsp in A2.
      assert (Hd : In q (sprefs (rev (decls_of attrs)))).
      { apply sprefs_rev. apply (sprefs_in _ q u). unfold decls_of. apply in_flat_map. exists (PDecl (Some q) u). split; [exact Hin|left; reflexivity]. }
      clear -A2 Hd Hq. induction (sprefs (rev (decls_of attrs))) as [|x l IHl]; [contradiction|].
      cbn [app] in A2. inversion A2 as [|? ? Hn Hr]; subst. destruct Hd as [->|Hd]; [apply Hn, in_or_app; right; exact Hq|exact (IHl Hr Hd)].
    - (* the prefixes of the metadata attributes *)
      intros q nm v0 Hin. unfold open_attrs in Eo.
      destruct (print_ns_default st (node_ns t s)) as [d0 st1] eqn:Ed. destruct (print_metas t st1 m) as [r st2] eqn:Er.
      inversion Eo; subst attrs st2.
      assert (HI1 : Inv st1).
      { unfold print_ns_default in Ed. destruct (ns_has_default st (node_ns t s)); inversion Ed; subst; exact HI. }
      destruct (print_metas_spec t V Hmods m _ _ _ HI1 Hmeta Hnd Er) as (_ & _ & _ & B4 & _).
      assert (Hr : In (PMeta q nm v0) r).
      { apply in_app_or in Hin. destruct Hin as [Hin|Hin]; [|exact Hin].
        unfold print_ns_default in Ed. destruct (ns_has_default st (node_ns t s)); inversion Ed; subst; [contradiction|].
        destruct Hin as [Hin|[]]. discriminate Hin. }
      destruct (B4 q nm v0 Hr) as (m0 & mi0 & H1 & H2 & H3). exists m0, mi0. split; [exact H1|]. split; [exact H3|].
      apply std_prefix_ns_in; [exact A2|exact H2].
    - (* the descendants, under the declarations of this tag *)
      assert (HI' : Inv st') by (split; assumption).
      clear -IH HCch HDch HI'. induction ch as [|c l IHl]; [exact I|].
      inversion IH; subst. inversion HCch; subst. inversion HDch; subst. split; [eauto|]. apply IHl; assumption.
  Qed.

  Lemma Inv_nil : Inv [].
  Proof. split; constructor. Qed.

  (* the generic reader on the printed forest: no character data at the top, the generic trees of the nodes *)
  Theorem gx_parse_printed f :
    Forall (Placed None) f -> Forall DocN f ->
    gx_parse rd_text rd_att (xml_print_all sch t f) = Some ([], to_generic t f).
  Proof.
    intros HP HD. unfold gx_parse, xml_print_all, xml_print, xml_forest.
    assert (HS : Forall gen_step f) by (apply Forall_forall; intros x _; apply gen_step_all).
    pose proof (gx_list f HS None (S (length (flat_map (xml_node sch t sel_all []) f))) [] [] HP HD Inv_nil (or_introl eq_refl)) as H.
    rewrite app_nil_r in H. rewrite H; [reflexivity|lia].
  Qed.

  (* ---------- the schema-directed conversion of the generic tree ---------- *)
  Lemma node_of_xnode_unfold p u nm xa txt ch :
    node_of_xnode sch t p (XE u nm xa txt ch) =
    match mod_by_ns (dt_mods t) u with
    | None => None
    | Some (mid, _) =>
    match sid_by_name sch (dt_names t) p mid nm with
    | None => None
    | Some sd =>
    match metas_of t xa with
    | None => None
    | Some ms =>
        if is_term sch sd then (if isnil ch then Some (DN sd txt false ms []) else None)
        else if isnil txt then
          match forest_of_xnodes sch t (Some sd) ch with
          | Some f => Some (DN sd [] false ms f)
          | None => None
          end
        else None
    end end end.
  Proof.
    cbn [node_of_xnode]. destruct (mod_by_ns (dt_mods t) u) as [[mid ?]|]; [|reflexivity].
    destruct (sid_by_name sch (dt_names t) p mid nm) as [sd|]; [|reflexivity].
    destruct (metas_of t xa) as [ms|]; [|reflexivity].
    destruct (is_term sch sd); [reflexivity|]. destruct (isnil txt); [|reflexivity].
    assert (E : forall l, (fix go (l : list xnode) : option forest :=
                 match l with
                 | [] => Some []
                 | x :: l' =>
                     match node_of_xnode sch t (Some sd) x, go l' with
                     | Some n, Some r => Some (n :: r)
                     | _, _ => None
                     end
                 end) l = forest_of_xnodes sch t (Some sd) l).
    { induction l as [|x l IHl]; [reflexivity|]. cbn [forest_of_xnodes]. rewrite IHl. reflexivity. }
    rewrite E. reflexivity.
  Qed.

  Lemma metas_of_generic m : Forall (meta_ok t V) m -> metas_of t (map (meta_generic t) m) = Some m.
  Proof.
    induction 1 as [|[k v] m Hk _ IH]; [reflexivity|].
    destruct Hk as (_ & m0 & mi & nm & Hin & _ & Ek). cbn [fst snd] in Ek.
    cbn [map]. rewrite (meta_generic_ok t Hmods k v m0 mi nm Hin Ek). cbn [metas_of].
    rewrite (mf_byns _ _ _ (mods_ok_entry _ _ _ Hmods Hin)), IH, <- Ek. reflexivity.
  Qed.

  Lemma node_of_generic n : forall p,
    Placed p n -> DocN n -> node_of_xnode sch t p (to_generic_node t n) = Some (clear_dflt_node n).
  Proof.
    induction n as [s v d m ch IH] using dnode_ind'. intros p HC HD.
    rewrite Placed_unfold in HC. destruct HC as ((i & Hl & Hpar & Hterm) & HCch).
    rewrite DocN_unfold in HD. destruct HD as (Hany & Hval & Hmeta & Hnd & HDch).
    pose proof (names_ok_entry _ _ _ _ Hnames Hl) as NF.
    destruct (nf_mod _ _ _ NF) as (mi & Hmi & Emi).
    change (to_generic_node t (DN s v d m ch))
      with (XE (node_ns t s) (node_name t s) (map (meta_generic t) m) v (map (to_generic_node t) ch)).
    rewrite node_of_xnode_unfold.
    assert (Ens : node_ns t s = mi_ns mi) by (unfold node_ns; rewrite Emi; reflexivity).
    rewrite Ens, (mf_byns _ _ _ (mods_ok_entry _ _ _ Hmods Hmi)).
    pose proof (nf_sid _ _ _ NF) as Hsid. unfold sget in Hsid at 1. rewrite Hl, Hpar in Hsid. rewrite Hsid.
    rewrite (metas_of_generic m Hmeta).
    assert (Hch : forest_of_xnodes sch t (Some s) (map (to_generic_node t) ch) = Some (map clear_dflt_node ch)).
    { clear Hterm Hval. induction ch as [|x ch IHc]; [reflexivity|].
      inversion IH as [|? ? Hx Hr]; subst. inversion HCch as [|? ? Cx Cr]; subst. inversion HDch as [|? ? Dx Dr]; subst.
      cbn [map forest_of_xnodes]. rewrite (Hx (Some s) Cx Dx), (IHc Hr Cr Dr). reflexivity. }
    unfold is_term, kind_of, sget in *. rewrite Hl in *.
    destruct (is_term_kind (si_kind i)) eqn:Et.
    - rewrite (Hterm eq_refl). reflexivity.
    - subst v. cbn [isnil]. rewrite Hch. reflexivity.
  Qed.

  Lemma forest_of_generic f : forall p,
    Forall (Placed p) f -> Forall DocN f -> forest_of_xnodes sch t p (to_generic t f) = Some (clear_dflt f).
  Proof.
    induction f as [|x f IH]; intros p HP HD; [reflexivity|].
    inversion HP as [|? ? Px Pr]; subst. inversion HD as [|? ? Dx Dr]; subst.
    unfold to_generic, clear_dflt. cbn [map forest_of_xnodes]. rewrite (node_of_generic x p Px Dx).
    fold (to_generic t f). rewrite (IH p Pr Dr). reflexivity.
  Qed.

  (* ---------- selection: printing with a selector = printing the pruned forest ---------- *)
  Lemma existsb_prune (sel : dnode -> bool) (ch : list dnode) :
    existsb sel_all (flat_map (fun c => if sel c then [prune_node sel c] else []) ch) = existsb sel ch.
  Proof.
    induction ch as [|c ch IH]; [reflexivity|]. cbn [flat_map existsb]. destruct (sel c); cbn [app existsb sel_all orb]; [reflexivity|exact IH].
  Qed.

  Lemma xml_node_prune (sel : dnode -> bool) n : forall st,
    xml_node sch t sel st n = if sel n then xml_node sch t sel_all st (prune_node sel n) else [].
  Proof.
    induction n as [s v d m ch IH] using dnode_ind'. intro st.
    assert (Hch : forall st', flat_map (xml_node sch t sel st') ch =
                              flat_map (xml_node sch t sel_all st') (flat_map (fun c => if sel c then [prune_node sel c] else []) ch)).
    { intro st'. induction ch as [|c ch IHc]; [reflexivity|]. inversion IH as [|? ? Hc Hr]; subst.
      cbn [flat_map]. rewrite (Hc st'), (IHc Hr). destruct (sel c); cbn [app flat_map]; reflexivity. }
    cbn [xml_node prune_node]. destruct (sel (DN s v d m ch)); cbn [negb sel_all]; [|reflexivity].
    destruct (open_attrs t st s m) as [attrs st']. rewrite existsb_prune, (Hch st'). reflexivity.
  Qed.

  Lemma xml_print_prune (sel : dnode -> bool) f : xml_print sch t sel f = xml_print_all sch t (prune sel f).
  Proof.
    unfold xml_print_all, xml_print, xml_forest, prune. induction f as [|x f IH]; [reflexivity|].
    cbn [flat_map]. rewrite IH, xml_node_prune. destruct (sel x); cbn [app flat_map]; reflexivity.
  Qed.

  Lemma Placed_prune (sel : dnode -> bool) n : forall p, Placed p n -> Placed p (prune_node sel n).
  Proof.
    induction n as [s v d m ch IH] using dnode_ind'. intros p HC.
    rewrite Placed_unfold in HC. destruct HC as ((i & Hl & Hpar & Hterm) & HCch).
    cbn [prune_node]. rewrite Placed_unfold. split.
    - exists i. repeat split; try assumption. intro Ht. rewrite (Hterm Ht). reflexivity.
    - clear Hterm. induction ch as [|c ch IHc]; [constructor|]. inversion IH as [|? ? Hc Hr]; subst.
      inversion HCch as [|? ? Cc Cr]; subst. cbn [flat_map]. destruct (sel c); cbn [app]; [constructor; [apply Hc, Cc|]|]; apply IHc; assumption.
  Qed.

  Lemma DocN_prune (sel : dnode -> bool) n : DocN n -> DocN (prune_node sel n).
  Proof.
    induction n as [s v d m ch IH] using dnode_ind'. intro HD.
    rewrite DocN_unfold in HD. destruct HD as (Hany & Hval & Hmeta & Hnd & HDch).
    cbn [prune_node]. rewrite DocN_unfold. repeat split; try assumption.
    induction ch as [|c ch IHc]; [constructor|]. inversion IH as [|? ? Hc Hr]; subst.
    inversion HDch as [|? ? Dc Dr]; subst. cbn [flat_map]. destruct (sel c); cbn [app]; [constructor; [apply Hc, Dc|]|]; apply IHc; assumption.
  Qed.

  Lemma Forall_prune (P : dnode -> Prop) (sel : dnode -> bool) f :
    (forall n, P n -> P (prune_node sel n)) -> Forall P f -> Forall P (prune sel f).
  Proof.
    intros HP. unfold prune. induction 1 as [|x f Hx _ IH]; [constructor|].
    cbn [flat_map]. destruct (sel x); cbn [app]; [constructor; [apply HP, Hx|exact IH]|exact IH].
  Qed.
End Main.

(* ====================================================================================== *)
(* the two pairs of text readers                                                           *)
(* ====================================================================================== *)
Lemma ns_chars_plain ns : forallb ns_char_ok ns = true -> Forall plain ns.
Proof.
  induction ns as [|c r IH]; intro H; [constructor|]. cbn [forallb] in H. apply andb_true_iff in H. destruct H as [Hc Hr].
  constructor; [|apply IH, Hr]. unfold ns_char_ok in Hc. unfold plain. lia.
Qed.

Lemma getutf8_ascii c r : 32 <= c -> c < 128 -> getutf8 (c :: r) = Some (c, 1%nat).
Proof.
  intros H1 H2. unfold getutf8. cbn [rd0 nth].
  pose proof (N_all_below_spec _ _ land128_small c H2) as E. cbn beta in E. rewrite E.
  assert (E2 : (c <? 32) = false) by lia. rewrite E2. reflexivity.
Qed.

Lemma ns_chars_lexable ns : forallb ns_char_ok ns = true -> lexable ns.
Proof.
  induction ns as [|c r IH]; intro H; [constructor|]. cbn [forallb] in H. apply andb_true_iff in H. destruct H as [Hc Hr].
  apply lx_cons with (cp := c) (u := 1%nat).
  - apply getutf8_ascii; unfold ns_char_ok in Hc; lia.
  - cbn [skipn]. apply IH, Hr.
Qed.

Lemma ly_rd_text_ok v c rest :
  lexable v -> c <> 33 -> ly_rd_text (xml_esc false v ++ 60 :: c :: rest) = Some (v, 60 :: c :: rest).
Proof.
  intros Hv Hc. unfold ly_rd_text. rewrite (xml_value_roundtrip false 60 v (c :: rest) Hv).
  - reflexivity.
  - left. split; reflexivity.
  - unfold cdata_hdr. cbn [starts_with]. apply N.eqb_neq in Hc. rewrite (N.eqb_sym 33 c), Hc. reflexivity.
Qed.

Lemma ly_rd_att_ok v rest : lexable v -> ly_rd_att 34 (xml_esc true v ++ 34 :: rest) = Some (v, rest).
Proof.
  intro Hv. unfold ly_rd_att. rewrite (xml_value_roundtrip true 34 v rest Hv).
  - reflexivity.
  - right. split; reflexivity.
  - reflexivity.
Qed.

Lemma ly_rd_att_raw ns rest : forallb ns_char_ok ns = true -> ly_rd_att 34 (ns ++ 34 :: rest) = Some (ns, rest).
Proof.
  intro H. rewrite <- (xml_esc_plain true ns (ns_chars_plain ns H)) at 1. apply ly_rd_att_ok, ns_chars_lexable, H.
Qed.

(* the standard side: values are the UTF-8 encodings of sequences of XML Chars *)
Definition V_std (v : bytes) : Prop := exists cps, xml_chars cps /\ v = flat_map utf8_encode cps.

Lemma xml_esc_no60 attr s : Forall (fun b => b <> 60) (xml_esc attr s).
Proof.
  induction s as [|b s IH]; [constructor|].
  rewrite xml_esc_cons, xml_esc_byte_spec.
  destruct (b =? 38); [repeat (constructor; [discriminate|]); exact IH|].
  destruct (b =? 60) eqn:E; [repeat (constructor; [discriminate|]); exact IH|].
  destruct (b =? 62); [repeat (constructor; [discriminate|]); exact IH|].
  destruct (b =? 13); [repeat (constructor; [discriminate|]); exact IH|].
  destruct ((b =? 9) && attr); [repeat (constructor; [discriminate|]); exact IH|].
  destruct ((b =? 10) && attr); [repeat (constructor; [discriminate|]); exact IH|].
  destruct ((b =? 34) && attr); [repeat (constructor; [discriminate|]); exact IH|].
  constructor; [lia|exact IH].
Qed.

Lemma xml_esc_attr_no34 s : Forall (fun b => b <> 34) (xml_esc true s).
Proof.
  induction s as [|b s IH]; [constructor|].
  rewrite xml_esc_cons, xml_esc_byte_spec.
  destruct (b =? 38); [repeat (constructor; [discriminate|]); exact IH|].
  destruct (b =? 60); [repeat (constructor; [discriminate|]); exact IH|].
  destruct (b =? 62); [repeat (constructor; [discriminate|]); exact IH|].
  destruct (b =? 13); [repeat (constructor; [discriminate|]); exact IH|].
  destruct ((b =? 9) && true); [repeat (constructor; [discriminate|]); exact IH|].
  destruct ((b =? 10) && true); [repeat (constructor; [discriminate|]); exact IH|].
  destruct ((b =? 34) && true) eqn:E; [repeat (constructor; [discriminate|]); exact IH|].
  constructor; [lia|exact IH].
Qed.

Lemma Forall_forallb_ne (x : N) l : Forall (fun b => b <> x) l -> forallb (fun b => negb (b =? x)) l = true.
Proof. induction 1 as [|b l Hb _ IH]; [reflexivity|]. cbn [forallb]. rewrite IH. apply N.eqb_neq in Hb. rewrite Hb. reflexivity. Qed.

Lemma std_rd_text_ok v c rest :
  V_std v -> std_rd_text (xml_esc false v ++ 60 :: c :: rest) = Some (v, 60 :: c :: rest).
Proof.
  intros (cps & Hc & ->). unfold std_rd_text.
  rewrite (span_app not_lt _ 60 (c :: rest)); [|apply (Forall_forallb_ne 60), xml_esc_no60|reflexivity].
  rewrite (xml_text_std_proof false cps Hc). reflexivity.
Qed.

Lemma std_rd_att_ok v rest : V_std v -> std_rd_att 34 (xml_esc true v ++ 34 :: rest) = Some (v, rest).
Proof.
  intros (cps & Hc & ->). unfold std_rd_att.
  rewrite (span_app (fun b => negb (b =? 34)) _ 34 rest); [|apply (Forall_forallb_ne 34), xml_esc_attr_no34|reflexivity].
  rewrite (xml_text_std_proof true cps Hc). reflexivity.
Qed.

Lemma ns_chars_std ns : forallb ns_char_ok ns = true -> V_std ns.
Proof.
  intro H. exists ns. split.
  - unfold xml_chars. rewrite forallb_forall in *. intros c Hc. specialize (H c Hc). unfold ns_char_ok in H. unfold is_xml_char. lia.
  - induction ns as [|c r IH]; [reflexivity|]. cbn [forallb] in H. apply andb_true_iff in H. destruct H as [Hc Hr].
    cbn [flat_map]. rewrite <- (IH Hr). rewrite utf8_encode_ascii; [reflexivity|unfold ns_char_ok in Hc; lia].
Qed.

Lemma std_rd_att_raw ns rest : forallb ns_char_ok ns = true -> std_rd_att 34 (ns ++ 34 :: rest) = Some (ns, rest).
Proof.
  intro H. rewrite <- (xml_esc_plain true ns (ns_chars_plain ns H)) at 1. apply std_rd_att_ok, ns_chars_std, H.
Qed.

Lemma V_std_nil : V_std [].
Proof. exists []. split; reflexivity. Qed.

(* ====================================================================================== *)
(* the theorems                                                                            *)
(* ====================================================================================== *)
Fixpoint dflt_free_node (n : dnode) {struct n} : bool :=
  match n with DN _ _ d _ ch => negb d && forallb dflt_free_node ch end.

Lemma clear_dflt_free f : forallb dflt_free_node f = true -> clear_dflt f = f.
Proof.
  assert (H : forall n, dflt_free_node n = true -> clear_dflt_node n = n).
  { induction n as [s v d m ch IH] using dnode_ind'. cbn [dflt_free_node clear_dflt_node]. intro H.
    apply andb_true_iff in H. destruct H as [Hd Hc]. apply negb_true_iff in Hd. subst d. f_equal.
    induction ch as [|c ch IHc]; [reflexivity|]. inversion IH as [|? ? Hx Hr]; subst.
    cbn [forallb] in Hc. apply andb_true_iff in Hc. destruct Hc as [H1 H2]. cbn [map]. rewrite (Hx H1), (IHc Hr H2). reflexivity. }
  unfold clear_dflt. induction f as [|x f IH]; intro Hf; [reflexivity|].
  cbn [forallb] in Hf. apply andb_true_iff in Hf. destruct Hf as [H1 H2]. cbn [map]. rewrite (H x H1), (IH H2). reflexivity.
Qed.

Lemma Canon_Placed sch f : Canon sch f -> Forall (Placed sch None) f.
Proof. intros [_ H]. rewrite Forall_forall in *. intros x Hx. apply CanonN_Placed, H, Hx. Qed.

(* C01, XML, whole documents: the libyang-side reader applied to what the printer writes for a forest (every node
   selected) gives the forest back, default flags cleared (the document does not carry them) *)
Theorem xml_doc_roundtrip_proof sch t f :
  tabs_okb sch t = true -> Canon sch f -> Forall (DocN sch t lexable) f ->
  xml_parse sch t (xml_print_all sch t f) = Some (clear_dflt f).
Proof.
  intros Ht HC HD. unfold xml_parse.
  rewrite (gx_parse_printed sch t lexable ly_rd_text ly_rd_att Ht lx_nil ly_rd_text_ok ly_rd_att_ok ly_rd_att_raw f
             (Canon_Placed _ _ HC) HD).
  apply (forest_of_generic sch t lexable Ht); [apply Canon_Placed, HC|exact HD].
Qed.

(* with a selector (with-defaults mode): the selected part comes back *)
Theorem xml_doc_roundtrip_sel_proof sch t (sel : dnode -> bool) f :
  tabs_okb sch t = true -> Canon sch f -> Forall (DocN sch t lexable) f ->
  xml_parse sch t (xml_print sch t sel f) = Some (clear_dflt (prune sel f)).
Proof.
  intros Ht HC HD. rewrite xml_print_prune. unfold xml_parse.
  assert (HP : Forall (Placed sch None) (prune sel f)) by (apply Forall_prune; [intro n; apply Placed_prune|apply Canon_Placed, HC]).
  assert (HD' : Forall (DocN sch t lexable) (prune sel f)) by (apply Forall_prune; [intro n; apply DocN_prune|exact HD]).
  rewrite (gx_parse_printed sch t lexable ly_rd_text ly_rd_att Ht lx_nil ly_rd_text_ok ly_rd_att_ok ly_rd_att_raw _ HP HD').
  apply (forest_of_generic sch t lexable Ht); assumption.
Qed.

(* C12, XML, whole documents: the standard reader applied to what the printer writes reports no character data between
   the top-level elements and exactly the generic element trees of the nodes *)
Theorem xml_doc_std_proof sch t f :
  tabs_okb sch t = true -> Canon sch f -> Forall (DocN sch t V_std) f ->
  std_xml_content (xml_print_all sch t f) = Some ([], to_generic t f).
Proof.
  intros Ht HC HD. unfold std_xml_content.
  apply (gx_parse_printed sch t V_std std_rd_text std_rd_att Ht V_std_nil); try assumption.
  - intros v c rest Hv _. apply std_rd_text_ok, Hv.
  - apply std_rd_att_ok.
  - apply std_rd_att_raw.
  - apply Canon_Placed, HC.
Qed.

Theorem xml_doc_std_sel_proof sch t (sel : dnode -> bool) f :
  tabs_okb sch t = true -> Canon sch f -> Forall (DocN sch t V_std) f ->
  std_xml_content (xml_print sch t sel f) = Some ([], to_generic t (prune sel f)).
Proof.
  intros Ht HC HD. rewrite xml_print_prune. unfold std_xml_content.
  apply (gx_parse_printed sch t V_std std_rd_text std_rd_att Ht V_std_nil).
  - intros v c rest Hv _. apply std_rd_text_ok, Hv.
  - apply std_rd_att_ok.
  - apply std_rd_att_raw.
  - apply Forall_prune; [intro n; apply Placed_prune|apply Canon_Placed, HC].
  - apply Forall_prune; [intro n; apply DocN_prune|exact HD].
Qed.

(* one top-level node: a well-formed document in the sense of production [1] *)
Corollary xml_doc_std_single_proof sch t n :
  tabs_okb sch t = true -> Canon sch [n] -> DocN sch t V_std n ->
  std_xml_document (xml_print_all sch t [n]) = Some (to_generic_node t n).
Proof.
  intros Ht HC HD. unfold std_xml_document. rewrite (xml_doc_std_proof sch t [n] Ht HC); [reflexivity|].
  constructor; [exact HD|constructor].
Qed.

(* ====================================================================================== *)
(* the boolean checkers imply the data hypotheses                                          *)
(* ====================================================================================== *)
Lemma lexableb_spec s : lexableb s = true -> lexable s.
Proof.
  unfold lexableb. generalize (S (length s)). intro fuel. revert s.
  induction fuel as [|f IH]; intros s H; [discriminate|].
  cbn [lexableb_f] in H. destruct s as [|c r]; [constructor|].
  destruct (getutf8 (c :: r)) as [[cp u]|] eqn:E; [|discriminate].
  destruct u as [|u']; [discriminate|].
  apply lx_cons with (cp := cp) (u := S u'); [exact E|apply IH, H].
Qed.

Lemma std_decode_all_spec fuel : forall s acc cps,
  std_decode_all fuel s acc = Some cps -> exists tl, cps = rev acc ++ tl.
Proof.
  induction fuel as [|f IH]; intros s acc cps H; [discriminate|]. cbn [std_decode_all] in H.
  destruct s as [|c r]; [inversion H; exists []; rewrite app_nil_r; reflexivity|].
  destruct (std_utf8_decode (c :: r)) as [[cp r']|]; [|discriminate].
  destruct (IH _ _ _ H) as (tl & ->). exists (cp :: tl). cbn [rev]. rewrite <- app_assoc. reflexivity.
Qed.

Lemma std_valb_spec v : std_valb v = true -> V_std v.
Proof.
  unfold std_valb. destruct (std_decode_all (S (length v)) v []) as [cps|]; [|discriminate].
  intro H. apply andb_true_iff in H. destruct H as [H1 H2]. apply beq_bytes_eq in H2.
  exists cps. split; [exact H1|symmetry; exact H2].
Qed.

Lemma nodupb_spec l : nodupb l = true -> NoDup l.
Proof.
  induction l as [|x r IH]; intro H; [constructor|]. cbn [nodupb] in H. apply andb_true_iff in H. destruct H as [H1 H2].
  constructor; [|apply IH, H2]. intro Hin. apply negb_true_iff in H1.
  assert (E : existsb (beq_bytes x) r = true) by (apply existsb_exists; exists x; split; [exact Hin|apply beq_bytes_true]).
  rewrite E in H1. discriminate H1.
Qed.

Lemma meta_okb_spec t (vb : bytes -> bool) (V : bytes -> Prop) kv :
  (forall v, vb v = true -> V v) -> meta_okb t vb kv = true -> meta_ok t V kv.
Proof.
  intros HV H. unfold meta_okb in H. apply andb_true_iff in H. destruct H as [H1 H2].
  split; [apply HV, H1|]. apply existsb_exists in H2. destruct H2 as ([m mi] & Hin & H3). cbn [snd] in H3.
  apply andb_true_iff in H3. destruct H3 as [H3 H4]. destruct (starts_with_spec _ _ H3) as (r & Er).
  exists m, mi, r. split; [exact Hin|]. rewrite Er in H4 |- *. rewrite skipn_app_len in H4. split; [exact H4|].
  rewrite <- app_assoc. reflexivity.
Qed.

Lemma docb_spec sch t (vb : bytes -> bool) (V : bytes -> Prop) n :
  (forall v, vb v = true -> V v) -> V [] -> docb sch t vb n = true -> DocN sch t V n.
Proof.
  intros HV Hnil. induction n as [s v d m ch IH] using dnode_ind'. intro H. cbn [docb] in H.
  repeat (apply andb_true_iff in H; destruct H as [H ?]).
  rewrite DocN_unfold. split; [|split; [|split; [|split]]].
  - intro E. rewrite E in H. discriminate H.
  - destruct (is_term sch s); [apply HV; assumption|]. destruct v; [reflexivity|discriminate].
  - apply Forall_forall. intros kv Hin. apply (meta_okb_spec t vb V kv HV).
    match goal with Hm : forallb (meta_okb t vb) m = true |- _ => rewrite forallb_forall in Hm; apply Hm, Hin end.
  - apply nodupb_spec. assumption.
  - match goal with Hc : forallb (docb sch t vb) ch = true |- _ => rewrite forallb_forall in Hc end.
    rewrite Forall_forall in *. intros x Hx. apply (IH x Hx). auto.
Qed.

Lemma docb_forest sch t (vb : bytes -> bool) (V : bytes -> Prop) f :
  (forall v, vb v = true -> V v) -> V [] -> forallb (docb sch t vb) f = true -> Forall (DocN sch t V) f.
Proof.
  intros HV Hnil H. rewrite forallb_forall in H. apply Forall_forall. intros x Hx. apply (docb_spec sch t vb V x HV Hnil), H, Hx.
Qed.
