(* YangLib.v - model of the yang-library description of a context and of rebuilding a context from it:
   ly_ctx_get_yanglib_data() (src/context.c:1198-1344, with ylib_feature / ylib_deviation / ylib_submodules),
   ly_ctx_new_yldata() / ly_ctx_new_ylmem() (context.c:488-606), ly_ctx_load_module() (context.c:222-256),
   lys_parse_load() (tree_schema_common.c:946-998), the part of lys_parse_in() that adds a module to the context and
   resolves its imports (tree_schema.c:1812-1987, lysp_resolve_import_include), _lys_set_implemented() /
   lys_implement() / lys_set_features().

   Modelled: the module list of the context in order; per module name, revision, namespace, implemented flag,
   feature arrays with enabled flags (ModHash.hmod), imports with optional revision-date; the module sources the
   import callback serves.  The description: module-set `complete` with its module and import-only-module entries
   (name, revision, namespace, features), the single schema `complete`, content-id.
   Also: the deviation leaf-list (modules of deviated_by) and the submodule entries (name, revision) of every entry.
   NOT modelled: locations, the datastore list (the C function creates none), the
   legacy modules-state list, compilation (so: modules implemented as a side effect of augments, deviations,
   leafref/when/must dependencies, LY_CTX_ALL_IMPLEMENTED / LY_CTX_REF_IMPLEMENTED), search directories.
   An import WITHOUT revision-date is resolved by the code through lys_get_module_without_revision() and a search
   for a newer revision outside the context (flags LYS_MOD_IMPORTED_REV, LYS_MOD_LATEST_REV etc.); the model follows it
   only where the answer does not depend on those flags: no module of that name in the context (the callback
   serves the latest revision of the sources) or exactly one in the context and no other revision in the
   sources.  Otherwise the model answers E_UNMODELLED and the theorems exclude the case (imports_pinned). *)
From LY Require Import Base HashFn ModHash.
Local Open Scope N_scope.

Definition import := (bytes * option bytes)%type.          (* module name, revision-date *)
Definition mkey := (bytes * option bytes)%type.            (* module name, revision *)

Record ymod := mkymod {
  y_mod : hmod;                 (* name, revision, implemented, features *)
  y_ns : bytes;                 (* mod->ns *)
  y_imports : list import;      (* mod->parsed->imports (read when the module is parsed) *)
  y_subs : list (bytes * option bytes);   (* mod->parsed->includes after injection: submodule name, revision *)
  y_deps : list (import * bool) (* the imports whose module this module augments (false) or deviates (true) *)
}.
Definition ctx := list ymod.                                (* ctx->list, in order *)

Definition y_name (m : ymod) : bytes := h_name (y_mod m).
Definition y_rev (m : ymod) : option bytes := h_rev (y_mod m).
Definition y_impl (m : ymod) : bool := h_impl (y_mod m).
Definition key_of (m : ymod) : mkey := (y_name m, y_rev m).

Definition beq_orev (a b : option bytes) : bool :=
  match a, b with
  | Some x, Some y => beq_bytes x y
  | None, None => true
  | _, _ => false
  end.
Definition beq_key (a b : mkey) : bool := beq_bytes (fst a) (fst b) && beq_orev (snd a) (snd b).

(* ---- the description ---- *)
Record yl_module := mkylm {
  ym_name : bytes; ym_rev : option bytes; ym_ns : bytes; ym_features : list bytes; ym_deviations : list bytes;
  ym_submodules : list (bytes * option bytes) }.
Record yl_imp := mkyli { yi_name : bytes; yi_rev : bytes (* empty = none *); yi_ns : bytes;
                         yi_submodules : list (bytes * option bytes) }.
Record yl := mkyl {
  yl_set : bytes;                         (* module-set name *)
  yl_modules : list yl_module;            (* module entries, in document order *)
  yl_imponly : list yl_imp;           (* import-only-module entries *)
  yl_schema : bytes * list bytes;         (* schema name, its module-set leaf-list *)
  yl_content_id : bytes
}.

Definition s_complete : bytes := [99;111;109;112;108;101;116;101].        (* complete *)

(* ylib_feature(): the enabled features of the module, then of its includes, for implemented modules *)
Definition yl_features (m : ymod) : list bytes :=
  if y_impl m then enabled_names (concat (groups (y_mod m))) else [].

(* module d has a deviation of module m: one of its deviating imports names m (and its revision, if it has a
   revision-date) *)
Definition deviates (d m : ymod) : bool :=
  existsb (fun e => snd e && beq_bytes (fst (fst e)) (y_name m) &&
                    match snd (fst e) with Some r => beq_orev (Some r) (y_rev m) | None => true end) (y_deps d).

(* ylib_deviation(): for an implemented module the names of the modules in mod->deviated_by.  lys_implement() of a
   module with deviations registers it in deviated_by of its targets (lys_precompile_mod_augments_deviations), so
   deviated_by holds the implemented modules of the context that deviate the module; the deviation leaf-list is
   ordered by the system, the model lists the names in context order. *)
Definition yl_deviations (c : list ymod) (m : ymod) : list bytes :=
  if y_impl m then map y_name (filter (fun d => y_impl d && deviates d m) c) else [].

(* ylib_submodules(): one submodule entry (name, revision) per element of the includes array, injected includes
   too; the location leaf (file://path of a module read from a file) is not modelled *)
Definition describe_module (c : list ymod) (m : ymod) : yl_module :=
  mkylm (y_name m) (y_rev m) (y_ns m) (yl_features m) (yl_deviations c m) (y_subs m).
Definition describe_imponly (m : ymod) : yl_imp :=
  mkyli (y_name m) (match y_rev m with Some r => r | None => [] end) (y_ns m) (y_subs m).

(* ly_ctx_get_yanglib_data(): the loop over ctx->list creates a module or an import-only-module list
   instance per module; list instances of one schema node stay together in the data tree, so all module
   entries precede all import-only-module entries *)
Definition describe (cid : bytes) (c : ctx) : yl :=
  mkyl s_complete
       (map (describe_module c) (filter y_impl c))
       (map describe_imponly (filter (fun m => negb (y_impl m)) c))
       (s_complete, [s_complete])
       cid.

(* ---- loading ---- *)
Definition E_NOTFOUND : N := 1.       (* no such module in the context nor in the sources *)
Definition E_DENIED : N := 2.         (* another revision is implemented *)
Definition E_FEATURE : N := 3.        (* no such feature *)
Definition E_CIRC : N := 4.           (* circular import *)
Definition E_UNMODELLED : N := 98.
Definition E_FUEL : N := 99.

Definition named (n : bytes) (m : ymod) : bool := beq_bytes n (y_name m).
Definition find_key (k : mkey) (l : list ymod) : option ymod := find (fun m => beq_key k (key_of m)) l.

(* what lys_parse_in leaves in the context: not implemented, every feature disabled *)
Definition blank_feats (fs : list feat) : list feat := map (fun f => mkfeat (f_name f) false) fs.
Definition blank_h (h : hmod) : hmod :=
  mkhmod (h_name h) (h_rev h) false (blank_feats (h_feats h)) (map blank_feats (h_subs h)).
Definition blank (m : ymod) : ymod := mkymod (blank_h (y_mod m)) (y_ns m) (y_imports m) (y_subs m) (y_deps m).

(* revision order of strcmp on dates, no revision first *)
Definition rev_lt (a b : option bytes) : bool :=
  match a, b with
  | None, Some _ => true
  | Some x, Some y => match cmp_bytes x y with Lt => true | _ => false end
  | _, None => false
  end.
(* the module the import callback serves for (name, NULL): the latest revision *)
Fixpoint latest (l : list ymod) : option ymod :=
  match l with
  | [] => None
  | m :: r => match latest r with
              | Some m' => if rev_lt (y_rev m) (y_rev m') then Some m' else Some m
              | None => Some m
              end
  end.

Inductive resolved :=
| R_ctx (k : mkey)        (* already in the context *)
| R_src (m : ymod)        (* parse this source *)
| R_err (e : N).

(* lys_parse_load(): find the module of an import / load request in the context or in the sources *)
Definition resolve (c : ctx) (src : list ymod) (i : import) : resolved :=
  let '(n, r) := i in
  match r with
  | Some r' =>
      (* ly_ctx_get_module(ctx, name, revision), else the callback with that revision *)
      match find_key (n, Some r') c with
      | Some m => R_ctx (key_of m)
      | None => match find_key (n, Some r') src with
                | Some m => R_src m
                | None => R_err E_NOTFOUND
                end
      end
  | None =>
      match filter (named n) c with
      | [] => match latest (filter (named n) src) with
              | Some m => R_src m
              | None => R_err E_NOTFOUND
              end
      | [m] => if forallb (fun s => beq_orev (y_rev s) (y_rev m)) (filter (named n) src)
               then R_ctx (key_of m) else R_err E_UNMODELLED
      | _ => R_err E_UNMODELLED
      end
  end.

(* lysp_resolve_import_include(): the imports of a freshly parsed module in order; [pl] = lys_parse_load *)
Fixpoint load_list (pl : ctx -> import -> res (ctx * mkey)) (is : list import) (c : ctx) : res ctx :=
  match is with
  | [] => Ok c
  | i :: r =>
      match pl c i with
      | Ok (c', _) => load_list pl r c'
      | Err e => Err e
      end
  end.

(* lys_parse_load + lys_parse_in + lysp_resolve_import_include: make the module of request i present, depth
   first; [stack] = the modules being parsed (pmod->parsing, lys_check_circular_dependency) *)
Fixpoint parse_load (fuel : nat) (src : list ymod) (stack : list mkey) (c : ctx) (i : import) : res (ctx * mkey) :=
  match fuel with
  | O => Err E_FUEL
  | S fuel' =>
      match resolve c src i with
      | R_err e => Err e
      | R_ctx k => if existsb (beq_key k) stack then Err E_CIRC else Ok (c, k)
      | R_src m =>
          let k := key_of m in
          (* ly_set_add(&ctx->list, mod); then the imports in order *)
          match load_list (parse_load fuel' src (k :: stack)) (y_imports m) (c ++ [blank m]) with
          | Ok c' => Ok (c', k)
          | Err e => Err e
          end
      end
  end.

(* the features argument of ly_ctx_load_module / lys_set_implemented / lys_set_features:
   NULL = do not touch the features, {`*`, NULL} = enable all, any other array = enable exactly these (the empty
   array disables all).  ly_ctx_new_yldata always passes an array, also for an entry without feature leaves. *)
Inductive fspec :=
| F_keep
| F_all
| F_list (names : list bytes).

Definition has_feature (h : hmod) (n : bytes) : bool :=
  existsb (fun f => beq_bytes n (f_name f)) (concat (groups h)).
Definition set_feats (names : list bytes) (fs : list feat) : list feat :=
  map (fun f => mkfeat (f_name f) (existsb (beq_bytes (f_name f)) names)) fs.
Definition set_features (h : hmod) (impl : bool) (names : list bytes) : hmod :=
  mkhmod (h_name h) (h_rev h) impl (set_feats names (h_feats h)) (map (set_feats names) (h_subs h)).
Definition all_feats (fs : list feat) : list feat := map (fun f => mkfeat (f_name f) true) fs.
(* lys_set_features(pmod, features) and the implemented flag *)
Definition apply_fspec (h : hmod) (impl : bool) (fs : fspec) : hmod :=
  match fs with
  | F_keep => mkhmod (h_name h) (h_rev h) impl (h_feats h) (h_subs h)
  | F_all => mkhmod (h_name h) (h_rev h) impl (all_feats (h_feats h)) (map all_feats (h_subs h))
  | F_list names => set_features h impl names
  end.
Definition fspec_ok (h : hmod) (fs : fspec) : bool :=
  match fs with F_list names => forallb (has_feature h) names | _ => true end.

(* _lys_set_implemented(mod, features) on the module with key k *)
Definition set_implemented (c : ctx) (k : mkey) (fs : fspec) : res ctx :=
  match find_key k c with
  | None => Err E_NOTFOUND
  | Some m =>
      if negb (fspec_ok (y_mod m) fs) then Err E_FEATURE
      else if negb (y_impl m) && existsb (fun x => named (fst k) x && y_impl x) c then Err E_DENIED
      else Ok (map (fun x => if beq_key k (key_of x)
                             then mkymod (apply_fspec (y_mod x) true fs) (y_ns x) (y_imports x) (y_subs x) (y_deps x)
                             else x) c)
  end.

(* lys_implement() -> lys_precompile_augments_deviations(): the modules that an implemented module augments or
   deviates are implemented too (their features are left as they are), and so on for their own targets *)
Definition target_key (c : ctx) (i : import) : option mkey :=
  match snd i with
  | Some r => match find_key (fst i, Some r) c with Some m => Some (key_of m) | None => None end
  | None => match filter (named (fst i)) c with [m] => Some (key_of m) | _ => None end
  end.
Definition targets (c : ctx) (m : ymod) : list mkey :=
  flat_map (fun e => match target_key c (fst e) with Some k => [k] | None => [] end) (y_deps m).
Definition mark_impl (k : mkey) (c : ctx) : ctx :=
  map (fun x => if beq_key k (key_of x)
                then mkymod (apply_fspec (y_mod x) true F_keep) (y_ns x) (y_imports x) (y_subs x) (y_deps x) else x) c.
Fixpoint implement_targets (fuel : nat) (c : ctx) (todo : list mkey) : ctx :=
  match fuel with
  | O => c
  | S f =>
      match todo with
      | [] => c
      | k :: r =>
          match find_key k c with
          | None => implement_targets f c r
          | Some m => if y_impl m then implement_targets f c r
                      else implement_targets f (mark_impl k c) (r ++ targets c m)
          end
      end
  end.
Definition deps_fuel (c : ctx) : nat := S (length c + length (flat_map y_deps c)) * 2.
Definition implement_deps (c : ctx) (k : mkey) : ctx :=
  match find_key k c with
  | Some m => implement_targets (deps_fuel c + length (y_deps m)) c (targets c m)
  | None => c
  end.
(* a context given by its records: every implemented module has its targets implemented *)
Definition settle (c : ctx) : ctx := fold_left (fun c1 m => if y_impl m then implement_deps c1 (key_of m) else c1) c c.

(* ly_ctx_load_module(ctx, name, revision, features) *)
Definition load_module (fuel : nat) (src : list ymod) (c : ctx) (name : bytes) (rev : option bytes)
    (fs : fspec) : res ctx :=
  match parse_load fuel src [] c (name, rev) with
  | Err e => Err e
  | Ok (c1, k) =>
      match set_implemented c1 k fs with
      | Err e => Err e
      | Ok c2 => Ok (implement_deps c2 k)
      end
  end.

(* ly_ctx_new_yldata(): every module entry of the first module-set is loaded with its revision and features;
   import-only-module entries are not read *)
Fixpoint rebuild_from (fuel : nat) (src : list ymod) (c : ctx) (es : list yl_module) : res ctx :=
  match es with
  | [] => Ok c
  | e :: r =>
      (* feature_arr is never NULL: an entry without feature leaves gives the empty array = disable all *)
      match load_module fuel src c (ym_name e) (ym_rev e) (F_list (ym_features e)) with
      | Ok c' => rebuild_from fuel src c' r
      | Err e' => Err e'
      end
  end.

Definition rebuild (y : yl) (src : list ymod) (c0 : ctx) : res ctx :=
  rebuild_from (S (length src)) src c0 (yl_modules y).

(* ---- submodule graphs: the includes array of a module (lysp_load_submodules, lysp_main_pmod_get_submodule,
   lysp_parsed_mods_get_submodule, lysp_inject_submodule of tree_schema_common.c) ----
   Submodules are numbered 1..; [incs] holds at position 0 the include statements of the module and at position k
   those of submodule k, in source order.  The includes array of the module starts as its own include statements;
   a submodule include that the module does not list is appended (injected, YANG 1.0 only; YANG 1.1 refuses it).
   The feature arrays of the module (lysp_feature_next, ylib_feature) follow the final includes array.
   History (SUB_EARLY_RETURN): in the loop over the includes of a SUBMODULE the code used to return from the whole
   function as soon as an include was found already parsed (in the includes of the module, or among the submodules
   being parsed), LY_CHECK_RET(ret != LY_ENOT, ret), instead of going on with the next include; the remaining
   includes of that submodule were never loaded.  Fixed in /repo commit 272016c (continue); [includes_order_gen true]
   is kept as the model of the former code for the regression example only. *)
Definition E_SUB11 : N := 5.          (* YANG 1.1 requires all submodules to be included from the main module *)
Definition SUB_EARLY_RETURN : bool := false.

Definition iarr := list (nat * bool).       (* pmod->includes: submodule number, inc->submodule set *)

Fixpoint arr_find (j : nat) (a : iarr) : option bool :=
  match a with
  | [] => None
  | (k, p) :: r => if Nat.eqb k j then Some p else arr_find j r
  end.
Definition arr_fill (j : nat) (a : iarr) : iarr := map (fun e => if Nat.eqb (fst e) j then (j, true) else e) a.
(* lysp_inject_submodule: fill the record of that name, else append a new (injected) one *)
Definition arr_inject (j : nat) (a : iarr) : iarr :=
  match arr_find j a with Some _ => arr_fill j a | None => a ++ [(j, true)] end.

(* LY_ARRAY_FOR over the includes of a submodule; the step says whether the function returns *)
Fixpoint sub_loop (step : iarr -> nat -> res (iarr * bool)) (is : list nat) (a : iarr) : res iarr :=
  match is with
  | [] => Ok a
  | j :: r =>
      match step a j with
      | Err e => Err e
      | Ok (a', stop) => if stop then Ok a' else sub_loop step r a'
      end
  end.

(* lysp_load_submodules for submodule cur (called from lys_parse_submodule); stack = the submodules being parsed
   above it (pctx->parsed_mods without the module and without cur) *)
Fixpoint parse_sub (fuel : nat) (early v11 : bool) (incs : list (list nat)) (stack : list nat) (cur : nat)
    (a : iarr) : res iarr :=
  match fuel with
  | O => Err E_FUEL
  | S f =>
      sub_loop (fun a j =>
        match arr_find j a with
        | Some true => Ok (a, early)              (* lysp_main_pmod_get_submodule: LY_SUCCESS *)
        | found =>
            if (match found with None => v11 | Some _ => false end) then Err E_SUB11
            else if existsb (Nat.eqb j) stack then Ok (a, early)     (* lysp_parsed_mods_get_submodule: LY_SUCCESS *)
            else match parse_sub f early v11 incs (cur :: stack) j a with
                 | Err e => Err e
                 | Ok a1 => Ok (arr_inject j a1, false)              (* ret == LY_ENOT: lysp_inject_submodule *)
                 end
        end) (nth cur incs []) a
  end.

(* lysp_load_submodules for the module: LY_ARRAY_FOR over its (growing) includes array *)
Fixpoint main_loop (fuel : nat) (early v11 : bool) (incs : list (list nat)) (u : nat) (a : iarr) : res iarr :=
  match fuel with
  | O => Err E_FUEL
  | S f =>
      match nth_error a u with
      | None => Ok a
      | Some (_, true) => main_loop f early v11 incs (S u) a          (* if (inc->submodule) continue *)
      | Some (j, false) =>
          match parse_sub (S (length incs)) early v11 incs [] j a with
          | Err e => Err e
          | Ok a1 => main_loop f early v11 incs (S u) (arr_fill j a1)
          end
      end
  end.

(* the submodule numbers in the order of the final includes array *)
Definition includes_order_gen (early v11 : bool) (incs : list (list nat)) : res (list nat) :=
  match main_loop (S (length incs)) early v11 incs O (map (fun j => (j, false)) (nth O incs [])) with
  | Ok a => Ok (map fst a)
  | Err e => Err e
  end.
Definition includes_order : bool -> list (list nat) -> res (list nat) := includes_order_gen SUB_EARLY_RETURN.

(* the feature arrays of the module in context order: [gs] = the features of module and submodules by number *)
Definition regroup (gs : list (list feat)) (order : list nat) : list (list feat) := map (fun j => nth j gs []) order.

(* a context that was populated before the rebuild: ly_ctx_load_module calls, a failing one leaves the context as it
   was (lys_unres_glob_revert) *)
Fixpoint preload (src : list ymod) (c : ctx) (ops : list (bytes * option bytes * fspec)) : ctx :=
  match ops with
  | [] => c
  | (n, r, fs) :: rest =>
      match load_module (S (length src)) src c n r fs with
      | Ok c' => preload src c' rest
      | Err _ => preload src c rest
      end
  end.

(* the internal modules every context starts with (context.c:61-77), none has a feature; their imports are
   resolved among themselves when the context is created and are not needed again *)
Definition initial_ctx : ctx := [
  (* ietf-yang-metadata@2016-08-05 *)
  mkymod (mkhmod [105;101;116;102;45;121;97;110;103;45;109;101;116;97;100;97;116;97]
    (Some [50;48;49;54;45;48;56;45;48;53]) false [] [])
    [117;114;110;58;105;101;116;102;58;112;97;114;97;109;115;58;120;109;108;58;110;115;58;121;97;110;103;58;105;101;116;102;45;121;97;110;103;45;109;101;116;97;100;97;116;97] [] [] [];
  (* yang@2022-06-16 *)
  mkymod (mkhmod [121;97;110;103]
    (Some [50;48;50;50;45;48;54;45;49;54]) true [] [])
    [117;114;110;58;105;101;116;102;58;112;97;114;97;109;115;58;120;109;108;58;110;115;58;121;97;110;103;58;49] [] [] [];
  (* ietf-inet-types@2013-07-15 *)
  mkymod (mkhmod [105;101;116;102;45;105;110;101;116;45;116;121;112;101;115]
    (Some [50;48;49;51;45;48;55;45;49;53]) false [] [])
    [117;114;110;58;105;101;116;102;58;112;97;114;97;109;115;58;120;109;108;58;110;115;58;121;97;110;103;58;105;101;116;102;45;105;110;101;116;45;116;121;112;101;115] [] [] [];
  (* ietf-yang-types@2013-07-15 *)
  mkymod (mkhmod [105;101;116;102;45;121;97;110;103;45;116;121;112;101;115]
    (Some [50;48;49;51;45;48;55;45;49;53]) false [] [])
    [117;114;110;58;105;101;116;102;58;112;97;114;97;109;115;58;120;109;108;58;110;115;58;121;97;110;103;58;105;101;116;102;45;121;97;110;103;45;116;121;112;101;115] [] [] [];
  (* ietf-yang-schema-mount@2019-01-14 *)
  mkymod (mkhmod [105;101;116;102;45;121;97;110;103;45;115;99;104;101;109;97;45;109;111;117;110;116]
    (Some [50;48;49;57;45;48;49;45;49;52]) true [] [])
    [117;114;110;58;105;101;116;102;58;112;97;114;97;109;115;58;120;109;108;58;110;115;58;121;97;110;103;58;105;101;116;102;45;121;97;110;103;45;115;99;104;101;109;97;45;109;111;117;110;116] [] [] [];
  (* ietf-yang-structure-ext@2020-06-17 *)
  mkymod (mkhmod [105;101;116;102;45;121;97;110;103;45;115;116;114;117;99;116;117;114;101;45;101;120;116]
    (Some [50;48;50;48;45;48;54;45;49;55]) false [] [])
    [117;114;110;58;105;101;116;102;58;112;97;114;97;109;115;58;120;109;108;58;110;115;58;121;97;110;103;58;105;101;116;102;45;121;97;110;103;45;115;116;114;117;99;116;117;114;101;45;101;120;116] [] [] [];
  (* ietf-datastores@2018-02-14 *)
  mkymod (mkhmod [105;101;116;102;45;100;97;116;97;115;116;111;114;101;115]
    (Some [50;48;49;56;45;48;50;45;49;52]) true [] [])
    [117;114;110;58;105;101;116;102;58;112;97;114;97;109;115;58;120;109;108;58;110;115;58;121;97;110;103;58;105;101;116;102;45;100;97;116;97;115;116;111;114;101;115] [] [] [];
  (* ietf-yang-library@2019-01-04 *)
  mkymod (mkhmod [105;101;116;102;45;121;97;110;103;45;108;105;98;114;97;114;121]
    (Some [50;48;49;57;45;48;49;45;48;52]) true [] [])
    [117;114;110;58;105;101;116;102;58;112;97;114;97;109;115;58;120;109;108;58;110;115;58;121;97;110;103;58;105;101;116;102;45;121;97;110;103;45;108;105;98;114;97;114;121] [] [] []
].

(* the observable the property compares: the ModHash records in context order *)
Definition ctx_obs (c : ctx) : list hmod := map y_mod c.

(* ---- the change counter across lys_set_implemented / ly_ctx_load_module ----
   lys_set_features() (schema_features.c) sets its local [change] when a feature is switched on or off and answers
   LY_EEXIST when nothing changed; _lys_set_implemented() (tree_schema.c) counts one event for an implemented module
   whose features changed, lys_implement() (schema_compile.c) one event for every module it makes implemented (the
   module itself and, through lys_precompile_augments_deviations, its targets); lys_parse_in() one event per module
   added and lys_compile() one per module compiled (none of the latter with LY_CTX_EXPLICIT_COMPILE before
   ly_ctx_compile).  The two booleans are the seeded variants kept for the regression examples:
   count_disable = false: the disable arm of the explicit-list branch does not set [change];
   count_impl = false: lys_implement does not count.  The code is (true, true). *)
Definition feat_change (count_disable : bool) (fs : fspec) (f : feat) : bool :=
  match fs with
  | F_keep => false
  | F_all => negb (f_en f)
  | F_list names => if existsb (beq_bytes (f_name f)) names then negb (f_en f) else count_disable && f_en f
  end.
Definition sf_change (count_disable : bool) (h : hmod) (fs : fspec) : bool :=
  existsb (feat_change count_disable fs) (concat (groups h)).
Definition si_events (count_disable count_impl : bool) (m : ymod) (fs : fspec) : N :=
  if y_impl m then (if sf_change count_disable (y_mod m) fs then 1 else 0) else (if count_impl then 1 else 0).
Definition impl_count (c : ctx) : nat := length (filter y_impl c).

(* lys_set_implemented(mod, features) on the module with key k under LY_CTX_EXPLICIT_COMPILE: the new context and the
   number of counter events *)
Definition set_impl_op (count_disable count_impl : bool) (c : ctx) (k : mkey) (fs : fspec) : res (ctx * N) :=
  match find_key k c with
  | None => Err E_NOTFOUND
  | Some m =>
      match set_implemented c k fs with
      | Err e => Err e
      | Ok c2 =>
          let c3 := implement_deps c2 k in
          Ok (c3, si_events count_disable count_impl m fs +
                  (if count_impl then N.of_nat (impl_count c3 - impl_count c2) else 0))
      end
  end.

(* ly_ctx_load_module(name, revision, features) under LY_CTX_EXPLICIT_COMPILE: one more event per module added *)
Definition load_op (count_disable count_impl : bool) (src : list ymod) (c : ctx) (name : bytes) (rev : option bytes)
    (fs : fspec) : res (ctx * N) :=
  match parse_load (S (length src)) src [] c (name, rev) with
  | Err e => Err e
  | Ok (c1, k) =>
      match set_impl_op count_disable count_impl c1 k fs with
      | Err e => Err e
      | Ok (c3, n) => Ok (c3, N.of_nat (length c1 - length c) + n)
      end
  end.
