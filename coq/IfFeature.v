(* IfFeature.v — model of the if-feature compiler and evaluator of src/schema_features.c:
     lysc_iff_getop(), iff_setop(), iff_stack_push/pop(), lys_compile_iffeature(),
     lysc_iffeature_value_() / lysc_iffeature_value(), lysp_feature_find() (as a parameter).

   Index style: the three heap blocks the compiler allocates (the 2-bit expression array, the
   features array, the operator stack) are lists whose length is the allocated extent; every access
   goes through [rd]/[wr] which answer [IOob] outside the extent. The input string is read through
   [rdc] (extent = its length + the terminating NUL). Unsigned 64-bit variables (f_size, expr_size,
   f_exp, stack.index, the evaluator's indices) are [N] reduced mod 2^64 after every operation, so
   that `expr_size--` below zero wraps exactly as in C. The signed 64-bit i and j are [Z] (their
   absolute value is bounded by the string length + 3).

   The model is what the code DOES, as of /repo commits 299b7de, 6f66310, 685c1af. These three commits
   fixed the three memory-safety defects that an earlier version of this model reproduced (all ended in
   [IOob], SIGSEGV in the real code):
     299b7de  the pre-pass resets last_not at `(` and `)`: a `not` is cancelled only against a directly
              adjacent `not`, exactly as the main pass does (was: `not (not a)` undersized the arrays);
     6f66310  the pre-pass answers LY_EVALID as soon as the parenthesis depth becomes negative (was: only
              the final balance was checked and `)a(` popped from an empty operator stack);
     685c1af  the backward word scan of the main pass stops at `)` too, so both passes cut the string into
              the same words (was: `()not not b` wrote more records than allocated).
   IfFeatureP.v proves that the model now never answers [IOob] on any string (Properties_C05_iff.v).

   Second half of the file: the specification side (AST, denotation, prefix code, RFC 7950 section
   7.20.2 grammar as a rendering relation, renderers). *)
From LY Require Import Base.
From LY.Gen Require Consts.
Local Open Scope N_scope.

(* ---------------------------------------------------------------------------------------------- *)
(* results: value / clean error (LY_ERR class) / out-of-bounds access (includes the two assert()ed
   conditions of iff_stack_pop, which guard exactly such an access) *)
Inductive ires (A : Type) : Type :=
| IOk (a : A)
| IErr (e : N)
| IOob.
Arguments IOk {A} a.
Arguments IErr {A} e.
Arguments IOob {A}.

Definition ibind {A B} (r : ires A) (f : A -> ires B) : ires B :=
  match r with IOk a => f a | IErr e => IErr e | IOob => IOob end.
Notation "'let*' x ':=' a 'in' b" := (ibind a (fun x => b))
  (at level 200, x pattern, a at level 100, b at level 200, right associativity).

Definition E_END : N := 1.        (* unexpected end of expression                        LY_EVALID *)
Definition E_MISSING : N := 2.    (* missing feature/expression before and/or            LY_EVALID *)
Definition E_PAREN : N := 3.      (* non-matching opening and closing parentheses        LY_EVALID *)
Definition E_COUNT : N := 4.      (* number of features does not match the operations    LY_EVALID *)
Definition E_VERSION : N := 5.    (* YANG 1.1 expression in a YANG 1.0 module            LY_EVALID *)
Definition E_NOTFOUND : N := 6.   (* unable to find feature                              LY_EVALID *)
Definition E_PROC : N := 7.       (* processing error                                    LY_EINT   *)
Definition E_MEM : N := 8.        (* allocation failure (absurd size)                    LY_EMEM   *)
Definition E_FUEL : N := 99.      (* model artefact, excluded by the theorems *)

(* ---------- C integers ---------- *)
Definition U64 : N := 18446744073709551616.
Definition inc64 (x : N) : N := (x + 1) mod U64.
Definition dec64 (x : N) : N := (x + (U64 - 1)) mod U64.
Definition sub64 (x k : N) : N := (x + (U64 - k)) mod U64.     (* k <= 2^64 *)

(* ---------- heap blocks ---------- *)
Definition rd {A} (a : list A) (i : N) : ires A :=
  if i <? N.of_nat (length a)
  then match nth_error a (N.to_nat i) with Some v => IOk v | None => IOob end
  else IOob.

Fixpoint upd {A} (a : list A) (i : nat) (v : A) : list A :=
  match a, i with
  | [], _ => []
  | _ :: t, O => v :: t
  | x :: t, S k => x :: upd t k v
  end.

Definition wr {A} (a : list A) (i : N) (v : A) : ires (list A) :=
  if i <? N.of_nat (length a) then IOk (upd a (N.to_nat i) v) else IOob.

(* c[i] of the NUL-terminated input: indices 0..length are readable, c[length] = 0 *)
Definition rdc (s : bytes) (i : Z) : ires N :=
  if ((0 <=? i) && (i <=? Z.of_nat (length s)))%Z then IOk (nth (Z.to_nat i) s 0) else IOob.

(* isspace() in the C locale *)
Definition is_cspace (b : N) : bool := (b =? 32) || ((9 <=? b) && (b <=? 13)).

(* ---------- lysc_iff_getop / iff_setop: 2-bit records, 4 per byte ---------- *)
Definition iff_getop (arr : list N) (pos : N) : ires N :=
  let* item := rd arr (pos / 4) in
  let sh := 2 * (pos mod 4) in
  IOk (N.shiftr (N.land item (N.shiftl 3 sh)) sh).

Definition iff_setop (arr : list N) (op pos : N) : ires (list N) :=
  let* item := rd arr (pos / 4) in
  let sh := 2 * (pos mod 4) in
  let mask := (N.shiftl 3 sh) mod 256 in                      (* uint8_t mask = mask << ... *)
  let item1 := N.land item (255 - mask) in                    (* *item & ~mask *)
  let item2 := (N.lor item1 (N.shiftl op sh)) mod 256 in      (* | (op << ...), stored into a uint8_t *)
  wr arr (pos / 4) item2.

(* ---------- struct iff_stack; size = length of s_data ---------- *)
Record stack := { s_data : list N; s_index : N }.

Definition IFF_LP : N := 4.       (* #define LYS_IFF_LP 0x04 (never used by the code) *)
Definition IFF_RP : N := 8.       (* #define LYS_IFF_RP 0x08 *)

(* iff_stack_push: grows by IFF_STACK_SIZE_STEP = 4 when full *)
Definition stack_push (st : stack) (v : N) : ires stack :=
  let data := if s_index st =? N.of_nat (length (s_data st)) then s_data st ++ repeat 0 4 else s_data st in
  let* data' := wr data (s_index st) v in
  IOk {| s_data := data'; s_index := inc64 (s_index st) |}.

(* iff_stack_pop: stack->index--; return stack->stack[stack->index]; (index 0 wraps: Oob) *)
Definition stack_pop (st : stack) : ires (N * stack) :=
  let idx := dec64 (s_index st) in
  let* v := rd (s_data st) idx in
  IOk (v, {| s_data := s_data st; s_index := idx |}).

(* ---------- lys_compile_iffeature: pre-pass ---------- *)
Definition KW_NOT : bytes := [110; 111; 116].
Definition KW_AND : bytes := [97; 110; 100].
Definition KW_OR : bytes := [111; 114].

(* !strncmp(&c[i], kw, strlen(kw)): bytes are compared in order and the comparison stops at the
   first difference (a NUL of c differs from every keyword byte) *)
Fixpoint kw_at (s : bytes) (i : Z) (kw : bytes) : ires bool :=
  match kw with
  | [] => IOk true
  | k :: kw' => let* c := rdc s i in if c =? k then kw_at s (i + 1) kw' else IOk false
  end.

(* the || chain of three strncmp; value = op_len of the first match *)
Definition match_op (s : bytes) (i : Z) : ires (option Z) :=
  let* a := kw_at s i KW_NOT in
  if a then IOk (Some 3%Z) else
  let* b := kw_at s i KW_AND in
  if b then IOk (Some 3%Z) else
  let* c := kw_at s i KW_OR in
  if c then IOk (Some 2%Z) else IOk None.

(* for (spaces = 0; c[k] && isspace(c[k]); spaces++) — returns the index where it stops *)
Fixpoint skip_spaces (fuel : nat) (s : bytes) (k : Z) : ires Z :=
  match fuel with
  | O => IErr E_FUEL
  | S f =>
      let* c := rdc s k in
      if negb (c =? 0) && is_cspace c then skip_spaces f s (k + 1) else IOk k
  end.

(* while (!isspace(c[i])) { if (!c[i] || c[i] == ')' || c[i] == '(') { i--; break; } i++; } *)
Fixpoint skip_word (fuel : nat) (s : bytes) (i : Z) : ires Z :=
  match fuel with
  | O => IErr E_FUEL
  | S f =>
      let* c := rdc s i in
      if is_cspace c then IOk i
      else if (c =? 0) || (c =? 41) || (c =? 40) then IOk (i - 1)%Z
      else skip_word f s (i + 1)
  end.

Record pre_st := {
  p_i : Z; p_j : Z; p_last_not : bool; p_cv : bool;      (* i, j, last_not, checkversion *)
  p_fsize : N; p_esize : N; p_fexp : N                   (* f_size, expr_size, f_exp *)
}.

Definition pre_init : pre_st :=
  {| p_i := 0; p_j := 0; p_last_not := false; p_cv := false; p_fsize := 0; p_esize := 0; p_fexp := 1 |}.

(* body of the `if (!strncmp...)`/else of one word; i is advanced by op_len when a keyword prefix matched *)
Definition pre_word (fu : nat) (s : bytes) (c : N) (st : pre_st) : ires pre_st :=
  let i := p_i st in
  let* m := match_op s i in
  match m with
  | Some op_len =>
      let* k := skip_spaces fu s (i + op_len) in
      let* ce := rdc s k in
      if ce =? 0 then IErr E_END else
      let* c1 := rdc s (i + op_len) in
      if negb (is_cspace c1) then
        (* feature name starting with the not/and/or *)
        IOk {| p_i := i + op_len; p_j := p_j st; p_last_not := false; p_cv := p_cv st;
               p_fsize := inc64 (p_fsize st); p_esize := p_esize st; p_fexp := p_fexp st |}
      else if c =? 110 then
        (* not operation *)
        if p_last_not st then
          IOk {| p_i := i + op_len; p_j := p_j st; p_last_not := false; p_cv := p_cv st;
                 p_fsize := p_fsize st; p_esize := sub64 (p_esize st) 2; p_fexp := p_fexp st |}
        else
          IOk {| p_i := i + op_len; p_j := p_j st; p_last_not := true; p_cv := p_cv st;
                 p_fsize := p_fsize st; p_esize := p_esize st; p_fexp := p_fexp st |}
      else
        (* and, or *)
        if negb (p_fexp st =? p_fsize st) then IErr E_MISSING else
        IOk {| p_i := i + op_len; p_j := p_j st; p_last_not := false; p_cv := p_cv st;
               p_fsize := p_fsize st; p_esize := p_esize st; p_fexp := inc64 (p_fexp st) |}
  | None =>
      IOk {| p_i := i; p_j := p_j st; p_last_not := false; p_cv := p_cv st;
             p_fsize := inc64 (p_fsize st); p_esize := p_esize st; p_fexp := p_fexp st |}
  end.

(* for (i = j = 0; c[i]; i++) { ... } *)
Fixpoint pre_loop (fuel fu : nat) (s : bytes) (st : pre_st) : ires pre_st :=
  match fuel with
  | O => IErr E_FUEL
  | S f =>
      let i := p_i st in
      let* c := rdc s i in
      if c =? 0 then IOk st
      else if c =? 40 then
        (* j++; checkversion = 1; last_not = 0; *)
        pre_loop f fu s {| p_i := i + 1; p_j := p_j st + 1; p_last_not := false; p_cv := true;
                           p_fsize := p_fsize st; p_esize := p_esize st; p_fexp := p_fexp st |}
      else if c =? 41 then
        (* j--; last_not = 0; if (j < 0) return LY_EVALID; *)
        if (p_j st - 1 <? 0)%Z then IErr E_PAREN else
        pre_loop f fu s {| p_i := i + 1; p_j := p_j st - 1; p_last_not := false; p_cv := p_cv st;
                           p_fsize := p_fsize st; p_esize := p_esize st; p_fexp := p_fexp st |}
      else if is_cspace c then
        pre_loop f fu s {| p_i := i + 1; p_j := p_j st; p_last_not := p_last_not st; p_cv := true;
                           p_fsize := p_fsize st; p_esize := p_esize st; p_fexp := p_fexp st |}
      else
        let* st1 := pre_word fu s c st in
        (* expr_size++ *)
        let* i' := skip_word fu s (p_i st1) in
        pre_loop f fu s {| p_i := i' + 1; p_j := p_j st1; p_last_not := p_last_not st1; p_cv := p_cv st1;
                           p_fsize := p_fsize st1; p_esize := inc64 (p_esize st1); p_fexp := p_fexp st1 |}
  end.

(* ---------- lys_compile_iffeature: main pass ---------- *)
Record mst := {
  m_stack : stack;
  m_expr : list N;                  (* iff->expr, calloc'ed *)
  m_feat : list (option bytes);     (* iff->features (NULL = None); a feature is identified by its name *)
  m_cnt : N;                        (* LY_ARRAY_COUNT(iff->features) *)
  m_esize : N; m_fsize : N          (* expr_size, f_size used as indices *)
}.

Definition set_stack (st : mst) (stk : stack) : mst :=
  {| m_stack := stk; m_expr := m_expr st; m_feat := m_feat st; m_cnt := m_cnt st;
     m_esize := m_esize st; m_fsize := m_fsize st |}.

(* iff_setop(iff->expr, op, expr_size--) *)
Definition emit (st : mst) (op : N) : ires mst :=
  let* e := iff_setop (m_expr st) op (m_esize st) in
  IOk {| m_stack := m_stack st; m_expr := e; m_feat := m_feat st; m_cnt := m_cnt st;
         m_esize := dec64 (m_esize st); m_fsize := m_fsize st |}.

(* while ((op = iff_stack_pop(&stack)) != LYS_IFF_RP) iff_setop(iff->expr, op, expr_size--); *)
Fixpoint pop_until_rp (fuel : nat) (st : mst) : ires mst :=
  match fuel with
  | O => IErr E_FUEL
  | S f =>
      let* (op, stk) := stack_pop (m_stack st) in
      let st1 := set_stack st stk in
      if op =? IFF_RP then IOk st1 else let* st2 := emit st1 op in pop_until_rp f st2
  end.

(* while (stack.index && stack.stack[stack.index - 1] <= P) { op = pop; iff_setop(..., expr_size--); } *)
Fixpoint pop_while_le (fuel : nat) (p : N) (st : mst) : ires mst :=
  match fuel with
  | O => IErr E_FUEL
  | S f =>
      if s_index (m_stack st) =? 0 then IOk st else
      let* top := rd (s_data (m_stack st)) (dec64 (s_index (m_stack st))) in
      if top <=? p then
        let* (op, stk) := stack_pop (m_stack st) in
        let* st2 := emit (set_stack st stk) op in
        pop_while_le f p st2
      else IOk st
  end.

(* while (i >= 0 && !isspace(c[i]) && c[i] != '(' && c[i] != ')') i--;   (returns i before the i++) *)
Fixpoint scan_back (fuel : nat) (s : bytes) (i : Z) : ires Z :=
  match fuel with
  | O => IErr E_FUEL
  | S f =>
      if (i <? 0)%Z then IOk i else
      let* c := rdc s i in
      if is_cspace c then IOk i else if c =? 40 then IOk i else if c =? 41 then IOk i else scan_back f s (i - 1)
  end.

(* !strncmp(&c[i], kw, n) && isspace(c[i + n]) *)
Definition kw_sp (s : bytes) (i : Z) (kw : bytes) : ires bool :=
  let* m := kw_at s i kw in
  if m then let* c := rdc s (i + Z.of_nat (length kw)) in IOk (is_cspace c) else IOk false.

Definition sub (s : bytes) (i : Z) (n : Z) : bytes := firstn (Z.to_nat n) (skipn (Z.to_nat i) s).

(* one word [i0, j) of the main pass *)
Definition main_word (fu : nat) (lookup : bytes -> option bytes) (s : bytes) (i0 j : Z) (st : mst) : ires mst :=
  let* isnot := kw_sp s i0 KW_NOT in
  if isnot then
    let* dbl :=
      if s_index (m_stack st) =? 0 then IOk false else
      let* top := rd (s_data (m_stack st)) (dec64 (s_index (m_stack st))) in
      IOk (top =? Consts.LYS_IFF_NOT) in
    if dbl then
      (* double not *)
      let* (_, stk) := stack_pop (m_stack st) in IOk (set_stack st stk)
    else
      let* stk := stack_push (m_stack st) Consts.LYS_IFF_NOT in IOk (set_stack st stk)
  else
  let* isand := kw_sp s i0 KW_AND in
  if isand then
    let* st1 := pop_while_le fu Consts.LYS_IFF_AND st in
    let* stk := stack_push (m_stack st1) Consts.LYS_IFF_AND in IOk (set_stack st1 stk)
  else
  let* isor := kw_sp s i0 KW_OR in
  if isor then
    let* st1 := pop_while_le fu Consts.LYS_IFF_OR st in
    let* stk := stack_push (m_stack st1) Consts.LYS_IFF_OR in IOk (set_stack st1 stk)
  else
    (* feature name, length is j - i: first the code is stored, then the feature is looked up *)
    let* st1 := emit st Consts.LYS_IFF_F in
    match lookup (sub s i0 (j - i0)) with
    | None => IErr E_NOTFOUND
    | Some f =>
        let* ft := wr (m_feat st1) (m_fsize st1) (Some f) in
        IOk {| m_stack := m_stack st1; m_expr := m_expr st1; m_feat := ft; m_cnt := inc64 (m_cnt st1);
               m_esize := m_esize st1; m_fsize := dec64 (m_fsize st1) |}
    end.

(* for (i--; i >= 0; i--) { ... } *)
Fixpoint main_loop (fuel fu : nat) (lookup : bytes -> option bytes) (s : bytes) (i : Z) (st : mst) : ires mst :=
  match fuel with
  | O => IErr E_FUEL
  | S f =>
      if (i <? 0)%Z then IOk st else
      let* c := rdc s i in
      if c =? 41 then
        let* stk := stack_push (m_stack st) IFF_RP in
        main_loop f fu lookup s (i - 1) (set_stack st stk)
      else if c =? 40 then
        let* st1 := pop_until_rp fu st in
        main_loop f fu lookup s (i - 1) st1
      else if is_cspace c then
        main_loop f fu lookup s (i - 1) st
      else
        let j := (i + 1)%Z in
        let* ib := scan_back fu s i in
        let i0 := (ib + 1)%Z in
        let* st1 := main_word fu lookup s i0 j st in
        main_loop f fu lookup s (i0 - 1) st1
  end.

(* while (stack.index) { op = iff_stack_pop(&stack); iff_setop(iff->expr, op, expr_size--); } *)
Fixpoint flush_stack (fuel : nat) (st : mst) : ires mst :=
  match fuel with
  | O => IErr E_FUEL
  | S f =>
      if s_index (m_stack st) =? 0 then IOk st else
      let* (op, stk) := stack_pop (m_stack st) in
      let* st2 := emit (set_stack st stk) op in
      flush_stack f st2
  end.

(* the compiled struct lysc_iffeature: expr bytes, features array, LY_ARRAY_COUNT(features) *)
Definition iff_c : Type := (list N * list (option bytes) * N)%type.

(* lookup = lysp_feature_find(qname->mod, name, len, 1) reduced to the name of the feature found;
   v11 = (qname->mod->version == LYS_VERSION_1_1); s = qname->str without its NUL *)
Definition compile (lookup : bytes -> option bytes) (v11 : bool) (s : bytes) : ires iff_c :=
  let fu := S (S (length s)) in
  let* p := pre_loop fu fu s pre_init in
  if negb (p_j p =? 0)%Z then IErr E_PAREN else
  if negb (p_fexp p =? p_fsize p) then IErr E_COUNT else
  if (p_cv p || (1 <? p_esize p)) && negb v11 then IErr E_VERSION else
  (* LY_ARRAY_CREATE / calloc / malloc; sizes beyond the input length cannot be reached (proved),
     the guard keeps the model computable *)
  if (N.of_nat (length s) <? p_esize p) || (N.of_nat (length s) <? p_fsize p) then IErr E_MEM else
  let nbytes := p_esize p / 4 + (if p_esize p mod 4 =? 0 then 0 else 1) in
  let st0 := {| m_stack := {| s_data := repeat 0 (N.to_nat (p_esize p)); s_index := 0 |};
                m_expr := repeat 0 (N.to_nat nbytes);
                m_feat := repeat None (N.to_nat (p_fsize p)); m_cnt := 0;
                m_esize := dec64 (p_esize p); m_fsize := dec64 (p_fsize p) |} in
  let* st1 := main_loop fu fu lookup s (p_i p - 1) st0 in
  let* st2 := flush_stack (S (N.to_nat (s_index (m_stack st1)))) st1 in
  (* if (++expr_size || ++f_size) *)
  if negb (inc64 (m_esize st2) =? 0) then IErr E_PROC
  else if negb (inc64 (m_fsize st2) =? 0) then IErr E_PROC
  else IOk (m_expr st2, m_feat st2, m_cnt st2).

(* a C string ends at its first NUL *)
Fixpoint cstr (s : bytes) : bytes :=
  match s with
  | [] => []
  | c :: r => if c =? 0 then [] else c :: cstr r
  end.
Definition compile_c (lookup : bytes -> option bytes) (v11 : bool) (s : bytes) : ires iff_c :=
  compile lookup v11 (cstr s).

(* ---------- lysc_iffeature_value_ / lysc_iffeature_value ---------- *)
(* env x = (feature x ->flags & LYS_FENABLED); true = LY_SUCCESS, false = LY_ENOT *)
Fixpoint iff_value_ (fuel : nat) (expr : list N) (feat : list (option bytes)) (env : bytes -> bool)
    (ie ix : N) : ires (bool * N * N) :=
  match fuel with
  | O => IErr E_FUEL
  | S f =>
      let* op := iff_getop expr ie in
      let ie1 := inc64 ie in
      if op =? Consts.LYS_IFF_F then
        let* fo := rd feat ix in
        match fo with
        | None => IOob                 (* NULL pointer dereference *)
        | Some x => IOk (env x, ie1, inc64 ix)
        end
      else if op =? Consts.LYS_IFF_NOT then
        let* (v, ie2, ix2) := iff_value_ f expr feat env ie1 ix in
        IOk (negb v, ie2, ix2)
      else if (op =? Consts.LYS_IFF_AND) || (op =? Consts.LYS_IFF_OR) then
        let* (a, ie2, ix2) := iff_value_ f expr feat env ie1 ix in
        let* (b, ie3, ix3) := iff_value_ f expr feat env ie2 ix2 in
        if op =? Consts.LYS_IFF_AND then IOk (a && b, ie3, ix3) else IOk (a || b, ie3, ix3)
      else IOk (false, ie1, ix)
  end.

(* every call reads one more record, so 4 * bytes + 1 calls either finish or leave the block *)
Definition iff_value (c : iff_c) (env : bytes -> bool) : ires bool :=
  let '(expr, feat, _) := c in
  let* (v, _, _) := iff_value_ (S (4 * length expr)) expr feat env 0 0 in
  IOk v.

(* lysp_feature_find() for the module of the C driver: prefix p, no imports, features a b c.
   An unprefixed name must be a, b or c; a name with a colon is split at the first one, the prefix
   must be p (ly_resolve_prefix rejects an empty prefix), the rest a, b or c. *)
Fixpoint split_colon (w : bytes) (acc : bytes) : option (bytes * bytes) :=
  match w with
  | [] => None
  | c :: r => if c =? 58 then Some (rev acc, r) else split_colon r (c :: acc)
  end.
Definition is_abc (w : bytes) : bool := beq_bytes w [97] || beq_bytes w [98] || beq_bytes w [99].
Definition lookup_abc (w : bytes) : option bytes :=
  match split_colon w [] with
  | None => if is_abc w then Some w else None
  | Some (pfx, name) =>
      if beq_bytes pfx [112] && is_abc name then Some name else None
  end.
Definition env_abc (a b c : bool) (w : bytes) : bool :=
  if beq_bytes w [97] then a else if beq_bytes w [98] then b else if beq_bytes w [99] then c else false.

(* ============================================================================================== *)
(* Specification side *)

Inductive iexp : Type :=
| F (x : bytes)
| Not (e : iexp)
| And (a b : iexp)
| Or (a b : iexp).

Fixpoint denote (env : bytes -> bool) (e : iexp) : bool :=
  match e with
  | F x => env x
  | Not a => negb (denote env a)
  | And a b => denote env a && denote env b
  | Or a b => denote env a || denote env b
  end.

(* prefix code and feature list of an expression; packing of codes into bytes *)
Fixpoint pre (e : iexp) : list N :=
  match e with
  | F _ => [Consts.LYS_IFF_F]
  | Not a => Consts.LYS_IFF_NOT :: pre a
  | And a b => Consts.LYS_IFF_AND :: pre a ++ pre b
  | Or a b => Consts.LYS_IFF_OR :: pre a ++ pre b
  end.
Fixpoint feats (e : iexp) : list bytes :=
  match e with
  | F x => [x]
  | Not a => feats a
  | And a b | Or a b => feats a ++ feats b
  end.
Fixpoint pack (l : list N) : list N :=
  match l with
  | [] => []
  | [a] => [a]
  | [a; b] => [a + 4 * b]
  | [a; b; c] => [a + 4 * b + 16 * c]
  | a :: b :: c :: d :: r => (a + 4 * b + 16 * c + 64 * d) :: pack r
  end.

(* ---------- lexical structure shared by both passes: parentheses, single white-space characters,
   words (maximal runs of other bytes) ---------- *)
Inductive item : Type := ILP | IRP | ISP (c : N) | IW (w : bytes).

Fixpoint items (s : bytes) : list item :=
  match s with
  | [] => []
  | c :: s' =>
      if c =? 40 then ILP :: items s'
      else if c =? 41 then IRP :: items s'
      else if is_cspace c then ISP c :: items s'
      else match items s' with
           | IW w :: r => IW (c :: w) :: r
           | r => IW [c] :: r
           end
  end.

Definition item_bytes (it : item) : bytes :=
  match it with ILP => [40] | IRP => [41] | ISP c => [c] | IW w => w end.
Definition flatten (its : list item) : bytes := flat_map item_bytes its.

(* tokens: a word is an operator exactly when it is the keyword and a white-space follows *)
Inductive tok : Type := TLP | TRP | TNOT | TAND | TOR | TF (w : bytes).

Definition next_is_sp (r : list item) : bool := match r with ISP _ :: _ => true | _ => false end.
Definition classify (w : bytes) (sp : bool) : tok :=
  if sp then
    if beq_bytes w KW_NOT then TNOT else if beq_bytes w KW_AND then TAND
    else if beq_bytes w KW_OR then TOR else TF w
  else TF w.
Fixpoint toks (its : list item) : list tok :=
  match its with
  | [] => []
  | ILP :: r => TLP :: toks r
  | IRP :: r => TRP :: toks r
  | ISP _ :: r => toks r
  | IW w :: r => classify w (next_is_sp r) :: toks r
  end.

Definition is_wordch (c : N) : bool := negb (c =? 40) && negb (c =? 41) && negb (is_cspace c).

(* size assumption of every theorem about the compiler: the string fits a C object (|s| < 2^62), so
   that the 64-bit counters and the signed index cannot wrap on their own *)
Definition len_ok (s : bytes) : Prop := (Z.of_nat (length s) < 4611686018427387904)%Z.

(* ---------- RFC 7950 section 7.20.2 / 14:
     if-feature-expr   = if-feature-term [sep or-keyword sep if-feature-expr]
     if-feature-term   = if-feature-factor [sep and-keyword sep if-feature-term]
     if-feature-factor = not-keyword sep if-feature-factor / "(" optsep if-feature-expr optsep ")" /
                         identifier-ref-arg
   sep / optsep are taken as any non-empty / possibly empty run of isspace() characters (a superset of
   the RFC's SP, HTAB, CRLF, LF). The AST is the parse tree, parentheses are not recorded. ---------- *)
Definition is_sep (w : bytes) : Prop := w <> [] /\ forallb is_cspace w = true.
Definition is_optsep (w : bytes) : Prop := forallb is_cspace w = true.
(* feature names: non-empty, no NUL, white-space or parenthesis, and not one of the keywords (the code
   cannot tell a feature called not/and/or from the operator when a white-space follows) *)
Definition name_ok (x : bytes) : Prop :=
  x <> [] /\ forallb (fun c => is_wordch c && negb (c =? 0)) x = true /\
  x <> KW_NOT /\ x <> KW_AND /\ x <> KW_OR.

Inductive rexpr : iexp -> bytes -> Prop :=
| RE_term e r : rterm e r -> rexpr e r
| RE_or a b ra w1 w2 rb :
    rterm a ra -> is_sep w1 -> is_sep w2 -> rexpr b rb ->
    rexpr (Or a b) (ra ++ w1 ++ KW_OR ++ w2 ++ rb)
with rterm : iexp -> bytes -> Prop :=
| RT_factor e r : rfactor e r -> rterm e r
| RT_and a b ra w1 w2 rb :
    rfactor a ra -> is_sep w1 -> is_sep w2 -> rterm b rb ->
    rterm (And a b) (ra ++ w1 ++ KW_AND ++ w2 ++ rb)
with rfactor : iexp -> bytes -> Prop :=
| RF_not e w r : is_sep w -> rfactor e r -> rfactor (Not e) (KW_NOT ++ w ++ r)
| RF_paren e w1 w2 r : is_optsep w1 -> is_optsep w2 -> rexpr e r -> rfactor e ([40] ++ w1 ++ r ++ w2 ++ [41])
| RF_id x : name_ok x -> rfactor (F x) x.

Definition names_ok (e : iexp) : Prop := Forall name_ok (feats e).

(* two renderers: every operator application in parentheses / only the parentheses the grammar needs *)
Fixpoint render_full (e : iexp) : bytes :=
  match e with
  | F x => x
  | Not a => [40] ++ KW_NOT ++ [32] ++ render_full a ++ [41]
  | And a b => [40] ++ render_full a ++ [32] ++ KW_AND ++ [32] ++ render_full b ++ [41]
  | Or a b => [40] ++ render_full a ++ [32] ++ KW_OR ++ [32] ++ render_full b ++ [41]
  end.

(* level: 2 = expr, 1 = term, 0 = factor *)
Definition paren (r : bytes) : bytes := [40] ++ r ++ [41].
Fixpoint render_min (lvl : nat) (e : iexp) : bytes :=
  match e with
  | F x => x
  | Not a => KW_NOT ++ [32] ++ render_min 0 a
  | And a b =>
      let r := render_min 0 a ++ [32] ++ KW_AND ++ [32] ++ render_min 1 b in
      if Nat.ltb lvl 1 then paren r else r
  | Or a b =>
      let r := render_min 1 a ++ [32] ++ KW_OR ++ [32] ++ render_min 2 b in
      if Nat.ltb lvl 2 then paren r else r
  end.
