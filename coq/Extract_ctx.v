(* Extract_ctx.v — extraction of the ctx slice (Context) to OCaml; see Extract_xml.v. *)
From Coq Require Extraction ExtrOcamlBasic.
From LY Require Import Base Context.
Extraction Language OCaml.
Extraction "model_ctx.ml"
  N.add N.mul N.div N.modulo N.sub Z.add Z.mul Z.opp Z.of_N Z.abs_N Z.sub Z.ltb
  Context.step Context.init Context.obs Context.user_mods Context.compiled_in Context.kmem Context.internal_mods
  Context.get_latest Context.get_implemented Context.names Context.hash_fields Context.mkey Context.index_of
  Context.quiescent.
