(* Sorted.v - the sibling sequence of ONE system-ordered (leaf-)list and its lyds_tree, as kept by
   lyds_insert / lyds_unlink / lyds_link_data_node / lyds_additionally_create_rb_tree of
   src/tree_data_sorted.c (called from lyd_insert_node / lyd_unlink of src/tree_data.c).
   MODEL ONLY (proofs: SortedP.v).

   State of one (leaf-)list under one parent:
     sibs : the instances in sibling order (the leader is the head),
     rbt  : None        - the leader has no `lyds_tree` metadata (lazy creation: lists with one instance,
                          or lists that were only ever appended to with LYD_INSERT_NODE_LAST by a parser);
            Some t      - the leader owns the metadata and t is the red-black tree it points to
                          (Some Leaf: metadata whose rbt pointer is NULL).
   Elements are data nodes: [cmp] is the type plugin's sort callback on the (key) values, [ideq] is
   pointer equality. *)
From LY Require Import Base RBTree.

Section Sorted.
Variable A : Type.
Variable cmp : A -> A -> comparison.
Variable ideq : A -> A -> bool.

Notation tree := (RBTree.tree A).

(* ---------- Spec: the abstract sequence operations ---------- *)

(* insert x after the last element that is not greater (in a sorted list: before the first greater
   one): a STABLE insert, equal keys keep their insertion order *)
Fixpoint stable_insert (l : list A) (x : A) : list A :=
  match l with
  | [] => [x]
  | y :: l' =>
    match cmp y x with
    | Gt => x :: y :: l'
    | _ => y :: stable_insert l' x
    end
  end.

(* insertion sort = what the lazy creation of the tree does to an unsorted sequence *)
Definition isort (l : list A) : list A := fold_left stable_insert l [].

Fixpoint remove_nth (i : nat) (l : list A) {struct l} : list A :=
  match l with
  | [] => []
  | y :: l' => match i with O => l' | S i' => y :: remove_nth i' l' end
  end.

(* ---------- as coded ---------- *)

(* lyd_insert_after_node(first_sibling, RBN_DNODE(prev), node) *)
Fixpoint insert_after (prev x : A) (l : list A) : list A :=
  match l with
  | [] => [x]
  | y :: l' => if ideq y prev then y :: x :: l' else y :: insert_after prev x l'
  end.

(* lyds_link_data_node(first_sibling, leader, node, root_meta, rbn): t is the tree AFTER the
   insertion of rbn;
       prev = rb_prev(rbn);
       if (prev) lyd_insert_after_node(first_sibling, RBN_DNODE(prev), RBN_DNODE(rbn));
       else { lyd_insert_before_node( *leader, RBN_DNODE(rbn)); *leader = node; lyds_move_meta(node, root_meta); } *)
Definition link (sibs : list A) (t : tree) (x : A) : list A :=
  match locate_id ideq t x [] with
  | None => sibs
  | Some (p, n) =>
    match rb_prev p n with
    | Some pk => insert_after pk x sibs
    | None => x :: sibs
    end
  end.

(* lyds_additionally_create_rb_nodes(): for every further instance, in sibling order,
       rb_insert_node(rbt, rbn, &max);
       if (!max) { lyd_unlink_ignore_lyds(iter); lyds_link_data_node(iter); }      -- else it stays the last
   [done] = the instances already in the tree (a prefix of the siblings), [rest] the others *)
Fixpoint create_nodes (rest done : list A) (t : tree) : option (list A * tree) :=
  match rest with
  | [] => Some (done, t)
  | x :: rest' =>
    match rb_insert cmp t x with
    | None => None
    | Some t' =>
      create_nodes rest' (if rb_insert_max cmp t x then done ++ [x] else link done t' x) t'
    end
  end.

(* lyds_additionally_create_rb_tree(): the leader becomes the (calloc'ed, hence black) root *)
Definition create_tree (sibs : list A) : option (list A * tree) :=
  match sibs with
  | [] => None
  | ld :: rest => create_nodes rest [ld] (Node Black Leaf ld Leaf)
  end.

Record lst : Type := mkLst { sibs : list A; rbt : option tree }.

(* lyd_insert_node(parent, first_sibling, node, LYD_INSERT_NODE_DEFAULT) for a node of this list.
   x_tree: the (unlinked, alone) node still carries `lyds_tree` metadata with a one-node tree of its own.
   - no instance yet (lyd_find_sibling_schema fails): lyd_insert_node_ordby_schema; the metadata of x stays
   - otherwise lyds_insert(): the metadata of x is freed; the tree of the leader is created if missing
     (metadata, then all present instances), rb_insert(), lyds_link_data_node(), RBT_SET. *)
Definition lyds_insert (s : lst) (x : A) (x_tree : bool) : option lst :=
  match sibs s with
  | [] => Some (mkLst [x] (if x_tree then Some (Node Black Leaf x Leaf) else None))
  | _ :: _ =>
    match (match rbt s with
           | Some (Node c l k r) => Some (sibs s, Node c l k r)
           | _ => create_tree (sibs s)
           end) with
    | None => None
    | Some (sb, t) =>
      match rb_insert cmp t x with
      | None => None
      | Some t' => Some (mkLst (link sb t' x) (Some t'))
      end
    end
  end.

(* lyd_insert_node(..., LYD_INSERT_NODE_LAST): what the parsers do for input declared ordered; the
   node is appended and no lyds function is called *)
Definition lyds_append (s : lst) (x : A) : lst := mkLst (sibs s ++ [x]) (rbt s).

(* lyd_dup() (src/tree_data.c) of the instances xs of one (leaf-)list, in source order, into a parent, i.e.
   lyd_dup_siblings(first instance, parent, options without LYD_DUP_NO_LYDS).
       first_llist = NULL;
       for each orig:
           insert_order = LYD_INSERT_NODE_DEFAULT;
           if (first_llist) insert_order = LYD_INSERT_NODE_LAST;            -- the rest is appended
           else first_llist = orig;
           lyd_dup_r(orig, ..., insert_order) -> lyd_insert_node(parent, ..., dup, insert_order);
           if (first_llist && <not alone>) first_llist = NULL;              -- the order must be found for the next one
   after   : the parent has children behind the instances of this (leaf-)list (then dup->next is never NULL for a
             duplicate inserted by the default path)
   fixed   : true  - <not alone> = dup->next || (first_llist == orig && dup->prev->next && dup->prev->schema == dup->schema)
                     (the code as of /repo 03a093d: previous instances are looked for when the FIRST instance is duplicated)
             false - <not alone> = dup->next          (before /repo d989bef: a duplicate that lands behind EXISTING
                     instances keeps the append path, the appended duplicates never enter the leader's tree)
   A duplicate appended with LYD_INSERT_NODE_LAST is the last sibling (dup->next == NULL) and is not first_llist, so
   once the append path is taken it is kept for all further instances.
   (Between d989bef and 03a093d the test for previous instances was made for every duplicate: from the third instance
   on every duplicate was inserted by a sorted search and unsorted sources changed their order.) *)
Definition dup_alone (fixed after : bool) (s : lst) (x : A) : bool :=
  negb after &&
  (if fixed then match sibs s with [_] => true | _ => false end
   else match rev (sibs s) with y :: _ => ideq y x | [] => false end).

Fixpoint lyds_dup_rest (fixed after fast : bool) (s : lst) (xs : list A) : option lst :=
  match xs with
  | [] => Some s
  | x :: xs' =>
    if fast then lyds_dup_rest fixed after true (lyds_append s x) xs'
    else
      match lyds_insert s x false with
      | None => None
      | Some s' => lyds_dup_rest fixed after (dup_alone fixed after s' x) s' xs'
      end
  end.

(* the duplicate of a leader carries a copy of the `lyds_tree` metadata whose tree pointer is NULL
   (lyplg_type_dupl_lyds); it survives when the duplicate becomes the first instance in the target
   (lyds_insert() frees it otherwise).  src_meta: the first source instance owns such metadata *)
Definition dup_first_meta (src_meta : bool) (s s' : lst) : lst :=
  match sibs s with
  | [] => if src_meta then mkLst (sibs s') (Some Leaf) else s'
  | _ :: _ => s'
  end.

Definition lyds_dup (fixed after src_meta : bool) (s : lst) (xs : list A) : option lst :=
  match xs with
  | [] => Some s
  | x :: xs' =>
    match lyds_insert s x false with
    | None => None
    | Some s' =>
      let s1 := dup_first_meta src_meta s s' in
      lyds_dup_rest fixed after (dup_alone fixed after s1 x) s1 xs'
    end
  end.

(* with LYD_DUP_NO_LYDS every duplicate is linked behind the last instance (LYD_INSERT_NODE_LAST_BY_SCHEMA for the
   first one, LYD_INSERT_NODE_LAST for the others) and no lyds function is called *)
Definition lyds_dup_nolyds (src_meta : bool) (s : lst) (xs : list A) : lst :=
  match xs with
  | [] => s
  | x :: xs' => fold_left lyds_append xs' (dup_first_meta src_meta s (lyds_append s x))
  end.

(* ---------- destructive merge: lyd_merge(..., LYD_MERGE_DESTRUCT) of the instances of one (leaf-)list ----------
   lyds_pool_add() takes the metadata and the red-black nodes of the SOURCE list's tree into the pool; the pool is
   modelled by the NUMBER of recycled red-black nodes that are still free (pool->rbn != NULL iff pool > 0; which node is
   recycled does not matter, RBN_RESET clears it).

   lyds_additionally_reuse_rb_tree(): the target instances get a tree from recycled nodes, in sibling order
       RBN_RESET(pool->rbn, leader); rbt = pool->rbn; pool->rbn = next free node;
       for (iter = leader->next; same schema; iter = next_node) {
           if (!pool->rbn) { *next = iter; return; }                    -- the pool ran dry: hand over
           RBN_RESET(pool->rbn, iter); rb_insert_node(rbt, pool->rbn, &max); if (!max) relink iter; pool->rbn = next free node; }
   and lyds_insert2() continues with lyds_additionally_create_rb_nodes(next) (newly allocated nodes) from the hand-over point.
   skip = true is the seeded change C14-6 (`*next = next_node`): the instance for which no recycled node was left is
   skipped, it stays among the siblings but never gets into the tree. *)
Fixpoint reuse_nodes (skip : bool) (pool : nat) (rest done : list A) (t : tree) {struct rest}
  : option (list A * tree * nat) :=
  match rest with
  | [] => Some (done, t, pool)
  | x :: rest' =>
    match pool with
    | O =>
      match create_nodes (if skip then rest' else rest) (if skip then done ++ [x] else done) t with
      | Some (d, t') => Some (d, t', O)
      | None => None
      end
    | S p =>
      match rb_insert cmp t x with
      | None => None
      | Some t' => reuse_nodes skip p rest' (if rb_insert_max cmp t x then done ++ [x] else link done t' x) t'
      end
    end
  end.

(* lyds_insert2() asserts pool->rbn: the leader takes the first free node (cleared, hence black) *)
Definition reuse_tree (skip : bool) (pool : nat) (sibs : list A) : option (list A * tree * nat) :=
  match sibs with
  | [] => None
  | ld :: rest => reuse_nodes skip (Nat.pred pool) rest [ld] (Node Black Leaf ld Leaf)
  end.

(* lyds_insert2(parent, first_sibling, leader, node, pool), called when pool->rbn != NULL:
   - no instance in the target: lyd_insert_node_ordby_schema (the node has no metadata, it went to the pool)
   - otherwise metadata for the leader from the pool (or new), the tree from recycled nodes if there is none, then the
     node is inserted with a recycled node if one is left, else with a new one; lyds_link_data_node *)
Definition lyds_insert2 (skip : bool) (pool : nat) (s : lst) (x : A) : option (lst * nat) :=
  match sibs s with
  | [] => Some (mkLst [x] None, pool)
  | _ :: _ =>
    match (match rbt s with
           | Some (Node c l k r) => Some (sibs s, Node c l k r, pool)
           | _ => reuse_tree skip pool (sibs s)
           end) with
    | None => None
    | Some (sb, t, p1) =>
      match rb_insert cmp t x with
      | None => None
      | Some t' => Some (mkLst (link sb t' x) (Some t'), Nat.pred p1)
      end
    end
  end.

(* an instance with the same key (lyd_find_sibling_first); the model of the merge assumes that no two SOURCE instances
   compare equal (then the duplicate-instance bookkeeping of lyd_merge_sibling_r plays no role) *)
Definition has_key (x : A) (l : list A) : bool :=
  existsb (fun y => match cmp y x with Eq => true | _ => false end) l.

(* lyd_merge_sibling_r() over the source instances xs (source sibling order): an instance that the target already has is
   left in the source (freed with it); a new one is unlinked and inserted with lyds_insert2() while the pool has a free
   node, with lyd_insert_node(DEFAULT) = lyds_insert() afterwards.  pool = 0 from the start is also the merge WITHOUT
   LYD_MERGE_DESTRUCT (xs then are the duplicates made by lyd_dup_single) and the case of a source without tree. *)
Fixpoint lyd_merge_list (skip : bool) (pool : nat) (s : lst) (xs : list A) : option lst :=
  match xs with
  | [] => Some s
  | x :: xs' =>
    if has_key x (sibs s) then lyd_merge_list skip pool s xs'
    else
      match pool with
      | O => match lyds_insert s x false with
             | None => None
             | Some s' => lyd_merge_list skip O s' xs'
             end
      | S _ => match lyds_insert2 skip pool s x with
               | None => None
               | Some (s', p') => lyd_merge_list skip p' s' xs'
               end
      end
  end.

(* ---------- lyd_unlink_siblings(instance at position i): lyds_split ----------
   The instance and ALL following siblings are unlinked as a chain.  i = 0: the chain starts with the leader, no lyds
   function is called, the leader keeps metadata and tree.  i > 0: lyds_split(leader, node):
       rbt = lyds_get_rb_tree(leader, &root_meta);
       if (!rbt) { the instances from node on are just unlinked }
       else for node and every following instance: rb_remove_node(root_meta, &rbt, iter, &rbn) (rb_find + rb_remove, nothing
            when the node is not in the tree), unlink; RBT_SET(root_meta, rbt);
   The split-off run has no metadata.  Answer: (remaining list, split-off run). *)
Fixpoint remove_run (t : tree) (xs : list A) : option tree :=
  match xs with
  | [] => Some t
  | x :: r =>
    match t with
    | Leaf => remove_run t r
    | Node _ _ _ _ =>
      match rb_find cmp ideq t x with
      | None => remove_run t r
      | Some j =>
        match rb_remove t j with
        | None => None
        | Some t' => remove_run t' r
        end
      end
    end
  end.

Definition lyds_split (s : lst) (i : nat) : option (lst * lst) :=
  match i with
  | O => Some (mkLst [] None, s)
  | S _ =>
    match rbt s with
    | Some (Node c l k r) =>
      match remove_run (Node c l k r) (skipn i (sibs s)) with
      | None => None
      | Some t' => Some (mkLst (firstn i (sibs s)) (Some t'), mkLst (skipn i (sibs s)) None)
      end
    | o => Some (mkLst (firstn i (sibs s)) o, mkLst (skipn i (sibs s)) None)
    end
  end.

(* ---------- lyd_insert_child / lyd_insert_sibling of a chain of >= 2 siblings: lyd_move_nodes -> lyds_merge ----------
   c = the run of instances of this (leaf-)list inside the chain.  No instance in the target: the run is moved as it
   is, the leader keeps metadata and tree (lyd_move_nodes_at_once / lyd_move_nodes_ordby_schema).  Otherwise lyds_merge:
     source without tree (lyds_merge_nodes1, after lyds_additionally_create_rb_tree of the target if it has no tree
       either): every source instance in sibling order: rb_insert + lyds_link_data_node, i.e. what lyds_insert does;
     both with tree (lyds_merge_nodes3): the same for the source instances in the order of rb_iter_traversal over the
       source tree, which is its POST-order (a node is visited when it has become a leaf);
     target without, source with tree (lyds_merge_nodes2): the TARGET instances are inserted into the source tree in
       sibling order, the source instances are moved between them in tree order (front / among / back), the tree and
       its metadata move to the new leader.  lyds_merge_nodes2_among walks rb_next() from the previous target node to
       the new one: when the target instances are not sorted it walks into NULL (answer None). *)
Fixpoint postorder (t : tree) : list A :=
  match t with
  | Leaf => []
  | Node _ l k r => postorder l ++ postorder r ++ [k]
  end.

Fixpoint insert_all (s : lst) (xs : list A) : option lst :=
  match xs with
  | [] => Some s
  | x :: r => match lyds_insert s x false with Some s' => insert_all s' r | None => None end
  end.

Fixpoint rb_insert_all (t : tree) (xs : list A) : option tree :=
  match xs with
  | [] => Some t
  | x :: r => match rb_insert cmp t x with Some t' => rb_insert_all t' r | None => None end
  end.

Definition lyds_merge (s c : lst) : option lst :=
  match sibs s with
  | [] => Some c
  | _ :: _ =>
    match rbt c with
    | Some (Node sc sl sk sr) =>
      match rbt s with
      | Some (Node _ _ _ _) => insert_all s (postorder (Node sc sl sk sr))
      | _ =>
        if sortedb cmp (sibs s) then
          match rb_insert_all (Node sc sl sk sr) (sibs s) with
          | Some t => Some (mkLst (inorder t) (Some t))
          | None => None
          end
        else None
      end
    | _ => insert_all s (sibs c)
    end
  end.

(* lyd_unlink(node) for the instance at sibling position i: lyds_unlink() then lyd_unlink_ignore_lyds().
       rbt = lyds_get_rb_tree( *leader, &root_meta);
       if (!root_meta || LYD_NODE_IS_ALONE( *leader)) return;        -- an alone leader keeps its metadata and tree
       if ( *leader == node) lyds_move_meta(( *leader)->next, root_meta);
       rb_remove_node(): if (! *rbt) return; rbn = rb_find( *rbt, node); if (!rbn) return; rb_remove(rbt, rbn); RBT_SET
   Answer: the new state and whether the unlinked node carries a tree away. *)
Definition lyds_unlink (s : lst) (i : nat) : option (lst * bool) :=
  match nth_error (sibs s) i with
  | None => None
  | Some x =>
    match rbt s with
    | None => Some (mkLst (remove_nth i (sibs s)) None, false)
    | Some t =>
      match sibs s with
      | [_] => Some (mkLst [] None, match t with Leaf => false | _ => true end)
      | _ =>
        match rb_find cmp ideq t x with
        | None => Some (mkLst (remove_nth i (sibs s)) (Some t), false)
        | Some j =>
          match rb_remove t j with
          | None => None
          | Some t' => Some (mkLst (remove_nth i (sibs s)) (Some t'), false)
          end
        end
      end
    end
  end.

(* ---------- edit histories of the tree alone (statements of C04_sorted_history) ---------- *)
Inductive op : Type :=
| Ins (x : A)          (* rb_insert_node of a new node for x *)
| Rem (i : nat).       (* rb_remove of the node at in-order position i *)

Definition rb_step (ot : option tree) (o : op) : option tree :=
  match ot with
  | None => None
  | Some t => match o with Ins x => rb_insert cmp t x | Rem i => rb_remove t i end
  end.

Definition rb_run (ops : list op) : option tree := fold_left rb_step ops (Some Leaf).

(* Spec: the same history on the abstract sequence *)
Definition seq_step (l : list A) (o : op) : list A :=
  match o with Ins x => stable_insert l x | Rem i => remove_nth i l end.

Definition seq_run (ops : list op) : list A := fold_left seq_step ops [].

(* every Rem names an existing position (len = current number of elements) *)
Fixpoint ops_valid (ops : list op) (len : nat) : Prop :=
  match ops with
  | [] => True
  | Ins _ :: r => ops_valid r (S len)
  | Rem i :: r => i < len /\ ops_valid r (len - 1)
  end.

(* Spec: the live elements in ARRIVAL order (no sorting): an insert appends, a removal deletes the
   element that stands at position i of the sorted sequence *)
Fixpoint remove_id (y : A) (l : list A) : list A :=
  match l with
  | [] => []
  | z :: l' => if ideq z y then l' else z :: remove_id y l'
  end.

Fixpoint arrivals (ops : list op) (sq arr : list A) : list A :=
  match ops with
  | [] => arr
  | Ins x :: r => arrivals r (stable_insert sq x) (arr ++ [x])
  | Rem i :: r =>
    match nth_error sq i with
    | Some y => arrivals r (remove_nth i sq) (remove_id y arr)
    | None => arrivals r sq arr
    end
  end.

(* every inserted node is a new one (not among the live ones) *)
Fixpoint ops_fresh (ops : list op) (sq : list A) : Prop :=
  match ops with
  | [] => True
  | Ins x :: r => ~ In x sq /\ ops_fresh r (stable_insert sq x)
  | Rem i :: r => ops_fresh r (remove_nth i sq)
  end.

(* elements with the same key as x *)
Definition same_key (x y : A) : bool := match cmp y x with Eq => true | _ => false end.

End Sorted.

Arguments remove_nth {A} i l.
Arguments stable_insert {A}.
Arguments isort {A}.
Arguments insert_after {A}.
Arguments link {A}.
Arguments create_nodes {A}.
Arguments create_tree {A}.
Arguments lyds_insert {A}.
Arguments lyds_append {A}.
Arguments lyds_unlink {A}.
Arguments dup_alone {A}.
Arguments dup_first_meta {A}.
Arguments lyds_dup_rest {A}.
Arguments lyds_dup {A}.
Arguments lyds_dup_nolyds {A}.
Arguments reuse_nodes {A}.
Arguments reuse_tree {A}.
Arguments lyds_insert2 {A}.
Arguments has_key {A}.
Arguments lyd_merge_list {A}.
Arguments remove_run {A}.
Arguments lyds_split {A}.
Arguments postorder {A}.
Arguments insert_all {A}.
Arguments rb_insert_all {A}.
Arguments lyds_merge {A}.
Arguments Ins {A} x.
Arguments Rem {A} i.
Arguments rb_step {A}.
Arguments rb_run {A}.
Arguments seq_step {A}.
Arguments seq_run {A}.
Arguments ops_valid {A}.
Arguments remove_id {A}.
Arguments arrivals {A}.
Arguments ops_fresh {A}.
Arguments same_key {A}.
Arguments mkLst {A} sibs rbt.
Arguments sibs {A} l.
Arguments rbt {A} l.

(* ---------- the concrete elements run by the correspondence check ----------
   a data node = (integer key, identity); the order is the integer order of the keys (int8, and the other
   types with the value texts chosen by the driver), identity = pointer equality *)
Definition elt : Type := (Z * N)%type.
Definition elt_cmp (a b : elt) : comparison := Z.compare (fst a) (fst b).
Definition elt_ideq (a b : elt) : bool := Z.eqb (fst a) (fst b) && N.eqb (snd a) (snd b).
