(* Properties_C12_json.v — property C12 (printed XML/JSON are standard-conformant), string/text
   level: theorem statements only. The readers of StdText.v are written from RFC 8259, RFC 3629
   and XML 1.0 and share nothing with the libyang models. *)
From LY Require Import Base Utf8 XmlText JsonText StdText StdTextP.
Local Open Scope N_scope.

(* JSON: for every valid UTF-8 string without NUL (the RFC 3629 encoding of any sequence of
   non-zero Unicode scalar values — control characters, noncharacters, all planes included) the
   token json_print_string() writes is, for an RFC 8259 reader, exactly that string. No other
   hypothesis is needed. *)
Theorem C12_json_string_std :
  forall s, utf8_nonul s -> std_json_string (json_esc s) = Some s.
Proof. exact json_string_std_proof. Qed.
Print Assumptions C12_json_string_std.

(* the NUL exclusion cannot be dropped (a C string ends at its first NUL byte) *)
Theorem C12_json_string_std_nul_refuted :
  exists cps, forallb is_scalar cps = true /\
    std_json_string (json_esc (flat_map utf8_encode cps)) <> Some (flat_map utf8_encode cps).
Proof. exact json_string_std_nul_refuted. Qed.
Print Assumptions C12_json_string_std_nul_refuted.

(* XML element content: for every string of XML characters (the UTF-8 encoding of any sequence of
   code points matching production [2] Char - CR, TAB, LF included) a conformant XML 1.0 processor
   (strict UTF-8 decoding, Char check, references, end-of-line handling 2.11) reports exactly the
   payload from what lyxml_dump_text() writes. No hypothesis about CR is needed any more: the
   printer of the current tree writes a CR as the reference &#xD; (commit 6fdbff2). *)
Theorem C12_xml_text_std :
  forall cps, xml_chars cps ->
    std_xml_text false (xml_esc false (flat_map utf8_encode cps)) = Some (flat_map utf8_encode cps).
Proof. exact xml_content_std_proof. Qed.
Print Assumptions C12_xml_text_std.

(* ... and the same in attribute values, where the processor also applies attribute-value
   normalisation (3.3.3): the printer now writes TAB and LF as &#x9; and &#xA; there (commit
   47fa563), so no hypothesis about TAB, LF or CR is needed *)
Theorem C12_xml_attr_std :
  forall cps, xml_chars cps ->
    std_xml_text true (xml_esc true (flat_map utf8_encode cps)) = Some (flat_map utf8_encode cps).
Proof. exact xml_attr_std_proof. Qed.
Print Assumptions C12_xml_attr_std.

(* the hypothesis [xml_chars] cannot be dropped: a character outside Char (U+0001 here) cannot be
   written in XML 1.0 at all; lyxml_dump_text() writes the byte raw, which is not well-formed.
   libyang's XML lexer refuses such characters as well, they can only enter through another format
   or the API. *)
Theorem C12_xml_text_std_nonchar_refuted :
  exists cps, forallb is_scalar cps = true /\
    std_xml_text false (xml_esc false (flat_map utf8_encode cps)) = None.
Proof. exact xml_text_std_nonchar_refuted_proof. Qed.
Print Assumptions C12_xml_text_std_nonchar_refuted.

(* finding on the reader side (outside C12 proper, which is about printed output): lyjson_string()
   and the RFC 8259 reader disagree in both directions — it rejects the valid tokens \b and
   \uD83D\uDE00 (a surrogate pair), and accepts \uZZZZ (as U+3333: the four characters after \u are
   not checked to be hex digits) *)
Theorem C12_json_lexer_std_refuted :
  (exists t v, std_json_string t = Some v /\ is_ok (json_quoted t) = false) /\
  (exists t, std_json_string t = None /\ is_ok (json_quoted t) = true) /\
  std_json_string [34; 92; 98; 34] = Some [8] /\ json_quoted [34; 92; 98; 34] = Err E_CHARVAL /\
  std_json_string [34; 92; 117; 68; 56; 51; 68; 92; 117; 68; 69; 48; 48; 34] = Some [240; 159; 152; 128] /\
  json_quoted [34; 92; 117; 68; 56; 51; 68; 92; 117; 68; 69; 48; 48; 34] = Err E_CHARVAL /\
  std_json_string [34; 92; 117; 90; 90; 90; 90; 34] = None /\
  json_quoted [34; 92; 117; 90; 90; 90; 90; 34] = Ok ([227; 140; 179], []).
Proof. exact json_lexer_std_refuted_proof. Qed.
Print Assumptions C12_json_lexer_std_refuted.

(* the hypotheses are satisfiable by non-trivial values: every JSON escape class, all C0
   controls classes, DEL, noncharacters, 2-, 3-, 4-byte characters *)
Example C12_json_string_std_example :
  let cps := [97; 34; 92; 47; 13; 9; 10; 1; 8; 12; 31; 127; 128; 233; 8364; 65534; 65535; 128512; 1114111] in
  forallb valid_cp cps = true /\
  std_json_string (json_esc (flat_map utf8_encode cps)) = Some (flat_map utf8_encode cps).
Proof. exact json_string_std_example. Qed.

(* CR, TAB, LF (alone, paired, leading, trailing), every escape class, the CDATA-section-close
   sequence, DEL, 2-, 3- and 4-byte characters - as content and as attribute value *)
Example C12_xml_text_std_example :
  let cps := [13; 97; 38; 60; 62; 34; 39; 9; 10; 13; 10; 13; 13; 32; 93; 93; 62; 233; 8364; 128512; 127; 65533; 10; 9; 13] in
  xml_chars cps /\
  std_xml_text false (xml_esc false (flat_map utf8_encode cps)) = Some (flat_map utf8_encode cps) /\
  std_xml_text true (xml_esc true (flat_map utf8_encode cps)) = Some (flat_map utf8_encode cps).
Proof. exact xml_text_std_example. Qed.

(* the former findings xml-cr / xml-attr-ws as positive instances: written raw (first of each pair)
   the processor reports something else, as printed now it reports the payload *)
Example C12_xml_text_std_cr_tab_lf_example :
  xml_esc false [120; 13; 121] = [120; 38; 35; 120; 68; 59; 121] /\
  std_xml_text false [120; 13; 121] = Some [120; 10; 121] /\
  std_xml_text false (xml_esc false [120; 13; 121]) = Some [120; 13; 121] /\
  std_xml_text false (xml_esc false [120; 13; 10; 121]) = Some [120; 13; 10; 121] /\
  xml_esc true [97; 9; 98; 10; 99; 13; 10] = [97; 38;35;120;57;59; 98; 38;35;120;65;59; 99; 38;35;120;68;59; 38;35;120;65;59] /\
  std_xml_text true [97; 9; 98; 10; 99; 13; 10] = Some [97; 32; 98; 32; 99; 32] /\
  std_xml_text true (xml_esc true [97; 9; 98; 10; 99; 13; 10]) = Some [97; 9; 98; 10; 99; 13; 10] /\
  std_xml_text false (xml_esc false [97; 9; 98; 10; 99]) = Some [97; 9; 98; 10; 99].
Proof. exact xml_text_std_cr_tab_lf_example. Qed.
