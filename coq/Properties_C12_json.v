(* Properties_C12_json.v — property C12 (printed XML/JSON are standard-conformant), string/text
   level: theorem statements only. The readers of StdText.v are written from RFC 8259, RFC 3629
   and XML 1.0 and share nothing with the libyang models. *)
From LY Require Import Base Utf8 XmlText JsonText StdText StdTextP.
Local Open Scope N_scope.

(* JSON: for every valid UTF-8 string without NUL (the RFC 3629 encoding of any sequence of
   non-zero Unicode scalar values — control characters, noncharacters, all planes included) the
   token json_print_string() writes is, for an RFC 8259 reader, exactly that string. No other
   hypothesis is needed. *)
Theorem C12_json_string_std :
  forall s, utf8_nonul s -> std_json_string (json_esc s) = Some s.
Proof. exact json_string_std_proof. Qed.
Print Assumptions C12_json_string_std.

(* the NUL exclusion cannot be dropped (a C string ends at its first NUL byte) *)
Theorem C12_json_string_std_nul_refuted :
  exists cps, forallb is_scalar cps = true /\
    std_json_string (json_esc (flat_map utf8_encode cps)) <> Some (flat_map utf8_encode cps).
Proof. exact json_string_std_nul_refuted. Qed.
Print Assumptions C12_json_string_std_nul_refuted.

(* XML element content: a conformant processor reports the payload unchanged provided the
   payload has no CR byte ... *)
Theorem C12_xml_text_std :
  forall s, Forall (fun b => b <> 13) s -> std_xml_text false (xml_esc false s) = Some s.
Proof. exact xml_content_std_proof. Qed.
Print Assumptions C12_xml_text_std.

(* ... and in attribute values provided it has no TAB, LF or CR byte *)
Theorem C12_xml_attr_std :
  forall s, Forall (fun b => b <> 9 /\ b <> 10 /\ b <> 13) s -> std_xml_text true (xml_esc true s) = Some s.
Proof. exact xml_attr_std_proof. Qed.
Print Assumptions C12_xml_attr_std.

(* defect (tag xml-cr): lyxml_dump_text() writes CR raw; the text is well-formed but a
   conformant processor reports something else (x CR y is reported as x LF y) *)
Theorem C12_xml_text_std_cr_refuted :
  exists s, std_xml_text false (xml_esc false s) <> Some s /\
            exists s', std_xml_text false (xml_esc false s) = Some s'.
Proof. exact xml_text_std_cr_refuted_proof. Qed.
Print Assumptions C12_xml_text_std_cr_refuted.

(* defect (tag xml-attr-ws): TAB and LF (and CR LF) in attribute values are written raw and are
   reported as a space; the witness has no CR, so the content hypothesis does not suffice *)
Theorem C12_xml_attr_ws_refuted :
  (exists s, Forall (fun b => b <> 13) s /\ std_xml_text true (xml_esc true s) <> Some s) /\
  std_xml_text true (xml_esc true [97; 9; 98]) = Some [97; 32; 98] /\
  std_xml_text true (xml_esc true [97; 10; 98]) = Some [97; 32; 98] /\
  std_xml_text true (xml_esc true [97; 13; 10; 98]) = Some [97; 32; 98].
Proof. exact xml_attr_ws_refuted_proof. Qed.
Print Assumptions C12_xml_attr_ws_refuted.

(* finding on the reader side (outside C12 proper, which is about printed output): lyjson_string()
   and the RFC 8259 reader disagree in both directions — it rejects the valid tokens \b and
   \uD83D\uDE00 (a surrogate pair), and accepts \uZZZZ (as U+3333: the four characters after \u are
   not checked to be hex digits) *)
Theorem C12_json_lexer_std_refuted :
  (exists t v, std_json_string t = Some v /\ is_ok (json_quoted t) = false) /\
  (exists t, std_json_string t = None /\ is_ok (json_quoted t) = true) /\
  std_json_string [34; 92; 98; 34] = Some [8] /\ json_quoted [34; 92; 98; 34] = Err E_CHARVAL /\
  std_json_string [34; 92; 117; 68; 56; 51; 68; 92; 117; 68; 69; 48; 48; 34] = Some [240; 159; 152; 128] /\
  json_quoted [34; 92; 117; 68; 56; 51; 68; 92; 117; 68; 69; 48; 48; 34] = Err E_CHARVAL /\
  std_json_string [34; 92; 117; 90; 90; 90; 90; 34] = None /\
  json_quoted [34; 92; 117; 90; 90; 90; 90; 34] = Ok ([227; 140; 179], []).
Proof. exact json_lexer_std_refuted_proof. Qed.
Print Assumptions C12_json_lexer_std_refuted.

(* the hypotheses are satisfiable by non-trivial values: every JSON escape class, all C0
   controls classes, DEL, noncharacters, 2-, 3-, 4-byte characters *)
Example C12_json_string_std_example :
  let cps := [97; 34; 92; 47; 13; 9; 10; 1; 8; 12; 31; 127; 128; 233; 8364; 65534; 65535; 128512; 1114111] in
  forallb valid_cp cps = true /\
  std_json_string (json_esc (flat_map utf8_encode cps)) = Some (flat_map utf8_encode cps).
Proof. exact json_string_std_example. Qed.

Example C12_xml_text_std_example :
  let s := [97; 38; 60; 62; 34; 39; 9; 10; 32; 93; 93; 62; 195; 169; 240; 159; 152; 128; 1; 127] in
  xml_std_safe false s /\ std_xml_text false (xml_esc false s) = Some s /\
  let a := [97; 38; 60; 62; 34; 39; 32; 93; 93; 62; 195; 169] in
  xml_std_safe true a /\ std_xml_text true (xml_esc true a) = Some a.
Proof. exact xml_text_std_example. Qed.
