(* Properties_C15_pathmodel.v -- property C15 (a node's path identifies that node, and paths create what they name):
   the whole round trip on the model coq/PathModel.v of lyd_path() / ly_path_parse() / ly_path_compile() /
   ly_path_eval_partial() / lyd_new_path(). Theorem statements only; proofs in PathModelLexP.v and PathModelP.v.

   Common hypotheses, all of them boolean predicates that every generated tree is checked to satisfy (query W of the
   correspondence component pathmodel):
     swf S        the compiled schema: names are identifiers; a list with keys has at least one, its keys lead its
                  children, belong to its module and have different names; a key-less list has no LYS_CONFIG_W; key leaves
                  occur nowhere else; terms have no children
     dwf S t      the data tree: every node is an instance of a schema child of its parent's schema node with the same
                  type and flags; inner nodes have no value, terms the CANONICAL value of their type (string: valid UTF-8; int8..uint64,
                  boolean, enumeration: PathModel.canon); a list instance starts with its
                  keys and has no other key leaf; among siblings, instances of key-less lists and state leaf-lists are
                  contiguous, every other node has no earlier sibling with the same identity (schema node; + key values;
                  + value for configuration leaf-lists); fewer than 2^31 siblings
     quotes_ok t  no key or configuration leaf-list value holds both quote characters - the known defect refuted in
                  Properties_C15_ytext.v and, at path level, in C15_pathmodel_both_quotes_refuted below *)
From LY Require Import Base Utf8 PathQuote PathModel PathModelLexP PathModelP.
From Coq Require Import String.
From LY Require IntLex.
Local Open Scope N_scope.

(* For every well-formed tree t over schema S and every node x of it (position p = child indices from the top level):
   lyd_path() prints a path bs; the tokenizer and ly_path_parse() accept it (sp); ly_path_compile() accepts it with
   LY_PATH_TARGET_SINGLE (lyd_find_path) and with LY_PATH_TARGET_MANY (lyd_new_path) and yields the same compiled path cp;
   ly_path_eval_partial() of cp on t finds a node, completely, and that node is the one at position p - not another. *)
Theorem C15_pathmodel_roundtrip_stages :
  forall S t p x,
    swf S = true -> dwf S t = true -> quotes_ok t = true -> node_at t p = Some x ->
    exists bs sp cp,
      path_of t p = Some bs /\ parse_path bs = Ok sp /\
      compile_segs false S None sp = Ok cp /\ compile_segs true S None sp = Ok cp /\
      eval_segs cp t = EFound p.
Proof. exact roundtrip_stages. Qed.
Print Assumptions C15_pathmodel_roundtrip_stages.

(* The same as one call: lyd_find_path(t, lyd_path(x)) returns LY_SUCCESS and exactly x. *)
Theorem C15_pathmodel_find_own :
  forall S t p x,
    swf S = true -> dwf S t = true -> quotes_ok t = true -> node_at t p = Some x ->
    exists bs, path_of t p = Some bs /\ find_path S t bs = FRes (EFound p).
Proof. exact find_own. Qed.
Print Assumptions C15_pathmodel_find_own.

(* lyd_new_path(NULL, lyd_path(x), value of x) on the EMPTY tree creates, attached at the top level, exactly the spine of
   x: x and its ancestors, each list instance with its keys (values from the predicates), nothing else.
   About top_first: when the top-level ancestor is addressed by position (key-less list, state leaf-list) it is the
   first instance - lyd_new_path() answers LY_EINVAL for position N > 1 of the first node it creates
   (C15_pathmodel_top_position_refuted); positions below the top level are not restricted. *)
Theorem C15_pathmodel_new_empty :
  forall S t p x,
    swf S = true -> dwf S t = true -> quotes_ok t = true -> node_at t p = Some x -> top_first t p ->
    exists bs, path_of t p = Some bs /\ new_path S [] bs (d_v x) = NCreated None (spine t p).
Proof. exact new_path_empty. Qed.
Print Assumptions C15_pathmodel_new_empty.

(* lyd_new_path(t, lyd_path(x), any value) on the tree itself: LY_EEXIST, nothing is created - for EVERY node, also those
   addressed by position. The only exception is a node with the LYD_DEFAULT flag, in a parsed tree an empty non-presence
   container: the call succeeds, creates nothing and changes nothing. *)
Theorem C15_pathmodel_new_exists :
  forall S t p x v,
    swf S = true -> dwf S t = true -> quotes_ok t = true -> node_at t p = Some x ->
    exists bs, path_of t p = Some bs /\
               new_path S t bs v = if is_dflt x then NCreated None [] else NErr E_EXIST.
Proof. exact new_path_exists. Qed.
Print Assumptions C15_pathmodel_new_exists.

(* ---- typed keys, any lexical form of a value in the predicate ----
   [var] spells the value of every key and configuration leaf-list node; var_ok var t: each spelling is a lexical form
   of the stored canonical value (canon type (var c) = Some (value of c)) without both quote characters; path_var var t p is
   the path of the node at p written with these spellings (var = d_v gives lyd_path()'s own output, path_of). The compiled
   path is the same as for the printed path (the predicates store canonical values), so: *)

(* lyd_find_path() with any admissible spelling - [k='+07'], [k=' 7 '] for an int8 key whose canonical value is 7 - returns
   exactly the node, every stage visible. *)
Theorem C15_pathmodel_roundtrip_stages_variant :
  forall var S t p x,
    swf S = true -> dwf S t = true -> var_ok var t = true -> node_at t p = Some x ->
    exists sp cp,
      parse_path (path_var var t p) = Ok sp /\
      compile_segs false S None sp = Ok cp /\ compile_segs true S None sp = Ok cp /\
      eval_segs cp t = EFound p.
Proof. exact roundtrip_stages_var. Qed.
Print Assumptions C15_pathmodel_roundtrip_stages_variant.

Theorem C15_pathmodel_find_variant :
  forall var S t p x,
    swf S = true -> dwf S t = true -> var_ok var t = true -> node_at t p = Some x ->
    find_path S t (path_var var t p) = FRes (EFound p).
Proof. exact find_var. Qed.
Print Assumptions C15_pathmodel_find_variant.

(* lyd_new_path() on the empty tree with any admissible spelling in the predicates and any lexical form w of the node's
   own value (val_ok x w: canon type w = Some (value of x); anydata: the empty value): the created chain is the spine with
   the CANONICAL values. *)
Theorem C15_pathmodel_new_empty_variant :
  forall var S t p x w,
    swf S = true -> dwf S t = true -> var_ok var t = true -> node_at t p = Some x -> top_first t p -> val_ok x w ->
    new_path S [] (path_var var t p) w = NCreated None (spine t p).
Proof. exact new_path_empty_var. Qed.
Print Assumptions C15_pathmodel_new_empty_variant.

(* ... and on the tree itself: LY_EEXIST whatever the spelling. *)
Theorem C15_pathmodel_new_exists_variant :
  forall var S t p x v,
    swf S = true -> dwf S t = true -> var_ok var t = true -> node_at t p = Some x ->
    new_path S t (path_var var t p) v = if is_dflt x then NCreated None [] else NErr E_EXIST.
Proof. exact new_path_exists_var. Qed.
Print Assumptions C15_pathmodel_new_exists_variant.

(* the printed path is the variant var = d_v, and it is admissible for every well-formed tree with quotes_ok *)
Theorem C15_pathmodel_printed_is_variant :
  forall S t p x,
    dwf S t = true -> quotes_ok t = true -> node_at t p = Some x ->
    var_ok d_v t = true /\ path_of t p = Some (path_var d_v t p).
Proof. intros S t p x Hd Hq Hn. split; [exact (own_var_ok S t Hd Hq)|exact (path_of_var t p x Hn)]. Qed.
Print Assumptions C15_pathmodel_printed_is_variant.

(* ---- lyd_change_term() of a key / leaf-list / leaf value, then the path ----
   change_term t p w = Some t': the term node at p now holds canon type w (the canonical form of the text w); the identity
   of the instance follows the current values (the model has no separate hash; seeded change C15-8 left the hash stale).
   Whenever the changed tree is well-formed again - dwf S t', decidable: in particular the new key tuple / leaf-list value is
   not the one of a sibling - and quotes_ok t', EVERY node of t' (the changed node, the list instance it is a key of,
   everything below it) is found by its NEW printed path, exactly it, and lyd_new_path() with that path reports LY_EEXIST.
   Not modelled: the move of a system-ordered instance to its sorted place (t' keeps the sibling order of t). *)
Theorem C15_pathmodel_change_term_paths :
  forall S t p w t',
    swf S = true -> change_term t p w = Some t' -> dwf S t' = true -> quotes_ok t' = true ->
    (exists x cw, node_at t p = Some x /\ canon (kind_ty (d_k x)) w = Some cw /\
                  node_at t' p = Some (DN (d_m x) (d_n x) (d_k x) cw (d_ch x)) /\
                  is_dflt (DN (d_m x) (d_n x) (d_k x) cw (d_ch x)) = false) /\
    (forall q y, node_at t' q = Some y ->
       exists bs, path_of t' q = Some bs /\ find_path S t' bs = FRes (EFound q) /\
                  forall v, new_path S t' bs v = if is_dflt y then NCreated None [] else NErr E_EXIST).
Proof. exact change_term_paths. Qed.
Print Assumptions C15_pathmodel_change_term_paths.

(* Regression example for the class of seeded change C15-8: in the example tree a key of a two-key list instance, an int8
   key given as blank +09 blank and a configuration leaf-list value are changed; the changed trees are well-formed and all
   their nodes satisfy the conclusions above by computation; the path of the uint8 leaf below the changed int8 key reads
   n='9'; the text 128 is refused by int8; a change that makes two instances equal leaves the hypotheses (dwf false). *)
Example C15_pathmodel_change_term_example :
  changed_ok [0; 1; 1]%nat (sb "new ]'v") = true /\
  changed_ok [0; 2; 0]%nat (sb " +09 ") = true /\
  changed_ok [0; 0; 3; 2]%nat (sb "z") = true /\
  (match change_term ex_t [0; 2; 0]%nat (sb " +09 ") with
   | Some t' => path_of t' [0; 2; 3]%nat
   | None => None
   end) = Some (sb "/m1:c/tl[n='9'][b='true'][e='a b']/u") /\
  change_term ex_t [0; 2; 0]%nat (sb "128") = None /\
  (match change_term ex_t [0; 1; 1]%nat (sb "[x]'y/") with Some t' => dwf ex_S t' | None => true end) = false.
Proof. exact change_term_example. Qed.

(* The assumption quotes_ok cannot be dropped (known finding path-both-quotes): a well-formed tree whose list key holds
   a, single quote, b, double quote, c - the printed path of the leaf v below that list instance is rejected by the parser,
   so the search fails and so does the creation in an empty tree. *)
Theorem C15_pathmodel_both_quotes_refuted :
  exists S t p bs v,
    swf S = true /\ dwf S t = true /\ quotes_ok t = false /\
    path_of t p = Some bs /\ find_path S t bs = FErr E_VALID /\ new_path S [] bs v = NErr E_VALID.
Proof.
  exists ex_S, ex_bad_t, [0; 0; 2]%nat, (sb "/m1:c/l[k1=""a'b""c""][k.2='']/v"), (sb "1").
  destruct both_quotes_path_refuted as (H1 & H2 & H3 & H4 & H5 & H6). auto 10.
Qed.
Print Assumptions C15_pathmodel_both_quotes_refuted.

(* The assumption top_first cannot be dropped: the second instance of a top-level key-less list prints as /m1:tk[2], and
   creating that path in an empty tree is refused with LY_EINVAL. *)
Theorem C15_pathmodel_top_position_refuted :
  exists S t p bs,
    swf S = true /\ dwf S t = true /\ quotes_ok t = true /\
    path_of t p = Some bs /\ ~ top_first t p /\ new_path S [] bs [] = NErr E_INVAL.
Proof.
  exists ex_S, ex_t, [3]%nat, (sb "/m1:tk[2]").
  destruct ex_hyps as (H1 & H2 & H3 & _). destruct new_path_top_position_refuted as (H4 & H5 & H6). auto 10.
Qed.
Print Assumptions C15_pathmodel_top_position_refuted.

(* The hypotheses are met by a non-trivial tree (40 nodes; a list tl with an int8, a boolean and an enumeration key and a
   uint8 leaf; non-canonical spellings +007, blank -07 blank, +0200 are shown to find / create the canonical node): two modules with equal local names (an augmented leaf named
   like a key, an augmented container named like its parent, a second top-level c), a list with two keys whose values hold
   blanks, brackets, a slash and either quote, a nested list, leaf-lists with a backslash and the empty value, a multi-byte
   key, key-less list instances addressed by position, duplicate state leaf-list values; for each of its 40 nodes the
   conclusions of C15_pathmodel_find_own and C15_pathmodel_new_exists hold by computation, and some printed paths are
   shown. *)
Example C15_pathmodel_example :
  swf ex_S = true /\ dwf ex_S ex_t = true /\ quotes_ok ex_t = true /\
  List.length (all_pos ex_t O) = 40%nat /\ forallb (own_ok ex_S ex_t) (all_pos ex_t O) = true /\
  path_of ex_t [0; 0; 3; 2]%nat = Some (sb "/m1:c/l[k1='a b'][k.2=""[x]'y/""]/inner[id='i""1']/ll[.='p/q\']") /\
  path_of ex_t [0; 0; 5]%nat = Some (sb "/m1:c/l[k1='a b'][k.2=""[x]'y/""]/m2:k1") /\
  path_of ex_t [0; 4]%nat = Some (sb "/m1:c/m2:c") /\
  path_of ex_t [0; 2; 3]%nat = Some (sb "/m1:c/tl[n='-7'][b='true'][e='a b']/u") /\
  canon (TInt IntLex.I8) (sb " -07 ") = Some (sb "-7") /\ canon (TInt IntLex.I8) (sb "+007") = Some (sb "7") /\
  canon (TInt IntLex.I8) (sb "128") = None /\ canon TBool (sb "True") = None /\
  find_path ex_S ex_t (sb "/m1:c/tl[n=' -07 '][b='true'][e='a b']/u") = FRes (EFound [0; 2; 3]%nat) /\
  find_path ex_S ex_t (sb "/m1:c/tl[e='up'][n=""+007""][b='false']") = FRes (EFound [0; 3]%nat) /\
  new_path ex_S [] (sb "/m1:c/tl[n='-007'][b='true'][e='a b']/u") (sb "+0200") = NCreated None (spine ex_t [0; 2; 3]%nat) /\
  path_of ex_t [1; 2; 0]%nat = Some (sb "/m1:st/kl[3]/x") /\
  path_of ex_t [1; 4]%nat = Some (sb "/m1:st/sl[2]") /\
  new_path ex_S [] (sb "/m1:st/kl[3]/x") (sb "2") = NCreated None (spine ex_t [1; 2; 0]%nat).
Proof. exact ex_hyps. Qed.
