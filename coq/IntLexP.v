(* IntLexP.v — proofs about IntLex.v: the integer store accepts exactly the stated language and
   yields the written number, canonical form, equality and ordering. *)
From LY Require Import Base TypesMisc TypesMiscP IntLex.
From Coq Require Import ZifyBool ZifyNat ZifyN.
Local Open Scope N_scope.

(* ---------- decimal strings <-> numbers ---------- *)
Lemma dec_to_N_acc_app l1 l2 a : dec_to_N_acc (l1 ++ l2) a = dec_to_N_acc l2 (dec_to_N_acc l1 a).
Proof. revert a; induction l1 as [|d l1 IH]; intro a; cbn [app dec_to_N_acc]; [reflexivity|apply IH]. Qed.

Lemma dec_to_N_acc_mono l a : a <= dec_to_N_acc l a.
Proof.
  revert a; induction l as [|d l IH]; intro a; cbn [dec_to_N_acc]; [lia|].
  specialize (IH (10 * a + (d - 48))). lia.
Qed.

Lemma dec_to_N_acc_mono2 l a b : a <= b -> dec_to_N_acc l a <= dec_to_N_acc l b.
Proof.
  revert a b; induction l as [|d l IH]; intros a b H; cbn [dec_to_N_acc]; [exact H|].
  apply IH. lia.
Qed.

(* N_digits_fuel with enough fuel: digits of n, most significant first *)
Lemma N_digits_fuel_spec f : forall n acc,
  n <> 0 -> n < 2 ^ N.of_nat f ->
  exists c r, N_digits_fuel f n acc = (c :: r) ++ acc /\
              forallb is_digit (c :: r) = true /\ c <> 48 /\ dec_to_N (c :: r) = n.
Proof.
  induction f as [|f IH]; intros n acc Hn Hlt.
  - cbn in Hlt. lia.
  - cbn [N_digits_fuel].
    assert (Hd : is_digit (48 + n mod 10) = true).
    { unfold is_digit. pose proof (N.mod_upper_bound n 10). lia. }
    destruct (n / 10 =? 0) eqn:Hq.
    + exists (48 + n mod 10), []. repeat split.
      * cbn [forallb]. rewrite Hd. reflexivity.
      * pose proof (N.div_mod n 10). lia.
      * unfold dec_to_N. cbn [dec_to_N_acc]. pose proof (N.div_mod n 10). lia.
    + assert (Hq1 : n / 10 <> 0) by lia.
      assert (Hq2 : n / 10 < 2 ^ N.of_nat f).
      { apply N.div_lt_upper_bound; [lia|].
        rewrite Nat2N.inj_succ, N.pow_succ_r' in Hlt. lia. }
      destruct (IH (n / 10) ((48 + n mod 10) :: acc) Hq1 Hq2) as [c [r [Heq [Hdig [Hc Hval]]]]].
      exists c, (r ++ [48 + n mod 10]). repeat split.
      * rewrite Heq. cbn [app]. rewrite <- app_assoc. reflexivity.
      * change (c :: r ++ [48 + n mod 10]) with ((c :: r) ++ [48 + n mod 10]).
        rewrite forallb_app, Hdig. cbn [forallb]. rewrite Hd. reflexivity.
      * exact Hc.
      * change (c :: r ++ [48 + n mod 10]) with ((c :: r) ++ [48 + n mod 10]).
        unfold dec_to_N in *. rewrite dec_to_N_acc_app, Hval. cbn [dec_to_N_acc].
        pose proof (N.div_mod n 10). lia.
Qed.

Lemma N_to_dec_0 : N_to_dec 0 = [48].
Proof. reflexivity. Qed.

Lemma N_to_dec_pos n :
  n <> 0 ->
  exists c r, N_to_dec n = c :: r /\ forallb is_digit (c :: r) = true /\ c <> 48 /\ dec_to_N (c :: r) = n.
Proof.
  intro Hn. unfold N_to_dec.
  assert (Hlt : n < 2 ^ N.of_nat (S (N.to_nat (N.size n)))).
  { rewrite Nat2N.inj_succ, N2Nat.id, N.pow_succ_r'.
    pose proof (N.size_gt n). lia. }
  destruct (N_digits_fuel_spec _ n [] Hn Hlt) as [c [r [Heq H]]].
  exists c, r. rewrite Heq, app_nil_r. split; [reflexivity|exact H].
Qed.

Lemma N_to_dec_digits n : forallb is_digit (N_to_dec n) = true.
Proof.
  destruct (N.eq_dec n 0) as [-> | Hn]; [reflexivity|].
  destruct (N_to_dec_pos n Hn) as [c [r [-> [H _]]]]. exact H.
Qed.

Lemma N_to_dec_value n : dec_to_N (N_to_dec n) = n.
Proof.
  destruct (N.eq_dec n 0) as [-> | Hn]; [reflexivity|].
  destruct (N_to_dec_pos n Hn) as [c [r [-> [_ [_ H]]]]]. exact H.
Qed.

Lemma N_to_dec_nonempty n : N_to_dec n <> [].
Proof.
  destruct (N.eq_dec n 0) as [-> | Hn]; [discriminate|].
  destruct (N_to_dec_pos n Hn) as [c [r [-> _]]]. discriminate.
Qed.

Lemma N_to_dec_inj a b : N_to_dec a = N_to_dec b -> a = b.
Proof. intro H. rewrite <- (N_to_dec_value a), <- (N_to_dec_value b), H. reflexivity. Qed.

(* ---------- the overflow-detecting digit loop ---------- *)
Lemma CUTOFF_val : CUTOFF = 1844674407370955161. Proof. reflexivity. Qed.
Lemma CUTLIM_val : CUTLIM = 5. Proof. reflexivity. Qed.

Lemma acc_u64_sticky ds i : snd (acc_u64 ds i true) = true.
Proof. revert i; induction ds as [|d ds IH]; intro i; cbn [acc_u64]; [reflexivity|apply IH]. Qed.

(* the loop computes the unbounded value exactly when it fits 64 bits and raises the flag otherwise *)
Lemma acc_u64_spec ds : forall i,
  forallb is_digit ds = true -> i <= U64MAX ->
  let m := dec_to_N_acc ds i in
  (m <= U64MAX -> acc_u64 ds i false = (m, false)) /\
  (U64MAX < m -> snd (acc_u64 ds i false) = true).
Proof.
  induction ds as [|d ds IH]; intros i Hd Hi; cbn [dec_to_N_acc acc_u64] in *.
  - split; intro H; [reflexivity|lia].
  - apply andb_true_iff in Hd. destruct Hd as [Hd Hds].
    assert (Hc : d - 48 <= 9) by (unfold is_digit in Hd; lia).
    rewrite CUTOFF_val, CUTLIM_val.
    destruct ((1844674407370955161 <? i) || ((i =? 1844674407370955161) && (5 <? d - 48))) eqn:Hov.
    + assert (Hbig : U64MAX < 10 * i + (d - 48)) by (unfold U64MAX; lia).
      pose proof (dec_to_N_acc_mono ds (10 * i + (d - 48))) as Hm.
      split; intro H; [lia|apply acc_u64_sticky].
    + assert (Hfit : 10 * i + (d - 48) <= U64MAX) by (unfold U64MAX; lia).
      replace (i * 10 + (d - 48)) with (10 * i + (d - 48)) by lia.
      exact (IH (10 * i + (d - 48)) Hds Hfit).
Qed.

(* ---------- strndup ---------- *)
Lemma cstr_split s :
  exists tl, s = cstr s ++ tl /\ nul_tail tl.
Proof.
  induction s as [|c s IH]; cbn [cstr].
  - exists []. split; [reflexivity|left; reflexivity].
  - destruct (c =? 0) eqn:Hc.
    + exists (c :: s). split; [reflexivity|]. right. exists s. f_equal. lia.
    + destruct IH as [tl [Hs Htl]]. exists tl. split; [|exact Htl].
      cbn [app]. rewrite <- Hs. reflexivity.
Qed.

Definition no_nul (a : bytes) : Prop := forallb (fun c => negb (c =? 0)) a = true.

Lemma cstr_app a tl : no_nul a -> nul_tail tl -> cstr (a ++ tl) = a.
Proof.
  unfold no_nul. induction a as [|c a IH]; cbn [forallb app]; intros Ha Htl.
  - destruct Htl as [-> | [j ->]]; reflexivity.
  - apply andb_true_iff in Ha. destruct Ha as [Hc Ha]. cbn [cstr].
    destruct (c =? 0); [discriminate|]. rewrite (IH Ha Htl). reflexivity.
Qed.

Lemma no_nul_app a b : no_nul a -> no_nul b -> no_nul (a ++ b).
Proof. unfold no_nul. intros Ha Hb. rewrite forallb_app, Ha, Hb. reflexivity. Qed.

Lemma no_nul_digits ds : all_digit ds -> no_nul ds.
Proof.
  unfold all_digit, no_nul. induction ds as [|d ds IH]; cbn [forallb]; intro H; [reflexivity|].
  apply andb_true_iff in H. destruct H as [Hd Hds]. rewrite (IH Hds).
  unfold is_digit in Hd. lia.
Qed.

Lemma no_nul_spaces ws : all_space ws -> no_nul ws.
Proof.
  unfold all_space, no_nul. induction ws as [|d ds IH]; cbn [forallb]; intro H; [reflexivity|].
  apply andb_true_iff in H. destruct H as [Hd Hds]. rewrite (IH Hds).
  unfold is_space in Hd. lia.
Qed.

Lemma no_nul_sign sg : is_sign sg -> no_nul sg.
Proof. intros [-> | [-> | ->]]; reflexivity. Qed.

(* ---------- sign ---------- *)
Lemma take_sign_split x :
  exists sg, is_sign sg /\ x = sg ++ snd (take_sign x) /\ fst (take_sign x) = beq_bytes sg [45].
Proof.
  destruct x as [|c t]; cbn [take_sign].
  - exists []. unfold is_sign. cbn. auto.
  - destruct (c =? 45) eqn:H45.
    + exists [45]. unfold is_sign. cbn [fst snd app]. repeat split; auto. f_equal. lia.
    + destruct (c =? 43) eqn:H43.
      * exists [43]. unfold is_sign. cbn [fst snd app]. repeat split; auto. f_equal. lia.
      * exists []. unfold is_sign. cbn [fst snd app]. auto.
Qed.

Lemma take_sign_app sg d r :
  is_sign sg -> is_digit d = true -> take_sign (sg ++ d :: r) = (beq_bytes sg [45], d :: r).
Proof.
  intros [-> | [-> | ->]] Hd; cbn [app take_sign]; try reflexivity.
  unfold is_digit in Hd.
  destruct (d =? 45) eqn:H45; [lia|]. destruct (d =? 43) eqn:H43; [lia|]. reflexivity.
Qed.

(* the first byte of sign ++ digits *)
Lemma core_head sg ds :
  is_sign sg -> ds <> [] -> all_digit ds ->
  exists c0 r0, sg ++ ds = c0 :: r0 /\ is_space c0 = false /\ c0 <> 0 /\
                (c0 =? 45) = beq_bytes sg [45].
Proof.
  intros Hsg Hne Hds. destruct ds as [|d ds]; [congruence|].
  unfold all_digit in Hds. cbn [forallb] in Hds. apply andb_true_iff in Hds. destruct Hds as [Hd _].
  pose proof (digit_not_space d Hd) as Hsp. unfold is_digit in Hd.
  destruct Hsg as [-> | [-> | ->]]; cbn [app].
  - exists d, ds. repeat split; auto; cbn; lia.
  - exists 43, (d :: ds). repeat split; auto; lia.
  - exists 45, (d :: ds). repeat split; auto; lia.
Qed.

(* ---------- scan_num on  sign digits spaces  ---------- *)
Lemma scan_num_core sg ds ws2 :
  is_sign sg -> ds <> [] -> all_digit ds -> all_space ws2 ->
  scan_num ((sg ++ ds) ++ ws2) = (beq_bytes sg [45], ds, ws2).
Proof.
  intros Hsg Hne Hds Hws. unfold scan_num.
  destruct (core_head sg ds Hsg Hne Hds) as [c0 [r0 [Hc [Hsp _]]]].
  rewrite Hc. cbn [app]. rewrite (skip_space_id c0 _ Hsp).
  change (c0 :: r0 ++ ws2) with ((c0 :: r0) ++ ws2). rewrite <- Hc, <- app_assoc.
  destruct ds as [|d ds']; [congruence|].
  assert (Hd : is_digit d = true).
  { unfold all_digit in Hds. cbn [forallb] in Hds. apply andb_true_iff in Hds. tauto. }
  change ((d :: ds') ++ ws2) with (d :: (ds' ++ ws2)).
  rewrite (take_sign_app sg d _ Hsg Hd).
  change (d :: ds' ++ ws2) with ((d :: ds') ++ ws2).
  rewrite span_digits_app; [reflexivity|exact Hds|].
  destruct ws2 as [|w ws2]; cbn [head_nondigit]; [exact I|].
  unfold all_space in Hws. cbn [forallb] in Hws. apply andb_true_iff in Hws.
  apply space_not_digit. tauto.
Qed.

(* what scan_num returns, on a text whose first byte is not white space *)
Lemma scan_num_split c0 r0 neg ds rest :
  is_space c0 = false ->
  scan_num (c0 :: r0) = (neg, ds, rest) ->
  exists sg, is_sign sg /\ c0 :: r0 = sg ++ ds ++ rest /\ neg = beq_bytes sg [45] /\
             all_digit ds /\ neg = (c0 =? 45).
Proof.
  intros Hsp H. unfold scan_num in H. rewrite (skip_space_id c0 r0 Hsp) in H.
  destruct (take_sign_split (c0 :: r0)) as [sg [Hsg [Hx Hneg]]].
  assert (Hneg2 : fst (take_sign (c0 :: r0)) = (c0 =? 45)).
  { cbn [take_sign]. destruct (c0 =? 45); [reflexivity|]. destruct (c0 =? 43); reflexivity. }
  destruct (take_sign (c0 :: r0)) as [ng s2]. cbn [fst snd] in *.
  pose proof (span_digits_split s2) as [Hs2 [Hdig _]].
  destruct (span_digits s2) as [ds' rest']. cbn [fst snd] in *.
  inversion H; subst. exists sg. repeat split; auto.
Qed.

(* ---------- lyplg_type_parse_int ---------- *)
Lemma I64MAX_val : I64MAX = 9223372036854775807. Proof. reflexivity. Qed.
Lemma U64MAX_val : U64MAX = 18446744073709551615. Proof. reflexivity. Qed.

Lemma all_space_app a b : all_space a -> all_space b -> all_space (a ++ b).
Proof. unfold all_space. intros Ha Hb. rewrite forallb_app, Ha, Hb. reflexivity. Qed.

Lemma plg_parse_int_ok s min max v :
  plg_parse_int s min max = Ok v -> ly_int_lex s v /\ (min <= v <= max)%Z.
Proof.
  unfold plg_parse_int. intro H.
  destruct (skip_space_split s) as [ws1 [Hs Hws1]].
  destruct (skip_space s) as [|c0 r0] eqn:Hsk; [discriminate|].
  pose proof (skip_space_head _ _ _ Hsk) as Hsp.
  destruct (c0 =? 0) eqn:Hc0; [discriminate|].
  unfold ly_parse_int in H. rewrite Hc0 in H.
  destruct (cstr_split (c0 :: r0)) as [tl [Hcs Htl]].
  cbn [cstr] in H, Hcs. rewrite Hc0 in H, Hcs.
  unfold strtoll10 in H.
  destruct (scan_num (c0 :: cstr r0)) as [[neg ds] rest] eqn:Hscan.
  destruct (scan_num_split _ _ _ _ _ Hsp Hscan) as [sg [Hsg [Hx [Hneg [Hdig _]]]]].
  destruct ds as [|d ds']; [discriminate|].
  pose proof (acc_u64_spec (d :: ds') 0 Hdig ltac:(unfold U64MAX; lia)) as [Hfit Hbig].
  fold (dec_to_N (d :: ds')) in Hfit, Hbig.
  destruct (acc_u64 (d :: ds') 0 false) as [i ovf] eqn:Hacc.
  destruct ovf; [cbn [orb] in H; discriminate|]. cbn [orb] in H.
  assert (Hi : i = dec_to_N (d :: ds')).
  { destruct (N.le_gt_cases (dec_to_N (d :: ds')) U64MAX) as [Hle|Hgt].
    - specialize (Hfit Hle). congruence.
    - specialize (Hbig Hgt). cbn [snd] in Hbig. discriminate. }
  destruct ((if neg then I64MAX + 1 else I64MAX) <? i) eqn:Hlim; [discriminate|].
  set (val := (if neg then (- Z.of_N i)%Z else Z.of_N i)) in H.
  destruct ((val <? min)%Z || (max <? val)%Z) eqn:Hrng; [discriminate|].
  destruct (skip_space rest) eqn:Hrest; [|discriminate].
  inversion H; subst v. clear H.
  split; [|lia].
  rewrite Hs, Hcs, Hx.
  replace (ws1 ++ (sg ++ (d :: ds') ++ rest) ++ tl)
    with (ws1 ++ (sg ++ d :: ds') ++ rest ++ tl)
    by (rewrite <- !app_assoc; reflexivity).
  replace val with (sign_val sg (dec_to_N (d :: ds'))).
  - apply LyInt; [exact Hws1|apply skip_space_nil; exact Hrest|exact Htl|].
    apply RfcInt; [exact Hsg|discriminate|exact Hdig].
  - unfold sign_val, val. rewrite <- Hneg, Hi. reflexivity.
Qed.

Lemma plg_parse_int_complete s min max v :
  (- Z.of_N I64MAX - 1 <= min)%Z -> (max <= Z.of_N I64MAX)%Z ->
  ly_int_lex s v -> (min <= v <= max)%Z -> plg_parse_int s min max = Ok v.
Proof.
  intros Hmin Hmax Hlex Hv.
  destruct Hlex as [ws1 core ws2 tl v Hws1 Hws2 Htl Hcore].
  destruct Hcore as [sg ds Hsg Hne Hds].
  unfold plg_parse_int.
  rewrite skip_space_app_ws by exact Hws1.
  destruct (core_head sg ds Hsg Hne Hds) as [c0 [r0 [Hc [Hsp [Hnz _]]]]].
  rewrite Hc. cbn [app]. rewrite (skip_space_id c0 _ Hsp).
  destruct (c0 =? 0) eqn:Hc0; [lia|].
  unfold ly_parse_int. rewrite Hc0.
  change (c0 :: r0 ++ ws2 ++ tl) with ((c0 :: r0) ++ ws2 ++ tl). rewrite <- Hc.
  rewrite app_assoc.
  rewrite cstr_app; [|apply no_nul_app; [apply no_nul_app; [apply no_nul_sign; exact Hsg|apply no_nul_digits; exact Hds]|apply no_nul_spaces; exact Hws2]|exact Htl].
  unfold strtoll10. rewrite (scan_num_core sg ds ws2 Hsg Hne Hds Hws2).
  destruct ds as [|d ds']; [congruence|].
  pose proof (acc_u64_spec (d :: ds') 0 Hds ltac:(unfold U64MAX; lia)) as [Hfit _].
  fold (dec_to_N (d :: ds')) in Hfit.
  set (m := dec_to_N (d :: ds')) in *.
  unfold sign_val in Hv |- *.
  rewrite I64MAX_val in *.
  assert (Hm : m <= U64MAX) by (unfold U64MAX; destruct (beq_bytes sg [45]); lia).
  rewrite (Hfit Hm). cbn [orb].
  destruct (beq_bytes sg [45]) eqn:Hneg.
  - destruct (9223372036854775807 + 1 <? m) eqn:Hlim; [lia|].
    destruct ((- Z.of_N m <? min)%Z || (max <? - Z.of_N m)%Z) eqn:Hr; [lia|].
    rewrite (skip_space_all ws2 Hws2). reflexivity.
  - destruct (9223372036854775807 <? m) eqn:Hlim; [lia|].
    destruct ((Z.of_N m <? min)%Z || (max <? Z.of_N m)%Z) eqn:Hr; [lia|].
    rewrite (skip_space_all ws2 Hws2). reflexivity.
Qed.

(* ---------- lyplg_type_parse_uint ---------- *)
Lemma plg_parse_uint_ok s max v :
  plg_parse_uint s max = Ok v -> ly_int_lex s v /\ (0 <= v <= max)%Z.
Proof.
  unfold plg_parse_uint. intro H.
  destruct (skip_space_split s) as [ws1 [Hs Hws1]].
  destruct (skip_space s) as [|c0 r0] eqn:Hsk; [discriminate|].
  pose proof (skip_space_head _ _ _ Hsk) as Hsp.
  destruct (c0 =? 0) eqn:Hc0; [discriminate|].
  unfold ly_parse_uint in H. rewrite Hc0 in H.
  destruct (cstr_split (c0 :: r0)) as [tl [Hcs Htl]].
  cbn [cstr] in H, Hcs. rewrite Hc0 in H, Hcs.
  unfold strtoull10 in H.
  destruct (scan_num (c0 :: cstr r0)) as [[neg ds] rest] eqn:Hscan.
  destruct (scan_num_split _ _ _ _ _ Hsp Hscan) as [sg [Hsg [Hx [Hneg [Hdig Hneg2]]]]].
  destruct ds as [|d ds']; [discriminate|].
  pose proof (acc_u64_spec (d :: ds') 0 Hdig ltac:(unfold U64MAX; lia)) as [Hfit Hbig].
  fold (dec_to_N (d :: ds')) in Hfit, Hbig.
  destruct (acc_u64 (d :: ds') 0 false) as [i ovf] eqn:Hacc.
  destruct ovf; [discriminate|].
  assert (Hi : i = dec_to_N (d :: ds') /\ i <= U64MAX).
  { destruct (N.le_gt_cases (dec_to_N (d :: ds')) U64MAX) as [Hle|Hgt].
    - specialize (Hfit Hle). split; congruence.
    - specialize (Hbig Hgt). cbn [snd] in Hbig. discriminate. }
  destruct Hi as [Hi Hile].
  set (u := (if neg then (U64MAX + 1 - i) mod (U64MAX + 1) else i)) in H.
  destruct ((max <? Z.of_N u)%Z || (negb (u =? 0) && (c0 =? 45))) eqn:Hrng; [discriminate|].
  destruct (skip_space rest) eqn:Hrest; [|discriminate].
  inversion H; subst v. clear H.
  assert (Hval : Z.of_N u = sign_val sg (dec_to_N (d :: ds'))).
  { unfold sign_val. rewrite <- Hneg, <- Hi. subst u. rewrite <- Hneg2 in Hrng.
    destruct neg; [|reflexivity].
    rewrite U64MAX_val in *.
    assert (Hz : (18446744073709551615 + 1 - i) mod (18446744073709551615 + 1) = 0) by lia.
    destruct (N.eq_dec i 0) as [-> | Hnz]; [reflexivity|].
    rewrite N.mod_small in Hz by lia. lia. }
  split; [|lia].
  rewrite Hs, Hcs, Hx, Hval.
  replace (ws1 ++ (sg ++ (d :: ds') ++ rest) ++ tl)
    with (ws1 ++ (sg ++ d :: ds') ++ rest ++ tl)
    by (rewrite <- !app_assoc; reflexivity).
  apply LyInt; [exact Hws1|apply skip_space_nil; exact Hrest|exact Htl|].
  apply RfcInt; [exact Hsg|discriminate|exact Hdig].
Qed.

Lemma plg_parse_uint_complete s max v :
  (max <= Z.of_N U64MAX)%Z ->
  ly_int_lex s v -> (0 <= v <= max)%Z -> plg_parse_uint s max = Ok v.
Proof.
  intros Hmax Hlex Hv.
  destruct Hlex as [ws1 core ws2 tl v Hws1 Hws2 Htl Hcore].
  destruct Hcore as [sg ds Hsg Hne Hds].
  unfold plg_parse_uint.
  rewrite skip_space_app_ws by exact Hws1.
  destruct (core_head sg ds Hsg Hne Hds) as [c0 [r0 [Hc [Hsp [Hnz H45]]]]].
  rewrite Hc. cbn [app]. rewrite (skip_space_id c0 _ Hsp).
  destruct (c0 =? 0) eqn:Hc0; [lia|].
  unfold ly_parse_uint. rewrite Hc0.
  change (c0 :: r0 ++ ws2 ++ tl) with ((c0 :: r0) ++ ws2 ++ tl). rewrite <- Hc.
  rewrite app_assoc.
  rewrite cstr_app; [|apply no_nul_app; [apply no_nul_app; [apply no_nul_sign; exact Hsg|apply no_nul_digits; exact Hds]|apply no_nul_spaces; exact Hws2]|exact Htl].
  unfold strtoull10. rewrite (scan_num_core sg ds ws2 Hsg Hne Hds Hws2).
  destruct ds as [|d ds']; [congruence|].
  pose proof (acc_u64_spec (d :: ds') 0 Hds ltac:(unfold U64MAX; lia)) as [Hfit _].
  fold (dec_to_N (d :: ds')) in Hfit.
  set (m := dec_to_N (d :: ds')) in *.
  unfold sign_val in Hv |- *. rewrite H45.
  rewrite U64MAX_val in *.
  assert (Hm : m <= 18446744073709551615) by (destruct (beq_bytes sg [45]); lia).
  rewrite (Hfit Hm).
  destruct (beq_bytes sg [45]) eqn:Hneg.
  - assert (Hm0 : m = 0) by lia. rewrite Hm0. cbn [Z.of_N Z.opp].
    replace ((18446744073709551615 + 1 - 0) mod (18446744073709551615 + 1)) with 0 by reflexivity.
    cbn [N.eqb negb andb orb Z.of_N].
    destruct (max <? 0)%Z eqn:Hr; [lia|].
    rewrite (skip_space_all ws2 Hws2). reflexivity.
  - rewrite andb_false_r, orb_false_r.
    destruct (max <? Z.of_N m)%Z eqn:Hr; [lia|].
    rewrite (skip_space_all ws2 Hws2). reflexivity.
Qed.

(* ---------- the store callback ---------- *)
Lemma ity_bounds_signed t : ity_signed t = true ->
  (- Z.of_N I64MAX - 1 <= ity_min t)%Z /\ (ity_max t <= Z.of_N I64MAX)%Z.
Proof. rewrite I64MAX_val. destruct t; cbn; intro H; try discriminate; lia. Qed.

Lemma ity_bounds_unsigned t : ity_signed t = false ->
  ity_min t = 0%Z /\ (ity_max t <= Z.of_N U64MAX)%Z.
Proof. rewrite U64MAX_val. destruct t; cbn; intro H; try discriminate; split; try reflexivity; lia. Qed.

Theorem int_store_iff_lexical t parts s v :
  int_store t parts s = Ok v <->
  ly_int_lex s v /\ (ity_min t <= v <= ity_max t)%Z /\ validate_range parts v = true.
Proof.
  unfold int_store. destruct (ity_signed t) eqn:Hsg.
  - destruct (ity_bounds_signed t Hsg) as [Hmin Hmax]. split.
    + intro H. destruct (plg_parse_int s (ity_min t) (ity_max t)) as [w|e] eqn:Hp; [|discriminate].
      destruct (validate_range parts w) eqn:Hr; [|discriminate]. inversion H; subst w.
      destruct (plg_parse_int_ok _ _ _ _ Hp) as [Hl Hb]. auto.
    + intros [Hl [Hb Hr]]. rewrite (plg_parse_int_complete s _ _ v Hmin Hmax Hl Hb), Hr. reflexivity.
  - destruct (ity_bounds_unsigned t Hsg) as [Hmin Hmax]. rewrite Hmin. split.
    + intro H. destruct (plg_parse_uint s (ity_max t)) as [w|e] eqn:Hp; [|discriminate].
      destruct (validate_range parts w) eqn:Hr; [|discriminate]. inversion H; subst w.
      destruct (plg_parse_uint_ok _ _ _ Hp) as [Hl Hb]. auto.
    + intros [Hl [Hb Hr]]. rewrite (plg_parse_uint_complete s _ v Hmax Hl Hb), Hr. reflexivity.
Qed.

(* ---------- canonical form ---------- *)
Lemma Z_to_dec_lex v : rfc_int_lex (Z_to_dec v) v.
Proof.
  unfold Z_to_dec. destruct (v <? 0)%Z eqn:Hneg.
  - replace v with (sign_val [45] (dec_to_N (N_to_dec (Z.abs_N v)))) at 2
      by (unfold sign_val; cbn [beq_bytes N.eqb Pos.eqb andb]; rewrite N_to_dec_value; lia).
    change (45 :: N_to_dec (Z.abs_N v)) with ([45] ++ N_to_dec (Z.abs_N v)).
    apply RfcInt; [right; right; reflexivity|apply N_to_dec_nonempty|apply N_to_dec_digits].
  - replace v with (sign_val [] (dec_to_N (N_to_dec (Z.abs_N v)))) at 2
      by (unfold sign_val; cbn [beq_bytes]; rewrite N_to_dec_value; lia).
    change (N_to_dec (Z.abs_N v)) with ([] ++ N_to_dec (Z.abs_N v)) at 1.
    apply RfcInt; [left; reflexivity|apply N_to_dec_nonempty|apply N_to_dec_digits].
Qed.

Lemma rfc_lex_is_ly_lex c v : rfc_int_lex c v -> ly_int_lex c v.
Proof.
  intro H. replace c with ([] ++ c ++ [] ++ []) by (cbn [app]; rewrite app_nil_r; reflexivity).
  apply LyInt; [reflexivity|reflexivity|left; reflexivity|exact H].
Qed.

Theorem int_canon_store t parts v :
  (ity_min t <= v <= ity_max t)%Z -> validate_range parts v = true ->
  int_store t parts (int_canon v) = Ok v.
Proof.
  intros Hb Hr. apply int_store_iff_lexical. split; [|auto].
  apply rfc_lex_is_ly_lex. apply Z_to_dec_lex.
Qed.

Theorem int_canon_is_rfc v : rfc_int_canonical (int_canon v).
Proof.
  unfold int_canon, Z_to_dec, rfc_int_canonical.
  destruct (Z.eq_dec v 0) as [-> | Hnz]; [left; reflexivity|]. right.
  destruct (N_to_dec_pos (Z.abs_N v) ltac:(lia)) as [c [r [Heq [Hdig [Hc _]]]]].
  cbn [forallb] in Hdig. apply andb_true_iff in Hdig. destruct Hdig as [Hcd Hr].
  rewrite Heq. destruct (v <? 0)%Z.
  - exists [45], c, r. cbn [app]. auto 10.
  - exists [], c, r. cbn [app]. auto 10.
Qed.

(* whatever spelling was stored, storing its canonical string gives the same value and the same
   canonical string again *)
Theorem int_canon_idempotent t parts s v :
  int_store t parts s = Ok v ->
  int_store t parts (int_canon v) = Ok v /\ rfc_int_canonical (int_canon v).
Proof.
  intro H. apply int_store_iff_lexical in H. destruct H as [_ [Hb Hr]].
  split; [apply int_canon_store; assumption|apply int_canon_is_rfc].
Qed.

(* ---------- equality and order ---------- *)
Lemma Z_to_dec_inj a b : Z_to_dec a = Z_to_dec b -> a = b.
Proof.
  unfold Z_to_dec. intro H.
  assert (Hnm : forall n, exists c r, N_to_dec n = c :: r /\ c <> 45).
  { intro n. pose proof (N_to_dec_digits n) as Hd. pose proof (N_to_dec_nonempty n) as Hne.
    destruct (N_to_dec n) as [|c r]; [congruence|]. exists c, r. split; [reflexivity|].
    cbn [forallb] in Hd. apply andb_true_iff in Hd. unfold is_digit in Hd. lia. }
  destruct (a <? 0)%Z eqn:Ha, (b <? 0)%Z eqn:Hb.
  - inversion H as [H1]. apply N_to_dec_inj in H1. lia.
  - exfalso. destruct (Hnm (Z.abs_N b)) as [c [r [Heq Hc]]]. rewrite Heq in H. inversion H. congruence.
  - exfalso. destruct (Hnm (Z.abs_N a)) as [c [r [Heq Hc]]]. rewrite Heq in H. inversion H. congruence.
  - apply N_to_dec_inj in H. lia.
Qed.

Theorem int_eq_iff_canon a b : int_compare a b = true <-> int_canon a = int_canon b.
Proof.
  unfold int_compare, int_canon. split.
  - intro H. apply Z.eqb_eq in H. subst. reflexivity.
  - intro H. apply Z.eqb_eq. apply Z_to_dec_inj. exact H.
Qed.

Theorem int_sort_total_order :
  (forall a, int_sort a a = Eq) /\
  (forall a b, int_sort a b = Eq <-> int_compare a b = true) /\
  (forall a b, int_sort a b = CompOpp (int_sort b a)) /\
  (forall a b c, int_sort a b = Lt -> int_sort b c = Lt -> int_sort a c = Lt).
Proof.
  unfold int_sort, int_compare.
  split; [intro a; apply Z.compare_refl|].
  split; [intros a b; rewrite Z.compare_eq_iff, Z.eqb_eq; reflexivity|].
  split; [intros a b; apply Z.compare_antisym|].
  intros a b c. rewrite !Z.compare_lt_iff. lia.
Qed.

(* ---------- the value is determined by the text ---------- *)
Definition lex_val (s : bytes) : Z :=
  let '(neg, ds, _) := scan_num (cstr (skip_space s)) in
  if neg then (- Z.of_N (dec_to_N ds))%Z else Z.of_N (dec_to_N ds).

Lemma ly_int_lex_val s v : ly_int_lex s v -> lex_val s = v.
Proof.
  intro Hlex. destruct Hlex as [ws1 core ws2 tl v Hws1 Hws2 Htl Hcore].
  destruct Hcore as [sg ds Hsg Hne Hds].
  unfold lex_val. rewrite skip_space_app_ws by exact Hws1.
  destruct (core_head sg ds Hsg Hne Hds) as [c0 [r0 [Hc [Hsp _]]]].
  rewrite Hc. cbn [app]. rewrite (skip_space_id c0 _ Hsp).
  change (c0 :: r0 ++ ws2 ++ tl) with ((c0 :: r0) ++ ws2 ++ tl). rewrite <- Hc.
  rewrite app_assoc.
  rewrite cstr_app; [|apply no_nul_app; [apply no_nul_app; [apply no_nul_sign; exact Hsg|apply no_nul_digits; exact Hds]|apply no_nul_spaces; exact Hws2]|exact Htl].
  rewrite (scan_num_core sg ds ws2 Hsg Hne Hds Hws2). unfold sign_val.
  destruct (beq_bytes sg [45]); reflexivity.
Qed.

Lemma ly_int_lex_det s v w : ly_int_lex s v -> ly_int_lex s w -> v = w.
Proof. intros Hv Hw. rewrite <- (ly_int_lex_val s v Hv), <- (ly_int_lex_val s w Hw). reflexivity. Qed.

(* lyplg_type_parse_int on  sign digits  (what lyplg_type_parse_dec64 hands over) *)
Lemma plg_parse_int_core sg ds min max v :
  (- Z.of_N I64MAX - 1 <= min)%Z -> (max <= Z.of_N I64MAX)%Z ->
  is_sign sg -> ds <> [] -> all_digit ds ->
  (plg_parse_int (sg ++ ds) min max = Ok v <->
   v = sign_val sg (dec_to_N ds) /\ (min <= v <= max)%Z).
Proof.
  intros Hmin Hmax Hsg Hne Hds.
  assert (Hlex : ly_int_lex (sg ++ ds) (sign_val sg (dec_to_N ds))).
  { apply rfc_lex_is_ly_lex. apply RfcInt; assumption. }
  split.
  - intro H. apply plg_parse_int_ok in H. destruct H as [Hl Hb].
    split; [|exact Hb]. exact (ly_int_lex_det _ _ _ Hl Hlex).
  - intros [-> Hb]. apply plg_parse_int_complete; assumption.
Qed.

(* ---------- deviations from the strict RFC language ---------- *)
Lemma rfc_int_lex_chars s v :
  rfc_int_lex s v -> forallb (fun c => is_digit c || (c =? 43) || (c =? 45)) s = true.
Proof.
  intros [sg ds Hsg _ Hds]. rewrite forallb_app. apply andb_true_iff. split.
  - destruct Hsg as [-> | [-> | ->]]; reflexivity.
  - unfold all_digit in Hds. revert Hds. induction ds as [|d ds IH]; cbn [forallb]; intro H; [reflexivity|].
    apply andb_true_iff in H. destruct H as [Hd Hr]. rewrite Hd, (IH Hr). reflexivity.
Qed.

(* white space around the number is accepted (documented tolerance), and so is anything after an
   embedded NUL byte when the value comes with an explicit length (not documented) *)
Theorem int_strict_rfc_refuted :
  (int_store I8 [] [32; 49; 10] = Ok 1%Z /\ forall w, ~ rfc_int_lex [32; 49; 10] w) /\
  (int_store I8 [] [49; 0; 120] = Ok 1%Z /\ forall w, ~ rfc_int_lex [49; 0; 120] w).
Proof.
  split; (split; [reflexivity|intros w H; apply rfc_int_lex_chars in H; discriminate]).
Qed.

(* a value without NUL is accepted exactly when it is the RFC representation between white space *)
Lemma ly_int_lex_no_nul s v :
  no_nul s -> ly_int_lex s v ->
  exists ws1 core ws2, s = ws1 ++ core ++ ws2 /\ all_space ws1 /\ all_space ws2 /\ rfc_int_lex core v.
Proof.
  intros Hnn Hlex. destruct Hlex as [ws1 core ws2 tl v Hws1 Hws2 Htl Hcore].
  destruct Htl as [-> | [j ->]].
  - exists ws1, core, ws2. rewrite app_nil_r. auto.
  - exfalso. unfold no_nul in Hnn. rewrite !forallb_app in Hnn. cbn [forallb] in Hnn.
    rewrite N.eqb_refl in Hnn. cbn [negb andb] in Hnn. rewrite !andb_false_r in Hnn. discriminate.
Qed.
