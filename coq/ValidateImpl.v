(* ValidateImpl.v -- the validation algorithm of libyang AS CODED (src/validation.c), XPath-free fragment.

   MODEL ONLY (proofs: ValidP.v). Transcribes, for the data of ONE module (lyd_validate_module / lyd_validate_all with
   data of one module):
     lyd_validate()                    impl_validate: lyd_validate_new on the top level, then per top-level node the DFS of
                                       lyd_validate_subtree (lyd_validate_new on the children of every inner node), then
                                       lyd_validate_final_r
     (state of the code: after 06232b2 - the public lyd_insert_* flag the inserted node LYD_NEW -, ba1198e, 357db45)
     lyd_validate_new()                vlevel: lyd_validate_choice_r / lyd_validate_cases (new and old case data, the old
                                       case is auto-deleted), then the node loop: only nodes flagged LYD_NEW or LYD_DEFAULT
                                       are looked at; lyd_validate_autodel_leaflist_dflt / _cont_leaf_dflt,
                                       lyd_validate_duplicates ONLY FOR NODES FLAGGED LYD_NEW (flag cleared afterwards),
                                       lyd_validate_autodel_case_dflt (walks up through default cases of nested
                                       choices - since 357db45)
     lyd_validate_duplicates()         dup_of: the children_ht path (lyht_find_next_with_collision_cb with
                                       lyd_hash_table_val_equal) and the linear path answer the same question and are one
                                       function here (their agreement is checked by the C04 / ht slices and by the
                                       correspondence run of this slice on parents with >= LYD_HT_MIN_ITEMS children)
     lyd_validate_final_r()            final_node / final_top: lyd_validate_siblings_schema_r on the level (ALL choices of
                                       the level first - mandatory choice, then only the FIRST case that has data is
                                       entered -, then the other schema nodes: min/max-elements, unique, mandatory), then
                                       the children in sibling order. Non-presence containers that lyd_new_implicit()
                                       creates (absent ones outside choices, in the case that has data, in the default case
                                       of a choice without data) are not materialised: they are visited virtually at their
                                       schema position (vf).
     lyd_validate_mandatory / _minmax / _unique (+ lyd_val_uniq_find_leaf, lyd_val_uniq_list_equal,
                                       lyd_val_uniq_dflt_in_use: the default of a unique leaf without instance is used
                                       only when it is in use, RFC 7950 7.6.1 - since ba1198e)
   and the checks the parsers make before validation (impl_parse_validate: value of the type - parameter ty -,
   lyd_parse_check_keys).
   Not modelled: when / must / leafref and instance-identifier resolution (lyd_validate_unres), LYD_VALIDATE_* options
   (NO_STATE, OPERATIONAL, MULTI_ERROR), the validation diff, the implicit default nodes themselves (WithDefaults slice;
   schemas in which a leaf-list has both default values and min/max-elements are outside: there the implicit instances
   would count), opaque nodes, several modules, RPC / notification trees, extension data. *)
From LY Require Import Base Tree RfcValid.
Local Open Scope N_scope.

(* error classes: all are LY_EVALID with vecode LYVE_DATA; the app-tag is RFC 7950 section 15's where one exists *)
Inductive verr :=
| EFuel            (* model only: recursion fuel exhausted (excluded by the theorems) *)
| EType            (* parser: value not in the type's value space *)
| EKey             (* parser: LY_VCODE_NOKEY, list instance is missing its key *)
| EDup             (* LY_VCODE_DUP, duplicate instance *)
| EDupCase         (* LY_VCODE_DUPCASE, data for both cases exist *)
| ENoMand          (* LY_VCODE_NOMAND, mandatory node instance does not exist *)
| ENoMandChoice    (* LY_VCODE_NOMAND_CHOIC, app-tag missing-choice *)
| ENoMin           (* LY_VCODE_NOMIN, app-tag too-few-elements *)
| ENoMax           (* LY_VCODE_NOMAX, app-tag too-many-elements *)
| ENoUniq          (* LY_VCODE_NOUNIQ, app-tag data-not-unique *)
| EState.          (* LY_VCODE_UNEXPNODE "state": a config false node when only configuration is validated (LYD_VALIDATE_NO_STATE) *)

Definition verr_eqb (a b : verr) : bool :=
  match a, b with
  | EFuel, EFuel | EType, EType | EKey, EKey | EDup, EDup | EDupCase, EDupCase | ENoMand, ENoMand
  | ENoMandChoice, ENoMandChoice | ENoMin, ENoMin | ENoMax, ENoMax | ENoUniq, ENoUniq | EState, EState => true
  | _, _ => false
  end.

(* RFC 7950 section 15 error-app-tag of a class (as bytes), [] = none defined *)
Definition apptag (e : verr) : bytes :=
  match e with
  | ENoMandChoice => [109;105;115;115;105;110;103;45;99;104;111;105;99;101]                     (* missing-choice *)
  | ENoMin => [116;111;111;45;102;101;119;45;101;108;101;109;101;110;116;115]                   (* too-few-elements *)
  | ENoMax => [116;111;111;45;109;97;110;121;45;101;108;101;109;101;110;116;115]                (* too-many-elements *)
  | ENoUniq => [100;97;116;97;45;110;111;116;45;117;110;105;113;117;101]                        (* data-not-unique *)
  | _ => []
  end.

Inductive vres := VOk | VErr (e : verr).

Definition vand (a b : vres) : vres := match a with VOk => b | e => e end.
Definition chk (b : bool) (e : verr) : vres := if b then VOk else VErr e.

Section VAll.
  Context {A : Type}.
  Variable g : A -> vres.
  Fixpoint vall (l : list A) : vres :=
    match l with
    | [] => VOk
    | x :: r => vand (g x) (vall r)
    end.
End VAll.

(* ------------------------------------------------------------------------------------------- *)
(* data nodes with the LYD_NEW flag                                                              *)
(* ------------------------------------------------------------------------------------------- *)
Inductive vnode := VN (s : sid) (v : bytes) (dflt new : bool) (meta : list (bytes * bytes)) (ch : list vnode).
Definition vforest := list vnode.

Definition vn_sid (n : vnode) : sid := match n with VN s _ _ _ _ _ => s end.
Definition vn_val (n : vnode) : bytes := match n with VN _ v _ _ _ _ => v end.
Definition vn_dflt (n : vnode) : bool := match n with VN _ _ d _ _ _ => d end.
Definition vn_new (n : vnode) : bool := match n with VN _ _ _ w _ _ => w end.
Definition vn_ch (n : vnode) : vforest := match n with VN _ _ _ _ _ ch => ch end.
Definition vn_clear_new (n : vnode) : vnode := match n with VN s v d _ m ch => VN s v d false m ch end.

Fixpoint erase (n : vnode) : dnode :=
  match n with VN s v d _ m ch => DN s v d m (map erase ch) end.

(* what a parser hands over: every node flagged LYD_NEW *)
Fixpoint mark_new (n : dnode) : vnode :=
  match n with DN s v d m ch => VN s v d true m (map mark_new ch) end.

(* no node carries LYD_DEFAULT *)
Fixpoint nodflt_node (n : dnode) : bool :=
  match n with DN _ _ d _ ch => negb d && forallb nodflt_node ch end.
Definition nodflt (f : forest) : bool := forallb nodflt_node f.

(* the explicit part of a tree: nodes flagged LYD_DEFAULT (implicit defaults, containers holding only defaults) dropped *)
Fixpoint explicit_node (n : vnode) : list dnode :=
  match n with
  | VN s v d _ m ch => if d then [] else [DN s v d m (flat_map explicit_node ch)]
  end.
Definition explicit (f : vforest) : forest := flat_map explicit_node f.

Fixpoint vsize (n : vnode) : nat :=
  match n with VN _ _ _ _ _ ch => S (fold_right (fun c a => (vsize c + a)%nat) O ch) end.
Definition vfsize (f : vforest) : nat := fold_right (fun c a => (vsize c + a)%nat) O f.

Inductive rs (A : Type) := ROk (a : A) | RErr (e : verr).
Arguments ROk {A} a.
Arguments RErr {A} e.

Section Impl.
  Variable vs : vschema.

  (* --------------------------------------------------------------------------------------- *)
  (* lyd_validate_new: choices                                                                 *)
  (* --------------------------------------------------------------------------------------- *)
  Definition in_sub (t : stree) (n : vnode) : bool := existsb (N.eqb (vn_sid n)) (st_sids t).

  (* lyd_validate_cases: per case  0 no data, 1 only old data, 2 some data flagged new; two old cases or two new cases
     are an error; with one old and one new case the data of the old case are deleted. Returns the old case to delete. *)
  Fixpoint cases_scan (f : vforest) (cs : list stree) (old nw : option stree) : rs (option stree * option stree) :=
    match cs with
    | [] => ROk (old, nw)
    | c :: r =>
        if existsb (fun n => in_sub c n && vn_new n) f then
          match nw with Some _ => RErr EDupCase | None => cases_scan f r old (Some c) end
        else if existsb (in_sub c) f then
          match old with Some _ => RErr EDupCase | None => cases_scan f r (Some c) nw end
        else cases_scan f r old nw
    end.

  Definition validate_cases (cs : list stree) (f : vforest) : rs vforest :=
    match cases_scan f cs None None with
    | RErr e => RErr e
    | ROk (Some o, Some _) => ROk (filter (fun n => negb (in_sub o n)) f)
    | ROk _ => ROk f
    end.

  (* lyd_validate_choice_r: every choice of the level, nested choices (in all cases) right after their parent choice;
     the loop stops when no sibling is left *)
  Fixpoint vchoices (t : stree) (f : vforest) {struct t} : rs vforest :=
    match t with
    | TNode _ _ => ROk f
    | TChoice _ _ cs =>
        match f with
        | [] => ROk f
        | _ =>
            match validate_cases cs f with
            | RErr e => RErr e
            | ROk f' => fold_left (fun acc c => match acc with ROk g => vchoices c g | e => e end) cs (ROk f')
            end
        end
    | TCase _ _ ch => fold_left (fun acc c => match acc with ROk g => vchoices c g | e => e end) ch (ROk f)
    end.

  (* --------------------------------------------------------------------------------------- *)
  (* lyd_validate_new: node loop                                                               *)
  (* --------------------------------------------------------------------------------------- *)
  (* lyd_val_has_default *)
  Definition has_default (s : sid) : bool :=
    match kind vs s with
    | KLeaf | KLeafList => match si_dflts (info vs s) with [] => false | _ => true end
    | KCont p => negb p
    | _ => false
    end.

  Definition opt_is (o : option sid) (s : sid) : bool := match o with Some x => x =? s | None => false end.

  Definition is_dflt_of (s : sid) (n : vnode) : bool := (vn_sid n =? s) && vn_dflt n.
  Definition kill_dflts (s : sid) (l : vforest) : vforest := filter (fun n => negb (is_dflt_of s n)) l.

  (* remove the first instance of s that is default and not new; None when there is none *)
  Fixpoint kill_first_old (s : sid) (l : vforest) : option vforest :=
    match l with
    | [] => None
    | n :: r =>
        if is_dflt_of s n && negb (vn_new n) then Some r
        else match kill_first_old s r with Some r' => Some (n :: r') | None => None end
    end.

  (* lyd_validate_duplicates: is there ANOTHER sibling that is the same instance (lyd_compare_single(.., 0): same
     schema node and, for a list, equal key values / for a leaf-list, equal value); key-less lists and state leaf-lists
     are exempt *)
  Definition vkey_vals (n : vnode) : list bytes :=
    map (fun k => match find (fun c => vn_sid c =? k) (vn_ch n) with Some c => vn_val c | None => [] end)
        (si_keys (info vs (vn_sid n))).

  Definition same_vinst (a b : vnode) : bool :=
    (vn_sid a =? vn_sid b) &&
    match kind vs (vn_sid a) with
    | KList => beq_bytes_list (vkey_vals a) (vkey_vals b)
    | KLeafList => beq_bytes (vn_val a) (vn_val b)
    | _ => true
    end.

  Definition dup_of (others : vforest) (n : vnode) : bool :=
    negb (dup_inst (vs_info vs) (vn_sid n)) && existsb (same_vinst n) others.

  (* the cases around schema node s at this level, innermost first: (is the default case of its choice, its sids) *)
  Fixpoint case_of (s : sid) (cur : list (bool * list sid)) (t : stree) : option (list (bool * list sid)) :=
    match t with
    | TNode s' _ => if s' =? s then Some cur else None
    | TChoice _ _ cs => first_some (case_of s cur) cs
    | TCase _ d ch => first_some (case_of s ((d, st_sids t) :: cur)) ch
    end.

  (* lyd_validate_autodel_case_dflt: a default node directly in a case is deleted when, going up through the cases
     that are the default case of their (nested) choice, a case is reached that is not a default case and has no
     explicit node among the siblings; it is kept when the chain of default cases ends outside of a case *)
  Fixpoint stale_chain (all : vforest) (chain : list (bool * list sid)) : bool :=
    match chain with
    | [] => false
    | (d, sids) :: rest =>
        if d then stale_chain all rest
        else negb (existsb (fun x => existsb (N.eqb (vn_sid x)) sids && negb (vn_dflt x)) all)
    end.
  Definition stale_case_dflt (l : list stree) (all : vforest) (n : vnode) : bool :=
    match first_some (case_of (vn_sid n) []) l with
    | Some chain => stale_chain all chain
    | None => false
    end.

  (* the loop over the siblings: done = already passed (reversed), todo = from the current node on *)
  Fixpoint vloop (l : list stree) (fuel : nat) (done todo : vforest) (last : option sid) {struct fuel} : rs vforest :=
    match fuel with
    | O => match todo with [] => ROk (rev done) | _ => RErr EFuel end
    | S k =>
        match todo with
        | [] => ROk (rev done)
        | n :: r =>
            if negb (vn_new n || vn_dflt n) then vloop l k (n :: done) r last
            else
              let s := vn_sid n in
              let autodel := has_default s && negb (opt_is last s) && vn_new n in
              let last' := if autodel then Some s else last in
              let all := rev done ++ n :: r in
              let found := existsb (fun x => (vn_sid x =? s) && negb (vn_dflt x)) all in
              let '(done1, r1, gone) :=
                if autodel then
                  if found then (kill_dflts s done, kill_dflts s r, vn_dflt n)
                  else
                    match kind vs s with
                    | KLeafList => (done, r, false)
                    | _ =>
                        match kill_first_old s (rev done) with
                        | Some d' => (rev d', r, false)
                        | None => match kill_first_old s r with Some r' => (done, r', false) | None => (done, r, false) end
                        end
                    end
                else (done, r, false) in
              if gone then vloop l k done1 r1 last'
              else if vn_new n && dup_of (rev done1 ++ r1) n then RErr EDup
              else
                let n' := vn_clear_new n in
                if vn_dflt n && stale_case_dflt l (rev done1 ++ n' :: r1) n then vloop l k done1 r1 last'
                else vloop l k (n' :: done1) r1 last'
        end
    end.

  (* lyd_validate_new on one sibling list *)
  Definition vlevel (l : list stree) (f : vforest) : rs vforest :=
    match fold_left (fun acc t => match acc with ROk g => vchoices t g | e => e end) l (ROk f) with
    | RErr e => RErr e
    | ROk f' => vloop l (length f') [] f' None
    end.

  Section RMap.
    Context {A B : Type}.
    Variable g : A -> rs B.
    Fixpoint rmap (l : list A) : rs (list B) :=
      match l with
      | [] => ROk []
      | x :: r => match g x with
                  | RErr e => RErr e
                  | ROk y => match rmap r with RErr e => RErr e | ROk r' => ROk (y :: r') end
                  end
      end.
  End RMap.

  (* lyd_validate(): lyd_validate_new on the level, then the DFS of lyd_validate_subtree over the surviving nodes *)
  Fixpoint vnew (fuel : nat) (l : list stree) (f : vforest) {struct fuel} : rs vforest :=
    match fuel with
    | O => RErr EFuel
    | S k =>
        match vlevel l f with
        | RErr e => RErr e
        | ROk f' =>
            rmap (fun n => match n with
                           | VN s v d w m ch =>
                               match vnew k (st_children l s) ch with
                               | RErr e => RErr e
                               | ROk ch' => ROk (VN s v d w m ch')
                               end
                           end) f'
        end
    end.

  (* --------------------------------------------------------------------------------------- *)
  (* lyd_validate_final_r                                                                      *)
  (* --------------------------------------------------------------------------------------- *)
  (* lyd_validate_minmax *)
  Definition minmax (f : forest) (s : sid) : vres :=
    let i := info vs s in
    let c := count f s in
    if c <? si_min i then VErr ENoMin
    else match si_max i with
         | Some m => if m <? c then VErr ENoMax else VOk
         | None => VOk
         end.

  (* lyd_val_uniq_find_leaf: follow the path through the FIRST instance of every step *)
  Fixpoint uq_find (ch : forest) (p : list sid) {struct p} : option dnode :=
    match p with
    | [] => None
    | s :: p' =>
        match p' with
        | [] => find_sid ch s
        | _ => match find_sid ch s with Some c => uq_find (d_ch c) p' | None => None end
        end
    end.

  (* the cases schema node s of level l is in exist in context f: every one has data or is the default case of a choice
     without data (the loop over scase in lyd_val_uniq_dflt_in_use; the conjunction does not depend on the direction) *)
  Fixpoint cases_in (f : forest) (ok chd : bool) (s : sid) (t : stree) : option bool :=
    match t with
    | TNode s' _ => if s' =? s then Some ok else None
    | TChoice _ _ cs => first_some (cases_in f ok (existsb (sub_has_data f) cs) s) cs
    | TCase _ d ch => first_some (cases_in f (ok && (sub_has_data f t || (d && negb chd))) false s) ch
    end.
  Definition cases_exist (l : list stree) (f : forest) (s : sid) : bool :=
    match first_some (cases_in f true false s) l with Some b => b | None => false end.

  (* lyd_val_uniq_dflt_in_use: siblings = f (none once a node of the path does not exist) *)
  Fixpoint uq_dflt_in_use (l : list stree) (f : forest) (p : list sid) {struct p} : bool :=
    match p with
    | [] => true
    | s :: p' =>
        cases_exist l f s &&
        match find_sid f s with
        | Some c => uq_dflt_in_use (st_children l s) (d_ch c) p'
        | None =>
            match p' with
            | [] => true
            | _ => match kind vs s with
                   | KCont true => false                                   (* non-existing presence container *)
                   | _ => uq_dflt_in_use (st_children l s) [] p'
                   end
            end
        end
    end.

  (* value used for one leaf of a unique statement in list entry e (ls = schema children of the list): the
     instance's, else the schema default if it is in use, else none *)
  Definition uq_val (ls : list stree) (e : dnode) (p : list sid) : option bytes :=
    match uq_find (d_ch e) p with
    | Some n => Some (d_val n)
    | None => match si_dflts (info vs (last p 0)) with
              | d :: _ => if uq_dflt_in_use ls (d_ch e) p then Some d else None
              | [] => None
              end
    end.

  Definition uq_equal (ls : list stree) (u : list (list sid)) (a b : dnode) : bool :=
    match u with
    | [] => false
    | _ => forallb (fun p => match uq_val ls a p, uq_val ls b p with
                             | Some x, Some y => beq_bytes x y
                             | _, _ => false
                             end) u
    end.

  (* lyd_validate_unique: two instances are compared directly, more through one hash table per unique statement into
     which the instances with a complete value tuple are inserted in order; either way the answer is whether two
     instances agree on some statement *)
  Definition uniq_check (ls : list stree) (f : forest) (s : sid) : vres :=
    match uniques_of vs s with
    | [] => VOk
    | us => chk (pairwise (fun a b => negb (existsb (fun u => uq_equal ls u a b) us)) (insts f s)) ENoUniq
    end.

  (* the second loop of lyd_validate_siblings_schema_r, one schema node *)
  Definition sr_node (f : forest) (t : stree) : vres :=
    match t with
    | TNode s ch =>
        match kind vs s with
        | KList =>
            vand (match si_min (info vs s), si_max (info vs s) with
                  | 0, None => VOk
                  | _, _ => minmax f s
                  end) (uniq_check ch f s)
        | KLeafList =>
            match si_min (info vs s), si_max (info vs s) with
            | 0, None => VOk
            | _, _ => minmax f s
            end
        | KLeaf | KAny => chk (negb (si_mand (info vs s)) || has_sid f s) ENoMand
        | KCont _ => VOk      (* LYS_MAND_TRUE of a non-presence container: the container exists after lyd_new_implicit *)
        end
    | _ => VOk
    end.

  (* the first loop, one choice: mandatory choice, then lyd_validate_siblings_schema_r on the FIRST case with data *)
  Fixpoint sr_choice (f : forest) (t : stree) {struct t} : vres :=
    match t with
    | TChoice _ m cs =>
        vand (chk (negb m || existsb (sub_has_data f) cs) ENoMandChoice)
             ((fix first_case (l : list stree) : vres :=
                 match l with
                 | [] => VOk
                 | c :: r =>
                     if sub_has_data f c then
                       match c with
                       | TCase _ _ ch => vand (vall (sr_choice f) ch) (vall (sr_node f) ch)
                       | _ => VOk
                       end
                     else first_case r
                 end) cs)
    | _ => VOk
    end.

  Definition schema_r (f : forest) (l : list stree) : vres :=
    vand (vall (sr_choice f) l) (vall (sr_node f) l).

  Definition is_npc (s : sid) : bool := match kind vs s with KCont false => true | _ => false end.

  (* lyd_validate_final_r on a non-presence container that lyd_new_implicit created (no data below it): its level, then
     the containers created below it (outside choices, and in default cases) *)
  Fixpoint vf (t : stree) {struct t} : vres :=
    match t with
    | TNode s ch => if is_npc s then vand (schema_r [] ch) (vall vf ch) else VOk
    | TChoice _ _ cs => vall (fun c => match c with TCase _ true ch => vall vf ch | _ => VOk end) cs
    | TCase _ _ _ => VOk
    end.

  (* the absent non-presence containers lyd_new_implicit creates in context f, in schema order *)
  Fixpoint npv (f : forest) (t : stree) {struct t} : list stree :=
    match t with
    | TNode s _ => if is_npc s && negb (has_sid f s) then [t] else []
    | TChoice _ _ cs =>
        (fix go (l : list stree) (chd seen : bool) : list stree :=
           match l with
           | [] => []
           | c :: r =>
               match c with
               | TCase _ d ch =>
                   let hd := sub_has_data f c in
                   (if (if chd then hd && negb seen else d) then flat_map (npv f) ch else []) ++ go r chd (seen || hd)
               | _ => go r chd seen
               end
           end) cs (existsb (sub_has_data f) cs) false
    | TCase _ _ _ => []
    end.

  Definition st_sid (t : stree) : sid := match t with TNode s _ => s | _ => 0 end.

  (* the children in sibling order, the created containers at their schema position *)
  Section Visit.
    Variable rec : dnode -> vres.
    Fixpoint visit (c : forest) (virt : list stree) : vres :=
      match c with
      | [] => vall vf virt
      | x :: r =>
          vand (vall vf (filter (fun t => st_sid t <? d_sid x) virt))
               (vand (rec x) (visit r (filter (fun t => negb (st_sid t <? d_sid x)) virt)))
      end.
  End Visit.

  Fixpoint final_node (l : list stree) (n : dnode) {struct n} : vres :=
    match n with
    | DN s _ _ _ ch =>
        let l' := st_children l s in
        vand (schema_r ch l') (visit (final_node l') ch (flat_map (npv ch) l'))
    end.

  Definition final_top (f : forest) : vres :=
    let l := vs_tree vs in
    vand (schema_r f l) (visit (final_node l) f (flat_map (npv f) l)).

  (* lyd_validate_module() on a tree *)
  Definition impl_validate (f : vforest) : vres :=
    match vnew (S (vfsize f)) (vs_tree vs) f with
    | RErr e => VErr e
    | ROk f' => final_top (map erase f')
    end.

  (* --------------------------------------------------------------------------------------- *)
  (* LYD_VALIDATE_NO_STATE: lyd_validate_final_r reports LY_VCODE_UNEXPNODE "state" for a config false node in its
     per-node loop (before lyd_validate_siblings_schema_r of the level, after the levels above); the `continue` on
     LYS_CONFIG_R schema nodes in lyd_validate_siblings_schema_r and in lyd_new_implicit (LYD_IMPLICIT_NO_STATE) is
     the schema of RfcValid.cfg_view: these functions are run on cfg_view vs (impl_validate_config below)          *)
  Definition state_chk (n : dnode) : vres := chk (si_config (info vs (d_sid n))) EState.

  Fixpoint final_node_ns (l : list stree) (n : dnode) {struct n} : vres :=
    match n with
    | DN s _ _ _ ch =>
        let l' := st_children l s in
        vand (vall state_chk ch) (vand (schema_r ch l') (visit (final_node_ns l') ch (flat_map (npv ch) l')))
    end.

  Definition final_top_ns (f : forest) : vres :=
    let l := vs_tree vs in
    vand (vall state_chk f) (vand (schema_r f l) (visit (final_node_ns l) f (flat_map (npv f) l))).

  Definition impl_validate_ns (f : vforest) : vres :=
    match vnew (S (vfsize f)) (vs_tree vs) f with
    | RErr e => VErr e
    | ROk f' => final_top_ns (map erase f')
    end.

  (* --------------------------------------------------------------------------------------- *)
  (* LYD_VALIDATE_MULTI_ERROR: LY_VAL_ERR_GOTO records LY_EVALID and goes on                   *)
  (* --------------------------------------------------------------------------------------- *)
  (* the same code with every "return on a validation error" replaced by "remember it and continue": the functions
     return what they computed and the errors in the order they were logged (the call returns LY_EVALID iff the list is
     not empty; ly_err_last() is the last one) *)
  Definition validate_cases_m (cs : list stree) (f : vforest) : vforest * list verr :=
    match cases_scan f cs None None with
    | RErr e => (f, [e])                     (* lyd_validate_cases returned: no auto-deletion for this choice *)
    | ROk (Some o, Some _) => (filter (fun n => negb (in_sub o n)) f, [])
    | ROk _ => (f, [])
    end.

  Fixpoint vchoices_m (t : stree) (f : vforest) {struct t} : vforest * list verr :=
    match t with
    | TNode _ _ => (f, [])
    | TChoice _ _ cs =>
        match f with
        | [] => (f, [])
        | _ => let '(f', es) := validate_cases_m cs f in
               fold_left (fun acc c => let '(g, e1) := acc in let '(g', e2) := vchoices_m c g in (g', e1 ++ e2)) cs (f', es)
        end
    | TCase _ _ ch =>
        fold_left (fun acc c => let '(g, e1) := acc in let '(g', e2) := vchoices_m c g in (g', e1 ++ e2)) ch (f, [])
    end.

  Fixpoint vloop_m (l : list stree) (fuel : nat) (done todo : vforest) (last : option sid) {struct fuel} :
    vforest * list verr :=
    match fuel with
    | O => match todo with [] => (rev done, []) | _ => (rev done ++ todo, [EFuel]) end
    | S k =>
        match todo with
        | [] => (rev done, [])
        | n :: r =>
            if negb (vn_new n || vn_dflt n) then vloop_m l k (n :: done) r last
            else
              let s := vn_sid n in
              let autodel := has_default s && negb (opt_is last s) && vn_new n in
              let last' := if autodel then Some s else last in
              let all := rev done ++ n :: r in
              let found := existsb (fun x => (vn_sid x =? s) && negb (vn_dflt x)) all in
              let '(done1, r1, gone) :=
                if autodel then
                  if found then (kill_dflts s done, kill_dflts s r, vn_dflt n)
                  else
                    match kind vs s with
                    | KLeafList => (done, r, false)
                    | _ =>
                        match kill_first_old s (rev done) with
                        | Some d' => (rev d', r, false)
                        | None => match kill_first_old s r with Some r' => (done, r', false) | None => (done, r, false) end
                        end
                    end
                else (done, r, false) in
              if gone then vloop_m l k done1 r1 last'
              else
                let es := if vn_new n && dup_of (rev done1 ++ r1) n then [EDup] else [] in
                let n' := vn_clear_new n in
                let '(res, es') :=
                  if vn_dflt n && stale_case_dflt l (rev done1 ++ n' :: r1) n then vloop_m l k done1 r1 last'
                  else vloop_m l k (n' :: done1) r1 last' in
                (res, es ++ es')
        end
    end.

  Definition vlevel_m (l : list stree) (f : vforest) : vforest * list verr :=
    let '(f1, e1) := fold_left (fun acc c => let '(g, ea) := acc in let '(g', eb) := vchoices_m c g in (g', ea ++ eb)) l (f, []) in
    let '(f2, e2) := vloop_m l (length f1) [] f1 None in
    (f2, e1 ++ e2).

  Fixpoint vnew_m (fuel : nat) (l : list stree) (f : vforest) {struct fuel} : vforest * list verr :=
    match fuel with
    | O => (f, [EFuel])
    | S k =>
        let '(f', e1) := vlevel_m l f in
        let rs := map (fun n => match n with
                                | VN s v d w m ch => let '(ch', e) := vnew_m k (st_children l s) ch in (VN s v d w m ch', e)
                                end) f' in
        (map fst rs, e1 ++ flat_map snd rs)
    end.

  (* the final stage is a sequence of checks without side effects: every check runs *)
  Definition elist (r : vres) : list verr := match r with VOk => [] | VErr e => [e] end.
  Definition first_err (es : list verr) : vres := match es with [] => VOk | e :: _ => VErr e end.

  Definition sr_node_m (f : forest) (t : stree) : list verr :=
    match t with
    | TNode s ch =>
        match kind vs s with
        | KList =>
            elist (match si_min (info vs s), si_max (info vs s) with 0, None => VOk | _, _ => minmax f s end) ++
            elist (uniq_check ch f s)
        | _ => elist (sr_node f t)
        end
    | _ => []
    end.

  Fixpoint sr_choice_m (f : forest) (t : stree) {struct t} : list verr :=
    match t with
    | TChoice _ m cs =>
        elist (chk (negb m || existsb (sub_has_data f) cs) ENoMandChoice) ++
        (fix first_case (l : list stree) : list verr :=
           match l with
           | [] => []
           | c :: r =>
               if sub_has_data f c then
                 match c with
                 | TCase _ _ ch => flat_map (sr_choice_m f) ch ++ flat_map (sr_node_m f) ch
                 | _ => []
                 end
               else first_case r
           end) cs
    | _ => []
    end.

  Definition schema_r_m (f : forest) (l : list stree) : list verr :=
    flat_map (sr_choice_m f) l ++ flat_map (sr_node_m f) l.

  Fixpoint vf_m (t : stree) {struct t} : list verr :=
    match t with
    | TNode s ch => if is_npc s then schema_r_m [] ch ++ flat_map vf_m ch else []
    | TChoice _ _ cs => flat_map (fun c => match c with TCase _ true ch => flat_map vf_m ch | _ => [] end) cs
    | TCase _ _ _ => []
    end.

  Section VisitM.
    Variable rec : dnode -> list verr.
    Fixpoint visit_m (c : forest) (virt : list stree) : list verr :=
      match c with
      | [] => flat_map vf_m virt
      | x :: r =>
          flat_map vf_m (filter (fun t => st_sid t <? d_sid x) virt) ++
          (rec x ++ visit_m r (filter (fun t => negb (st_sid t <? d_sid x)) virt))
      end.
  End VisitM.

  Fixpoint final_node_m (l : list stree) (n : dnode) {struct n} : list verr :=
    match n with
    | DN s _ _ _ ch =>
        let l' := st_children l s in
        schema_r_m ch l' ++ visit_m (final_node_m l') ch (flat_map (npv ch) l')
    end.

  Definition final_top_m (f : forest) : list verr :=
    let l := vs_tree vs in
    schema_r_m f l ++ visit_m (final_node_m l) f (flat_map (npv f) l).

  (* lyd_validate_module(..., LYD_VALIDATE_MULTI_ERROR): the errors in the order they are logged *)
  Definition impl_validate_multi (f : vforest) : list verr :=
    let '(f', e1) := vnew_m (S (vfsize f)) (vs_tree vs) f in
    e1 ++ final_top_m (map erase f').

  (* --------------------------------------------------------------------------------------- *)
  (* histories: a tree whose un-flagged part was validated before                              *)
  (* --------------------------------------------------------------------------------------- *)
  (* what validation leaves behind and what the editing API keeps: the nodes NOT flagged LYD_NEW are free of duplicates
     among themselves, belong to at most one case per choice, and data flagged new do not sit in another case than the
     old data of a choice (then the old case would be auto-deleted: the result, not the input, is what gets validated);
     no node is flagged LYD_DEFAULT (auto-deletion of defaults is outside). Nodes flagged new are arbitrary. *)
  Definition vconf (a b : vnode) : bool := negb (dup_inst (vs_info vs) (vn_sid a)) && same_vinst a b.
  Definition old_free (g : vforest) : bool :=
    pairwise (fun a b => negb (negb (vn_new a) && negb (vn_new b) && vconf a b)) g.
  Definition case_new (g : vforest) (c : stree) : bool := existsb (fun n => in_sub c n && vn_new n) g.
  Definition case_old (g : vforest) (c : stree) : bool := existsb (in_sub c) g && negb (case_new g c).
  Fixpoint hist_case_t (g : vforest) (t : stree) : bool :=
    match t with
    | TNode _ _ => true
    | TChoice _ _ cs =>
        (length (filter (case_old g) cs) <=? 1)%nat &&
        (match filter (case_new g) cs, filter (case_old g) cs with _ :: _, _ :: _ => false | _, _ => true end) &&
        forallb (hist_case_t g) cs
    | TCase _ _ ch => forallb (hist_case_t g) ch
    end.
  Definition hist_level (l : list stree) (g : vforest) : bool := old_free g && forallb (hist_case_t g) l.
  Fixpoint hist_node (l : list stree) (n : vnode) {struct n} : bool :=
    match n with
    | VN s _ d _ _ ch => negb d && hist_level (st_children l s) ch && forallb (hist_node (st_children l s)) ch
    end.
  Definition hist_ok (g : vforest) : bool := hist_level (vs_tree vs) g && forallb (hist_node (vs_tree vs)) g.

  (* --------------------------------------------------------------------------------------- *)
  (* parsing with validation                                                                   *)
  (* --------------------------------------------------------------------------------------- *)
  Variable ty : sid -> bytes -> bool.

  (* the parser: a term's value is stored through its type when the node is created; lyd_parse_check_keys after the
     children of a list instance were parsed *)
  Fixpoint pchk (n : dnode) : vres :=
    match n with
    | DN s v _ _ ch =>
        vand (match kind vs s with KLeaf | KLeafList => chk (ty s v) EType | _ => VOk end)
             (vand (vall pchk ch) (chk (forallb (has_sid ch) (si_keys (info vs s))) EKey))
    end.

  (* lyd_parse_data(..., validation): the parser hands over a tree in which every node is flagged new *)
  Definition impl_parse_validate (f : forest) : vres :=
    vand (vall pchk f) (impl_validate (map mark_new f)).
  Definition impl_parse_validate_ns (f : forest) : vres :=
    vand (vall pchk f) (impl_validate_ns (map mark_new f)).
End Impl.

(* parse + validate with LYD_VALIDATE_NO_STATE: the parser and lyd_validate_new read only the kinds, keys, config flags
   and the schema tree, which cfg_view keeps *)
Definition impl_validate_config (vs : vschema) (g : vforest) : vres := impl_validate_ns (cfg_view vs) g.
Definition impl_parse_validate_config (vs : vschema) ty (f : forest) : vres := impl_parse_validate_ns (cfg_view vs) ty f.

(* ------------------------------------------------------------------------------------------- *)
(* the RFC rule (group) an error class stands for, and what is reported for it                   *)
(* ------------------------------------------------------------------------------------------- *)
Definition class_ok (ty : sid -> bytes -> bool) (vs : vschema) (f : forest) (e : verr) : bool :=
  match e with
  | EFuel => true
  | EType => rfc_types ty vs f
  | EKey => rfc_keys vs f
  | EDup => rfc_single vs f && rfc_keyuniq vs f && rfc_llval vs f
  | EDupCase => rfc_case vs f
  | ENoMand => rfc_mand vs f
  | ENoMandChoice => rfc_mand_choice vs f
  | ENoMin => rfc_min vs f
  | ENoMax => rfc_max vs f
  | ENoUniq => rfc_unique vs f
  | EState => true          (* only with LYD_VALIDATE_NO_STATE: class_ok_config *)
  end.

(* with LYD_VALIDATE_NO_STATE *)
Definition class_ok_config (ty : sid -> bytes -> bool) (vs : vschema) (f : forest) (e : verr) : bool :=
  match e with
  | EState => rfc_nostate (cfg_view vs) f
  | _ => class_ok ty (cfg_view vs) f e
  end.

Definition all_classes : list verr :=
  [EFuel; EType; EKey; EDup; EDupCase; ENoMand; ENoMandChoice; ENoMin; ENoMax; ENoUniq; EState].

(* (LY_ERR, LY_VECODE, error-app-tag) of a validation error: LY_EVALID = 7, LYVE_DATA = 9 (Gen/Consts.v: checked
   against the headers by the correspondence run, which compares rc / vecode / app-tag of every rejected case) *)
Definition report (e : verr) : N * N * bytes := (7, 9, apptag e).

(* what a parser hands over (for a document without empty non-presence containers): no LYD_DEFAULT flag, every
   non-presence container has a child; every node is flagged new (mark_new) *)
Definition fresh (vs : vschema) (f : forest) : bool := nodflt f && no_empty_np vs f.


(* ------------------------------------------------------------------------------------------- *)
(* identityref with several bases (plugins_types/identityref.c identityref_check_base,           *)
(* plugins_types.c lyplg_type_identity_isderived) - a type predicate for type_ok                  *)
(* ------------------------------------------------------------------------------------------- *)
(* the compiled identities: an edge (b, d) says that identity d has a base statement naming b, i.e. d is in the
   lysc_ident.derived array of b *)
Definition idedges := list (N * N).
Definition id_derived (E : idedges) (b : N) : list N := map snd (filter (fun e => fst e =? b) E).

(* lyplg_type_identity_isderived(base, der): der is in base->derived or derived from one of them (the C recursion ends
   because the compiler rejects circular bases; fuel = number of edges suffices then: ValidP.isderived_iff) *)
Fixpoint isderived (E : idedges) (fuel : nat) (base der : N) : bool :=
  match fuel with
  | O => false
  | S k => existsb (fun d => (d =? der) || isderived E k d der) (id_derived E base)
  end.

(* identityref_check_base: the identity must be derived from ALL the bases of the type (RFC 7950 9.10.2) *)
Definition idref_check (E : idedges) (bases : list N) (ident : N) : bool :=
  forallb (fun b => isderived E (length E) b ident) bases.
