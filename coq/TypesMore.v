(* TypesMore.v — models of further built-in types (slice types2, property C03):
     - enumeration   lyplg_type_store_enum / lyplg_type_sort_enum        (src/plugins_types/enumeration.c)
     - bits          bits_str2bitmap / bits_bitmap2items / bits_items2canon / compare / sort (src/plugins_types/bits.c)
     - binary        binary_base64_newlines / _validate / _decode / _encode, store, compare, sort (src/plugins_types/binary.c)
     - string        ly_utf8len (src/ly_common.c) and the length restriction of lyplg_type_store_string (string.c)
     - union         union_find_type / lyplg_type_compare_union / lyplg_type_sort_union (src/plugins_types/union.c)
   as coded, with the Spec definitions (RFC 7950 section 9, RFC 4648) at the end of each part.
   Values never contain a NUL byte (RFC 7950 6.1.3; no parser and no C string can deliver one): ly_strncmp() and the
   str* functions are modelled on NUL-free input. Model only; proofs in TypesMoreP.v. *)
From LY Require Import Base TypesMisc IntLex Utf8.
Local Open Scope N_scope.

(* ====================================================================================== *)
(* enumeration (RFC 7950 9.6)                                                              *)
(* ====================================================================================== *)

(* type_enum->enums: (name, value) in declaration order *)
Definition enum_item : Type := (bytes * Z)%type.
Definition enum_def : Type := list enum_item.

(* LY_ARRAY_FOR(type_enum->enums, u) if (!ly_strncmp(enums[u].name, value, value_len)) break; *)
Fixpoint enum_find (e : enum_def) (s : bytes) : option enum_item :=
  match e with
  | [] => None
  | it :: r => if beq_bytes (fst it) s then Some it else enum_find r s
  end.

Definition enum_store (e : enum_def) (s : bytes) : res enum_item :=
  match enum_find e s with Some it => Ok it | None => Err E_VALID end.

(* the canonical string is the stored value text, which is the name *)
Definition enum_canon (it : enum_item) : bytes := fst it.

(* lyplg_type_compare_simple: the canonical strings are the same dictionary entry *)
Definition enum_compare (a b : enum_item) : bool := beq_bytes (fst a) (fst b).

(* lyplg_type_sort_enum: if (v1 > v2) return -1; else if (v1 < v2) return 1; else 0 -- i.e. DEscending assigned value *)
Definition enum_sort (a b : enum_item) : comparison :=
  if (snd b <? snd a)%Z then Lt else if (snd a <? snd b)%Z then Gt else Eq.

(* what the schema compiler guarantees (RFC 7950 9.6.4.1 / 9.6.4.2: names and values unique) *)
Definition enum_wf (e : enum_def) : Prop := NoDup (map fst e) /\ NoDup (map snd e).

(* ====================================================================================== *)
(* bits (RFC 7950 9.7)                                                                     *)
(* ====================================================================================== *)

(* type_bits->bits: (name, position); lys_compile_type_enums keeps the array ordered by position *)
Definition bit_item : Type := (bytes * N)%type.
Definition bits_def : Type := list bit_item.

(* the isspace()-separated words of the value, left to right. Computed from the right end: the flag says whether the
   first word of the result starts right at the current position (bits_str2bitmap: skip whitespaces, parse bit name) *)
Fixpoint tokens_r (s : bytes) : list bytes * bool :=
  match s with
  | [] => ([], false)
  | c :: r =>
      let '(ts, opened) := tokens_r r in
      if is_space c then (ts, false)
      else if opened then match ts with t :: ts' => ((c :: t) :: ts', true) | [] => ([[c]], true) end
      else ([c] :: ts, true)
  end.
Definition tokens (s : bytes) : list bytes := fst (tokens_r s).

(* LY_ARRAY_FOR(type->bits, u) if (!ly_strncmp(type->bits[u].name, value + idx_start, len)) ... *)
Fixpoint bits_find (d : bits_def) (t : bytes) : option N :=
  match d with
  | [] => None
  | it :: r => if beq_bytes (fst it) t then Some (snd it) else bits_find r t
  end.

(* the loop body of bits_str2bitmap per word: unknown name -> error; bit already set -> error; set the bit.
   The bitmap is the number whose binary digits are the set positions (little-endian byte array in C). *)
Fixpoint bits_fill (d : bits_def) (toks : list bytes) (bm : N) : res N :=
  match toks with
  | [] => Ok bm
  | t :: r =>
      match bits_find d t with
      | None => Err E_VALID
      | Some p => if N.testbit bm p then Err E_VALID else bits_fill d r (N.setbit bm p)
      end
  end.

Definition bits_store (d : bits_def) (s : bytes) : res N := bits_fill d (tokens s) 0.

(* bits_items2canon: names joined by single spaces *)
Fixpoint join_sp (l : list bytes) : bytes :=
  match l with
  | [] => []
  | [x] => x
  | x :: r => x ++ 32 :: join_sp r
  end.

(* bits_bitmap2items walks the bit positions 0 .. last upwards and appends the item of every set position;
   as the compiled array is ordered by position this is the sub-sequence of the array with the bit set *)
Definition bits_items (d : bits_def) (bm : N) : list bit_item := filter (fun it => N.testbit bm (snd it)) d.
Definition bits_canon (d : bits_def) (bm : N) : bytes := join_sp (map fst (bits_items d bm)).

(* lyplg_type_compare_bits: memcmp of the two bitmaps == 0 *)
Definition bits_compare (a b : N) : bool := a =? b.

(* the bitmap as [n] little-endian bytes *)
Fixpoint le_bytes (n : nat) (x : N) : bytes :=
  match n with O => [] | S k => x mod 256 :: le_bytes k (x / 256) end.

(* lyplg_type_bits_bitmap_size *)
Definition bits_size (d : bits_def) : nat :=
  let lastp := snd (last d ([], 0)) in
  let needed := N.to_nat ((lastp + 1) / 8 + (if (lastp + 1) mod 8 =? 0 then 0 else 1)) in
  if (Nat.eqb needed 1 || Nat.eqb needed 2)%bool then needed
  else if Nat.ltb needed 5 then 4%nat else if Nat.ltb needed 9 then 8%nat else needed.

(* lyplg_type_sort_bits: memcmp(bitmap1, bitmap2, size): bytewise from the byte holding positions 0..7 *)
Definition bits_sort (n : nat) (a b : N) : comparison := cmp_bytes (le_bytes n a) (le_bytes n b).

(* compiler guarantees: unique names and positions (RFC 7950 9.7.4) *)
Definition bits_wf (d : bits_def) : Prop := NoDup (map fst d) /\ NoDup (map snd d).
(* a bit name is an identifier: not empty, no white space *)
Definition is_word (w : bytes) : Prop := w <> [] /\ forallb (fun c => negb (is_space c)) w = true.
Definition bits_names_ok (d : bits_def) : Prop := forall it, In it d -> is_word (fst it).
(* every set bit is a declared position *)
Definition bits_supp (d : bits_def) (bm : N) : Prop := forall p, N.testbit bm p = true -> In p (map snd d).

(* ====================================================================================== *)
(* binary (RFC 7950 9.8, RFC 4648 section 4)                                               *)
(* ====================================================================================== *)

(* b64_etable *)
Definition b64_etable : bytes :=
  [65;66;67;68;69;70;71;72;73;74;75;76;77;78;79;80;81;82;83;84;85;86;87;88;89;90;
   97;98;99;100;101;102;103;104;105;106;107;108;109;110;111;112;113;114;115;116;117;118;119;120;121;122;
   48;49;50;51;52;53;54;55;56;57;43;47].
Definition b64_enc (v : N) : N := nth (N.to_nat v) b64_etable 0.

(* b64_dtable[256] (it also maps , - . _ ; every other byte is 0) *)
Definition b64_dec (c : N) : N :=
  if c =? 43 then 62 else if c =? 44 then 63 else if c =? 45 then 62 else if c =? 46 then 62 else if c =? 47 then 63
  else if (48 <=? c) && (c <=? 57) then c + 4
  else if (65 <=? c) && (c <=? 90) then c - 65
  else if c =? 95 then 63
  else if (97 <=? c) && (c <=? 122) then c - 71
  else 0.

(* the character test of binary_base64_validate *)
Definition is_b64 (c : N) : bool :=
  ((65 <=? c) && (c <=? 90)) || ((97 <=? c) && (c <=? 122)) || ((48 <=? c) && (c <=? 57)) || (c =? 43) || (c =? 47).

(* binary_base64_encode. The C expressions (d[i] >> 2) & 0x3F, ((d[i] & 3) << 4) | ((d[i+1] & 0xF0) >> 4), ... on
   bytes are these quotients and remainders (the or-ed fields do not overlap) *)
Fixpoint b64_encode (d : bytes) : bytes :=
  match d with
  | a :: b :: c :: r =>
      b64_enc (a / 4) :: b64_enc ((a mod 4) * 16 + b / 16) :: b64_enc ((b mod 16) * 4 + c / 64) :: b64_enc (c mod 64)
        :: b64_encode r
  | [a] => [b64_enc (a / 4); b64_enc ((a mod 4) * 16); 61; 61]
  | [a; b] => [b64_enc (a / 4); b64_enc ((a mod 4) * 16 + b / 16); b64_enc ((b mod 16) * 4); 61]
  | [] => []
  end.

(* binary_base64_newlines: only when value[64] is a line feed; then every 65th character must be a line feed and is
   removed (a final line may be shorter or complete, a line feed after a complete last line is taken as well).
   [col] = characters copied since the last line start. *)
Fixpoint b64_nl_strip (s : bytes) (col : nat) : res bytes :=
  match s with
  | [] => Ok []
  | c :: r =>
      if Nat.eqb col 64 then (if c =? 10 then b64_nl_strip r 0 else Err E_VALID)
      else bind (b64_nl_strip r (S col)) (fun t => Ok (c :: t))
  end.
Definition b64_newlines (s : bytes) : res bytes :=
  if (Nat.ltb (length s) 65 || negb (nth 64 s 0 =? 10))%bool then Ok s else b64_nl_strip s 0.

(* binary_base64_validate: alphabet characters, then at most two =, nothing else, length divisible by 4 *)
Fixpoint skip_b64 (s : bytes) : bytes :=
  match s with
  | c :: r => if is_b64 c then skip_b64 r else s
  | [] => []
  end.
Definition b64_shape (rest : bytes) : bool :=
  match rest with [] => true | [a] => a =? 61 | [a; b] => (a =? 61) && (b =? 61) | _ => false end.
Definition b64_validate (s : bytes) : bool :=
  b64_shape (skip_b64 s) && Nat.eqb (Nat.modulo (length s) 4) 0.

(* binary_base64_decode. pad_chars (sic) is the number of octets in the last, padded group:
     0 when the text is empty or does not end in =, 1 when it ends in ==, 2 when it ends in one =.
   (For the one-character text = the C code reads value[-1]; unreachable after validation.) *)
Fixpoint b64_pad (s : bytes) : nat :=
  match s with
  | [] => 0%nat
  | [a] => if a =? 61 then 2%nat else 0%nat
  | [a; b] => if b =? 61 then (if a =? 61 then 1%nat else 2%nat) else 0%nat
  | _ :: ((_ :: _ :: _) as r) => b64_pad r
  end.

(* n = d0 << 18 | d1 << 12 | d2 << 6 | d3; str[j++] = n >> 16; n >> 8 & 0xFF; n & 0xFF *)
Definition b64_group (a b c d : N) : bytes :=
  let n := b64_dec a * 262144 + b64_dec b * 4096 + b64_dec c * 64 + b64_dec d in
  [n / 65536; (n / 256) mod 256; n mod 256].

(* the loop over octet_count / 4 complete groups; returns the octets and the unread rest *)
Fixpoint b64_groups (k : nat) (s : bytes) : bytes * bytes :=
  match k with
  | O => ([], s)
  | S k' =>
      match s with
      | a :: b :: c :: d :: r => let '(o, rest) := b64_groups k' r in (b64_group a b c d ++ o, rest)
      | _ => ([], s)
      end
  end.

(* if (pad_chars) { n = d0 << 18 | d1 << 12; str[size - pad] = n >> 16; if (pad == 2) { n |= d2 << 6; n >>= 8; str[..+1] = n; } }
   (stores into char: the low 8 bits) *)
Definition b64_tail (pad : nat) (rest : bytes) : bytes :=
  match pad with
  | O => []
  | S O => let n := b64_dec (nth 0 rest 0) * 262144 + b64_dec (nth 1 rest 0) * 4096 in [(n / 65536) mod 256]
  | _ => let n := b64_dec (nth 0 rest 0) * 262144 + b64_dec (nth 1 rest 0) * 4096 + b64_dec (nth 2 rest 0) * 64 in
         [(n / 65536) mod 256; (n / 256) mod 256]
  end.

Definition b64_decode (s : bytes) : bytes :=
  let pad := b64_pad s in
  let k := (Nat.div (length s + 3) 4 - (if Nat.eqb pad 0 then 0 else 1))%nat in
  let '(o, rest) := b64_groups k s in
  o ++ b64_tail pad rest.

(* binary_base64_is_canonical (since /repo commit c0ee3aa): the unused bits of the last character before the padding
   are zero. value_len < 4 or no = at the end: nothing unused. Two = : (dtable[value[len - 3]] & 0x0F) == 0,
   one = : (dtable[value[len - 2]] & 0x03) == 0. On a validated text. *)
Definition b64_is_canonical (s : bytes) : bool :=
  let n := length s in
  if (Nat.ltb n 4 || negb (nth (n - 1) s 0 =? 61))%bool then true
  else if nth (n - 2) s 0 =? 61 then N.land (b64_dec (nth (n - 3) s 0)) 15 =? 0
  else N.land (b64_dec (nth (n - 2) s 0)) 3 =? 0.

(* lyplg_type_store_binary (text formats): stored value = (octets, canonical string). Since /repo commit c0ee3aa
   the text as written (after the line feeds were removed) is kept as the canonical string only when it is the
   canonical encoding (b64_is_canonical); otherwise no canonical string is stored and lyplg_type_print_binary
   generates it with binary_base64_encode from the octets when it is asked for (modelled eagerly: the second
   component is what lyd_get_value() returns). The length restriction is checked on the number of octets. *)
Definition bin_val : Type := (bytes * bytes)%type.
Definition binary_store (parts : list (Z * Z)) (s : bytes) : res bin_val :=
  match b64_newlines s with
  | Err e => Err e
  | Ok t =>
      if b64_validate t then
        let d := b64_decode t in
        if validate_range parts (Z.of_nat (length d)) then Ok (d, if b64_is_canonical t then t else b64_encode d)
        else Err E_RANGE
      else Err E_VALID
  end.
Definition binary_canon (v : bin_val) : bytes := snd v.

(* lyplg_type_compare_binary: same size and memcmp == 0 *)
Definition binary_compare (a b : bin_val) : bool := beq_bytes (fst a) (fst b).
(* lyplg_type_sort_binary: by size, then memcmp *)
Definition binary_sort (a b : bin_val) : comparison :=
  match Nat.compare (length (fst a)) (length (fst b)) with
  | Eq => cmp_bytes (fst a) (fst b)
  | c => c
  end.

(* Spec: the RFC 4648 section 4 text of octets d is b64_encode d (3.2: padded, 3.5: zero pad bits, 3.1/3.3: no line
   feeds or other characters) *)
Definition rfc4648_canonical (s : bytes) : Prop := exists d, bytes_ok d = true /\ s = b64_encode d.

(* ====================================================================================== *)
(* string length (RFC 7950 9.4.4: the length is counted in Unicode characters)             *)
(* ====================================================================================== *)

(* utf8_char_length_table, indexed by the first byte *)
Definition utf8_tab (c : N) : nat :=
  if c <? 192 then 1%nat else if c <? 224 then 2%nat else if c <? 240 then 3%nat else if c <? 248 then 4%nat
  else if c <? 252 then 5%nat else if c <? 254 then 6%nat else 1%nat.

(* ly_utf8len(str, bytes): while (ptr - str < bytes && *ptr) { ++len; ptr += table[*ptr]; }
   [skip] = bytes of the current character that the pointer still jumps over (they are not looked at) *)
Fixpoint utf8len_k (skip : nat) (s : bytes) : N :=
  match s with
  | [] => 0
  | c :: r =>
      match skip with
      | S k => utf8len_k k r
      | O => if c =? 0 then 0 else 1 + utf8len_k (utf8_tab c - 1) r
      end
  end.
Definition utf8len (s : bytes) : N := utf8len_k 0 s.

(* lyplg_type_store_string without patterns: string_check_chars (ly_checkutf8 over the whole value), then the length
   restriction on ly_utf8len; the canonical string is the value *)
Definition str_store (parts : list (Z * Z)) (s : bytes) : res bytes :=
  if all_checkutf8 s then
    if validate_range parts (Z.of_N (utf8len s)) then Ok s else Err E_RANGE
  else Err E_VALID.
(* lyplg_type_compare_simple / lyplg_type_sort_simple (strcmp of the canonical strings) *)
Definition str_compare (a b : bytes) : bool := beq_bytes a b.
Definition str_sort (a b : bytes) : comparison := cmp_bytes a b.

(* Spec: s is the concatenation of n character encodings, each accepted by ly_checkutf8 *)
Inductive utf8_chars : bytes -> N -> Prop :=
| uc_nil : utf8_chars [] 0
| uc_cons ch r n :
    ch <> [] -> checkutf8 (ch ++ r) = Some (length ch) -> utf8_chars r n -> utf8_chars (ch ++ r) (n + 1).

(* ====================================================================================== *)
(* union (RFC 7950 9.12)                                                                   *)
(* ====================================================================================== *)

(* member types (those with a model) and their stored values *)
Inductive mty : Type :=
| MInt (t : ity) (parts : list (Z * Z))
| MEnum (e : enum_def)
| MStr (parts : list (Z * Z)).
Inductive mval : Type :=
| VInt (z : Z)
| VEnum (it : enum_item)
| VStr (s : bytes).

Definition m_store (m : mty) (s : bytes) : res mval :=
  match m with
  | MInt t parts => match int_store t parts s with Ok z => Ok (VInt z) | Err e => Err e end
  | MEnum e => match enum_store e s with Ok it => Ok (VEnum it) | Err e => Err e end
  | MStr parts => match str_store parts s with Ok x => Ok (VStr x) | Err e => Err e end
  end.
Definition m_canon (v : mval) : bytes :=
  match v with VInt z => int_canon z | VEnum it => enum_canon it | VStr s => s end.
Definition m_compare (a b : mval) : bool :=
  match a, b with
  | VInt x, VInt y => int_compare x y
  | VEnum x, VEnum y => enum_compare x y
  | VStr x, VStr y => str_compare x y
  | _, _ => false
  end.
Definition m_sort (a b : mval) : comparison :=
  match a, b with
  | VInt x, VInt y => int_sort x y
  | VEnum x, VEnum y => enum_sort x y
  | VStr x, VStr y => str_sort x y
  | _, _ => Eq
  end.

(* union_find_type: for (u = 0; u < count; ++u) { ret = union_store_type(u); if (!ret) break; }.
   With a text format every member is tried with the original text; LYPLG_TYPE_STORE_ONLY is cleared, so the
   restrictions of the members are always checked. Stored value = (member index, member value). *)
Definition uval : Type := (nat * mval)%type.
Fixpoint union_find (ms : list mty) (s : bytes) (i : nat) : res uval :=
  match ms with
  | [] => Err E_VALID
  | m :: r => match m_store m s with Ok v => Ok (i, v) | Err _ => union_find r s (S i) end
  end.
Definition union_store (ms : list mty) (s : bytes) : res uval := union_find ms s 0.

(* the canonical string of the union value is the member value's *)
Definition union_canon (v : uval) : bytes := m_canon (snd v).

(* lyplg_type_compare_union: different member types -> not equal; else the member's compare *)
Definition union_compare (a b : uval) : bool := Nat.eqb (fst a) (fst b) && m_compare (snd a) (snd b).

(* lyplg_type_sort_union: same member type -> the member's sort; else the value of the member type that comes FIRST in
   the union is the greater one (rc = 1 when val1's type is met first) *)
Definition union_sort (a b : uval) : comparison :=
  if Nat.eqb (fst a) (fst b) then m_sort (snd a) (snd b)
  else if Nat.ltb (fst a) (fst b) then Gt else Lt.

(* a value that the member m can have produced *)
Definition m_val_ok (m : mty) (v : mval) : Prop :=
  match m, v with
  | MInt _ _, VInt _ => True
  | MEnum e, VEnum it => In it e
  | MStr _, VStr _ => True
  | _, _ => False
  end.
Definition u_val_ok (ms : list mty) (v : uval) : Prop :=
  exists m, nth_error ms (fst v) = Some m /\ m_val_ok m (snd v).
Definition ms_wf (ms : list mty) : Prop := forall e, In (MEnum e) ms -> enum_wf e.

(* ====================================================================================== *)
(* inet:ipv4-prefix: the host bits (src/plugins_types/ipv4_prefix.c ipv4prefix_zero_host)  *)
(* ====================================================================================== *)

(* mask = 0; for (i = 0; i < 32; ++i) { mask <<= 1; if (prefix > i) mask |= 1; }   on uint32_t *)
Fixpoint ip4_mask_f (n : nat) (i prefix mask : N) : N :=
  match n with
  | O => mask
  | S n' =>
      (* after the shift the low bit is 0: or-ing 1 adds 1 *)
      ip4_mask_f n' (i + 1) prefix ((2 * mask) mod 4294967296 + (if i <? prefix then 1 else 0))
  end.
Definition ip4_mask (prefix : N) : N := ip4_mask_f 32 0 prefix 0.

(* addr->s_addr &= htonl(mask): on the address as a number in host order *)
Definition ip4_zero_host (addr prefix : N) : N := N.land addr (ip4_mask prefix).

(* the stored value (struct lyd_value_ipv4_prefix: addr, prefix) of the text a.b.c.d/len; parsing and printing the dotted
   quad (inet_pton / inet_ntop) are not modelled *)
Definition ip4p_store (addr prefix : N) : N * N := (ip4_zero_host addr prefix, prefix).
(* lyplg_type_compare_ipv4_prefix: memcmp of the two structures == 0 *)
Definition ip4p_compare (a b : N * N) : bool := (fst a =? fst b) && (snd a =? snd b).
