(* XPathConv.v — slice xpath (C08): XPath numbers and the conversion kernels of src/xpath.c.

   Two families of definitions:
     spec_*  what the W3C XPath 1.0 recommendation (sections 3.4, 3.5, 4.2, 4.4) defines,
     impl_*  what src/xpath.c does (as coded, including its departures from the recommendation).

   Numbers.  XPath numbers are IEEE 754 doubles; libyang stores [long double] (x87 extended, 64-bit mantissa).
   A finite number is modelled EXACTLY as sign + non-negative rational magnitude; every arithmetic result is rounded
   to the nearest value with a [prec]-bit mantissa, ties to even ([rnd]): prec = 53 is IEEE double (the recommendation),
   prec = 64 is the long double arithmetic of the code. The exponent range is not modelled (no overflow to infinity,
   no denormals): the generators keep magnitudes between 2^-1000 and 2^1000.
   Negative zero is [XFin true 0]. *)
From Coq Require Import QArith Qround Qabs.
From LY Require Import Base.
From Coq Require Import ZifyBool ZifyNat ZifyN.
Local Open Scope Z_scope.

Inductive xnum : Type :=
| XNaN
| XInf (neg : bool)
| XFin (neg : bool) (m : Q).       (* m >= 0 *)

(* ------------------------------------------------------------------------------------------------ *)
(* rounding to [prec] bits, nearest, ties to even                                                   *)
(* ------------------------------------------------------------------------------------------------ *)
Definition pow2 (e : Z) : Q := if 0 <=? e then inject_Z (2 ^ e) else 1 # (Z.to_pos (2 ^ (- e))).

Definition rnd_pos (prec : Z) (q : Q) : Q :=
  let a := Qnum q in
  let d := Zpos (Qden q) in
  let e0 := Z.log2 a - Z.log2 d - prec in
  let scaled := fun e : Z => if 0 <=? e then (a, d * 2 ^ e) else (a * 2 ^ (- e), d) in
  let e := if (fst (scaled e0) / snd (scaled e0)) <? 2 ^ prec then e0 else e0 + 1 in
  let n1 := fst (scaled e) in
  let d1 := snd (scaled e) in
  let m := n1 / d1 in
  let r := n1 mod d1 in
  let m' := match 2 * r ?= d1 with
            | Lt => m
            | Gt => m + 1
            | Eq => if Z.even m then m else m + 1
            end in
  Qred (inject_Z m' * pow2 e).

Definition rnd (prec : Z) (q : Q) : Q := if Qnum q <=? 0 then 0%Q else rnd_pos prec q.

Definition q_is_zero (q : Q) : bool := Qnum q =? 0.
Definition q_is_int (q : Q) : bool := Qnum q mod Zpos (Qden q) =? 0.
(* the integer an integral rational denotes *)
Definition q_int_val (q : Q) : Z := Qnum q / Zpos (Qden q).

(* ------------------------------------------------------------------------------------------------ *)
(* IEEE arithmetic on xnum (add sub mul div, fmod, negation, comparisons)                           *)
(* ------------------------------------------------------------------------------------------------ *)
Definition x_zero : xnum := XFin false 0.
Definition x_of_Z (z : Z) : xnum := XFin (z <? 0) (inject_Z (Z.abs z)).
Definition x_of_nat (n : nat) : xnum := XFin false (inject_Z (Z.of_nat n)).

(* signed rational of a finite number *)
Definition sq (neg : bool) (m : Q) : Q := if neg then Qopp m else m.
(* a non-zero signed rational as a number, rounded *)
Definition x_of_q (prec : Z) (q : Q) : xnum :=
  if Qnum q <? 0 then XFin true (rnd prec (Qopp q)) else XFin false (rnd prec q).

Definition x_neg (a : xnum) : xnum :=
  match a with
  | XNaN => XNaN
  | XInf n => XInf (negb n)
  | XFin n m => XFin (negb n) m
  end.

Definition x_add (prec : Z) (a b : xnum) : xnum :=
  match a, b with
  | XNaN, _ | _, XNaN => XNaN
  | XInf n1, XInf n2 => if Bool.eqb n1 n2 then XInf n1 else XNaN
  | XInf n1, XFin _ _ => XInf n1
  | XFin _ _, XInf n2 => XInf n2
  | XFin n1 m1, XFin n2 m2 =>
      if q_is_zero m1 && q_is_zero m2 then XFin (n1 && n2) 0
      else
        let s := Qred (Qplus (sq n1 m1) (sq n2 m2)) in
        if q_is_zero s then XFin false 0 else x_of_q prec s
  end.

Definition x_sub (prec : Z) (a b : xnum) : xnum := x_add prec a (x_neg b).

Definition x_mul (prec : Z) (a b : xnum) : xnum :=
  match a, b with
  | XNaN, _ | _, XNaN => XNaN
  | XInf n1, XInf n2 => XInf (xorb n1 n2)
  | XInf n1, XFin n2 m2 => if q_is_zero m2 then XNaN else XInf (xorb n1 n2)
  | XFin n1 m1, XInf n2 => if q_is_zero m1 then XNaN else XInf (xorb n1 n2)
  | XFin n1 m1, XFin n2 m2 => XFin (xorb n1 n2) (rnd prec (Qred (Qmult m1 m2)))
  end.

Definition x_div (prec : Z) (a b : xnum) : xnum :=
  match a, b with
  | XNaN, _ | _, XNaN => XNaN
  | XInf _, XInf _ => XNaN
  | XInf n1, XFin n2 _ => XInf (xorb n1 n2)
  | XFin n1 _, XInf n2 => XFin (xorb n1 n2) 0
  | XFin n1 m1, XFin n2 m2 =>
      if q_is_zero m2 then (if q_is_zero m1 then XNaN else XInf (xorb n1 n2))
      else XFin (xorb n1 n2) (rnd prec (Qred (Qmult m1 (Qinv m2))))
  end.

(* fmod: truncating remainder with the sign of the dividend; exact, no rounding *)
Definition x_mod (a b : xnum) : xnum :=
  match a, b with
  | XNaN, _ | _, XNaN => XNaN
  | XInf _, _ => XNaN
  | XFin n1 m1, XInf _ => XFin n1 m1
  | XFin n1 m1, XFin _ m2 =>
      if q_is_zero m2 then XNaN
      else XFin n1 (Qred (Qminus m1 (Qmult m2 (inject_Z (Qfloor (Qmult m1 (Qinv m2)))))))
  end.

(* comparison: None when unordered (a NaN operand) *)
Definition x_cmp (a b : xnum) : option comparison :=
  match a, b with
  | XNaN, _ | _, XNaN => None
  | XInf n1, XInf n2 => Some (if Bool.eqb n1 n2 then Eq else if n1 then Lt else Gt)
  | XInf n1, XFin _ _ => Some (if n1 then Lt else Gt)
  | XFin _ _, XInf n2 => Some (if n2 then Gt else Lt)
  | XFin n1 m1, XFin n2 m2 => Some (Qcompare (sq n1 m1) (sq n2 m2))
  end.

Definition x_eq (a b : xnum) : bool := match x_cmp a b with Some Eq => true | _ => false end.
Definition x_lt (a b : xnum) : bool := match x_cmp a b with Some Lt => true | _ => false end.
Definition x_le (a b : xnum) : bool := match x_cmp a b with Some Lt | Some Eq => true | _ => false end.

Definition x_is_nan (a : xnum) : bool := match a with XNaN => true | _ => false end.
Definition x_is_zero (a : xnum) : bool := match a with XFin _ m => q_is_zero m | _ => false end.
Definition x_signbit (a : xnum) : bool := match a with XNaN => false | XInf n => n | XFin n _ => n end.

(* ------------------------------------------------------------------------------------------------ *)
(* decimal / hexadecimal text                                                                       *)
(* ------------------------------------------------------------------------------------------------ *)
Local Open Scope N_scope.

(* leading decimal digits: value, number of digits, rest *)
Fixpoint take_digits (s : bytes) (acc : N) (cnt : nat) : N * nat * bytes :=
  match s with
  | d :: s' => if is_digit d then take_digits s' (10 * acc + (d - 48)) (S cnt) else (acc, cnt, s)
  | [] => (acc, cnt, s)
  end.

(* small scanners (written with tests instead of numeral patterns: those extract to very large matches) *)
Definition eat (c : N) (s : bytes) : option bytes :=
  match s with b :: r => if b =? c then Some r else None | [] => None end.
(* optional sign: (negative?, rest); '+' only when [plus] *)
Definition eat_sign (plus : bool) (s : bytes) : bool * bytes :=
  match s with
  | b :: r => if b =? 45 then (true, r) else if plus && (b =? 43) then (false, r) else (false, s)
  | [] => (false, s)
  end.

(* Digits ('.' Digits?)? | '.' Digits  with at least one digit: exact value and rest *)
Definition parse_mantissa (s : bytes) : option (Q * bytes) :=
  let '(v1, c1, r1) := take_digits s 0 0%nat in
  match eat 46 r1 with
  | Some r1' =>
      let '(v2, c2, r2) := take_digits r1' 0 0%nat in
      if (c1 + c2 =? 0)%nat then None
      else Some (Qred (Qmake (Z.of_N (v1 * 10 ^ N.of_nat c2 + v2)) (Z.to_pos (10 ^ Z.of_nat c2))), r2)
  | None => if (c1 =? 0)%nat then None else Some (inject_Z (Z.of_N v1), r1)
  end.

Fixpoint drop_while (f : N -> bool) (s : bytes) : bytes :=
  match s with
  | b :: s' => if f b then drop_while f s' else s
  | [] => []
  end.

Definition trim_right (f : N -> bool) (s : bytes) : bytes := rev (drop_while f (rev s)).

(* XPath 1.0 section 4.4 number(): optional whitespace, optional '-', Number, optional whitespace; anything else NaN *)
Definition spec_s2n (prec : Z) (s : bytes) : xnum :=
  let s1 := trim_right is_xmlws (drop_while is_xmlws s) in
  let '(neg, s2) := eat_sign false s1 in
  match parse_mantissa s2 with
  | Some (q, []) => XFin neg (rnd prec q)
  | _ => XNaN
  end.

(* cast_string_to_number() since /repo b906576: skip XML white space, an optional '-', digits, an optional '.' with
   digits, skip XML white space; NaN unless a digit was seen and the end of the string is reached; then strtold() of
   the text from the sign on, which by then is a decimal constant without exponent (strtold stops at the trailing
   white space): the nearest long double of the exact decimal value. *)
Definition impl_s2n (prec : Z) (s : bytes) : xnum :=
  let s1 := drop_while is_xmlws s in
  let '(neg, s2) := eat_sign false s1 in
  match parse_mantissa s2 with
  | Some (q, r) => match drop_while is_xmlws r with
                   | [] => XFin neg (rnd prec q)
                   | _ :: _ => XNaN
                   end
  | None => XNaN
  end.

(* decimal digits of a non-negative integer *)
Definition Z_to_dec (z : Z) : bytes := N_to_dec (Z.to_N z).

Definition s_NaN : bytes := [78; 97; 78].
Definition s_Infinity : bytes := [73; 110; 102; 105; 110; 105; 116; 121].
Definition s_true : bytes := [116; 114; 117; 101].
Definition s_false : bytes := [102; 97; 108; 115; 101].

(* [q] rounded to [j] decimals, half to even: the integer q*10^j rounded *)
Definition round_dec (q : Q) (j : nat) : Z :=
  let t := Qred (Qmult q (inject_Z (10 ^ Z.of_nat j))) in
  let f := Qfloor t in
  let r := Qred (Qminus t (inject_Z f)) in
  match Qcompare r (1 # 2) with
  | Lt => f
  | Gt => (f + 1)%Z
  | Eq => if Z.even f then f else (f + 1)%Z
  end.

Fixpoint pad_zeros (n : nat) (s : bytes) : bytes :=
  match n with O => s | S k => if (length s <? n)%nat then 48 :: pad_zeros k s else s end.

(* fixed notation of u / 10^j : integer part, '.', j fraction digits *)
Definition fixed_dec (u : Z) (j : nat) : bytes :=
  let p := (10 ^ Z.of_nat j)%Z in
  Z_to_dec (u / p) ++ 46 :: pad_zeros j (Z_to_dec (u mod p)).

(* number of decimals needed so that the decimal reads back (at [prec] bits) as the same number *)
Fixpoint shortest_decimals (prec : Z) (m : Q) (j fuel : nat) : nat :=
  match fuel with
  | O => j
  | S f =>
      let u := round_dec m j in
      if Qeq_bool (rnd prec (Qmake u (Z.to_pos (10 ^ Z.of_nat j)))) m then j else shortest_decimals prec m (S j) f
  end.

(* bound of the search for the number of decimals: no long double needs more (LYXP_NUM_FRAC_DIGITS_MAX, the
   smallest positive long double is about 3.6e-4951) *)
Definition frac_digits_max : nat := Z.to_nat 4951.

(* XPath 1.0 section 4.2 string(): NaN, 0 for both zeros, Infinity, -Infinity, integers without point and without
   leading zeros, otherwise decimal notation with at least one digit before and after the point and as many more
   digits as needed to distinguish the number from all other IEEE 754 values *)
Definition spec_n2s (prec : Z) (x : xnum) : bytes :=
  match x with
  | XNaN => s_NaN
  | XInf neg => if neg then 45 :: s_Infinity else s_Infinity
  | XFin neg m =>
      if q_is_zero m then [48]
      else
        let sign : bytes := if neg then [45] else [] in
        if q_is_int m then sign ++ Z_to_dec (q_int_val m)
        else
          let j := shortest_decimals prec m 1 frac_digits_max in
          sign ++ fixed_dec (round_dec m j) j
  end.

(* lyxp_set_cast() LYXP_SET_NUMBER -> LYXP_SET_STRING since /repo 54bf5db: '%lld' when the number is in the long long
   range and (long long)num == num, otherwise '%.*Lf' with the precision 0, 1, 2, ... until strtold() of the text
   gives the number back (at most LYXP_NUM_FRAC_DIGITS_MAX). '%.*Lf' rounds the exact binary value half to even;
   with precision 0 no decimal point is printed. *)
(* '%.*Lf': no point when the precision is 0 *)
Definition print_dec (u : Z) (j : nat) : bytes :=
  match j with O => Z_to_dec u | S _ => fixed_dec u j end.

Definition ll_min : Z := (- 2 ^ 63)%Z.
Definition ll_max : Z := (2 ^ 63 - 1)%Z.

Definition impl_n2s (x : xnum) : bytes :=
  match x with
  | XNaN => s_NaN
  | XInf neg => if neg then 45 :: s_Infinity else s_Infinity
  | XFin neg m =>
      if q_is_zero m then [48]
      else
        let sign : bytes := if neg then [45] else [] in
        let v := (if neg then - q_int_val m else q_int_val m)%Z in
        if q_is_int m && (ll_min <=? v)%Z && (v <=? ll_max)%Z then sign ++ Z_to_dec (q_int_val m)
        else
          let j := shortest_decimals 64 m 0 (S frac_digits_max) in
          sign ++ print_dec (round_dec m j) j
  end.

(* ------------------------------------------------------------------------------------------------ *)
(* floor, ceiling, round                                                                            *)
(* ------------------------------------------------------------------------------------------------ *)
Definition spec_floor (x : xnum) : xnum :=
  match x with
  | XFin neg m =>
      if q_is_int m then x
      else if neg then XFin true (inject_Z (Qfloor m + 1)) else XFin false (inject_Z (Qfloor m))
  | _ => x
  end.

Definition spec_ceiling (x : xnum) : xnum :=
  match x with
  | XFin neg m =>
      if q_is_int m then x
      else if neg then XFin true (inject_Z (Qfloor m)) else XFin false (inject_Z (Qfloor m + 1))
  | _ => x
  end.

(* round(): closest integer, ties towards positive infinity; NaN, infinities and zeros unchanged; an argument
   below zero but not below -0.5 gives negative zero *)
Definition spec_round (prec : Z) (x : xnum) : xnum :=
  match x with
  | XFin neg m =>
      if q_is_zero m then x
      else if neg && Qle_bool m (1 # 2) then XFin true 0
      else spec_floor (x_add prec x (XFin false (1 # 2)))
  | _ => x
  end.

(* xpath_floor() / xpath_ceiling() as coded since /repo commit 0327904: floorl() / ceill(). Modelled from the C
   library definition - the largest integer not above (smallest not below) the signed value; NaN, infinities and
   zeros are returned as they are; a result of zero keeps the sign of the argument *)
Definition impl_floor (x : xnum) : xnum :=
  match x with
  | XFin neg m =>
      if q_is_zero m then x
      else let z := Qfloor (sq neg m) in
           if (z =? 0)%Z then XFin neg 0 else x_of_Z z
  | _ => x
  end.

Definition impl_ceiling (x : xnum) : xnum :=
  match x with
  | XFin neg m =>
      if q_is_zero m then x
      else let z := Qceiling (sq neg m) in
           if (z =? 0)%Z then XFin neg 0 else x_of_Z z
  | _ => x
  end.

(* numeric identity: equal numbers (both zeros are equal) or both NaN *)
Definition x_same (a b : xnum) : bool :=
  match a, b with
  | XNaN, XNaN => true
  | _, _ => x_eq a b
  end.

(* ------------------------------------------------------------------------------------------------ *)
(* strings: characters (recommendation) versus bytes (code)                                         *)
(* ------------------------------------------------------------------------------------------------ *)
Definition is_cont (b : N) : bool := (128 <=? b) && (b <? 192).

(* UTF-8 string as list of characters (each the list of its bytes): continuation bytes join the previous lead *)
Fixpoint utf8_chars_aux (s : bytes) (cur : bytes) (have : bool) : list bytes :=
  match s with
  | [] => if have then [rev cur] else []
  | b :: s' =>
      if is_cont b && have then utf8_chars_aux s' (b :: cur) true
      else (if have then [rev cur] else []) ++ utf8_chars_aux s' [b] true
  end.
Definition utf8_chars (s : bytes) : list bytes := utf8_chars_aux s [] false.
Definition byte_chars (s : bytes) : list bytes := map (fun b => [b]) s.

Definition str_chars (bytewise : bool) (s : bytes) : list bytes :=
  if bytewise then byte_chars s else utf8_chars s.

Definition spec_string_length (s : bytes) : nat := length (utf8_chars s).
Definition impl_string_length (s : bytes) : nat := length s.

Fixpoint find_sub (needle s : bytes) (fuel : nat) (before : bytes) : option (bytes * bytes) :=
  if starts_with needle s then Some (rev before, skipn (length needle) s)
  else match fuel, s with
       | S f, b :: s' => find_sub needle s' f (b :: before)
       | _, _ => None
       end.
(* (text before the first occurrence, text after it) *)
Definition split_at_sub (s needle : bytes) : option (bytes * bytes) := find_sub needle s (length s) [].

Definition str_contains (s needle : bytes) : bool :=
  match split_at_sub s needle with Some _ => true | None => false end.

(* normalize-space(): strip leading and trailing white space, runs of white space become one space *)
Fixpoint norm_space_aux (s : bytes) (pending started : bool) : bytes :=
  match s with
  | [] => []
  | b :: s' =>
      if is_xmlws b then norm_space_aux s' started started
      else (if pending then [32; b] else [b]) ++ norm_space_aux s' false true
  end.
Definition normalize_space (s : bytes) : bytes := norm_space_aux s false false.

(* translate(): characters of [from] replaced by the character at the same position of [to], removed when there
   is none; the first occurrence in [from] counts *)
Fixpoint tr_lookup (c : bytes) (from to : list bytes) : option (option bytes) :=
  match from with
  | [] => None
  | f :: from' =>
      if beq_bytes f c then Some (match to with t :: _ => Some t | [] => None end)
      else tr_lookup c from' (match to with _ :: to' => to' | [] => [] end)
  end.

Definition translate (bytewise : bool) (s from to : bytes) : bytes :=
  let fr := str_chars bytewise from in
  let tt := str_chars bytewise to in
  concat (map (fun c => match tr_lookup c fr tt with
                        | None => c
                        | Some (Some t) => t
                        | Some None => []
                        end) (str_chars bytewise s)).

(* substring(): the characters at positions p (from 1) with p >= round(start) and, with a length,
   p < round(start) + round(length), all in IEEE arithmetic (XPath 1.0 section 4.2). As coded (since /repo commit
   29acf26 the same comparisons on long double) the positions are those of BYTES ([bytewise]). *)
Fixpoint substr_aux (cs : list bytes) (p : nat) (rs : xnum) (lim : option xnum) : bytes :=
  match cs with
  | [] => []
  | c :: cs' =>
      let xp := x_of_nat p in
      (if x_le rs xp && match lim with Some l => x_lt xp l | None => true end then c else [])
        ++ substr_aux cs' (S p) rs lim
  end.

Definition substring (prec : Z) (bytewise : bool) (s : bytes) (start : xnum) (len : option xnum) : bytes :=
  let rs := spec_round prec start in
  substr_aux (str_chars bytewise s) 1 rs
    (match len with Some l => Some (x_add prec rs (spec_round prec l)) | None => None end).

(* ------------------------------------------------------------------------------------------------ *)
(* boolean()                                                                                        *)
(* ------------------------------------------------------------------------------------------------ *)
Definition num_to_bool (x : xnum) : bool :=
  match x with
  | XNaN => false
  | XInf _ => true
  | XFin _ m => negb (q_is_zero m)
  end.
Definition str_to_bool (s : bytes) : bool := match s with [] => false | _ => true end.
Definition bool_to_num (b : bool) : xnum := if b then x_of_Z 1 else x_zero.
Definition bool_to_str (b : bool) : bytes := if b then s_true else s_false.

(* ------------------------------------------------------------------------------------------------ *)
(* canonical forms used by set_comp_canonize() and by the key predicates of the hash fast path      *)
(* (type plugins of integer and decimal64 types; other types are stored as given)                   *)
(* ------------------------------------------------------------------------------------------------ *)
Inductive ltype : Type :=
| TyStr                               (* string, boolean, enumeration: no canonization *)
| TyInt (lo hi : Z)                   (* integer types *)
| TyDec (fd : nat).                   (* decimal64 with fd fraction digits *)

(* isspace() of C *)
Definition c_isspace (b : N) : bool := (b =? 32) || ((9 <=? b) && (b <=? 13)).

(* integer: white space, optional sign, digits, white space; in range -> decimal without sign for 0 *)
Definition canon_int (lo hi : Z) (s : bytes) : option bytes :=
  let s1 := trim_right c_isspace (drop_while c_isspace s) in
  let '(neg, s2) := eat_sign true s1 in
  let '(v, c, r) := take_digits s2 0 0%nat in
  match r with
  | [] => if (c =? 0)%nat then None
          else let z := (if neg then - Z.of_N v else Z.of_N v)%Z in
               if (lo <=? z)%Z && (z <=? hi)%Z then Some ((if (z <? 0)%Z then [45] else []) ++ Z_to_dec (Z.abs z))
               else None
  | _ => None
  end.

Fixpoint strip_trailing_zeros_rev (r : bytes) : bytes :=
  match r with b :: r' => if b =? 48 then strip_trailing_zeros_rev r' else r | [] => [] end.

(* decimal64: sign, digits, optional fraction of at most fd digits; canonical: no leading zeros, at least one
   fraction digit, no trailing zeros *)
Definition canon_dec (fd : nat) (s : bytes) : option bytes :=
  let s1 := trim_right c_isspace (drop_while c_isspace s) in
  let '(neg, s2) := eat_sign true s1 in
  let '(v1, c1, r1) := take_digits s2 0 0%nat in
  if (c1 =? 0)%nat then None
  else
    let '(fr, r2) := match eat 46 r1 with
                     | Some r1' => let '(_, c2, r2) := take_digits r1' 0 0%nat in (firstn c2 r1', r2)
                     | None => ([], r1)
                     end in
    match r2 with
    | [] =>
        let fr' := rev (strip_trailing_zeros_rev (rev fr)) in
        if (fd <? length fr')%nat then None
        else if (18 <? c1 + fd)%nat then None
        else
          let zero := (v1 =? 0) && match fr' with [] => true | _ => false end in
          Some ((if neg && negb zero then [45] else []) ++ N_to_dec v1 ++ 46 :: match fr' with [] => [48] | _ => fr' end)
    | _ => None
    end.

Definition canonize (ty : ltype) (s : bytes) : option bytes :=
  match ty with
  | TyStr => Some s
  | TyInt lo hi => canon_int lo hi s
  | TyDec fd => canon_dec fd s
  end.
