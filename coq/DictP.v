(* DictP.v - the string dictionary (Dict.v) refines a finite map string -> reference count.
   Built on the hash-table refinement of HashTableP.v: the concrete operations are related to the
   abstract table functions by insert_sim / lyht_remove_sim / set_val_sim, the abstract functions are
   total on duplicate-free tables (a_insert_keyed / a_remove_keyed with key = the string). *)
From LY Require Import Base HashFn HashTable HashTableP Dict.
From LY.Gen Require Import Consts.
From Coq Require Import ZifyBool ZifyNat ZifyN Permutation.
Local Open Scope N_scope.

Definition dkey (v : dval) : bytes := fst v.

Lemma dveq_key md a b : dveq md a b = true <-> dkey a = dkey b.
Proof. unfold dveq, dkey. apply beq_bytes_eq. Qed.

Lemma beq_bytes_refl a : beq_bytes a a = true.
Proof. now apply beq_bytes_eq. Qed.

Lemma beq_bytes_neq a b : beq_bytes a b = false <-> a <> b.
Proof.
  split.
  - intros H E. apply beq_bytes_eq in E. congruence.
  - intro H. destruct (beq_bytes a b) eqn:E; [|reflexivity]. apply beq_bytes_eq in E. contradiction.
Qed.

(* ---- the content of a dictionary: entries (hash, (string, refcount)) ---- *)
Definition estr (e : N * dval) : bytes := fst (snd e).
Definition ecnt (e : N * dval) : N := snd (snd e).
Definition dents (m : amm dval) : list (N * dval) := concat (a_bk m).

(* number of references the dictionary holds for string x *)
Fixpoint cntl (l : list (N * dval)) (x : bytes) : N :=
  match l with
  | [] => 0
  | e :: l' => (if beq_bytes (estr e) x then ecnt e else 0) + cntl l' x
  end.

Lemma cntl_app l1 l2 x : cntl (l1 ++ l2) x = cntl l1 x + cntl l2 x.
Proof. induction l1 as [|e l1 IH]; cbn; [reflexivity|]. rewrite IH. lia. Qed.

Lemma cntl_perm l l' x : Permutation l l' -> cntl l x = cntl l' x.
Proof. induction 1; cbn; lia. Qed.

Lemma cntl_zero l x : (forall e, In e l -> estr e <> x) -> cntl l x = 0.
Proof.
  induction l as [|e l IH]; cbn; intro H; [reflexivity|].
  assert (E : beq_bytes (estr e) x = false) by (apply beq_bytes_neq, H; now left).
  rewrite E, IH; [reflexivity|]. intros e' He'. apply H. now right.
Qed.

Lemma cntl_at l1 e l2 : NoDup (map estr (l1 ++ e :: l2)) ->
  cntl (l1 ++ e :: l2) (estr e) = ecnt e.
Proof.
  intro Hnd. rewrite cntl_app. cbn [cntl]. rewrite beq_bytes_refl.
  rewrite map_app in Hnd. cbn [map] in Hnd.
  rewrite (cntl_zero l1), (cntl_zero l2); [lia| |].
  - intros e' He' E. apply NoDup_remove_2 in Hnd. apply Hnd. apply in_or_app. right.
    rewrite <- E. now apply in_map.
  - intros e' He' E. apply NoDup_remove_2 in Hnd. apply Hnd. apply in_or_app. left.
    rewrite <- E. now apply in_map.
Qed.

Lemma cntl_replace l1 e e' l2 x : estr e' = estr e ->
  cntl (l1 ++ e' :: l2) x + (if beq_bytes (estr e) x then ecnt e else 0) =
  cntl (l1 ++ e :: l2) x + (if beq_bytes (estr e) x then ecnt e' else 0).
Proof. intro E. rewrite !cntl_app. cbn [cntl]. rewrite E. lia. Qed.

(* ---- invariant of a dictionary table ---- *)
Definition DInv (m : amm dval) : Prop :=
  AShape m /\ LF m /\ NoDup (map estr (dents m)) /\
  Forall (fun e => fst e = lyht_hash (estr e) /\ 1 <= ecnt e < U32) (dents m).

Definition DRep (d : dict) (cs : list (list N)) (fl : list N) : Prop :=
  Rep dvdef d cs fl /\ DInv (abs dvdef d cs).

Definition dcnt (d : dict) (cs : list (list N)) (x : bytes) : N := cntl (dents (abs dvdef d cs)) x.

Notation dADist := (@ADist dval bytes dkey).

Lemma NoDup_map_comp {A B C} (f : A -> B) (g : B -> C) l :
  NoDup (map (fun a => g (f a)) l) -> NoDup (map f l).
Proof. intro H. rewrite <- map_map in H. now apply NoDup_map_inv in H. Qed.

Lemma strs_ADist (m : amm dval) : NoDup (map estr (dents m)) -> dADist m.
Proof. intro H. unfold ADist. apply (NoDup_map_comp (@ekey dval bytes dkey) snd). exact H. Qed.

Lemma NoDup_estr_inj l e1 e2 : NoDup (map estr l) -> In e1 l -> In e2 l -> estr e1 = estr e2 -> e1 = e2.
Proof.
  induction l as [|e l IH]; cbn; intros Hnd H1 H2 E; [contradiction|]. inversion Hnd as [|? ? Hn Hnd']; subst.
  destruct H1 as [->|H1], H2 as [->|H2]; auto.
  - exfalso. apply Hn. rewrite E. now apply in_map.
  - exfalso. apply Hn. rewrite <- E. now apply in_map.
Qed.

Lemma ekey_estr (e : N * dval) h s : @ekey dval bytes dkey e = (h, s) <-> fst e = h /\ estr e = s.
Proof. unfold ekey, dkey, estr. split; [intro E; inversion E; auto|intros [-> ->]; reflexivity]. Qed.

Lemma U32_eq : HashTable.U32 = 4294967296.
Proof. reflexivity. Qed.

(* a reference count is changed in place *)
Lemma DInv_replace (m m' : amm dval) e c :
  DInv m -> In e (dents m) -> upd_rel m m' e (fst e, (estr e, c)) -> 1 <= c < HashTable.U32 ->
  DInv m' /\ a_size m' = a_size m /\ a_used m' = a_used m /\
  forall x, cntl (dents m') x + (if beq_bytes (estr e) x then ecnt e else 0) =
            cntl (dents m) x + (if beq_bytes (estr e) x then c else 0).
Proof.
  intros (S & Hlf & Hnd & Hall) Hin Hu Hc.
  destruct (upd_rel_shape m m' _ _ Hu S) as (S' & Hsz & Hus & Hrz & l1 & l2 & E1 & E2).
  unfold dents in *. split; [|split; [exact Hsz|split; [exact Hus|]]].
  - split; [exact S'|]. split.
    { destruct Hlf as [H1 H2]. split; [now rewrite Hrz|now rewrite Hus, Hsz]. }
    unfold dents. rewrite E2. rewrite E1 in Hnd, Hall. split.
    + rewrite map_app in *. cbn [map] in *. exact Hnd.
    + apply Forall_app in Hall. destruct Hall as [H1 H2]. inversion H2 as [|? ? [Hh _] H2']; subst.
      apply Forall_app. split; [exact H1|]. constructor; [|exact H2']. cbn. split; [exact Hh|exact Hc].
  - intro x. unfold dents. rewrite E1, E2. apply (cntl_replace l1 e (fst e, (estr e, c)) l2 x). reflexivity.
Qed.

(* ---- looking a string up ---- *)
Notation dent d i := (ent dval dvdef (ht_recs d) i).

Lemma DRep_entry d cs fl i : DRep d cs fl -> In i (concat cs) -> In (dent d i) (dents (abs dvdef d cs)).
Proof.
  intros _ Hi. unfold dents, abs. cbn [a_bk]. rewrite concat_map_map. now apply in_map.
Qed.

Lemma DInv_str_key (m : amm dval) e s : DInv m -> In e (dents m) -> estr e = s ->
  @ekey dval bytes dkey e = (lyht_hash s, s).
Proof.
  intros (_ & _ & _ & Hall) Hin E. rewrite Forall_forall in Hall. destruct (Hall _ Hin) as [Hh _].
  apply ekey_estr. split; [now rewrite Hh, E|exact E].
Qed.

Lemma dict_lookup d cs fl md s c0 : DRep d cs fl ->
  (exists i, find_rec d (dveq md (s, c0)) (lyht_hash s) = Ok (Some i) /\ In i (concat cs) /\
             estr (dent d i) = s /\ fst (dent d i) = lyht_hash s) \/
  (find_rec d (dveq md (s, c0)) (lyht_hash s) = Ok None /\ dcnt d cs s = 0).
Proof.
  intros [R HI]. pose proof HI as (S & _ & _ & _).
  destruct (find_rec_abs dval dvdef dveq d cs fl (dveq md (s, c0)) (lyht_hash s) R) as (l & Hl & Hf & Hfa).
  destruct (find _ l) as [i|] eqn:E; cbn [option_map] in Hfa.
  - left. exists i. split; [exact Hf|]. apply find_some in E. destruct E as [Hil _].
    split; [eapply In_concat_nth; eauto|].
    destruct (row_find_some dval dveq bytes dkey dveq_key _ md _ (s, c0) _ S Hfa) as [_ Hk].
    apply ekey_estr in Hk. tauto.
  - right. split; [exact Hf|]. unfold dcnt. apply cntl_zero. intros e He Es.
    apply (row_find_none dval dveq bytes dkey dveq_key _ md _ (s, c0) S Hfa e He).
    exact (DInv_str_key (abs dvdef d cs) e s HI He Es).
Qed.

Lemma rd_dent d i r : rd (ht_recs d) i = Ok r -> dent d i = (r_hash r, r_val r).
Proof. apply (rd_ent dval dvdef dveq). Qed.

Lemma DRep_rd d cs fl i : DRep d cs fl -> In i (concat cs) -> exists r, rd (ht_recs d) i = Ok r.
Proof.
  intros [R _] Hi. apply rd_lt. pose proof (Rep_in_cs_lt dval dvdef dveq _ _ _ _ R Hi).
  rewrite (rep_lr _ _ _ _ _ R). lia.
Qed.

(* the reference count of entry i becomes c (1 <= c) *)
Lemma dict_set_count d cs fl i c : DRep d cs fl -> In i (concat cs) -> 1 <= c < HashTable.U32 ->
  exists d', set_val d i (estr (dent d i), c) = Ok d' /\ DRep d' cs fl /\
    a_size (abs dvdef d' cs) = a_size (abs dvdef d cs) /\ a_used (abs dvdef d' cs) = a_used (abs dvdef d cs) /\
    forall x, dcnt d' cs x + (if beq_bytes (estr (dent d i)) x then ecnt (dent d i) else 0) =
              dcnt d cs x + (if beq_bytes (estr (dent d i)) x then c else 0).
Proof.
  intros HR Hi Hc. pose proof HR as [R HI].
  destruct (set_val_sim dval dvdef dveq d cs fl i (estr (dent d i), c) R Hi) as (d' & E & R' & Hu).
  exists d'. split; [exact E|].
  destruct (DInv_replace _ _ _ c HI (DRep_entry _ _ _ _ HR Hi) Hu Hc) as (HI' & Hs & Hus & Hcnt).
  split; [split; assumption|]. auto.
Qed.

Definition CntB (d : dict) cs (n : N) : Prop := forall x, dcnt d cs x <= n.

(* ---- lydict_insert ---- *)
Theorem lydict_insert_spec d cs fl s n :
  DRep d cs fl -> Bnd (abs dvdef d cs) n -> CntB d cs n -> 4 * n <= 1073741824 ->
  exists d' cs' fl', lydict_insert d s = Ok (LY_ERR_SUCCESS, s, d') /\ DRep d' cs' fl' /\
    Bnd (abs dvdef d' cs') (n + 1) /\
    forall x, dcnt d' cs' x = if beq_bytes x s then dcnt d cs x + 1 else dcnt d cs x.
Proof.
  intros HR [HBu HBs] HC Hn. pose proof HR as [R HI]. pose proof HI as (S & Hlf & Hnd & Hall).
  set (h := lyht_hash s). set (m := abs dvdef d cs) in *.
  assert (Hle : ht_size d <= 1073741824) by (rewrite <- (abs_size dval dvdef dveq _ _ _ R); fold m; lia).
  pose proof (insert_sim dval dvdef dveq d cs fl true true h (s, 1) R Hle) as Hs. fold m in Hs.
  destruct (a_insert_keyed dval dveq bytes dkey dveq_key m true h (s, 1) S ltac:(lia) Hlf (strs_ADist _ Hnd))
    as (c & mv & m' & E & S' & Hlf' & Hd' & Hsz & Hcase).
  unfold lydict_insert. fold h. rewrite E in Hs. cbn [isim] in Hs.
  destruct Hs as (i & d1 & cs1 & fl1 & Ei & R1 & A1 & Hi). rewrite Ei. cbn [bind fst snd].
  destruct (Hi eq_refl) as [Hin Hmv].
  destruct Hcase as [(Ec & Em & e & Emv & Hine & Hk)|(Ec & Emv & Hfresh & Hu' & Hp')]; subst c mv; [rewrite Em in A1|].
  - (* the string is there: refcount++ *)
    assert (HR1 : DRep d1 cs1 fl1) by (split; [exact R1|now rewrite A1]).
    destruct (DRep_rd _ _ _ _ HR1 Hin) as (r & Hr). rewrite Hr. cbn [bind N.eqb LY_ERR_EEXIST Pos.eqb].
    assert (He : dent d1 i = e).
    { apply (NoDup_estr_inj (dents m)); auto.
      - rewrite <- A1. now apply (DRep_entry _ _ _ _ HR1).
      - unfold estr. now rewrite Hmv. }
    apply ekey_estr in Hk. cbn [dkey fst] in Hk. destruct Hk as [Hkh Hks].
    rewrite (rd_dent _ _ _ Hr) in He.
    assert (Hrv : r_val r = snd e) by (rewrite <- He; reflexivity).
    rewrite Hrv. change (fst (snd e)) with (estr e). change (snd (snd e)) with (ecnt e). rewrite Hks.
    rewrite Forall_forall in Hall. destruct (Hall _ Hine) as [_ Hce].
    assert (Hcs : dcnt d cs s = ecnt e).
    { unfold dcnt. fold m. unfold dents in *. apply in_split in Hine. destruct Hine as (l1 & l2 & El). rewrite El.
      rewrite <- Hks. apply cntl_at. rewrite <- El. exact Hnd. }
    assert (Hmod : (ecnt e + 1) mod HashTable.U32 = ecnt e + 1).
    { apply N.mod_small. specialize (HC s). rewrite Hcs in HC. rewrite U32_eq. lia. }
    rewrite Hmod.
    destruct (dict_set_count d1 cs1 fl1 i (ecnt e + 1) HR1 Hin) as (d2 & E2 & HR2 & Hs2 & Hu2 & Hc2).
    { specialize (HC s). rewrite Hcs in HC. rewrite U32_eq. lia. }
    rewrite (rd_dent _ _ _ Hr), He in E2, Hc2. rewrite Hks in E2, Hc2. rewrite E2. cbn [bind].
    exists d2, cs1, fl1. split; [reflexivity|]. split; [exact HR2|]. split.
    { unfold Bnd. rewrite Hs2, Hu2, A1. lia. }
    intro x. specialize (Hc2 x). unfold dcnt in Hc2 at 2. rewrite A1 in Hc2. change (cntl (dents m) x) with (dcnt d cs x) in Hc2.
    destruct (beq_bytes x s) eqn:Ex.
    + apply beq_bytes_eq in Ex. subst x. rewrite beq_bytes_refl in Hc2. lia.
    + apply beq_bytes_neq in Ex. assert (Ex' : beq_bytes s x = false) by (apply beq_bytes_neq; congruence).
      rewrite Ex' in Hc2. lia.
  - (* a new record (s, 1) *)
    assert (Hstr_fresh : forall e, In e (dents m) -> estr e <> s).
    { intros e He Es. apply (Hfresh e He). exact (DInv_str_key m e s HI He Es). }
    assert (HI' : DInv m').
    { split; [exact S'|]. split; [exact Hlf'|]. unfold dents in *. split.
      - eapply Permutation_NoDup; [apply Permutation_map, Permutation_sym, Hp'|]. cbn [map].
        constructor; [|exact Hnd]. intro Hx. apply in_map_iff in Hx. destruct Hx as (e & Ee & He).
        now apply (Hstr_fresh e He).
      - eapply Forall_perm; [apply Permutation_sym, Hp'|]. constructor; [|exact Hall].
        cbn. rewrite U32_eq. split; [reflexivity|lia]. }
    assert (HR1 : DRep d1 cs1 fl1) by (split; [exact R1|now rewrite A1]).
    destruct (DRep_rd _ _ _ _ HR1 Hin) as (r & Hr). rewrite Hr. cbn [bind N.eqb LY_ERR_EEXIST LY_ERR_SUCCESS].
    rewrite (rd_dent _ _ _ Hr) in Hmv. cbn [snd] in Hmv. rewrite Hmv. cbn [fst].
    exists d1, cs1, fl1. split; [reflexivity|]. split; [exact HR1|]. split.
    { unfold Bnd. rewrite A1. destruct Hsz as [->|[-> H75]]; lia. }
    intro x. unfold dcnt. rewrite A1. fold m. unfold dents. rewrite (cntl_perm _ _ x Hp'). cbn [cntl].
    unfold estr, ecnt. cbn [fst snd]. destruct (beq_bytes x s) eqn:Ex.
    + apply beq_bytes_eq in Ex. subst x. rewrite beq_bytes_refl. lia.
    + apply beq_bytes_neq in Ex. assert (Ex' : beq_bytes s x = false) by (apply beq_bytes_neq; congruence).
      rewrite Ex'. lia.
Qed.

Lemma dcnt_of_entry d cs fl i : DRep d cs fl -> In i (concat cs) ->
  dcnt d cs (estr (dent d i)) = ecnt (dent d i) /\ 1 <= ecnt (dent d i) < HashTable.U32.
Proof.
  intros HR Hi. pose proof (DRep_entry _ _ _ _ HR Hi) as He. destruct HR as [R (S & Hlf & Hnd & Hall)].
  rewrite Forall_forall in Hall. split; [|apply (Hall _ He)].
  unfold dcnt. apply in_split in He. destruct He as (l1 & l2 & El). rewrite El. apply cntl_at.
  rewrite <- El. exact Hnd.
Qed.

Lemma if_beq_sym (s x : bytes) (a b : N) : (if beq_bytes s x then a else b) = (if beq_bytes x s then a else b).
Proof.
  destruct (beq_bytes x s) eqn:E.
  - apply beq_bytes_eq in E. subst. now rewrite beq_bytes_refl.
  - apply beq_bytes_neq in E. assert (E' : beq_bytes s x = false) by (apply beq_bytes_neq; congruence).
    now rewrite E'.
Qed.

(* ---- lydict_dup ---- *)
Theorem lydict_dup_spec d cs fl s n :
  DRep d cs fl -> CntB d cs n -> n + 1 < HashTable.U32 ->
  (dcnt d cs s = 0 /\ lydict_dup d s = Ok (LY_ERR_ENOTFOUND, [], d)) \/
  (dcnt d cs s <> 0 /\ exists d', lydict_dup d s = Ok (LY_ERR_SUCCESS, s, d') /\ DRep d' cs fl /\
     a_size (abs dvdef d' cs) = a_size (abs dvdef d cs) /\ a_used (abs dvdef d' cs) = a_used (abs dvdef d cs) /\
     forall x, dcnt d' cs x = if beq_bytes x s then dcnt d cs x + 1 else dcnt d cs x).
Proof.
  intros HR HC Hn. unfold lydict_dup.
  destruct (dict_lookup d cs fl false s 0 HR) as [(i & Hf & Hi & Hs & Hh)|(Hf & H0)]; rewrite Hf; cbn [bind].
  2:{ left. auto. }
  right. destruct (dcnt_of_entry _ _ _ _ HR Hi) as [Hc Hb]. rewrite Hs in Hc.
  split; [lia|].
  destruct (DRep_rd _ _ _ _ HR Hi) as (r & Hr). rewrite Hr. cbn [bind].
  pose proof (rd_dent _ _ _ Hr) as Ed.
  assert (E1 : fst (r_val r) = s) by (rewrite <- Hs, Ed; reflexivity).
  assert (E2 : snd (r_val r) = ecnt (dent d i)) by (rewrite Ed; reflexivity).
  rewrite E1, E2.
  assert (Hmod : (ecnt (dent d i) + 1) mod HashTable.U32 = ecnt (dent d i) + 1).
  { apply N.mod_small. specialize (HC s). lia. }
  rewrite Hmod.
  destruct (dict_set_count d cs fl i (ecnt (dent d i) + 1) HR Hi ltac:(specialize (HC s); lia))
    as (d' & E & HR' & Hs' & Hu' & Hc').
  rewrite Hs in E, Hc'. rewrite E. cbn [bind]. exists d'. split; [reflexivity|]. split; [exact HR'|].
  split; [exact Hs'|]. split; [exact Hu'|]. intro x. specialize (Hc' x).
  rewrite !(if_beq_sym s x) in Hc'. destruct (beq_bytes x s); lia.
Qed.

(* ---- lydict_remove ---- *)
Theorem lydict_remove_spec d cs fl s n :
  DRep d cs fl -> Bnd (abs dvdef d cs) n -> 4 * n <= 2147483648 ->
  (dcnt d cs s = 0 /\ lydict_remove d s = Ok (LY_ERR_ENOTFOUND, d)) \/
  (dcnt d cs s <> 0 /\ exists d' cs' fl', lydict_remove d s = Ok (LY_ERR_SUCCESS, d') /\ DRep d' cs' fl' /\
     Bnd (abs dvdef d' cs') n /\
     forall x, dcnt d' cs' x = if beq_bytes x s then dcnt d cs x - 1 else dcnt d cs x).
Proof.
  intros HR [HBu HBs] Hn. unfold lydict_remove.
  destruct (dict_lookup d cs fl false s 0 HR) as [(i & Hf & Hi & Hs & Hh)|(Hf & H0)]; rewrite Hf; cbn [bind].
  2:{ left. auto. }
  right. destruct (dcnt_of_entry _ _ _ _ HR Hi) as [Hc Hb]. rewrite Hs in Hc.
  split; [lia|].
  destruct (DRep_rd _ _ _ _ HR Hi) as (r & Hr). rewrite Hr. cbn [bind].
  pose proof (rd_dent _ _ _ Hr) as Ed.
  assert (E1 : fst (r_val r) = s) by (rewrite <- Hs, Ed; reflexivity).
  assert (E2 : snd (r_val r) = ecnt (dent d i)) by (rewrite Ed; reflexivity).
  rewrite E1, E2. set (cn := ecnt (dent d i)) in *.
  assert (Hmod : (cn + HashTable.U32 - 1) mod HashTable.U32 = cn - 1).
  { rewrite U32_eq in *. replace (cn + 4294967296 - 1) with (cn - 1 + 1 * 4294967296) by lia.
    rewrite N.mod_add by lia. apply N.mod_small. lia. }
  rewrite Hmod.
  destruct (cn - 1 =? 0) eqn:Ez.
  2:{ (* the record stays *)
      apply N.eqb_neq in Ez.
      destruct (dict_set_count d cs fl i (cn - 1) HR Hi ltac:(lia)) as (d' & E & HR' & Hs' & Hu' & Hc').
      rewrite Hs in E, Hc'. rewrite E. cbn [bind]. exists d', cs, fl. split; [reflexivity|]. split; [exact HR'|].
      split; [unfold Bnd; rewrite Hs', Hu'; lia|]. intro x. specialize (Hc' x). fold cn in Hc'.
      rewrite !(if_beq_sym s x) in Hc'. destruct (beq_bytes x s) eqn:Ex; [|lia].
      apply beq_bytes_eq in Ex. subst x. lia. }
  (* the last reference: the record is removed from the table *)
  apply N.eqb_eq in Ez. assert (Hcn : cn = 1) by lia. rewrite Ez.
  destruct HR as [R HI]. pose proof HI as (S & Hlf & Hnd & Hall).
  destruct (set_val_sim dval dvdef dveq d cs fl i (s, 0) R Hi) as (d1 & E & R1 & Hu).
  rewrite E. cbn [bind]. set (e := dent d i) in *. set (m := abs dvdef d cs) in *. set (m1 := abs dvdef d1 cs) in *.
  destruct (upd_rel_shape m m1 _ _ Hu S) as (S1 & Hsz1 & Hus1 & Hrz1 & l1 & l2 & El & El1).
  set (e' := (fst e, (s, 0))) in *.
  assert (Hnd1 : NoDup (map estr (concat (a_bk m1)))).
  { rewrite El1. unfold dents in Hnd. rewrite El in Hnd. rewrite map_app in *. cbn [map] in *.
    unfold estr at 2. cbn [fst snd]. fold (estr e). now rewrite <- Hs. }
  assert (Hlf1 : LF m1) by (destruct Hlf; split; [now rewrite Hrz1|now rewrite Hus1, Hsz1]).
  pose proof (lyht_remove_sim dval dvdef dveq d1 cs fl (lyht_hash s) (s, 0) R1) as Hsim. fold m1 in Hsim.
  destruct (a_remove_keyed dval dveq bytes dkey dveq_key m1 (lyht_hash s) (s, 0) S1
              ltac:(unfold no_wrap; lia) Hlf1 (strs_ADist _ Hnd1))
    as (c & m2 & Er & S2 & Hlf2 & Hd2 & Hsz2 & Hcase).
  rewrite Er in Hsim. cbn [msim] in Hsim. destruct Hsim as (d2 & cs2 & fl2 & -> & R2 & A2).
  assert (He'in : In e' (concat (a_bk m1))) by (rewrite El1; apply in_or_app; right; now left).
  assert (He'k : @ekey dval bytes dkey e' = (lyht_hash s, dkey (s, 0))).
  { unfold e'. apply ekey_estr. cbn. split; [exact Hh|reflexivity]. }
  destruct Hcase as [(_ & _ & Hfresh)|(-> & Hus2 & e2 & He2 & Hk2 & Hp2)].
  { exfalso. exact (Hfresh e' He'in He'k). }
  assert (e2 = e').
  { apply (NoDup_estr_inj (concat (a_bk m1))); auto. apply ekey_estr in Hk2. destruct Hk2 as [_ ->]. reflexivity. }
  subst e2.
  assert (Hp : Permutation (concat (a_bk m2)) (l1 ++ l2)).
  { apply (Permutation_cons_inv (a := e')). rewrite Hp2, El1. apply Permutation_sym, Permutation_middle. }
  exists d2, cs2, fl2. split; [reflexivity|].
  unfold dents in Hall. rewrite El in Hall. apply Forall_app in Hall. destruct Hall as [Ha1 Ha2].
  apply Forall_inv_tail in Ha2.
  split; [|split].
  - split; [exact R2|]. rewrite A2. split; [exact S2|]. split; [exact Hlf2|]. unfold dents. split.
    + eapply Permutation_NoDup; [apply Permutation_map, Permutation_sym, Hp|].
      unfold dents in Hnd. rewrite El in Hnd. rewrite map_app in *. cbn [map] in Hnd.
      now apply NoDup_remove_1 in Hnd.
    + eapply Forall_perm; [apply Permutation_sym, Hp|]. apply Forall_app. auto.
  - unfold Bnd. rewrite A2. fold m in HBu, HBs. lia.
  - intro x. unfold dcnt. rewrite A2. fold m. unfold dents. rewrite (cntl_perm _ _ x Hp), El, !cntl_app. cbn [cntl].
    fold cn. rewrite Hs, (if_beq_sym s x). destruct (beq_bytes x s) eqn:Ex; [|lia].
    apply beq_bytes_eq in Ex. subst x.
    assert (Hz : cntl l1 s + cntl l2 s = 0).
    { unfold dcnt in Hc. fold m in Hc. unfold dents in Hc. rewrite El, cntl_app in Hc. cbn [cntl] in Hc.
      fold cn in Hc. rewrite Hs, beq_bytes_refl in Hc. lia. }
    unfold dcnt in Hc. lia.
Qed.

(* ------------------------------------------------------------------------------------------ *)
(* specification: a finite map string -> number of references                                   *)
(* ------------------------------------------------------------------------------------------ *)
Definition smap := bytes -> N.
Definition sset (f : smap) (s : bytes) (v : N) : smap := fun x => if beq_bytes x s then v else f x.

Definition sstep (f : smap) (o : dop) : (N * bytes) * smap :=
  match o with
  | DIns s => ((LY_ERR_SUCCESS, s), sset f s (f s + 1))
  | DRem s => if f s =? 0 then ((LY_ERR_ENOTFOUND, []), f) else ((LY_ERR_SUCCESS, []), sset f s (f s - 1))
  | DDup s => if f s =? 0 then ((LY_ERR_ENOTFOUND, []), f) else ((LY_ERR_SUCCESS, s), sset f s (f s + 1))
  | DInsZc s => ((LY_ERR_SUCCESS, s), sset f s (f s + 1))
  end.

Fixpoint srun (f : smap) (ops : list dop) (acc : list (N * bytes)) : list (N * bytes) * smap :=
  match ops with
  | [] => (rev acc, f)
  | o :: ops' => srun (snd (sstep f o)) ops' (fst (sstep f o) :: acc)
  end.

Lemma sset_spec f s x (g : N -> N) : (if beq_bytes x s then g (f x) else f x) = sset f s (g (f s)) x.
Proof.
  unfold sset. destruct (beq_bytes x s) eqn:E; [|reflexivity]. apply beq_bytes_eq in E. now subst.
Qed.

Lemma Bnd_mono {V} (m : amm V) n n' : n <= n' -> Bnd m n -> Bnd m n'.
Proof. unfold Bnd. lia. Qed.

Lemma dict_step_spec d cs fl o n f :
  DRep d cs fl -> (forall x, dcnt d cs x = f x) -> Bnd (abs dvdef d cs) n -> CntB d cs n ->
  4 * n <= 1073741824 ->
  exists d' cs' fl', dict_step d o = Ok (fst (sstep f o), d') /\ DRep d' cs' fl' /\
    (forall x, dcnt d' cs' x = snd (sstep f o) x) /\ Bnd (abs dvdef d' cs') (n + 1) /\ CntB d' cs' (n + 1).
Proof.
  intros HR Hf HB HC Hn.
  assert (Hins : forall s, exists d' cs' fl', lydict_insert d s = Ok ((LY_ERR_SUCCESS, s), d') /\ DRep d' cs' fl' /\
    (forall x, dcnt d' cs' x = sset f s (f s + 1) x) /\ Bnd (abs dvdef d' cs') (n + 1) /\ CntB d' cs' (n + 1)).
  { intro s. destruct (lydict_insert_spec d cs fl s n HR HB HC Hn) as (d' & cs' & fl' & E & HR' & HB' & Hc').
    exists d', cs', fl'. split; [exact E|]. split; [exact HR'|].
    assert (Hx : forall x, dcnt d' cs' x = sset f s (f s + 1) x).
    { intro x. rewrite Hc', Hf. apply (sset_spec f s x (fun a => a + 1)). }
    split; [exact Hx|]. split; [exact HB'|].
    intro x. rewrite Hc'. specialize (HC x). destruct (beq_bytes x s); lia. }
  destruct o as [s|s|s|s]; cbn [dict_step sstep]; [apply Hins| | |apply Hins].
  - rewrite <- Hf.
    destruct (lydict_remove_spec d cs fl s n HR HB ltac:(lia)) as [(H0 & E)|(H0 & d' & cs' & fl' & E & HR' & HB' & Hc')].
    + rewrite E, H0. cbn [bind fst snd N.eqb]. exists d, cs, fl. split; [reflexivity|]. split; [exact HR|].
      split; [exact Hf|]. split; [eapply Bnd_mono; [|exact HB]; lia|]. intro x. specialize (HC x). lia.
    + rewrite E. apply N.eqb_neq in H0 as H0'. rewrite H0'. cbn [bind fst snd].
      exists d', cs', fl'. split; [reflexivity|]. split; [exact HR'|].
      assert (Hx : forall x, dcnt d' cs' x = sset f s (dcnt d cs s - 1) x).
      { intro x. rewrite Hc', !Hf. apply (sset_spec f s x (fun a => a - 1)). }
      split; [exact Hx|]. split; [eapply Bnd_mono; [|exact HB']; lia|].
      intro x. rewrite Hc'. specialize (HC x). destruct (beq_bytes x s); lia.
  - rewrite <- Hf.
    destruct (lydict_dup_spec d cs fl s n HR HC ltac:(rewrite U32_eq; lia))
      as [(H0 & E)|(H0 & d' & E & HR' & Hs' & Hu' & Hc')].
    + rewrite E, H0. cbn [fst snd N.eqb]. exists d, cs, fl. split; [reflexivity|]. split; [exact HR|].
      split; [exact Hf|]. split; [eapply Bnd_mono; [|exact HB]; lia|]. intro x. specialize (HC x). lia.
    + rewrite E. apply N.eqb_neq in H0 as H0'. rewrite H0'. cbn [fst snd].
      exists d', cs, fl. split; [reflexivity|]. split; [exact HR'|].
      assert (Hx : forall x, dcnt d' cs x = sset f s (dcnt d cs s + 1) x).
      { intro x. rewrite Hc', !Hf. apply (sset_spec f s x (fun a => a + 1)). }
      split; [exact Hx|]. split; [unfold Bnd in *; rewrite Hs', Hu'; lia|].
      intro x. rewrite Hc'. specialize (HC x). destruct (beq_bytes x s); lia.
Qed.

Theorem dict_run_spec : forall ops d cs fl acc n f,
  DRep d cs fl -> (forall x, dcnt d cs x = f x) -> Bnd (abs dvdef d cs) n -> CntB d cs n ->
  4 * (n + N.of_nat (length ops)) <= 1073741824 ->
  exists d' cs' fl', dict_run d ops acc = (fst (srun f ops acc), Ok d') /\ DRep d' cs' fl' /\
    forall x, dcnt d' cs' x = snd (srun f ops acc) x.
Proof.
  induction ops as [|o ops IH]; intros d cs fl acc n f HR Hf HB HC Hn; cbn [dict_run srun].
  - exists d, cs, fl. auto.
  - cbn [length] in Hn.
    destruct (dict_step_spec d cs fl o n f HR Hf HB HC ltac:(lia))
      as (d' & cs' & fl' & E & HR' & Hf' & HB' & HC').
    rewrite E. cbn [fst snd]. apply (IH d' cs' fl' _ (n + 1)); auto. lia.
Qed.

(* ---- the empty dictionary ---- *)
Lemma lydict_init_DRep k : k <= 26 ->
  let d0 := init_tab dvdef (new_sz k) 1 in
  let cs0 := repeat [] (N.to_nat (new_sz k)) in
  lyht_new dvdef (2 ^ k) 1 = Ok d0 /\ DRep d0 cs0 (map N.of_nat (seq 0 (N.to_nat (new_sz k)))) /\
  (forall x, dcnt d0 cs0 x = 0) /\ Bnd (abs dvdef d0 cs0) (new_sz k) /\ new_sz k <= 67108864.
Proof.
  intros Hk d0 cs0. destruct (lyht_new_Rep dvdef dveq k 1 ltac:(lia) ltac:(lia)) as (E & R & A).
  fold d0 cs0 in R, A. destruct (AShape_empty dval dveq 1 (new_sz k) (new_sz_ok k ltac:(lia))) as (S & Hs & Hu).
  assert (Hle : new_sz k <= 67108864).
  { unfold new_sz, LYHT_MIN_SIZE. destruct (2 ^ k <? 8); [lia|]. change 67108864 with (2 ^ 26).
    apply N.pow_le_mono_r; lia. }
  split; [exact E|]. split; [|split; [|split; [|exact Hle]]].
  - split; [exact R|]. rewrite A. split; [exact S|]. split.
    { split; [cbn; lia|]. rewrite Hu, Hs. unfold new_sz, LYHT_MIN_SIZE.
      assert (0 < 2 ^ k) by (apply N.neq_0_lt_0, N.pow_nonzero; lia).
      destruct (2 ^ k <? 8); lia. }
    unfold dents. cbn [a_bk]. rewrite concat_repeat_nil. split; constructor.
  - intro x. unfold dcnt. rewrite A. unfold dents. cbn [a_bk]. now rewrite concat_repeat_nil.
  - unfold Bnd. rewrite A, Hs, Hu. lia.
Qed.

(* references balance: from the empty dictionary every script runs to completion, answers as the
   finite map does, and ends holding exactly the finite map *)
Theorem dict_refs_balance k ops : k <= 26 -> N.of_nat (length ops) <= 201326592 ->
  exists d' cs' fl',
    dict_run (init_tab dvdef (new_sz k) 1) ops [] = (fst (srun (fun _ => 0) ops []), Ok d') /\
    DRep d' cs' fl' /\ forall x, dcnt d' cs' x = snd (srun (fun _ => 0) ops []) x.
Proof.
  intros Hk Hn. destruct (lydict_init_DRep k Hk) as (_ & HR & H0 & HB & Hle).
  apply (dict_run_spec ops _ _ _ [] (new_sz k) (fun _ => 0) HR H0 HB); [|lia].
  intro x. rewrite H0. lia.
Qed.

(* a dictionary whose finite map is everywhere 0 holds no record *)
Theorem dict_empty_when_balanced d cs fl : DRep d cs fl -> (forall x, dcnt d cs x = 0) ->
  ht_used d = 0 /\ concat cs = [].
Proof.
  intros [R (S & Hlf & Hnd & Hall)] H0.
  assert (He : dents (abs dvdef d cs) = []).
  { destruct (dents (abs dvdef d cs)) as [|e l] eqn:E; [reflexivity|]. exfalso.
    rewrite Forall_forall in Hall. destruct (Hall e ltac:(now left)) as [_ Hc].
    specialize (H0 (estr e)). unfold dcnt in H0. rewrite E in H0. cbn [cntl] in H0.
    rewrite beq_bytes_refl in H0. lia. }
  unfold dents, abs in He. cbn [a_bk] in He. rewrite concat_map_map in He.
  apply map_eq_nil in He. split; [|exact He].
  rewrite (rep_used _ _ _ _ _ R), He. reflexivity.
Qed.

(* ---- the finite map counts references: acquired minus released ---- *)
Fixpoint svalid (f : smap) (ops : list dop) : Prop :=
  match ops with
  | [] => True
  | o :: ops' =>
      match o with DIns _ | DInsZc _ => True | DRem s | DDup s => f s <> 0 end /\ svalid (snd (sstep f o)) ops'
  end.

Fixpoint acquired (ops : list dop) (x : bytes) : N :=
  match ops with
  | [] => 0
  | DIns s :: ops' | DDup s :: ops' | DInsZc s :: ops' => (if beq_bytes x s then 1 else 0) + acquired ops' x
  | DRem _ :: ops' => acquired ops' x
  end.

Fixpoint released (ops : list dop) (x : bytes) : N :=
  match ops with
  | [] => 0
  | DRem s :: ops' => (if beq_bytes x s then 1 else 0) + released ops' x
  | _ :: ops' => released ops' x
  end.

Lemma srun_counts : forall ops f acc x, svalid f ops ->
  snd (srun f ops acc) x + released ops x = f x + acquired ops x.
Proof.
  induction ops as [|o ops IH]; intros f acc x Hv; cbn [srun acquired released svalid] in *; [cbn [snd]; lia|].
  destruct Hv as [Ho Hv]. specialize (IH _ (fst (sstep f o) :: acc) x Hv). destruct o as [s|s|s|s]; cbn [sstep] in *.
  - cbn [snd fst] in *. unfold sset in IH at 2. destruct (beq_bytes x s) eqn:E; [|lia].
    apply beq_bytes_eq in E. subst. lia.
  - apply N.eqb_neq in Ho as Ho'. rewrite Ho' in IH |- *. cbn [snd fst] in *. unfold sset in IH at 2.
    destruct (beq_bytes x s) eqn:E; [|lia]. apply beq_bytes_eq in E. subst. lia.
  - apply N.eqb_neq in Ho as Ho'. rewrite Ho' in IH |- *. cbn [snd fst] in *. unfold sset in IH at 2.
    destruct (beq_bytes x s) eqn:E; [|lia]. apply beq_bytes_eq in E. subst. lia.
  - cbn [snd fst] in *. unfold sset in IH at 2. destruct (beq_bytes x s) eqn:E; [|lia].
    apply beq_bytes_eq in E. subst. lia.
Qed.

(* lydict_init(): LYDICT_MIN_SIZE = 1024 = 2^10 *)
Lemma lydict_init_eq : lydict_init 0 = lyht_new dvdef (2 ^ 10) 1.
Proof. reflexivity. Qed.

(* after releasing every reference taken the table holds no record *)
Theorem dict_release_all_empty k ops : k <= 26 -> N.of_nat (length ops) <= 201326592 ->
  (forall x, snd (srun (fun _ => 0) ops []) x = 0) ->
  exists d', dict_run (init_tab dvdef (new_sz k) 1) ops [] = (fst (srun (fun _ => 0) ops []), Ok d') /\
             ht_used d' = 0.
Proof.
  intros Hk Hn H0. destruct (dict_refs_balance k ops Hk Hn) as (d' & cs' & fl' & E & HR & Hc).
  exists d'. split; [exact E|]. apply (dict_empty_when_balanced d' cs' fl' HR). intro x. now rewrite Hc.
Qed.

(* lydict_remove of a string that is not held: LY_ENOTFOUND, nothing changes *)
Theorem dict_remove_not_held d cs fl s n : DRep d cs fl -> Bnd (abs dvdef d cs) n -> 4 * n <= 2147483648 ->
  dcnt d cs s = 0 -> lydict_remove d s = Ok (LY_ERR_ENOTFOUND, d).
Proof.
  intros HR HB Hn H0. destruct (lydict_remove_spec d cs fl s n HR HB Hn) as [(_ & E)|(H1 & _)]; [exact E|contradiction].
Qed.
