(* Properties_C05_jsonbuf.v - property C05 (arbitrary input never writes out of bounds, never leaks), buffer
   arithmetic of lyjson_string() of src/json.c. Theorem statements only. Model: JsonBuf.v (sizes only: the
   variable size, the REAL size of the block - the code advances size by one step of 128 although it may
   have reallocated by several steps -, bytes used, pending plain bytes; every store recorded with the real
   size of the block at that moment, every allocator call with the requested size); proofs: JsonBufP.v.

   An event list stands for the text after the opening quotation mark: plain characters of 1 to 4 bytes, escape
   sequences storing 1 to 4 bytes (the code can produce 1 to 3), failing escapes, invalid characters, the closing
   quotation mark, the end of the input. The hypothesis ev_wf says just that these byte counts are 1 to 4.

   Tie to the code (T2 component jsonbuf): the C driver calls the real lyjson_string() on texts rendered from
   event lists and reports return code, dynamic flag, value length and the sequence of malloc / realloc / free
   requests (macros around the allocator names, json.c is not edited); the model must produce the same line.
   The stores themselves are observed by ASan (the component also runs on the sanitizer build). *)
From Coq Require Import NArith List Lia.
From LY Require Import JsonBuf JsonBufP.
Import ListNotations.
Local Open Scope N_scope.

(* no overflow: for EVERY sequence of events every store - the pending plain bytes copied at an escape, the
   bytes ly_pututf8() stores, the final copy and the NUL - lies inside the block as really allocated at that
   moment, and the increment loop ends *)
Theorem C05_jsonbuf_no_overflow :
  forall evs, Forall ev_wf evs ->
    match json_string evs with (r, ws, _) => r <> RFuel /\ Forall wr_ok ws end.
Proof. exact no_overflow. Qed.
Print Assumptions C05_jsonbuf_no_overflow.

(* exact length: a dynamic value is returned in a block of exactly length + 1 bytes (the last allocator call)
   and the stores are contiguous from position 0 to length + 1 (every byte of the value and its NUL is written,
   none twice); a string without escape sequences is returned in place without any store or allocation *)
Theorem C05_jsonbuf_len_exact :
  forall evs, Forall ev_wf evs ->
    match json_string evs with
    | (ROk true len, ws, tr) => contig 0 ws = Some (len + 1) /\ exists tr1, tr = tr1 ++ [ARealloc (len + 1)]
    | (ROk false len, ws, tr) => ws = [] /\ tr = []
    | _ => True
    end.
Proof. exact len_exact. Qed.
Print Assumptions C05_jsonbuf_len_exact.

(* no leak, no double free: on every error exit whatever was allocated is freed exactly once; a dynamic value
   is the one block obtained from malloc(), not freed (the JSON context owns it); a value returned in place
   made no allocator call *)
Theorem C05_jsonbuf_no_leak :
  forall evs, Forall ev_wf evs ->
    match json_string evs with
    | (RErr, _, tr) => mallocs tr = frees tr /\ (frees tr <= 1)%nat
    | (ROk true _, _, tr) => mallocs tr = 1%nat /\ frees tr = 0%nat
    | (ROk false _, _, tr) => tr = []
    | (RFuel, _, _) => True
    end.
Proof. exact calls_balanced. Qed.
Print Assumptions C05_jsonbuf_no_leak.

(* no wrap of size_t: every real block size and every requested size is at most the number of input bytes
   the events stand for plus 132 (4 + one step) *)
Theorem C05_jsonbuf_size_bounded :
  forall evs, Forall ev_wf evs ->
    match json_string evs with
    | (_, ws, tr) => (forall w, In w ws -> wr_size w <= evs_bytes evs + 132) /\
                     (forall a, In a tr -> al_size a <= evs_bytes evs + 132)
    end.
Proof. exact size_bounded. Qed.
Print Assumptions C05_jsonbuf_size_bounded.

(* regression for the class of defect the increment loop prevents (growth by a single step whatever the
   number of pending plain bytes - the shape of the seeded change C05-5 in the XML twin of this function):
   200 plain bytes followed by an escape store 200 bytes into a block of 152, while the code as it is passes *)
Example C05_jsonbuf_onestep_growth_refuted :
  exists evs, Forall ev_wf evs /\
    match json_string_onestep evs with (_, ws, _) => ~ Forall wr_ok ws end /\
    match json_string evs with (_, ws, _) => Forall wr_ok ws end.
Proof.
  exists onestep_witness. destruct onestep_overflows as (W & B & G). split; [exact W|].
  destruct (json_string_onestep onestep_witness) as [[r1 ws1] tr1].
  destruct (json_string onestep_witness) as [[r2 ws2] tr2]. split.
  - intro F. rewrite Forall_forall in F.
    assert (forallb wr_okb ws1 = true) by (apply forallb_forall; intros w I; apply wr_okb_ok; auto). congruence.
  - rewrite forallb_forall in G. apply Forall_forall. intros w I. apply wr_okb_ok. auto.
Qed.
Print Assumptions C05_jsonbuf_onestep_growth_refuted.

(* the hypotheses are satisfiable; the example also shows the lag of the variable size: after 300 plain bytes the
   first escape reallocates the 24-byte block to 408 bytes in one call (increment 384), the variable size becomes
   152, so the next escape reallocates again (152 + 256 = 408), and the third once more (280 + 128 = 408) *)
Example C05_jsonbuf_hypotheses_satisfiable :
  let evs := repeat (EPlain 1) 300 ++ [EEsc 1; EPlain 3; EEsc 3; EEsc 2; EPlain 2; EEnd] in
  Forall ev_wf evs /\
  json_string evs =
    (ROk true 311,
     [W 0 300 408; W 300 1 408; W 301 3 408; W 304 3 408; W 307 2 408; W 309 2 312; W 311 1 312],
     [AMalloc 24; ARealloc 408; ARealloc 408; ARealloc 408; ARealloc 312]).
Proof.
  intro evs. subst evs. split; [|vm_compute; reflexivity].
  apply Forall_app. split.
  - apply Forall_forall. intros e I. apply repeat_spec in I. subst. simpl. lia.
  - repeat first [apply Forall_nil | apply Forall_cons; [simpl; first [lia | exact I]|]].
Qed.
