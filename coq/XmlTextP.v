(* XmlTextP.v — proofs about XmlText: the printer/lexer round trip. *)
From LY Require Import Base Utf8 Utf8P XmlText.
From LY.Gen Require Consts.
From Coq Require Import ZifyBool ZifyNat ZifyN.
Local Open Scope N_scope.

(* T1 obligation: the scraped switch of lyxml_dump_text() is the one the proofs are about *)
Lemma xml_esc_table_expected :
  Consts.xml_esc_table =
    [(38, false, [38;97;109;112;59]); (60, false, [38;108;116;59]); (62, false, [38;103;116;59]);
     (13, false, [38;35;120;68;59]);                                    (* CR: &#xD; (commit 6fdbff2) *)
     (9, true, [38;35;120;57;59]); (10, true, [38;35;120;65;59]);       (* TAB, LF in attributes: &#x9; &#xA; (47fa563) *)
     (34, true, [38;113;117;111;116;59])].
Proof. reflexivity. Qed.

Lemma xml_esc_byte_spec attr b :
  xml_esc_byte attr b =
    if b =? 38 then [38;97;109;112;59]
    else if b =? 60 then [38;108;116;59]
    else if b =? 62 then [38;103;116;59]
    else if b =? 13 then [38;35;120;68;59]
    else if (b =? 9) && attr then [38;35;120;57;59]
    else if (b =? 10) && attr then [38;35;120;65;59]
    else if (b =? 34) && attr then [38;113;117;111;116;59]
    else [b].
Proof.
  unfold xml_esc_byte. rewrite xml_esc_table_expected. cbn [esc_lookup].
  rewrite (N.eqb_sym 38 b), (N.eqb_sym 60 b), (N.eqb_sym 62 b), (N.eqb_sym 13 b), (N.eqb_sym 9 b),
    (N.eqb_sym 10 b), (N.eqb_sym 34 b).
  destruct (b =? 38); [reflexivity|]. destruct (b =? 60); [reflexivity|].
  destruct (b =? 62); [reflexivity|]. destruct (b =? 13); [reflexivity|].
  destruct attr; cbn [andb negb]; rewrite ?andb_true_r, ?andb_false_r;
    destruct (b =? 9); try reflexivity; destruct (b =? 10); try reflexivity; destruct (b =? 34); reflexivity.
Qed.

(* the lexer's white-space-only flag after printing: a byte that is printed as a reference clears it
   (lyxml_parse_value: any ampersand sets ws = 0), so CR never counts, TAB and LF only in element content *)
Definition ws_printed (attr : bool) (b : N) : bool :=
  is_xmlws b && negb (b =? 13) && negb (attr && ((b =? 9) || (b =? 10))).

(* ---------- shape of what ly_getutf8 accepts ---------- *)
Definition plain (b : N) : Prop := b <> 34 /\ b <> 38 /\ b <> 60 /\ b <> 62 /\ b <> 13 /\ b <> 9 /\ b <> 10.

Ltac spec_contra H := intros ->; vm_compute in H; discriminate H.
Ltac plain_from H := unfold plain; repeat split; spec_contra H.

Lemma cont_plain b : is_cont b = true -> plain b.
Proof. unfold is_cont. intro H. plain_from H. Qed.

Definition ctrl_bad (c : N) : bool := (c <? 32) && negb (c =? 9) && negb (c =? 10) && negb (c =? 13).

(* one accepted character: its bytes [c], independent of what follows *)
Lemma getutf8_inv s cp u :
  getutf8 s = Some (cp, u) ->
  exists c r, s = c ++ r /\ length c = u /\ c <> [] /\
    (forall r', getutf8 (c ++ r') = Some (cp, u)) /\
    ((exists a, c = [a] /\ ctrl_bad a = false) \/ (Forall plain c /\ is_xmlws (hd 0 c) = false)).
Proof.
  unfold getutf8. destruct s as [|a s]; [cbn; discriminate|].
  cbn [rd0 nth].
  destruct (N.land a 128 =? 0) eqn:H1.
  { fold (ctrl_bad a). destruct (ctrl_bad a) eqn:Hc; [discriminate|].
    intro E; injection E as <- <-. exists [a], s. repeat split; try reflexivity; try discriminate.
    - intro r'. cbn [app rd0 nth]. rewrite H1. fold (ctrl_bad a). rewrite Hc. reflexivity.
    - left. exists a. split; [reflexivity|exact Hc]. }
  assert (Pa : (N.land a 224 =? 192) = true \/ (N.land a 240 =? 224) = true \/ (N.land a 248 =? 240) = true -> plain a).
  { intros [H|[H|H]]; plain_from H. }
  assert (Wa : is_xmlws a = false).
  { unfold is_xmlws. destruct (a =? 32) eqn:E1; [apply N.eqb_eq in E1; subst; discriminate H1|].
    destruct (a =? 9) eqn:E2; [apply N.eqb_eq in E2; subst; discriminate H1|].
    destruct (a =? 10) eqn:E3; [apply N.eqb_eq in E3; subst; discriminate H1|].
    destruct (a =? 13) eqn:E4; [apply N.eqb_eq in E4; subst; discriminate H1|]. reflexivity. }
  destruct (N.land a 224 =? 192) eqn:H2.
  { destruct s as [|b s]; [cbn; discriminate|]. cbn [rd0 nth].
    destruct (is_cont b) eqn:Hb; cbn [negb]; [|discriminate].
    match goal with |- context[if ?c then None else _] => destruct c eqn:Hv end; [discriminate|].
    intro E; injection E as <- <-. exists [a;b], s. repeat split; try reflexivity; try discriminate.
    - intro r'. cbn [app rd0 nth]. rewrite H1, H2, Hb. cbn [negb]. rewrite Hv. reflexivity.
    - right. split; [|exact Wa]. constructor; [apply Pa; auto|]. repeat (constructor; [apply cont_plain; assumption|]). constructor. }
  destruct (N.land a 240 =? 224) eqn:H3.
  { destruct s as [|b s]; [cbn; discriminate|]. cbn [rd0 nth].
    destruct (is_cont b) eqn:Hb; cbn [negb]; [|discriminate].
    destruct s as [|c s]; [cbn; discriminate|]. cbn [rd0 nth].
    destruct (is_cont c) eqn:Hc; cbn [negb]; [|discriminate].
    match goal with |- context[if ?c then None else _] => destruct c eqn:Hv end; [discriminate|].
    intro E; injection E as <- <-. exists [a;b;c], s. repeat split; try reflexivity; try discriminate.
    - intro r'. cbn [app rd0 nth]. rewrite H1, H2, H3, Hb, Hc. cbn [negb]. rewrite Hv. reflexivity.
    - right. split; [|exact Wa]. constructor; [apply Pa; auto|]. repeat (constructor; [apply cont_plain; assumption|]). constructor. }
  destruct (N.land a 248 =? 240) eqn:H4; [|discriminate].
  destruct s as [|b s]; [cbn; discriminate|]. cbn [rd0 nth].
  destruct (is_cont b) eqn:Hb; cbn [negb]; [|discriminate].
  destruct s as [|c s]; [cbn; discriminate|]. cbn [rd0 nth].
  destruct (is_cont c) eqn:Hc; cbn [negb]; [|discriminate].
  destruct s as [|d s]; [cbn; discriminate|]. cbn [rd0 nth].
  destruct (is_cont d) eqn:Hd; cbn [negb]; [|discriminate].
  match goal with |- context[if ?c then None else _] => destruct c eqn:Hv end; [discriminate|].
  intro E; injection E as <- <-. exists [a;b;c;d], s. repeat split; try reflexivity; try discriminate.
  - intro r'. cbn [app rd0 nth]. rewrite H1, H2, H3, H4, Hb, Hc, Hd. cbn [negb]. rewrite Hv. reflexivity.
  - right. split; [|exact Wa]. constructor; [apply Pa; auto|]. repeat (constructor; [apply cont_plain; assumption|]). constructor.
Qed.

(* ---------- the payloads: strings all of whose characters the lexer accepts ---------- *)
Inductive lexable : bytes -> Prop :=
| lx_nil : lexable []
| lx_cons s cp u : getutf8 s = Some (cp, u) -> lexable (skipn u s) -> lexable s.

(* element content is printed with attribute=0 and ends at '<'; attribute values are printed with
   attribute=1 between double quotes *)
Definition delim_ok (attr : bool) (endc : N) : Prop :=
  (attr = false /\ endc = 60) \/ (attr = true /\ endc = 34).

Lemma xml_esc_app attr a b : xml_esc attr (a ++ b) = xml_esc attr a ++ xml_esc attr b.
Proof. unfold xml_esc. apply flat_map_app. Qed.

Lemma xml_esc_plain attr c : Forall plain c -> xml_esc attr c = c.
Proof.
  induction 1 as [|b c Hb _ IH]; [reflexivity|].
  unfold xml_esc in *. cbn [flat_map]. rewrite IH, xml_esc_byte_spec.
  destruct Hb as (H34 & H38 & H60 & H62 & H13 & H9 & H10).
  apply N.eqb_neq in H34, H38, H60, H62, H13, H9, H10. rewrite H34, H38, H60, H62, H13, H9, H10. reflexivity.
Qed.

Lemma skipn_app_len {A} (c r : list A) : skipn (length c) (c ++ r) = r.
Proof. induction c; cbn; auto. Qed.
Lemma firstn_app_len {A} (c r : list A) : firstn (length c) (c ++ r) = c.
Proof. induction c; cbn; congruence. Qed.

Lemma cdata_hdr_not60 a r : a <> 60 -> starts_with cdata_hdr (a :: r) = false.
Proof. intro H. unfold cdata_hdr. cbn [starts_with]. apply N.eqb_neq in H. rewrite N.eqb_sym, H. reflexivity. Qed.

Lemma step_amp f endc r acc ws :
  xml_value_f (S f) endc (38 :: 97 :: 109 :: 112 :: 59 :: r) acc ws = xml_value_f f endc r (acc ++ [38]) false.
Proof. reflexivity. Qed.
Lemma step_lt f endc r acc ws :
  xml_value_f (S f) endc (38 :: 108 :: 116 :: 59 :: r) acc ws = xml_value_f f endc r (acc ++ [60]) false.
Proof. reflexivity. Qed.
Lemma step_gt f endc r acc ws :
  xml_value_f (S f) endc (38 :: 103 :: 116 :: 59 :: r) acc ws = xml_value_f f endc r (acc ++ [62]) false.
Proof. reflexivity. Qed.
Lemma step_quot f endc r acc ws :
  xml_value_f (S f) endc (38 :: 113 :: 117 :: 111 :: 116 :: 59 :: r) acc ws = xml_value_f f endc r (acc ++ [34]) false.
Proof. reflexivity. Qed.
(* the hexadecimal character references the printer writes: &#xD; &#x9; &#xA; *)
Lemma step_cr f endc r acc ws :
  xml_value_f (S f) endc (38 :: 35 :: 120 :: 68 :: 59 :: r) acc ws = xml_value_f f endc r (acc ++ [13]) false.
Proof. reflexivity. Qed.
Lemma step_tab f endc r acc ws :
  xml_value_f (S f) endc (38 :: 35 :: 120 :: 57 :: 59 :: r) acc ws = xml_value_f f endc r (acc ++ [9]) false.
Proof. reflexivity. Qed.
Lemma step_lf f endc r acc ws :
  xml_value_f (S f) endc (38 :: 35 :: 120 :: 65 :: 59 :: r) acc ws = xml_value_f f endc r (acc ++ [10]) false.
Proof. reflexivity. Qed.

Lemma xml_value_roundtrip_f s :
  lexable s ->
  forall attr endc rest fuel acc ws,
    delim_ok attr endc ->
    starts_with cdata_hdr (endc :: rest) = false ->
    (length (xml_esc attr s) < fuel)%nat ->
    xml_value_f fuel endc (xml_esc attr s ++ endc :: rest) acc ws =
      Ok (acc ++ s, endc :: rest, ws && forallb (ws_printed attr) s).
Proof.
  induction 1 as [|s cp u Hg Hlex IH]; intros attr endc rest fuel acc ws Hd Hcd Hf.
  - destruct fuel as [|f]; [cbn in Hf; lia|].
    cbn [xml_esc flat_map app xml_value_f]. rewrite app_nil_r, andb_true_r.
    assert (E38 : (endc =? 38) = false) by (destruct Hd as [[_ ->]|[_ ->]]; reflexivity).
    rewrite E38, Hcd, N.eqb_refl. reflexivity.
  - destruct (getutf8_inv _ _ _ Hg) as (c & r & -> & Hlen & Hne & Hind & Hshape).
    rewrite <- Hlen, skipn_app_len in Hlex, IH.
    rewrite xml_esc_app in Hf |- *. rewrite app_length in Hf.
    rewrite <- app_assoc.
    destruct fuel as [|f]; [lia|].
    destruct Hshape as [(a & -> & Hctrl) | (Hplain & Hws)].
    + (* a single byte *)
      cbn [length] in Hlen. subst u.
      unfold xml_esc at 1. cbn [flat_map]. rewrite app_nil_r, xml_esc_byte_spec.
      unfold xml_esc at 1 in Hf. cbn [flat_map] in Hf. rewrite app_nil_r, xml_esc_byte_spec in Hf.
      cbn [app forallb].
      destruct (a =? 38) eqn:E38.
      { apply N.eqb_eq in E38; subst a. cbn [app length] in Hf |- *. rewrite step_amp.
        rewrite IH by (auto; lia). rewrite <- app_assoc, andb_false_r. reflexivity. }
      destruct (a =? 60) eqn:E60.
      { apply N.eqb_eq in E60; subst a. cbn [app length] in Hf |- *. rewrite step_lt.
        rewrite IH by (auto; lia). rewrite <- app_assoc, andb_false_r. reflexivity. }
      destruct (a =? 62) eqn:E62.
      { apply N.eqb_eq in E62; subst a. cbn [app length] in Hf |- *. rewrite step_gt.
        rewrite IH by (auto; lia). rewrite <- app_assoc, andb_false_r. reflexivity. }
      destruct (a =? 13) eqn:E13.
      { apply N.eqb_eq in E13; subst a. cbn [app length] in Hf |- *. rewrite step_cr.
        rewrite IH by (auto; lia). rewrite <- app_assoc, andb_false_r. reflexivity. }
      destruct ((a =? 9) && attr) eqn:E9.
      { apply andb_true_iff in E9. destruct E9 as [E9 ->]. apply N.eqb_eq in E9; subst a.
        cbn [app length] in Hf |- *. rewrite step_tab.
        rewrite IH by (auto; lia). rewrite <- app_assoc, andb_false_r. reflexivity. }
      destruct ((a =? 10) && attr) eqn:E10.
      { apply andb_true_iff in E10. destruct E10 as [E10 ->]. apply N.eqb_eq in E10; subst a.
        cbn [app length] in Hf |- *. rewrite step_lf.
        rewrite IH by (auto; lia). rewrite <- app_assoc, andb_false_r. reflexivity. }
      destruct ((a =? 34) && attr) eqn:E34.
      { apply andb_true_iff in E34. destruct E34 as [E34 ->]. apply N.eqb_eq in E34; subst a.
        cbn [app length] in Hf |- *. rewrite step_quot.
        rewrite IH by (auto; lia). rewrite <- app_assoc, andb_false_r. reflexivity. }
      (* raw byte *)
      cbn [app length] in Hf |- *. cbn [xml_value_f]. rewrite E38.
      rewrite cdata_hdr_not60 by (apply N.eqb_neq; exact E60).
      assert (Eend : (a =? endc) = false).
      { destruct Hd as [[-> ->]|[-> ->]]; [exact E60|]. rewrite andb_true_r in E34. exact E34. }
      rewrite Eend.
      specialize (Hind (xml_esc attr r ++ endc :: rest)). cbn [app] in Hind. rewrite Hind.
      cbn [skipn firstn]. rewrite IH by (auto; lia).
      assert (Ews : ws_printed attr a = is_xmlws a).
      { unfold ws_printed. rewrite E13. destruct attr; rewrite ?andb_true_r in E9, E10; cbn [andb negb orb];
          rewrite ?E9, ?E10; cbn [andb negb orb]; rewrite ?andb_true_r; reflexivity. }
      rewrite Ews, <- app_assoc, andb_assoc. reflexivity.
    + (* a plain (possibly multi-byte) character *)
      rewrite (xml_esc_plain attr c Hplain) in Hf |- *.
      destruct c as [|a c']; [congruence|]. cbn [hd] in Hws.
      pose proof (Forall_inv Hplain) as (H34 & H38 & H60 & H62 & _).
      cbn [app xml_value_f].
      apply N.eqb_neq in H38. rewrite H38.
      rewrite cdata_hdr_not60 by exact H60.
      assert (Eend : (a =? endc) = false).
      { apply N.eqb_neq. destruct Hd as [[_ ->]|[_ ->]]; assumption. }
      rewrite Eend.
      specialize (Hind (xml_esc attr r ++ endc :: rest)). cbn [app] in Hind. rewrite Hind.
      change (a :: c' ++ xml_esc attr r ++ endc :: rest) with ((a :: c') ++ xml_esc attr r ++ endc :: rest).
      rewrite <- Hlen, skipn_app_len, firstn_app_len.
      rewrite IH by (auto; cbn [length] in Hf; lia).
      rewrite <- app_assoc. cbn [app forallb]. assert (Ews : ws_printed attr a = false) by (unfold ws_printed; rewrite Hws; reflexivity).
      rewrite Ews, Hws. rewrite ?andb_false_r; cbn [andb]; rewrite ?andb_false_r. reflexivity.
Qed.

Theorem xml_value_roundtrip attr endc s rest :
  lexable s -> delim_ok attr endc -> starts_with cdata_hdr (endc :: rest) = false ->
  xml_value endc (xml_esc attr s ++ endc :: rest) = Ok (s, endc :: rest, forallb (ws_printed attr) s).
Proof.
  intros Hs Hd Hc. unfold xml_value.
  rewrite (xml_value_roundtrip_f s Hs attr endc rest _ [] true Hd Hc).
  - reflexivity.
  - rewrite app_length. cbn [length]. lia.
Qed.


(* every accepted character's RFC 3629 encoding is lexable *)
Lemma lexable_encoded cps :
  forallb getutf8_accepts_char cps = true -> lexable (flat_map utf8_encode cps).
Proof.
  induction cps as [|cp cps IH]; intro H; [constructor|].
  cbn [forallb] in H. apply andb_true_iff in H. destruct H as [H1 H2].
  cbn [flat_map].
  pose proof (getutf8_encode cp H1) as Hg.
  destruct (getutf8_inv _ _ _ Hg) as (c & r & Hc & Hlen & Hne & Hind & _).
  assert (r = []).
  { rewrite Hc in Hlen. rewrite app_length in Hlen.
    destruct r; [reflexivity|]. cbn [length] in Hlen. lia. }
  subst r. rewrite app_nil_r in Hc. rewrite Hc in *.
  apply lx_cons with (cp := cp) (u := length c).
  - apply Hind.
  - rewrite skipn_app_len. apply IH. exact H2.
Qed.

Corollary xml_text_roundtrip_encoded attr endc cps rest :
  forallb getutf8_accepts_char cps = true -> delim_ok attr endc ->
  starts_with cdata_hdr (endc :: rest) = false ->
  let s := flat_map utf8_encode cps in
  xml_value endc (xml_esc attr s ++ endc :: rest) = Ok (s, endc :: rest, forallb (ws_printed attr) s).
Proof. intros H Hd Hc s. apply xml_value_roundtrip; [apply lexable_encoded; exact H|exact Hd|exact Hc]. Qed.

(* non-vacuity: a payload mixing every escape class (CR, TAB, LF included), a 2-, 3- and 4-byte character *)
Example xml_roundtrip_example :
  let cps := [97; 38; 60; 62; 34; 39; 9; 10; 13; 10; 13; 233; 8364; 128512; 93; 93; 62; 13] in
  forallb getutf8_accepts_char cps = true /\
  xml_esc true [97; 13; 9; 10; 98] = [97; 38;35;120;68;59; 38;35;120;57;59; 38;35;120;65;59; 98] /\
  xml_esc false [97; 13; 9; 10; 98] = [97; 38;35;120;68;59; 9; 10; 98] /\
  xml_value 60 (xml_esc false (flat_map utf8_encode cps) ++ [60; 47; 97; 62]) =
    Ok (flat_map utf8_encode cps, [60; 47; 97; 62], false) /\
  xml_value 34 (xml_esc true (flat_map utf8_encode cps) ++ [34; 47; 62]) =
    Ok (flat_map utf8_encode cps, [34; 47; 62], false).
Proof. vm_compute. repeat split. Qed.

(* the white-space-only flag: TAB/LF/space content keeps it; a CR (printed as a reference) clears it, and so
   do TAB and LF in an attribute value *)
Example xml_roundtrip_ws_example :
  xml_value 60 (xml_esc false [32; 9; 10] ++ [60]) = Ok ([32; 9; 10], [60], true) /\
  xml_value 60 (xml_esc false [32; 13] ++ [60]) = Ok ([32; 13], [60], false) /\
  xml_value 34 (xml_esc true [32; 9] ++ [34]) = Ok ([32; 9], [34], false) /\
  xml_value 34 (xml_esc true [32; 32] ++ [34]) = Ok ([32; 32], [34], true).
Proof. vm_compute. repeat split. Qed.
