(* Extract_restrict.v — extraction of slice restrict (Restrict + the value stores of slice types) to model_restrict.ml *)
From Coq Require Extraction ExtrOcamlBasic.
From LY Require Import Base TypesMisc IntLex Dec64 Restrict RestrictStr.
Extraction Language OCaml.
Extraction "model_restrict.ml"
  N.add N.mul N.div N.modulo N.sub Z.add Z.mul Z.opp Z.of_N Z.abs_N Z.sub Z.ltb
  TypesMisc.validate_range IntLex.int_store Dec64.dec64_store
  Restrict.compile_range Restrict.compile_chain RestrictStr.compile_str_chain.
