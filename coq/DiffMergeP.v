(* DiffMergeP.v -- lemmas about DiffMerge.v (lyd_diff_merge_all on diff trees, non-user-ordered fragment). *)
From Coq Require Import Permutation Sorted.
From LY Require Import Base Tree TreeP DiffTree DiffTreeP DiffRev DiffRevP DiffMerge.
From Coq Require Import ZifyBool ZifyNat ZifyN.
Local Open Scope N_scope.

(* ------------------------------------------------------------------------------------------- *)
(* witnesses (faithful model; the correspondence run shows the same on libyang)                   *)
(* ------------------------------------------------------------------------------------------- *)
(* schema: 0 list l (key 1), 1 leaf k, 2 container c (non-presence, in l), 3 leaf x (in c, default 7) *)
Definition w_sch : schema :=
  [ (0, mk_sinfo KList None [1] false true [] [] false 0 None OBytes);
    (1, mk_sinfo KLeaf (Some 0) [] false true [] [] false 0 None OInt);
    (2, mk_sinfo (KCont false) (Some 0) [] false true [] [] false 0 None OBytes);
    (3, mk_sinfo KLeaf (Some 2) [] false true [[55]] [] false 0 None OBytes) ].
Definition w_l (c : dnode) : dnode := DN 0 [] false [] [DN 1 [49] false [] []; c].

(* merge: A = no instance; B = l[1] { c { x = 7 explicitly } }; C = l[1] { c (default) { x = 7 (default) } }.
   diff(A,B) creates the instance; diff(B,C) is a none on x with the default flag set.  lyd_diff_merge_none() sets the
   flag of x in the created subtree but the created containers stay explicit (no lyd_np_cont_dflt_set walk in the diff
   tree), so applying the merged diff to A creates c WITHOUT the default flag although all its children carry it. *)
Definition w_A : forest := [].
Definition w_B : forest := [w_l (DN 2 [] false [] [DN 3 [55] false [] []])].
Definition w_C : forest := [w_l (DN 2 [] true [] [DN 3 [55] true [] []])].
Definition w_C_got : forest := [w_l (DN 2 [] false [] [DN 3 [55] true [] []])].

Lemma merge_apply_witness :
  wfb w_sch w_A = true /\ wfb w_sch w_B = true /\ wfb w_sch w_C = true /\
  exists d1 d2 m, diff w_sch true w_A w_B = Ok d1 /\ diff w_sch true w_B w_C = Ok d2 /\
                  merge w_sch false (map redup d1) d2 = Ok m /\ apply w_sch m w_A = Ok w_C_got /\ w_C_got <> w_C.
Proof.
  split; [vm_compute; reflexivity|]. split; [vm_compute; reflexivity|]. split; [vm_compute; reflexivity|].
  eexists _, _, _. split; [vm_compute; reflexivity|]. split; [vm_compute; reflexivity|].
  split; [vm_compute; reflexivity|]. split; [vm_compute; reflexivity|]. discriminate.
Qed.

(* reverse twice: A = l[1] { c { x = 5 } }, B = l[1] { c (default) { x = 7 (default) } }.  In diff(A,B) the duplicated
   parent c carries the default flag; lyd_diff_reverse_value() runs lyd_change_term() on the default leaf, whose
   lyd_np_cont_dflt_del() walk clears the flag of c in the diff tree, and nothing sets it again. *)
Definition r_A : forest := [w_l (DN 2 [] false [] [DN 3 [53] false [] []])].
Definition r_B : forest := [w_l (DN 2 [] true [] [DN 3 [55] true [] []])].

Lemma reverse_twice_witness :
  wfb w_sch r_A = true /\ wfb w_sch r_B = true /\
  exists d r r2, diff w_sch true r_A r_B = Ok d /\ reverse w_sch d = Ok r /\ reverse w_sch r = Ok r2 /\ r2 <> d.
Proof.
  split; [vm_compute; reflexivity|]. split; [vm_compute; reflexivity|].
  eexists _, _, _. split; [vm_compute; reflexivity|]. split; [vm_compute; reflexivity|].
  split; [vm_compute; reflexivity|]. discriminate.
Qed.
