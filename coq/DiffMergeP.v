(* DiffMergeP.v -- lemmas about DiffMerge.v (lyd_diff_merge_all on diff trees, non-user-ordered fragment). *)
From Coq Require Import Permutation Sorted.
From LY Require Import Base Tree TreeP DiffTree DiffTreeP DiffRev DiffRevP DiffMerge.
From Coq Require Import ZifyBool ZifyNat ZifyN.
Local Open Scope N_scope.

(* ------------------------------------------------------------------------------------------- *)
(* witnesses (faithful model; the correspondence run shows the same on libyang)                   *)
(* ------------------------------------------------------------------------------------------- *)
(* schema: 0 list l (key 1), 1 leaf k, 2 container c (non-presence, in l), 3 leaf x (in c, default 7) *)
Definition w_sch : schema :=
  [ (0, mk_sinfo KList None [1] false true [] [] false 0 None OBytes);
    (1, mk_sinfo KLeaf (Some 0) [] false true [] [] false 0 None OInt);
    (2, mk_sinfo (KCont false) (Some 0) [] false true [] [] false 0 None OBytes);
    (3, mk_sinfo KLeaf (Some 2) [] false true [[55]] [] false 0 None OBytes) ].
Definition w_l (c : dnode) : dnode := DN 0 [] false [] [DN 1 [49] false [] []; c].

(* merge (regression case of the former finding merge-npcont-dflt, fixed by 2dd55cd): A = no instance;
   B = l[1] { c { x = 7 explicitly } }; C = l[1] { c (default) { x = 7 (default) } }.  diff(A,B) creates the instance;
   diff(B,C) is a none on x with the default flag set.  lyd_diff_merge_none() sets the flag of x in the created subtree
   and, through lyd_diff_merge_dflt_flag(), the flag of the created container c, so the merged diff creates C exactly. *)
Definition w_A : forest := [].
Definition w_B : forest := [w_l (DN 2 [] false [] [DN 3 [55] false [] []])].
Definition w_C : forest := [w_l (DN 2 [] true [] [DN 3 [55] true [] []])].

Lemma merge_apply_regression :
  wfb w_sch w_A = true /\ wfb w_sch w_B = true /\ wfb w_sch w_C = true /\
  exists d1 d2 m, diff w_sch true w_A w_B = Ok d1 /\ diff w_sch true w_B w_C = Ok d2 /\
                  merge w_sch false (map redup d1) d2 = Ok m /\ apply w_sch m w_A = Ok w_C.
Proof.
  split; [vm_compute; reflexivity|]. split; [vm_compute; reflexivity|]. split; [vm_compute; reflexivity|].
  eexists _, _, _. split; [vm_compute; reflexivity|]. split; [vm_compute; reflexivity|].
  split; [vm_compute; reflexivity|]. vm_compute. reflexivity.
Qed.

(* reverse twice: A = l[1] { c { x = 5 } }, B = l[1] { c (default) { x = 7 (default) } }.  In diff(A,B) the duplicated
   parent c carries the default flag; lyd_diff_reverse_value() runs lyd_change_term() on the default leaf, whose
   lyd_np_cont_dflt_del() walk clears the flag of c in the diff tree, and nothing sets it again. *)
Definition r_A : forest := [w_l (DN 2 [] false [] [DN 3 [53] false [] []])].
Definition r_B : forest := [w_l (DN 2 [] true [] [DN 3 [55] true [] []])].

Lemma reverse_twice_witness :
  wfb w_sch r_A = true /\ wfb w_sch r_B = true /\
  exists d r r2, diff w_sch true r_A r_B = Ok d /\ reverse w_sch d = Ok r /\ reverse w_sch r = Ok r2 /\ r2 <> d.
Proof.
  split; [vm_compute; reflexivity|]. split; [vm_compute; reflexivity|].
  eexists _, _, _. split; [vm_compute; reflexivity|]. split; [vm_compute; reflexivity|].
  split; [vm_compute; reflexivity|]. discriminate.
Qed.

(* ------------------------------------------------------------------------------------------- *)
(* merge_undo: merging the diff that undoes the changes leaves nothing                            *)
(* ------------------------------------------------------------------------------------------- *)
Section WithSchema.
Variable sch : schema.
Variable mdflt : bool.

Notation schema_nouo := (DiffMerge.schema_nouo sch).

Lemma lookup_in s i : lookup sch s = Some i -> exists k, In (k, i) sch /\ k = s.
Proof.
  induction sch as [|[k j] r IH]; cbn [lookup]; [discriminate|].
  destruct (k =? s) eqn:E.
  - intro H. inversion H; subst. apply N.eqb_eq in E. exists k. split; [left; reflexivity|exact E].
  - intro H. destruct (IH H) as [k' [Hin Ek]]. exists k'. split; [right; exact Hin|exact Ek].
Qed.

Lemma nouo_all : schema_nouo = true -> forall s, userordered sch s = false.
Proof.
  unfold DiffMerge.schema_nouo. intros H s. destruct (lookup sch s) as [i|] eqn:E.
  - destruct (lookup_in s i E) as [k [Hin ->]]. rewrite forallb_forall in H. specialize (H _ Hin). cbn [fst] in H.
    apply negb_true_iff. exact H.
  - unfold userordered, sget. rewrite E. reflexivity.
Qed.

Lemma dd_id_iff j d : has_id sch j (dd_node d) = true <-> dd_id sch d = Some j.
Proof. unfold dd_id. apply has_id_iff. Qed.

Lemma dd_match_idx_split l1 t l2 i :
  dd_id sch t = Some i -> (forall x, In x l1 -> dd_id sch x <> Some i) ->
  dd_match_idx sch (l1 ++ t :: l2) (Some i) = Some (length l1).
Proof.
  intros Ht Hn. cbn [dd_match_idx]. apply find_idx_first; [apply dd_id_iff; exact Ht|].
  intros y Hy. destruct (has_id sch i (dd_node y)) eqn:E; [|reflexivity]. apply dd_id_iff in E. exfalso. apply (Hn y Hy E).
Qed.

Lemma dd_match_idx_exists l y j : In y l -> dd_id sch y = Some j -> exists k, dd_match_idx sch l (Some j) = Some k.
Proof.
  intros Hy Hj. cbn [dd_match_idx]. destruct (find_idx (fun d => has_id sch j (dd_node d)) l) as [k|] eqn:E; [exists k; reflexivity|].
  pose proof (find_idx_none _ _ E y Hy) as H. apply (proj2 (dd_id_iff j y)) in Hj. congruence.
Qed.

Lemma set_ops_nokeys_false f : forall l, set_ops_nokeys sch false l f = map f l.
Proof. induction l as [|c l IH]; [reflexivity|]. cbn [set_ops_nokeys map andb]. rewrite IH. reflexivity. Qed.

Lemma set_ops_nokeys_true f : forall l, set_ops_nokeys sch true l f = dd_leadkeys sch l ++ map f (dd_nokeys sch l).
Proof.
  induction l as [|c l IH]; [reflexivity|]. cbn [set_ops_nokeys dd_leadkeys dd_nokeys andb].
  destruct (is_key sch (dd_sid c)).
  - cbn [app]. rewrite IH. reflexivity.
  - cbn [app map]. rewrite set_ops_nokeys_false. reflexivity.
Qed.

Lemma merge_children_lead step np oup : forall l cur fl up,
  merge_children sch step np oup true l cur fl up = merge_children sch step np oup false (dd_nokeys sch l) cur fl up.
Proof.
  induction l as [|c l IH]; intros cur fl up; [reflexivity|].
  cbn [merge_children dd_nokeys andb]. destruct (is_key sch (dd_sid c)); [apply IH|]. cbn [merge_children andb]. reflexivity.
Qed.

Lemma merge_children_false_cons step np oup c l cur fl up :
  merge_children sch step np oup false (c :: l) cur fl up =
  match step c cur with
  | Err e => Err e
  | Ok (cur', sg) => let '(fl', ups) := walks np fl oup sg in merge_children sch step np oup false l cur' fl' (up ++ ups)
  end.
Proof. reflexivity. Qed.

(* the found case of lyd_diff_merge_r *)
Lemma merge_r_found inh_s src inh_t l1 t l2 i sop cur :
  userordered sch (dd_sid src) = false -> eff_op inh_s (dd_op src) = Some sop ->
  dd_id sch src = Some i -> dd_id sch t = Some i -> (forall x, In x l1 -> dd_id sch x <> Some i) ->
  eff_op inh_t (dd_op t) = Some cur ->
  merge_r sch mdflt inh_s src inh_t (l1 ++ t :: l2) =
    match (match sop with
           | OpReplace => merge_replace sch cur (forallb dd_dflt (l1 ++ l2)) t src
           | OpCreate => merge_create sch mdflt cur t src
           | OpDelete => merge_delete sch cur t src
           | OpNone => merge_none sch cur (forallb dd_dflt (l1 ++ l2)) t src
           end) with
    | Err e => Err e
    | Ok (t1, sg1) =>
        match merge_children sch (fun c cur' => merge_r sch mdflt (child_inh inh_s (dd_op src)) c
                                                       (child_inh inh_t (dd_op t1)) cur')
                             (is_np_cont sch (dd_sid src)) (forallb dd_dflt (l1 ++ l2))
                             true (dd_ch src) (dd_ch t1) (dd_dflt t1) [] with
        | Err e => Err e
        | Ok (ch', fl', ups) =>
            let t2 := dd_set_dflt (dd_set_ch t1 ch') fl' in
            match is_redundant sch (eff_op inh_t (dd_op t2)) t2 with
            | Err e => Err e
            | Ok true => Ok (l1 ++ l2, sg1 ++ ups ++ [SSet (forallb dd_dflt (l1 ++ l2))])
            | Ok false => Ok (l1 ++ t2 :: l2, sg1 ++ ups)
            end
        end
    end.
Proof.
  intros Hu Hs Hi Ht Hn Hc. destruct src as [s v f op od ov ch]. cbn [dd_sid dd_op dd_ch] in *.
  cbn [merge_r]. rewrite Hu, Hs, Hi, (dd_match_idx_split l1 t l2 i Ht Hn).
  rewrite nth_split_at, Hc, others_split.
  destruct (match sop with
            | OpReplace => merge_replace sch cur (forallb dd_dflt (l1 ++ l2)) t (DD s v f op od ov ch)
            | OpCreate => merge_create sch mdflt cur t (DD s v f op od ov ch)
            | OpDelete => merge_delete sch cur t (DD s v f op od ov ch)
            | OpNone => merge_none sch cur (forallb dd_dflt (l1 ++ l2)) t (DD s v f op od ov ch)
            end) as [[t1 sg1]|e]; [|reflexivity].
  destruct (merge_children sch _ (is_np_cont sch s) (forallb dd_dflt (l1 ++ l2)) true ch (dd_ch t1) (dd_dflt t1) [])
    as [[[ch' fl'] ups]|e]; [|reflexivity].
  cbn zeta. destruct (is_redundant sch _ _) as [[|]|e]; rewrite ?remove_nth_split, ?replace_nth_split; reflexivity.
Qed.

(* children of a subtree that is undone: the source children remove their counterparts one after the other *)
Lemma undo_children step np oup K (mk_s mk_t : dnode -> dd) : forall R fl up,
  (forall x, In x R -> forall l1 l2, (forall y, In y l1 -> dd_id sch y <> inst_id sch x) ->
     exists sg, step (mk_s x) (l1 ++ mk_t x :: l2) = Ok (l1 ++ l2, sg)) ->
  (forall y x, In y K -> In x R -> dd_id sch y <> inst_id sch x) ->
  exists fl' ups, merge_children sch step np oup false (map mk_s R) (K ++ map mk_t R) fl up = Ok (K, fl', ups).
Proof.
  induction R as [|x R IH]; intros fl up Hstep HK.
  - exists fl, up. cbn. rewrite app_nil_r. reflexivity.
  - cbn [map]. rewrite merge_children_false_cons.
    destruct (Hstep x (or_introl eq_refl) K (map mk_t R)) as [sg E]; [intros y Hy; apply (HK y x Hy); left; reflexivity|].
    rewrite E. destruct (walks np fl oup sg) as [fl1 ups1].
    apply IH; [intros y Hy; apply Hstep; right; exact Hy|intros y z Hy Hz; apply HK; [exact Hy|right; exact Hz]].
Qed.

Lemma child_inh_delete inh op : eff_op inh op = Some OpDelete -> child_inh inh op = Some OpDelete.
Proof. destruct op as [[| | |]|]; cbn; intro H; try discriminate; assumption. Qed.

Lemma nokeys_leadkeys l : nokeys sch (leadkeys sch l) = [].
Proof.
  induction l as [|x l IH]; [reflexivity|]. cbn [leadkeys]. destruct (is_key sch (d_sid x)) eqn:E; [|reflexivity].
  cbn [nokeys]. rewrite E. exact IH.
Qed.

Lemma keys_nokeys_disjoint ch y x :
  NoDup (ids sch ch) -> In y (leadkeys sch ch) -> In x (nokeys sch ch) -> inst_id sch y <> inst_id sch x.
Proof.
  intros Hn Hy Hx E. rewrite (lead_nokeys sch ch), ids_app in Hn.
  apply (NoDup_app_in_both _ _ (inst_id sch y) Hn); [apply in_map; exact Hy|rewrite E; apply in_map; exact Hx].
Qed.

Lemma beq_bytes_refl' v : beq_bytes v v = true.
Proof. apply beq_bytes_eq. reflexivity. Qed.

(* a created subtree and the deletion of the same subtree cancel *)
Lemma undo_cd b : wf_node sch b = true ->
  forall inh_s os inh_t ot l1 l2,
  eff_op inh_s os = Some OpDelete -> eff_op inh_t ot = Some OpCreate ->
  (forall x, In x l1 -> dd_id sch x <> inst_id sch b) ->
  exists sg, merge_r sch mdflt inh_s (dd_set_op (lift b) os) inh_t (l1 ++ dd_set_op (lift b) ot :: l2) = Ok (l1 ++ l2, sg).
Proof.
  induction b as [s v d m ch IH] using dnode_ind'. intros Hw inh_s os inh_t ot l1 l2 Hs Ht Hl1.
  pose proof (wf_node_inv sch _ _ _ _ _ Hw) as W.
  destruct (inst_id_some_uo sch (DN s v d m ch) (wn_uo _ _ _ _ _ _ W)) as [i Hi]. rewrite Hi in Hl1.
  assert (Hids : forall o, dd_id sch (dd_set_op (lift (DN s v d m ch)) o) = Some i).
  { intro o. rewrite dd_id_set_op, dd_id_lift; assumption. }
  assert (Hes : eff_op inh_s (dd_op (dd_set_op (lift (DN s v d m ch)) os)) = Some OpDelete)
    by (destruct (lift (DN s v d m ch)); exact Hs).
  assert (Het : eff_op inh_t (dd_op (dd_set_op (lift (DN s v d m ch)) ot)) = Some OpCreate)
    by (destruct (lift (DN s v d m ch)); exact Ht).
  rewrite (merge_r_found inh_s (dd_set_op (lift (DN s v d m ch)) os) inh_t l1 _ l2 i OpDelete OpCreate (wn_uo _ _ _ _ _ _ W : userordered sch (dd_sid (dd_set_op (lift (DN s v d m ch)) os)) = false) Hes (Hids os) (Hids ot) Hl1 Het).
  rewrite lift_unfold. cbn [dd_set_op]. set (fl := d && forallb dd_dflt (map lift ch)).
  unfold merge_delete.
  cbn [dd_is_term dd_sid dd_val dd_dflt dd_op dd_oval dd_odflt dd_ch dd_set_op dd_set_odflt dd_set_ch].
  rewrite beq_bytes_refl'. cbn [negb]. rewrite andb_false_r. unfold dd_is_term. cbn [dd_sid].
  (* the children of the target get the explicit create, the keys stay *)
  set (mk_t := fun x => dd_set_op (lift x) (Some OpCreate)).
  assert (Ekids : set_ops_nokeys sch true (map lift ch)
            (fun c => match dd_op c with
                      | Some _ => c
                      | None => match dd_match_idx sch (map lift ch) (dd_id sch c) with
                                | Some _ => dd_set_op c (Some OpCreate)
                                | None => c
                                end
                      end) = map lift (leadkeys sch ch) ++ map mk_t (nokeys sch ch)).
  { rewrite set_ops_nokeys_true, dd_leadkeys_map_lift, dd_nokeys_map_lift, map_map. f_equal.
    apply map_ext_in. intros x Hx. unfold mk_t.
    assert (Hop : dd_op (lift x) = None) by (destruct x; reflexivity). rewrite Hop.
    pose proof (wn_ch _ _ _ _ _ _ W) as Hc. rewrite forallb_forall in Hc.
    pose proof (Hc x (nokeys_in sch _ _ Hx)) as Hwx.
    destruct (inst_id_some_uo sch x (wf_node_userord sch _ Hwx)) as [j Hj].
    destruct (dd_match_idx_exists (map lift ch) (lift x) j) as [k Ek];
      [apply in_map, (nokeys_in sch _ _ Hx)|rewrite dd_id_lift; assumption|].
    rewrite (dd_id_lift sch x Hwx), Hj, Ek. reflexivity. }
  assert (Hchildren : forall inh_t',
            exists fl' ups,
              merge_children sch (fun c cur' => merge_r sch mdflt (child_inh inh_s os) c inh_t' cur')
                             (is_np_cont sch s) (forallb dd_dflt (l1 ++ l2)) true (map lift ch)
                             (map lift (leadkeys sch ch) ++ map mk_t (nokeys sch ch)) fl [] =
              Ok (map lift (leadkeys sch ch), fl', ups)).
  { intros inh_t'. rewrite merge_children_lead, dd_nokeys_map_lift.
    pose proof (wn_ch _ _ _ _ _ _ W) as Hc. rewrite forallb_forall in Hc.
    apply (undo_children _ _ _ (map lift (leadkeys sch ch)) lift mk_t).
    - intros x Hx l1' l2' Hl1'. rewrite Forall_forall in IH. pose proof (nokeys_in sch _ _ Hx) as Hxin.
      rewrite <- (dd_set_op_lift_none x). unfold mk_t.
      apply (IH x Hxin (Hc x Hxin)); [rewrite (child_inh_delete _ _ Hs); reflexivity|reflexivity|exact Hl1'].
    - intros y x Hy Hx. apply in_map_iff in Hy. destruct Hy as [k [<- Hk]].
      rewrite (dd_id_lift sch k); [|apply Hc; apply (leadkeys_in sch _ _ Hk)].
      apply (keys_nokeys_disjoint ch); [apply (so_nodup _ _ (wn_sibs _ _ _ _ _ _ W))|exact Hk|exact Hx]. }
  destruct (is_term sch s) eqn:Et.
  - (* leaf / leaf-list: no children *)
    assert (Hch0 : ch = []).
    { pose proof (wn_kind _ _ _ _ _ _ W) as K. rewrite is_term_kind_of in Et.
      destruct (kind_of sch s) as [[|]| | | |]; cbn in Et; try discriminate; try (destruct K as [-> _]; reflexivity). destruct K. }
    subst ch. cbn [map set_ops_nokeys merge_children dd_ch dd_dflt dd_set_dflt dd_set_ch dd_op dd_set_odflt dd_set_op].
    unfold is_redundant, dd_is_term. cbn [dd_sid dd_odflt dd_dflt eff_op]. rewrite Et.
    rewrite Bool.eqb_reflx. eexists. reflexivity.
  - cbn [dd_ch dd_dflt dd_op dd_set_ch dd_set_op dd_set_odflt]. rewrite Ekids.
    destruct (Hchildren (child_inh inh_t (Some OpNone))) as [fl' [ups E]]. rewrite E.
    cbn [dd_set_dflt dd_set_ch dd_op]. unfold is_redundant, dd_is_term. cbn [dd_sid dd_ch eff_op]. rewrite Et.
    unfold has_nokey_child. rewrite dd_nokeys_map_lift, nokeys_leadkeys. cbn [map negb]. eexists. reflexivity.
Qed.

(* a deleted subtree and the creation of the same subtree cancel *)
Lemma undo_dc b : wf_node sch b = true ->
  forall inh_s os inh_t ot l1 l2,
  eff_op inh_s os = Some OpCreate -> eff_op inh_t ot = Some OpDelete ->
  (forall x, In x l1 -> dd_id sch x <> inst_id sch b) ->
  exists sg, merge_r sch mdflt inh_s (dd_set_op (lift b) os) inh_t (l1 ++ dd_set_op (lift b) ot :: l2) = Ok (l1 ++ l2, sg).
Proof.
  induction b as [s v d m ch IH] using dnode_ind'. intros Hw inh_s os inh_t ot l1 l2 Hs Ht Hl1.
  pose proof (wf_node_inv sch _ _ _ _ _ Hw) as W.
  destruct (inst_id_some_uo sch (DN s v d m ch) (wn_uo _ _ _ _ _ _ W)) as [i Hi]. rewrite Hi in Hl1.
  assert (Hids : forall o, dd_id sch (dd_set_op (lift (DN s v d m ch)) o) = Some i).
  { intro o. rewrite dd_id_set_op, dd_id_lift; assumption. }
  assert (Hes : eff_op inh_s (dd_op (dd_set_op (lift (DN s v d m ch)) os)) = Some OpCreate)
    by (destruct (lift (DN s v d m ch)); exact Hs).
  assert (Het : eff_op inh_t (dd_op (dd_set_op (lift (DN s v d m ch)) ot)) = Some OpDelete)
    by (destruct (lift (DN s v d m ch)); exact Ht).
  rewrite (merge_r_found inh_s (dd_set_op (lift (DN s v d m ch)) os) inh_t l1 _ l2 i OpCreate OpDelete (wn_uo _ _ _ _ _ _ W : userordered sch (dd_sid (dd_set_op (lift (DN s v d m ch)) os)) = false) Hes (Hids os) (Hids ot) Hl1 Het).
  rewrite lift_unfold. cbn [dd_set_op]. set (fl := d && forallb dd_dflt (map lift ch)).
  unfold merge_create.
  cbn [dd_sid dd_val dd_dflt dd_op dd_oval dd_odflt dd_ch dd_set_op].
  assert (Ecell : (match kind_of sch s with
                   | KLeaf =>
                       if mdflt && match si_dflts (sget sch s) with
                                   | [] => false
                                   | dv :: _ => beq_bytes dv v
                                   end
                       then (DD s v fl (Some OpNone) None None (map lift ch), [])
                       else if beq_bytes v v then (DD s v fl (Some OpNone) None None (map lift ch), [])
                            else let '(t', sg') := dd_change_term (dd_set_oval (DD s v fl (Some OpReplace) None None (map lift ch)) (Some v)) v in (t', sg')
                   | _ => (DD s v fl (Some OpNone) None None (map lift ch), [])
                   end) = (DD s v fl (Some OpNone) None None (map lift ch), @nil sig)).
  { destruct (kind_of sch s); try reflexivity. rewrite beq_bytes_refl'. destruct (mdflt && _); reflexivity. }
  rewrite Ecell. unfold dd_is_term. cbn [dd_sid].
  set (mk_t := fun x => dd_set_op (lift x) (Some OpDelete)).
  assert (Ekids : set_ops_nokeys sch true (map lift ch) (fun c => dd_set_op c (Some OpDelete)) =
                  map lift (leadkeys sch ch) ++ map mk_t (nokeys sch ch)).
  { rewrite set_ops_nokeys_true, dd_leadkeys_map_lift, dd_nokeys_map_lift, map_map. reflexivity. }
  assert (Hchildren : forall inh_t',
            exists fl' ups,
              merge_children sch (fun c cur' => merge_r sch mdflt (child_inh inh_s os) c inh_t' cur')
                             (is_np_cont sch s) (forallb dd_dflt (l1 ++ l2)) true (map lift ch)
                             (map lift (leadkeys sch ch) ++ map mk_t (nokeys sch ch)) fl [] =
              Ok (map lift (leadkeys sch ch), fl', ups)).
  { intros inh_t'. rewrite merge_children_lead, dd_nokeys_map_lift.
    pose proof (wn_ch _ _ _ _ _ _ W) as Hc. rewrite forallb_forall in Hc.
    apply (undo_children _ _ _ (map lift (leadkeys sch ch)) lift mk_t).
    - intros x Hx l1' l2' Hl1'. rewrite Forall_forall in IH. pose proof (nokeys_in sch _ _ Hx) as Hxin.
      rewrite <- (dd_set_op_lift_none x). unfold mk_t.
      apply (IH x Hxin (Hc x Hxin)); [rewrite (child_inh_create _ _ Hs); reflexivity|reflexivity|exact Hl1'].
    - intros y x Hy Hx. apply in_map_iff in Hy. destruct Hy as [k [<- Hk]].
      rewrite (dd_id_lift sch k); [|apply Hc; apply (leadkeys_in sch _ _ Hk)].
      apply (keys_nokeys_disjoint ch); [apply (so_nodup _ _ (wn_sibs _ _ _ _ _ _ W))|exact Hk|exact Hx]. }
  destruct (is_term sch s) eqn:Et.
  - assert (Hch0 : ch = []).
    { pose proof (wn_kind _ _ _ _ _ _ W) as K. rewrite is_term_kind_of in Et.
      destruct (kind_of sch s) as [[|]| | | |]; cbn in Et; try discriminate; try (destruct K as [-> _]; reflexivity). destruct K. }
    subst ch. cbn [map set_ops_nokeys merge_children dd_ch dd_dflt dd_set_dflt dd_set_ch dd_op dd_set_odflt dd_set_op].
    unfold is_redundant, dd_is_term. cbn [dd_sid dd_odflt dd_dflt eff_op]. rewrite Et.
    rewrite Bool.eqb_reflx. eexists. reflexivity.
  - cbn [dd_ch dd_dflt dd_op dd_set_ch dd_set_op dd_set_odflt]. rewrite Ekids.
    destruct (Hchildren (child_inh inh_t (Some OpNone))) as [fl' [ups E]]. rewrite E.
    cbn [dd_set_dflt dd_set_ch dd_op]. unfold is_redundant, dd_is_term. cbn [dd_sid dd_ch eff_op]. rewrite Et.
    unfold has_nokey_child. rewrite dd_nokeys_map_lift, nokeys_leadkeys. cbn [map negb]. eexists. reflexivity.
Qed.

(* ------------------------------------------------------------------------------------------- *)
(* two diffs over the same pair of sibling lists talk about the same identities                   *)
(* ------------------------------------------------------------------------------------------- *)
Lemma sp_ids inh d oa ob : Sp sch inh d oa ob ->
  exists i, dd_id sch d = Some i /\ (forall a, oa = Some a -> inst_id sch a = Some i) /\
            (forall b, ob = Some b -> inst_id sch b = Some i).
Proof.
  intro H. destruct (apply_sp sch d inh oa ob H) as [i [Hi [_ [Ha Hb]]]]. exists i. repeat split; assumption.
Qed.

Lemma find_match_absent f i : ~ In (Some i) (ids sch f) -> find_match sch true f (Some i) = None.
Proof. intro H. unfold find_match. rewrite (match_idx_absent sch f i H). reflexivity. Qed.

Lemma itIds_in_eq (its : list item) it it' :
  NoDup (itIds sch its) -> In it its -> In it' its -> dd_id sch (it_d it) = dd_id sch (it_d it') -> it = it'.
Proof. intros Hn H1 H2 E. apply (NoDup_map_in_eq (fun x => dd_id sch (it_d x)) its); assumption. Qed.

Lemma in_itA its a : In a (itA its) -> exists it, In it its /\ it_a it = Some a.
Proof.
  unfold itA. intro H. apply in_flat_map in H. destruct H as [it [Hit Ha]]. exists it. split; [exact Hit|].
  destruct (it_a it); [destruct Ha as [->|[]]; reflexivity|destruct Ha].
Qed.
Lemma in_itB its b : In b (itB its) -> exists it, In it its /\ it_b it = Some b.
Proof.
  unfold itB. intro H. apply in_flat_map in H. destruct H as [it [Hit Ha]]. exists it. split; [exact Hit|].
  destruct (it_b it); [destruct Ha as [->|[]]; reflexivity|destruct Ha].
Qed.
Lemma itA_intro its it a : In it its -> it_a it = Some a -> In a (itA its).
Proof. intros H E. unfold itA. apply in_flat_map. exists it. split; [exact H|]. rewrite E. left. reflexivity. Qed.
Lemma itB_intro its it b : In it its -> it_b it = Some b -> In b (itB its).
Proof. intros H E. unfold itB. apply in_flat_map. exists it. split; [exact H|]. rewrite E. left. reflexivity. Qed.

(* the instances an item is about are THE instances with its identity *)
Lemma level_lookup inh its unch fa fb it i :
  Forall (fun it => Sp sch inh (it_d it) (it_a it) (it_b it)) its -> NoDup (itIds sch its) ->
  Permutation fa (itA its ++ unch) -> Permutation fb (itB its ++ unch) ->
  NoDup (ids sch fa) -> NoDup (ids sch fb) ->
  In it its -> dd_id sch (it_d it) = Some i ->
  it_a it = find_match sch true fa (Some i) /\ it_b it = find_match sch true fb (Some i).
Proof.
  intros Hsp Hnd Hpa Hpb Hna Hnb Hit Hi. rewrite Forall_forall in Hsp.
  destruct (sp_ids _ _ _ _ (Hsp it Hit)) as [i' [Hi' [Hia Hib]]]. assert (i' = i) by congruence. subst i'.
  assert (Hside : forall (f f' : forest) (sel sel' : item -> option dnode) (pick pick' : list item -> forest),
            (forall it0 x, In it0 its -> sel it0 = Some x -> In x (pick its)) ->
            (forall x, In x (pick its) -> exists it0, In it0 its /\ sel it0 = Some x) ->
            (forall it0 x, In it0 its -> sel' it0 = Some x -> In x (pick' its)) ->
            Permutation f (pick its ++ unch) -> Permutation f' (pick' its ++ unch) -> NoDup (ids sch f) -> NoDup (ids sch f') ->
            (forall it0 x, In it0 its -> sel it0 = Some x -> exists j, dd_id sch (it_d it0) = Some j /\ inst_id sch x = Some j) ->
            (forall it0 x, In it0 its -> sel' it0 = Some x -> exists j, dd_id sch (it_d it0) = Some j /\ inst_id sch x = Some j) ->
            (sel it <> None \/ sel' it <> None) ->
            sel it = find_match sch true f (Some i)).
  { intros f f' sel sel' pick pick' Hin Hout Hin' Hp Hp' Hn Hn' Hid Hid' Hne.
    destruct (sel it) as [x|] eqn:Ex.
    - symmetry. apply find_match_true_some; [exact Hn| |].
      + apply (Permutation_in _ (Permutation_sym Hp)). apply in_or_app. left. apply (Hin it x Hit Ex).
      + destruct (Hid it x Hit Ex) as [j [Hj Hx]]. congruence.
    - symmetry. apply find_match_absent. intro Hex. apply in_map_iff in Hex. destruct Hex as [x [Hxi Hx]].
      apply (Permutation_in _ Hp) in Hx. apply in_app_or in Hx. destruct Hx as [Hx|Hx].
      + destruct (Hout x Hx) as [it0 [Hit0 E0]]. destruct (Hid it0 x Hit0 E0) as [j [Hj Hxj]].
        assert (it0 = it) by (apply (itIds_in_eq its); try assumption; congruence). subst it0. congruence.
      + (* x is unchanged, so it is in f' as well, next to the other side of the item *)
        destruct Hne as [Hne|Hne]; [congruence|]. destruct (sel' it) as [y|] eqn:Ey; [|congruence].
        destruct (Hid' it y Hit Ey) as [j [Hj Hyj]]. assert (j = i) by congruence. subst j.
        apply (Permutation_NoDup (ids_perm sch _ _ Hp')) in Hn'. rewrite ids_app in Hn'.
        apply (NoDup_app_in_both _ _ (Some i) Hn').
        * rewrite <- Hyj. apply in_map. apply (Hin' it y Hit Ey).
        * rewrite <- Hxi. apply in_map. exact Hx. }
  pose proof (sp_sides _ _ _ _ _ (Hsp it Hit)) as Hne.
  assert (HidA : forall it0 x, In it0 its -> it_a it0 = Some x -> exists j, dd_id sch (it_d it0) = Some j /\ inst_id sch x = Some j).
  { intros it0 x H0 E0. destruct (sp_ids _ _ _ _ (Hsp it0 H0)) as [j [Hj [Ha' _]]]. exists j. split; [exact Hj|apply Ha', E0]. }
  assert (HidB : forall it0 x, In it0 its -> it_b it0 = Some x -> exists j, dd_id sch (it_d it0) = Some j /\ inst_id sch x = Some j).
  { intros it0 x H0 E0. destruct (sp_ids _ _ _ _ (Hsp it0 H0)) as [j [Hj [_ Hb']]]. exists j. split; [exact Hj|apply Hb', E0]. }
  split.
  - apply (Hside fa fb it_a it_b itA itB); try assumption.
    + intros it0 x H0 E0. apply (itA_intro _ it0); assumption.
    + apply in_itA.
    + intros it0 x H0 E0. apply (itB_intro _ it0); assumption.
  - apply (Hside fb fa it_b it_a itB itA); try assumption.
    + intros it0 x H0 E0. apply (itB_intro _ it0); assumption.
    + apply in_itB.
    + intros it0 x H0 E0. apply (itA_intro _ it0); assumption.
    + destruct Hne; [right|left]; assumption.
Qed.

(* an identity whose instances differ has an item *)
Lemma level_cover inh its unch fa fb i :
  Forall (fun it => Sp sch inh (it_d it) (it_a it) (it_b it)) its ->
  Permutation fa (itA its ++ unch) -> Permutation fb (itB its ++ unch) ->
  NoDup (ids sch fa) -> NoDup (ids sch fb) ->
  find_match sch true fa (Some i) <> find_match sch true fb (Some i) ->
  exists it, In it its /\ dd_id sch (it_d it) = Some i.
Proof.
  intros Hsp Hpa Hpb Hna Hnb Hne. rewrite Forall_forall in Hsp.
  assert (Hone : forall (f f' : forest) (pick : list item -> forest) (sel : item -> option dnode) x,
            (forall y, In y (pick its) -> exists it0, In it0 its /\ sel it0 = Some y) ->
            (forall it0 y, In it0 its -> sel it0 = Some y -> exists j, dd_id sch (it_d it0) = Some j /\ inst_id sch y = Some j) ->
            Permutation f (pick its ++ unch) -> (forall y, In y unch -> In y f') -> NoDup (ids sch f') ->
            find_match sch true f (Some i) = Some x -> find_match sch true f' (Some i) <> Some x ->
            exists it, In it its /\ dd_id sch (it_d it) = Some i).
  { intros f f' pick sel x Hout Hid Hp Hun Hn' Ef Hne'.
    destruct (find_match_true_inv sch _ _ _ Ef) as [Hx Hxi].
    apply (Permutation_in _ Hp) in Hx. apply in_app_or in Hx. destruct Hx as [Hx|Hx].
    - destruct (Hout x Hx) as [it0 [H0 E0]]. destruct (Hid it0 x H0 E0) as [j [Hj Hxj]]. exists it0. split; [exact H0|congruence].
    - exfalso. apply Hne'. apply find_match_true_some; [exact Hn'|apply Hun, Hx|exact Hxi]. }
  assert (HunA : forall y, In y unch -> In y fa).
  { intros y Hy. apply (Permutation_in _ (Permutation_sym Hpa)). apply in_or_app. right. exact Hy. }
  assert (HunB : forall y, In y unch -> In y fb).
  { intros y Hy. apply (Permutation_in _ (Permutation_sym Hpb)). apply in_or_app. right. exact Hy. }
  destruct (find_match sch true fa (Some i)) as [a|] eqn:Ea.
  - apply (Hone fa fb itA it_a a); try assumption; [apply in_itA| |intro E; apply Hne; symmetry; exact E].
    intros it0 y H0 E0. destruct (sp_ids _ _ _ _ (Hsp it0 H0)) as [j [Hj [Ha' _]]]. exists j. split; [exact Hj|apply Ha', E0].
  - destruct (find_match sch true fb (Some i)) as [b|] eqn:Eb; [|congruence].
    apply (Hone fb fa itB it_b b); try assumption; [apply in_itB| |rewrite Ea; discriminate].
    intros it0 y H0 E0. destruct (sp_ids _ _ _ _ (Hsp it0 H0)) as [j [Hj [_ Hb']]]. exists j. split; [exact Hj|apply Hb', E0].
Qed.

(* ------------------------------------------------------------------------------------------- *)
(* every diff node describes a real change                                                        *)
(* ------------------------------------------------------------------------------------------- *)
Lemma d_val_set_dflt' n f : d_val (set_dflt n f) = d_val n.
Proof. destruct n; reflexivity. Qed.
Lemma d_val_set_val' n v : d_val (set_val n v) = v.
Proof. destruct n; reflexivity. Qed.
Lemma d_ch_set_dflt' n f : d_ch (set_dflt n f) = d_ch n.
Proof. destruct n; reflexivity. Qed.
Lemma d_ch_set_ch' n c : d_ch (set_ch n c) = c.
Proof. destruct n; reflexivity. Qed.
Lemma d_dflt_set_val' n v : d_dflt (set_val n v) = d_dflt n.
Proof. destruct n; reflexivity. Qed.

Theorem sp_real d : forall inh oa ob, Sp sch inh d oa ob -> oa <> ob.
Proof.
  induction d as [s v fl op od ov ch IH] using dd_ind'. intros inh oa ob H.
  inversion H as [inh0 d0 a i He Ha Hdd Hwf | inh0 d0 b i He Hb Hdd Hwf | inh0 d0 a i He Hk Hd Ha Hs Hne Hov Hod Hch0
                 | inh0 d0 a i He Hk Hd Ha Hod Hch0 Hnany Hreal
                 | inh0 d0 a i chb He Hk Hd Ha Hs Hnk Hlev Sa Hsa Sb Hsb Hfl Hidb Hkey Hnkey Hidk Hkch]; subst;
    cbn [dd_op dd_sid dd_ch dd_val dd_dflt dd_oval dd_odflt] in *.
  - discriminate.
  - discriminate.
  - intro E. inversion E as [E1]. assert (Ev : d_val a = v) by (rewrite E1; rewrite d_val_set_dflt', d_val_set_val'; reflexivity).
    rewrite Ev, beq_bytes_refl' in Hne. discriminate.
  - intro E. inversion E as [E1]. apply Hreal. rewrite E1. rewrite d_dflt_set_dflt. reflexivity.
  - intro E. inversion E as [E1].
    assert (Ech : d_ch a = chb) by (rewrite E1; rewrite d_ch_set_dflt', d_ch_set_ch'; reflexivity).
    destruct Hlev as [its [unch [Eds [Hsp [Hnd [Hpa Hpb]]]]]].
    destruct its as [|it0 its]; [cbn in Eds; congruence|].
    pose proof (Forall_inv Hsp) as Hsp0.
    destruct (sp_ids _ _ _ _ Hsp0) as [i0 [Hi0 _]].
    destruct (level_lookup _ (it0 :: its) unch (d_ch a) chb it0 i0 Hsp Hnd Hpa Hpb (so_nodup _ _ Sa) (so_nodup _ _ Sb)
                           (or_introl eq_refl) Hi0) as [La Lb].
    rewrite Forall_forall in IH.
    assert (Hin : In (it_d it0) ch).
    { apply (dd_nokeys_in sch). rewrite Eds. left. reflexivity. }
    apply (IH (it_d it0) Hin _ _ _ Hsp0). rewrite La, Lb, Ech. reflexivity.
Qed.

(* the diff nodes about an instance that exists on both sides *)
Lemma sp_inv_ss inh d a b : Sp sch inh d (Some a) (Some b) ->
  (exists i, eff_op inh (dd_op d) = Some OpReplace /\ kind_of sch (dd_sid d) = KLeaf /\ dd_id sch d = Some i /\
             inst_id sch a = Some i /\ d_sid a = dd_sid d /\ beq_bytes (dd_val d) (d_val a) = false /\
             dd_oval d = Some (d_val a) /\ dd_odflt d = Some (d_dflt a) /\ dd_ch d = [] /\
             b = set_dflt (set_val a (dd_val d)) (dd_dflt d)) \/
  (exists i, eff_op inh (dd_op d) = Some OpNone /\ is_term sch (dd_sid d) = true /\ dd_id sch d = Some i /\
             inst_id sch a = Some i /\ dd_odflt d = Some (d_dflt a) /\ dd_ch d = [] /\
             kind_of sch (dd_sid d) <> KAny /\ dd_dflt d <> d_dflt a /\ b = set_dflt a (dd_dflt d)) \/
  (exists i chb, eff_op inh (dd_op d) = Some OpNone /\ is_term sch (dd_sid d) = false /\ dd_id sch d = Some i /\
             inst_id sch a = Some i /\ d_sid a = dd_sid d /\ dd_nokeys sch (dd_ch d) <> [] /\
             LevelSp sch (Sp sch (child_inh inh (dd_op d))) (dd_nokeys sch (dd_ch d)) (d_ch a) chb /\
             SibOk sch (d_ch a) /\ AllSome sch (d_ch a) /\ SibOk sch chb /\ AllSome sch chb /\
             (forall c, In c (dd_nokeys sch (dd_ch d)) -> is_key sch (dd_sid c) = false) /\
             b = set_dflt (set_ch a chb) (is_np_cont sch (d_sid a) && forallb d_dflt chb)).
Proof.
  intro H.
  inversion H as [| | inh0 d0 a0 i He Hk Hd Ha Hs Hne Hov Hod Hch0
                 | inh0 d0 a0 i He Hk Hd Ha Hod Hch0 Hnany Hreal
                 | inh0 d0 a0 i chb He Hk Hd Ha Hs Hnk Hlev Sa Hsa Sb Hsb Hfl Hidb Hkey Hnkey Hidk Hkch]; subst.
  - left. exists i. repeat (split; [assumption|]). reflexivity.
  - right. left. exists i. repeat (split; [assumption|]). reflexivity.
  - right. right. exists i, chb. repeat (split; [assumption|]). reflexivity.
Qed.

Lemma dd_sid_of_id d i : dd_id sch d = Some i -> iid_sid i = dd_sid d.
Proof. unfold dd_id. intro H. rewrite (inst_id_sid sch _ _ H). destruct d; reflexivity. Qed.

Lemma all_keys_nokeys l : (forall k, In k l -> is_key sch (dd_sid k) = true) -> dd_nokeys sch l = [].
Proof.
  induction l as [|k l IH]; intro H; [reflexivity|]. cbn [dd_nokeys]. rewrite (H k (or_introl eq_refl)).
  apply IH. intros x Hx. apply H. right. exact Hx.
Qed.

(* ------------------------------------------------------------------------------------------- *)
(* a diff node and the node that undoes it cancel                                                 *)
(* ------------------------------------------------------------------------------------------- *)
Definition UndoPair (inh_s inh_t : option dop) (s t : dd) : Prop :=
  forall l1 l2, (forall x, In x l1 -> dd_id sch x <> dd_id sch t) ->
  exists sg, merge_r sch mdflt inh_s s inh_t (l1 ++ t :: l2) = Ok (l1 ++ l2, sg).

Lemma in_map_split {A B} (f : A -> B) l y : In y (map f l) -> exists l1 x l2, l = l1 ++ x :: l2 /\ f x = y.
Proof.
  intro H. apply in_map_iff in H. destruct H as [x [E Hx]]. apply in_split in Hx. destruct Hx as [l1 [l2 ->]].
  exists l1, x, l2. split; [reflexivity|exact E].
Qed.

Lemma undo_fold inh_s inh_t np oup K : forall ss rem fl up,
  NoDup (map (dd_id sch) ss) -> NoDup (map (dd_id sch) rem) ->
  (forall i, In i (map (dd_id sch) ss) <-> In i (map (dd_id sch) rem)) ->
  (forall s t, In s ss -> In t rem -> dd_id sch s = dd_id sch t -> UndoPair inh_s inh_t s t) ->
  (forall k t, In k K -> In t rem -> dd_id sch k <> dd_id sch t) ->
  exists fl' ups,
    merge_children sch (fun c cur' => merge_r sch mdflt inh_s c inh_t cur') np oup false ss (K ++ rem) fl up = Ok (K, fl', ups).
Proof.
  induction ss as [|s ss IH]; intros rem fl up Hns Hnr Hiff Hpair HK.
  - destruct rem as [|t rem].
    + exists fl, up. cbn. rewrite app_nil_r. reflexivity.
    + exfalso. apply (proj2 (Hiff (dd_id sch t))). left. reflexivity.
  - assert (Hin : In (dd_id sch s) (map (dd_id sch) rem)) by (apply Hiff; left; reflexivity).
    destruct (in_map_split _ _ _ Hin) as [r1 [t [r2 [-> Et]]]].
    rewrite merge_children_false_cons.
    destruct (Hpair s t (or_introl eq_refl)) with (l1 := K ++ r1) (l2 := r2) as [sg E].
    + apply in_or_app. right. left. reflexivity.
    + symmetry. exact Et.
    + intros x Hx. apply in_app_or in Hx. destruct Hx as [Hx|Hx].
      * apply HK; [exact Hx|apply in_or_app; right; left; reflexivity].
      * rewrite map_app in Hnr. cbn [map] in Hnr. apply NoDup_remove_2 in Hnr. intro Ex. apply Hnr.
        apply in_or_app. left. rewrite <- Ex. apply in_map. exact Hx.
    + rewrite <- app_assoc in E. cbn [app] in E. rewrite E. rewrite <- app_assoc.
      destruct (walks np fl oup sg) as [fl1 ups1].
      cbn [map] in Hns. inversion Hns as [|? ? Hns1 Hns2]; subst.
      assert (Hnr' : NoDup (map (dd_id sch) (r1 ++ r2))).
      { rewrite map_app in *. cbn [map] in Hnr. apply NoDup_remove_1 in Hnr. exact Hnr. }
      apply IH.
      * exact Hns2.
      * exact Hnr'.
      * intro i. split.
        -- intro Hi. assert (Hi' : In i (map (dd_id sch) (r1 ++ t :: r2))) by (apply Hiff; right; exact Hi).
           rewrite map_app in Hi'. cbn [map] in Hi'. apply in_app_or in Hi'. rewrite map_app. apply in_or_app.
           destruct Hi' as [Hi'|[Hi'|Hi']]; [left; exact Hi'| |right; exact Hi'].
           exfalso. apply Hns1. rewrite <- Et, Hi'. exact Hi.
        -- intro Hi. assert (Hi' : In i (map (dd_id sch) (s :: ss))).
           { apply Hiff. rewrite map_app in *. cbn [map]. apply in_app_or in Hi. apply in_or_app.
             destruct Hi; [left|right; right]; assumption. }
           destruct Hi' as [Hi'|Hi']; [|exact Hi']. exfalso.
           rewrite map_app in Hnr. cbn [map] in Hnr. apply NoDup_remove_2 in Hnr. apply Hnr.
           rewrite Et, Hi'. rewrite <- map_app. exact Hi.
      * intros s' t' Hs' Ht' Eid. apply Hpair; [right; exact Hs'| |exact Eid].
        apply in_app_or in Ht'. apply in_or_app. destruct Ht'; [left|right; right]; assumption.
      * intros k t' Hk Ht'. apply HK; [exact Hk|].
        apply in_app_or in Ht'. apply in_or_app. destruct Ht'; [left|right; right]; assumption.
Qed.

Lemma inst_id_set_dflt_val_leaf n v f : kind_of sch (d_sid n) = KLeaf -> inst_id sch (set_dflt (set_val n v) f) = inst_id sch n.
Proof. intro H. rewrite inst_id_set_dflt. apply inst_id_set_val_leaf. exact H. Qed.

Lemma d_dflt_set_dflt' n f : d_dflt (set_dflt n f) = f.
Proof. destruct n; reflexivity. Qed.
Lemma d_sid_set' n v f : d_sid (set_dflt (set_val n v) f) = d_sid n.
Proof. destruct n; reflexivity. Qed.
Lemma d_sid_set_dflt' n f : d_sid (set_dflt n f) = d_sid n.
Proof. destruct n; reflexivity. Qed.
Lemma d_sid_set_ch' n c f : d_sid (set_dflt (set_ch n c) f) = d_sid n.
Proof. destruct n; reflexivity. Qed.

(* a diff node about well-formed instances is not a user-ordered one: the only place the schema as a whole was needed *)
Definition OWf (o : option dnode) : Prop := forall n, o = Some n -> wf_node sch n = true.

Lemma wf_nouo n : wf_node sch n = true -> userordered sch (d_sid n) = false.
Proof. destruct n as [s v d m ch]. intro H. exact (wn_uo _ _ _ _ _ _ (wf_node_inv sch _ _ _ _ _ H)). Qed.

Lemma sp_sid_nouo inh d oa ob : Sp sch inh d oa ob -> OWf oa -> OWf ob -> userordered sch (dd_sid d) = false.
Proof.
  intros H Wa Wb. destruct H as [inh d a i He Hi Hd Hw|inh d b i He Hi Hd Hw|inh d a i He Hk Hdi Hi Hs|inh d a i He Ht Hdi Hi|
                                  inh d a i chb He Ht Hdi Hi Hs].
  - rewrite Hd, dd_sid_set_op, dd_sid_lift. apply wf_nouo, Hw.
  - rewrite Hd, dd_sid_set_op, dd_sid_lift. apply wf_nouo, Hw.
  - rewrite <- Hs. apply wf_nouo, Wa. reflexivity.
  - rewrite <- (dd_sid_of_id _ _ Hdi), (inst_id_sid sch _ _ Hi). apply wf_nouo, Wa. reflexivity.
  - rewrite <- Hs. apply wf_nouo, Wa. reflexivity.
Qed.

Lemma wf_in_children a x : wf_node sch a = true -> In x (d_ch a) -> wf_node sch x = true.
Proof.
  destruct a as [s v d m ch]. intros H Hx. pose proof (wn_ch _ _ _ _ _ _ (wf_node_inv sch _ _ _ _ _ H)) as Hc.
  rewrite forallb_forall in Hc. apply Hc. exact Hx.
Qed.

Lemma find_match_owf f i : (forall x, In x f -> wf_node sch x = true) -> OWf (find_match sch true f (Some i)).
Proof. intros H n E. apply H. apply (find_match_true_inv sch f i n E). Qed.

Theorem undo_node s :
  forall inh_s inh_t t oa ob, OWf oa -> OWf ob -> Sp sch inh_s s ob oa -> Sp sch inh_t t oa ob -> UndoPair inh_s inh_t s t.
Proof.
  induction s as [ss vs fs ops ods ovs chs IH] using dd_ind'. intros inh_s inh_t t oa ob Woa Wob Hs Ht.
  pose proof (sp_sid_nouo _ _ _ _ Hs Wob Woa) as Hnouo. cbn [dd_sid] in Hnouo.
  destruct oa as [a|], ob as [b|].
  - (* the instance exists on both sides *)
    destruct (sp_inv_ss _ _ _ _ Hs) as [[i S]|[[i S]|[i [cha S]]]];
    destruct (sp_inv_ss _ _ _ _ Ht) as [[i' T]|[[i' T]|[i' [chb T]]]].
    + (* replace / replace back *)
      destruct S as [Se [Sk [Sid [Sb [Ssid [Sne [Sov [Sod [Sch Sa]]]]]]]]].
      destruct T as [Te [Tk [Tid [Ta [Tsid [Tne [Tov [Tod [Tch Tb]]]]]]]]].
      cbn [dd_op dd_sid dd_val dd_dflt dd_oval dd_odflt dd_ch] in *. subst ovs ods chs.
      assert (Eva : d_val a = vs) by (rewrite Sa, d_val_set_dflt', d_val_set_val'; reflexivity).
      assert (Efa : d_dflt a = fs) by (rewrite Sa, d_dflt_set_dflt'; reflexivity).
      assert (Ei : i' = i).
      { rewrite Sa, inst_id_set_dflt_val_leaf in Ta; [congruence|rewrite Ssid; exact Sk]. }
      subst i'. intros l1 l2 Hl1. rewrite Tid in Hl1.
      destruct t as [st vt ft opt odt ovt cht]. cbn [dd_op dd_sid dd_val dd_dflt dd_oval dd_odflt dd_ch] in *. subst ovt odt cht.
      rewrite (merge_r_found inh_s (DD ss vs fs ops (Some (d_dflt b)) (Some (d_val b)) []) inh_t l1
                             (DD st vt ft opt (Some (d_dflt a)) (Some (d_val a)) []) l2 i OpReplace OpReplace
                             Hnouo Se Sid Tid Hl1 Te).
      unfold merge_replace, dd_change_term, dd_merge_dflt_flag.
      cbn [dd_sid dd_val dd_dflt dd_op dd_oval dd_odflt dd_ch dd_set_op dd_set_val dd_set_dflt dd_set_oval].
      rewrite Tk, Eva in *. rewrite Tne, beq_bytes_refl'.
      cbn [dd_set_op dd_set_oval dd_set_dflt merge_children dd_ch dd_dflt dd_set_ch dd_op].
      unfold is_redundant, dd_is_term. cbn [dd_sid dd_odflt dd_dflt eff_op].
      rewrite is_term_kind_of, Tk, Efa. cbn [is_term_kind]. rewrite Bool.eqb_reflx. eexists. reflexivity.
    + (* replace against a flag change: the values differ *)
      exfalso. destruct S as [_ [_ [_ [_ [_ [Sne [_ [_ [_ Sa]]]]]]]]]. destruct T as [_ [_ [_ [_ [_ [_ [_ [_ Tb]]]]]]]].
      cbn [dd_val] in Sne. rewrite Tb, d_val_set_dflt', Sa, d_val_set_dflt', d_val_set_val', beq_bytes_refl' in Sne. discriminate.
    + exfalso. destruct S as [_ [Sk [_ [_ [Ssid [_ [_ [_ [_ Sa]]]]]]]]]. destruct T as [_ [Tt [_ [_ [Tsid _]]]]].
      rewrite <- Tsid, Sa, d_sid_set', Ssid, is_term_kind_of, Sk in Tt. discriminate.
    + exfalso. destruct S as [_ [_ [_ [_ [_ [_ [_ [_ Sa]]]]]]]]. destruct T as [_ [_ [_ [_ [_ [Tne [_ [_ [_ Tb]]]]]]]]].
      rewrite Sa, d_val_set_dflt', Tb, d_val_set_dflt', d_val_set_val', beq_bytes_refl' in Tne. discriminate.
    + (* flag change / flag change back *)
      destruct S as [Se [St [Sid [Sb [Sod [Sch [Sany [Sreal Sa]]]]]]]].
      destruct T as [Te [Tt [Tid [Ta [Tod [Tch [Tany [Treal Tb]]]]]]]].
      cbn [dd_op dd_sid dd_val dd_dflt dd_oval dd_odflt dd_ch] in *. subst ods chs.
      assert (Efa : d_dflt a = fs) by (rewrite Sa, d_dflt_set_dflt'; reflexivity).
      assert (Ei : i' = i) by (rewrite Sa, inst_id_set_dflt in Ta; congruence).
      subst i'. intros l1 l2 Hl1. rewrite Tid in Hl1.
      destruct t as [st vt ft opt odt ovt cht]. cbn [dd_op dd_sid dd_val dd_dflt dd_oval dd_odflt dd_ch] in *. subst odt cht.
      rewrite (merge_r_found inh_s (DD ss vs fs ops (Some (d_dflt b)) ovs []) inh_t l1
                             (DD st vt ft opt (Some (d_dflt a)) ovt []) l2 i OpNone OpNone
                             Hnouo Se Sid Tid Hl1 Te).
      unfold merge_none, dd_is_term, dd_merge_dflt_flag. cbn [dd_sid dd_dflt]. rewrite St.
      cbn [dd_set_dflt merge_children dd_ch dd_dflt dd_set_ch dd_op].
      unfold is_redundant, dd_is_term. cbn [dd_sid dd_odflt dd_dflt dd_op]. rewrite Te, Tt, Efa, Bool.eqb_reflx.
      eexists. reflexivity.
    + exfalso. destruct S as [_ [St [Sid [Sb [_ [_ [_ [_ Sa]]]]]]]]. destruct T as [_ [Tt [_ [_ [Tsid _]]]]].
      rewrite <- Tsid, Sa, d_sid_set_dflt' in Tt. rewrite <- (dd_sid_of_id _ _ Sid), (inst_id_sid sch _ _ Sb) in St. congruence.
    + exfalso. destruct S as [_ [St [_ [_ [Ssid _]]]]]. destruct T as [_ [Tk [_ [_ [Tsid [_ [_ [_ [_ Tb]]]]]]]]].
      rewrite <- Ssid, Tb, d_sid_set', Tsid, is_term_kind_of, Tk in St. discriminate.
    + exfalso. destruct S as [_ [St [Sid [Sb [Ssid _]]]]]. destruct T as [_ [Tt [Tid [Ta [_ [_ [_ [_ Tb]]]]]]]].
      rewrite <- Ssid, Tb, d_sid_set_dflt' in St.
      rewrite <- (dd_sid_of_id _ _ Tid), (inst_id_sid sch _ _ Ta) in Tt. congruence.
    + (* none on an inner node on both sides: the level below *)
      destruct S as [Se [St [Sid [Sb [Ssid [Snk [Slev [SSb [SAb [SSa [SAa [Snkey Sa]]]]]]]]]]]].
      destruct T as [Te [Tt [Tid [Ta [Tsid [Tnk [Tlev [TSa [TAa [TSb [TAb [Tnkey Tb]]]]]]]]]]]].
      assert (Echa : d_ch a = cha) by (rewrite Sa, d_ch_set_dflt', d_ch_set_ch'; reflexivity).
      assert (Echb : d_ch b = chb) by (rewrite Tb, d_ch_set_dflt', d_ch_set_ch'; reflexivity).
      assert (Wcha : forall x, In x cha -> wf_node sch x = true).
      { intros x Hx. apply (wf_in_children a); [apply Woa; reflexivity|rewrite Echa; exact Hx]. }
      assert (Wchb : forall x, In x chb -> wf_node sch x = true).
      { intros x Hx. apply (wf_in_children b); [apply Wob; reflexivity|rewrite Echb; exact Hx]. }
      assert (Ei : i' = i).
      { assert (E1 : inst_id sch (set_ch b cha) = Some i') by (rewrite Sa, inst_id_set_dflt in Ta; exact Ta).
        (* same schema node, and the identity of b and of a are tied by the two diffs: use the sids and the fact that
           both are identities of a *)
        clear - Ta Sa Tb Sb Hs Ht. destruct (sp_ids _ _ _ _ Hs) as [j [_ [Hjb Hja]]].
        pose proof (Hjb b eq_refl). pose proof (Hja a eq_refl). congruence. }
      subst i'. intros l1 l2 Hl1. rewrite Tid in Hl1.
      destruct t as [st vt ft opt odt ovt cht]. cbn [dd_op dd_sid dd_val dd_dflt dd_oval dd_odflt dd_ch] in *.
      rewrite (merge_r_found inh_s (DD ss vs fs ops ods ovs chs) inh_t l1 (DD st vt ft opt odt ovt cht) l2 i OpNone OpNone
                             Hnouo Se Sid Tid Hl1 Te).
      unfold merge_none, dd_is_term. cbn [dd_sid dd_dflt]. rewrite St. cbn [dd_ch dd_dflt dd_op].
      destruct Slev as [its_s [unch_s [Eds_s [Hsp_s [Hnd_s [Hpa_s Hpb_s]]]]]].
      destruct Tlev as [its_t [unch_t [Eds_t [Hsp_t [Hnd_t [Hpa_t Hpb_t]]]]]].
      rewrite Echa in *. rewrite Echb in *.
      rewrite merge_children_lead, Eds_s.
      pose proof (so_nodup _ _ SSb) as Nb. pose proof (so_nodup _ _ SSa) as Na.
      (* an item of either diff: its identity and what it is about *)
      assert (LS : forall it j, In it its_s -> dd_id sch (it_d it) = Some j ->
                 it_a it = find_match sch true chb (Some j) /\ it_b it = find_match sch true cha (Some j)).
      { intros it j Hit Hj. apply (level_lookup (child_inh inh_s ops) its_s unch_s chb cha it j); assumption. }
      assert (LT : forall it j, In it its_t -> dd_id sch (it_d it) = Some j ->
                 it_a it = find_match sch true cha (Some j) /\ it_b it = find_match sch true chb (Some j)).
      { intros it j Hit Hj. apply (level_lookup (child_inh inh_t opt) its_t unch_t cha chb it j); assumption. }
      destruct (undo_fold (child_inh inh_s ops) (child_inh inh_t opt) (is_np_cont sch ss) (forallb dd_dflt (l1 ++ l2))
                          (dd_leadkeys sch cht) (map it_d its_s) (map it_d its_t) ft []) as [fl' [ups E]].
      * rewrite map_map. exact Hnd_s.
      * rewrite map_map. exact Hnd_t.
      * (* the same identities *)
        intro oi. rewrite !map_map. split; intro Hin; apply in_map_iff in Hin; destruct Hin as [it [Eoi Hit]].
        -- rewrite Forall_forall in Hsp_s. destruct (sp_ids _ _ _ _ (Hsp_s it Hit)) as [j [Hj _]].
           destruct (LS it j Hit Hj) as [La Lb]. pose proof (sp_real _ _ _ _ (Hsp_s it Hit)) as Hr.
           destruct (level_cover (child_inh inh_t opt) its_t unch_t cha chb j Hsp_t Hpa_t Hpb_t Na Nb) as [it' [Hit' Hj']].
           { intro Eq. apply Hr. rewrite La, Lb. symmetry. exact Eq. }
           apply in_map_iff. exists it'. split; [congruence|exact Hit'].
        -- rewrite Forall_forall in Hsp_t. destruct (sp_ids _ _ _ _ (Hsp_t it Hit)) as [j [Hj _]].
           destruct (LT it j Hit Hj) as [La Lb]. pose proof (sp_real _ _ _ _ (Hsp_t it Hit)) as Hr.
           destruct (level_cover (child_inh inh_s ops) its_s unch_s chb cha j Hsp_s Hpa_s Hpb_s Nb Na) as [it' [Hit' Hj']].
           { intro Eq. apply Hr. rewrite La, Lb. symmetry. exact Eq. }
           apply in_map_iff. exists it'. split; [congruence|exact Hit'].
      * (* pairs with one identity cancel: induction hypothesis *)
        intros s' t' Hs' Ht' Eid. apply in_map_iff in Hs'. destruct Hs' as [its' [<- Hits']].
        apply in_map_iff in Ht'. destruct Ht' as [itt' [<- Hitt']].
        rewrite Forall_forall in Hsp_s, Hsp_t, IH.
        destruct (sp_ids _ _ _ _ (Hsp_s its' Hits')) as [j [Hj _]].
        assert (Hj' : dd_id sch (it_d itt') = Some j) by congruence.
        destruct (LS its' j Hits' Hj) as [La Lb]. destruct (LT itt' j Hitt' Hj') as [La' Lb'].
        apply (IH (it_d its')) with (oa := find_match sch true cha (Some j)) (ob := find_match sch true chb (Some j)).
        -- apply (dd_nokeys_in sch). rewrite Eds_s. apply in_map. exact Hits'.
        -- apply find_match_owf, Wcha.
        -- apply find_match_owf, Wchb.
        -- rewrite <- La, <- Lb. apply Hsp_s, Hits'.
        -- rewrite <- La', <- Lb'. apply Hsp_t, Hitt'.
      * (* the keys of the target are about other identities *)
        intros k t' Hk Ht' Eid. apply in_map_iff in Ht'. destruct Ht' as [itt' [<- Hitt']].
        rewrite Forall_forall in Hsp_t. destruct (sp_ids _ _ _ _ (Hsp_t itt' Hitt')) as [j [Hj _]].
        rewrite Hj in Eid. destruct (dd_leadkeys_in sch _ _ Hk) as [_ Hkk].
        rewrite <- (dd_sid_of_id _ _ Eid), (dd_sid_of_id _ _ Hj) in Hkk.
        rewrite (Tnkey (it_d itt')) in Hkk; [discriminate|]. rewrite Eds_t. apply in_map. exact Hitt'.
      * rewrite <- Eds_t, <- (dd_lead_nokeys sch cht) in E. rewrite E.
        cbn [dd_set_dflt dd_set_ch dd_op]. unfold is_redundant, dd_is_term. cbn [dd_sid dd_ch]. rewrite Te, Tt.
        unfold has_nokey_child. rewrite all_keys_nokeys; [|intros k Hk; apply (dd_leadkeys_in sch _ _ Hk)].
        cbn [negb]. eexists. reflexivity.
  - (* the instance exists in the first tree only: the source creates what the target deletes *)
    inversion Hs as [| inh0 d0 b0 i He Hb Hdd Hwf | | |]; subst.
    inversion Ht as [inh0 d0 b0 i' He' Hb' Hdd' Hwf' | | | |]; subst.
    intros l1 l2 Hl1. rewrite Hdd. rewrite Hdd' in Hl1 |- *.
    apply (undo_dc a Hwf); [exact He|exact He'|].
    rewrite dd_id_set_op, dd_id_lift in Hl1; assumption.
  - (* the instance exists in the second tree only: the source deletes what the target creates *)
    inversion Hs as [inh0 d0 b0 i He Hb Hdd Hwf | | | |]; subst.
    inversion Ht as [| inh0 d0 b0 i' He' Hb' Hdd' Hwf' | | |]; subst.
    intros l1 l2 Hl1. rewrite Hdd. rewrite Hdd' in Hl1 |- *.
    apply (undo_cd b Hwf); [exact He|exact He'|].
    rewrite dd_id_set_op, dd_id_lift in Hl1; assumption.
  - exfalso. destruct (sp_sides _ _ _ _ _ Hs) as [H|H]; apply H; reflexivity.
Qed.

(* one level: the diff nodes of [fb becomes fa] remove the diff nodes of [fa becomes fb] *)
Lemma undo_level inh_s inh_t np oup K its_s unch_s its_t unch_t fa fb fl up :
  (forall x, In x fa -> wf_node sch x = true) -> (forall x, In x fb -> wf_node sch x = true) ->
  Forall (fun it => Sp sch inh_s (it_d it) (it_a it) (it_b it)) its_s -> NoDup (itIds sch its_s) ->
  Permutation fb (itA its_s ++ unch_s) -> Permutation fa (itB its_s ++ unch_s) ->
  Forall (fun it => Sp sch inh_t (it_d it) (it_a it) (it_b it)) its_t -> NoDup (itIds sch its_t) ->
  Permutation fa (itA its_t ++ unch_t) -> Permutation fb (itB its_t ++ unch_t) ->
  NoDup (ids sch fa) -> NoDup (ids sch fb) ->
  (forall k t, In k K -> In t (map it_d its_t) -> dd_id sch k <> dd_id sch t) ->
  exists fl' ups,
    merge_children sch (fun c cur' => merge_r sch mdflt inh_s c inh_t cur') np oup false (map it_d its_s)
                   (K ++ map it_d its_t) fl up = Ok (K, fl', ups).
Proof.
  intros Wfa Wfb Hsp_s Hnd_s Hpa_s Hpb_s Hsp_t Hnd_t Hpa_t Hpb_t Na Nb HK.
  assert (LS : forall it j, In it its_s -> dd_id sch (it_d it) = Some j ->
             it_a it = find_match sch true fb (Some j) /\ it_b it = find_match sch true fa (Some j)).
  { intros it j Hit Hj. apply (level_lookup inh_s its_s unch_s fb fa it j); assumption. }
  assert (LT : forall it j, In it its_t -> dd_id sch (it_d it) = Some j ->
             it_a it = find_match sch true fa (Some j) /\ it_b it = find_match sch true fb (Some j)).
  { intros it j Hit Hj. apply (level_lookup inh_t its_t unch_t fa fb it j); assumption. }
  apply undo_fold.
  - rewrite map_map. exact Hnd_s.
  - rewrite map_map. exact Hnd_t.
  - intro oi. rewrite !map_map. split; intro Hin; apply in_map_iff in Hin; destruct Hin as [it [Eoi Hit]].
    + rewrite Forall_forall in Hsp_s. destruct (sp_ids _ _ _ _ (Hsp_s it Hit)) as [j [Hj _]].
      destruct (LS it j Hit Hj) as [La Lb]. pose proof (sp_real _ _ _ _ (Hsp_s it Hit)) as Hr.
      destruct (level_cover inh_t its_t unch_t fa fb j Hsp_t Hpa_t Hpb_t Na Nb) as [it' [Hit' Hj']].
      { intro Eq. apply Hr. rewrite La, Lb. symmetry. exact Eq. }
      apply in_map_iff. exists it'. split; [congruence|exact Hit'].
    + rewrite Forall_forall in Hsp_t. destruct (sp_ids _ _ _ _ (Hsp_t it Hit)) as [j [Hj _]].
      destruct (LT it j Hit Hj) as [La Lb]. pose proof (sp_real _ _ _ _ (Hsp_t it Hit)) as Hr.
      destruct (level_cover inh_s its_s unch_s fb fa j Hsp_s Hpa_s Hpb_s Nb Na) as [it' [Hit' Hj']].
      { intro Eq. apply Hr. rewrite La, Lb. symmetry. exact Eq. }
      apply in_map_iff. exists it'. split; [congruence|exact Hit'].
  - intros s' t' Hs' Ht' Eid. apply in_map_iff in Hs'. destruct Hs' as [its' [<- Hits']].
    apply in_map_iff in Ht'. destruct Ht' as [itt' [<- Hitt']].
    rewrite Forall_forall in Hsp_s, Hsp_t.
    destruct (sp_ids _ _ _ _ (Hsp_s its' Hits')) as [j [Hj _]].
    assert (Hj' : dd_id sch (it_d itt') = Some j) by congruence.
    destruct (LS its' j Hits' Hj) as [La Lb]. destruct (LT itt' j Hitt' Hj') as [La' Lb'].
    apply (undo_node (it_d its')) with (oa := find_match sch true fa (Some j)) (ob := find_match sch true fb (Some j)).
    + apply find_match_owf, Wfa.
    + apply find_match_owf, Wfb.
    + rewrite <- La, <- Lb. apply Hsp_s, Hits'.
    + rewrite <- La', <- Lb'. apply Hsp_t, Hitt'.
  - exact HK.
Qed.

Lemma merge_roots_children : forall ss ts np oup fl up ts' fl' up',
  merge_children sch (fun c cur' => merge_r sch mdflt None c None cur') np oup false ss ts fl up = Ok (ts', fl', up') ->
  merge_roots sch mdflt ss ts = Ok ts'.
Proof.
  induction ss as [|x ss IH]; intros ts np oup fl up ts' fl' up' H.
  - cbn in H. inversion H; subst. reflexivity.
  - rewrite merge_children_false_cons in H. cbn [merge_roots].
    destruct (merge_r sch mdflt None x None ts) as [[ts1 sg]|e]; [|discriminate].
    destruct (walks np fl oup sg) as [fl1 ups]. apply (IH _ _ _ _ _ _ _ _ H).
Qed.

(* C13: merging the diff that undoes the changes into the diff leaves an empty diff *)
Lemma wfb_forall f : wfb sch f = true -> forall x, In x f -> wf_node sch x = true.
Proof. intros H x Hx. pose proof (ws_nodes _ _ (wfb_sibs sch _ H)) as Hn. rewrite forallb_forall in Hn. apply Hn, Hx. Qed.

Theorem merge_undo fa fb : wfb sch fa = true -> wfb sch fb = true ->
  exists d1 d2, diff sch true fa fb = Ok d1 /\ diff sch true fb fa = Ok d2 /\ merge sch mdflt (map redup d1) d2 = Ok [].
Proof.
  intros Ha Hb. destruct (diff_sp sch fa fb Ha Hb) as [d1 [E1 Hsp1]]. destruct (diff_sp sch fb fa Hb Ha) as [d2 [E2 Hsp2]].
  exists d1, d2. split; [exact E1|]. split; [exact E2|].
  assert (Hsp1' : LevelSp sch (Sp sch None) (map redup d1) fa fb).
  { apply (levelsp_map sch (Sp sch None) (Sp sch None) redup); [apply dd_id_redup| |exact Hsp1].
    intros d oa ob _ H. apply redup_sp. exact H. }
  destruct Hsp1' as [its_t [unch_t [Eds_t [Hsp_t [Hnd_t [Hpa_t Hpb_t]]]]]].
  destruct Hsp2 as [its_s [unch_s [Eds_s [Hsp_s [Hnd_s [Hpa_s Hpb_s]]]]]].
  pose proof (wfb_sibs sch _ Ha) as Wa. pose proof (wfb_sibs sch _ Hb) as Wb.
  destruct (undo_level None None false false [] its_s unch_s its_t unch_t fa fb false [] (wfb_forall _ Ha) (wfb_forall _ Hb) Hsp_s Hnd_s Hpa_s Hpb_s
                       Hsp_t Hnd_t Hpa_t Hpb_t (so_nodup _ _ (ws_sibs _ _ Wa)) (so_nodup _ _ (ws_sibs _ _ Wb)))
    as [fl' [ups E]]; [intros k t []|].
  unfold merge. rewrite Eds_s, Eds_t. cbn [app] in E. apply (merge_roots_children _ _ _ _ _ _ _ _ _ E).
Qed.

(* ------------------------------------------------------------------------------------------- *)
(* composition of independent changes                                                            *)
(* ------------------------------------------------------------------------------------------- *)
Lemma dd_match_idx_absent l i : (forall x, In x l -> dd_id sch x <> Some i) -> dd_match_idx sch l (Some i) = None.
Proof.
  intro H. cbn [dd_match_idx]. destruct (find_idx (fun d => has_id sch i (dd_node d)) l) as [k|] eqn:E; [|reflexivity].
  exfalso. destruct (find_idx_split _ _ _ E) as [l1 [x [l2 [-> [_ [Hx _]]]]]]. apply dd_id_iff in Hx.
  apply (H x); [apply in_or_app; right; left; reflexivity|exact Hx].
Qed.

Lemma dd_ins_last_perm l n : Permutation (dd_ins_last l n) (n :: l).
Proof.
  induction l as [|b l IH]; cbn [dd_ins_last]; [reflexivity|].
  destruct (dd_sid n <? dd_sid b); [reflexivity|]. rewrite IH. apply perm_swap.
Qed.

(* the not-found case of lyd_diff_merge_r *)
Lemma merge_r_add inh_s src inh_t ts i sop :
  userordered sch (dd_sid src) = false -> eff_op inh_s (dd_op src) = Some sop ->
  dd_id sch src = Some i -> (forall x, In x ts -> dd_id sch x <> Some i) ->
  merge_r sch mdflt inh_s src inh_t ts =
    let n := dd_set_op (redup src) (Some sop) in
    let sg := if dd_dflt n then [] else [SDel] in
    match is_redundant sch (Some sop) n with
    | Err e => Err e
    | Ok true => Ok (ts, sg ++ [SSet (forallb dd_dflt ts)])
    | Ok false => Ok (dd_ins_last ts n, sg)
    end.
Proof.
  intros Hu Hs Hi Hn. destruct src as [s v f op od ov ch]. cbn [dd_sid dd_op] in *.
  cbn [merge_r]. rewrite Hu, Hs, Hi, (dd_match_idx_absent ts i Hn). reflexivity.
Qed.

(* a node produced by lyd_diff_siblings is never redundant *)
Lemma sp_not_redundant inh d oa ob e :
  Sp sch inh d oa ob -> eff_op inh (dd_op d) = Some e ->
  is_redundant sch (Some e) (dd_set_op (redup d) (Some e)) = Ok false.
Proof.
  intros H He.
  inversion H as [inh0 d0 a i He' Ha Hdd Hwf | inh0 d0 b i He' Hb Hdd Hwf | inh0 d0 a i He' Hk Hd Ha Hs Hne Hov Hod Hch0
                 | inh0 d0 a i He' Hk Hd Ha Hod Hch0 Hnany Hreal
                 | inh0 d0 a i chb He' Hk Hd Ha Hs Hnk Hlev Sa Hsa Sb Hsb Hfl Hidb Hkey Hnkey Hidk Hkch]; subst;
    rewrite He' in He; inversion He; subst e; try reflexivity.
  - (* none on a term: the flag really changes *)
    destruct d as [s v fl op od ov ch]. cbn [dd_op dd_sid dd_dflt dd_odflt dd_ch] in *. subst od ch.
    cbn [redup map forallb dd_set_op]. unfold is_redundant, dd_is_term. cbn [dd_sid dd_odflt dd_dflt]. rewrite Hk, andb_true_r.
    f_equal. destruct (d_dflt a), fl; try reflexivity; exfalso; apply Hreal; reflexivity.
  - (* none on an inner node: it has children *)
    destruct d as [s v fl op od ov ch]. cbn [dd_op dd_sid dd_ch] in *.
    cbn [redup dd_set_op]. unfold is_redundant, dd_is_term. cbn [dd_sid dd_ch]. rewrite Hk.
    unfold has_nokey_child. rewrite dd_nokeys_map_redup. destruct (dd_nokeys sch ch); [congruence|reflexivity].
Qed.

Lemma NoDup_incl_perm {A} (s l : list A) : NoDup s -> incl s l -> exists r, Permutation l (s ++ r).
Proof.
  revert l. induction s as [|x s IH]; intros l Hn Hi; [exists l; reflexivity|].
  inversion Hn as [|? ? Hx Hn']; subst.
  assert (Hxl : In x l) by (apply Hi; left; reflexivity).
  apply in_split in Hxl. destruct Hxl as [l1 [l2 ->]].
  destruct (IH (l1 ++ l2) Hn') as [r Hr].
  - intros y Hy. assert (Hyl : In y (l1 ++ x :: l2)) by (apply Hi; right; exact Hy).
    apply in_app_or in Hyl. apply in_or_app. destruct Hyl as [H|[H|H]]; [left; exact H| |right; exact H].
    subst y. contradiction.
  - exists r. cbn [app]. rewrite <- Hr. symmetry. apply Permutation_middle.
Qed.

Lemma sp_eff inh d oa ob : Sp sch inh d oa ob -> exists e, eff_op inh (dd_op d) = Some e.
Proof. destruct 1; eexists; eassumption. Qed.

Lemma dd_op_redup d : dd_op (redup d) = dd_op d.
Proof. destruct d; reflexivity. Qed.

(* every source root about an identity the diff does not hold yet is added *)
Lemma merge_add_all : forall its2 ts,
  Forall (fun it => Sp sch None (it_d it) (it_a it) (it_b it)) its2 ->
  Forall (fun it => OWf (it_a it) /\ OWf (it_b it)) its2 -> NoDup (itIds sch its2) ->
  (forall it x, In it its2 -> In x ts -> dd_id sch x <> dd_id sch (it_d it)) ->
  exists ts', merge_roots sch mdflt (map it_d its2) ts = Ok ts' /\
              Permutation ts' (map (fun it => redup (it_d it)) its2 ++ ts).
Proof.
  induction its2 as [|it its2 IH]; intros ts Hsp Hwf Hnd Hdis.
  - exists ts. split; reflexivity.
  - pose proof (Forall_inv Hsp) as Hs. pose proof (Forall_inv_tail Hsp) as Hsp'.
    pose proof (Forall_inv Hwf) as [Wia Wib]. pose proof (Forall_inv_tail Hwf) as Hwf'.
    destruct (sp_ids _ _ _ _ Hs) as [i [Hi _]]. destruct (sp_eff _ _ _ _ Hs) as [e He].
    assert (Hop : dd_op (it_d it) = Some e) by (destruct (dd_op (it_d it)); cbn in He; congruence).
    cbn [map merge_roots].
    rewrite (merge_r_add None (it_d it) None ts i e (sp_sid_nouo _ _ _ _ Hs Wia Wib) He Hi).
    2:{ intros x Hx. rewrite <- Hi. apply (Hdis it x (or_introl eq_refl) Hx). }
    cbn zeta. rewrite (sp_not_redundant None _ _ _ e Hs He).
    assert (En : dd_set_op (redup (it_d it)) (Some e) = redup (it_d it)).
    { rewrite <- Hop, <- dd_op_redup. apply dd_set_op_same. }
    rewrite En. cbn [itIds map] in Hnd. inversion Hnd as [|? ? Hnot Hnd']; subst.
    destruct (IH (dd_ins_last ts (redup (it_d it))) Hsp' Hwf' Hnd') as [ts' [E Hp]].
    + intros it' x Hit' Hx. apply (Permutation_in _ (dd_ins_last_perm ts _)) in Hx. destruct Hx as [<-|Hx].
      * rewrite dd_id_redup. intro Eq. apply Hnot. rewrite Eq. apply in_map_iff. exists it'. split; [reflexivity|exact Hit'].
      * apply (Hdis it' x); [right; exact Hit'|exact Hx].
    + exists ts'. split; [exact E|]. rewrite Hp, dd_ins_last_perm. cbn [map app]. symmetry. apply Permutation_middle.
Qed.

(* C13, composition of changes that touch different top-level identities *)
Theorem merge_apply_disjoint fa fb fc d1 d2 :
  wfb sch fa = true -> wfb sch fb = true -> wfb sch fc = true ->
  diff sch true fa fb = Ok d1 -> diff sch true fb fc = Ok d2 ->
  (forall s t, In s d2 -> In t d1 -> dd_id sch s <> dd_id sch t) ->
  exists m, merge sch mdflt (map redup d1) d2 = Ok m /\ apply sch m fa = Ok fc.
Proof.
  intros Ha Hb Hc E1 E2 Hdis.
  destruct (diff_sp sch fa fb Ha Hb) as [d1' [E1' Hsp1]]. assert (d1' = d1) by congruence. subst d1'.
  destruct (diff_sp sch fb fc Hb Hc) as [d2' [E2' Hsp2]]. assert (d2' = d2) by congruence. subst d2'.
  assert (Hsp1' : LevelSp sch (Sp sch None) (map redup d1) fa fb).
  { apply (levelsp_map sch (Sp sch None) (Sp sch None) redup); [apply dd_id_redup| |exact Hsp1].
    intros d oa ob _ H. apply redup_sp. exact H. }
  destruct Hsp1' as [its1 [unch1 [Eds1 [Hs1 [Hnd1 [PA1 PB1]]]]]].
  destruct Hsp2 as [its2 [unch2 [Eds2 [Hs2 [Hnd2 [PB2 PC2]]]]]].
  pose proof (wfb_sibs sch _ Ha) as Wa. pose proof (wfb_sibs sch _ Hb) as Wb. pose proof (wfb_sibs sch _ Hc) as Wc.
  pose proof (so_nodup _ _ (ws_sibs _ _ Wb)) as Nb.
  (* the two diffs talk about different identities *)
  assert (Hdis' : forall it2 it1, In it2 its2 -> In it1 its1 -> dd_id sch (it_d it2) <> dd_id sch (it_d it1)).
  { intros it2 it1 H2 H1. assert (Hin1 : In (it_d it1) (map redup d1)) by (rewrite Eds1; apply in_map; exact H1).
    apply in_map_iff in Hin1. destruct Hin1 as [t [Et Ht]]. rewrite <- Et, dd_id_redup.
    apply Hdis; [rewrite Eds2; apply in_map; exact H2|exact Ht]. }
  assert (Hwf2 : Forall (fun it => OWf (it_a it) /\ OWf (it_b it)) its2).
  { apply Forall_forall. intros it Hit. split; intros n En.
    - apply (wfb_forall _ Hb). apply (Permutation_in _ (Permutation_sym PB2)), in_or_app. left.
      unfold itA. apply in_flat_map. exists it. split; [exact Hit|rewrite En; left; reflexivity].
    - apply (wfb_forall _ Hc). apply (Permutation_in _ (Permutation_sym PC2)), in_or_app. left.
      unfold itB. apply in_flat_map. exists it. split; [exact Hit|rewrite En; left; reflexivity]. }
  destruct (merge_add_all its2 (map it_d its1) Hs2 Hwf2 Hnd2) as [m [Em Hpm]].
  { intros it x Hit Hx. apply in_map_iff in Hx. destruct Hx as [it1 [<- H1]]. intro Eq. apply (Hdis' it it1 Hit H1). symmetry. exact Eq. }
  exists m. split; [unfold merge; rewrite Eds1, Eds2; exact Em|].
  (* the merged diff means [fa becomes fc] *)
  set (its2' := map (fun it => mkitem (redup (it_d it)) (it_a it) (it_b it)) its2).
  assert (EA2 : itA its2' = itA its2) by (unfold its2', itA; rewrite flat_map_map_comp; reflexivity).
  assert (EB2 : itB its2' = itB its2) by (unfold its2', itB; rewrite flat_map_map_comp; reflexivity).
  rewrite Forall_forall in Hs1, Hs2.
  (* what diff 2 changes is unchanged by diff 1 and vice versa *)
  assert (I1 : incl (itA its2) unch1).
  { intros x Hx. destruct (in_itA _ _ Hx) as [it2 [H2 Ea]].
    assert (Hxb : In x fb) by (apply (Permutation_in _ (Permutation_sym PB2)), in_or_app; left; exact Hx).
    apply (Permutation_in _ PB1) in Hxb. apply in_app_or in Hxb. destruct Hxb as [Hxb|Hxb]; [exfalso|exact Hxb].
    destruct (in_itB _ _ Hxb) as [it1 [H1 Eb]].
    destruct (sp_ids _ _ _ _ (Hs2 it2 H2)) as [j2 [Hj2 [Hja2 _]]]. destruct (sp_ids _ _ _ _ (Hs1 it1 H1)) as [j1 [Hj1 [_ Hjb1]]].
    apply (Hdis' it2 it1 H2 H1). rewrite Hj2, Hj1, <- (Hja2 x Ea), <- (Hjb1 x Eb). reflexivity. }
  assert (I2 : incl (itB its1) unch2).
  { intros x Hx. destruct (in_itB _ _ Hx) as [it1 [H1 Eb]].
    assert (Hxb : In x fb) by (apply (Permutation_in _ (Permutation_sym PB1)), in_or_app; left; exact Hx).
    apply (Permutation_in _ PB2) in Hxb. apply in_app_or in Hxb. destruct Hxb as [Hxb|Hxb]; [exfalso|exact Hxb].
    destruct (in_itA _ _ Hxb) as [it2 [H2 Ea]].
    destruct (sp_ids _ _ _ _ (Hs2 it2 H2)) as [j2 [Hj2 [Hja2 _]]]. destruct (sp_ids _ _ _ _ (Hs1 it1 H1)) as [j1 [Hj1 [_ Hjb1]]].
    apply (Hdis' it2 it1 H2 H1). rewrite Hj2, Hj1, <- (Hja2 x Ea), <- (Hjb1 x Eb). reflexivity. }
  assert (Nbn : NoDup fb) by (apply (NoDup_map_inv (inst_id sch)); exact Nb).
  assert (NA2 : NoDup (itA its2)) by (apply (Permutation_NoDup PB2) in Nbn; apply (NoDup_app_l _ _ Nbn)).
  assert (NB1 : NoDup (itB its1)) by (apply (Permutation_NoDup PB1) in Nbn; apply (NoDup_app_l _ _ Nbn)).
  destruct (NoDup_incl_perm _ _ NA2 I1) as [U HU]. destruct (NoDup_incl_perm _ _ NB1 I2) as [U' HU'].
  assert (HUU : Permutation U U').
  { apply (Permutation_app_inv_l (itB its1 ++ itA its2)). rewrite <- !app_assoc.
    rewrite <- HU, <- PB1. rewrite (Permutation_app_swap_app (itB its1) (itA its2) U'), <- HU', <- PB2. reflexivity. }
  apply (apply_level_sp sch m fa fc); [|apply (ws_sibs _ _ Wa)|apply wf_allsome, (ws_nodes _ _ Wa)|apply (ws_sibs _ _ Wc)].
  apply (LevelSp_perm sch _ (map it_d (its2' ++ its1))).
  { rewrite Hpm, map_app. apply Permutation_app_tail. unfold its2'. rewrite map_map. reflexivity. }
  exists (its2' ++ its1), U. split; [reflexivity|].
  split.
  { apply Forall_app. split; apply Forall_forall.
    - intros it Hit. unfold its2' in Hit. apply in_map_iff in Hit. destruct Hit as [it2 [<- H2]]. cbn [it_d it_a it_b].
      apply redup_sp, Hs2, H2.
    - intros it Hit. apply Hs1, Hit. }
  split.
  { unfold itIds. rewrite map_app. apply NoDup_app_disjoint.
    - unfold its2'. rewrite map_map. cbn [it_d]. erewrite map_ext; [exact Hnd2|]. intro it. apply dd_id_redup.
    - exact Hnd1.
    - intros x Hx2 Hx1. unfold its2' in Hx2. rewrite map_map in Hx2. cbn [it_d] in Hx2.
      apply in_map_iff in Hx2. destruct Hx2 as [it2 [E2x H2]]. apply in_map_iff in Hx1. destruct Hx1 as [it1 [E1x H1]].
      apply (Hdis' it2 it1 H2 H1). rewrite <- (dd_id_redup sch (it_d it2)), E2x, E1x. reflexivity. }
  unfold itA, itB. rewrite !flat_map_app. fold (itA its2') (itA its1) (itB its2') (itB its1). rewrite EA2, EB2.
  split.
  - rewrite PA1, HU. rewrite <- !app_assoc. apply Permutation_app_swap_app.
  - rewrite PC2, HU', HUU. rewrite <- !app_assoc. reflexivity.
Qed.

(* ------------------------------------------------------------------------------------------- *)
(* LevelSp from pointwise facts, and back *)

(* an identity no diff node is about is the same instance (or absent) on both sides *)
Lemma level_same P its unch fa fb j :
  Forall (fun it => exists i, dd_id sch (it_d it) = Some i /\ (forall a, it_a it = Some a -> inst_id sch a = Some i) /\
                              (forall b, it_b it = Some b -> inst_id sch b = Some i) /\ P it) its ->
  Permutation fa (itA its ++ unch) -> Permutation fb (itB its ++ unch) ->
  NoDup (ids sch fa) -> NoDup (ids sch fb) ->
  (forall it, In it its -> dd_id sch (it_d it) <> Some j) ->
  find_match sch true fa (Some j) = find_match sch true fb (Some j).
Proof.
  intros Hits Pa Pb Na Nb Hno. rewrite Forall_forall in Hits.
  assert (Hab : forall x, In x fa -> inst_id sch x = Some j -> In x fb).
  { intros x Hx Hj. apply (Permutation_in _ Pa) in Hx. apply in_app_or in Hx. destruct Hx as [Hx|Hx].
    - exfalso. destruct (in_itA _ _ Hx) as [it [Hit Ea]]. destruct (Hits it Hit) as [i [Hi [Ha _]]].
      apply (Hno it Hit). rewrite Hi, <- (Ha x Ea). exact Hj.
    - apply (Permutation_in _ (Permutation_sym Pb)), in_or_app. right. exact Hx. }
  assert (Hba : forall x, In x fb -> inst_id sch x = Some j -> In x fa).
  { intros x Hx Hj. apply (Permutation_in _ Pb) in Hx. apply in_app_or in Hx. destruct Hx as [Hx|Hx].
    - exfalso. destruct (in_itB _ _ Hx) as [it [Hit Eb]]. destruct (Hits it Hit) as [i [Hi [_ [Hb _]]]].
      apply (Hno it Hit). rewrite Hi, <- (Hb x Eb). exact Hj.
    - apply (Permutation_in _ (Permutation_sym Pa)), in_or_app. right. exact Hx. }
  destruct (find_match sch true fa (Some j)) as [x|] eqn:Ea.
  - destruct (find_match_true_inv sch _ _ _ Ea) as [Hx Hj]. symmetry. apply find_match_true_some; [exact Nb|apply Hab; assumption|exact Hj].
  - destruct (find_match sch true fb (Some j)) as [y|] eqn:Eb; [|reflexivity].
    destruct (find_match_true_inv sch _ _ _ Eb) as [Hy Hj]. rewrite (find_match_true_some sch fa j y Na (Hba y Hy Hj) Hj) in Ea. discriminate.
Qed.

Lemma sp_level_same inh its unch fa fb j :
  Forall (fun it => Sp sch inh (it_d it) (it_a it) (it_b it)) its ->
  Permutation fa (itA its ++ unch) -> Permutation fb (itB its ++ unch) ->
  NoDup (ids sch fa) -> NoDup (ids sch fb) ->
  (forall it, In it its -> dd_id sch (it_d it) <> Some j) ->
  find_match sch true fa (Some j) = find_match sch true fb (Some j).
Proof.
  intros Hsp. apply (level_same (fun _ => True)). apply Forall_forall. intros it Hit. rewrite Forall_forall in Hsp.
  destruct (sp_ids _ _ _ _ (Hsp it Hit)) as [i [Hi [Ha Hb]]]. exists i. repeat split; assumption.
Qed.

Definition in_ds (j : iid) (ds : list dd) : bool := existsb (fun d => has_id sch j (dd_node d)) ds.

Lemma in_ds_true j ds : in_ds j ds = true <-> exists d, In d ds /\ dd_id sch d = Some j.
Proof.
  unfold in_ds. rewrite existsb_exists. split; intros [d [Hd H]]; exists d; (split; [exact Hd|]); apply dd_id_iff; exact H.
Qed.

Definition keepb (ds : list dd) (x : dnode) : bool :=
  match inst_id sch x with Some j => negb (in_ds j ds) | None => true end.

(* the diff nodes [ds], each about the instances its identity selects on the two sides, and no difference elsewhere *)
Lemma level_build P ds fa fb :
  NoDup (map (dd_id sch) ds) -> NoDup (ids sch fa) -> NoDup (ids sch fb) -> AllSome sch fa -> AllSome sch fb ->
  (forall d, In d ds -> exists j, dd_id sch d = Some j /\
                                  P d (find_match sch true fa (Some j)) (find_match sch true fb (Some j))) ->
  (forall j, (forall d, In d ds -> dd_id sch d <> Some j) ->
             find_match sch true fa (Some j) = find_match sch true fb (Some j)) ->
  LevelSp sch P ds fa fb.
Proof.
  intros Nd Na Nb Sa Sb Hd Hsame.
  set (idof := fun d => match dd_id sch d with Some j => j | None => IdNode 0 end).
  set (mk := fun d => mkitem d (find_match sch true fa (Some (idof d))) (find_match sch true fb (Some (idof d)))).
  assert (Hidof : forall d, In d ds -> dd_id sch d = Some (idof d)).
  { intros d Hin. destruct (Hd d Hin) as [j [Hj _]]. unfold idof. rewrite Hj. reflexivity. }
  exists (map mk ds), (filter (keepb ds) fa).
  split; [rewrite map_map; cbn [it_d mk]; symmetry; apply map_id|].
  split.
  { apply Forall_forall. intros it Hit. apply in_map_iff in Hit. destruct Hit as [d [<- Hin]]. cbn [mk it_d it_a it_b].
    destruct (Hd d Hin) as [j [Hj HP]]. unfold idof. rewrite Hj. exact HP. }
  split; [unfold itIds; rewrite map_map; cbn [mk it_d]; exact Nd|].
  (* membership on the two sides *)
  assert (Hside : forall (f : forest) (sel : item -> option dnode),
            NoDup (ids sch f) ->
            (forall d, In d ds -> sel (mk d) = find_match sch true f (Some (idof d))) ->
            (forall x j, In x fa -> inst_id sch x = Some j -> in_ds j ds = false -> In x f) ->
            (forall x j, In x f -> inst_id sch x = Some j -> in_ds j ds = false -> In x fa) ->
            (forall x, In x f -> inst_id sch x <> None) -> (forall x, In x fa -> inst_id sch x <> None) ->
            Permutation f (flat_map (fun it => opt (sel it)) (map mk ds) ++ filter (keepb ds) fa)).
  { intros f sel Nf Hsel Hin1 Hin2 Hsf Hsa. apply NoDup_Permutation.
    - apply (NoDup_map_inv (inst_id sch)). exact Nf.
    - apply NoDup_app_disjoint.
      + (* the selected instances: different diff nodes select different identities *)
        apply (NoDup_map_inv (inst_id sch)).
        assert (Hincl : forall l, incl l ds -> NoDup (map (dd_id sch) l) ->
                  NoDup (map (inst_id sch) (flat_map (fun it => opt (sel it)) (map mk l))) /\
                  (forall o, In o (map (inst_id sch) (flat_map (fun it => opt (sel it)) (map mk l))) -> In o (map (dd_id sch) l))).
        { induction l as [|d l IHl]; intros Hl Hn; [split; [constructor|intros o []]|].
          cbn [map] in Hn. inversion Hn as [|? ? Hnot Hn']; subst.
          destruct (IHl (fun x Hx => Hl x (or_intror Hx)) Hn') as [IH1 IH2].
          cbn [map flat_map]. rewrite (Hsel d (Hl d (or_introl eq_refl))).
          destruct (find_match sch true f (Some (idof d))) as [x|] eqn:E; cbn [opt app map].
          - destruct (find_match_true_inv sch _ _ _ E) as [_ Hx]. rewrite Hx, <- (Hidof d (Hl d (or_introl eq_refl))).
            split.
            + constructor; [intro Hi; apply Hnot, IH2, Hi|exact IH1].
            + intros o [<-|Ho]; [left; reflexivity|right; apply IH2, Ho].
          - split; [exact IH1|intros o Ho; right; apply IH2, Ho]. }
        apply (proj1 (Hincl ds (incl_refl _) Nd)).
      + apply NoDup_filter. apply (NoDup_map_inv (inst_id sch)). exact Na.
      + intros x Hx1 Hx2. apply in_flat_map in Hx1. destruct Hx1 as [it [Hit Hx1]]. apply in_map_iff in Hit.
        destruct Hit as [d [<- Hin]]. rewrite (Hsel d Hin) in Hx1.
        destruct (find_match sch true f (Some (idof d))) as [y|] eqn:E; [|destruct Hx1]. destruct Hx1 as [<-|[]].
        destruct (find_match_true_inv sch _ _ _ E) as [_ Hy]. apply filter_In in Hx2. destruct Hx2 as [_ Hk].
        unfold keepb in Hk. rewrite Hy in Hk. apply negb_true_iff in Hk.
        assert (Ht : in_ds (idof d) ds = true) by (apply in_ds_true; exists d; split; [exact Hin|apply Hidof, Hin]). congruence.
    - intro x. split.
      + intro Hx. destruct (inst_id sch x) as [j|] eqn:Ej; [|exfalso; apply (Hsf x Hx Ej)].
        apply in_or_app. destruct (in_ds j ds) eqn:Ed.
        * left. apply in_ds_true in Ed. destruct Ed as [d [Hin Hj]]. apply in_flat_map. exists (mk d). split; [apply in_map, Hin|].
          rewrite (Hsel d Hin). assert (idof d = j) by (unfold idof; rewrite Hj; reflexivity). subst j.
          rewrite (find_match_true_some sch f _ x Nf Hx Ej). left. reflexivity.
        * right. apply filter_In. split; [apply (Hin2 x j Hx Ej Ed)|]. unfold keepb. rewrite Ej, Ed. reflexivity.
      + intro Hx. apply in_app_or in Hx. destruct Hx as [Hx|Hx].
        * apply in_flat_map in Hx. destruct Hx as [it [Hit Hx]]. apply in_map_iff in Hit. destruct Hit as [d [<- Hin]].
          rewrite (Hsel d Hin) in Hx. destruct (find_match sch true f (Some (idof d))) as [y|] eqn:E; [|destruct Hx].
          destruct Hx as [<-|[]]. apply (find_match_true_inv sch _ _ _ E).
        * apply filter_In in Hx. destruct Hx as [Hxa Hk]. unfold keepb in Hk.
          destruct (inst_id sch x) as [j|] eqn:Ej; [|exfalso; apply (Hsa x Hxa Ej)].
          apply negb_true_iff in Hk. apply (Hin1 x j Hxa Ej Hk). }
  assert (HsA : forall x, In x fa -> inst_id sch x <> None).
  { intros x Hx E. apply Sa. unfold ids. rewrite <- E. apply in_map, Hx. }
  assert (HsB : forall x, In x fb -> inst_id sch x <> None).
  { intros x Hx E. apply Sb. unfold ids. rewrite <- E. apply in_map, Hx. }
  assert (Hnot : forall j, in_ds j ds = false -> forall d, In d ds -> dd_id sch d <> Some j).
  { intros j Hf d Hin Hj. assert (Ht : in_ds j ds = true) by (apply in_ds_true; exists d; split; assumption). congruence. }
  split.
  - apply (Hside fa it_a Na); try assumption.
    + intros d Hin. reflexivity.
    + intros x j Hx _ _. exact Hx.
    + intros x j Hx _ _. exact Hx.
  - apply (Hside fb it_b Nb); try assumption.
    + intros d Hin. reflexivity.
    + intros x j Hx Hj Hf. pose proof (Hsame j (Hnot j Hf)) as E.
      rewrite (find_match_true_some sch fa j x Na Hx Hj) in E. symmetry in E. apply (find_match_true_inv sch _ _ _ E).
    + intros x j Hx Hj Hf. pose proof (Hsame j (Hnot j Hf)) as E.
      rewrite (find_match_true_some sch fb j x Nb Hx Hj) in E. apply (find_match_true_inv sch _ _ _ E).
Qed.

(* ------------------------------------------------------------------------------------------- *)
(* merging roots that either cancel the root they meet or meet none *)
Definition SrcOk (s : dd) : Prop :=
  userordered sch (dd_sid s) = false /\
  exists e i, dd_op s = Some e /\ dd_id sch s = Some i /\ is_redundant sch (Some e) (redup s) = Ok false.

Lemma mix_fold : forall ss ts,
  NoDup (map (dd_id sch) ss) -> NoDup (map (dd_id sch) ts) ->
  (forall s, In s ss -> SrcOk s) ->
  (forall s t, In s ss -> In t ts -> dd_id sch s = dd_id sch t -> UndoPair None None s t) ->
  exists ts', merge_roots sch mdflt ss ts = Ok ts' /\ NoDup (map (dd_id sch) ts') /\
    (forall x, In x ts' <->
       (In x ts /\ (forall s, In s ss -> dd_id sch s <> dd_id sch x)) \/
       (exists s, In s ss /\ x = redup s /\ (forall t, In t ts -> dd_id sch t <> dd_id sch s))).
Proof.
  induction ss as [|s ss IH]; intros ts Ns Nt Hok Hun.
  - exists ts. split; [reflexivity|]. split; [exact Nt|]. intro x. split.
    + intro Hx. left. split; [exact Hx|intros s []].
    + intros [[Hx _]|[s [[] _]]]. exact Hx.
  - cbn [map] in Ns. inversion Ns as [|? ? Hsnot Ns']; subst.
    destruct (Hok s (or_introl eq_refl)) as [Huo [e [i [Hop [Hi Hred]]]]].
    assert (He : eff_op None (dd_op s) = Some e) by (rewrite Hop; reflexivity).
    cbn [merge_roots].
    destruct (dd_match_idx sch ts (Some i)) as [k|] eqn:Ek.
    + (* the root meets one: they cancel *)
      cbn [dd_match_idx] in Ek. destruct (find_idx_split _ _ _ Ek) as [l1 [t [l2 [-> [_ [Ht Hl1]]]]]].
      apply dd_id_iff in Ht.
      assert (Hl1' : forall x, In x l1 -> dd_id sch x <> dd_id sch t).
      { intros x Hx E. rewrite Ht in E. apply (proj2 (dd_id_iff i x)) in E. rewrite (Hl1 x Hx) in E. discriminate. }
      destruct (Hun s t (or_introl eq_refl) (in_or_app l1 (t :: l2) t (or_intror (or_introl eq_refl))) (eq_trans Hi (eq_sym Ht)) l1 l2 Hl1')
        as [sg E]. rewrite E.
      assert (Nt' : NoDup (map (dd_id sch) (l1 ++ l2))).
      { rewrite map_app in *. cbn [map] in Nt. apply NoDup_remove_1 in Nt. exact Nt. }
      assert (Htnot : forall x, In x (l1 ++ l2) -> dd_id sch x <> dd_id sch t).
      { intros x Hx E'. rewrite map_app in Nt. cbn [map] in Nt. apply NoDup_remove_2 in Nt. apply Nt. rewrite <- map_app, <- E'.
        apply in_map, Hx. }
      destruct (IH (l1 ++ l2) Ns' Nt') as [ts' [Em [Nd Hm]]].
      * intros s' Hs'. apply Hok. right. exact Hs'.
      * intros s' t' Hs' Ht' Eq. apply Hun; [right; exact Hs'| |exact Eq].
        apply in_app_or in Ht'. apply in_or_app. destruct Ht'; [left|right; right]; assumption.
      * exists ts'. split; [exact Em|]. split; [exact Nd|]. intro x. rewrite Hm. split.
        -- intros [[Hx Hss]|[s' [Hs' [Ex Hts]]]].
           ++ left. split; [apply in_app_or in Hx; apply in_or_app; destruct Hx; [left|right; right]; assumption|].
              intros s' [<-|Hs']; [|apply Hss, Hs']. rewrite Hi, <- Ht. intro Eq. apply (Htnot x Hx). symmetry. exact Eq.
           ++ right. exists s'. split; [right; exact Hs'|]. split; [exact Ex|].
              intros t' Ht' Eq. apply in_app_or in Ht'. destruct Ht' as [Ht'|[<-|Ht']].
              ** apply (Hts t'); [apply in_or_app; left; exact Ht'|exact Eq].
              ** apply Hsnot. rewrite Hi, <- Ht, Eq. apply in_map, Hs'.
              ** apply (Hts t'); [apply in_or_app; right; exact Ht'|exact Eq].
        -- intros [[Hx Hss]|[s' [[<-|Hs'] [Ex Hts]]]].
           ++ left. split.
              ** apply in_app_or in Hx. destruct Hx as [Hx|[<-|Hx]]; [apply in_or_app; left; exact Hx| |apply in_or_app; right; exact Hx].
                 exfalso. apply (Hss s (or_introl eq_refl)). rewrite Hi, Ht. reflexivity.
              ** intros s' Hs'. apply Hss. right. exact Hs'.
           ++ exfalso. apply (Hts t); [apply in_or_app; right; left; reflexivity|]. rewrite Ht, Hi. reflexivity.
           ++ right. exists s'. split; [exact Hs'|]. split; [exact Ex|]. intros t' Ht'. apply Hts.
              apply in_app_or in Ht'. apply in_or_app. destruct Ht'; [left|right; right]; assumption.
    + (* it meets none: it is added *)
      assert (Habs : forall x, In x ts -> dd_id sch x <> Some i).
      { intros x Hx E. cbn [dd_match_idx] in Ek. pose proof (find_idx_none _ _ Ek x Hx) as Hf. apply (proj2 (dd_id_iff i x)) in E. congruence. }
      rewrite (merge_r_add None s None ts i e Huo He Hi Habs). cbn zeta.
      assert (En : dd_set_op (redup s) (Some e) = redup s) by (rewrite <- Hop, <- dd_op_redup; apply dd_set_op_same).
      rewrite En, Hred.
      assert (Nt' : NoDup (map (dd_id sch) (dd_ins_last ts (redup s)))).
      { apply (Permutation_NoDup (Permutation_sym (Permutation_map _ (dd_ins_last_perm ts (redup s))))). cbn [map].
        constructor; [|exact Nt]. rewrite dd_id_redup, Hi. intro Hin. apply in_map_iff in Hin. destruct Hin as [x [Ex Hx]].
        apply (Habs x Hx Ex). }
      destruct (IH (dd_ins_last ts (redup s)) Ns' Nt') as [ts' [Em [Nd Hm]]].
      * intros s' Hs'. apply Hok. right. exact Hs'.
      * intros s' t' Hs' Ht' Eq. apply (Permutation_in _ (dd_ins_last_perm ts _)) in Ht'. destruct Ht' as [<-|Ht'].
        -- exfalso. apply Hsnot. rewrite dd_id_redup in Eq. rewrite <- Eq. apply in_map, Hs'.
        -- apply Hun; [right; exact Hs'|exact Ht'|exact Eq].
      * exists ts'. split; [exact Em|]. split; [exact Nd|]. intro x. rewrite Hm. split.
        -- intros [[Hx Hss]|[s' [Hs' [Ex Hts]]]].
           ++ apply (Permutation_in _ (dd_ins_last_perm ts _)) in Hx. destruct Hx as [<-|Hx].
              ** right. exists s. split; [left; reflexivity|]. split; [reflexivity|]. intros t' Ht'. rewrite Hi. apply Habs, Ht'.
              ** left. split; [exact Hx|]. intros s' [<-|Hs']; [|apply Hss, Hs']. rewrite Hi. intro Eq. apply (Habs x Hx). symmetry. exact Eq.
           ++ right. exists s'. split; [right; exact Hs'|]. split; [exact Ex|]. intros t' Ht'. apply Hts.
              apply (Permutation_in _ (Permutation_sym (dd_ins_last_perm ts _))). right. exact Ht'.
        -- intros [[Hx Hss]|[s' [[<-|Hs'] [Ex Hts]]]].
           ++ left. split; [apply (Permutation_in _ (Permutation_sym (dd_ins_last_perm ts _))); right; exact Hx|].
              intros s' Hs'. apply Hss. right. exact Hs'.
           ++ left. split; [apply (Permutation_in _ (Permutation_sym (dd_ins_last_perm ts _))); left; symmetry; exact Ex|].
              intros s' Hs' Eq. apply Hsnot. rewrite Ex, dd_id_redup in Eq. rewrite <- Eq. apply in_map, Hs'.
           ++ right. exists s'. split; [exact Hs'|]. split; [exact Ex|]. intros t' Ht'.
              apply (Permutation_in _ (dd_ins_last_perm ts _)) in Ht'. destruct Ht' as [<-|Ht'].
              ** rewrite dd_id_redup. intro Eq. apply Hsnot. rewrite Eq. apply in_map, Hs'.
              ** apply Hts, Ht'.
Qed.

(* C13, composition: every root of diff(B,C) either meets no root of diff(A,B) or undoes the one it meets.  The two
   earlier theorems are its ends (no root meets one: merge_apply_disjoint; C = A: merge_undo) *)
Theorem merge_apply_mixed fa fb fc d1 d2 :
  wfb sch fa = true -> wfb sch fb = true -> wfb sch fc = true ->
  diff sch true fa fb = Ok d1 -> diff sch true fb fc = Ok d2 ->
  (forall s t j, In s d2 -> In t d1 -> dd_id sch s = Some j -> dd_id sch t = Some j ->
                 find_match sch true fc (Some j) = find_match sch true fa (Some j)) ->
  exists m, merge sch mdflt (map redup d1) d2 = Ok m /\ apply sch m fa = Ok fc.
Proof.
  intros Ha Hb Hc E1 E2 Hmeet.
  destruct (diff_sp sch fa fb Ha Hb) as [d1' [E1' Hsp1]]. assert (d1' = d1) by congruence. subst d1'.
  destruct (diff_sp sch fb fc Hb Hc) as [d2' [E2' Hsp2]]. assert (d2' = d2) by congruence. subst d2'.
  assert (Hsp1' : LevelSp sch (Sp sch None) (map redup d1) fa fb).
  { apply (levelsp_map sch (Sp sch None) (Sp sch None) redup); [apply dd_id_redup| |exact Hsp1].
    intros d oa ob _ H. apply redup_sp. exact H. }
  destruct Hsp1' as [its1 [unch1 [Eds1 [Hs1 [Hnd1 [PA1 PB1]]]]]].
  destruct Hsp2 as [its2 [unch2 [Eds2 [Hs2 [Hnd2 [PB2 PC2]]]]]].
  pose proof (wfb_sibs sch _ Ha) as Wa. pose proof (wfb_sibs sch _ Hb) as Wb. pose proof (wfb_sibs sch _ Hc) as Wc.
  pose proof (so_nodup _ _ (ws_sibs _ _ Wa)) as Na. pose proof (so_nodup _ _ (ws_sibs _ _ Wb)) as Nb.
  pose proof (so_nodup _ _ (ws_sibs _ _ Wc)) as Nc.
  assert (LS1 : forall it j, In it its1 -> dd_id sch (it_d it) = Some j ->
             it_a it = find_match sch true fa (Some j) /\ it_b it = find_match sch true fb (Some j)).
  { intros it j Hit Hj. apply (level_lookup None its1 unch1 fa fb it j); assumption. }
  assert (LS2 : forall it j, In it its2 -> dd_id sch (it_d it) = Some j ->
             it_a it = find_match sch true fb (Some j) /\ it_b it = find_match sch true fc (Some j)).
  { intros it j Hit Hj. apply (level_lookup None its2 unch2 fb fc it j); assumption. }
  pose proof Hs1 as Hs1F. pose proof Hs2 as Hs2F. rewrite Forall_forall in Hs1, Hs2.
  (* a root of the first diff is a copy of a root of d1 *)
  assert (Hin1 : forall it1, In it1 its1 -> exists t, In t d1 /\ dd_id sch t = dd_id sch (it_d it1)).
  { intros it1 H1. assert (Hin : In (it_d it1) (map redup d1)) by (rewrite Eds1; apply in_map; exact H1).
    apply in_map_iff in Hin. destruct Hin as [t [Et Ht]]. exists t. split; [exact Ht|]. rewrite <- Et, dd_id_redup. reflexivity. }
  destruct (mix_fold (map it_d its2) (map it_d its1)) as [m [Em [Ndm Hm]]].
  - rewrite map_map. exact Hnd2.
  - rewrite map_map. exact Hnd1.
  - intros s Hs. apply in_map_iff in Hs. destruct Hs as [it [<- Hit]].
    destruct (sp_ids _ _ _ _ (Hs2 it Hit)) as [j [Hj _]]. destruct (LS2 it j Hit Hj) as [La Lb].
    destruct (sp_eff _ _ _ _ (Hs2 it Hit)) as [e He].
    assert (Hop : dd_op (it_d it) = Some e) by (destruct (dd_op (it_d it)); cbn in He; congruence).
    split.
    + apply (sp_sid_nouo _ _ _ _ (Hs2 it Hit)); [rewrite La|rewrite Lb]; apply find_match_owf, wfb_forall; assumption.
    + exists e, j. split; [exact Hop|]. split; [exact Hj|].
      pose proof (sp_not_redundant None _ _ _ e (Hs2 it Hit) He) as Hr.
      assert (En : dd_set_op (redup (it_d it)) (Some e) = redup (it_d it)) by (rewrite <- Hop, <- dd_op_redup; apply dd_set_op_same).
      rewrite En in Hr. exact Hr.
  - (* the roots that meet cancel *)
    intros s t Hs Ht Eid. apply in_map_iff in Hs. destruct Hs as [it2 [<- H2]]. apply in_map_iff in Ht. destruct Ht as [it1 [<- H1]].
    destruct (sp_ids _ _ _ _ (Hs2 it2 H2)) as [j [Hj _]]. assert (Hj1 : dd_id sch (it_d it1) = Some j) by congruence.
    destruct (LS2 it2 j H2 Hj) as [La2 Lb2]. destruct (LS1 it1 j H1 Hj1) as [La1 Lb1].
    destruct (Hin1 it1 H1) as [t [Ht Et]].
    assert (Efc : find_match sch true fc (Some j) = find_match sch true fa (Some j)).
    { apply (Hmeet (it_d it2) t j); [rewrite Eds2; apply in_map; exact H2|exact Ht|exact Hj|congruence]. }
    apply (undo_node (it_d it2)) with (oa := find_match sch true fa (Some j)) (ob := find_match sch true fb (Some j)).
    + apply find_match_owf, wfb_forall, Ha.
    + apply find_match_owf, wfb_forall, Hb.
    + rewrite <- Efc, <- La2, <- Lb2. apply Hs2, H2.
    + rewrite <- La1, <- Lb1. apply Hs1, H1.
  - exists m. split; [unfold merge; rewrite Eds1, Eds2; exact Em|].
    apply (apply_level_sp sch m fa fc); [|apply (ws_sibs _ _ Wa)|apply wf_allsome, (ws_nodes _ _ Wa)|apply (ws_sibs _ _ Wc)].
    apply level_build; try assumption; try (apply wf_allsome; apply ws_nodes; assumption).
    + (* every merged root says what happens to its identity between A and C *)
      intros x Hx. apply Hm in Hx. destruct Hx as [[Hx Hss]|[s [Hs [-> Hts]]]].
      * apply in_map_iff in Hx. destruct Hx as [it1 [<- H1]].
        destruct (sp_ids _ _ _ _ (Hs1 it1 H1)) as [j [Hj _]]. destruct (LS1 it1 j H1 Hj) as [La Lb]. exists j. split; [exact Hj|].
        rewrite <- (sp_level_same None its2 unch2 fb fc j Hs2F PB2 PC2 Nb Nc).
        -- rewrite <- La, <- Lb. apply Hs1, H1.
        -- intros it2 H2 E. apply (Hss (it_d it2)); [apply in_map; exact H2|congruence].
      * apply in_map_iff in Hs. destruct Hs as [it2 [<- H2]].
        destruct (sp_ids _ _ _ _ (Hs2 it2 H2)) as [j [Hj _]]. destruct (LS2 it2 j H2 Hj) as [La Lb]. exists j.
        split; [rewrite dd_id_redup; exact Hj|].
        rewrite (sp_level_same None its1 unch1 fa fb j Hs1F PA1 PB1 Na Nb).
        -- rewrite <- La, <- Lb. apply redup_sp, Hs2, H2.
        -- intros it1 H1 E. apply (Hts (it_d it1)); [apply in_map; exact H1|congruence].
    + (* an identity without a merged root: untouched, or changed and changed back *)
      intros j Hno.
      destruct (in_ds j (map it_d its1)) eqn:D1; destruct (in_ds j (map it_d its2)) eqn:D2.
      * apply in_ds_true in D1. destruct D1 as [t1 [Ht1 Hj1]]. apply in_ds_true in D2. destruct D2 as [s2 [Hs2' Hj2]].
        apply in_map_iff in Ht1. destruct Ht1 as [it1 [<- H1]]. destruct (Hin1 it1 H1) as [t [Ht Et]].
        symmetry. apply (Hmeet s2 t j); [rewrite Eds2; exact Hs2'|exact Ht|exact Hj2|congruence].
      * exfalso. apply in_ds_true in D1. destruct D1 as [t1 [Ht1 Hj1]]. apply (Hno t1); [|exact Hj1]. apply Hm. left.
        split; [exact Ht1|]. intros s Hs E. assert (Ht : in_ds j (map it_d its2) = true) by (apply in_ds_true; exists s; split; [exact Hs|congruence]).
        congruence.
      * exfalso. apply in_ds_true in D2. destruct D2 as [s2 [Hs2' Hj2]]. apply (Hno (redup s2)); [|rewrite dd_id_redup; exact Hj2].
        apply Hm. right. exists s2. split; [exact Hs2'|]. split; [reflexivity|].
        intros t Ht E. assert (Htt : in_ds j (map it_d its1) = true) by (apply in_ds_true; exists t; split; [exact Ht|congruence]).
        congruence.
      * assert (N1 : forall it, In it its1 -> dd_id sch (it_d it) <> Some j).
        { intros it Hit E. assert (Ht : in_ds j (map it_d its1) = true) by (apply in_ds_true; exists (it_d it); split; [apply in_map; exact Hit|exact E]). congruence. }
        assert (N2 : forall it, In it its2 -> dd_id sch (it_d it) <> Some j).
        { intros it Hit E. assert (Ht : in_ds j (map it_d its2) = true) by (apply in_ds_true; exists (it_d it); split; [apply in_map; exact Hit|exact E]). congruence. }
        rewrite (sp_level_same None its1 unch1 fa fb j Hs1F PA1 PB1 Na Nb N1).
        apply (sp_level_same None its2 unch2 fb fc j Hs2F PB2 PC2 Nb Nc N2).
Qed.

(* ------------------------------------------------------------------------------------------- *)
(* the fold over the source roots with three outcomes for a root that meets one: the two cancel, or the met root is
   replaced in place by a merged one [Gd s t t2]; a root that meets none is added *)
Section Fold3.
Variable Cn : dd -> dd -> Prop.
Variable Gd : dd -> dd -> dd -> Prop.

Definition MixStep (s t : dd) : Prop :=
  forall l1 l2, (forall x, In x l1 -> dd_id sch x <> dd_id sch t) ->
  exists res sg, merge_r sch mdflt None s None (l1 ++ t :: l2) = Ok (res, sg) /\
    ((res = l1 ++ l2 /\ Cn s t) \/ (exists t2, res = l1 ++ t2 :: l2 /\ dd_id sch t2 = dd_id sch t /\ Gd s t t2)).

Lemma mix_fold3 : forall ss ts,
  NoDup (map (dd_id sch) ss) -> NoDup (map (dd_id sch) ts) ->
  (forall s, In s ss -> SrcOk s) ->
  (forall s t, In s ss -> In t ts -> dd_id sch s = dd_id sch t -> MixStep s t) ->
  exists ts', merge_roots sch mdflt ss ts = Ok ts' /\ NoDup (map (dd_id sch) ts') /\
    (forall x, In x ts' ->
       (In x ts /\ (forall s, In s ss -> dd_id sch s <> dd_id sch x)) \/
       (exists s t, In s ss /\ In t ts /\ dd_id sch s = dd_id sch t /\ dd_id sch x = dd_id sch t /\ Gd s t x) \/
       (exists s, In s ss /\ x = redup s /\ (forall t, In t ts -> dd_id sch t <> dd_id sch s))) /\
    (forall t, In t ts -> (forall s, In s ss -> dd_id sch s <> dd_id sch t) -> In t ts') /\
    (forall s, In s ss -> (forall t, In t ts -> dd_id sch t <> dd_id sch s) -> In (redup s) ts') /\
    (forall s t, In s ss -> In t ts -> dd_id sch s = dd_id sch t ->
                 Cn s t \/ exists x, In x ts' /\ dd_id sch x = dd_id sch t).
Proof.
  induction ss as [|s ss IH]; intros ts Ns Nt Hok Hun.
  - exists ts. split; [reflexivity|]. split; [exact Nt|]. split; [|split; [|split]].
    + intros x Hx. left. split; [exact Hx|intros s []].
    + intros t Ht _. exact Ht.
    + intros s [].
    + intros s t [].
  - cbn [map] in Ns. inversion Ns as [|? ? Hsnot Ns']; subst.
    destruct (Hok s (or_introl eq_refl)) as [Huo [e [i [Hop [Hi Hred]]]]].
    assert (He : eff_op None (dd_op s) = Some e) by (rewrite Hop; reflexivity).
    cbn [merge_roots].
    destruct (dd_match_idx sch ts (Some i)) as [k|] eqn:Ek.
    + cbn [dd_match_idx] in Ek. destruct (find_idx_split _ _ _ Ek) as [l1 [t [l2 [-> [_ [Ht Hl1]]]]]].
      apply dd_id_iff in Ht.
      assert (Hl1' : forall x, In x l1 -> dd_id sch x <> dd_id sch t).
      { intros x Hx E. rewrite Ht in E. apply (proj2 (dd_id_iff i x)) in E. rewrite (Hl1 x Hx) in E. discriminate. }
      assert (Hint : In t (l1 ++ t :: l2)) by (apply in_or_app; right; left; reflexivity).
      assert (Nt' : NoDup (map (dd_id sch) (l1 ++ l2))).
      { rewrite map_app in *. cbn [map] in Nt. apply NoDup_remove_1 in Nt. exact Nt. }
      assert (Htnot : forall x, In x (l1 ++ l2) -> dd_id sch x <> dd_id sch t).
      { intros x Hx E'. rewrite map_app in Nt. cbn [map] in Nt. apply NoDup_remove_2 in Nt. apply Nt. rewrite <- map_app, <- E'.
        apply in_map, Hx. }
      assert (Hsub : forall x, In x (l1 ++ l2) -> In x (l1 ++ t :: l2)).
      { intros x Hx. apply in_app_or in Hx. apply in_or_app. destruct Hx; [left|right; right]; assumption. }
      assert (Hsst : forall s', In s' ss -> dd_id sch s' <> dd_id sch t).
      { intros s' Hs' E'. apply Hsnot. rewrite Hi, <- Ht, <- E'. apply in_map, Hs'. }
      destruct (Hun s t (or_introl eq_refl) Hint (eq_trans Hi (eq_sym Ht)) l1 l2 Hl1') as [res [sg [E [[-> HCn]|[t2 [-> [Eid2 HGd]]]]]]];
        rewrite E.
      * (* cancel *)
        destruct (IH (l1 ++ l2) Ns' Nt') as [ts' [Em [Nd [R1 [R2 [R3 R4]]]]]].
        -- intros s' Hs'. apply Hok. right. exact Hs'.
        -- intros s' t' Hs' Ht' Eq. apply Hun; [right; exact Hs'|apply Hsub, Ht'|exact Eq].
        -- exists ts'. split; [exact Em|]. split; [exact Nd|]. split; [|split; [|split]].
           ++ intros x Hx. destruct (R1 x Hx) as [[Hx' Hss]|[[s' [t' [Hs' [Ht' [E1 [E2 G]]]]]]|[s' [Hs' [Ex Hts]]]]].
              ** left. split; [apply Hsub, Hx'|]. intros s' [<-|Hs']; [|apply Hss, Hs'].
                 rewrite Hi, <- Ht. intro Eq. apply (Htnot x Hx'). symmetry. exact Eq.
              ** right. left. exists s', t'. repeat split; try assumption; [right; exact Hs'|apply Hsub, Ht'].
              ** right. right. exists s'. split; [right; exact Hs'|]. split; [exact Ex|].
                 intros t' Ht' Eq. apply in_app_or in Ht'. destruct Ht' as [Ht'|[<-|Ht']].
                 --- apply (Hts t'); [apply in_or_app; left; exact Ht'|exact Eq].
                 --- apply (Hsst s' Hs'). symmetry. exact Eq.
                 --- apply (Hts t'); [apply in_or_app; right; exact Ht'|exact Eq].
           ++ intros t' Ht' Hno. apply R2.
              ** apply in_app_or in Ht'. destruct Ht' as [Ht'|[<-|Ht']]; [apply in_or_app; left; exact Ht'| |apply in_or_app; right; exact Ht'].
                 exfalso. apply (Hno s (or_introl eq_refl)). rewrite Hi, Ht. reflexivity.
              ** intros s' Hs'. apply Hno. right. exact Hs'.
           ++ intros s' [<-|Hs'] Hno; [exfalso; apply (Hno t Hint); rewrite Ht, Hi; reflexivity|].
              apply R3; [exact Hs'|]. intros t' Ht'. apply Hno, Hsub, Ht'.
           ++ intros s' t' [<-|Hs'] Ht' Eq.
              ** left. assert (t' = t).
                 { apply (NoDup_map_in_eq (dd_id sch) (l1 ++ t :: l2)); [exact Nt|exact Ht'|exact Hint|]. rewrite <- Eq, Hi, Ht. reflexivity. }
                 subst t'. exact HCn.
              ** apply in_app_or in Ht'. destruct Ht' as [Ht'|[<-|Ht']].
                 --- apply (R4 s' t' Hs'); [apply in_or_app; left; exact Ht'|exact Eq].
                 --- exfalso. apply (Hsst s' Hs' Eq).
                 --- apply (R4 s' t' Hs'); [apply in_or_app; right; exact Ht'|exact Eq].
      * (* replaced in place *)
        assert (Nt2 : NoDup (map (dd_id sch) (l1 ++ t2 :: l2))).
        { rewrite map_app in *. cbn [map] in *. rewrite Eid2. exact Nt. }
        assert (Hint2 : In t2 (l1 ++ t2 :: l2)) by (apply in_or_app; right; left; reflexivity).
        destruct (IH (l1 ++ t2 :: l2) Ns' Nt2) as [ts' [Em [Nd [R1 [R2 [R3 R4]]]]]].
        -- intros s' Hs'. apply Hok. right. exact Hs'.
        -- intros s' t' Hs' Ht' Eq. apply in_app_or in Ht'. destruct Ht' as [Ht'|[<-|Ht']].
           ++ apply Hun; [right; exact Hs'|apply in_or_app; left; exact Ht'|exact Eq].
           ++ exfalso. apply (Hsst s' Hs'). rewrite Eq, Eid2. reflexivity.
           ++ apply Hun; [right; exact Hs'|apply in_or_app; right; right; exact Ht'|exact Eq].
        -- assert (Ht2in : In t2 ts').
           { apply R2; [exact Hint2|]. intros s' Hs'. rewrite Eid2. apply Hsst, Hs'. }
           exists ts'. split; [exact Em|]. split; [exact Nd|]. split; [|split; [|split]].
           ++ intros x Hx. destruct (R1 x Hx) as [[Hx' Hss]|[[s' [t' [Hs' [Ht' [E1 [E2 G]]]]]]|[s' [Hs' [Ex Hts]]]]].
              ** apply in_app_or in Hx'. destruct Hx' as [Hx'|[<-|Hx']].
                 --- left. split; [apply in_or_app; left; exact Hx'|]. intros s' [<-|Hs']; [|apply Hss, Hs'].
                     rewrite Hi, <- Ht. intro Eq. apply (Hl1' x Hx'). symmetry. exact Eq.
                 --- right. left. exists s, t. split; [left; reflexivity|]. split; [exact Hint|]. split; [rewrite Hi, Ht; reflexivity|].
                     split; [exact Eid2|exact HGd].
                 --- left. split; [apply in_or_app; right; right; exact Hx'|]. intros s' [<-|Hs']; [|apply Hss, Hs'].
                     rewrite Hi, <- Ht. intro Eq. apply (Htnot x (in_or_app _ _ _ (or_intror Hx'))). symmetry. exact Eq.
              ** apply in_app_or in Ht'. destruct Ht' as [Ht'|[<-|Ht']].
                 --- right. left. exists s', t'. repeat split; try assumption; [right; exact Hs'|apply in_or_app; left; exact Ht'].
                 --- exfalso. apply (Hsst s' Hs'). rewrite E1, Eid2. reflexivity.
                 --- right. left. exists s', t'. repeat split; try assumption; [right; exact Hs'|apply in_or_app; right; right; exact Ht'].
              ** right. right. exists s'. split; [right; exact Hs'|]. split; [exact Ex|].
                 intros t' Ht' Eq. apply in_app_or in Ht'. destruct Ht' as [Ht'|[<-|Ht']].
                 --- apply (Hts t'); [apply in_or_app; left; exact Ht'|exact Eq].
                 --- apply (Hsst s' Hs'). symmetry. exact Eq.
                 --- apply (Hts t'); [apply in_or_app; right; right; exact Ht'|exact Eq].
           ++ intros t' Ht' Hno. apply in_app_or in Ht'. destruct Ht' as [Ht'|[<-|Ht']].
              ** apply R2; [apply in_or_app; left; exact Ht'|]. intros s' Hs'. apply Hno. right. exact Hs'.
              ** exfalso. apply (Hno s (or_introl eq_refl)). rewrite Hi, Ht. reflexivity.
              ** apply R2; [apply in_or_app; right; right; exact Ht'|]. intros s' Hs'. apply Hno. right. exact Hs'.
           ++ intros s' [<-|Hs'] Hno; [exfalso; apply (Hno t Hint); rewrite Ht, Hi; reflexivity|].
              apply R3; [exact Hs'|]. intros t' Ht'. apply in_app_or in Ht'. destruct Ht' as [Ht'|[<-|Ht']].
              ** apply Hno. apply in_or_app. left. exact Ht'.
              ** rewrite Eid2. intro Eq. apply (Hsst s' Hs'). symmetry. exact Eq.
              ** apply Hno. apply in_or_app. right. right. exact Ht'.
           ++ intros s' t' [<-|Hs'] Ht' Eq.
              ** right. exists t2. split; [exact Ht2in|]. rewrite Eid2, <- Eq, Hi, Ht. reflexivity.
              ** apply in_app_or in Ht'. destruct Ht' as [Ht'|[<-|Ht']].
                 --- apply (R4 s' t' Hs'); [apply in_or_app; left; exact Ht'|exact Eq].
                 --- exfalso. apply (Hsst s' Hs' Eq).
                 --- apply (R4 s' t' Hs'); [apply in_or_app; right; right; exact Ht'|exact Eq].
    + (* it meets none: it is added *)
      assert (Habs : forall x, In x ts -> dd_id sch x <> Some i).
      { intros x Hx E. cbn [dd_match_idx] in Ek. pose proof (find_idx_none _ _ Ek x Hx) as Hf. apply (proj2 (dd_id_iff i x)) in E. congruence. }
      rewrite (merge_r_add None s None ts i e Huo He Hi Habs). cbn zeta.
      assert (En : dd_set_op (redup s) (Some e) = redup s) by (rewrite <- Hop, <- dd_op_redup; apply dd_set_op_same).
      rewrite En, Hred.
      pose proof (dd_ins_last_perm ts (redup s)) as Pins.
      assert (Nt' : NoDup (map (dd_id sch) (dd_ins_last ts (redup s)))).
      { apply (Permutation_NoDup (Permutation_sym (Permutation_map _ Pins))). cbn [map].
        constructor; [|exact Nt]. rewrite dd_id_redup, Hi. intro Hin. apply in_map_iff in Hin. destruct Hin as [x [Ex Hx]].
        apply (Habs x Hx Ex). }
      assert (Hrs : forall s', In s' ss -> dd_id sch s' <> dd_id sch (redup s)).
      { intros s' Hs' Eq. apply Hsnot. rewrite dd_id_redup in Eq. rewrite <- Eq. apply in_map, Hs'. }
      destruct (IH (dd_ins_last ts (redup s)) Ns' Nt') as [ts' [Em [Nd [R1 [R2 [R3 R4]]]]]].
      * intros s' Hs'. apply Hok. right. exact Hs'.
      * intros s' t' Hs' Ht' Eq. apply (Permutation_in _ Pins) in Ht'. destruct Ht' as [<-|Ht'].
        -- exfalso. apply (Hrs s' Hs' Eq).
        -- apply Hun; [right; exact Hs'|exact Ht'|exact Eq].
      * exists ts'. split; [exact Em|]. split; [exact Nd|]. split; [|split; [|split]].
        -- intros x Hx. destruct (R1 x Hx) as [[Hx' Hss]|[[s' [t' [Hs' [Ht' [E1 [E2 G]]]]]]|[s' [Hs' [Ex Hts]]]]].
           ++ apply (Permutation_in _ Pins) in Hx'. destruct Hx' as [<-|Hx'].
              ** right. right. exists s. split; [left; reflexivity|]. split; [reflexivity|]. intros t' Ht'. rewrite Hi. apply Habs, Ht'.
              ** left. split; [exact Hx'|]. intros s' [<-|Hs']; [|apply Hss, Hs']. rewrite Hi. intro Eq. apply (Habs x Hx'). symmetry. exact Eq.
           ++ apply (Permutation_in _ Pins) in Ht'. destruct Ht' as [<-|Ht'].
              ** exfalso. apply (Hrs s' Hs' E1).
              ** right. left. exists s', t'. repeat split; try assumption. right. exact Hs'.
           ++ right. right. exists s'. split; [right; exact Hs'|]. split; [exact Ex|]. intros t' Ht'. apply Hts.
              apply (Permutation_in _ (Permutation_sym Pins)). right. exact Ht'.
        -- intros t' Ht' Hno. apply R2; [apply (Permutation_in _ (Permutation_sym Pins)); right; exact Ht'|].
           intros s' Hs'. apply Hno. right. exact Hs'.
        -- intros s' [<-|Hs'] Hno.
           ++ apply R2; [apply (Permutation_in _ (Permutation_sym Pins)); left; reflexivity|exact Hrs].
           ++ apply R3; [exact Hs'|]. intros t' Ht'. apply (Permutation_in _ Pins) in Ht'. destruct Ht' as [<-|Ht'].
              ** intro Eq. apply (Hrs s' Hs'). symmetry. exact Eq.
              ** apply Hno, Ht'.
        -- intros s' t' [<-|Hs'] Ht' Eq; [exfalso; apply (Habs t' Ht'); rewrite <- Eq; exact Hi|].
           apply (R4 s' t' Hs'); [apply (Permutation_in _ (Permutation_sym Pins)); right; exact Ht'|exact Eq].
Qed.
End Fold3.

(* ------------------------------------------------------------------------------------------- *)
(* leaf cells of the merge table in which the met root is replaced in place *)
Definition CellOut (oa oc : option dnode) (s t : dd) : Prop :=
  forall l1 l2, (forall x, In x l1 -> dd_id sch x <> dd_id sch t) ->
  exists res sg, merge_r sch mdflt None s None (l1 ++ t :: l2) = Ok (res, sg) /\
    ((res = l1 ++ l2 /\ oa = oc) \/ (exists t2, res = l1 ++ t2 :: l2 /\ dd_id sch t2 = dd_id sch t /\ Sp sch None t2 oa oc)).

Lemma leaf_dd_id s v f o od ov ch v' f' o' od' ov' :
  kind_of sch s = KLeaf -> dd_id sch (DD s v' f' o' od' ov' ch) = dd_id sch (DD s v f o od ov ch).
Proof. intro Hk. unfold dd_id, inst_id. cbn [dd_node d_sid]. rewrite Hk. reflexivity. Qed.

Lemma beq_bytes_sym_false x y : beq_bytes x y = false -> beq_bytes y x = false.
Proof.
  intro H. destruct (beq_bytes y x) eqn:E; [|reflexivity]. apply beq_bytes_eq in E. subst. rewrite beq_bytes_refl' in H. discriminate.
Qed.

(* replace, then replace again: to a third value (replace), back to the value with another flag (none), or back *)
Lemma cell_replace_replace s t a b c :
  userordered sch (dd_sid s) = false ->
  Sp sch None t (Some a) (Some b) -> Sp sch None s (Some b) (Some c) ->
  dd_op t = Some OpReplace -> dd_op s = Some OpReplace -> CellOut (Some a) (Some c) s t.
Proof.
  intros Huo Ht Hs Opt Ops l1 l2 Hl1.
  destruct (sp_ids _ _ _ _ Ht) as [i [Tid0 [_ Tjb]]]. destruct (sp_ids _ _ _ _ Hs) as [i' [Sid0 [Sjb _]]].
  assert (i' = i) by (pose proof (Tjb b eq_refl); pose proof (Sjb b eq_refl); congruence). subst i'.
  destruct (sp_inv_ss _ _ _ _ Ht) as [[i1 T]|[[i1 T]|[i1 [chb T]]]];
    [|destruct T as [Te _]; rewrite Opt in Te; discriminate|destruct T as [Te _]; rewrite Opt in Te; discriminate].
  destruct (sp_inv_ss _ _ _ _ Hs) as [[i2 S]|[[i2 S]|[i2 [chc S]]]];
    [|destruct S as [Se _]; rewrite Ops in Se; discriminate|destruct S as [Se _]; rewrite Ops in Se; discriminate].
  destruct T as [Te [Tk [Tid [Ta [Tsid [Tne [Tov [Tod [Tch Tb]]]]]]]]].
  destruct S as [Se [Sk [Sid [Sb [Ssid [Sne [Sov [Sod [Sch Sc]]]]]]]]].
  assert (i1 = i) by congruence. subst i1. assert (i2 = i) by congruence. subst i2.
  destruct t as [st vt ft opt odt ovt cht]. destruct s as [ss vs fs ops ods ovs chs].
  cbn [dd_op dd_sid dd_val dd_dflt dd_oval dd_odflt dd_ch] in *. subst opt ops cht chs ovt odt ovs ods.
  rewrite Tid in Hl1.
  rewrite (merge_r_found None (DD ss vs fs (Some OpReplace) (Some (d_dflt b)) (Some (d_val b)) []) None l1
                         (DD st vt ft (Some OpReplace) (Some (d_dflt a)) (Some (d_val a)) []) l2 i OpReplace OpReplace
                         Huo eq_refl Sid Tid Hl1 eq_refl).
  assert (Evb : d_val b = vt) by (rewrite Tb, d_val_set_dflt', d_val_set_val'; reflexivity).
  rewrite Evb in Sne.
  unfold merge_replace, dd_change_term, dd_merge_dflt_flag.
  cbn [dd_sid dd_val dd_dflt dd_op dd_oval dd_odflt dd_ch dd_set_op dd_set_val dd_set_dflt dd_set_oval].
  rewrite Tk, (beq_bytes_sym_false _ _ Sne).
  assert (Ec : c = set_dflt (set_val a vs) fs) by (rewrite Sc, Tb; destruct a; reflexivity).
  destruct (beq_bytes (d_val a) vs) eqn:Eac;
    cbn [dd_sid dd_val dd_dflt dd_op dd_oval dd_odflt dd_ch dd_set_op dd_set_val dd_set_dflt dd_set_oval dd_set_ch merge_children];
    unfold is_redundant, dd_is_term; cbn [dd_sid dd_odflt dd_dflt dd_op eff_op].
  - (* back to the value *)
    rewrite is_term_kind_of, Tk. cbn [is_term_kind]. apply beq_bytes_eq in Eac.
    assert (Ec' : c = set_dflt a fs) by (rewrite Ec, <- Eac; destruct a; reflexivity).
    destruct (Bool.eqb (d_dflt a) fs) eqn:Ef.
    + eexists. eexists. split; [reflexivity|]. left. split; [reflexivity|]. apply Bool.eqb_prop in Ef. rewrite Ec', <- Ef. destruct a; reflexivity.
    + eexists. eexists. split; [reflexivity|]. right. eexists. split; [reflexivity|]. split; [apply (leaf_dd_id st); exact Tk|].
      rewrite Ec'. apply (Sp_none_term sch None (DD st vs fs (Some OpNone) (Some (d_dflt a)) None []) a i); cbn [dd_op dd_sid dd_dflt dd_odflt dd_ch]; try reflexivity.
      * rewrite is_term_kind_of, Tk. reflexivity.
      * rewrite <- Tid. apply (leaf_dd_id st). exact Tk.
      * exact Ta.
      * rewrite Tk. discriminate.
      * intro E. rewrite E, Bool.eqb_reflx in Ef. discriminate.
  - eexists. eexists. split; [reflexivity|]. right. eexists. split; [reflexivity|]. split; [apply (leaf_dd_id st); exact Tk|].
    rewrite Ec. apply (Sp_replace sch None (DD st vs fs (Some OpReplace) (Some (d_dflt a)) (Some (d_val a)) []) a i); cbn [dd_op dd_sid dd_val dd_dflt dd_oval dd_odflt dd_ch]; try reflexivity.
    + exact Tk.
    + rewrite <- Tid. apply (leaf_dd_id st). exact Tk.
    + exact Ta.
    + exact Tsid.
    + apply beq_bytes_sym_false. exact Eac.
Qed.

(* create, then replace: created with the new value *)
Lemma cell_create_replace s t b c :
  userordered sch (dd_sid s) = false -> wf_node sch c = true ->
  Sp sch None t None (Some b) -> Sp sch None s (Some b) (Some c) ->
  dd_op t = Some OpCreate -> dd_op s = Some OpReplace -> CellOut None (Some c) s t.
Proof.
  intros Huo Wc Ht Hs Opt Ops l1 l2 Hl1.
  destruct (sp_ids _ _ _ _ Ht) as [i [Tid [_ Tjb]]]. destruct (sp_ids _ _ _ _ Hs) as [i' [Sid0 [Sjb Sjc]]].
  assert (i' = i) by (pose proof (Tjb b eq_refl); pose proof (Sjb b eq_refl); congruence). subst i'.
  destruct (sp_inv_ss _ _ _ _ Hs) as [[i2 S]|[[i2 S]|[i2 [chc S]]]];
    [|destruct S as [Se _]; rewrite Ops in Se; discriminate|destruct S as [Se _]; rewrite Ops in Se; discriminate].
  destruct S as [Se [Sk [Sid [Sb [Ssid [Sne [Sov [Sod [Sch Sc]]]]]]]]].
  assert (i2 = i) by congruence. subst i2.
  inversion Ht as [| inh0 d0 b0 i0 He Hb Hdd Hwf | | |]; subst.
  destruct b as [sb vb db mb chb]. pose proof (wf_node_inv sch _ _ _ _ _ Hwf) as W.
  pose proof (wn_meta _ _ _ _ _ _ W) as Em. pose proof (wn_kind _ _ _ _ _ _ W) as Wk. cbn [d_sid] in Ssid. subst sb.
  rewrite Sk in Wk. destruct Wk as [Ech _]. subst mb chb.
  rewrite Opt in Hdd. rewrite lift_unfold in Hdd. cbn [map forallb dd_set_op] in Hdd. rewrite Bool.andb_true_r in Hdd. subst t.
  destruct s as [ss' vs fs ops ods ovs chs].
  cbn [dd_op dd_sid dd_val dd_dflt dd_oval dd_odflt dd_ch d_val d_dflt d_sid] in *. subst ops chs ovs ods.
  rewrite Tid in Hl1.
  rewrite (merge_r_found None (DD ss' vs fs (Some OpReplace) (Some db) (Some vb) []) None l1
                         (DD ss' vb db (Some OpCreate) None None []) l2 i OpReplace OpCreate
                         Huo eq_refl Sid Tid Hl1 eq_refl).
  unfold merge_replace, dd_change_term, dd_merge_dflt_flag.
  cbn [dd_sid dd_val dd_dflt dd_op dd_oval dd_odflt dd_ch dd_set_op dd_set_val dd_set_dflt dd_set_oval].
  rewrite Sk, (beq_bytes_sym_false _ _ Sne).
  cbn [dd_sid dd_val dd_dflt dd_op dd_oval dd_odflt dd_ch dd_set_op dd_set_val dd_set_dflt dd_set_oval dd_set_ch merge_children].
  unfold is_redundant. cbn [dd_op eff_op].
  eexists. eexists. split; [reflexivity|]. right. eexists. split; [reflexivity|]. split; [apply (leaf_dd_id ss'); exact Sk|].
  cbn [set_val set_dflt] in *.
  apply (Sp_create sch None (DD ss' vs fs (Some OpCreate) None None []) (DN ss' vs fs [] []) i).
  - reflexivity.
  - apply Sjc. reflexivity.
  - rewrite lift_unfold. cbn [map forallb dd_set_op dd_op]. rewrite Bool.andb_true_r. reflexivity.
  - exact Wc.
Qed.

(* delete, then create again (without LYD_DIFF_MERGE_DEFAULTS): another value (replace), the value with another flag
   (none), or the same leaf (nothing) *)
Lemma cell_delete_create s t a c :
  mdflt = false -> userordered sch (dd_sid s) = false -> kind_of sch (dd_sid s) = KLeaf ->
  dd_id sch s = dd_id sch t ->
  Sp sch None t (Some a) None -> Sp sch None s None (Some c) ->
  dd_op t = Some OpDelete -> dd_op s = Some OpCreate -> CellOut (Some a) (Some c) s t.
Proof.
  intros Hmd Huo Hk Eid Ht Hs Opt Ops l1 l2 Hl1. revert Hmd.
  inversion Ht as [inh0 d0 a0 i He Ha Hdd Hwa | | | |]; subst.
  inversion Hs as [| inh0 d0 c0 i' He' Hc Hdd' Hwc | | |]; subst.
  rewrite Opt in Hdd. rewrite Ops in Hdd'.
  assert (Ei : i' = i).
  { rewrite Hdd, Hdd', !dd_id_set_op in Eid. rewrite (dd_id_lift sch _ Hwc), (dd_id_lift sch _ Hwa) in Eid. congruence. }
  subst i'.
  assert (Eks : d_sid c = dd_sid s) by (rewrite Hdd', dd_sid_set_op, dd_sid_lift; reflexivity).
  assert (Esid : d_sid a = d_sid c) by (rewrite <- (inst_id_sid sch _ _ Ha), <- (inst_id_sid sch _ _ Hc); reflexivity).
  destruct a as [sa va da ma cha]. destruct c as [sc vc dc mc chc]. cbn [d_sid] in Esid, Eks. subst sa.
  pose proof (wf_node_inv sch _ _ _ _ _ Hwa) as Wa. pose proof (wf_node_inv sch _ _ _ _ _ Hwc) as Wc.
  pose proof (wn_meta _ _ _ _ _ _ Wa) as Ema. pose proof (wn_kind _ _ _ _ _ _ Wa) as Wka.
  pose proof (wn_meta _ _ _ _ _ _ Wc) as Emc. pose proof (wn_kind _ _ _ _ _ _ Wc) as Wkc.
  rewrite Eks, Hk in Wka, Wkc. destruct Wka as [Echa _]. destruct Wkc as [Echc _]. subst ma mc cha chc.
  rewrite lift_unfold in Hdd, Hdd'. cbn [map forallb dd_set_op] in Hdd, Hdd'. rewrite Bool.andb_true_r in Hdd, Hdd'.
  subst s t. cbn [dd_sid] in *. clear Eks.
  assert (Tid : dd_id sch (DD (dd_sid (DD sc vc dc (Some OpCreate) None None [])) va da (Some OpDelete) None None []) = Some i).
  { cbn [dd_sid]. rewrite <- Eid. rewrite <- Hc. unfold dd_id. cbn [dd_node map]. reflexivity. }
  cbn [dd_sid] in Tid.
  assert (Sid : dd_id sch (DD sc vc dc (Some OpCreate) None None []) = Some i) by (rewrite Eid; exact Tid).
  rewrite Tid in Hl1.
  rewrite (merge_r_found None (DD sc vc dc (Some OpCreate) None None []) None l1
                         (DD sc va da (Some OpDelete) None None []) l2 i OpCreate OpDelete
                         Huo eq_refl Sid Tid Hl1 eq_refl).
  intro Hmd. unfold merge_create, dd_change_term. rewrite Hmd.
  cbn [dd_sid dd_val dd_dflt dd_op dd_oval dd_odflt dd_ch dd_set_op dd_set_val dd_set_dflt dd_set_oval andb].
  rewrite Hk.
  destruct (beq_bytes va vc) eqn:Eac;
    unfold dd_is_term;
    cbn [dd_sid dd_val dd_dflt dd_op dd_oval dd_odflt dd_ch dd_set_op dd_set_val dd_set_dflt dd_set_oval dd_set_odflt dd_set_ch
         set_ops_nokeys merge_children];
    rewrite is_term_kind_of, Hk; cbn [is_term_kind];
    cbn [dd_sid dd_val dd_dflt dd_op dd_oval dd_odflt dd_ch dd_set_op dd_set_val dd_set_dflt dd_set_oval dd_set_odflt dd_set_ch
         set_ops_nokeys merge_children];
    unfold is_redundant, dd_is_term; cbn [dd_sid dd_odflt dd_dflt dd_op eff_op].
  - rewrite is_term_kind_of, Hk. cbn [is_term_kind]. apply beq_bytes_eq in Eac. subst vc.
    destruct (Bool.eqb da dc) eqn:Ef.
    + eexists. eexists. split; [reflexivity|]. left. split; [reflexivity|]. apply Bool.eqb_prop in Ef. subst dc. reflexivity.
    + eexists. eexists. split; [reflexivity|]. right. eexists. split; [reflexivity|]. split; [apply (leaf_dd_id sc); exact Hk|].
      apply (Sp_none_term sch None (DD sc va dc (Some OpNone) (Some da) None []) (DN sc va da [] []) i);
        cbn [dd_op dd_sid dd_dflt dd_odflt dd_ch d_dflt]; try reflexivity.
      * rewrite is_term_kind_of, Hk. reflexivity.
      * rewrite <- Tid. apply (leaf_dd_id sc). exact Hk.
      * exact Ha.
      * rewrite Hk. discriminate.
      * intro E. rewrite E, Bool.eqb_reflx in Ef. discriminate.
  - eexists. eexists. split; [reflexivity|]. right. eexists. split; [reflexivity|]. split; [apply (leaf_dd_id sc); exact Hk|].
    apply (Sp_replace sch None (DD sc vc dc (Some OpReplace) (Some da) (Some va) []) (DN sc va da [] []) i);
      cbn [dd_op dd_sid dd_val dd_dflt dd_oval dd_odflt dd_ch d_val d_dflt d_sid]; try reflexivity.
    + exact Hk.
    + rewrite <- Tid. apply (leaf_dd_id sc). exact Hk.
    + exact Ha.
    + apply beq_bytes_sym_false. exact Eac.
Qed.

(* create, then a flag change: created with the new flag *)
Lemma cell_create_none s t b c :
  userordered sch (dd_sid s) = false -> wf_node sch c = true -> kind_of sch (dd_sid s) = KLeaf ->
  Sp sch None t None (Some b) -> Sp sch None s (Some b) (Some c) ->
  dd_op t = Some OpCreate -> dd_op s = Some OpNone -> CellOut None (Some c) s t.
Proof.
  intros Huo Wc Hk Ht Hs Opt Ops l1 l2 Hl1.
  destruct (sp_ids _ _ _ _ Ht) as [i [Tid [_ Tjb]]]. destruct (sp_ids _ _ _ _ Hs) as [i' [Sid0 [Sjb Sjc]]].
  assert (i' = i) by (pose proof (Tjb b eq_refl); pose proof (Sjb b eq_refl); congruence). subst i'.
  destruct (sp_inv_ss _ _ _ _ Hs) as [[i2 S]|[[i2 S]|[i2 [chc S]]]];
    [destruct S as [Se _]; rewrite Ops in Se; discriminate| |
     destruct S as [_ [St _]]; rewrite is_term_kind_of, Hk in St; discriminate].
  destruct S as [Se [St [Sid [Sb [Sod [Sch [Sany [Sreal Sc]]]]]]]].
  assert (i2 = i) by congruence. subst i2.
  inversion Ht as [| inh0 d0 b0 i0 He Hb Hdd Hwf | | |]; subst.
  assert (Esb : d_sid b = dd_sid s) by (rewrite <- (inst_id_sid sch _ _ Sb), (dd_sid_of_id _ _ Sid); reflexivity).
  destruct b as [sb vb db mb chb]. pose proof (wf_node_inv sch _ _ _ _ _ Hwf) as W.
  pose proof (wn_meta _ _ _ _ _ _ W) as Em. pose proof (wn_kind _ _ _ _ _ _ W) as Wk. cbn [d_sid] in Esb. subst sb.
  rewrite Hk in Wk. destruct Wk as [Ech _]. subst mb chb.
  rewrite Opt in Hdd. rewrite lift_unfold in Hdd. cbn [map forallb dd_set_op] in Hdd. rewrite Bool.andb_true_r in Hdd. subst t.
  destruct s as [ss' vs fs ops ods ovs chs].
  cbn [dd_op dd_sid dd_val dd_dflt dd_oval dd_odflt dd_ch d_val d_dflt d_sid] in *. subst ops chs ods.
  rewrite Tid in Hl1.
  rewrite (merge_r_found None (DD ss' vs fs (Some OpNone) (Some db) ovs []) None l1
                         (DD ss' vb db (Some OpCreate) None None []) l2 i OpNone OpCreate
                         Huo eq_refl Sid Tid Hl1 eq_refl).
  unfold merge_none, dd_is_term, dd_merge_dflt_flag. cbn [dd_sid dd_dflt]. rewrite St.
  cbn [dd_sid dd_val dd_dflt dd_op dd_oval dd_odflt dd_ch dd_set_op dd_set_val dd_set_dflt dd_set_oval dd_set_ch merge_children].
  unfold is_redundant. cbn [dd_op eff_op].
  eexists. eexists. split; [reflexivity|]. right. eexists. split; [reflexivity|]. split; [apply (leaf_dd_id ss'); exact Hk|].
  cbn [set_val set_dflt] in *.
  apply (Sp_create sch None (DD ss' vb fs (Some OpCreate) None None []) (DN ss' vb fs [] []) i).
  - reflexivity.
  - apply Sjc. reflexivity.
  - rewrite lift_unfold. cbn [map forallb dd_set_op dd_op]. rewrite Bool.andb_true_r. reflexivity.
  - exact Wc.
Qed.

(* replace, then a flag change: replace with the new flag *)
Lemma cell_replace_none s t a b c :
  userordered sch (dd_sid s) = false ->
  Sp sch None t (Some a) (Some b) -> Sp sch None s (Some b) (Some c) ->
  dd_op t = Some OpReplace -> dd_op s = Some OpNone -> CellOut (Some a) (Some c) s t.
Proof.
  intros Huo Ht Hs Opt Ops l1 l2 Hl1.
  destruct (sp_ids _ _ _ _ Ht) as [i [Tid0 [_ Tjb]]]. destruct (sp_ids _ _ _ _ Hs) as [i' [Sid0 [Sjb _]]].
  assert (i' = i) by (pose proof (Tjb b eq_refl); pose proof (Sjb b eq_refl); congruence). subst i'.
  destruct (sp_inv_ss _ _ _ _ Ht) as [[i1 T]|[[i1 T]|[i1 [chb T]]]];
    [|destruct T as [Te _]; rewrite Opt in Te; discriminate|destruct T as [Te _]; rewrite Opt in Te; discriminate].
  destruct T as [Te [Tk [Tid [Ta [Tsid [Tne [Tov [Tod [Tch Tb]]]]]]]]].
  assert (i1 = i) by congruence. subst i1.
  assert (Ess : dd_sid s = dd_sid t) by (rewrite <- (dd_sid_of_id _ _ Sid0), <- (dd_sid_of_id _ _ Tid0); reflexivity).
  destruct (sp_inv_ss _ _ _ _ Hs) as [[i2 S]|[[i2 S]|[i2 [chc S]]]];
    [destruct S as [Se _]; rewrite Ops in Se; discriminate| |
     destruct S as [_ [St _]]; rewrite Ess, is_term_kind_of, Tk in St; discriminate].
  destruct S as [Se [St [Sid [Sb [Sod [Sch [Sany [Sreal Sc]]]]]]]].
  assert (i2 = i) by congruence. subst i2.
  destruct t as [st vt ft opt odt ovt cht]. destruct s as [ss vs fs ops ods ovs chs].
  cbn [dd_op dd_sid dd_val dd_dflt dd_oval dd_odflt dd_ch] in *. subst opt ops cht chs ovt odt ods ss.
  rewrite Tid in Hl1.
  rewrite (merge_r_found None (DD st vs fs (Some OpNone) (Some (d_dflt b)) ovs []) None l1
                         (DD st vt ft (Some OpReplace) (Some (d_dflt a)) (Some (d_val a)) []) l2 i OpNone OpReplace
                         Huo eq_refl Sid Tid Hl1 eq_refl).
  unfold merge_none, dd_is_term, dd_merge_dflt_flag. cbn [dd_sid dd_dflt]. rewrite St.
  cbn [dd_sid dd_val dd_dflt dd_op dd_oval dd_odflt dd_ch dd_set_op dd_set_val dd_set_dflt dd_set_oval dd_set_ch merge_children].
  unfold is_redundant. cbn [dd_op eff_op].
  eexists. eexists. split; [reflexivity|]. right. eexists. split; [reflexivity|]. split; [apply (leaf_dd_id st); exact Tk|].
  assert (Ec : c = set_dflt (set_val a vt) fs) by (rewrite Sc, Tb; destruct a; reflexivity).
  rewrite Ec. apply (Sp_replace sch None (DD st vt fs (Some OpReplace) (Some (d_dflt a)) (Some (d_val a)) []) a i);
    cbn [dd_op dd_sid dd_val dd_dflt dd_oval dd_odflt dd_ch]; try reflexivity; try assumption.
Qed.

(* replace, then delete: the original leaf is deleted *)
Lemma cell_replace_delete s t a b :
  userordered sch (dd_sid s) = false -> wf_node sch a = true ->
  Sp sch None t (Some a) (Some b) -> Sp sch None s (Some b) None ->
  dd_op t = Some OpReplace -> dd_op s = Some OpDelete -> CellOut (Some a) None s t.
Proof.
  intros Huo Wa Ht Hs Opt Ops l1 l2 Hl1.
  destruct (sp_ids _ _ _ _ Ht) as [i [Tid0 [_ Tjb]]]. destruct (sp_ids _ _ _ _ Hs) as [i' [Sid0 [Sjb _]]].
  assert (i' = i) by (pose proof (Tjb b eq_refl); pose proof (Sjb b eq_refl); congruence). subst i'.
  destruct (sp_inv_ss _ _ _ _ Ht) as [[i1 T]|[[i1 T]|[i1 [chb T]]]];
    [|destruct T as [Te _]; rewrite Opt in Te; discriminate|destruct T as [Te _]; rewrite Opt in Te; discriminate].
  destruct T as [Te [Tk [Tid [Ta [Tsid [Tne [Tov [Tod [Tch Tb]]]]]]]]].
  assert (i1 = i) by congruence. subst i1.
  inversion Hs as [inh0 d0 b0 i0 He Hb Hdd Hwb | | | |]; subst.
  destruct a as [sa va da ma cha]. pose proof (wf_node_inv sch _ _ _ _ _ Wa) as W.
  pose proof (wn_meta _ _ _ _ _ _ W) as Em. pose proof (wn_kind _ _ _ _ _ _ W) as Wk. cbn [d_sid] in Tsid. subst sa.
  rewrite Tk in Wk. destruct Wk as [Ech _]. subst ma cha.
  destruct t as [st vt ft opt odt ovt cht].
  cbn [dd_op dd_sid dd_val dd_dflt dd_oval dd_odflt dd_ch d_val d_dflt d_sid set_val set_dflt] in *. subst opt cht ovt odt.
  rewrite Ops in Hdd. rewrite lift_unfold in Hdd. cbn [map forallb dd_set_op] in Hdd. rewrite Bool.andb_true_r in Hdd. subst s.
  cbn [dd_sid] in *.
  rewrite Tid in Hl1.
  rewrite (merge_r_found None (DD st vt ft (Some OpDelete) None None []) None l1
                         (DD st vt ft (Some OpReplace) (Some da) (Some va) []) l2 i OpDelete OpReplace
                         Huo eq_refl Sid0 Tid Hl1 eq_refl).
  unfold merge_delete, dd_is_term, dd_change_term.
  cbn [dd_sid dd_val dd_dflt dd_op dd_oval dd_odflt dd_ch dd_set_op dd_set_val dd_set_dflt dd_set_oval dd_set_odflt].
  rewrite beq_bytes_refl', Bool.andb_false_r, Tk, (beq_bytes_sym_false _ _ Tne).
  cbn [dd_sid dd_val dd_dflt dd_op dd_oval dd_odflt dd_ch dd_set_op dd_set_val dd_set_dflt dd_set_oval dd_set_odflt dd_set_ch
       set_ops_nokeys merge_children].
  unfold is_redundant. cbn [dd_op eff_op].
  eexists. eexists. split; [reflexivity|]. right. eexists. split; [reflexivity|]. split; [apply (leaf_dd_id st); exact Tk|].
  apply (Sp_delete sch None (DD st va da (Some OpDelete) None None []) (DN st va da [] []) i).
  - reflexivity.
  - exact Ta.
  - rewrite lift_unfold. cbn [map forallb dd_set_op dd_op]. rewrite Bool.andb_true_r. reflexivity.
  - exact Wa.
Qed.

Lemma sp_op_replace d oa ob : Sp sch None d oa ob -> dd_op d = Some OpReplace -> exists a b, oa = Some a /\ ob = Some b.
Proof. intros H Ho. destruct H as [? ? ? ? He|? ? ? ? He|? ? ? ? He|? ? ? ? He|? ? ? ? ? He]; rewrite Ho in He; try discriminate. eauto. Qed.
Lemma sp_op_create d oa ob : Sp sch None d oa ob -> dd_op d = Some OpCreate -> oa = None /\ exists b, ob = Some b.
Proof. intros H Ho. destruct H as [? ? ? ? He|? ? ? ? He|? ? ? ? He|? ? ? ? He|? ? ? ? ? He]; rewrite Ho in He; try discriminate. eauto. Qed.
Lemma sp_op_delete d oa ob : Sp sch None d oa ob -> dd_op d = Some OpDelete -> ob = None /\ exists a, oa = Some a.
Proof. intros H Ho. destruct H as [? ? ? ? He|? ? ? ? He|? ? ? ? He|? ? ? ? He|? ? ? ? ? He]; rewrite Ho in He; try discriminate. eauto. Qed.

Lemma sp_op_none d oa ob : Sp sch None d oa ob -> dd_op d = Some OpNone -> exists a b, oa = Some a /\ ob = Some b.
Proof. intros H Ho. destruct H as [? ? ? ? He|? ? ? ? He|? ? ? ? He|? ? ? ? He|? ? ? ? ? He]; rewrite Ho in He; try discriminate; eauto. Qed.

(* the leaf cells in which a met root is replaced in place: (operation in diff(A,B), operation in diff(B,C)) *)
Definition leaf_cell (s t : dd) : Prop :=
  kind_of sch (dd_sid s) = KLeaf /\
  ((dd_op t = Some OpReplace /\ dd_op s = Some OpReplace) \/ (dd_op t = Some OpCreate /\ dd_op s = Some OpReplace) \/
   (dd_op t = Some OpDelete /\ dd_op s = Some OpCreate) \/ (dd_op t = Some OpCreate /\ dd_op s = Some OpNone) \/
   (dd_op t = Some OpReplace /\ dd_op s = Some OpNone) \/ (dd_op t = Some OpReplace /\ dd_op s = Some OpDelete)).

(* C13, composition: every root of diff(B,C) meets no root of diff(A,B), or undoes the one it meets, or the two are
   operations on a leaf in one of the cells replace + replace, create + replace, delete + create, create + none,
   replace + none, replace + delete *)
Theorem merge_apply_cells fa fb fc d1 d2 :
  mdflt = false ->
  wfb sch fa = true -> wfb sch fb = true -> wfb sch fc = true ->
  diff sch true fa fb = Ok d1 -> diff sch true fb fc = Ok d2 ->
  (forall s t j, In s d2 -> In t d1 -> dd_id sch s = Some j -> dd_id sch t = Some j ->
                 find_match sch true fc (Some j) = find_match sch true fa (Some j) \/ leaf_cell s t) ->
  exists m, merge sch mdflt (map redup d1) d2 = Ok m /\ apply sch m fa = Ok fc.
Proof.
  intros Hmd Ha Hb Hc E1 E2 Hmeet.
  destruct (diff_sp sch fa fb Ha Hb) as [d1' [E1' Hsp1]]. assert (d1' = d1) by congruence. subst d1'.
  destruct (diff_sp sch fb fc Hb Hc) as [d2' [E2' Hsp2]]. assert (d2' = d2) by congruence. subst d2'.
  assert (Hsp1' : LevelSp sch (Sp sch None) (map redup d1) fa fb).
  { apply (levelsp_map sch (Sp sch None) (Sp sch None) redup); [apply dd_id_redup| |exact Hsp1].
    intros d oa ob _ H. apply redup_sp. exact H. }
  destruct Hsp1' as [its1 [unch1 [Eds1 [Hs1 [Hnd1 [PA1 PB1]]]]]].
  destruct Hsp2 as [its2 [unch2 [Eds2 [Hs2 [Hnd2 [PB2 PC2]]]]]].
  pose proof (wfb_sibs sch _ Ha) as Wa. pose proof (wfb_sibs sch _ Hb) as Wb. pose proof (wfb_sibs sch _ Hc) as Wc.
  pose proof (so_nodup _ _ (ws_sibs _ _ Wa)) as Na. pose proof (so_nodup _ _ (ws_sibs _ _ Wb)) as Nb.
  pose proof (so_nodup _ _ (ws_sibs _ _ Wc)) as Nc.
  assert (LS1 : forall it j, In it its1 -> dd_id sch (it_d it) = Some j ->
             it_a it = find_match sch true fa (Some j) /\ it_b it = find_match sch true fb (Some j)).
  { intros it j Hit Hj. apply (level_lookup None its1 unch1 fa fb it j); assumption. }
  assert (LS2 : forall it j, In it its2 -> dd_id sch (it_d it) = Some j ->
             it_a it = find_match sch true fb (Some j) /\ it_b it = find_match sch true fc (Some j)).
  { intros it j Hit Hj. apply (level_lookup None its2 unch2 fb fc it j); assumption. }
  pose proof Hs1 as Hs1F. pose proof Hs2 as Hs2F. rewrite Forall_forall in Hs1, Hs2.
  assert (Hin1 : forall it1, In it1 its1 -> exists t, In t d1 /\ dd_id sch t = dd_id sch (it_d it1) /\ dd_op t = dd_op (it_d it1)).
  { intros it1 H1. assert (Hin : In (it_d it1) (map redup d1)) by (rewrite Eds1; apply in_map; exact H1).
    apply in_map_iff in Hin. destruct Hin as [t [Et Ht]]. exists t. split; [exact Ht|]. rewrite <- Et, dd_id_redup, dd_op_redup. split; reflexivity. }
  set (Cn := fun (_ t : dd) => exists j, dd_id sch t = Some j /\ find_match sch true fa (Some j) = find_match sch true fc (Some j)).
  set (Gd := fun (_ t t2 : dd) => exists j, dd_id sch t = Some j /\
                                  Sp sch None t2 (find_match sch true fa (Some j)) (find_match sch true fc (Some j))).
  destruct (mix_fold3 Cn Gd (map it_d its2) (map it_d its1)) as [m [Em [Ndm [R1 [R2 [R3 R4]]]]]].
  - rewrite map_map. exact Hnd2.
  - rewrite map_map. exact Hnd1.
  - intros s Hs. apply in_map_iff in Hs. destruct Hs as [it [<- Hit]].
    destruct (sp_ids _ _ _ _ (Hs2 it Hit)) as [j [Hj _]]. destruct (LS2 it j Hit Hj) as [La Lb].
    destruct (sp_eff _ _ _ _ (Hs2 it Hit)) as [e He].
    assert (Hop : dd_op (it_d it) = Some e) by (destruct (dd_op (it_d it)); cbn in He; congruence).
    split.
    + apply (sp_sid_nouo _ _ _ _ (Hs2 it Hit)); [rewrite La|rewrite Lb]; apply find_match_owf, wfb_forall; assumption.
    + exists e, j. split; [exact Hop|]. split; [exact Hj|].
      pose proof (sp_not_redundant None _ _ _ e (Hs2 it Hit) He) as Hr.
      assert (En : dd_set_op (redup (it_d it)) (Some e) = redup (it_d it)) by (rewrite <- Hop, <- dd_op_redup; apply dd_set_op_same).
      rewrite En in Hr. exact Hr.
  - (* the roots that meet *)
    intros s t Hs Ht Eid. apply in_map_iff in Hs. destruct Hs as [it2 [<- H2]]. apply in_map_iff in Ht. destruct Ht as [it1 [<- H1]].
    destruct (sp_ids _ _ _ _ (Hs2 it2 H2)) as [j [Hj _]]. assert (Hj1 : dd_id sch (it_d it1) = Some j) by congruence.
    destruct (LS2 it2 j H2 Hj) as [La2 Lb2]. destruct (LS1 it1 j H1 Hj1) as [La1 Lb1].
    destruct (Hin1 it1 H1) as [t [Ht [Et Eop]]].
    pose proof (Hs2 it2 H2) as Sp2. pose proof (Hs1 it1 H1) as Sp1. rewrite La2, Lb2 in Sp2. rewrite La1, Lb1 in Sp1.
    assert (Huo : userordered sch (dd_sid (it_d it2)) = false).
    { apply (sp_sid_nouo _ _ _ _ Sp2); apply find_match_owf, wfb_forall; assumption. }
    assert (Hcell : CellOut (find_match sch true fa (Some j)) (find_match sch true fc (Some j)) (it_d it2) (it_d it1) ->
                    MixStep Cn Gd (it_d it2) (it_d it1)).
    { intros HC l1 l2 Hl1. destruct (HC l1 l2 Hl1) as [res [sg [E Hout]]]. exists res, sg. split; [exact E|].
      destruct Hout as [[Er Eq]|[t2 [Er [Eid2 Hsp]]]].
      - left. split; [exact Er|]. exists j. split; [exact Hj1|exact Eq].
      - right. exists t2. split; [exact Er|]. split; [exact Eid2|]. exists j. split; [exact Hj1|exact Hsp]. }
    destruct (Hmeet (it_d it2) t j) as [Efc|[Hk Hcells]]; [rewrite Eds2; apply in_map; exact H2|exact Ht|exact Hj|congruence| |].
    + (* they cancel *)
      intros l1 l2 Hl1.
      destruct (undo_node (it_d it2) None None (it_d it1) (find_match sch true fa (Some j)) (find_match sch true fb (Some j))) with (l1 := l1) (l2 := l2)
        as [sg E].
      * apply find_match_owf, wfb_forall, Ha.
      * apply find_match_owf, wfb_forall, Hb.
      * rewrite <- Efc. exact Sp2.
      * exact Sp1.
      * exact Hl1.
      * exists (l1 ++ l2), sg. split; [exact E|]. left. split; [reflexivity|]. exists j. split; [exact Hj1|symmetry; exact Efc].
    + apply Hcell. rewrite Eop in Hcells. destruct Hcells as [[Ot Os]|[[Ot Os]|[[Ot Os]|[[Ot Os]|[[Ot Os]|[Ot Os]]]]]].
      * destruct (sp_op_replace _ _ _ Sp1 Ot) as [a [b [Ea Eb]]]. destruct (sp_op_replace _ _ _ Sp2 Os) as [b' [c [Eb' Ec]]].
        rewrite Ea, Ec. rewrite Ea, Eb in Sp1. rewrite Eb, Ec in Sp2. apply (cell_replace_replace _ _ a b c); assumption.
      * destruct (sp_op_create _ _ _ Sp1 Ot) as [Ea [b Eb]]. destruct (sp_op_replace _ _ _ Sp2 Os) as [b' [c [Eb' Ec]]].
        rewrite Ea, Ec. rewrite Ea, Eb in Sp1. rewrite Eb, Ec in Sp2. apply (cell_create_replace _ _ b c); try assumption.
        apply (wfb_forall _ Hc). apply (find_match_true_inv sch fc j c Ec).
      * destruct (sp_op_delete _ _ _ Sp1 Ot) as [Eb [a Ea]]. destruct (sp_op_create _ _ _ Sp2 Os) as [Eb' [c Ec]].
        rewrite Ea, Ec. rewrite Ea, Eb in Sp1. rewrite Eb, Ec in Sp2. apply (cell_delete_create _ _ a c); assumption.
      * destruct (sp_op_create _ _ _ Sp1 Ot) as [Ea [b Eb]]. destruct (sp_op_none _ _ _ Sp2 Os) as [b' [c [Eb' Ec]]].
        rewrite Ea, Ec. rewrite Ea, Eb in Sp1. rewrite Eb, Ec in Sp2. apply (cell_create_none _ _ b c); try assumption.
        apply (wfb_forall _ Hc). apply (find_match_true_inv sch fc j c Ec).
      * destruct (sp_op_replace _ _ _ Sp1 Ot) as [a [b [Ea Eb]]]. destruct (sp_op_none _ _ _ Sp2 Os) as [b' [c [Eb' Ec]]].
        rewrite Ea, Ec. rewrite Ea, Eb in Sp1. rewrite Eb, Ec in Sp2. apply (cell_replace_none _ _ a b c); assumption.
      * destruct (sp_op_replace _ _ _ Sp1 Ot) as [a [b [Ea Eb]]]. destruct (sp_op_delete _ _ _ Sp2 Os) as [Ec [b' Eb']].
        rewrite Ea, Ec. rewrite Ea, Eb in Sp1. rewrite Eb, Ec in Sp2. apply (cell_replace_delete _ _ a b); try assumption.
        apply (wfb_forall _ Ha). apply (find_match_true_inv sch fa j a Ea).
  - exists m. split; [unfold merge; rewrite Eds1, Eds2; exact Em|].
    apply (apply_level_sp sch m fa fc); [|apply (ws_sibs _ _ Wa)|apply wf_allsome, (ws_nodes _ _ Wa)|apply (ws_sibs _ _ Wc)].
    apply level_build; try assumption; try (apply wf_allsome; apply ws_nodes; assumption).
    + intros x Hx. destruct (R1 x Hx) as [[Hx' Hss]|[[s [t [Hs [Ht [E12 [Ext [j [Hj HG]]]]]]]]|[s [Hs [-> Hts]]]]].
      * apply in_map_iff in Hx'. destruct Hx' as [it1 [<- H1]].
        destruct (sp_ids _ _ _ _ (Hs1 it1 H1)) as [j [Hj _]]. destruct (LS1 it1 j H1 Hj) as [La Lb]. exists j. split; [exact Hj|].
        rewrite <- (sp_level_same None its2 unch2 fb fc j Hs2F PB2 PC2 Nb Nc).
        -- rewrite <- La, <- Lb. apply Hs1, H1.
        -- intros it2 H2 E. apply (Hss (it_d it2)); [apply in_map; exact H2|congruence].
      * exists j. split; [congruence|exact HG].
      * apply in_map_iff in Hs. destruct Hs as [it2 [<- H2]].
        destruct (sp_ids _ _ _ _ (Hs2 it2 H2)) as [j [Hj _]]. destruct (LS2 it2 j H2 Hj) as [La Lb]. exists j.
        split; [rewrite dd_id_redup; exact Hj|].
        rewrite (sp_level_same None its1 unch1 fa fb j Hs1F PA1 PB1 Na Nb).
        -- rewrite <- La, <- Lb. apply redup_sp, Hs2, H2.
        -- intros it1 H1 E. apply (Hts (it_d it1)); [apply in_map; exact H1|congruence].
    + intros j Hno.
      destruct (in_ds j (map it_d its1)) eqn:D1; destruct (in_ds j (map it_d its2)) eqn:D2.
      * apply in_ds_true in D1. destruct D1 as [t1 [Ht1 Hj1]]. apply in_ds_true in D2. destruct D2 as [s2 [Hs2' Hj2]].
        destruct (R4 s2 t1 Hs2' Ht1) as [[j' [Hj' Eq]]|[x [Hx Ex]]]; [congruence| |].
        -- assert (j' = j) by congruence. subst j'. exact Eq.
        -- exfalso. apply (Hno x Hx). congruence.
      * exfalso. apply in_ds_true in D1. destruct D1 as [t1 [Ht1 Hj1]]. apply (Hno t1); [|exact Hj1]. apply R2; [exact Ht1|].
        intros s Hs E. assert (Ht : in_ds j (map it_d its2) = true) by (apply in_ds_true; exists s; split; [exact Hs|congruence]).
        congruence.
      * exfalso. apply in_ds_true in D2. destruct D2 as [s2 [Hs2' Hj2]]. apply (Hno (redup s2)); [|rewrite dd_id_redup; exact Hj2].
        apply R3; [exact Hs2'|].
        intros t Ht E. assert (Htt : in_ds j (map it_d its1) = true) by (apply in_ds_true; exists t; split; [exact Ht|congruence]).
        congruence.
      * assert (N1 : forall it, In it its1 -> dd_id sch (it_d it) <> Some j).
        { intros it Hit E. assert (Ht : in_ds j (map it_d its1) = true) by (apply in_ds_true; exists (it_d it); split; [apply in_map; exact Hit|exact E]). congruence. }
        assert (N2 : forall it, In it its2 -> dd_id sch (it_d it) <> Some j).
        { intros it Hit E. assert (Ht : in_ds j (map it_d its2) = true) by (apply in_ds_true; exists (it_d it); split; [apply in_map; exact Hit|exact E]). congruence. }
        rewrite (sp_level_same None its1 unch1 fa fb j Hs1F PA1 PB1 Na Nb N1).
        apply (sp_level_same None its2 unch2 fb fc j Hs2F PB2 PC2 Nb Nc N2).
Qed.

End WithSchema.
