(* DiffUserOrdP.v — proofs about DiffUserOrd: the forward diff of a user-ordered leaf-list patches the
   first list into the second (C06), its array accesses are in range, and what holds / does not hold
   for the reversed diff (C13). *)
From LY Require Import Base DiffUserOrd.
From Coq Require Import ZifyBool ZifyNat ZifyN.
Local Open Scope N_scope.

(* ------------------------------------------------------------------------------------------- *)
(* list helpers                                                                                  *)
(* ------------------------------------------------------------------------------------------- *)

Lemma mem_In x l : mem x l = true <-> In x l.
Proof.
  unfold mem. rewrite existsb_exists. split.
  - intros [y [Hy He]]. apply N.eqb_eq in He. subst y. exact Hy.
  - intro H. exists x. split; [exact H|apply N.eqb_refl].
Qed.

Lemma mem_nIn x l : mem x l = false <-> ~ In x l.
Proof.
  rewrite <- mem_In. destruct (mem x l); split; intro H; try reflexivity; try discriminate.
  exfalso. apply H. reflexivity.
Qed.

Lemma NoDup_app_iff (a b : list N) :
  NoDup (a ++ b) <-> NoDup a /\ NoDup b /\ (forall x, In x a -> ~ In x b).
Proof.
  induction a as [|y a IH]; cbn [app].
  - split.
    + intro H. split; [constructor|]. split; [exact H|]. intros x [].
    + intros [_ [H _]]. exact H.
  - rewrite !NoDup_cons_iff, IH, in_app_iff. split.
    + intros [Hn [Ha [Hb Hd]]]. split; [split; [tauto|exact Ha]|]. split; [exact Hb|].
      intros x [->|Hx]; [tauto|apply Hd; exact Hx].
    + intros [[Hn Ha] [Hb Hd]]. split.
      * intros [H|H]; [tauto|]. apply (Hd y); [left; reflexivity|exact H].
      * split; [exact Ha|]. split; [exact Hb|]. intros x Hx. apply Hd. right. exact Hx.
Qed.

(* last element as an anchor *)
Fixpoint last_opt (l : list N) : option N :=
  match l with
  | [] => None
  | x :: r => match r with [] => Some x | _ => last_opt r end
  end.

Lemma last_opt_snoc a v : last_opt (a ++ [v]) = Some v.
Proof.
  induction a as [|x a IH]; [reflexivity|].
  cbn [app last_opt]. destruct (a ++ [v]) eqn:E; [destruct a; discriminate E|exact IH].
Qed.

Lemma last_opt_In a v : last_opt a = Some v -> exists a', a = a' ++ [v].
Proof.
  induction a as [|x a IH]; [discriminate|].
  cbn [last_opt]. destruct a as [|y a].
  - intro E; injection E as ->. exists []. reflexivity.
  - intro E. destruct (IH E) as [a' Ha']. exists (x :: a'). rewrite Ha'. reflexivity.
Qed.

Lemma last_opt_None a : last_opt a = None -> a = [].
Proof.
  induction a as [|x a IH]; [reflexivity|].
  cbn [last_opt]. destruct a as [|y a]; [discriminate|]. intro E. apply IH in E. discriminate E.
Qed.

Lemma nth_error_app_len (a b : list N) : nth_error (a ++ b) (length a) = hd_error b.
Proof. induction a as [|x a IH]; [destruct b; reflexivity|exact IH]. Qed.

Lemma anchor_at_app a b : anchor_at (a ++ b) (length a) = last_opt a.
Proof.
  destruct a as [|x a]; [reflexivity|].
  cbn [length anchor_at]. revert x. induction a as [|y a IH]; intro x; [reflexivity|].
  cbn [app length nth_error last_opt]. cbn [app] in IH. rewrite IH. reflexivity.
Qed.

Lemma find_pos_app y a b : ~ In y a -> find_pos y (a ++ y :: b) = length a.
Proof.
  induction a as [|x a IH]; intro Hn; cbn [app find_pos length].
  - rewrite N.eqb_refl. reflexivity.
  - destruct (x =? y) eqn:E.
    + apply N.eqb_eq in E. exfalso. apply Hn. left. exact E.
    + rewrite IH; [reflexivity|]. intro H. apply Hn. right. exact H.
Qed.

Lemma find_pos_lt y l : In y l -> (find_pos y l < length l)%nat.
Proof.
  induction l as [|x l IH]; intro H; [destruct H|].
  cbn [find_pos length]. destruct (x =? y) eqn:E; [lia|].
  destruct H as [->|H]; [rewrite N.eqb_refl in E; discriminate E|]. apply IH in H. lia.
Qed.

Lemma remove_at_app a y b : remove_at (length a) (a ++ y :: b) = a ++ b.
Proof. induction a as [|x a IH]; [reflexivity|]. cbn [app length remove_at]. rewrite IH. reflexivity. Qed.

Lemma insert_at_app a y b : insert_at (length a) y (a ++ b) = a ++ y :: b.
Proof. induction a as [|x a IH]; [reflexivity|]. cbn [app length insert_at]. rewrite IH. reflexivity. Qed.

Lemma remove_at_find_pos x l : remove_at (find_pos x l) l = remove1 x l.
Proof.
  induction l as [|y l IH]; [reflexivity|].
  cbn [find_pos remove1]. destruct (y =? x); [reflexivity|]. cbn [remove_at]. rewrite IH. reflexivity.
Qed.

Lemma remove1_app y a b : ~ In y a -> remove1 y (a ++ y :: b) = a ++ b.
Proof.
  induction a as [|x a IH]; intro Hn; cbn [app remove1].
  - rewrite N.eqb_refl. reflexivity.
  - destruct (x =? y) eqn:E.
    + apply N.eqb_eq in E. exfalso. apply Hn. left. exact E.
    + rewrite IH; [reflexivity|]. intro H. apply Hn. right. exact H.
Qed.

Lemma remove1_notin y l : ~ In y l -> remove1 y l = l.
Proof.
  induction l as [|x l IH]; intro Hn; [reflexivity|].
  cbn [remove1]. destruct (x =? y) eqn:E.
  - apply N.eqb_eq in E. exfalso. apply Hn. left. exact E.
  - rewrite IH; [reflexivity|]. intro H. apply Hn. right. exact H.
Qed.

Lemma insert_after_app v y a b : ~ In v a -> insert_after v y (a ++ v :: b) = a ++ v :: y :: b.
Proof.
  induction a as [|x a IH]; intro Hn; cbn [app insert_after].
  - rewrite N.eqb_refl. reflexivity.
  - destruct (x =? v) eqn:E.
    + apply N.eqb_eq in E. exfalso. apply Hn. left. exact E.
    + rewrite IH; [reflexivity|]. intro H. apply Hn. right. exact H.
Qed.

Lemma In_remove1 z x l : In z (remove1 x l) -> In z l.
Proof.
  induction l as [|y l IH]; [intros []|].
  cbn [remove1]. destruct (y =? x).
  - intro H. right. exact H.
  - intros [->|H]; [left; reflexivity|right; apply IH; exact H].
Qed.

Lemma In_remove1_neq z x l : z <> x -> In z l -> In z (remove1 x l).
Proof.
  intro Hne. induction l as [|y l IH]; [intros []|].
  cbn [remove1]. destruct (y =? x) eqn:E.
  - apply N.eqb_eq in E. intros [->|H]; [congruence|exact H].
  - intros [->|H]; [left; reflexivity|right; apply IH; exact H].
Qed.

Lemma NoDup_remove1 x l : NoDup l -> NoDup (remove1 x l) /\ ~ In x (remove1 x l).
Proof.
  induction l as [|y l IH]; intro Hd; [split; [constructor|intros []]|].
  apply NoDup_cons_iff in Hd. destruct Hd as [Hn Hd]. cbn [remove1]. destruct (y =? x) eqn:E.
  - apply N.eqb_eq in E. subst y. split; [exact Hd|exact Hn].
  - apply N.eqb_neq in E. destruct (IH Hd) as [H1 H2]. split.
    + constructor; [|exact H1]. intro H. apply Hn. apply In_remove1 in H. exact H.
    + intros [H|H]; [congruence|apply H2; exact H].
Qed.

Lemma In_split_first (y : N) l : In y l -> exists a b, l = a ++ y :: b /\ ~ In y a.
Proof.
  induction l as [|x l IH]; [intros []|].
  destruct (N.eq_dec x y) as [->|Hne].
  - intros _. exists [], l. split; [reflexivity|intros []].
  - intros [H|H]; [congruence|]. destruct (IH H) as [a [b [-> Hn]]].
    exists (x :: a), b. split; [reflexivity|]. intros [H'|H']; [congruence|apply Hn; exact H'].
Qed.

(* ------------------------------------------------------------------------------------------- *)
(* memory-safety conditions of lyd_diff_userord_attrs() on one call                              *)
(* ------------------------------------------------------------------------------------------- *)

(* delete: the instance was found in the array (assert(first_pos < LY_ARRAY_COUNT));
   create: the insertion index is inside the enlarged array;
   replace: second_pos < first_pos < count, so the memmove length (first_pos - second_pos), computed in
   uint32_t, does not wrap and inst[second_pos], inst[first_pos - 1] are inside the array *)
Definition tr_safe (t : tr) : Prop :=
  match d_op (t_op t) with
  | OpDelete => (t_first t < t_count t)%nat
  | OpCreate => (t_second t <= t_count t)%nat
  | OpReplace => (t_second t < t_first t)%nat /\ (t_first t < t_count t)%nat
  end.

(* ------------------------------------------------------------------------------------------- *)
(* apply: single steps with an accurate *first_node                                              *)
(* ------------------------------------------------------------------------------------------- *)

Lemma apply_delete_hd x v o l :
  In x l -> apply_one (mkdop OpDelete x v o) (l, hd_error l) = Ok (remove1 x l, hd_error (remove1 x l)).
Proof.
  intro Hin. unfold apply_one. cbn [d_op d_x].
  apply mem_In in Hin. rewrite Hin. cbn [negb].
  destruct l as [|h r]; [discriminate Hin|].
  cbn [hd_error opt_is next_of remove1]. destruct (h =? x) eqn:E.
  - destruct r as [|h' r']; reflexivity.
  - reflexivity.
Qed.

(* create behind the last element of a non-empty prefix *)
Lemma apply_create_after x o a v b :
  ~ In v a ->
  apply_one (mkdop OpCreate x (Some (Some v)) o) (a ++ v :: b, hd_error (a ++ v :: b))
  = Ok (a ++ v :: x :: b, hd_error (a ++ v :: x :: b)).
Proof.
  intro Hn. unfold apply_one. cbn [d_op d_x d_value]. unfold st_insert.
  assert (Hm : mem v (a ++ v :: b) = true). { apply mem_In. apply in_app_iff. right. left. reflexivity. }
  destruct (hd_error (a ++ v :: b)) as [fv|] eqn:Eh; [|destruct a; discriminate Eh].
  rewrite Hm. cbn [negb andb]. rewrite insert_after_app by exact Hn.
  do 2 f_equal. destruct a; cbn [app hd_error] in *; symmetry; exact Eh.
Qed.

Lemma apply_create_first x o l :
  apply_one (mkdop OpCreate x (Some None) o) (l, hd_error l) = Ok (x :: l, Some x).
Proof.
  unfold apply_one. cbn [d_op d_x d_value]. unfold st_insert.
  destruct l as [|h r]; reflexivity.
Qed.

(* move behind the last element of a non-empty prefix that does not contain the moved instance *)
Lemma apply_move_after x o a v r1 r2 :
  NoDup (a ++ v :: r1 ++ x :: r2) ->
  apply_one (mkdop OpReplace x (Some (Some v)) o) (a ++ v :: r1 ++ x :: r2, hd_error (a ++ v :: r1 ++ x :: r2))
  = Ok (a ++ v :: x :: r1 ++ r2, hd_error (a ++ v :: x :: r1 ++ r2)).
Proof.
  intro Hd. unfold apply_one. cbn [d_op d_x d_value]. unfold st_insert.
  assert (Hx : mem x (a ++ v :: r1 ++ x :: r2) = true).
  { apply mem_In. rewrite in_app_iff. right. right. rewrite in_app_iff. right. left. reflexivity. }
  assert (Hv : mem v (a ++ v :: r1 ++ x :: r2) = true).
  { apply mem_In. rewrite in_app_iff. right. left. reflexivity. }
  apply NoDup_app_iff in Hd. destruct Hd as [Ha [Hb Hab]].
  apply NoDup_cons_iff in Hb. destruct Hb as [Hvn Hb].
  apply NoDup_app_iff in Hb. destruct Hb as [Hr1 [Hr2 H12]].
  apply NoDup_cons_iff in Hr2. destruct Hr2 as [Hxn Hr2].
  assert (Hvx : v <> x).
  { intros ->. apply Hvn. rewrite in_app_iff. right. left. reflexivity. }
  assert (Hxa : ~ In x a).
  { intro H. apply (Hab x H). right. rewrite in_app_iff. right. left. reflexivity. }
  assert (Hva : ~ In v a).
  { intro H. apply (Hab v H). left. reflexivity. }
  assert (Hx1 : ~ In x r1).
  { intro H. apply (H12 x H). left. reflexivity. }
  rewrite Hx. cbn [negb].
  destruct (hd_error (a ++ v :: r1 ++ x :: r2)) as [fv|] eqn:Eh; [|destruct a; discriminate Eh].
  rewrite Hv. cbn [negb andb].
  destruct (v =? x) eqn:Evx; [apply N.eqb_eq in Evx; congruence|].
  replace (a ++ v :: r1 ++ x :: r2) with ((a ++ v :: r1) ++ x :: r2) by (rewrite <- app_assoc; reflexivity).
  rewrite remove1_app.
  2:{ rewrite in_app_iff. intros [H|[H|H]]; [exact (Hxa H)|congruence|exact (Hx1 H)]. }
  rewrite <- app_assoc. cbn [app]. rewrite insert_after_app by exact Hva.
  assert (Hf : (fv =? x) = false).
  { apply N.eqb_neq. intros ->. destruct a as [|a0 a]; cbn [app hd_error] in Eh; injection Eh as Eh.
    - congruence.
    - apply Hxa. left. exact Eh. }
  rewrite Hf. do 2 f_equal. destruct a; cbn [app hd_error] in *; symmetry; exact Eh.
Qed.

Lemma apply_move_first x o h r1 r2 :
  NoDup (h :: r1 ++ x :: r2) ->
  apply_one (mkdop OpReplace x (Some None) o) (h :: r1 ++ x :: r2, Some h)
  = Ok (x :: h :: r1 ++ r2, Some x).
Proof.
  intro Hd. unfold apply_one. cbn [d_op d_x d_value]. unfold st_insert.
  assert (Hx : mem x (h :: r1 ++ x :: r2) = true).
  { apply mem_In. right. rewrite in_app_iff. right. left. reflexivity. }
  apply NoDup_cons_iff in Hd. destruct Hd as [Hh Hd].
  apply NoDup_app_iff in Hd. destruct Hd as [Hr1 [Hr2 H12]].
  assert (Hhx : h <> x).
  { intros ->. apply Hh. rewrite in_app_iff. right. left. reflexivity. }
  assert (Hx1 : ~ In x r1).
  { intro H. apply (H12 x H). left. reflexivity. }
  rewrite Hx. cbn [negb andb].
  destruct (h =? x) eqn:E; [apply N.eqb_eq in E; congruence|].
  replace (h :: r1 ++ x :: r2) with ((h :: r1) ++ x :: r2) by reflexivity.
  rewrite remove1_app; [reflexivity|]. intros [H|H]; [congruence|exact (Hx1 H)].
Qed.

(* ------------------------------------------------------------------------------------------- *)
(* pass 1                                                                                        *)
(* ------------------------------------------------------------------------------------------- *)

Lemma pass1_spec l2 : forall l1' inst pos ts inst',
  NoDup inst -> (forall x, In x l1' -> In x inst) -> NoDup l1' ->
  diff_pass1 l1' l2 inst pos = (ts, inst') ->
  apply_ops_st (map t_op ts) (inst, hd_error inst) = Ok (inst', hd_error inst')
  /\ NoDup inst'
  /\ (forall z, In z inst' <-> In z inst /\ (In z l2 \/ ~ In z l1'))
  /\ Forall tr_safe ts.
Proof.
  induction l1' as [|x r IH]; intros inst pos ts inst' Hd Hsub Hd1 E; cbn [diff_pass1] in E.
  - injection E as <- <-. split; [reflexivity|]. split; [exact Hd|]. split; [|constructor].
    intro z. split; [intro H; split; [exact H|right; intros []]|intros [H _]; exact H].
  - apply NoDup_cons_iff in Hd1. destruct Hd1 as [Hxr Hdr].
    assert (Hxi : In x inst) by (apply Hsub; left; reflexivity).
    destruct (mem x l2) eqn:Em.
    + apply mem_In in Em.
      destruct (IH inst pos ts inst' Hd (fun z Hz => Hsub z (or_intror Hz)) Hdr E) as [Ha [Hn [Hi Hs]]].
      split; [exact Ha|]. split; [exact Hn|]. split; [|exact Hs].
      intro z. rewrite Hi. split; intros [Hz [H|H]]; split; try exact Hz.
      * left; exact H.
      * destruct (N.eq_dec z x) as [->|Hne]; [left; exact Em|].
        right. intros [H'|H']; [congruence|exact (H H')].
      * left; exact H.
      * right. intro H'. apply H. right. exact H'.
    + apply mem_nIn in Em.
      destruct (diff_pass1 r l2 (remove_at (find_pos x inst) inst) (S pos)) as [ts0 inst0] eqn:E0.
      injection E as <- <-. rewrite remove_at_find_pos in E0.
      destruct (NoDup_remove1 x inst Hd) as [Hd' Hx'].
      assert (Hsub' : forall z, In z r -> In z (remove1 x inst)).
      { intros z Hz. apply In_remove1_neq; [intros ->; exact (Hxr Hz)|]. apply Hsub. right. exact Hz. }
      destruct (IH _ _ _ _ Hd' Hsub' Hdr E0) as [Ha [Hn [Hi Hs]]].
      split.
      { cbn [map apply_ops_st t_op]. rewrite apply_delete_hd by exact Hxi. cbn [bind]. exact Ha. }
      split; [exact Hn|]. split.
      { intro z. rewrite Hi. split.
        - intros [Hz H]. assert (Hne : z <> x) by (intros ->; exact (Hx' Hz)).
          split; [apply In_remove1 in Hz; exact Hz|]. destruct H as [H|H]; [left; exact H|].
          right. intros [H'|H']; [congruence|exact (H H')].
        - intros [Hz H]. assert (Hne : z <> x).
          { intros ->. destruct H as [H|H]; [exact (Em H)|apply H; left; reflexivity]. }
          split; [apply In_remove1_neq; assumption|]. destruct H as [H|H]; [left; exact H|].
          right. intro H'. apply H. right. exact H'. }
      constructor; [|exact Hs]. unfold tr_safe. cbn [t_op d_op t_first t_count].
      apply find_pos_lt. exact Hxi.
Qed.

(* ------------------------------------------------------------------------------------------- *)
(* pass 2: one step, the array split into the finished prefix [done] and the [rest]              *)
(* ------------------------------------------------------------------------------------------- *)

Lemma last_opt_app a b : b <> [] -> last_opt (a ++ b) = last_opt b.
Proof.
  intro Hb. induction a as [|x a IH]; [reflexivity|].
  cbn [app last_opt]. destruct (a ++ b) eqn:E; [|exact IH].
  destruct a; [cbn [app] in E; congruence|discriminate E].
Qed.

Lemma length_snoc (a : list N) y : length (a ++ [y]) = S (length a).
Proof. rewrite app_length. cbn [length]. lia. Qed.

Lemma pass2_skip l1 y t done rest' :
  mem y l1 = true ->
  diff_pass2 l1 (y :: t) (done ++ y :: rest') (length done)
  = diff_pass2 l1 t ((done ++ [y]) ++ rest') (length (done ++ [y])).
Proof.
  intro Hm. cbn [diff_pass2]. rewrite Hm, nth_error_app_len. cbn [hd_error]. rewrite N.eqb_refl.
  rewrite <- app_assoc, length_snoc. reflexivity.
Qed.

Lemma pass2_move l1 y t done r1 r2 :
  mem y l1 = true -> ~ In y done -> ~ In y r1 -> r1 <> [] ->
  diff_pass2 l1 (y :: t) (done ++ r1 ++ y :: r2) (length done)
  = mktr (mkdop OpReplace y (Some (last_opt done)) (Some (last_opt r1)))
         (length done + length r1) (length done) (length (done ++ r1 ++ y :: r2))
    :: diff_pass2 l1 t ((done ++ [y]) ++ r1 ++ r2) (length (done ++ [y])).
Proof.
  intros Hm Hd H1 Hne. cbn [diff_pass2]. rewrite Hm.
  assert (Efp : find_pos y (done ++ r1 ++ y :: r2) = (length done + length r1)%nat).
  { rewrite app_assoc, find_pos_app, app_length; [reflexivity|].
    rewrite in_app_iff. intros [H|H]; [exact (Hd H)|exact (H1 H)]. }
  assert (Enth : match nth_error (done ++ r1 ++ y :: r2) (length done) with Some z => z =? y | None => false end = false).
  { rewrite nth_error_app_len. destruct r1 as [|h r1']; [congruence|]. cbn [app hd_error].
    apply N.eqb_neq. intros ->. apply H1. left. reflexivity. }
  rewrite Enth, Efp, anchor_at_app.
  assert (Ea : anchor_at (done ++ r1 ++ y :: r2) (length done + length r1) = last_opt r1).
  { rewrite app_assoc, <- app_length, anchor_at_app. apply last_opt_app. exact Hne. }
  assert (Erm : remove_at (length done + length r1) (done ++ r1 ++ y :: r2) = done ++ r1 ++ r2).
  { rewrite app_assoc, <- app_length, remove_at_app, <- app_assoc. reflexivity. }
  rewrite Ea, Erm, insert_at_app, <- app_assoc, length_snoc. reflexivity.
Qed.

Lemma pass2_create l1 y t done rest :
  mem y l1 = false ->
  diff_pass2 l1 (y :: t) (done ++ rest) (length done)
  = mktr (mkdop OpCreate y (Some (last_opt done)) None) O (length done) (length (done ++ rest))
    :: diff_pass2 l1 t ((done ++ [y]) ++ rest) (length (done ++ [y])).
Proof.
  intro Hm. cbn [diff_pass2]. rewrite Hm, anchor_at_app, insert_at_app, <- app_assoc, length_snoc. reflexivity.
Qed.

(* the invariant of pass 2: the array is done ++ rest, the second list is done ++ todo (so the first
   |done| positions are final), the instances still to come that exist in the first tree are exactly
   the rest of the array *)
Definition inv2 (l1 done todo rest : list N) : Prop :=
  NoDup (done ++ rest) /\ NoDup (done ++ todo) /\
  (forall y, In y todo -> In y l1 -> In y rest) /\
  (forall y, In y rest -> In y todo /\ In y l1).

Lemma inv2_nil l1 done rest : inv2 l1 done [] rest -> rest = [].
Proof.
  intros [_ [_ [_ H]]]. destruct rest as [|z r]; [reflexivity|].
  destruct (H z (or_introl eq_refl)) as [[] _].
Qed.

Lemma NoDup_move_front (a r1 r2 : list N) y :
  NoDup (a ++ r1 ++ y :: r2) -> NoDup ((a ++ [y]) ++ r1 ++ r2).
Proof.
  rewrite <- app_assoc. cbn [app]. rewrite !NoDup_app_iff, !NoDup_cons_iff, !NoDup_app_iff.
  intros [Ha [[H1 [[Hy H2] H12]] Hd]]. split; [exact Ha|]. split.
  - split.
    + rewrite in_app_iff. intros [H|H]; [|exact (Hy H)]. apply (H12 y H). left. reflexivity.
    + split; [exact H1|]. split; [exact H2|]. intros x Hx Hx2. apply (H12 x Hx). right. exact Hx2.
  - intros x Hx. specialize (Hd x Hx). cbn [In]. rewrite !in_app_iff in *. cbn [In] in Hd. tauto.
Qed.

Lemma inv2_step l1 done y t rest :
  inv2 l1 done (y :: t) rest ->
  ~ In y done /\
  ((mem y l1 = false /\ inv2 l1 (done ++ [y]) t rest)
   \/ (mem y l1 = true /\ exists rest', rest = y :: rest' /\ inv2 l1 (done ++ [y]) t rest')
   \/ (mem y l1 = true /\ exists r1 r2, rest = r1 ++ y :: r2 /\ r1 <> [] /\ ~ In y r1 /\
         inv2 l1 (done ++ [y]) t (r1 ++ r2))).
Proof.
  intros [Hi [H2 [H3 H4]]].
  assert (H2' := H2). apply NoDup_app_iff in H2'. destruct H2' as [Hdd [Hdt Hdisj]].
  apply NoDup_cons_iff in Hdt. destruct Hdt as [Hyt Hdt].
  assert (Hyd : ~ In y done). { intro H. apply (Hdisj y H). left. reflexivity. }
  split; [exact Hyd|].
  assert (H2n : NoDup ((done ++ [y]) ++ t)). { rewrite <- app_assoc. exact H2. }
  destruct (mem y l1) eqn:Em.
  - right. apply mem_In in Em.
    destruct (In_split_first y rest (H3 y (or_introl eq_refl) Em)) as [r1 [r2 [-> Hy1]]].
    destruct r1 as [|h r1'].
    + left. split; [reflexivity|]. exists r2. split; [reflexivity|]. cbn [app] in *.
      assert (Hy2 : ~ In y r2).
      { apply NoDup_app_iff in Hi. destruct Hi as [_ [Hi _]]. apply NoDup_cons_iff in Hi. tauto. }
      split; [rewrite <- app_assoc; exact Hi|]. split; [exact H2n|]. split.
      * intros z Hz Hz1. destruct (H3 z (or_intror Hz) Hz1) as [->|H]; [contradiction|exact H].
      * intros z Hz. destruct (H4 z (or_intror Hz)) as [[->|H] H']; [contradiction|]. split; assumption.
    + right. split; [reflexivity|]. exists (h :: r1'), r2. split; [reflexivity|].
      split; [discriminate|]. split; [exact Hy1|].
      assert (Hir : NoDup ((h :: r1') ++ y :: r2)).
      { apply NoDup_app_iff in Hi. tauto. }
      assert (Hy2 : ~ In y r2).
      { apply NoDup_app_iff in Hir. destruct Hir as [_ [Hir _]]. apply NoDup_cons_iff in Hir. tauto. }
      split; [apply NoDup_move_front; exact Hi|]. split; [exact H2n|]. split.
      * intros z Hz Hz1. specialize (H3 z (or_intror Hz) Hz1).
        rewrite in_app_iff in *. cbn [In] in H3. destruct H3 as [H|[->|H]]; [left; exact H|contradiction|right; exact H].
      * intros z Hz. assert (Hz' : In z ((h :: r1') ++ y :: r2)).
        { rewrite in_app_iff in *. cbn [In]. tauto. }
        destruct (H4 z Hz') as [[->|H] H']; [|split; assumption].
        exfalso. rewrite in_app_iff in Hz. destruct Hz as [Hz|Hz]; [exact (Hy1 Hz)|exact (Hy2 Hz)].
  - left. split; [reflexivity|]. apply mem_nIn in Em.
    assert (Hyr : ~ In y rest). { intro H. apply Em. apply (H4 y H). }
    split.
    + rewrite <- app_assoc. cbn [app]. apply NoDup_app_iff in Hi. destruct Hi as [Ha [Hb Hab]].
      apply NoDup_app_iff. split; [exact Ha|]. split; [constructor; assumption|].
      intros x Hx [->|H]; [exact (Hyd Hx)|exact (Hab x Hx H)].
    + split; [exact H2n|]. split.
      * intros z Hz Hz1. apply H3; [right; exact Hz|exact Hz1].
      * intros z Hz. destruct (H4 z Hz) as [[->|H] H']; [contradiction|split; assumption].
Qed.

(* the two apply steps in terms of the split *)
Lemma apply_create_inv done rest y o :
  NoDup (done ++ rest) ->
  apply_one (mkdop OpCreate y (Some (last_opt done)) o) (done ++ rest, hd_error (done ++ rest))
  = Ok ((done ++ [y]) ++ rest, hd_error ((done ++ [y]) ++ rest)).
Proof.
  intro Hd. destruct (last_opt done) as [v|] eqn:E.
  - destruct (last_opt_In _ _ E) as [a ->]. rewrite <- !app_assoc. cbn [app].
    apply apply_create_after. rewrite <- app_assoc in Hd. cbn [app] in Hd.
    apply NoDup_app_iff in Hd. destruct Hd as [_ [_ Hd]]. intro H. apply (Hd v H). left. reflexivity.
  - apply last_opt_None in E. subst done. cbn [app]. apply apply_create_first.
Qed.

Lemma apply_move_inv done r1 r2 y o :
  NoDup (done ++ r1 ++ y :: r2) -> r1 <> [] ->
  apply_one (mkdop OpReplace y (Some (last_opt done)) o)
    (done ++ r1 ++ y :: r2, hd_error (done ++ r1 ++ y :: r2))
  = Ok ((done ++ [y]) ++ r1 ++ r2, hd_error ((done ++ [y]) ++ r1 ++ r2)).
Proof.
  intros Hd Hne. destruct (last_opt done) as [v|] eqn:E.
  - destruct (last_opt_In _ _ E) as [a ->]. rewrite <- !app_assoc. cbn [app].
    apply apply_move_after. rewrite <- app_assoc in Hd. exact Hd.
  - apply last_opt_None in E. subst done. cbn [app]. destruct r1 as [|h r1']; [congruence|].
    cbn [app hd_error]. apply apply_move_first. exact Hd.
Qed.

Lemma apply_ops_st_app a b s : apply_ops_st (a ++ b) s = bind (apply_ops_st a s) (apply_ops_st b).
Proof.
  revert s. induction a as [|o a IH]; intro s; [reflexivity|].
  cbn [app apply_ops_st]. destruct (apply_one o s) as [s'|e]; [cbn [bind]; apply IH|reflexivity].
Qed.

(* pass 2 patches the array into the second list, and every array access of
   lyd_diff_userord_attrs() is in range *)
Lemma pass2_spec l1 : forall todo done rest,
  inv2 l1 done todo rest ->
  apply_ops_st (map t_op (diff_pass2 l1 todo (done ++ rest) (length done)))
    (done ++ rest, hd_error (done ++ rest))
  = Ok (done ++ todo, hd_error (done ++ todo))
  /\ Forall tr_safe (diff_pass2 l1 todo (done ++ rest) (length done)).
Proof.
  induction todo as [|y t IH]; intros done rest Hinv.
  - apply inv2_nil in Hinv. subst rest. split; [reflexivity|constructor].
  - assert (Hnd : NoDup (done ++ rest)) by apply Hinv.
    destruct (inv2_step _ _ _ _ _ Hinv) as [Hyd [[Em Hn]|[[Em [rest' [-> Hn]]]|[Em [r1 [r2 [-> [Hne [Hy1 Hn]]]]]]]]].
    + rewrite pass2_create by exact Em. destruct (IH _ _ Hn) as [Ha Hs].
      cbn [map apply_ops_st t_op]. rewrite apply_create_inv by exact Hnd. cbn [bind].
      rewrite Ha, <- app_assoc. split; [reflexivity|].
      constructor; [|exact Hs]. unfold tr_safe. cbn [t_op d_op t_second t_count]. rewrite app_length. lia.
    + rewrite pass2_skip by exact Em. destruct (IH _ _ Hn) as [Ha Hs].
      replace (done ++ y :: rest') with ((done ++ [y]) ++ rest') by (rewrite <- app_assoc; reflexivity).
      rewrite Ha, <- app_assoc. split; [reflexivity|exact Hs].
    + rewrite pass2_move by assumption. destruct (IH _ _ Hn) as [Ha Hs].
      cbn [map apply_ops_st t_op]. rewrite apply_move_inv by assumption. cbn [bind].
      rewrite Ha, <- app_assoc. split; [reflexivity|].
      constructor; [|exact Hs]. unfold tr_safe. cbn [t_op d_op t_first t_second t_count].
      rewrite !app_length. cbn [length]. destruct r1; [congruence|]. cbn [length]. lia.
Qed.

(* ------------------------------------------------------------------------------------------- *)
(* C06                                                                                           *)
(* ------------------------------------------------------------------------------------------- *)

Lemma inv2_init l1 l2 inst :
  NoDup l2 -> NoDup inst -> (forall z, In z inst <-> In z l1 /\ In z l2) -> inv2 l1 [] l2 inst.
Proof.
  intros H2 Hi Hiff. split; [exact Hi|]. split; [exact H2|]. split.
  - intros y Hy Hy1. apply Hiff. split; assumption.
  - intros y Hy. apply Hiff in Hy. tauto.
Qed.

Lemma userord_full l1 l2 :
  NoDup l1 -> NoDup l2 ->
  apply_ops_full (userord_diff l1 l2) l1 = Ok (l2, hd_error l2) /\ Forall tr_safe (userord_trace l1 l2).
Proof.
  intros H1 H2. unfold apply_ops_full, userord_diff, userord_trace.
  destruct (diff_pass1 l1 l2 l1 O) as [ts inst] eqn:E.
  destruct (pass1_spec l2 l1 l1 O ts inst H1 (fun x H => H) H1 E) as [Ha [Hn [Hi Hs]]].
  assert (Hinv : inv2 l1 [] l2 inst).
  { apply inv2_init; [exact H2|exact Hn|]. intro z. rewrite Hi. tauto. }
  destruct (pass2_spec l1 l2 [] inst Hinv) as [Hb Hs2]. cbn [app length] in Hb, Hs2.
  split.
  - rewrite map_app, apply_ops_st_app, Ha. cbn [bind]. exact Hb.
  - apply Forall_app. split; assumption.
Qed.

Lemma userord_moves_correct l1 l2 :
  NoDup l1 -> NoDup l2 -> apply_ops (userord_diff l1 l2) l1 = Ok l2.
Proof.
  intros H1 H2. unfold apply_ops. destruct (userord_full l1 l2 H1 H2) as [-> _]. reflexivity.
Qed.

(* the returned *data is the first sibling of the result *)
Lemma userord_moves_first_sibling l1 l2 :
  NoDup l1 -> NoDup l2 -> apply_ops_full (userord_diff l1 l2) l1 = Ok (l2, hd_error l2).
Proof. intros H1 H2. apply userord_full; assumption. Qed.

Lemma userord_trace_safe l1 l2 :
  NoDup l1 -> NoDup l2 -> Forall tr_safe (userord_trace l1 l2).
Proof. intros H1 H2. apply userord_full; assumption. Qed.

(* whenever a move is generated, first_pos >= second_pos: the memmove length does not wrap *)
Lemma userord_memmove_safe l1 l2 :
  NoDup l1 -> NoDup l2 ->
  forall t, In t (userord_trace l1 l2) -> d_op (t_op t) = OpReplace -> (t_second t <= t_first t)%nat.
Proof.
  intros H1 H2 t Ht Hop. pose proof (userord_trace_safe l1 l2 H1 H2) as Hs.
  rewrite Forall_forall in Hs. specialize (Hs t Ht). unfold tr_safe in Hs. rewrite Hop in Hs. lia.
Qed.

(* diff of a list with itself: no operation (no hypothesis on duplicates needed) *)
Lemma pass1_all_mem l2 : forall l1' inst pos,
  (forall x, In x l1' -> In x l2) -> diff_pass1 l1' l2 inst pos = ([], inst).
Proof.
  induction l1' as [|x r IH]; intros inst pos H; [reflexivity|].
  cbn [diff_pass1]. assert (Hx : mem x l2 = true) by (apply mem_In; apply H; left; reflexivity).
  rewrite Hx. apply IH. intros z Hz. apply H. right. exact Hz.
Qed.

Lemma pass2_same l : forall todo done,
  (forall y, In y todo -> In y l) -> diff_pass2 l todo (done ++ todo) (length done) = [].
Proof.
  induction todo as [|y t IH]; intros done H; [reflexivity|].
  rewrite pass2_skip by (apply mem_In; apply H; left; reflexivity).
  apply IH. intros z Hz. apply H. right. exact Hz.
Qed.

Lemma userord_diff_self_empty l : userord_diff l l = [].
Proof.
  unfold userord_diff, userord_trace. rewrite pass1_all_mem by (intros x H; exact H).
  cbn [app]. pose proof (pass2_same l l [] (fun y H => H)) as E. cbn [app length] in E. rewrite E. reflexivity.
Qed.

(* ------------------------------------------------------------------------------------------- *)
(* C13: the reversed diff                                                                        *)
(* ------------------------------------------------------------------------------------------- *)

Definition is_op (k : opk) (o : dop) : bool :=
  match d_op o, k with
  | OpCreate, OpCreate | OpDelete, OpDelete | OpReplace, OpReplace => true
  | _, _ => false
  end.

(* number of diff nodes with operation k *)
Definition count_op (k : opk) (ops : list dop) : nat := length (filter (is_op k) ops).

Lemma count_op_cons k o r : count_op k (o :: r) = ((if is_op k o then 1 else 0) + count_op k r)%nat.
Proof. unfold count_op. cbn [filter]. destruct (is_op k o); reflexivity. Qed.

Lemma count_op_app k a b : count_op k (a ++ b) = (count_op k a + count_op k b)%nat.
Proof. unfold count_op. rewrite filter_app, app_length. reflexivity. Qed.

(* reverse everything, then apply everything, from a given state *)
Definition rev_app_st (ops : list dop) (s : st) : res st :=
  bind (reverse_ops ops) (fun r => apply_ops_st r s).

Lemma rev_app_st_cons o o' r s s' :
  reverse_op o = Ok o' -> apply_one o' s = Ok s' -> rev_app_st (o :: r) s = rev_app_st r s'.
Proof.
  intros Hr Ha. unfold rev_app_st. cbn [reverse_ops]. rewrite Hr. cbn [bind].
  destruct (reverse_ops r) as [r'|e]; cbn [bind]; [|reflexivity].
  cbn [apply_ops_st]. rewrite Ha. reflexivity.
Qed.

Lemma reverse_apply_rev_app_st ops l :
  reverse_apply ops l = match rev_app_st ops (l, hd_error l) with Ok (l', _) => Ok l' | Err e => Err e end.
Proof.
  unfold reverse_apply, rev_app_st, apply_ops, apply_ops_full.
  destruct (reverse_ops ops) as [r|e]; reflexivity.
Qed.

(* the operations of the two passes *)
Lemma pass1_all_delete l2 : forall l1' inst pos,
  Forall (fun t => d_op (t_op t) = OpDelete /\ d_value (t_op t) = None) (fst (diff_pass1 l1' l2 inst pos)).
Proof.
  induction l1' as [|x r IH]; intros inst pos; cbn [diff_pass1]; [constructor|].
  destruct (mem x l2); [apply IH|].
  specialize (IH (remove_at (find_pos x inst) inst) (S pos)).
  destruct (diff_pass1 r l2 (remove_at (find_pos x inst) inst) (S pos)) as [ts0 inst0].
  cbn [fst] in *. constructor; [split; reflexivity|exact IH].
Qed.

Lemma pass1_nil l2 : forall l1' inst pos,
  fst (diff_pass1 l1' l2 inst pos) = [] ->
  diff_pass1 l1' l2 inst pos = ([], inst) /\ (forall x, In x l1' -> In x l2).
Proof.
  induction l1' as [|x r IH]; intros inst pos; cbn [diff_pass1].
  - intros _. split; [reflexivity|intros x []].
  - destruct (mem x l2) eqn:Em.
    + intro H. destruct (IH _ _ H) as [H1 H2]. split; [exact H1|].
      intros z [->|Hz]; [apply mem_In; exact Em|apply H2; exact Hz].
    + destruct (diff_pass1 r l2 (remove_at (find_pos x inst) inst) (S pos)) as [ts0 inst0].
      cbn [fst]. discriminate.
Qed.

Lemma pass2_no_delete l1 : forall l2 inst pos,
  count_op OpDelete (map t_op (diff_pass2 l1 l2 inst pos)) = O.
Proof.
  induction l2 as [|y r IH]; intros inst pos; cbn [diff_pass2]; [reflexivity|].
  destruct (mem y l1).
  - destruct (match nth_error inst pos with Some z => z =? y | None => false end); [apply IH|].
    cbn [map]. rewrite count_op_cons. cbn [t_op]. unfold is_op at 1. cbn [d_op]. apply IH.
  - cbn [map]. rewrite count_op_cons. cbn [t_op]. unfold is_op at 1. cbn [d_op]. apply IH.
Qed.

(* projections / filters *)
Lemma filter_id (f : N -> bool) l : (forall z, In z l -> f z = true) -> filter f l = l.
Proof.
  induction l as [|x l IH]; intro H; [reflexivity|].
  cbn [filter]. rewrite (H x (or_introl eq_refl)), IH; [reflexivity|].
  intros z Hz. apply H. right. exact Hz.
Qed.

Lemma filter_remove1 (g g' : N -> bool) y l :
  NoDup l -> g' y = false -> (forall z, z <> y -> g z = g' z) -> filter g (remove1 y l) = filter g' l.
Proof.
  intros Hd Hy Hext. induction l as [|x l IH]; [reflexivity|].
  apply NoDup_cons_iff in Hd. destruct Hd as [Hx Hd].
  cbn [remove1 filter]. destruct (x =? y) eqn:E.
  - apply N.eqb_eq in E. subst x. rewrite Hy. apply filter_ext_in.
    intros z Hz. apply Hext. intros ->. exact (Hx Hz).
  - apply N.eqb_neq in E. cbn [filter]. rewrite (Hext x E), (IH Hd). reflexivity.
Qed.

Lemma app_split_unique (o : N) a b c d :
  a ++ o :: b = c ++ o :: d -> ~ In o a -> ~ In o c -> a = c /\ b = d.
Proof.
  revert c. induction a as [|x a IH]; intros c E Ha Hc.
  - destruct c as [|z c]; cbn [app] in E.
    + injection E as E. split; [reflexivity|exact E].
    + injection E as E1 E2. exfalso. apply Hc. left. symmetry. exact E1.
  - destruct c as [|z c]; cbn [app] in E.
    + injection E as E1 E2. exfalso. apply Ha. left. exact E1.
    + injection E as E1 E2. destruct (IH c E2) as [-> ->].
      * intro H. apply Ha. right. exact H.
      * intro H. apply Hc. right. exact H.
      * subst z. split; reflexivity.
Qed.

(* Phase 1: the remaining part of the forward diff contains no move. Its reversal only deletes the
   created instances; the pointer (an instance of the first list) is never deleted. *)
Lemma rev_phase1 l1 : forall todo done rest R,
  inv2 l1 done todo rest ->
  count_op OpReplace (map t_op (diff_pass2 l1 todo (done ++ rest) (length done))) = O ->
  NoDup R -> (forall z, In z todo -> In z R) ->
  rev_app_st (map t_op (diff_pass2 l1 todo (done ++ rest) (length done))) (R, hd_error R)
  = Ok (filter (fun z => mem z l1 || negb (mem z todo)) R,
        hd_error (filter (fun z => mem z l1 || negb (mem z todo)) R))
  /\ filter (fun z => mem z l1) todo = rest.
Proof.
  induction todo as [|y t IH]; intros done rest R Hinv Hc HdR Hsub.
  - apply inv2_nil in Hinv. subst rest. split; [|reflexivity].
    cbn [diff_pass2 map]. unfold rev_app_st. cbn [reverse_ops bind apply_ops_st].
    rewrite filter_id; [reflexivity|]. intros z _. cbn [mem existsb negb]. apply orb_true_r.
  - assert (Hyt : ~ In y t).
    { destruct Hinv as [_ [H2 _]]. apply NoDup_app_iff in H2. destruct H2 as [_ [H2 _]].
      apply NoDup_cons_iff in H2. tauto. }
    destruct (inv2_step _ _ _ _ _ Hinv) as [Hyd [[Em Hn]|[[Em [rest' [-> Hn]]]|[Em [r1 [r2 [-> [Hne [Hy1 Hn]]]]]]]]].
    + (* create -> delete *)
      rewrite pass2_create in * by exact Em. cbn [map t_op] in *.
      rewrite count_op_cons in Hc. unfold is_op at 1 in Hc. cbn [d_op] in Hc. cbn [Nat.add] in Hc.
      assert (HyR : In y R) by (apply Hsub; left; reflexivity).
      erewrite rev_app_st_cons.
      2:{ unfold reverse_op. cbn [d_op d_x d_value d_orig]. reflexivity. }
      2:{ apply apply_delete_hd. exact HyR. }
      destruct (NoDup_remove1 y R HdR) as [HdR' _].
      destruct (IH (done ++ [y]) rest (remove1 y R) Hn Hc HdR') as [Ha Hp].
      { intros z Hz. apply In_remove1_neq; [intros ->; exact (Hyt Hz)|]. apply Hsub. right. exact Hz. }
      rewrite Ha. split.
      * assert (Hf : filter (fun z => mem z l1 || negb (mem z t)) (remove1 y R)
                     = filter (fun z => mem z l1 || negb (mem z (y :: t))) R).
        { apply filter_remove1; [exact HdR| |].
          -- rewrite Em. cbn [mem existsb]. rewrite N.eqb_refl. reflexivity.
          -- intros z Hz. cbn [mem existsb]. apply N.eqb_neq in Hz. rewrite Hz. reflexivity. }
        rewrite Hf. reflexivity.
      * cbn [filter]. rewrite Em. exact Hp.
    + (* unchanged instance *)
      rewrite pass2_skip in * by exact Em.
      destruct (IH (done ++ [y]) rest' R Hn Hc HdR) as [Ha Hp].
      { intros z Hz. apply Hsub. right. exact Hz. }
      rewrite Ha. split.
      * assert (Hf : filter (fun z => mem z l1 || negb (mem z t)) R
                     = filter (fun z => mem z l1 || negb (mem z (y :: t))) R).
        { apply filter_ext. intro z. cbn [mem existsb].
          destruct (z =? y) eqn:E; [|reflexivity]. apply N.eqb_eq in E. subst z. rewrite Em. reflexivity. }
        rewrite Hf. reflexivity.
      * cbn [filter]. rewrite Em, Hp. reflexivity.
    + (* a move: excluded *)
      rewrite pass2_move in Hc by assumption. cbn [map t_op] in Hc.
      rewrite count_op_cons in Hc. unfold is_op at 1 in Hc. cbn [d_op] in Hc. discriminate Hc.
Qed.

(* the reversed move: the instance goes back behind its original predecessor o, which lies further
   down the list; when the moved instance was the first sibling the pointer becomes the new first
   sibling (/repo commit a54f28a; it used to be set to o) *)
Lemma apply_move_back y o m a t1 t2 :
  NoDup (a ++ y :: t1 ++ o :: t2) ->
  apply_one (mkdop OpReplace y (Some (Some o)) m)
    (a ++ y :: t1 ++ o :: t2, hd_error (a ++ y :: t1 ++ o :: t2))
  = Ok (a ++ t1 ++ o :: y :: t2, hd_error (a ++ t1 ++ o :: y :: t2)).
Proof.
  intro Hd. unfold apply_one. cbn [d_op d_x d_value]. unfold st_insert.
  assert (Hy : mem y (a ++ y :: t1 ++ o :: t2) = true).
  { apply mem_In. rewrite in_app_iff. right. left. reflexivity. }
  assert (Ho : mem o (a ++ y :: t1 ++ o :: t2) = true).
  { apply mem_In. rewrite in_app_iff. right. right. rewrite in_app_iff. right. left. reflexivity. }
  apply NoDup_app_iff in Hd. destruct Hd as [Ha [Hb Hab]].
  apply NoDup_cons_iff in Hb. destruct Hb as [Hyn Hb].
  apply NoDup_app_iff in Hb. destruct Hb as [H1 [H2 H12]].
  apply NoDup_cons_iff in H2. destruct H2 as [Hon H2].
  assert (Hoy : o <> y).
  { intros ->. apply Hyn. rewrite in_app_iff. right. left. reflexivity. }
  assert (Hya : ~ In y a). { intro H. apply (Hab y H). left. reflexivity. }
  assert (Hoa : ~ In o a).
  { intro H. apply (Hab o H). right. rewrite in_app_iff. right. left. reflexivity. }
  assert (Ho1 : ~ In o t1). { intro H. apply (H12 o H). left. reflexivity. }
  rewrite Hy. cbn [negb].
  destruct (hd_error (a ++ y :: t1 ++ o :: t2)) as [fv|] eqn:Eh; [|destruct a; discriminate Eh].
  rewrite Ho. cbn [negb andb].
  destruct (o =? y) eqn:E; [apply N.eqb_eq in E; congruence|].
  rewrite remove1_app by exact Hya.
  rewrite app_assoc, insert_after_app.
  2:{ rewrite in_app_iff. intros [H|H]; [exact (Hoa H)|exact (Ho1 H)]. }
  rewrite <- app_assoc.
  destruct a as [|a0 a']; cbn [app hd_error] in Eh; injection Eh as <-.
  - rewrite N.eqb_refl. reflexivity.
  - destruct (a0 =? y) eqn:E0.
    + apply N.eqb_eq in E0. exfalso. apply Hya. left. exact E0.
    + reflexivity.
Qed.

Lemma NoDup_filter_app (f : N -> bool) a b : NoDup (a ++ b) -> NoDup (filter f a ++ b).
Proof.
  rewrite !NoDup_app_iff. intros [Ha [Hb Hab]]. split; [apply NoDup_filter; exact Ha|].
  split; [exact Hb|]. intros x Hx. apply filter_In in Hx. apply Hab. tauto.
Qed.

Lemma NoDup_move_back (a t1 t2 : list N) y o :
  NoDup (a ++ y :: t1 ++ o :: t2) -> NoDup (a ++ t1 ++ o :: y :: t2).
Proof.
  rewrite !NoDup_app_iff, !NoDup_cons_iff, !NoDup_app_iff, !NoDup_cons_iff.
  intros [Ha [[Hy [H1 [[Ho H2] H12]]] Hd]].
  rewrite in_app_iff in Hy. cbn [In] in Hy.
  split; [exact Ha|]. split.
  - split; [exact H1|]. split.
    + split; [cbn [In]; intros [H|H]; [subst; tauto|exact (Ho H)]|].
      split; [tauto|exact H2].
    + intros x Hx. specialize (H12 x Hx). cbn [In] in *. intros [H|[H|H]]; subst; tauto.
  - intros x Hx. specialize (Hd x Hx). cbn [In] in *. rewrite !in_app_iff in *. cbn [In] in *. tauto.
Qed.

(* Phase 0: no move reversed so far. The state is (instances of the first list among done) ++ todo
   with an accurate pointer; at the single move phase 1 takes over. *)
Lemma rev_phase0 l1 : forall todo done rest,
  inv2 l1 done todo rest ->
  (count_op OpReplace (map t_op (diff_pass2 l1 todo (done ++ rest) (length done))) <= 1)%nat ->
  filter (fun z => mem z l1) done ++ rest = l1 ->
  rev_app_st (map t_op (diff_pass2 l1 todo (done ++ rest) (length done)))
    (filter (fun z => mem z l1) done ++ todo, hd_error (filter (fun z => mem z l1) done ++ todo))
  = Ok (l1, hd_error l1).
Proof.
  induction todo as [|y t IH]; intros done rest Hinv Hc Hl.
  - apply inv2_nil in Hinv. subst rest. rewrite app_nil_r in Hl. rewrite !app_nil_r, Hl.
    reflexivity.
  - set (P := fun z => mem z l1) in *.
    assert (H2 : NoDup (done ++ y :: t)) by apply Hinv.
    assert (Hyt : ~ In y t).
    { apply NoDup_app_iff in H2. destruct H2 as [_ [H2 _]]. apply NoDup_cons_iff in H2. tauto. }
    destruct (inv2_step _ _ _ _ _ Hinv) as [Hyd [[Em Hn]|[[Em [rest' [-> Hn]]]|[Em [r1 [r2 [-> [Hne [Hy1 Hn]]]]]]]]].
    + (* create -> delete, pointer accurate *)
      rewrite pass2_create in * by exact Em. cbn [map t_op] in *.
      rewrite count_op_cons in Hc. unfold is_op at 1 in Hc. cbn [d_op] in Hc. cbn [Nat.add] in Hc.
      assert (Hyp : ~ In y (filter P done)). { intro H. apply filter_In in H. tauto. }
      erewrite rev_app_st_cons.
      2:{ unfold reverse_op. cbn [d_op d_x d_value d_orig]. reflexivity. }
      2:{ apply apply_delete_hd. rewrite in_app_iff. right. left. reflexivity. }
      rewrite remove1_app by exact Hyp.
      specialize (IH (done ++ [y]) rest Hn Hc). fold P in IH.
      rewrite filter_app in IH. cbn [filter] in IH. unfold P at 2 4 6 in IH. rewrite Em, app_nil_r in IH.
      apply IH. exact Hl.
    + (* unchanged instance *)
      rewrite pass2_skip in * by exact Em.
      specialize (IH (done ++ [y]) rest' Hn Hc). fold P in IH.
      rewrite filter_app in IH. cbn [filter] in IH. unfold P at 2 4 6 in IH. rewrite Em in IH.
      rewrite <- (app_assoc (filter P done) [y] t), <- (app_assoc (filter P done) [y] rest') in IH.
      cbn [app] in IH. apply IH. exact Hl.
    + (* the move *)
      rewrite pass2_move in * by assumption. cbn [map t_op] in *.
      rewrite count_op_cons in Hc. unfold is_op at 1 in Hc. cbn [d_op] in Hc.
      assert (Hc0 : count_op OpReplace
                      (map t_op (diff_pass2 l1 t ((done ++ [y]) ++ r1 ++ r2) (length (done ++ [y])))) = O) by lia.
      destruct (last_opt r1) as [o|] eqn:Eo; [|apply last_opt_None in Eo; congruence].
      destruct (last_opt_In _ _ Eo) as [r1' ->].
      assert (Hrest : NoDup ((r1' ++ [o]) ++ y :: r2)).
      { destruct Hinv as [Hi _]. apply NoDup_app_iff in Hi. tauto. }
      assert (Hor : In o ((r1' ++ [o]) ++ y :: r2)).
      { rewrite !in_app_iff. left. right. left. reflexivity. }
      assert (Hoy : o <> y). { intros ->. apply Hy1. rewrite in_app_iff. right. left. reflexivity. }
      assert (Ho1 : In o l1) by (apply Hinv; exact Hor).
      assert (Hot : In o t).
      { destruct Hinv as [_ [_ [_ H4]]]. destruct (H4 o Hor) as [[H|H] _]; [congruence|exact H]. }
      destruct (In_split_first o t Hot) as [t1 [t2 [-> Hot1]]].
      assert (HdR : NoDup (filter P done ++ y :: t1 ++ o :: t2)) by (apply NoDup_filter_app; exact H2).
      pose proof (apply_move_back y o (Some (last_opt done)) _ _ _ HdR) as Hap.
      erewrite rev_app_st_cons.
      2:{ unfold reverse_op. cbn [d_op d_x d_value d_orig]. reflexivity. }
      2:{ exact Hap. }
      destruct (rev_phase1 l1 (t1 ++ o :: t2) (done ++ [y]) ((r1' ++ [o]) ++ r2)
                  (filter P done ++ t1 ++ o :: y :: t2)) as [Ha Hp].
      { exact Hn. }
      { exact Hc0. }
      { apply NoDup_move_back. exact HdR. }
      { intros z Hz. rewrite !in_app_iff in *. cbn [In] in *. tauto. }
      rewrite Ha.
      match goal with |- Ok (?A, _) = Ok (l1, _) => cut (A = l1); [intro HA; rewrite HA; reflexivity|] end.
      (* the filter keeps exactly the instances of the first list *)
      rewrite (filter_ext_in _ P).
      2:{ intros z Hz. unfold P. rewrite !in_app_iff in Hz. cbn [In] in Hz.
          destruct Hz as [Hz|[Hz|[Hz|[Hz|Hz]]]].
          - apply filter_In in Hz. destruct Hz as [_ Hz]. unfold P in Hz. rewrite Hz. reflexivity.
          - assert (Hm : mem z (t1 ++ o :: t2) = true) by (apply mem_In; rewrite in_app_iff; tauto).
            rewrite Hm. apply orb_false_r.
          - subst z. assert (Hm : mem o (t1 ++ o :: t2) = true) by (apply mem_In; rewrite in_app_iff; cbn [In]; tauto).
            rewrite Hm. apply orb_false_r.
          - subst z. rewrite Em. reflexivity.
          - assert (Hm : mem z (t1 ++ o :: t2) = true) by (apply mem_In; rewrite in_app_iff; cbn [In]; tauto).
            rewrite Hm. apply orb_false_r. }
      rewrite !filter_app. cbn [filter]. fold (P o). fold (P y).
      assert (Po : P o = true) by (apply mem_In; exact Ho1).
      assert (Py : P y = true) by exact Em.
      rewrite Po, Py.
      rewrite (filter_id P (filter P done)) by (intros z Hz; apply filter_In in Hz; apply Hz).
      (* split the projection of todo at o *)
      fold P in Hp. rewrite filter_app in Hp. cbn [filter] in Hp. rewrite Po in Hp.
      rewrite <- (app_assoc r1' [o] r2) in Hp. cbn [app] in Hp.
      destruct (app_split_unique o _ _ _ _ Hp) as [E1 E2].
      { intro H. apply filter_In in H. tauto. }
      { intro H. apply NoDup_app_iff in Hrest. destruct Hrest as [Hr _].
        apply NoDup_app_iff in Hr. destruct Hr as [_ [_ Hr]]. apply (Hr o H). left. reflexivity. }
      rewrite E1, E2. rewrite <- Hl, <- !app_assoc. reflexivity.
Qed.

(* the operations of pass 1 come first and are all deletes; pass 2 produces none *)
Lemma no_delete_pass1_nil l1 l2 ts inst :
  diff_pass1 l1 l2 l1 O = (ts, inst) ->
  count_op OpDelete (map t_op (ts ++ diff_pass2 l1 l2 inst O)) = O -> ts = [].
Proof.
  intros E Hc. pose proof (pass1_all_delete l2 l1 l1 O) as Hall. rewrite E in Hall. cbn [fst] in Hall.
  destruct ts as [|t ts]; [reflexivity|]. exfalso.
  apply Forall_inv in Hall. destruct Hall as [Hop _].
  cbn [app map] in Hc. rewrite count_op_cons in Hc. unfold is_op at 1 in Hc. rewrite Hop in Hc. discriminate Hc.
Qed.

(* C13, the provable fragment: no delete and at most one move (any number of creates) *)
Lemma reverse_apply_userord_partial l1 l2 :
  NoDup l1 -> NoDup l2 ->
  count_op OpDelete (userord_diff l1 l2) = O ->
  (count_op OpReplace (userord_diff l1 l2) <= 1)%nat ->
  reverse_apply (userord_diff l1 l2) l2 = Ok l1.
Proof.
  intros H1 H2 Hd Hm. rewrite reverse_apply_rev_app_st.
  unfold userord_diff, userord_trace in *.
  destruct (diff_pass1 l1 l2 l1 O) as [ts inst] eqn:E.
  pose proof (no_delete_pass1_nil l1 l2 ts inst E Hd) as ->.
  destruct (pass1_nil l2 l1 l1 O) as [E' Hsub]; [rewrite E; reflexivity|].
  rewrite E in E'. injection E' as ->. cbn [app] in *.
  assert (Hinv : inv2 l1 [] l2 l1).
  { apply inv2_init; [exact H2|exact H1|]. intro z. split; [intro H; split; [exact H|apply Hsub; exact H]|tauto]. }
  pose proof (rev_phase0 l1 l2 [] l1 Hinv Hm eq_refl) as Hr.
  cbn [app length filter] in Hr. rewrite Hr. reflexivity.
Qed.

(* the same fragment with the pointer: *data is the first sibling of the restored list (since /repo
   commit a54f28a; before, a moved first sibling left the pointer at its anchor) *)
Lemma reverse_apply_full_userord_partial l1 l2 :
  NoDup l1 -> NoDup l2 ->
  count_op OpDelete (userord_diff l1 l2) = O ->
  (count_op OpReplace (userord_diff l1 l2) <= 1)%nat ->
  reverse_apply_full (userord_diff l1 l2) l2 = Ok (l1, hd_error l1).
Proof.
  intros H1 H2 Hd Hm.
  assert (E0 : reverse_apply_full (userord_diff l1 l2) l2 = rev_app_st (userord_diff l1 l2) (l2, hd_error l2)).
  { unfold reverse_apply_full, rev_app_st, apply_ops_full. reflexivity. }
  rewrite E0. unfold userord_diff, userord_trace in *.
  destruct (diff_pass1 l1 l2 l1 O) as [ts inst] eqn:E.
  pose proof (no_delete_pass1_nil l1 l2 ts inst E Hd) as ->.
  destruct (pass1_nil l2 l1 l1 O) as [E' Hsub]; [rewrite E; reflexivity|].
  rewrite E in E'. injection E' as ->. cbn [app] in *.
  assert (Hinv : inv2 l1 [] l2 l1).
  { apply inv2_init; [exact H2|exact H1|]. intro z. split; [intro H; split; [exact H|apply Hsub; exact H]|tauto]. }
  pose proof (rev_phase0 l1 l2 [] l1 Hinv Hm eq_refl) as Hr.
  cbn [app length filter] in Hr. exact Hr.
Qed.

(* the complement: a diff with a delete can never be reversed - the reversed delete is a create
   without yang:value, and it comes first *)
Lemma reverse_apply_userord_delete_fails l1 l2 :
  (count_op OpDelete (userord_diff l1 l2) > 0)%nat ->
  exists e, reverse_apply (userord_diff l1 l2) l2 = Err e.
Proof.
  intro Hc. unfold userord_diff, userord_trace in *.
  pose proof (pass1_all_delete l2 l1 l1 O) as Hall.
  destruct (diff_pass1 l1 l2 l1 O) as [ts inst]. cbn [fst] in Hall.
  destruct ts as [|t ts].
  - cbn [app] in Hc. rewrite pass2_no_delete in Hc. lia.
  - apply Forall_inv in Hall. destruct Hall as [Hop Hv].
    cbn [app map]. unfold reverse_apply. cbn [reverse_ops]. unfold reverse_op. rewrite Hop. cbn [bind].
    destruct (reverse_ops (map t_op (ts ++ diff_pass2 l1 l2 inst O))) as [r|e]; cbn [bind]; [|exists e; reflexivity].
    unfold apply_ops, apply_ops_full. cbn [apply_ops_st]. unfold apply_one at 1. cbn [d_op d_value].
    rewrite Hv. cbn [bind]. exists 1. reflexivity.
Qed.

(* ------------------------------------------------------------------------------------------- *)
(* C13: what the faithful model refutes                                                          *)
(* ------------------------------------------------------------------------------------------- *)

Lemma NoDup_1234 : NoDup [1; 2; 3; 4].
Proof. repeat (constructor; [cbn [In]; intuition discriminate|]). constructor. Qed.
Lemma NoDup_4321 : NoDup [4; 3; 2; 1].
Proof. repeat (constructor; [cbn [In]; intuition discriminate|]). constructor. Qed.
Lemma NoDup_123 : NoDup [1; 2; 3].
Proof. repeat (constructor; [cbn [In]; intuition discriminate|]). constructor. Qed.
Lemma NoDup_312 : NoDup [3; 1; 2].
Proof. repeat (constructor; [cbn [In]; intuition discriminate|]). constructor. Qed.
Lemma NoDup_3 : NoDup [3].
Proof. repeat (constructor; [cbn [In]; intuition discriminate|]). constructor. Qed.

(* three moves: the anchors are swapped per node but the moves are replayed in forward order *)
Lemma reverse_wrong_order :
  reverse_apply (userord_diff [1; 2; 3; 4] [4; 3; 2; 1]) [4; 3; 2; 1] = Ok [4; 3; 1; 2].
Proof. vm_compute. reflexivity. Qed.

(* a delete: the reversed node is a create without yang:value *)
Lemma reverse_missing_anchor : reverse_apply (userord_diff [1; 2; 3] [3]) [3] = Err 1.
Proof. vm_compute. reflexivity. Qed.

(* a single move of the instance that becomes first: content and order are restored and the
   returned *data points at the first sibling (regression of /repo commit a54f28a: the pointer
   used to be left at 2) *)
Lemma reverse_pointer_regression :
  reverse_apply_full (userord_diff [1; 2; 3] [3; 1; 2]) [3; 1; 2] = Ok ([1; 2; 3], Some 1).
Proof. vm_compute. reflexivity. Qed.

Lemma reverse_apply_userord_refuted :
  exists l1 l2, NoDup l1 /\ NoDup l2 /\ reverse_apply (userord_diff l1 l2) l2 <> Ok l1.
Proof.
  exists [1; 2; 3; 4], [4; 3; 2; 1]. split; [exact NoDup_1234|]. split; [exact NoDup_4321|].
  rewrite reverse_wrong_order. discriminate.
Qed.

Lemma reverse_apply_userord_refuted_error :
  exists l1 l2, NoDup l1 /\ NoDup l2 /\ is_ok (reverse_apply (userord_diff l1 l2) l2) = false.
Proof.
  exists [1; 2; 3], [3]. split; [exact NoDup_123|]. split; [exact NoDup_3|].
  rewrite reverse_missing_anchor. reflexivity.
Qed.

Lemma reverse_first_sibling_example :
  exists l1 l2 l f, NoDup l1 /\ NoDup l2 /\
    count_op OpDelete (userord_diff l1 l2) = O /\ count_op OpReplace (userord_diff l1 l2) = 1%nat /\
    reverse_apply_full (userord_diff l1 l2) l2 = Ok (l, f) /\ f = hd_error l.
Proof.
  exists [1; 2; 3], [3; 1; 2], [1; 2; 3], (Some 1).
  split; [exact NoDup_123|]. split; [exact NoDup_312|]. split; [vm_compute; reflexivity|].
  split; [vm_compute; reflexivity|]. split; [exact reverse_pointer_regression|]. reflexivity.
Qed.
