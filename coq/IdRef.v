(* IdRef.v — identityref values at value level (slice types2, property C03), src/plugins_types/identityref.c:
     identityref_str2ident()       prefix = the bytes before the FIRST colon; no colon: no prefix; an EMPTY prefix (":name") is
                                   handled as no prefix (lyplg_type_identity_module(): if (prefix_len) ... else the module of
                                   the context node); identity looked up by name in the module
     identityref_check_base()      since /repo commit f805b4f: derived from ALL the bases of the type
     lyplg_type_identity_isderived()  search through the base->derived arrays
     canonical string              JSON format, module name always printed: module ":" name
     compare / sort                identity pointers equal / strcmp of the identity NAMES only
   The JSON value format is modelled (prefix = module name; no prefix = module of the leaf). identityref_check_ident (disabled
   identities, not implemented modules) and the status check are not modelled. Model only; proofs in IdRefP.v. *)
From LY Require Import Base TypesMisc.
Local Open Scope N_scope.

(* an identity: (module name, identity name) *)
Definition ident : Type := (bytes * bytes)%type.
Definition ident_eqb (a b : ident) : bool := beq_bytes (fst a) (fst b) && beq_bytes (snd a) (snd b).

(* the schema as the plugin sees it: the modules with their identities, and for every identity its base->derived array *)
Record idschema : Type := {
  ids_modules : list (bytes * list bytes);          (* module name, names of its identities *)
  ids_derived : list (ident * list ident)           (* identity, the identities directly derived from it *)
}.

Fixpoint derived_of (g : list (ident * list ident)) (b : ident) : list ident :=
  match g with
  | [] => []
  | (i, ds) :: r => if ident_eqb i b then ds else derived_of r b
  end.

(* lyplg_type_identity_isderived(base, der): LY_ARRAY_FOR(base->derived, u) { if (der == base->derived[u]) return LY_SUCCESS;
   if (!isderived(base->derived[u], der)) return LY_SUCCESS; }.  The recursion depth is bounded by the length of the longest
   derivation chain; [fuel] bounds it (out of fuel = not found). *)
Fixpoint isderived (fuel : nat) (g : list (ident * list ident)) (base der : ident) : bool :=
  match fuel with
  | O => false
  | S f => existsb (fun d => ident_eqb der d || isderived f g d der) (derived_of g base)
  end.

(* for (prefix_len = 0; prefix_len < value_len && value[prefix_len] != colon; ++prefix_len); *)
Fixpoint split_colon (s : bytes) : bytes * option bytes :=
  match s with
  | [] => ([], None)
  | c :: r => if c =? 58 then ([], Some r) else let '(p, t) := split_colon r in (c :: p, t)
  end.

Fixpoint find_module (ms : list (bytes * list bytes)) (name : bytes) : option (list bytes) :=
  match ms with
  | [] => None
  | (m, ids) :: r => if beq_bytes m name then Some ids else find_module r name
  end.

(* (prefix, identity name) of a value: no colon = no prefix *)
Definition idref_split (s : bytes) : bytes * bytes :=
  match split_colon s with (p, Some r) => (p, r) | (p, None) => ([], p) end.

(* lyplg_type_store_identityref (JSON format): [ctxmod] = module of the leaf, [bases] = type->bases.
   [all_bases] = true is the code (f805b4f); false is the earlier any-base variant, kept for the regression example. *)
Definition idref_store_gen (all_bases : bool) (fuel : nat) (sch : idschema) (ctxmod : bytes) (bases : list ident) (s : bytes)
  : res ident :=
  let pfx := fst (idref_split s) in
  let id := snd (idref_split s) in
  match id with
  | [] => Err E_VALID                                   (* Invalid empty identityref value *)
  | _ =>
      let modname := match pfx with [] => ctxmod | _ => pfx end in       (* if (prefix_len) resolve it, else the context module *)
      match find_module (ids_modules sch) modname with
      | None => Err E_VALID                             (* unable to map prefix to YANG schema *)
      | Some ids =>
          if existsb (beq_bytes id) ids then
            let i := (modname, id) in
            let f := fun b => isderived fuel (ids_derived sch) b i in
            if (if all_bases then forallb f bases else existsb f bases)
            then Ok i else Err E_VALID                  (* not derived from (all) the base(s) *)
          else Err E_VALID                              (* identity not found in module *)
      end
  end.
Definition idref_store := idref_store_gen true.
Definition idref_store_any_base := idref_store_gen false.

(* JSON format with prefix is the canonical one: asprintf("%s:%s", ident->module->name, ident->name) *)
Definition idref_canon (i : ident) : bytes := fst i ++ 58 :: snd i.
(* lyplg_type_compare_identityref: the same identity *)
Definition idref_compare (a b : ident) : bool := ident_eqb a b.
(* lyplg_type_sort_identityref: strcmp(val1->ident->name, val2->ident->name) - the module is not looked at *)
Definition idref_sort (a b : ident) : comparison := cmp_bytes (snd a) (snd b).

(* Spec: der is derived from base through a chain of n base statements (RFC 7950 7.18.2, 9.10.2) *)
Inductive derives_n (g : list (ident * list ident)) : nat -> ident -> ident -> Prop :=
| dn_direct base der : In der (derived_of g base) -> derives_n g 1 base der
| dn_step n base mid der : In mid (derived_of g base) -> derives_n g n mid der -> derives_n g (S n) base der.

(* names as the schema compiler guarantees them: identifiers - here only: not empty, no colon *)
Definition no_colon (n : bytes) : Prop := n <> [] /\ forallb (fun c => negb (c =? 58)) n = true.
