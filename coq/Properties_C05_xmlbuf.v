(* Properties_C05_xmlbuf.v - property C05 (arbitrary input never writes out of bounds), buffer arithmetic of
   lyxml_parse_value() and lyxml_parse_value_use_buf() of src/xml.c. Theorem statements only.
   Model: XmlBuf.v (sizes only: block size, bytes used, pending plain bytes; every store is recorded with the
   size of the block at that moment, every allocator call with the requested size); proofs: XmlBufP.v.

   An event list stands for a text: plain characters of 1 to 4 bytes, references storing 1 to 4 bytes, failing
   references, CDATA sections of any length, the end character, the errors. The hypothesis ev_wf says just
   that the byte counts of characters and references are 1 to 4 (ly_getutf8 / ly_pututf8); CDATA lengths
   and the order and number of events are arbitrary.

   Tie to the code (T2 component xmlbuf): the C driver calls the real lyxml_parse_value() on texts rendered
   from event lists and reports the return code, dynamic flag, value length and the sequence of malloc /
   realloc / free requests the function made (seen through a macro around the allocator names, xml.c itself
   is not edited); the model must produce the same line. The stores themselves are not observable, there
   ASan is the observer (the component also runs on the ASan build). *)
From Coq Require Import NArith List Lia.
From LY Require Import XmlBuf XmlBufP.
Import ListNotations.
Local Open Scope N_scope.

(* no overflow: for EVERY sequence of events, every store the function makes - the pending plain bytes
   copied by lyxml_parse_value_use_buf(), the bytes of a reference, the content of a CDATA section, the
   pending plain bytes and the NUL at the end - lies inside the block as allocated at that moment
   (position + count <= size), and the growth loop ends *)
Theorem C05_xmlbuf_no_overflow :
  forall evs, Forall ev_wf evs ->
    match parse_value evs with (r, ws, _) => r <> RFuel /\ Forall wr_ok ws end.
Proof. exact no_overflow. Qed.
Print Assumptions C05_xmlbuf_no_overflow.

(* exact length: a dynamic value is returned in a block of exactly length + 1 bytes (the last allocator
   call) and the stores are contiguous from position 0 to length + 1: every byte of the value and its NUL is
   written, none twice, nothing uninitialised is handed on; a value without references and CDATA is
   returned in place without any store or allocation *)
Theorem C05_xmlbuf_len_exact :
  forall evs, Forall ev_wf evs ->
    match parse_value evs with
    | (ROk true len, ws, tr) => contig 0 ws = Some (len + 1) /\ exists tr1, tr = tr1 ++ [ARealloc (len + 1)]
    | (ROk false len, ws, tr) => ws = [] /\ tr = []
    | _ => True
    end.
Proof. exact len_exact. Qed.
Print Assumptions C05_xmlbuf_len_exact.

(* no wrap of size_t: every block size and every requested size is at most the number of input bytes
   plus BUFSIZE + BUFSIZE_STEP = 152, so the unbounded numbers of the model are the size_t values of the code *)
Theorem C05_xmlbuf_size_bounded :
  forall evs, Forall ev_wf evs ->
    match parse_value evs with
    | (_, ws, tr) => (forall w, In w ws -> wr_size w <= evs_bytes evs + 152) /\
                     (forall a, In a tr -> al_size a <= evs_bytes evs + 152)
    end.
Proof. exact size_bounded. Qed.
Print Assumptions C05_xmlbuf_size_bounded.

(* no leak, no double free: for EVERY sequence of events (no hypothesis at all) the allocator calls of one
   call of lyxml_parse_value() are balanced: on error whatever was allocated is freed, exactly once; a
   dynamic value is the one block obtained from malloc(), not freed (the caller owns it); a value returned in
   place made no allocator call *)
Theorem C05_xmlbuf_no_leak :
  forall evs,
    match parse_value evs with
    | (RErr, _, tr) => mallocs tr = frees tr /\ (frees tr <= 1)%nat
    | (ROk true _, _, tr) => mallocs tr = 1%nat /\ frees tr = 0%nat
    | (ROk false _, _, tr) => tr = []
    | (RFuel, _, _) => True
    end.
Proof. exact calls_balanced. Qed.
Print Assumptions C05_xmlbuf_no_leak.

(* regression, seeded change C05-5 (a need_space above one step enlarges the block once by need_space,
   ignoring len and the pending plain bytes): the same statement is false for that variant - 200 plain bytes
   followed by a CDATA section of 129 bytes store 200 bytes into a block of 153 - while the code as it is
   passes on the same events *)
Example C05_xmlbuf_oneshot_growth_refuted :
  exists evs, Forall ev_wf evs /\
    match parse_value_oneshot evs with (_, ws, _) => ~ Forall wr_ok ws end /\
    match parse_value evs with (_, ws, _) => Forall wr_ok ws end.
Proof.
  exists oneshot_witness. destruct oneshot_overflows as (W & B & G). split; [exact W|].
  destruct (parse_value_oneshot oneshot_witness) as [[r1 ws1] tr1].
  destruct (parse_value oneshot_witness) as [[r2 ws2] tr2]. split.
  - intro F. rewrite Forall_forall in F.
    assert (forallb wr_okb ws1 = true) by (apply forallb_forall; intros w I; apply wr_okb_ok; auto). congruence.
  - rewrite forallb_forall in G. apply Forall_forall. intros w I. apply wr_okb_ok. auto.
Qed.
Print Assumptions C05_xmlbuf_oneshot_growth_refuted.

(* the hypotheses are satisfiable by a value that exercises every path: plain text, entity, 3-byte character,
   character reference of 4 bytes, a CDATA section longer than two steps, plain text again, the end *)
Example C05_xmlbuf_hypotheses_satisfiable :
  let evs := [EPlain 1; EPlain 1; ERef 1; EPlain 3; ERef 4; ECdata 300; EPlain 2; EEnd] in
  Forall ev_wf evs /\
  parse_value evs =
    (ROk true 312,
     [W 0 2 24; W 2 1 24; W 3 3 24; W 6 4 24; W 10 300 408; W 310 2 313; W 312 1 313],
     [AMalloc 24; ARealloc 152; ARealloc 280; ARealloc 408; ARealloc 313]).
Proof.
  intro evs. subst evs. split; [|vm_compute; reflexivity].
  repeat first [apply Forall_nil | apply Forall_cons; [simpl; first [lia | exact I]|]].
Qed.
