(* Properties_C17_own.v - property C17, ownership of dictionary references: theorem statements only.
   Model: Own.v - the dictionary is the finite map string -> reference count of DictP.v (to which the hash-table
   dictionary of src/dict.c is proved to refine, Properties_C17_ht.v); a value is the list of dictionary strings it owns
   plus nested values; store / dup / free / temp(orary) and the chain operations free_single / free_siblings follow the
   conventions of the type plugins and of lyd_free_meta / lyd_free_attr.  Proofs: OwnP.v.
   What this is NOT: the C functions are not derived from this model; which strings a given libyang call owns is tied
   only by the Ownership oracle (impl/t_own.c: dictionary delta, not-freed warnings, not-found errors, LSan) and by the
   T2 component own-delta, which checks on the fixed catalogue scripts that the delta the model predicts (0) is the delta
   the library shows. *)
From LY Require Import Base HashFn HashTable Dict DictP Own OwnP.
Local Open Scope N_scope.

(* (1) Balance.  For every sequence of store / dup / free / failed-validation operations - including misuse such as freeing
   a dead handle, which the model counts and otherwise ignores - no release ever finds its string missing (no count goes
   negative), the dictionary holds its initial references plus exactly one per string owned by a live value, and once every
   value has been freed it is back at its initial state. *)
Theorem C17_own_balance :
  forall d0 ops, let s := orun (mkost d0 0 0 []) ops in
    o_err s = 0 /\ (forall x, o_dict s x = d0 x + cnt x (live (o_h s))) /\
    (all_freed (o_h s) -> forall x, o_dict s x = d0 x).
Proof. exact own_balance. Qed.
Print Assumptions C17_own_balance.

(* (2) Chains of metadata / attributes.  Freeing element k of a chain leaves exactly the other n-1 elements in order and
   releases exactly the references of element k (the C17-4 class) ... *)
Theorem C17_own_free_single_exact :
  forall d e ch k v, nth_error ch k = Some v -> (forall x, cnt x (refs v) <= d x) ->
    exists d', free_single (d, e) ch k = Some (d', e, firstn k ch ++ skipn (S k) ch) /\
      (forall x, d' x + cnt x (refs v) = d x) /\
      length (firstn k ch ++ skipn (S k) ch) = (length ch - 1)%nat.
Proof. exact own_free_single_exact. Qed.
Print Assumptions C17_own_free_single_exact.

(* ... and freeing the siblings from k on keeps the first k elements and releases exactly the references of the others. *)
Theorem C17_own_free_siblings_exact :
  forall d e ch k, (forall x, cnt x (flat_map refs (skipn k ch)) <= d x) ->
    exists d', free_siblings (d, e) ch k = (d', e, firstn k ch) /\
      forall x, d' x + cnt x (flat_map refs (skipn k ch)) = d x.
Proof. exact own_free_siblings_exact. Qed.
Print Assumptions C17_own_free_siblings_exact.

(* (3) A duplicate takes one reference per owned string, nested values included (the C17-5 class). *)
Theorem C17_own_dup_takes_refs :
  forall s h v, nth_error (o_h s) h = Some (Some v) ->
    forall x, o_dict (ostep s (ODup h)) x = o_dict s x + cnt x (refs v).
Proof. exact own_dup_takes_refs. Qed.
Print Assumptions C17_own_dup_takes_refs.

(* (4) Temporaries: a value that is stored and then fails its validation leaves the dictionary as it was (the C17-3 class). *)
Theorem C17_own_temp_neutral :
  forall d0 s v, OInv d0 s ->
    o_err (ostep s (OTemp v)) = 0 /\ forall x, o_dict (ostep s (OTemp v)) x = o_dict s x.
Proof. exact own_temp_neutral. Qed.
Print Assumptions C17_own_temp_neutral.

(* (5) Update-style operations (lyd_new_path with LYD_NEW_PATH_UPDATE, lyd_change_term, lyd_change_meta, lyd_any_copy_value): a
   temporary value is built and compared with the current one.  With an equal value nothing changes - the temporary is freed
   (the C17-6 class); with another value the handle holds the new value, the old value's references are released and the
   new one's are taken.  The balance theorem (1) covers sequences containing these operations. *)
Theorem C17_own_update_exact :
  forall d0 s h v v', OInv d0 s -> nth_error (o_h s) h = Some (Some v) ->
    OInv d0 (ostep s (OUpdate h v')) /\
    (refs_eqb (refs v) (refs v') = true ->
       o_h (ostep s (OUpdate h v')) = o_h s /\ forall x, o_dict (ostep s (OUpdate h v')) x = o_dict s x) /\
    (refs_eqb (refs v) (refs v') = false ->
       o_h (ostep s (OUpdate h v')) = set_handle (o_h s) h (Some v') /\
       forall x, o_dict (ostep s (OUpdate h v')) x + cnt x (refs v) = o_dict s x + cnt x (refs v')).
Proof. exact own_update_exact. Qed.
Print Assumptions C17_own_update_exact.

(* (6) Re-resolution of a union value at validation time: the temporary made from the recorded member type leaves nothing behind
   on any path (the C17-8 class) and the value is switched to the new member as by an update. *)
Theorem C17_own_resolve_exact :
  forall d0 s h v t v', OInv d0 s -> nth_error (o_h s) h = Some (Some v) ->
    OInv d0 (ostep s (OResolve h t v')) /\
    o_h (ostep s (OResolve h t v')) = set_handle (o_h s) h (Some v') /\
    forall x, o_dict (ostep s (OResolve h t v')) x + cnt x (refs v) = o_dict s x + cnt x (refs v').
Proof. exact own_resolve_exact. Qed.
Print Assumptions C17_own_resolve_exact.

(* The prediction that the correspondence component own-delta compares with the library: for every API script projected onto
   the model (each command = a call that may hand out a new value / a call that only uses temporaries / a duplication of, an update of,
   or a re-resolution of the previous value; at the end everything the caller holds is freed) the dictionary delta is 0 and nothing was released twice. *)
Theorem C17_own_script_delta_zero : forall kinds, own_script_delta kinds = (0, 0).
Proof. exact own_script_delta_zero. Qed.
Print Assumptions C17_own_script_delta_zero.

(* acquire / release are the insert and remove steps of the dictionary specification of DictP.v *)
Theorem C17_own_dict_is_DictP :
  (forall d s, acquire d s = snd (sstep d (DIns s))) /\
  (forall d e s, d s <> 0 -> release (d, e) s = (snd (sstep d (DRem s)), e)).
Proof. split; [exact acquire_is_dict_insert|exact release_is_dict_remove]. Qed.
Print Assumptions C17_own_dict_is_DictP.

(* Regression examples (the seeded defects of these classes as variants of the operations): a duplicate that shares the zone
   string of an address without taking a reference makes two releases fail; a forgotten temporary keeps a reference with no
   value alive; a free of the first attribute that drops the rest of the chain loses two elements and their references. *)
Example C17_own_dup_shared_refuted :
  o_err (ostep (ostep (ostep_dup_shared (ostep (mkost ex_d0 0 0 []) (OStore ex_zone)) 0) (OFree 0)) (OFree 1)) = 2 /\
  o_err (ostep (ostep (ostep (ostep (mkost ex_d0 0 0 []) (OStore ex_zone)) (ODup 0)) (OFree 0)) (OFree 1)) = 0.
Proof. exact own_dup_shared_refuted. Qed.

Example C17_own_temp_leaked_refuted :
  let s := ostep_temp_leaked (mkost ex_d0 0 0 []) ex_zone in
  o_h s = [] /\ o_dict s [101; 116; 104; 48] = 1 /\ o_dict (ostep (mkost ex_d0 0 0 []) (OTemp ex_zone)) [101; 116; 104; 48] = 0.
Proof. exact own_temp_leaked_refuted. Qed.

Example C17_own_free_single_drop_tail_refuted :
  let a := Val [[97]] [] in let b := Val [[98]] [] in let c := Val [[99]] [] in
  let d := acq_all ex_d0 (flat_map refs [a; b; c]) in
  (exists d', free_single_drop_tail (d, 0) [a; b; c] 0 = Some (d', 0, []) /\ d' [98] = 1) /\
  (exists d', free_single (d, 0) [a; b; c] 0 = Some (d', 0, [b; c])).
Proof. exact own_free_single_drop_tail_refuted. Qed.

Example C17_own_update_same_leaked_refuted :
  let s1 := ostep (mkost ex_d0 0 0 []) (OStore ex_zone) in
  o_dict (ostep (ostep_update_same_leaked s1 0 ex_zone) (OFree 0)) [101; 116; 104; 48] = 1 /\
  o_dict (ostep (ostep s1 (OUpdate 0 ex_zone)) (OFree 0)) [101; 116; 104; 48] = 0.
Proof. exact own_update_same_leaked_refuted. Qed.

Example C17_own_resolve_leaked_refuted :
  let s1 := ostep (mkost ex_d0 0 0 []) (OStore (Val [[117]] [])) in
  let t := Val [[97; 58; 105; 100; 49]] [] in
  o_dict (ostep (ostep_resolve_leaked s1 0 t (Val [[115]] []) true) (OFree 0)) [97; 58; 105; 100; 49] = 1 /\
  o_dict (ostep (ostep_resolve_leaked s1 0 t (Val [[115]] []) false) (OFree 0)) [97; 58; 105; 100; 49] = 0 /\
  o_dict (ostep (ostep s1 (OResolve 0 t (Val [[115]] []))) (OFree 0)) [97; 58; 105; 100; 49] = 0.
Proof. exact own_resolve_leaked_refuted. Qed.
