(* Extract_valid.v -- extraction of the valid slice (Tree + RfcValid + ValidateImpl) to coq/model_valid.ml *)
From Coq Require Extraction ExtrOcamlBasic.
From LY Require Import Base Tree RfcValid ValidateImpl.
Extraction Language OCaml.
Extraction "model_valid.ml"
  N.add N.mul N.div N.modulo N.sub Z.add Z.mul Z.opp Z.of_N Z.abs_N Z.sub Z.ltb
  Tree.lookup Tree.sget Tree.userordered Tree.schema_okb
  RfcValid.rfc_valid RfcValid.rfc_types RfcValid.rfc_keys RfcValid.rfc_single RfcValid.rfc_keyuniq RfcValid.rfc_llval
  RfcValid.rfc_case RfcValid.rfc_mand RfcValid.rfc_mand_choice RfcValid.rfc_min RfcValid.rfc_max RfcValid.rfc_unique
  RfcValid.placed RfcValid.vschema_ok RfcValid.prune RfcValid.rules_hold RfcValid.no_empty_np
  ValidateImpl.impl_validate ValidateImpl.impl_parse_validate ValidateImpl.erase ValidateImpl.mark_new ValidateImpl.nodflt ValidateImpl.explicit ValidateImpl.fresh ValidateImpl.hist_ok ValidateImpl.impl_validate_multi ValidateImpl.idref_check ValidateImpl.class_ok ValidateImpl.all_classes
  RfcValid.cfg_view RfcValid.cfg_ready RfcValid.rfc_nostate RfcValid.rfc_valid_config
  ValidateImpl.impl_validate_config ValidateImpl.impl_parse_validate_config ValidateImpl.class_ok_config.
