(* Extract_yl.v - extraction of the yl slice (ModHash, YangLib) to model_yl.ml *)
From Coq Require Extraction ExtrOcamlBasic.
From LY Require Import Base HashFn ModHash YangLib.
Extraction Language OCaml.
Extraction "model_yl.ml"
  N.add N.mul N.div N.modulo N.sub Z.add Z.mul Z.opp Z.of_N Z.abs_N Z.sub Z.ltb
  ModHash.modhash ModHash.modhash_gen ModHash.cc_run
  YangLib.describe YangLib.rebuild YangLib.preload YangLib.set_impl_op YangLib.load_op YangLib.settle YangLib.includes_order YangLib.includes_order_gen YangLib.regroup YangLib.initial_ctx YangLib.ctx_obs.
