(* Utf8P.v — facts about the UTF-8 model proved by exhaustive computation over all code points. *)
From LY Require Import Base Utf8.
From Coq Require Import ZifyBool ZifyNat ZifyN.
Local Open Scope N_scope.

(* ---------- connection with the RFC 3629 encoder: every accepted character's standard encoding is
   lexable. The finite domain (all values below 0x110000) is swept by computation. ---------- *)
Definition enc_accepted (cp : N) : bool :=
  implb (getutf8_accepts_char cp)
        (match getutf8 (utf8_encode cp) with
         | Some (cp', u) => (cp' =? cp) && Nat.eqb u (length (utf8_encode cp))
         | None => false
         end).

Lemma enc_accepted_all : N_all_below 1114112 enc_accepted = true.
Proof. vm_cast_no_check (eq_refl true). Qed.

Lemma getutf8_encode cp :
  getutf8_accepts_char cp = true ->
  getutf8 (utf8_encode cp) = Some (cp, length (utf8_encode cp)).
Proof.
  intro H.
  assert (Hlt : cp < 1114112).
  { unfold getutf8_accepts_char, is_scalar in H. lia. }
  pose proof (N_all_below_spec _ _ enc_accepted_all cp Hlt) as E.
  unfold enc_accepted in E. rewrite H in E. cbn [implb] in E.
  destruct (getutf8 (utf8_encode cp)) as [[cp' u]|]; [|discriminate].
  apply andb_true_iff in E. destruct E as [E1 E2].
  apply N.eqb_eq in E1. apply Nat.eqb_eq in E2. subst. reflexivity.
Qed.

