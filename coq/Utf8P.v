(* Utf8P.v — facts about the UTF-8 model proved by exhaustive computation over all code points. *)
From LY Require Import Base Utf8.
From Coq Require Import ZifyBool ZifyNat ZifyN.
Local Open Scope N_scope.

(* ---------- connection with the RFC 3629 encoder: every accepted character's standard encoding is
   lexable. The finite domain (all values below 0x110000) is swept by computation. ---------- *)
Definition enc_accepted (cp : N) : bool :=
  implb (getutf8_accepts_char cp)
        (match getutf8 (utf8_encode cp) with
         | Some (cp', u) => (cp' =? cp) && Nat.eqb u (length (utf8_encode cp))
         | None => false
         end).

Lemma enc_accepted_all : N_all_below 1114112 enc_accepted = true.
Proof. vm_cast_no_check (eq_refl true). Qed.

Lemma getutf8_encode cp :
  getutf8_accepts_char cp = true ->
  getutf8 (utf8_encode cp) = Some (cp, length (utf8_encode cp)).
Proof.
  intro H.
  assert (Hlt : cp < 1114112).
  { unfold getutf8_accepts_char, is_yang_char, is_scalar in H. lia. }
  pose proof (N_all_below_spec _ _ enc_accepted_all cp Hlt) as E.
  unfold enc_accepted in E. rewrite H in E. cbn [implb] in E.
  destruct (getutf8 (utf8_encode cp)) as [[cp' u]|]; [|discriminate].
  apply andb_true_iff in E. destruct E as [E1 E2].
  apply N.eqb_eq in E1. apply Nat.eqb_eq in E2. subst. reflexivity.
Qed.


(* ... and nothing else is: ly_getutf8 reads the RFC 3629 encoding of a code point below 0x110000 exactly when
   it is a yang-char (RFC 7950 section 14); ly_checkutf8 and ly_pututf8 agree *)
Definition enc_iff (cp : N) : bool :=
  Bool.eqb (is_yang_char cp) (match getutf8 (utf8_encode cp) with Some _ => true | None => false end) &&
  Bool.eqb (is_yang_char cp) (match checkutf8 (utf8_encode cp) with Some u => Nat.eqb u (length (utf8_encode cp)) | None => false end) &&
  Bool.eqb (is_yang_char cp) (match pututf8 cp with Some b => beq_bytes b (utf8_encode cp) | None => false end).

Lemma enc_iff_all : N_all_below 1114112 enc_iff = true.
Proof. vm_cast_no_check (eq_refl true). Qed.

Lemma getutf8_encode_iff cp :
  cp < 1114112 ->
  (is_yang_char cp = true <-> exists r, getutf8 (utf8_encode cp) = Some r) /\
  (is_yang_char cp = true <-> checkutf8 (utf8_encode cp) = Some (length (utf8_encode cp))) /\
  (is_yang_char cp = true <-> pututf8 cp = Some (utf8_encode cp)).
Proof.
  intro Hlt. pose proof (N_all_below_spec _ _ enc_iff_all cp Hlt) as E. unfold enc_iff in E.
  apply andb_true_iff in E. destruct E as [E E3]. apply andb_true_iff in E. destruct E as [E1 E2].
  apply Bool.eqb_prop in E1, E2, E3. split; [|split].
  - rewrite E1. destruct (getutf8 (utf8_encode cp)) as [r|]; split; try discriminate; eauto. intros [r H]. discriminate.
  - rewrite E2. destruct (checkutf8 (utf8_encode cp)) as [u|]; split; try discriminate.
    + intro H. apply Nat.eqb_eq in H. subst. reflexivity.
    + intro H. inversion H. apply Nat.eqb_refl.
  - rewrite E3. destruct (pututf8 cp) as [b|]; split; try discriminate.
    + intro H. apply beq_bytes_eq in H. subst. reflexivity.
    + intro H. inversion H; subst. apply beq_bytes_eq. reflexivity.
Qed.
