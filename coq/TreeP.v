(* TreeP.v -- lemmas about the Tree.v foundation: decidable equality, the value order is a total preorder,
   canonb decides Canon, insert_node keeps Canon and is a permutation. *)
From Coq Require Import Permutation Sorted.
From LY Require Import Base Tree.
From Coq Require Import ZifyBool ZifyNat ZifyN.
Local Open Scope N_scope.

(* ------------------------------------------------------------------------------------------- *)
(* equality deciders                                                                             *)
(* ------------------------------------------------------------------------------------------- *)
Lemma beq_bytes_refl a : beq_bytes a a = true.
Proof. apply beq_bytes_eq. reflexivity. Qed.

Lemma beq_meta_eq a b : beq_meta a b = true <-> a = b.
Proof.
  revert b; induction a as [|[k1 v1] a IH]; destruct b as [|[k2 v2] b]; cbn [beq_meta]; split; intro H;
    try reflexivity; try discriminate.
  - apply andb_true_iff in H. destruct H as [H H3]. apply andb_true_iff in H. destruct H as [H1 H2].
    apply beq_bytes_eq in H1. apply beq_bytes_eq in H2. apply IH in H3. congruence.
  - inversion H; subst. rewrite !beq_bytes_refl. cbn [andb]. apply IH. reflexivity.
Qed.

Lemma beq_bytes_list_eq a b : beq_bytes_list a b = true <-> a = b.
Proof.
  revert b; induction a as [|x a IH]; destruct b as [|y b]; cbn [beq_bytes_list]; split; intro H;
    try reflexivity; try discriminate.
  - apply andb_true_iff in H. destruct H as [H1 H2]. apply beq_bytes_eq in H1. apply IH in H2. congruence.
  - inversion H; subst. rewrite beq_bytes_refl. cbn [andb]. apply IH. reflexivity.
Qed.

Lemma iid_eqb_eq a b : iid_eqb a b = true <-> a = b.
Proof.
  destruct a as [s|s k|s v], b as [t|t l|t w]; cbn [iid_eqb]; split; intro H; try discriminate.
  - apply N.eqb_eq in H. congruence.
  - inversion H. apply N.eqb_refl.
  - apply andb_true_iff in H. destruct H as [H1 H2]. apply N.eqb_eq in H1. apply beq_bytes_list_eq in H2. congruence.
  - inversion H; subst. rewrite N.eqb_refl. cbn [andb]. apply beq_bytes_list_eq. reflexivity.
  - apply andb_true_iff in H. destruct H as [H1 H2]. apply N.eqb_eq in H1. apply beq_bytes_eq in H2. congruence.
  - inversion H; subst. rewrite N.eqb_refl. cbn [andb]. apply beq_bytes_refl.
Qed.

Lemma iid_eqb_refl a : iid_eqb a a = true.
Proof. apply iid_eqb_eq. reflexivity. Qed.

Lemma dnode_eqb_unfold s1 v1 d1 m1 c1 s2 v2 d2 m2 c2 :
  dnode_eqb (DN s1 v1 d1 m1 c1) (DN s2 v2 d2 m2 c2) =
  ((s1 =? s2) && beq_bytes v1 v2 && Bool.eqb d1 d2 && beq_meta m1 m2 && forest_eqb c1 c2).
Proof.
  cbn [dnode_eqb]. reflexivity.
Qed.

Lemma dnode_eqb_eq a : forall b, dnode_eqb a b = true <-> a = b.
Proof.
  induction a as [s1 v1 d1 m1 c1 IH] using dnode_ind'. intros [s2 v2 d2 m2 c2].
  rewrite dnode_eqb_unfold.
  assert (HF : forall c2, forest_eqb c1 c2 = true <-> c1 = c2).
  { clear -IH. induction c1 as [|x c1 IHc]; intros [|y c2]; cbn [forest_eqb]; split; intro H;
      try reflexivity; try discriminate.
    - apply andb_true_iff in H. destruct H as [H1 H2]. inversion IH as [|? ? Hx Hr]; subst.
      apply Hx in H1. apply (IHc Hr) in H2. congruence.
    - inversion H; subst. inversion IH as [|? ? Hx Hr]; subst.
      apply andb_true_iff. split; [apply Hx; reflexivity|apply (IHc Hr); reflexivity]. }
  split; intro H.
  - repeat (apply andb_true_iff in H; destruct H as [H ?]).
    apply N.eqb_eq in H. apply beq_bytes_eq in H3. apply Bool.eqb_prop in H2. apply beq_meta_eq in H1.
    apply HF in H0. congruence.
  - inversion H; subst. rewrite N.eqb_refl, beq_bytes_refl, Bool.eqb_reflx. cbn [andb].
    apply andb_true_iff. split; [apply beq_meta_eq; reflexivity|apply HF; reflexivity].
Qed.

Lemma forest_eqb_eq a b : forest_eqb a b = true <-> a = b.
Proof.
  revert b; induction a as [|x a IH]; destruct b as [|y b]; cbn [forest_eqb]; split; intro H;
    try reflexivity; try discriminate.
  - apply andb_true_iff in H. destruct H as [H1 H2]. apply dnode_eqb_eq in H1. apply IH in H2. congruence.
  - inversion H; subst. apply andb_true_iff. split; [apply dnode_eqb_eq; reflexivity|apply IH; reflexivity].
Qed.

(* ------------------------------------------------------------------------------------------- *)
(* the comparison functions are total preorders                                                  *)
(* ------------------------------------------------------------------------------------------- *)
Record cmp_total {A} (c : A -> A -> comparison) : Prop := {
  ct_refl : forall a, c a a = Eq;
  ct_sym : forall a b, c b a = CompOpp (c a b);
  ct_eq_l : forall a b d, c a b = Eq -> c a d = c b d;
  ct_lt_trans : forall a b d, c a b = Lt -> c b d = Lt -> c a d = Lt
}.

Lemma ct_eq_r {A} (c : A -> A -> comparison) (H : cmp_total c) a b d : c a b = Eq -> c d a = c d b.
Proof.
  intro E. rewrite (ct_sym c H a d), (ct_sym c H b d). f_equal. apply (ct_eq_l c H). exact E.
Qed.

(* the relation  c a b <> Gt  is transitive *)
Lemma ct_le_trans {A} (c : A -> A -> comparison) (H : cmp_total c) a b d :
  c a b <> Gt -> c b d <> Gt -> c a d <> Gt.
Proof.
  intros H1 H2.
  destruct (c a b) eqn:E1; [| |congruence].
  - rewrite (ct_eq_l c H a b d E1). exact H2.
  - destruct (c b d) eqn:E2; [| |congruence].
    + rewrite <- (ct_eq_r c H b d a E2). rewrite E1. discriminate.
    + rewrite (ct_lt_trans c H a b d E1 E2). discriminate.
Qed.

Lemma Zcompare_total : cmp_total Z.compare.
Proof.
  constructor.
  - apply Z.compare_refl.
  - intros a b. apply Z.compare_antisym.
  - intros a b d E. apply Z.compare_eq in E. subst. reflexivity.
  - intros a b d H1 H2. rewrite Z.compare_lt_iff in *. lia.
Qed.

Lemma lex_cmp_total {A} (c : A -> A -> comparison) : cmp_total c -> cmp_total (lex_cmp c).
Proof.
  intro H. constructor.
  - induction a as [|x a IH]; cbn [lex_cmp]; [reflexivity|]. rewrite (ct_refl c H). exact IH.
  - induction a as [|x a IH]; destruct b as [|y b]; cbn [lex_cmp CompOpp]; try reflexivity.
    rewrite (ct_sym c H x y). destruct (c x y); cbn [CompOpp]; try reflexivity. apply IH.
  - induction a as [|x a IH]; destruct b as [|y b]; cbn [lex_cmp]; intros d E; try discriminate; [reflexivity|].
    destruct (c x y) eqn:Exy; try discriminate.
    destruct d as [|z d]; [reflexivity|]. cbn [lex_cmp].
    rewrite (ct_eq_l c H x y z Exy). destruct (c y z); try reflexivity. apply IH. exact E.
  - induction a as [|x a IH]; destruct b as [|y b]; cbn [lex_cmp]; intros d E1 E2; try discriminate.
    + destruct d; [discriminate|reflexivity].
    + destruct d as [|z d]; [destruct (c x y); discriminate|]. cbn [lex_cmp] in *.
      destruct (c x y) eqn:Exy; try discriminate.
      * rewrite (ct_eq_l c H x y z Exy). destruct (c y z) eqn:Eyz; try discriminate; [|reflexivity].
        apply (IH b d E1 E2).
      * destruct (c y z) eqn:Eyz; try discriminate.
        -- rewrite <- (ct_eq_r c H y z x Eyz), Exy. reflexivity.
        -- rewrite (ct_lt_trans c H x y z Exy Eyz). reflexivity.
Qed.

Lemma pullback_total {A B} (k : A -> B) (c : B -> B -> comparison) :
  cmp_total c -> cmp_total (fun a b => c (k a) (k b)).
Proof.
  intro H. constructor; intros.
  - apply (ct_refl c H).
  - apply (ct_sym c H).
  - apply (ct_eq_l c H); assumption.
  - eapply (ct_lt_trans c H); eassumption.
Qed.

Lemma lexZ_total : cmp_total lexZ.
Proof. apply lex_cmp_total, Zcompare_total. Qed.

Lemma val_cmp_total o : cmp_total (val_cmp o).
Proof. unfold val_cmp. apply (pullback_total (vkey o) lexZ), lexZ_total. Qed.

(* the order of instances of one schema node is a total preorder (reflexive, total, transitive) *)
Lemma node_cmp_total sch : cmp_total (node_cmp sch).
Proof. unfold node_cmp. apply (pullback_total (node_key sch) (lex_cmp lexZ)), lex_cmp_total, lexZ_total. Qed.

Lemma node_cmp_sym sch a b : node_cmp sch b a = CompOpp (node_cmp sch a b).
Proof. apply (ct_sym _ (node_cmp_total sch)). Qed.

(* ------------------------------------------------------------------------------------------- *)
(* Adj                                                                                           *)
(* ------------------------------------------------------------------------------------------- *)
Lemma Adj_tail {A} (R : A -> A -> Prop) a l : Adj R (a :: l) -> Adj R l.
Proof. intro H. inversion H; subst; [constructor|assumption]. Qed.

Lemma Adj_head {A} (R : A -> A -> Prop) a b l : Adj R (a :: b :: l) -> R a b.
Proof. intro H. inversion H; subst. assumption. Qed.

Lemma adjb_spec {A} (r : A -> A -> bool) (R : A -> A -> Prop) :
  (forall a b, r a b = true <-> R a b) -> forall l, adjb r l = true <-> Adj R l.
Proof.
  intros Hr. induction l as [|a l IH]; [split; [constructor|reflexivity]|].
  destruct l as [|b l]; [split; [constructor|reflexivity]|].
  cbn [adjb]. rewrite andb_true_iff, Hr. cbn [adjb] in IH. rewrite IH. split.
  - intros [H1 H2]. constructor; assumption.
  - intro H. split; [apply (Adj_head R _ _ _ H)|apply (Adj_tail R _ _ H)].
Qed.

(* with a transitive relation adjacent order is order of every pair *)
Lemma Adj_strong {A} (R : A -> A -> Prop) :
  (forall a b c, R a b -> R b c -> R a c) -> forall l, Adj R l -> StronglySorted R l.
Proof.
  intros Ht. induction l as [|a l IH]; intro H; [constructor|].
  constructor; [apply IH, (Adj_tail R _ _ H)|].
  specialize (IH (Adj_tail R _ _ H)).
  destruct l as [|b l]; [constructor|].
  pose proof (Adj_head R _ _ _ H) as Hab.
  constructor; [exact Hab|].
  inversion IH as [|? ? _ Hall]; subst.
  eapply Forall_impl; [|exact Hall]. intros c Hbc. eapply Ht; eassumption.
Qed.

(* ------------------------------------------------------------------------------------------- *)
(* canonb decides Canon                                                                          *)
(* ------------------------------------------------------------------------------------------- *)
Lemma is_gt_false c : is_gt c = false <-> c <> Gt.
Proof. destruct c; cbn; split; congruence. Qed.

Lemma sib_okb_spec sch a b : sib_okb sch a b = true <-> sib_ok sch a b.
Proof.
  unfold sib_okb, sib_ok. rewrite orb_true_iff, !andb_true_iff, N.ltb_lt, N.eqb_eq, orb_true_iff, !negb_true_iff,
    is_gt_false.
  split.
  - intros [H|[[H1 H2] H3]]; [left; exact H|right]. repeat split; try assumption.
    intro Hs. destruct H3 as [H3|H3]; [congruence|exact H3].
  - intros [H|[H1 [H2 H3]]]; [left; exact H|right]. repeat split; try assumption.
    destruct (sorted_sid sch (d_sid a)); [right; apply H3; reflexivity|left; reflexivity].
Qed.

Lemma opt_sid_eqb_eq a b : opt_sid_eqb a b = true <-> a = b.
Proof.
  destruct a, b; cbn; split; intro H; try discriminate; try reflexivity.
  - apply N.eqb_eq in H. congruence.
  - inversion H. apply N.eqb_refl.
Qed.

Lemma node_okb_spec sch p s ch : node_okb sch p s ch = true <-> node_ok sch p s ch.
Proof.
  unfold node_okb, node_ok. destruct (lookup sch s) as [i|].
  - rewrite !andb_true_iff, opt_sid_eqb_eq, forallb_forall, orb_true_iff, negb_true_iff. split.
    + intros [[H1 H2] H3]. exists i. repeat split; try assumption.
      * intros k Hk. specialize (H2 k Hk). apply existsb_exists in H2. destruct H2 as [c [Hc Hs]]. apply N.eqb_eq in Hs.
        exists c. split; assumption.
      * intro Ht. destruct H3 as [H3|H3]; [congruence|]. destruct ch; [reflexivity|discriminate].
    + intros [j [Hj [H1 [H2 H3]]]]. inversion Hj; subst j. repeat split; [assumption| |].
      * intros k Hk. destruct (H2 k Hk) as [c [Hc Hs]]. apply existsb_exists. exists c. split; [assumption|]. apply N.eqb_eq. exact Hs.
      * destruct (is_term_kind (si_kind i)); [right; rewrite (H3 eq_refl); reflexivity|left; reflexivity].
  - split; [discriminate|]. intros [j [Hj _]]. discriminate.
Qed.

Lemma CanonN_unfold sch p s v d m ch :
  CanonN sch p (DN s v d m ch) <->
  node_ok sch p s ch /\ Adj (sib_ok sch) ch /\ Forall (CanonN sch (Some s)) ch.
Proof.
  cbn [CanonN].
  assert (HF : forall l, (fix all (l : list dnode) : Prop :=
                            match l with [] => True | x :: l' => CanonN sch (Some s) x /\ all l' end) l <->
                         Forall (CanonN sch (Some s)) l).
  { induction l as [|x l IH]; [split; [constructor|trivial]|]. split.
    - intros [H1 H2]. constructor; [assumption|apply IH; assumption].
    - intro H. inversion H; subst. split; [assumption|apply IH; assumption]. }
  rewrite HF. reflexivity.
Qed.

Lemma canon_nodeb_spec sch n : forall p, canon_nodeb sch p n = true <-> CanonN sch p n.
Proof.
  induction n as [s v d m ch IH] using dnode_ind'. intro p.
  rewrite CanonN_unfold. cbn [canon_nodeb].
  rewrite !andb_true_iff, node_okb_spec, (adjb_spec _ _ (sib_okb_spec sch)), forallb_forall, Forall_forall.
  split.
  - intros [[H1 H2] H3]. repeat split; try assumption. intros x Hx.
    rewrite Forall_forall in IH. apply (IH x Hx), H3, Hx.
  - intros [H1 [H2 H3]]. repeat split; try assumption. intros x Hx.
    rewrite Forall_forall in IH. apply (IH x Hx), H3, Hx.
Qed.

Theorem canonb_spec sch p f : canonb sch p f = true <-> CanonAt sch p f.
Proof.
  unfold canonb, CanonAt.
  rewrite andb_true_iff, (adjb_spec _ _ (sib_okb_spec sch)), forallb_forall, Forall_forall.
  split; intros [H1 H2]; (split; [assumption|]); intros x Hx; apply canon_nodeb_spec, H2, Hx.
Qed.

Lemma CanonAt_nil sch p : CanonAt sch p [].
Proof. split; constructor. Qed.

Lemma CanonAt_children sch p n : CanonN sch p n -> CanonAt sch (Some (d_sid n)) (d_ch n).
Proof. destruct n as [s v d m ch]. rewrite CanonN_unfold. intros [_ [H1 H2]]. split; assumption. Qed.

Lemma CanonAt_tail sch p a f : CanonAt sch p (a :: f) -> CanonAt sch p f.
Proof.
  intros [H1 H2]. split; [apply (Adj_tail _ _ _ H1)|inversion H2; assumption].
Qed.

Lemma CanonAt_In sch p f n : CanonAt sch p f -> In n f -> CanonN sch p n.
Proof. intros [_ H] Hin. rewrite Forall_forall in H. apply H, Hin. Qed.

(* the sibling relation is transitive, so a canonical sibling list is sorted for every pair *)
Lemma sib_ok_trans sch a b c : sib_ok sch a b -> sib_ok sch b c -> sib_ok sch a c.
Proof.
  unfold sib_ok. intros [H1|[E1 [M1 S1]]] [H2|[E2 [M2 S2]]].
  - left. lia.
  - left. lia.
  - left. lia.
  - right. repeat split; [congruence|assumption|]. intro Hs.
    apply (ct_le_trans _ (node_cmp_total sch) a b c); [apply S1, Hs|apply S2; rewrite <- E1; exact Hs].
Qed.

Theorem canon_strongly_sorted sch p f : CanonAt sch p f -> StronglySorted (sib_ok sch) f.
Proof. intros [H _]. apply (Adj_strong _ (sib_ok_trans sch)), H. Qed.

(* ------------------------------------------------------------------------------------------- *)
(* insert_node                                                                                   *)
(* ------------------------------------------------------------------------------------------- *)
Theorem insert_node_perm sch f n : Permutation (n :: f) (insert_node sch f n).
Proof.
  induction f as [|b r IH]; cbn [insert_node]; [reflexivity|].
  destruct (goes_before sch n b); [reflexivity|].
  rewrite perm_swap. constructor. exact IH.
Qed.

Lemma insert_node_In sch f n x : In x (insert_node sch f n) <-> x = n \/ In x f.
Proof.
  split; intro H.
  - apply (Permutation_in _ (Permutation_sym (insert_node_perm sch f n))) in H. destruct H; [left; congruence|right; assumption].
  - apply (Permutation_in _ (insert_node_perm sch f n)). destruct H; [left; congruence|right; assumption].
Qed.

Lemma insert_node_head sch r n :
  (exists t, insert_node sch r n = n :: t) \/
  (exists b r' t, r = b :: r' /\ insert_node sch r n = b :: t /\ goes_before sch n b = false).
Proof.
  destruct r as [|b r']; cbn [insert_node]; [left; eexists; reflexivity|].
  destruct (goes_before sch n b) eqn:E; [left; eexists; reflexivity|].
  right. exists b, r', (insert_node sch r' n). repeat split. exact E.
Qed.

(* n may be inserted: it is an instance of a (leaf-)list or there is no instance of its schema node yet *)
Definition insertable (sch : schema) (f : forest) (n : dnode) : Prop :=
  multi sch (d_sid n) = true \/ forall b, In b f -> d_sid b <> d_sid n.

Lemma goes_before_sib_ok sch n b : goes_before sch n b = true -> multi sch (d_sid n) = true \/ d_sid b <> d_sid n -> sib_ok sch n b.
Proof.
  unfold goes_before, sib_ok. rewrite orb_true_iff, !andb_true_iff, N.ltb_lt, N.eqb_eq.
  intros [H|[[H1 H2] H3]] Hm; [left; exact H|right].
  destruct Hm as [Hm|Hm]; [|congruence].
  repeat split; try assumption. intros _. rewrite node_cmp_sym. destruct (node_cmp sch b n); cbn in *; congruence.
Qed.

Lemma not_goes_before_sib_ok sch n b :
  goes_before sch n b = false -> multi sch (d_sid n) = true \/ d_sid b <> d_sid n -> sib_ok sch b n.
Proof.
  unfold goes_before, sib_ok. rewrite orb_false_iff, N.ltb_ge. intros [H1 H2] Hm.
  destruct (N.eq_dec (d_sid b) (d_sid n)) as [E|E]; [right|left; lia].
  destruct Hm as [Hm|Hm]; [|congruence].
  rewrite <- E in *. rewrite N.eqb_refl in H2. cbn [andb] in H2.
  repeat split; try assumption. intro Hs. rewrite Hs in H2. cbn [andb] in H2. apply is_gt_false. exact H2.
Qed.

Lemma insert_node_adj sch f n :
  Adj (sib_ok sch) f -> insertable sch f n -> Adj (sib_ok sch) (insert_node sch f n).
Proof.
  induction f as [|b r IH]; intros HA Hi; cbn [insert_node]; [constructor|].
  assert (Hb : multi sch (d_sid n) = true \/ d_sid b <> d_sid n).
  { destruct Hi as [Hi|Hi]; [left; exact Hi|right; apply Hi; left; reflexivity]. }
  destruct (goes_before sch n b) eqn:E.
  - constructor; [apply goes_before_sib_ok; assumption|exact HA].
  - assert (Hi' : insertable sch r n).
    { destruct Hi as [Hi|Hi]; [left; exact Hi|right; intros x Hx; apply Hi; right; exact Hx]. }
    specialize (IH (Adj_tail _ _ _ HA) Hi').
    destruct (insert_node_head sch r n) as [[t Ht]|[b' [r' [t [Hr [Ht Hg]]]]]].
    + rewrite Ht in *. constructor; [apply not_goes_before_sib_ok; assumption|exact IH].
    + rewrite Ht in *. subst r. constructor; [apply (Adj_head _ _ _ _ HA)|exact IH].
Qed.

(* lyd_insert_node keeps the sibling list canonical *)
Theorem insert_node_canon sch p f n :
  CanonAt sch p f -> CanonN sch p n -> insertable sch f n -> CanonAt sch p (insert_node sch f n).
Proof.
  intros [HA HF] Hn Hi. split; [apply insert_node_adj; assumption|].
  apply Forall_forall. intros x Hx. apply insert_node_In in Hx. destruct Hx as [->|Hx]; [exact Hn|].
  rewrite Forall_forall in HF. apply HF, Hx.
Qed.

(* canonical position is unique: inserting into a canonical list a node that already heads it in order
   (used by slices that show order independence) *)
Lemma insert_node_nil sch n : insert_node sch [] n = [n].
Proof. reflexivity. Qed.

(* ------------------------------------------------------------------------------------------- *)
(* keys come first (from the schema shape)                                                        *)
(* ------------------------------------------------------------------------------------------- *)
Lemma find_sid_some f s c : find_sid f s = Some c -> In c f /\ d_sid c = s.
Proof.
  unfold find_sid. intro H. apply find_some in H. destruct H as [H1 H2]. apply N.eqb_eq in H2. split; assumption.
Qed.

Lemma find_sid_none f s : find_sid f s = None -> forall c, In c f -> d_sid c <> s.
Proof.
  unfold find_sid. intros H c Hc E. apply (find_none _ _ H) in Hc. apply N.eqb_neq in Hc. congruence.
Qed.

(* every key of a canonical list instance is present *)
Lemma canon_key_present sch p n i k :
  CanonN sch p n -> lookup sch (d_sid n) = Some i -> In k (si_keys i) -> exists c, find_sid (d_ch n) k = Some c.
Proof.
  destruct n as [s v d m ch]. rewrite CanonN_unfold. intros [[j [Hj [_ [Hk _]]]] _] Hi Hin. cbn [d_sid d_ch] in *.
  rewrite Hi in Hj. inversion Hj; subst j.
  destruct (Hk k Hin) as [c [Hc Hs]].
  destruct (find_sid ch k) as [c'|] eqn:E; [exists c'; reflexivity|].
  exfalso. apply (find_sid_none _ _ E c Hc Hs).
Qed.

(* ------------------------------------------------------------------------------------------- *)
(* instance identities, unique identities, paths (shared by the slices that address nodes)         *)
(* ------------------------------------------------------------------------------------------- *)
Definition iid_sid (i : iid) : sid := match i with IdNode s | IdKeys s _ | IdVal s _ => s end.

Lemma inst_id_sid sch n i : inst_id sch n = Some i -> iid_sid i = d_sid n.
Proof.
  unfold inst_id. destruct (dup_inst sch (d_sid n)); [discriminate|].
  destruct (kind_of sch (d_sid n)); intro H; inversion H; reflexivity.
Qed.

Lemma has_id_sid sch i x : has_id sch i x = true -> d_sid x = iid_sid i.
Proof.
  unfold has_id. destruct (inst_id sch x) as [j|] eqn:E; [|discriminate]. intro H.
  apply iid_eqb_eq in H. subst j. symmetry. apply (inst_id_sid _ _ _ E).
Qed.

Lemma inst_id_some sch n : dup_inst sch (d_sid n) = false -> exists i, inst_id sch n = Some i.
Proof.
  unfold inst_id. intros ->. destruct (kind_of sch (d_sid n)); eexists; reflexivity.
Qed.

Lemma inst_id_none sch n : dup_inst sch (d_sid n) = true <-> inst_id sch n = None.
Proof.
  unfold inst_id. destruct (dup_inst sch (d_sid n)); split; intro H; try reflexivity; try discriminate.
  destruct (kind_of sch (d_sid n)); discriminate.
Qed.

Lemma dup_inst_multi sch s : dup_inst sch s = true -> multi sch s = true.
Proof.
  unfold dup_inst, multi, kind_of. destruct (si_kind (sget sch s)); try discriminate; reflexivity.
Qed.

Lemma has_id_self sch n i : inst_id sch n = Some i -> has_id sch i n = true.
Proof. unfold has_id. intros ->. apply iid_eqb_refl. Qed.

Lemma has_id_inst sch i x : has_id sch i x = true <-> inst_id sch x = Some i.
Proof.
  unfold has_id. destruct (inst_id sch x) as [j|]; split; intro H; try discriminate.
  - apply iid_eqb_eq in H. congruence.
  - inversion H. apply iid_eqb_refl.
Qed.

Definition UniqL (sch : schema) (f : forest) : Prop :=
  forall j, (length (filter (has_id sch j) f) <= 1)%nat.

Fixpoint UniqN (sch : schema) (n : dnode) {struct n} : Prop :=
  match n with
  | DN _ _ _ _ ch =>
      UniqL sch ch /\
      (fix all (l : list dnode) : Prop := match l with [] => True | x :: l' => UniqN sch x /\ all l' end) ch
  end.

(* no two siblings with one identity, at every level (what validation guarantees) *)
Definition UniqIds (sch : schema) (f : forest) : Prop := UniqL sch f /\ Forall (UniqN sch) f.

Lemma UniqN_unfold sch n : UniqN sch n <-> UniqIds sch (d_ch n).
Proof.
  destruct n as [s v d m ch]. cbn [UniqN d_ch]. unfold UniqIds.
  assert (HF : forall l, (fix all (l : list dnode) : Prop :=
                            match l with [] => True | x :: l' => UniqN sch x /\ all l' end) l <-> Forall (UniqN sch) l).
  { induction l as [|x l IH]; [split; [constructor|trivial]|]. split.
    - intros [H1 H2]. constructor; [assumption|apply IH; assumption].
    - intro H. inversion H; subst. split; [assumption|apply IH; assumption]. }
  rewrite HF. reflexivity.
Qed.

Lemma same_inst_has_id sch n j y : inst_id sch n = Some j -> same_inst sch n y = has_id sch j y.
Proof. unfold same_inst. intros ->. reflexivity. Qed.

Lemma uniq_idsb_list_spec sch f : uniq_idsb_list sch f = true -> UniqL sch f.
Proof.
  induction f as [|n r IH]; intros H j; cbn [uniq_idsb_list filter length] in *; [lia|].
  apply andb_true_iff in H. destruct H as [H1 H2]. apply negb_true_iff in H1. specialize (IH H2 j).
  destruct (has_id sch j n) eqn:E; [|exact IH]. cbn [length].
  apply has_id_inst in E.
  assert (Hr : filter (has_id sch j) r = []).
  { destruct (filter (has_id sch j) r) as [|y l] eqn:Ef; [reflexivity|].
    assert (Hy : In y (filter (has_id sch j) r)) by (rewrite Ef; left; reflexivity).
    apply filter_In in Hy. destruct Hy as [Hy1 Hy2].
    assert (existsb (same_inst sch n) r = true); [|congruence].
    apply existsb_exists. exists y. split; [exact Hy1|]. rewrite (same_inst_has_id sch n j y E). exact Hy2. }
  rewrite Hr. cbn. lia.
Qed.

Lemma uniq_nodeb_spec sch n : uniq_nodeb sch n = true -> UniqN sch n.
Proof.
  induction n as [s v d m ch IH] using dnode_ind'. cbn [uniq_nodeb]. intro H.
  apply andb_true_iff in H. destruct H as [H1 H2]. apply UniqN_unfold. cbn [d_ch]. split.
  - apply uniq_idsb_list_spec, H1.
  - rewrite forallb_forall in H2. rewrite Forall_forall in *. intros x Hx. apply (IH x Hx), H2, Hx.
Qed.

Theorem uniq_idsb_spec sch f : uniq_idsb sch f = true -> UniqIds sch f.
Proof.
  unfold uniq_idsb. intro H. apply andb_true_iff in H. destruct H as [H1 H2]. split.
  - apply uniq_idsb_list_spec, H1.
  - rewrite forallb_forall in H2. apply Forall_forall. intros x Hx. apply uniq_nodeb_spec, H2, Hx.
Qed.

(* with unique identities the node found by identity is THE node with it *)
Lemma uniq_find sch f x j : UniqL sch f -> In x f -> has_id sch j x = true -> find_inst sch f j = Some x.
Proof.
  unfold find_inst. induction f as [|a r IH]; intros HU Hin Hx; [contradiction|]. cbn [find].
  destruct (has_id sch j a) eqn:Ea.
  - destruct Hin as [->|Hin]; [reflexivity|]. exfalso.
    specialize (HU j). cbn [filter] in HU. rewrite Ea in HU. cbn [length] in HU.
    assert (In x (filter (has_id sch j) r)) by (apply filter_In; split; assumption).
    destruct (filter (has_id sch j) r); [contradiction|cbn in HU; lia].
  - destruct Hin as [->|Hin]; [congruence|]. apply IH; [|exact Hin|exact Hx].
    intro j'. specialize (HU j'). cbn [filter] in HU. destruct (has_id sch j' a); cbn [length] in HU; lia.
Qed.

Lemma find_inst_some sch f j x : find_inst sch f j = Some x -> In x f /\ has_id sch j x = true.
Proof. unfold find_inst. intro H. apply find_some in H. exact H. Qed.

Lemma UniqL_tail sch a f : UniqL sch (a :: f) -> UniqL sch f.
Proof. intros H j. specialize (H j). cbn [filter] in H. destruct (has_id sch j a); cbn [length] in H; lia. Qed.

Lemma UniqL_head_other sch a f j : UniqL sch (a :: f) -> has_id sch j a = true -> forall y, In y f -> has_id sch j y = false.
Proof.
  intros H Ha y Hy. destruct (has_id sch j y) eqn:E; [|reflexivity]. exfalso.
  specialize (H j). cbn [filter] in H. rewrite Ha in H. cbn [length] in H.
  assert (In y (filter (has_id sch j) f)) by (apply filter_In; split; assumption).
  destruct (filter (has_id sch j) f); [contradiction|cbn in H; lia].
Qed.

Lemma lookup_path_cons sch f j q :
  lookup_path sch f (j :: q) =
  match find_inst sch f j with
  | Some x => match q with [] => Some x | _ => lookup_path sch (d_ch x) q end
  | None => None
  end.
Proof. destruct q; cbn [lookup_path]; destruct (find_inst sch f j); reflexivity. Qed.

Lemma find_insert_node sch (P : dnode -> bool) f n : P n = false -> find P (insert_node sch f n) = find P f.
Proof.
  intro Hn. induction f as [|b r IH]; cbn [insert_node find]; [rewrite Hn; reflexivity|].
  destruct (goes_before sch n b); cbn [find]; [rewrite Hn; reflexivity|]. rewrite IH. reflexivity.
Qed.

Lemma filter_insert_node_len sch (P : dnode -> bool) f n :
  length (filter P (insert_node sch f n)) = length (filter P (n :: f)).
Proof.
  induction f as [|b r IH]; cbn [insert_node]; [reflexivity|].
  destruct (goes_before sch n b); [reflexivity|].
  cbn [filter] in *. destruct (P b), (P n); cbn [length] in *; lia.
Qed.

Lemma find_inst_insert_new sch f n j :
  (forall y, In y f -> has_id sch j y = false) -> has_id sch j n = true -> find_inst sch (insert_node sch f n) j = Some n.
Proof.
  unfold find_inst. induction f as [|b r IH]; intros Hf Hn; cbn [insert_node find]; [rewrite Hn; reflexivity|].
  destruct (goes_before sch n b); cbn [find]; [rewrite Hn; reflexivity|].
  rewrite (Hf b (or_introl eq_refl)). apply IH; [|exact Hn]. intros y Hy. apply Hf. right. exact Hy.
Qed.

Lemma multi_false_dup sch k : multi sch k = false -> dup_inst sch k = false.
Proof. intro H. destruct (dup_inst sch k) eqn:E; [|reflexivity]. apply dup_inst_multi in E. congruence. Qed.

Lemma has_id_node sch k c : multi sch k = false -> has_id sch (IdNode k) c = (d_sid c =? k).
Proof.
  intro Hm. unfold has_id. destruct (d_sid c =? k) eqn:E.
  - apply N.eqb_eq in E. unfold inst_id. rewrite E, (multi_false_dup sch k Hm).
    unfold multi in Hm. destruct (kind_of sch k); try discriminate; cbn [iid_eqb]; apply N.eqb_refl.
  - destruct (inst_id sch c) as [j|] eqn:Ej; [|reflexivity].
    pose proof (inst_id_sid sch c j Ej) as Hs. apply N.eqb_neq in E.
    destruct j; cbn [iid_eqb iid_sid] in *; try reflexivity. apply N.eqb_neq. congruence.
Qed.

Lemma lookup_In (sch : schema) s i : lookup sch s = Some i -> In (s, i) sch.
Proof.
  induction sch as [|[k e] r IH]; cbn [lookup]; [discriminate|].
  destruct (k =? s) eqn:E; intro H; [apply N.eqb_eq in E; inversion H; subst; left; reflexivity|right; apply IH, H].
Qed.

Lemma schema_ok_entry sch s i :
  schema_okb sch = true -> lookup sch s = Some i ->
  (match si_kind i with KList => true | _ => match si_keys i with [] => true | _ => false end end = true) /\
  (forall k, In k (si_keys i) -> kind_of sch k = KLeaf).
Proof.
  unfold schema_okb. intros H Hl. rewrite forallb_forall in H. specialize (H _ (lookup_In sch s i Hl)). cbn in H.
  apply andb_true_iff in H. destruct H as [H _]. apply andb_true_iff in H. destruct H as [H _].
  apply andb_true_iff in H. destruct H as [H1 H2]. split; [exact H1|].
  intros k Hk. rewrite forallb_forall in H2. specialize (H2 k Hk).
  unfold kind_of, sget. destruct (lookup sch k) as [ki|]; [|discriminate].
  apply andb_true_iff in H2. destruct H2 as [_ H2]. destruct (si_kind ki); try discriminate. reflexivity.
Qed.

Lemma find_ext_eq {A} (P Q : A -> bool) l : (forall x, P x = Q x) -> find P l = find Q l.
Proof. intro H. induction l as [|a l IH]; cbn [find]; [reflexivity|]. rewrite H, IH. reflexivity. Qed.

Lemma map_eq_In {A B} (f g : A -> B) l k : map f l = map g l -> In k l -> f k = g k.
Proof.
  induction l as [|a l IH]; intros H Hk; [contradiction|]. cbn [map] in H. inversion H.
  destruct Hk as [->|Hk]; [assumption|apply IH; assumption].
Qed.

Lemma find_all_false {A} (P : A -> bool) l : (forall x, In x l -> P x = false) -> find P l = None.
Proof.
  induction l as [|a l IH]; intro H; cbn [find]; [reflexivity|].
  rewrite (H a (or_introl eq_refl)). apply IH. intros x Hx. apply H. right. exact Hx.
Qed.

Lemma filter_filter_len {A} (P Q : A -> bool) l : (length (filter P (filter Q l)) <= length (filter P l))%nat.
Proof.
  induction l as [|a l IH]; cbn [filter length]; [lia|].
  destruct (Q a); cbn [filter]; destruct (P a); cbn [length]; lia.
Qed.

Lemma insert_node_last sch P x : (forall b, In b P -> sib_ok sch b x) -> insert_node sch P x = P ++ [x].
Proof.
  induction P as [|b P IH]; intro H; cbn [insert_node app]; [reflexivity|].
  assert (Hg : goes_before sch x b = false).
  { specialize (H b (or_introl eq_refl)). unfold goes_before, sib_ok in *.
    destruct H as [H|[H1 [H2 H3]]].
    - apply orb_false_iff. split; [apply N.ltb_ge; lia|]. assert (E : (d_sid x =? d_sid b) = false) by (apply N.eqb_neq; lia).
      rewrite E. reflexivity.
    - apply orb_false_iff. split; [apply N.ltb_ge; lia|]. rewrite H1, N.eqb_refl. cbn [andb].
      destruct (sorted_sid sch (d_sid x)) eqn:Es; [|reflexivity]. cbn [andb]. apply is_gt_false. apply H3. rewrite H1. exact Es. }
  rewrite Hg, IH; [reflexivity|]. intros b' Hb'. apply H. right. exact Hb'.
Qed.

Lemma StronglySorted_app_mid {A} (R : A -> A -> Prop) P x l : StronglySorted R (P ++ x :: l) -> forall b, In b P -> R b x.
Proof.
  induction P as [|a P IH]; intros H b Hb; [contradiction|]. cbn [app] in H. inversion H as [|? ? Hs Hall]; subst.
  destruct Hb as [->|Hb]; [|apply (IH Hs b Hb)].
  rewrite Forall_forall in Hall. apply Hall. apply in_or_app. right. left. reflexivity.
Qed.

Lemma CanonN_term_nil sch p n : CanonN sch p n -> is_term sch (d_sid n) = true -> d_ch n = [].
Proof.
  destruct n as [s v d m ch]. rewrite CanonN_unfold. intros [[i [Hl [_ [_ Ht]]]] _] H. cbn [d_sid d_ch] in *.
  apply Ht. unfold is_term, kind_of, sget in H. rewrite Hl in H. exact H.
Qed.

Definition parents_ok (sch : schema) (src : dnode) : Prop :=
  forall x, In x (d_ch src) -> si_parent (sget sch (d_sid x)) = Some (d_sid src).

Lemma CanonN_parents_ok sch p src : CanonN sch p src -> parents_ok sch src.
Proof.
  destruct src as [s v d m ch]. rewrite CanonN_unfold. intros [_ [_ HF]] x Hx. cbn [d_ch d_sid] in *.
  rewrite Forall_forall in HF. specialize (HF x Hx). destruct x as [s' v' d' m' ch']. rewrite CanonN_unfold in HF.
  destruct HF as [[i [Hl [Hp _]]] _]. cbn [d_sid]. unfold sget. rewrite Hl. exact Hp.
Qed.
