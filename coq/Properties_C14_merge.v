(* Properties_C14_merge.v -- property C14 (merge and duplicate preserve content and independence), the part that is
   about VALUES: statements about Merge.merge, the transcription of lyd_merge_siblings() on the Tree.v model, tied to the
   C code by the correspondence run tools/props/comps_merge.py (MergeModel).

   Vocabulary: Canon = the canonical sibling order libyang maintains (Tree.v), UniqIds = no two siblings with one
   instance identity at any level (what validation guarantees), lookup_path = the node addressed by an instance path
   (schema node + list keys / leaf-list value per step), expl o n = n is explicit or LYD_MERGE_DEFAULTS is given.
   Domain hypotheses shared by the statements: Canon and UniqIds of both operands (valid trees; the correspondence run
   evaluates canonb / uniq_idsb on every operand it feeds) and schema_okb (only lists have keys, keys are leaves and come
   first; evaluated on every generated schema). They do not make a statement partial.
   C14_merge_contains_source is FULL (positional form: multiplicities, key-less list instances and what is below them
   included); C14_merge_contains_source_by_path is the same content addressed by instance path for the nodes that have
   one (hypothesis lookup_path sch S path = Some n), narrowed further by C14_merge_contains_leaflist_below / _top and
   C14_merge_copies_new.
   C14_merge_keeps_rest (by instance path) together with the level-wise statements covers EVERY target node: take a target
   node and its first ancestor-or-self A that is an instance of a duplicate-instance list (no instance path). If there is
   none, the node has a path: C14_merge_keeps_rest. Otherwise the parent P of A has a path (or A is top-level): if the
   source has no node at P's path, P is unchanged with everything below (C14_merge_keeps_rest on P); if it has, A is
   either matched by no source sibling and stays as it is (C14_merge_keeps_unmatched_child / _top), or a source instance
   equals it and it stays fully equal - values of all descendants - while only default flags may change
   (C14_merge_keeps_dup_below / _top, resting on MergeP.dp_stmt and the function-level level lemma MergeP.level_fn).
   No _partial theorem is left.
   C14_merge_idempotent is no longer partial: the hypothesis that excluded sources with instances of duplicate-instance
   lists is gone (positional absorbed relation MergeP.AbsN + cache invariants E1 / E2 / CI2 carried through both merges,
   and the lemma that updating an instance with a fully equal one changes only default flags).
   C14_merge_level states the level-wise structure the narrowed statements rest on.
   Independence of a duplicate from its original (no shared mutable state) is a heap property: the value model cannot
   express it (Merge.dup is the identity); it rests on the sanitizer-backed oracle alone. *)
From LY Require Import Base Tree TreeP Merge MergeP.
Local Open Scope N_scope.

(* the merged tree is canonical again: schema order, contiguous and (for system-ordered lists) sorted instances, keys
   present, recursively - whatever the options *)
Theorem C14_merge_canon : forall sch o T S,
  Canon sch T -> Canon sch S -> Canon sch (merge sch o T S).
Proof. exact merge_canon. Qed.
Print Assumptions C14_merge_canon.

(* merging valid operands does not create two siblings with one identity *)
Theorem C14_merge_uniq : forall sch o T S,
  Canon sch S -> UniqIds sch T -> UniqIds sch S -> UniqIds sch (merge sch o T S).
Proof. exact merge_uniq. Qed.
Print Assumptions C14_merge_uniq.

(* FULL containment, positional: the k-th top-level source node of a class (class = instance identity; full equality for
   duplicate-instance lists) meets the k-th node of that class in the merged tree, and that node has absorbed it
   (MergeP.AbsN). So the result has at least as many equal instances as the source; C14_absorbed_* say what absorbed
   means: same class, the source's value for every explicit term (every term with LYD_MERGE_DEFAULTS), full equality for
   instances of duplicate-instance lists, and the same again for the children - key-less list instances and everything
   below them included. *)
Theorem C14_merge_contains_source : forall sch o T S,
  Canon sch T -> Canon sch S -> UniqIds sch S ->
  forall pre1 y pre2, S = pre1 ++ y :: pre2 ->
  exists t', kth sch y (merge sch o T S) (count_match sch y pre1) = Some t' /\ match_eq sch y t' = true /\ AbsN sch o y t'.
Proof. exact merge_absorbs. Qed.
Print Assumptions C14_merge_contains_source.

Theorem C14_absorbed_children : forall sch o y t c1 z c2,
  AbsN sch o y t -> d_ch y = c1 ++ z :: c2 -> is_key sch (d_sid z) = false ->
  exists u, kth sch z (d_ch t) (count_match sch z c1) = Some u /\ match_eq sch z u = true /\ AbsN sch o z u.
Proof. exact AbsN_children. Qed.
Print Assumptions C14_absorbed_children.

Theorem C14_absorbed_term_value : forall sch o y t,
  match_eq sch y t = true -> AbsN sch o y t -> is_term sch (d_sid y) = true -> expl o y -> d_val t = d_val y.
Proof. exact AbsN_term_val. Qed.
Print Assumptions C14_absorbed_term_value.

Theorem C14_absorbed_dup_equal : forall sch y t,
  dup_inst sch (d_sid y) = true -> match_eq sch y t = true -> deq y t = true.
Proof. exact match_dup_deq. Qed.
Print Assumptions C14_absorbed_dup_equal.

(* the same content by instance path, for the nodes that have one: every explicit source node (with
   LYD_MERGE_DEFAULTS: every source node) addressed by its instance path is in the merged tree at the same path, as an
   instance of the same schema node, and - leaf, leaf-list, anydata - with the source's value. (Nodes in or below an
   instance of a duplicate-instance list have no path: for them see C14_merge_contains_source.) *)
Theorem C14_merge_contains_source_by_path : forall sch o T S path n,
  schema_okb sch = true ->
  Canon sch T -> Canon sch S -> UniqIds sch T -> UniqIds sch S ->
  lookup_path sch S path = Some n -> expl o n ->
  exists n', lookup_path sch (merge sch o T S) path = Some n' /\ d_sid n' = d_sid n /\
             (is_term sch (d_sid n) = true -> d_val n' = d_val n).
Proof. intros sch o T S path n H. exact (merge_contains_source sch o H T S path n). Qed.
Print Assumptions C14_merge_contains_source_by_path.

(* a target node whose instance path the source does not contain is in the merged tree unchanged - the whole subtree
   with values, default flags and metadata. (Nodes in or below an instance of a duplicate-instance list have no path:
   C14_merge_keeps_unmatched_child / _top and C14_merge_keeps_dup_below / _top; see the header.) *)
Theorem C14_merge_keeps_rest : forall sch o T S path n,
  Canon sch T -> Canon sch S -> UniqIds sch T -> UniqIds sch S ->
  lookup_path sch T path = Some n -> lookup_path sch S path = None ->
  lookup_path sch (merge sch o T S) path = Some n.
Proof. exact merge_keeps_rest. Qed.
Print Assumptions C14_merge_keeps_rest.

(* merging the same source again changes nothing: values, order, default flags, metadata - for every canonical source
   with unique identities, instances of duplicate-instance lists (key-less lists, config false leaf-lists with repeated
   values) included: the k-th equal source instance meets, through the lyd_dup_inst cache, the k-th equal instance of
   the result, which has absorbed it (MergeP.AbsN); updating an instance with a fully equal one changes only default
   flags (MergeP.dp_stmt), so instances stay in their class while their siblings are merged. Nothing is assumed about
   identities in the target. *)
Theorem C14_merge_idempotent : forall sch o T S,
  Canon sch T -> Canon sch S -> UniqIds sch S ->
  merge sch o (merge sch o T S) S = merge sch o T S.
Proof. exact merge_idempotent_full. Qed.
Print Assumptions C14_merge_idempotent.

(* merging into an empty target yields the source - any canonical source with unique identities, duplicate-instance
   lists included (their equal instances are appended one by one because the lyd_dup_inst entry of the copies is used
   up). The C function marks the copies LYD_NEW unless LYD_MERGE_WITH_FLAGS; that flag is not in the model. *)
Theorem C14_merge_empty : forall sch o S,
  Canon sch S -> UniqIds sch S -> merge sch o [] S = S.
Proof. exact merge_empty. Qed.
Print Assumptions C14_merge_empty.


(* ---- level-wise statements: they reach the instances of duplicate-instance lists ---------------------------------- *)
(* where target and source both have an inner node at an instance path, the merged tree has one too and its children are
   the target node's children with the source node's children (keys left out) merged in, one MergeP.MStep each *)
Theorem C14_merge_level : forall sch o T S path nT nS,
  schema_okb sch = true -> Canon sch T -> Canon sch S -> UniqIds sch T -> UniqIds sch S ->
  lookup_path sch T path = Some nT -> lookup_path sch S path = Some nS -> is_term sch (d_sid nS) = false ->
  exists nR, lookup_path sch (merge sch o T S) path = Some nR /\
             MFold (MStep sch o) (nonkeys sch (d_ch nS)) (d_ch nT) (d_ch nR).
Proof. intros sch o T S path nT nS H. exact (merge_level sch o H T S path nT nS). Qed.
Print Assumptions C14_merge_level.

(* a child t of a target node - any kind, also an instance of a key-less list or of a config false leaf-list - that no
   child of the source node at the same path matches (same identity; fully equal for duplicate-instance lists) is a
   child of the merged node, unchanged *)
Theorem C14_merge_keeps_unmatched_child : forall sch o T S path nT nS t,
  schema_okb sch = true -> Canon sch T -> Canon sch S -> UniqIds sch T -> UniqIds sch S ->
  lookup_path sch T path = Some nT -> lookup_path sch S path = Some nS -> is_term sch (d_sid nS) = false ->
  In t (d_ch nT) -> (forall z, In z (d_ch nS) -> match_eq sch z t = false) ->
  exists nR, lookup_path sch (merge sch o T S) path = Some nR /\ In t (d_ch nR).
Proof. intros sch o T S path nT nS t H. exact (merge_keeps_unmatched_child sch o H T S path nT nS t). Qed.
Print Assumptions C14_merge_keeps_unmatched_child.

Theorem C14_merge_keeps_unmatched_top : forall sch o T S t,
  Canon sch S -> In t T -> (forall z, In z S -> match_eq sch z t = false) -> In t (merge sch o T S).
Proof. exact merge_keeps_unmatched_top. Qed.
Print Assumptions C14_merge_keeps_unmatched_top.

(* every top-level target instance of a duplicate-instance list has a fully equal instance in the merged tree: it is kept
   as it is, or updated by an equal source instance, which changes only default flags *)
Theorem C14_merge_keeps_dup_top : forall sch o T S u,
  Canon sch T -> Canon sch S -> UniqIds sch S -> In u T -> dup_inst sch (d_sid u) = true ->
  exists u', In u' (merge sch o T S) /\ deq u u' = true.
Proof. exact merge_keeps_dup_top. Qed.
Print Assumptions C14_merge_keeps_dup_top.

(* ... and below a target node that the source also has at the same instance path *)
Theorem C14_merge_keeps_dup_below : forall sch o T S path nT nS u,
  schema_okb sch = true -> Canon sch T -> Canon sch S -> UniqIds sch T -> UniqIds sch S ->
  lookup_path sch T path = Some nT -> lookup_path sch S path = Some nS -> is_term sch (d_sid nS) = false ->
  In u (d_ch nT) -> dup_inst sch (d_sid u) = true ->
  exists nR u', lookup_path sch (merge sch o T S) path = Some nR /\ In u' (d_ch nR) /\ deq u u' = true.
Proof. intros sch o T S path nT nS u H. exact (merge_keeps_dup_below sch o H T S path nT nS u). Qed.
Print Assumptions C14_merge_keeps_dup_below.

(* a source inner node (container, list instance) whose instance path the target does not have is in the merged tree as
   it is: copied with its whole subtree, or part of a copied subtree *)
Theorem C14_merge_copies_new : forall sch o T S path n,
  schema_okb sch = true -> Canon sch T -> Canon sch S -> UniqIds sch T -> UniqIds sch S ->
  lookup_path sch T path = None -> lookup_path sch S path = Some n -> is_term sch (d_sid n) = false ->
  lookup_path sch (merge sch o T S) path = Some n.
Proof. intros sch o T S path n H. exact (merge_copies_new sch o H T S path n). Qed.
Print Assumptions C14_merge_copies_new.

(* every leaf-list instance below an inner source node that has an instance path (config false leaf-lists, where
   values may repeat, included) has an instance with its value below the node at that path in the merged tree - whether
   or not the target has that node *)
Theorem C14_merge_contains_leaflist_below : forall sch o T S path nS x,
  schema_okb sch = true -> Canon sch T -> Canon sch S -> UniqIds sch T -> UniqIds sch S ->
  lookup_path sch S path = Some nS -> is_term sch (d_sid nS) = false ->
  In x (d_ch nS) -> kind_of sch (d_sid x) = KLeafList ->
  exists nR x', lookup_path sch (merge sch o T S) path = Some nR /\ In x' (d_ch nR) /\
                d_sid x' = d_sid x /\ d_val x' = d_val x.
Proof. intros sch o T S path nS x H. exact (merge_contains_leaflist_below sch o H T S path nS x). Qed.
Print Assumptions C14_merge_contains_leaflist_below.

Theorem C14_merge_contains_leaflist_top : forall sch o T S x,
  Canon sch S -> In x S -> kind_of sch (d_sid x) = KLeafList ->
  exists x', In x' (merge sch o T S) /\ d_sid x' = d_sid x /\ d_val x' = d_val x.
Proof. exact merge_contains_leaflist_top. Qed.
Print Assumptions C14_merge_contains_leaflist_top.

(* the source is an input of a function: it cannot change. Trivial in the model; on the C side the correspondence run
   compares the dump of the source before and after a non-destructive merge, and both merge modes (with and without
   LYD_MERGE_DESTRUCT) against this ONE function, so "same result whether or not the source is consumed" is tied there. *)
Theorem C14_merge_source_pure : forall sch o T S, snd (merge sch o T S, S) = S.
Proof. exact merge_source_pure. Qed.
Print Assumptions C14_merge_source_pure.

(* a duplicate is equal to the original: trivial, the model of lyd_dup_siblings is the identity. It can state equality,
   not independence, and says nothing about the dup options (decided by the oracles dupmatrix / dupfamilies / originuse) *)
Theorem C14_dup_equal : forall f, dup f = f.
Proof. reflexivity. Qed.
Print Assumptions C14_dup_equal.

(* the boolean checkers the correspondence run evaluates on every generated operand establish the hypotheses *)
Theorem C14_hypotheses_checkable : forall sch f,
  canonb sch None f = true -> uniq_idsb sch f = true -> Canon sch f /\ UniqIds sch f.
Proof. intros sch f H1 H2. split; [apply canonb_spec, H1|apply uniq_idsb_spec, H2]. Qed.
Print Assumptions C14_hypotheses_checkable.

(* ---- the hypotheses are satisfiable by non-trivial trees -------------------------------------------------------- *)
(* container c { leaf a (default 5); list l { key k; leaf v; } }  leaf-list ll (strings) *)
Definition ex_sch : schema :=
  [ (0, mk_sinfo (KCont false) None [] false true [] [] false 0 None OBytes);
    (1, mk_sinfo KLeaf (Some 0) [] false true [[53]] [] false 0 None OInt);
    (2, mk_sinfo KList (Some 0) [3] false true [] [] false 0 None OBytes);
    (3, mk_sinfo KLeaf (Some 2) [] false true [] [] false 0 None OInt);
    (4, mk_sinfo KLeaf (Some 2) [] false true [] [] false 0 None OBytes);
    (5, mk_sinfo KLeafList None [] false true [] [] false 0 None OBytes) ].

Definition ex_entry (k v : bytes) : dnode := DN 2 [] false [] [DN 3 k false [] []; DN 4 v false [] []].
(* target: c { a = 5 (default), l[1]{v=x}, l[3]{v=z} }, ll = [b] *)
Definition ex_T : forest :=
  [ DN 0 [] false [] [DN 1 [53] true [] []; ex_entry [49] [120]; ex_entry [51] [122]]; DN 5 [98] false [] [] ].
(* source: c { a = 7, l[2]{v=y}, l[3]{v=w} }, ll = [a, b] *)
Definition ex_S : forest :=
  [ DN 0 [] false [] [DN 1 [55] false [] []; ex_entry [50] [121]; ex_entry [51] [119]];
    DN 5 [97] false [] []; DN 5 [98] false [] [] ].
Definition ex_o : mopts := mk_mopts false false.

Example C14_example_hypotheses :
  schema_okb ex_sch = true /\ Canon ex_sch ex_T /\ Canon ex_sch ex_S /\ UniqIds ex_sch ex_T /\ UniqIds ex_sch ex_S.
Proof.
  split; [vm_compute; reflexivity|].
  split; [apply canonb_spec; vm_compute; reflexivity|].
  split; [apply canonb_spec; vm_compute; reflexivity|].
  split; [apply uniq_idsb_spec; vm_compute; reflexivity|].
  apply uniq_idsb_spec; vm_compute; reflexivity.
Qed.

(* and the merge does what one expects there: a overwritten (explicit now), l[2] inserted in key order, l[3] updated,
   ll gets a in front of b *)
Example C14_example_merge :
  merge ex_sch ex_o ex_T ex_S =
  [ DN 0 [] false [] [DN 1 [55] false [] []; ex_entry [49] [120]; ex_entry [50] [121]; ex_entry [51] [119]];
    DN 5 [97] false [] []; DN 5 [98] false [] [] ].
Proof. vm_compute. reflexivity. Qed.

Example C14_example_path :
  lookup_path ex_sch ex_S [IdNode 0; IdKeys 2 [[51]]; IdNode 4] = Some (DN 4 [119] false [] []) /\
  lookup_path ex_sch ex_T [IdNode 0; IdKeys 2 [[49]]] = Some (ex_entry [49] [120]) /\
  lookup_path ex_sch ex_S [IdNode 0; IdKeys 2 [[49]]] = None.
Proof. vm_compute. repeat split. Qed.


(* state data: container st { config false; leaf-list sl (values may repeat); list kl { leaf x } without key } *)
Definition ex2_sch : schema :=
  [ (0, mk_sinfo (KCont false) None [] false false [] [] false 0 None OBytes);
    (1, mk_sinfo KLeafList (Some 0) [] false false [] [] false 0 None OBytes);
    (2, mk_sinfo KList (Some 0) [] false false [] [] false 0 None OBytes);
    (3, mk_sinfo KLeaf (Some 2) [] false false [] [] false 0 None OInt) ].
Definition ex2_kl (v : bytes) : dnode := DN 2 [] false [] [DN 3 v false [] []].
(* target: st { sl = a, sl = a, kl { x = 1 } }   source: st { sl = a, sl = b, kl { x = 2 } } *)
Definition ex2_T : forest := [ DN 0 [] false [] [DN 1 [97] false [] []; DN 1 [97] false [] []; ex2_kl [49]] ].
Definition ex2_S : forest := [ DN 0 [] false [] [DN 1 [97] false [] []; DN 1 [98] false [] []; ex2_kl [50]] ].

Example C14_example2_hypotheses :
  schema_okb ex2_sch = true /\ Canon ex2_sch ex2_T /\ Canon ex2_sch ex2_S /\ UniqIds ex2_sch ex2_T /\ UniqIds ex2_sch ex2_S /\
  dup_inst ex2_sch 1 = true /\ dup_inst ex2_sch 2 = true /\
  (exists nT nS, lookup_path ex2_sch ex2_T [IdNode 0] = Some nT /\ lookup_path ex2_sch ex2_S [IdNode 0] = Some nS /\
                 is_term ex2_sch (d_sid nS) = false /\ In (ex2_kl [49]) (d_ch nT) /\
                 forallb (fun z => negb (match_eq ex2_sch z (ex2_kl [49]))) (d_ch nS) = true /\
                 In (DN 1 [98] false [] []) (d_ch nS)).
Proof.
  split; [vm_compute; reflexivity|].
  split; [apply canonb_spec; vm_compute; reflexivity|].
  split; [apply canonb_spec; vm_compute; reflexivity|].
  split; [apply uniq_idsb_spec; vm_compute; reflexivity|].
  split; [apply uniq_idsb_spec; vm_compute; reflexivity|].
  split; [vm_compute; reflexivity|]. split; [vm_compute; reflexivity|].
  eexists. eexists. split; [vm_compute; reflexivity|]. split; [vm_compute; reflexivity|].
  split; [vm_compute; reflexivity|]. split; [cbn; right; right; left; reflexivity|].
  split; [vm_compute; reflexivity|]. cbn. right. left. reflexivity.
Qed.

(* the equal value a is matched once per instance (nothing appended), b and the unequal key-less list instance are
   appended after the instances of their schema nodes *)
Example C14_example2_merge :
  merge ex2_sch ex_o ex2_T ex2_S =
  [ DN 0 [] false [] [DN 1 [97] false [] []; DN 1 [97] false [] []; DN 1 [98] false [] []; ex2_kl [49]; ex2_kl [50]] ] /\
  merge ex2_sch ex_o (merge ex2_sch ex_o ex2_T ex2_S) ex2_S = merge ex2_sch ex_o ex2_T ex2_S.
Proof. vm_compute. split; reflexivity. Qed.

(* idempotence applies to sources with repeated config false leaf-list values and key-less list instances *)
Definition ex3_S : forest :=
  [ DN 0 [] false [] [DN 1 [97] false [] []; DN 1 [98] false [] []; DN 1 [97] false [] []; ex2_kl [49]; ex2_kl [49]; ex2_kl [50]] ].
Example C14_example3_idempotent :
  Canon ex2_sch ex3_S /\ UniqIds ex2_sch ex3_S /\
  merge ex2_sch ex_o ex2_T ex3_S =
  [ DN 0 [] false [] [DN 1 [97] false [] []; DN 1 [97] false [] []; DN 1 [98] false [] [];
                      ex2_kl [49]; ex2_kl [49]; ex2_kl [50]] ] /\
  merge ex2_sch ex_o (merge ex2_sch ex_o ex2_T ex3_S) ex3_S = merge ex2_sch ex_o ex2_T ex3_S.
Proof.
  split; [apply canonb_spec; vm_compute; reflexivity|].
  split; [apply uniq_idsb_spec; vm_compute; reflexivity|].
  split; [vm_compute; reflexivity|].
  apply C14_merge_idempotent.
  - apply canonb_spec; vm_compute; reflexivity.
  - apply canonb_spec; vm_compute; reflexivity.
  - apply uniq_idsb_spec; vm_compute; reflexivity.
Qed.
