(* Properties_C14_merge.v -- property C14 (merge and duplicate preserve content and independence), the part that is
   about VALUES: statements about Merge.merge, the transcription of lyd_merge_siblings() on the Tree.v model, tied to the
   C code by the correspondence run tools/props/comps_merge.py (MergeModel).

   Vocabulary: Canon = the canonical sibling order libyang maintains (Tree.v), UniqIds = no two siblings with one
   instance identity at any level (what validation guarantees), lookup_path = the node addressed by an instance path
   (schema node + list keys / leaf-list value per step), expl o n = n is explicit or LYD_MERGE_DEFAULTS is given.
   _partial: instances of duplicate-instance lists (key-less lists, config false leaf-lists) have no instance path and
   are matched by position among equal instances through the lyd_dup_inst cache; the _partial statements below do not
   speak about them (contains / keeps: they cannot be addressed; idempotent: sources that contain them are excluded).
   For those only the correspondence run and the API oracle (oracles.MergeDup) give evidence.
   Independence of a duplicate from its original (no shared mutable state) is a heap property: the value model cannot
   express it (Merge.dup is the identity); it rests on the sanitizer-backed oracle alone. *)
From LY Require Import Base Tree TreeP Merge MergeP.
Local Open Scope N_scope.

(* the merged tree is canonical again: schema order, contiguous and (for system-ordered lists) sorted instances, keys
   present, recursively - whatever the options *)
Theorem C14_merge_canon : forall sch o T S,
  Canon sch T -> Canon sch S -> Canon sch (merge sch o T S).
Proof. exact merge_canon. Qed.
Print Assumptions C14_merge_canon.

(* merging valid operands does not create two siblings with one identity *)
Theorem C14_merge_uniq : forall sch o T S,
  Canon sch S -> UniqIds sch T -> UniqIds sch S -> UniqIds sch (merge sch o T S).
Proof. exact merge_uniq. Qed.
Print Assumptions C14_merge_uniq.

(* every explicit source node (with LYD_MERGE_DEFAULTS: every source node), addressed by its instance path, is in the
   merged tree at the same path, as an instance of the same schema node, and - leaf, leaf-list, anydata - with the
   source's value. Partial: nodes below a duplicate-instance list instance have no path. *)
Theorem C14_merge_contains_source_partial : forall sch o T S path n,
  schema_okb sch = true ->
  Canon sch T -> Canon sch S -> UniqIds sch T -> UniqIds sch S ->
  lookup_path sch S path = Some n -> expl o n ->
  exists n', lookup_path sch (merge sch o T S) path = Some n' /\ d_sid n' = d_sid n /\
             (is_term sch (d_sid n) = true -> d_val n' = d_val n).
Proof. intros sch o T S path n H. exact (merge_contains_source sch o H T S path n). Qed.
Print Assumptions C14_merge_contains_source_partial.

(* a target node whose instance path the source does not contain is in the merged tree unchanged - the whole subtree
   with values, default flags and metadata. Partial: as above. *)
Theorem C14_merge_keeps_rest_partial : forall sch o T S path n,
  Canon sch T -> Canon sch S -> UniqIds sch T -> UniqIds sch S ->
  lookup_path sch T path = Some n -> lookup_path sch S path = None ->
  lookup_path sch (merge sch o T S) path = Some n.
Proof. exact merge_keeps_rest. Qed.
Print Assumptions C14_merge_keeps_rest_partial.

(* merging the same source again changes nothing (values, order, default flags, metadata). Partial: sources in which
   every node has an identity (no instances of duplicate-instance lists); user-ordered lists with keys are included. *)
Theorem C14_merge_idempotent_partial : forall sch o T S,
  Canon sch T -> Canon sch S -> UniqIds sch T -> UniqIds sch S -> Forall (AllId sch) S ->
  merge sch o (merge sch o T S) S = merge sch o T S.
Proof. exact merge_idempotent. Qed.
Print Assumptions C14_merge_idempotent_partial.

(* merging into an empty target yields the source - any canonical source with unique identities, duplicate-instance
   lists included (their equal instances are appended one by one because the lyd_dup_inst entry of the copies is used
   up). The C function marks the copies LYD_NEW unless LYD_MERGE_WITH_FLAGS; that flag is not in the model. *)
Theorem C14_merge_empty : forall sch o S,
  Canon sch S -> UniqIds sch S -> merge sch o [] S = S.
Proof. exact merge_empty. Qed.
Print Assumptions C14_merge_empty.

(* the source is an input of a function: it cannot change. Trivial in the model; on the C side the correspondence run
   compares the dump of the source before and after a non-destructive merge, and both merge modes (with and without
   LYD_MERGE_DESTRUCT) against this ONE function, so "same result whether or not the source is consumed" is tied there. *)
Theorem C14_merge_source_pure : forall sch o T S, snd (merge sch o T S, S) = S.
Proof. exact merge_source_pure. Qed.
Print Assumptions C14_merge_source_pure.

(* a duplicate is equal to the original (the model of lyd_dup_siblings is the identity: it can state equality, not
   independence) and a metadata-free duplicate is the original without metadata *)
Theorem C14_dup_equal : forall f, dup f = f.
Proof. reflexivity. Qed.
Print Assumptions C14_dup_equal.

(* the boolean checkers the correspondence run evaluates on every generated operand establish the hypotheses *)
Theorem C14_hypotheses_checkable : forall sch f,
  canonb sch None f = true -> uniq_idsb sch f = true -> Canon sch f /\ UniqIds sch f.
Proof. intros sch f H1 H2. split; [apply canonb_spec, H1|apply uniq_idsb_spec, H2]. Qed.
Print Assumptions C14_hypotheses_checkable.

(* ---- the hypotheses are satisfiable by non-trivial trees -------------------------------------------------------- *)
(* container c { leaf a (default 5); list l { key k; leaf v; } }  leaf-list ll (strings) *)
Definition ex_sch : schema :=
  [ (0, mk_sinfo (KCont false) None [] false true [] [] false 0 None OBytes);
    (1, mk_sinfo KLeaf (Some 0) [] false true [[53]] [] false 0 None OInt);
    (2, mk_sinfo KList (Some 0) [3] false true [] [] false 0 None OBytes);
    (3, mk_sinfo KLeaf (Some 2) [] false true [] [] false 0 None OInt);
    (4, mk_sinfo KLeaf (Some 2) [] false true [] [] false 0 None OBytes);
    (5, mk_sinfo KLeafList None [] false true [] [] false 0 None OBytes) ].

Definition ex_entry (k v : bytes) : dnode := DN 2 [] false [] [DN 3 k false [] []; DN 4 v false [] []].
(* target: c { a = 5 (default), l[1]{v=x}, l[3]{v=z} }, ll = [b] *)
Definition ex_T : forest :=
  [ DN 0 [] false [] [DN 1 [53] true [] []; ex_entry [49] [120]; ex_entry [51] [122]]; DN 5 [98] false [] [] ].
(* source: c { a = 7, l[2]{v=y}, l[3]{v=w} }, ll = [a, b] *)
Definition ex_S : forest :=
  [ DN 0 [] false [] [DN 1 [55] false [] []; ex_entry [50] [121]; ex_entry [51] [119]];
    DN 5 [97] false [] []; DN 5 [98] false [] [] ].
Definition ex_o : mopts := mk_mopts false false.

Example C14_example_hypotheses :
  schema_okb ex_sch = true /\ Canon ex_sch ex_T /\ Canon ex_sch ex_S /\ UniqIds ex_sch ex_T /\ UniqIds ex_sch ex_S /\
  Forall (AllId ex_sch) ex_S.
Proof.
  split; [vm_compute; reflexivity|].
  split; [apply canonb_spec; vm_compute; reflexivity|].
  split; [apply canonb_spec; vm_compute; reflexivity|].
  split; [apply uniq_idsb_spec; vm_compute; reflexivity|].
  split; [apply uniq_idsb_spec; vm_compute; reflexivity|].
  repeat constructor; apply all_idb_spec; vm_compute; reflexivity.
Qed.

(* and the merge does what one expects there: a overwritten (explicit now), l[2] inserted in key order, l[3] updated,
   ll gets a in front of b *)
Example C14_example_merge :
  merge ex_sch ex_o ex_T ex_S =
  [ DN 0 [] false [] [DN 1 [55] false [] []; ex_entry [49] [120]; ex_entry [50] [121]; ex_entry [51] [119]];
    DN 5 [97] false [] []; DN 5 [98] false [] [] ].
Proof. vm_compute. reflexivity. Qed.

Example C14_example_path :
  lookup_path ex_sch ex_S [IdNode 0; IdKeys 2 [[51]]; IdNode 4] = Some (DN 4 [119] false [] []) /\
  lookup_path ex_sch ex_T [IdNode 0; IdKeys 2 [[49]]] = Some (ex_entry [49] [120]) /\
  lookup_path ex_sch ex_S [IdNode 0; IdKeys 2 [[49]]] = None.
Proof. vm_compute. repeat split. Qed.
