(* Properties_C08_xpath.v — property C08 (XPath evaluation on data follows XPath 1.0 with the YANG data model):
   theorem statements only.
   Models: XPathSem.v - an executable REFERENCE semantics written from the W3C recommendation ([spec_flags]) with one
   switch per construct in which src/xpath.c departs from it ([impl_flags] = as coded); XPathConv.v - the conversion
   kernels, recommendation and as coded. Proofs: XPathSemP.v, XPathConvP.v; concrete witnesses: XPathExamples.v.
   The 10 kLoC evaluator of xpath.c is not transcribed: it is tied to [eval_top impl_flags] by the correspondence run
   (tools/props/comps_xpath.py), and every case in which [eval_top impl_flags] differs from [eval_top spec_flags] is a
   listed deviation of libyang (known_findings.d/xpath.json). *)
From Coq Require Import QArith Qround.
From LY Require Import Base XPathConv XPathConvP XPathTree XPathSem XPathSemP XPathExamples.
Local Open Scope N_scope.

(* Node-sets contain no duplicates and are in document order: every node-set value computed by the evaluator - any
   expression (all 13 axes, predicates, filters, unions, functions), any context, any tree whose node ids are the
   pre-order positions, any setting of the as-coded switches except the one that models the duplicate insertion of
   moveto_node_alldesc_child() - has strictly increasing document-order keys. *)
Theorem C08_eval_nodeset_sorted_nodup :
  forall fl t, wf_tree t -> f_alldup fl = false ->
  forall e cx l, eval fl t cx e = Ok (VSet l) -> sorted_items l = true.
Proof. exact eval_nodeset_sorted_nodup. Qed.
Print Assumptions C08_eval_nodeset_sorted_nodup.

Theorem C08_eval_nodeset_nodup :
  forall fl t, wf_tree t -> f_alldup fl = false ->
  forall e cx l, eval fl t cx e = Ok (VSet l) -> NoDup (map item_key l).
Proof. exact eval_nodeset_nodup. Qed.
Print Assumptions C08_eval_nodeset_nodup.

(* ... and the statement is FALSE for the code as it is (switch f_alldup on): '//' steps from nested context nodes
   insert a node twice. Witness (/a:c/a:l1[2] | /a:c/a:l1[2]/a:in)//a:x on the example tree: the set holds x twice. *)
Definition dup_witness : expr :=
  EStep (EUnion (chp (ch ERoot n_c) n_l1 (num [50])) (ch (chp (ch ERoot n_c) n_l1 (num [50])) n_in))
        true AxChild (nm n_x) PNil.

Theorem C08_nodeset_nodup_refuted :
  exists e l, eval_top impl_flags ex_tree IRoot e = Ok (VSet l) /\ ~ NoDup (map item_key l).
Proof.
  exists dup_witness.
  exists (match eval_top impl_flags ex_tree IRoot dup_witness with Ok (VSet l) => l | _ => [] end).
  split.
  - vm_compute. reflexivity.
  - assert (Hk : map item_key (match eval_top impl_flags ex_tree IRoot dup_witness with Ok (VSet l) => l | _ => [] end)
                 = [25; 25]) by (vm_compute; reflexivity).
    rewrite Hk. intro H. inversion H as [|x l Hn Hd]. apply Hn. left. reflexivity.
Qed.
Print Assumptions C08_nodeset_nodup_refuted.

(* a | b = b | a  (same nodes) *)
Theorem C08_union_comm :
  forall fl t cx a b l1 l2,
  eval fl t cx (EUnion a b) = Ok (VSet l1) -> eval fl t cx (EUnion b a) = Ok (VSet l2) ->
  map item_key l1 = map item_key l2.
Proof. exact union_comm. Qed.
Print Assumptions C08_union_comm.

(* e[true()] = e *)
Theorem C08_predicate_true_identity :
  forall fl t cx e l,
  eval fl t cx e = Ok (VSet l) -> eval fl t cx (EFilter e (PCons (EFun0 FTrue) PNil)) = Ok (VSet l).
Proof. exact filter_true_identity. Qed.
Print Assumptions C08_predicate_true_identity.

(* child::test from a context node = the items whose parent it is and that pass the test, in document order *)
Theorem C08_child_step_is_filter_of_children :
  forall t cx nt,
  eval spec_flags t cx (EStep ECtx false AxChild nt PNil) =
  Ok (VSet (filter (fun m => is_parent (c_item cx) m && node_test spec_flags nt (c_item cx) m) (all_items t))).
Proof. exact child_step_is_filter_of_children. Qed.
Print Assumptions C08_child_step_is_filter_of_children.

(* a step without predicates selects the union over the context nodes (per-node definition = selection from the
   whole document) *)
Theorem C08_step_no_preds_is_union :
  forall t cx base ax nt S0, wf_tree t -> is_ns_axis ax = false -> is_attr_axis ax = false ->
  eval spec_flags t cx base = Ok (VSet S0) ->
  eval spec_flags t cx (EStep base false ax nt PNil) = Ok (VSet (step_union spec_flags t ax nt S0)).
Proof. exact step_no_preds_is_union. Qed.
Print Assumptions C08_step_no_preds_is_union.

(* base//step = base/descendant-or-self::node()/step *)
Theorem C08_descendant_or_self_decomposes :
  forall t cx base ax nt S0, wf_tree t -> is_ns_axis ax = false -> is_attr_axis ax = false ->
  eval spec_flags t cx base = Ok (VSet S0) ->
  eval spec_flags t cx (EStep base true ax nt PNil) =
  eval spec_flags t cx (EStep (EStep base false AxDescendantOrSelf TNode PNil) false ax nt PNil).
Proof. exact descendant_or_self_decomposes. Qed.
Print Assumptions C08_descendant_or_self_decomposes.

(* l[k='v']: exactly the children named l with a child named k whose string value is v - the semantic statement the
   hash-based key lookup of the code (eval_name_test_try_compile_predicates + moveto_node_hash_child) has to agree with *)
Theorem C08_fastpath_equiv :
  forall t cx m ln k v,
  eval spec_flags t cx
    (EStep ECtx false AxChild (TName (Some m) ln)
       (PCons (ECmp CEq (EStep ECtx false AxChild (TName (Some m) k) PNil) (ELit v)) PNil)) =
  Ok (VSet (filter (fun inst => existsb (fun d => beq_bytes (string_value spec_flags t d) v)
                                        (cands spec_flags t AxChild (TName (Some m) k) inst))
                   (cands spec_flags t AxChild (TName (Some m) ln) (c_item cx)))).
Proof. exact fastpath_equiv. Qed.
Print Assumptions C08_fastpath_equiv.

(* the lookup as coded agrees only for string right-hand sides: with a number it compares '5.0' with '5' *)
Theorem C08_fastpath_nonstring_rhs_refuted :
  exists e, observe (eval_top spec_flags ex_tree IRoot e) = ONodes [7] /\
            observe (eval_top impl_flags ex_tree IRoot e) = ONodes [].
Proof. eexists. exact fastpath_nonstring_rhs_refuted. Qed.
Print Assumptions C08_fastpath_nonstring_rhs_refuted.

(* conversions: strtold() = XPath number() on plain numerals (optional minus, digits, points) *)
Theorem C08_s2n_impl_eq_spec_plain :
  forall prec (neg : bool) body, forallb num_char body = true ->
  impl_s2n prec ((if neg then [45] else []) ++ body) = spec_s2n prec ((if neg then [45] else []) ++ body).
Proof. exact s2n_impl_eq_spec_plain. Qed.
Print Assumptions C08_s2n_impl_eq_spec_plain.

Theorem C08_s2n_refuted :
  (impl_s2n 64 (B [49; 101; 51]%Z) = x_of_Z 1000 /\ spec_s2n 53 (B [49; 101; 51]%Z) = XNaN) /\
  (impl_s2n 64 (B [32; 53; 32]%Z) = XNaN /\ spec_s2n 53 (B [32; 53; 32]%Z) = x_of_Z 5).
Proof. exact (conj s2n_exponent_refuted s2n_trailing_space_refuted). Qed.
Print Assumptions C08_s2n_refuted.

(* number -> string: integers in the long long range as the recommendation says; fractions get one digit *)
Theorem C08_n2s_impl_eq_spec_int :
  forall prec neg z, (0 <= z <= ll_max)%Z ->
  impl_n2s (XFin neg (inject_Z z)) = spec_n2s prec (XFin neg (inject_Z z)).
Proof. exact n2s_impl_eq_spec_int. Qed.
Print Assumptions C08_n2s_impl_eq_spec_int.

Theorem C08_n2s_refuted :
  impl_n2s (XFin false (1 # 4)) = B [48; 46; 50]%Z /\ spec_n2s 53 (XFin false (1 # 4)) = B [48; 46; 50; 53]%Z.
Proof. exact n2s_quarter_refuted. Qed.
Print Assumptions C08_n2s_refuted.

(* floor(): correct for non-negative numbers, truncation towards zero for negative ones *)
Theorem C08_floor_impl_eq_spec_nonneg :
  forall m, Qle 0 m -> (Qfloor m <= ll_max)%Z ->
  exists r, impl_floor (XFin false m) = Some r /\ x_eq r (spec_floor (XFin false m)) = true.
Proof. exact floor_impl_eq_spec_nonneg. Qed.
Print Assumptions C08_floor_impl_eq_spec_nonneg.

Theorem C08_floor_ceiling_refuted :
  (impl_floor (XFin true (3 # 2)) = Some (x_of_Z (-1)) /\ spec_floor (XFin true (3 # 2)) = XFin true (inject_Z 2)) /\
  (impl_ceiling (XFin true (3 # 2)) = x_of_Z 0 /\ spec_ceiling (XFin true (3 # 2)) = XFin true (inject_Z 1)) /\
  (impl_floor XNaN = None /\ spec_floor XNaN = XNaN).
Proof. exact (conj floor_negative_refuted (conj ceiling_negative_refuted floor_nan_refuted)). Qed.
Print Assumptions C08_floor_ceiling_refuted.

(* string-length(): bytes = characters for ASCII only *)
Theorem C08_string_length_ascii :
  forall s, forallb (fun b => b <? 128) s = true -> impl_string_length s = spec_string_length s.
Proof. exact string_length_ascii. Qed.
Print Assumptions C08_string_length_ascii.

(* the hypotheses are satisfiable by a non-trivial value: the example tree is well formed and /a:c/a:l1 selects two
   list instances, in the reference semantics and as coded *)
Example C08_hypotheses_satisfiable :
  wf_tree ex_tree /\ f_alldup spec_flags = false /\
  observe (eval_top spec_flags ex_tree IRoot p_c_l1) = ONodes [7; 17] /\
  observe (eval_top impl_flags ex_tree IRoot p_c_l1) = ONodes [7; 17].
Proof. split; [exact ex_tree_wf|]. split; [reflexivity|]. exact ex_path. Qed.
